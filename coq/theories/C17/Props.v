(** C17 — property theorems.  This file contains nothing but statements closed by [exact].
    [_Q]: exact rational arithmetic of the same model term that the correspondence check runs in
    binary64; [_b64]: about IEEE values proper; no suffix: for ANY number type and operations
    (hence bit-for-bit for binary64). *)
From Coq Require Import ZArith QArith Qabs Qreduction List.
From KV Require Import Base.IEEE Base.Outcome Base.Num C19.Model C17.Model
  C17.ProofsLfo C17.ProofsTween C17.ProofsOrder C17.ProofsMap C17.ProofsExamples.
Import ListNotations.
Local Open Scope Q_scope.

(** Every waveform stays in [-1, 1] for a non-negative phase (sine: for any oracle with |sin| <= 1). *)
Theorem waveform_range_Q :
  forall (tau : Q) (sin : Q -> Q),
    (forall x : Q, -1 <= sin x /\ sin x <= 1) ->
    forall (w : waveform Q) (phase : Q), 0 <= phase ->
      -1 <= wave_value tau sin w phase /\ wave_value tau sin w phase <= 1.
Proof. exact wave_range. Qed.

(** One [Lfo::update] with any parameter links / tweens, any starting phase or [set_phase] of
    any sign, any frequency: the new phase is in [0,1) and the value lies within
    offset +/- |amplitude| of the offset and amplitude in force.  (F15, repaired in /repo:
    before the repair this needed a non-negative phase and frequency.) *)
Theorem lfo_value_range_Q :
  forall (tau : Q) (sin : Q -> Q) (powf : Q -> Q -> Q) (secs_to_ns : Q -> Z) (ns_to_secs : Z -> Q),
    (forall x : Q, -1 <= sin x /\ sin x <= 1) ->
    forall (dt : Q) (lookup : Z -> option Q) (l : lfo Q),
      let l' := lfo_update tau sin powf secs_to_ns ns_to_secs dt lookup l in
      (0 <= l_phase l' /\ l_phase l' < 1) /\
      p_raw (l_off l') - Qabs (p_raw (l_amp l')) <= l_value l' /\
      l_value l' <= p_raw (l_off l') + Qabs (p_raw (l_amp l')).
Proof. exact lfo_update_spec. Qed.

(** phase in [0,1) after any non-empty sequence of updates from ANY phase, and preserved from
    a phase in [0,1). *)
Theorem phase_invariant_Q :
  forall (tau : Q) (sin : Q -> Q) (w : waveform Q) (f a o : Q) (dts : list Q) (phase : Q),
    dts <> [] \/ (0 <= phase /\ phase < 1) ->
    0 <= lfo_phase_run tau sin w f a o dts phase /\ lfo_phase_run tau sin w f a o dts phase < 1.
Proof. exact lfo_phase_run_invariant. Qed.

(** Regression of F15: Saw, frequency 0, starting phase -0.9 turns (used to give -1.8): after the
    first update the phase is 0.1 and the value 0.2. *)
Theorem negative_phase_witness_Q :
  l_phase f15_lfo = - (9 # 10) /\ l_phase f15_after = 1 # 10 /\ l_value f15_after = 1 # 5.
Proof. exact negative_phase_witness_Q_proof. Qed.

(** the same in binary64: negative starting phase, then phase in [0,1) and value in 0 +/- |1|. *)
Theorem negative_phase_witness_b64 :
  signbit64 (l_phase f15_lfo64) = true /\
  le64 (Z64 0) (l_phase f15_after64) = true /\ lt64 (l_phase f15_after64) (Z64 1) = true /\
  le64 (sub64 (Z64 0) (abs64 (Z64 1))) (l_value f15_after64) = true /\
  le64 (l_value f15_after64) (add64 (Z64 0) (abs64 (Z64 1))) = true.
Proof. exact negative_phase_witness_b64_proof. Qed.

(** binary64 only: [rem_euclid(1.0)] of -2^-63 is exactly 1.0, so in binary64 the phase lives in
    [0,1]; at phase 1.0 the piecewise waveforms are 0, 0 and -1. *)
Theorem phase_one_b64 :
  bits_of_f64 (nrem_euclid1 (f64_of_bits 0xBC00000000000000)) = bits_of_f64 (Z64 1) /\
  bits_of_f64 (wave_value tau64 (fun x => x) Triangle (Z64 1)) = bits_of_f64 (Z64 0) /\
  bits_of_f64 (wave_value tau64 (fun x => x) Saw (Z64 1)) = bits_of_f64 (Z64 0) /\
  bits_of_f64 (wave_value tau64 (fun x => x) (Pulse (Z64 1)) (Z64 1)) = bits_of_f64 (nm1 (T:=f64)).
Proof. exact phase_one_b64_proof. Qed.

(** The phase after ANY partition of time t into updates is frac(phase0 + f * t) (Euclidean
    fractional part; any signs). *)
Theorem lfo_frequency_Q :
  forall (tau : Q) (sin : Q -> Q) (w : waveform Q) (f a o : Q) (dts : list Q) (phase0 : Q),
    dts <> [] \/ (0 <= phase0 /\ phase0 < 1) ->
    lfo_phase_run tau sin w f a o dts phase0 == Qfrac_e (phase0 + f * Qsum dts).
Proof. exact lfo_frequency_Q_proof. Qed.

(** The tweener modulator, from [set] on, for every partition [dts] of time: the value depends
    only on the elapsed total, follows start + (target - start) * ease(elapsed / duration) before
    the end, is identically the target from the end on, and stays there. *)
Theorem tweener_law :
  forall (powf : Q -> Q -> Q) (secs_to_ns : Q -> Z) (ns_to_secs : Z -> Q) (t0 : tweener Q)
         (target : Q) (st : start_time) (dur : Z) (e : easing Q) (dts : list Q),
    start_ready st -> all_nonneg dts -> dts <> [] ->
    let tw := {| tw_start := st; tw_dur := dur; tw_easing := e |} in
    let d := ns_to_secs dur in
    let el := Qred (Qsum dts) in
    let t := trun powf secs_to_ns ns_to_secs dts (tweener_set t0 target tw) in
    (el < d -> t_value t = lerp (t_value t0) target (ease powf e (ndiv el d))) /\
    (d <= el ->
       t_value t = target /\ t_state t = TIdle /\
       (forall more : list Q, t_value (trun powf secs_to_ns ns_to_secs more t) = target)).
Proof. exact tweener_law_proof. Qed.

(** A delayed start only counts down while the remaining delay is positive: value and tween
    time do not move (the tween starts at the first update that finds the delay at zero). *)
Theorem tweener_delayed_waits :
  forall (powf : Q -> Q -> Q) (secs_to_ns : Q -> Z) (ns_to_secs : Z -> Q) (v0 v1 time : Q)
         (r dur : Z) (e : easing Q) (value dt : Q),
    (0 < r)%Z ->
    tweener_update powf secs_to_ns ns_to_secs dt
      {| t_state := TTweening v0 v1 time {| tw_start := Delayed r; tw_dur := dur; tw_easing := e |};
         t_value := value |} =
    {| t_state := TTweening v0 v1 time
                    {| tw_start := Delayed (Z.max 0 (r - secs_to_ns dt)); tw_dur := dur; tw_easing := e |};
       t_value := value |}.
Proof. exact tweener_delayed_waits_proof. Qed.

(** In the renderer model, for any list of chunk lengths: per chunk, every modulator's [update]
    is called exactly once, in key order, with dt * len, before every clock update and every
    mixer-side reader. *)
Theorem once_per_chunk :
  forall (T : Type) (NT : Num T) (tau : T) (sin : T -> T) (powf : T -> T -> T) (secs_to_ns : T -> Z)
         (ns_to_secs : Z -> T) (lens : list Z) (st : rstate T),
    map call_of (r_log (fold_left (process_chunk tau sin powf secs_to_ns ns_to_secs) lens st)) =
    map call_of (r_log st) ++
    flat_map (expected_calls (r_dt st) (map fst (r_mods st)) (map fst (r_clocks st)) (map fst (r_probes st)))
             lens.
Proof. exact (fun T NT => @once_per_chunk_proof T NT). Qed.

(** A mixer-side parameter linked to modulator [id] equals, after the chunk, the mapping of the
    value the modulator has AFTER this chunk's update; if the id does not resolve it holds. *)
Theorem linked_same_chunk :
  forall (T : Type) (NT : Num T) (tau : T) (sin : T -> T) (powf : T -> T -> T) (secs_to_ns : T -> Z)
         (ns_to_secs : Z -> T) (st : rstate T) (len pid w id : Z) (m : mapping T) (raw0 : T),
    In (pid, PrParam w (linked id m raw0)) (r_probes st) ->
    let st' := process_chunk tau sin powf secs_to_ns ns_to_secs st len in
    In (pid, PrParam w (linked id m
          match lookup_val (vals_of (r_mods st')) id with
          | Some x => map_value powf m x
          | None => raw0
          end)) (r_probes st').
Proof. exact (fun T NT => @linked_same_chunk_proof T NT). Qed.

(** The same for a clock's speed. *)
Theorem linked_clock_same_chunk :
  forall (T : Type) (NT : Num T) (tau : T) (sin : T -> T) (powf : T -> T -> T) (secs_to_ns : T -> Z)
         (ns_to_secs : Z -> T) (st : rstate T) (len cid id : Z) (m : mapping T) (raw0 : T)
         (tk started : bool) (ticks : Z) (frac : T),
    In (cid, {| c_speed := linked id m raw0; c_ticking := tk; c_started := started;
                c_ticks := ticks; c_frac := frac |}) (r_clocks st) ->
    let st' := process_chunk tau sin powf secs_to_ns ns_to_secs st len in
    exists c' : clock T,
      In (cid, c') (r_clocks st') /\
      c_speed c' = linked id m match lookup_val (vals_of (r_mods st')) id with
                               | Some x => map_value powf m x
                               | None => raw0
                               end.
Proof. exact (fun T NT => @linked_clock_same_chunk_proof T NT). Qed.

(** Modulator -> modulator: the modulator at any position of the key order is updated with a
    view consisting of the NEW values (this chunk's) of the modulators before it, the dummy
    value 0.0 under its own id, and the OLD values (previous chunk's) of the modulators after it. *)
Theorem modulator_chain_lag :
  forall (T : Type) (NT : Num T) (tau : T) (sin : T -> T) (powf : T -> T -> T) (secs_to_ns : T -> Z)
         (ns_to_secs : Z -> T) (dt : T) (pre : list (Z * modulator T)) (id : Z) (m : modulator T)
         (post : list (Z * modulator T)),
    exists pre' post' : list (Z * modulator T),
      fst (process_mods tau sin powf secs_to_ns ns_to_secs dt [] (pre ++ (id, m) :: post)) =
      pre' ++ (id, mod_update tau sin powf secs_to_ns ns_to_secs dt (view pre' id post) m) :: post' /\
      map fst pre' = map fst pre /\
      map fst post' = map fst post /\
      (forall j : Z, In j (map fst pre) -> view pre' id post j = lookup_val (vals_of pre') j) /\
      (~ In id (map fst pre) -> view pre' id post id = Some n0) /\
      (forall j : Z, ~ In j (map fst pre) -> j <> id -> view pre' id post j = lookup_val (vals_of post) j).
Proof. exact (fun T NT => @modulator_chain_lag_proof T NT). Qed.

(** F23 (known finding, class modulator_chain_reader_updated_first): a modulator whose parameter is
    linked to a modulator updated LATER in the chunk does not follow in-chunk -- after the chunk the
    reader (an LFO with amplitude 0 whose offset is linked to [mid] through [m]) does not have the
    value [map (value of mid after this chunk's update)]; the same holds for a link to its own id. *)
Theorem modulator_chain_reader_first_refuted :
  exists (mods : list (Z * modulator Q)) (rid mid : Z) (m : mapping Q),
    let mods' := fst (process_mods 6 half1 idp s2n n2s (1 # 4) [] mods) in
    exists x r : Q,
      lookup_val (vals_of mods') mid = Some x /\ lookup_val (vals_of mods') rid = Some r /\
      ~ r == map_value idp m x.
Proof. exact chain_reader_first_refuted_proof. Qed.

(** [Mapping::map] of any input equals the map of the input clamped to the input range, for
    normal and for inverted ranges. *)
Theorem mapping_clamps_Q :
  forall (powf : Q -> Q -> Q) (m : mapping Q) (x : Q),
    (in_lo m < in_hi m -> map_value powf m x = map_value powf m (clamp_to (in_lo m) (in_hi m) x)) /\
    (in_hi m < in_lo m -> map_value powf m x = map_value powf m (clamp_to (in_hi m) (in_lo m) x)).
Proof. exact mapping_clamps_proof. Qed.

(** Once a modulator id is gone (ids are never reused), a parameter linked to it keeps its
    last value through any further history that does not add that id. *)
Theorem holds_after_removal :
  forall (T : Type) (NT : Num T) (tau : T) (sin : T -> T) (powf : T -> T -> T) (secs_to_ns : T -> Z)
         (ns_to_secs : Z -> T) (ibs : Z) (ops : list (op T)) (st : rstate T) (pid w id : Z)
         (m : mapping T) (raw0 : T),
    Forall (fun o : op T => ~ adds id o) ops ->
    gone id st ->
    In (pid, PrParam w (linked id m raw0)) (r_probes st) ->
    In (pid, PrParam w (linked id m raw0))
       (r_probes (fold_left (apply_op tau sin powf secs_to_ns ns_to_secs ibs) ops st)).
Proof. exact (fun T NT => @holds_after_removal_proof T NT). Qed.

(** A dropped handle takes its modulator out of the arena at the start of the next callback. *)
Theorem removed_at_next_callback :
  forall (T : Type) (NT : Num T) (st : rstate T) (id : Z),
    In id (r_removed st) -> ~ In id (map fst (r_new st)) -> gone id (start_processing st).
Proof. exact (fun T NT => @removed_at_next_callback_proof T NT). Qed.
