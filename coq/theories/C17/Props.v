(** C17 — property theorems.  This file contains nothing but statements closed by [exact].
    [_Q]: exact rational arithmetic of the same model term that the correspondence check runs in
    binary64; [_b64]: about IEEE values proper; no suffix: for ANY number type and operations
    (hence bit-for-bit for binary64). *)
From Coq Require Import ZArith QArith Qabs Qreduction List.
From KV Require Import Base.IEEE Base.Outcome Base.Num C19.Model C17.Model C17.ModelX
  C17.ProofsLfo C17.ProofsTween C17.ProofsOrder C17.ProofsMap C17.ProofsExamples
  C17.ProofsSet C17.ProofsChunk C17.ProofsXExamples.
Import ListNotations.
Local Open Scope Q_scope.

(** Every waveform stays in [-1, 1] for a non-negative phase (sine: for any oracle with |sin| <= 1). *)
Theorem waveform_range_Q :
  forall (tau : Q) (sin : Q -> Q),
    (forall x : Q, -1 <= sin x /\ sin x <= 1) ->
    forall (w : waveform Q) (phase : Q), 0 <= phase ->
      -1 <= wave_value tau sin w phase /\ wave_value tau sin w phase <= 1.
Proof. exact wave_range. Qed.

(** One [Lfo::update] with any parameter links / tweens, any starting phase or [set_phase] of
    any sign, any frequency: the new phase is in [0,1) and the value lies within
    offset +/- |amplitude| of the offset and amplitude in force.  (F15, repaired in /repo:
    before the repair this needed a non-negative phase and frequency.) *)
Theorem lfo_value_range_Q :
  forall (tau : Q) (sin : Q -> Q) (powf : Q -> Q -> Q) (secs_to_ns : Q -> Z) (ns_to_secs : Z -> Q),
    (forall x : Q, -1 <= sin x /\ sin x <= 1) ->
    forall (dt : Q) (lookup : Z -> option Q) (l : lfo Q),
      let l' := lfo_update tau sin powf secs_to_ns ns_to_secs dt lookup l in
      (0 <= l_phase l' /\ l_phase l' < 1) /\
      p_raw (l_off l') - Qabs (p_raw (l_amp l')) <= l_value l' /\
      l_value l' <= p_raw (l_off l') + Qabs (p_raw (l_amp l')).
Proof. exact lfo_update_spec. Qed.

(** phase in [0,1) after any non-empty sequence of updates from ANY phase, and preserved from
    a phase in [0,1). *)
Theorem phase_invariant_Q :
  forall (tau : Q) (sin : Q -> Q) (w : waveform Q) (f a o : Q) (dts : list Q) (phase : Q),
    dts <> [] \/ (0 <= phase /\ phase < 1) ->
    0 <= lfo_phase_run tau sin w f a o dts phase /\ lfo_phase_run tau sin w f a o dts phase < 1.
Proof. exact lfo_phase_run_invariant. Qed.

(** Regression of F15: Saw, frequency 0, starting phase -0.9 turns (used to give -1.8): after the
    first update the phase is 0.1 and the value 0.2. *)
Theorem negative_phase_witness_Q :
  l_phase f15_lfo = - (9 # 10) /\ l_phase f15_after = 1 # 10 /\ l_value f15_after = 1 # 5.
Proof. exact negative_phase_witness_Q_proof. Qed.

(** the same in binary64: negative starting phase, then phase in [0,1) and value in 0 +/- |1|. *)
Theorem negative_phase_witness_b64 :
  signbit64 (l_phase f15_lfo64) = true /\
  le64 (Z64 0) (l_phase f15_after64) = true /\ lt64 (l_phase f15_after64) (Z64 1) = true /\
  le64 (sub64 (Z64 0) (abs64 (Z64 1))) (l_value f15_after64) = true /\
  le64 (l_value f15_after64) (add64 (Z64 0) (abs64 (Z64 1))) = true.
Proof. exact negative_phase_witness_b64_proof. Qed.

(** binary64 only: [rem_euclid(1.0)] of -2^-63 is exactly 1.0, so in binary64 the phase lives in
    [0,1]; at phase 1.0 the piecewise waveforms are 0, 0 and -1. *)
Theorem phase_one_b64 :
  bits_of_f64 (nrem_euclid1 (f64_of_bits 0xBC00000000000000)) = bits_of_f64 (Z64 1) /\
  bits_of_f64 (wave_value tau64 (fun x => x) Triangle (Z64 1)) = bits_of_f64 (Z64 0) /\
  bits_of_f64 (wave_value tau64 (fun x => x) Saw (Z64 1)) = bits_of_f64 (Z64 0) /\
  bits_of_f64 (wave_value tau64 (fun x => x) (Pulse (Z64 1)) (Z64 1)) = bits_of_f64 (nm1 (T:=f64)).
Proof. exact phase_one_b64_proof. Qed.

(** The phase after ANY partition of time t into updates is frac(phase0 + f * t) (Euclidean
    fractional part; any signs). *)
Theorem lfo_frequency_Q :
  forall (tau : Q) (sin : Q -> Q) (w : waveform Q) (f a o : Q) (dts : list Q) (phase0 : Q),
    dts <> [] \/ (0 <= phase0 /\ phase0 < 1) ->
    lfo_phase_run tau sin w f a o dts phase0 == Qfrac_e (phase0 + f * Qsum dts).
Proof. exact lfo_frequency_Q_proof. Qed.

(** The tweener modulator, from [set] on, for every partition [dts] of time: the value depends
    only on the elapsed total, follows start + (target - start) * ease(elapsed / duration) before
    the end, is identically the target from the end on, and stays there. *)
Theorem tweener_law :
  forall (powf : Q -> Q -> Q) (secs_to_ns : Q -> Z) (ns_to_secs : Z -> Q) (t0 : tweener Q)
         (target : Q) (st : start_time) (dur : Z) (e : easing Q) (dts : list Q),
    start_ready st -> all_nonneg dts -> dts <> [] ->
    let tw := {| tw_start := st; tw_dur := dur; tw_easing := e |} in
    let d := ns_to_secs dur in
    let el := Qred (Qsum dts) in
    let t := trun powf secs_to_ns ns_to_secs dts (tweener_set t0 target tw) in
    (el < d -> t_value t = lerp (t_value t0) target (ease powf e (ndiv el d))) /\
    (d <= el ->
       t_value t = target /\ t_state t = TIdle /\
       (forall more : list Q, t_value (trun powf secs_to_ns ns_to_secs more t) = target)).
Proof. exact tweener_law_proof. Qed.

(** A delayed start only counts down while the remaining delay is positive: value and tween
    time do not move (the tween starts at the first update that finds the delay at zero). *)
Theorem tweener_delayed_waits :
  forall (powf : Q -> Q -> Q) (secs_to_ns : Q -> Z) (ns_to_secs : Z -> Q) (v0 v1 time : Q)
         (r dur : Z) (e : easing Q) (value dt : Q),
    (0 < r)%Z ->
    tweener_update powf secs_to_ns ns_to_secs dt
      {| t_state := TTweening v0 v1 time {| tw_start := Delayed r; tw_dur := dur; tw_easing := e |};
         t_value := value |} =
    {| t_state := TTweening v0 v1 time
                    {| tw_start := Delayed (Z.max 0 (r - secs_to_ns dt)); tw_dur := dur; tw_easing := e |};
       t_value := value |}.
Proof. exact tweener_delayed_waits_proof. Qed.

(** In the renderer model, for any list of chunk lengths: per chunk, every modulator's [update]
    is called exactly once, in key order, with dt * len, before every clock update and every
    mixer-side reader. *)
Theorem once_per_chunk :
  forall (T : Type) (NT : Num T) (tau : T) (sin : T -> T) (powf : T -> T -> T) (secs_to_ns : T -> Z)
         (ns_to_secs : Z -> T) (lens : list Z) (st : rstate T),
    map call_of (r_log (fold_left (process_chunk tau sin powf secs_to_ns ns_to_secs) lens st)) =
    map call_of (r_log st) ++
    flat_map (expected_calls (r_dt st) (map fst (r_mods st)) (map fst (r_clocks st)) (map fst (r_probes st)))
             lens.
Proof. exact (fun T NT => @once_per_chunk_proof T NT). Qed.

(** A mixer-side parameter linked to modulator [id] equals, after the chunk, the mapping of the
    value the modulator has AFTER this chunk's update; if the id does not resolve it holds. *)
Theorem linked_same_chunk :
  forall (T : Type) (NT : Num T) (tau : T) (sin : T -> T) (powf : T -> T -> T) (secs_to_ns : T -> Z)
         (ns_to_secs : Z -> T) (st : rstate T) (len pid w id : Z) (m : mapping T) (raw0 : T),
    In (pid, PrParam w (linked id m raw0)) (r_probes st) ->
    let st' := process_chunk tau sin powf secs_to_ns ns_to_secs st len in
    In (pid, PrParam w (linked id m
          match lookup_val (vals_of (r_mods st')) id with
          | Some x => map_value powf m x
          | None => raw0
          end)) (r_probes st').
Proof. exact (fun T NT => @linked_same_chunk_proof T NT). Qed.

(** The same for a clock's speed. *)
Theorem linked_clock_same_chunk :
  forall (T : Type) (NT : Num T) (tau : T) (sin : T -> T) (powf : T -> T -> T) (secs_to_ns : T -> Z)
         (ns_to_secs : Z -> T) (st : rstate T) (len cid id : Z) (m : mapping T) (raw0 : T)
         (tk started : bool) (ticks : Z) (frac : T),
    In (cid, {| c_speed := linked id m raw0; c_ticking := tk; c_started := started;
                c_ticks := ticks; c_frac := frac |}) (r_clocks st) ->
    let st' := process_chunk tau sin powf secs_to_ns ns_to_secs st len in
    exists c' : clock T,
      In (cid, c') (r_clocks st') /\
      c_speed c' = linked id m match lookup_val (vals_of (r_mods st')) id with
                               | Some x => map_value powf m x
                               | None => raw0
                               end.
Proof. exact (fun T NT => @linked_clock_same_chunk_proof T NT). Qed.

(** Modulator -> modulator: the modulator at any position of the key order is updated with a
    view consisting of the NEW values (this chunk's) of the modulators before it, the dummy
    value 0.0 under its own id, and the OLD values (previous chunk's) of the modulators after it. *)
Theorem modulator_chain_lag :
  forall (T : Type) (NT : Num T) (tau : T) (sin : T -> T) (powf : T -> T -> T) (secs_to_ns : T -> Z)
         (ns_to_secs : Z -> T) (dt : T) (pre : list (Z * modulator T)) (id : Z) (m : modulator T)
         (post : list (Z * modulator T)),
    exists pre' post' : list (Z * modulator T),
      fst (process_mods tau sin powf secs_to_ns ns_to_secs dt [] (pre ++ (id, m) :: post)) =
      pre' ++ (id, mod_update tau sin powf secs_to_ns ns_to_secs dt (view pre' id post) m) :: post' /\
      map fst pre' = map fst pre /\
      map fst post' = map fst post /\
      (forall j : Z, In j (map fst pre) -> view pre' id post j = lookup_val (vals_of pre') j) /\
      (~ In id (map fst pre) -> view pre' id post id = Some n0) /\
      (forall j : Z, ~ In j (map fst pre) -> j <> id -> view pre' id post j = lookup_val (vals_of post) j).
Proof. exact (fun T NT => @modulator_chain_lag_proof T NT). Qed.

(** F23 (known finding, class modulator_chain_reader_updated_first): a modulator whose parameter is
    linked to a modulator updated LATER in the chunk does not follow in-chunk -- after the chunk the
    reader (an LFO with amplitude 0 whose offset is linked to [mid] through [m]) does not have the
    value [map (value of mid after this chunk's update)]; the same holds for a link to its own id. *)
Theorem modulator_chain_reader_first_refuted :
  exists (mods : list (Z * modulator Q)) (rid mid : Z) (m : mapping Q),
    let mods' := fst (process_mods 6 half1 idp s2n n2s (1 # 4) [] mods) in
    exists x r : Q,
      lookup_val (vals_of mods') mid = Some x /\ lookup_val (vals_of mods') rid = Some r /\
      ~ r == map_value idp m x.
Proof. exact chain_reader_first_refuted_proof. Qed.

(** [Mapping::map] of any input equals the map of the input clamped to the input range, for
    normal and for inverted ranges. *)
Theorem mapping_clamps_Q :
  forall (powf : Q -> Q -> Q) (m : mapping Q) (x : Q),
    (in_lo m < in_hi m -> map_value powf m x = map_value powf m (clamp_to (in_lo m) (in_hi m) x)) /\
    (in_hi m < in_lo m -> map_value powf m x = map_value powf m (clamp_to (in_hi m) (in_lo m) x)).
Proof. exact mapping_clamps_proof. Qed.

(** Once a modulator id is gone (ids are never reused), a parameter linked to it keeps its
    last value through any further history that does not add that id. *)
Theorem holds_after_removal :
  forall (T : Type) (NT : Num T) (tau : T) (sin : T -> T) (powf : T -> T -> T) (secs_to_ns : T -> Z)
         (ns_to_secs : Z -> T) (ibs : Z) (ops : list (op T)) (st : rstate T) (pid w id : Z)
         (m : mapping T) (raw0 : T),
    Forall (fun o : op T => ~ adds id o) ops ->
    gone id st ->
    In (pid, PrParam w (linked id m raw0)) (r_probes st) ->
    In (pid, PrParam w (linked id m raw0))
       (r_probes (fold_left (apply_op tau sin powf secs_to_ns ns_to_secs ibs) ops st)).
Proof. exact (fun T NT => @holds_after_removal_proof T NT). Qed.

(** A dropped handle takes its modulator out of the arena at the start of the next callback. *)
Theorem removed_at_next_callback :
  forall (T : Type) (NT : Num T) (st : rstate T) (id : Z),
    In id (r_removed st) -> ~ In id (map fst (r_new st)) -> gone id (start_processing st).
Proof. exact (fun T NT => @removed_at_next_callback_proof T NT). Qed.

(** ** the tweener's command histories (complete [Tweener] with delayed and clock-timed starts) *)

(** In EVERY history of [set] commands and updates, what the tweener does from the moment a [set] is
    read does not depend on what came before (idle, a pending transition, a running one) but for the
    value it had at that moment: the earlier transition is gone. *)
Theorem tweener_set_supersedes :
  forall (T : Type) (NT : Num T) (powf : T -> T -> T) (secs_to_ns : T -> Z) (ns_to_secs : Z -> T)
         (before after : list (xev T)) (v : T) (tw : xtween T) (t0 : xtweener T),
    xrun powf secs_to_ns ns_to_secs (@xtweener_set T NT) (before ++ XSet v tw :: after) t0 =
    xrun powf secs_to_ns ns_to_secs (@xtweener_set T NT) (XSet v tw :: after)
         (xtweener_new (x_value (xrun powf secs_to_ns ns_to_secs (@xtweener_set T NT) before t0))).
Proof. exact (fun T NT => @set_supersedes_proof T NT). Qed.

(** ... and so for the values a probe reads once per chunk. *)
Theorem tweener_set_supersedes_trace :
  forall (T : Type) (NT : Num T) (powf : T -> T -> T) (secs_to_ns : T -> Z) (ns_to_secs : Z -> T)
         (before after : list (xev T)) (v : T) (tw : xtween T) (t0 : xtweener T),
    xtrace powf secs_to_ns ns_to_secs (@xtweener_set T NT) (before ++ XSet v tw :: after) t0 =
    xtrace powf secs_to_ns ns_to_secs (@xtweener_set T NT) before t0 ++
    xtrace powf secs_to_ns ns_to_secs (@xtweener_set T NT) (XSet v tw :: after)
           (xtweener_new (x_value (xrun powf secs_to_ns ns_to_secs (@xtweener_set T NT) before t0))).
Proof. exact (fun T NT => @set_supersedes_trace_proof T NT). Qed.

(** From the moment [set(v, tw)] is read by a tweener in ANY state [t0] (so also when [v] is the
    value it has, and also when an earlier transition is pending or running): while the start time
    has not come ([ws]: a delay counting down, a clock that has not reached the time, is stopped or
    is gone) the value stays what it was and the transition is the new one; then, for every
    partition [us] of the time since the start, the value is
    value(t0) + (v - value(t0)) * ease(elapsed / duration) before the end, identically [v] from the
    end on, and [v] for ever (until the next command). *)
Theorem tweener_command_law :
  forall (powf : Q -> Q -> Q) (secs_to_ns : Q -> Z) (ns_to_secs : Z -> Q) (t0 : xtweener Q) (v : Q)
         (st st' : xstart Q) (dur : Z) (e : easing Q) (ws us : list (Q * cinfo Q)),
    pending secs_to_ns st ws = Some st' -> started_all secs_to_ns st' us -> all_nonneg (map fst us) ->
    let tw := {| xt_start := st; xt_dur := dur; xt_easing := e |} in
    let tw' := {| xt_start := st'; xt_dur := dur; xt_easing := e |} in
    let d := ns_to_secs dur in
    let t1 := xrun powf secs_to_ns ns_to_secs (@xtweener_set Q _) (XSet v tw :: xupds ws) t0 in
    x_value t1 = x_value t0 /\ x_state t1 = XTweening (x_value t0) v n0 tw' /\
    (us <> [] ->
     let el := Qred (Qsum (map fst us)) in
     let t2 := xrun powf secs_to_ns ns_to_secs (@xtweener_set Q _) (xupds us) t1 in
     (el < d -> x_value t2 = lerp (x_value t0) v (ease powf e (ndiv el d))) /\
     (d <= el ->
        x_value t2 = v /\ x_state t2 = XIdle /\
        (forall more : list (Q * cinfo Q),
           x_value (xrun powf secs_to_ns ns_to_secs (@xtweener_set Q _) (xupds more) t2) = v))).
Proof. exact xtweener_command_law_proof. Qed.

(** The finishing update, for any number type (bit-for-bit in binary64): the value becomes the
    target itself, the tweener idle. *)
Theorem tweener_finish_exact :
  forall (T : Type) (NT : Num T) (powf : T -> T -> T) (secs_to_ns : T -> Z) (ns_to_secs : Z -> T)
         (v0 v1 time : T) (tw : xtween T) (value dt : T) (ci : cinfo T),
    fst (xstart_step secs_to_ns dt ci (xt_start tw)) = true ->
    nleb (ns_to_secs (xt_dur tw)) (nadd time dt) = true ->
    xtweener_update powf secs_to_ns ns_to_secs dt ci
      {| x_state := XTweening v0 v1 time tw; x_value := value |} =
    {| x_state := XIdle; x_value := v1 |}.
Proof. exact (fun T NT => @xfinish_exact_proof T NT). Qed.

(** An update that finds the transition not started moves nothing but the start time. *)
Theorem tweener_pending_holds :
  forall (T : Type) (NT : Num T) (powf : T -> T -> T) (secs_to_ns : T -> Z) (ns_to_secs : Z -> T)
         (v0 v1 time : T) (tw : xtween T) (value dt : T) (ci : cinfo T),
    fst (xstart_step secs_to_ns dt ci (xt_start tw)) = false ->
    xtweener_update powf secs_to_ns ns_to_secs dt ci
      {| x_state := XTweening v0 v1 time tw; x_value := value |} =
    {| x_state := XTweening v0 v1 time (xset_start tw (snd (xstart_step secs_to_ns dt ci (xt_start tw))));
       x_value := value |}.
Proof. exact (fun T NT => @xpending_step T NT). Qed.

(** An idle tweener never moves. *)
Theorem tweener_idle_holds_any :
  forall (T : Type) (NT : Num T) (powf : T -> T -> T) (secs_to_ns : T -> Z) (ns_to_secs : Z -> T)
         (evs : list (xev T)) (v : T),
    only_updates evs ->
    xrun powf secs_to_ns ns_to_secs (@xtweener_set T NT) evs {| x_state := XIdle; x_value := v |} =
    {| x_state := XIdle; x_value := v |}.
Proof. exact (fun T NT => @xidle_holds_proof T NT). Qed.

(** Counter-model refuted: if [set] returned early when the target equals the present value, there
    is a history (a transition scheduled one second ahead, then "stay at 0.0, now") after which the
    tweener does not hold the target of its last command. *)
Theorem set_to_current_value_dropped_refuted :
  exists (before : list (xev Q)) (v : Q) (tw : xtween Q) (after : list (xev Q)),
    only_updates after /\
    let h := before ++ XSet v tw :: after in
    let t_real := xrun idp s2n n2s (@xtweener_set Q _) h (xtweener_new 0) in
    let t_early := xrun idp s2n n2s (@xtweener_set_early Q _) h (xtweener_new 0) in
    x_value (xrun idp s2n n2s (@xtweener_set Q _) before (xtweener_new 0)) = v /\
    x_state (xrun idp s2n n2s (@xtweener_set Q _) before (xtweener_new 0)) <> XIdle /\
    x_value t_real = v /\ x_state t_real = XIdle /\ ~ x_value t_early == v.
Proof. exact set_to_current_value_dropped_refuted_proof. Qed.

(** binary64: a command to the present value of a running transition, then its finishing update:
    bit-for-bit the target. *)
Theorem tweener_set_to_current_b64 :
  bits_of_f64 (x_value b64_t0) <> bits_of_f64 b64_01 /\ bits_of_f64 (x_value b64_t0) <> bits_of_f64 b64_07 /\
  let t := xrun (fun x _ => x) s2n64 n2s64 (@xtweener_set f64 _)
             [XSet (x_value b64_t0) {| xt_start := XImmediate; xt_dur := 1; xt_easing := Linear |};
              XUpd (n2s64 1) (@no_clocks f64); XUpd (n2s64 1) (@no_clocks f64)] b64_t0 in
  bits_of_f64 (x_value t) = bits_of_f64 (x_value b64_t0) /\
  match x_state t with XIdle => True | _ => False end.
Proof. exact set_to_current_b64. Qed.

(** ** listeners are readers of modulators and of clocks; spatial tracks read the listeners *)

(** [Renderer::process_chunk] with listeners restricted to what Model.v knows IS Model.v's. *)
Theorem xchunk_refines_process_chunk :
  forall (T : Type) (NT : Num T) (tau : T) (sin : T -> T) (powf : T -> T -> T) (secs_to_ns : T -> Z)
         (ns_to_secs : Z -> T) (V : Type) (interp : V -> V -> T -> V) (D : Type) (dist : V -> V -> D)
         (st : cstate T V D) (len : Z),
    k_base (xchunk tau sin powf secs_to_ns ns_to_secs V interp D dist st len) =
    process_chunk tau sin powf secs_to_ns ns_to_secs (k_base st) len.
Proof. exact (fun T NT => @xchunk_base_proof T NT). Qed.

(** In every chunk every listener parameter, whatever its state, is updated with the modulator
    values and the clock times produced by THIS chunk's modulator and clock updates. *)
Theorem listeners_updated_after :
  forall (T : Type) (NT : Num T) (tau : T) (sin : T -> T) (powf : T -> T -> T) (secs_to_ns : T -> Z)
         (ns_to_secs : Z -> T) (V : Type) (interp : V -> V -> T -> V) (D : Type) (dist : V -> V -> D)
         (st : cstate T V D) (len lid : Z) (p : vparam T V),
    In (lid, p) (k_lis st) ->
    let st' := xchunk tau sin powf secs_to_ns ns_to_secs V interp D dist st len in
    In (lid, vparam_update powf secs_to_ns ns_to_secs V interp (nmul (r_dt (k_base st)) (nofZ len))
               (lookup_val (vals_of (r_mods (k_base st'))))
               (cinfo_of (r_clocks (k_base st'))) p) (k_lis st').
Proof. exact (fun T NT => @listeners_updated_after_proof T NT). Qed.

(** A listener position linked to modulator [id]: after the chunk it is the mapping of the value
    the modulator has after this chunk's update (it holds if the id does not resolve). *)
Theorem listener_linked_same_chunk :
  forall (T : Type) (NT : Num T) (tau : T) (sin : T -> T) (powf : T -> T -> T) (secs_to_ns : T -> Z)
         (ns_to_secs : Z -> T) (V : Type) (interp : V -> V -> T -> V) (D : Type) (dist : V -> V -> D)
         (st : cstate T V D) (len lid id : Z) (m : vmapping T V) (raw prev : V),
    In (lid, vlinked V id m raw prev) (k_lis st) ->
    let st' := xchunk tau sin powf secs_to_ns ns_to_secs V interp D dist st len in
    In (lid, vlinked V id m
               match lookup_val (vals_of (r_mods (k_base st'))) id with
               | Some x => vmap powf V interp m x
               | None => raw
               end raw) (k_lis st').
Proof. exact (fun T NT => @listener_linked_same_chunk_proof T NT). Qed.

(** A listener transition that waits for time (tk, fr) of clock [c]: it starts in the chunk in
    which the clock -- as updated in this chunk -- has reached the time, not one chunk later. *)
Theorem listener_clock_same_chunk :
  forall (T : Type) (NT : Num T) (tau : T) (sin : T -> T) (powf : T -> T -> T) (secs_to_ns : T -> Z)
         (ns_to_secs : Z -> T) (V : Type) (interp : V -> V -> T -> V) (D : Type) (dist : V -> V -> D)
         (st : cstate T V D) (len lid : Z) (start target : V) (time : T) (c tk : Z) (fr : T) (dur : Z)
         (e : easing T) (raw prev : V),
    In (lid, vwaiting V start target time c tk fr dur e raw prev) (k_lis st) ->
    let st' := xchunk tau sin powf secs_to_ns ns_to_secs V interp D dist st len in
    let dtc := nmul (r_dt (k_base st)) (nofZ len) in
    let tw := {| xt_start := XClock c tk fr; xt_dur := dur; xt_easing := e |} in
    In (lid,
        if when_now (cinfo_of (r_clocks (k_base st'))) c tk fr then
          if nleb (ns_to_secs dur) (nadd time dtc)
          then {| vp_state := VIdle (VVFixed target); vp_raw := target; vp_prev := raw; vp_stagnant := true |}
          else {| vp_state := VTween start (VVFixed target) (nadd time dtc) tw;
                  vp_raw := if (dur =? 0)%Z then raw
                            else interp start target (xtween_value powf ns_to_secs tw (nadd time dtc));
                  vp_prev := raw; vp_stagnant := false |}
        else vwaiting V start target time c tk fr dur e
               (if (dur =? 0)%Z then raw else interp start target (xtween_value powf ns_to_secs tw time)) raw)
       (k_lis st').
Proof. exact (fun T NT => @listener_clock_same_chunk_proof T NT). Qed.

(** Same-chunk corollary: a spatial track whose listener's position is linked to modulator [id]
    reads, in the mixer of chunk k, the position and the listener distance that belong to the
    modulator's value of chunk k. *)
Theorem spatial_distance_same_chunk :
  forall (T : Type) (NT : Num T) (tau : T) (sin : T -> T) (powf : T -> T -> T) (secs_to_ns : T -> Z)
         (ns_to_secs : Z -> T) (V : Type) (interp : V -> V -> T -> V) (D : Type) (dist : V -> V -> D)
         (st : cstate T V D) (len sid : Z) (s : spat V) (lid id : Z) (m : vmapping T V) (raw prev : V),
    NoDup (map fst (k_lis st)) ->
    In (sid, s) (k_spat st) -> sp_listener s = lid ->
    In (lid, vlinked V id m raw prev) (k_lis st) ->
    let st' := xchunk tau sin powf secs_to_ns ns_to_secs V interp D dist st len in
    exists ev : spat_event T V D,
      In ev (k_slog st') /\ se_sid ev = sid /\ se_len ev = len /\
      se_mod ev = lookup_val (vals_of (r_mods (k_base st'))) (sp_watch s) /\
      let pos := match lookup_val (vals_of (r_mods (k_base st'))) id with
                 | Some x => vmap powf V interp m x
                 | None => raw
                 end in
      se_pos ev = Some (pos, raw) /\ se_dist ev = Some (dist pos (sp_emitter s)).
Proof. exact (fun T NT => @spatial_distance_same_chunk_proof T NT). Qed.

(** For any list of chunk lengths, per chunk: every modulator, then every clock, then every
    listener, then every mixer-side reader -- each exactly once, in this order. *)
Theorem listeners_once_per_chunk :
  forall (T : Type) (NT : Num T) (tau : T) (sin : T -> T) (powf : T -> T -> T) (secs_to_ns : T -> Z)
         (ns_to_secs : Z -> T) (V : Type) (interp : V -> V -> T -> V) (D : Type) (dist : V -> V -> D)
         (lens : list Z) (st : cstate T V D),
    k_calls (fold_left (xchunk tau sin powf secs_to_ns ns_to_secs V interp D dist) lens st) =
    k_calls st ++
    flat_map (fun _ : Z => xexpected (map fst (r_mods (k_base st))) (map fst (r_clocks (k_base st)))
                                     (map fst (k_lis st)) (map fst (r_probes (k_base st)))
                                     (map fst (k_spat st))) lens.
Proof. exact (fun T NT => @listeners_once_per_chunk_proof T NT). Qed.

(** Counter-model refuted: with the listeners updated FIRST in the chunk, a listener linked to a
    moving modulator is one chunk behind, and the spatial track reads the wrong distance. *)
Theorem listeners_first_refuted :
  exists (st : cstate Q Q Q) (len lid sid id : Z) (m : vmapping Q Q) (s : spat Q) (raw prev : Q),
    NoDup (map fst (k_lis st)) /\ In (sid, s) (k_spat st) /\ sp_listener s = lid /\
    In (lid, vlinked Q id m raw prev) (k_lis st) /\
    let st' := chunk_ord 6 half1 idp s2n n2s Q qinterp Q qdist listeners_first_order st len in
    exists (x : Q) (p : vparam Q Q) (ev : spat_event Q Q Q),
      lookup_val (vals_of (r_mods (k_base st'))) id = Some x /\
      In (lid, p) (k_lis st') /\ ~ vp_raw p == vmap idp Q qinterp m x /\
      In ev (k_slog st') /\ se_sid ev = sid /\
      se_dist ev <> Some (qdist (vmap idp Q qinterp m x) (sp_emitter s)).
Proof. exact listeners_first_refuted_proof. Qed.

(** ... and a listener transition that waits for a clock time does not start in the chunk in
    which the clock reaches it. *)
Theorem listeners_first_clock_refuted :
  exists (st : cstate Q Q Q) (len lid c tk : Z) (fr : Q) (start target time : Q) (dur : Z)
         (e : easing Q) (raw prev : Q),
    In (lid, vwaiting Q start target time c tk fr dur e raw prev) (k_lis st) /\
    let st' := chunk_ord 6 half1 idp s2n n2s Q qinterp Q qdist listeners_first_order st len in
    when_now (cinfo_of (r_clocks (k_base st'))) c tk fr = true /\
    In (lid, vwaiting Q start target time c tk fr dur e raw raw) (k_lis st').
Proof. exact listeners_first_clock_refuted_proof. Qed.

(** ** a link that does not resolve YET *)

(** A parameter of any type resting on modulator [id], through ANY sequence of updates (the id may
    resolve or not at each of them): at every update at which the id resolves, the parameter is the
    mapping of the value resolved at that update; it stays linked and is never marked stagnant. *)
Theorem linked_follows_once_resolvable :
  forall (T : Type) (NT : Num T) (powf : T -> T -> T) (secs_to_ns : T -> Z) (ns_to_secs : Z -> T)
         (V : Type) (interp : V -> V -> T -> V) (us : list (vupd T)) (id : Z) (m : vmapping T V)
         (raw prev : V) (dt : T) (look : Z -> option T) (ci : cinfo T) (x : T),
    look id = Some x ->
    let p := vparam_run V (vparam_update powf secs_to_ns ns_to_secs V interp) (us ++ [(dt, look, ci)])
                        (vlinked V id m raw prev) in
    vp_raw p = vmap powf V interp m x /\ vp_state p = VIdle (VVFromMod id m) /\ vp_stagnant p = false.
Proof. exact (fun T NT => @linked_follows_once_resolvable_proof T NT). Qed.

(** While the id does not resolve the parameter keeps its value and stays live. *)
Theorem linked_holds_while_unresolvable :
  forall (T : Type) (NT : Num T) (powf : T -> T -> T) (secs_to_ns : T -> Z) (ns_to_secs : Z -> T)
         (V : Type) (interp : V -> V -> T -> V) (us : list (vupd T)) (id : Z) (m : vmapping T V)
         (raw prev : V),
    Forall (fun u : vupd T => snd (fst u) id = None) us ->
    let p := vparam_run V (vparam_update powf secs_to_ns ns_to_secs V interp) us (vlinked V id m raw prev) in
    vp_raw p = raw /\ vp_state p = VIdle (VVFromMod id m) /\ vp_stagnant p = false.
Proof. exact (fun T NT => @linked_holds_while_unresolvable_proof T NT). Qed.

(** Counter-model refuted: marking an idle parameter stagnant when its modulator does not resolve
    freezes it for good once the modulator appears. *)
Theorem stagnant_on_unresolved_refuted :
  exists (us : list (vupd Q)) (id : Z) (m : vmapping Q Q) (raw prev dt x : Q) (look : Z -> option Q),
    look id = Some x /\
    let p := vparam_run Q (vparam_update_stag idp s2n n2s Q qinterp) (us ++ [(dt, look, noc)])
                        (vlinked Q id m raw prev) in
    ~ vp_raw p == vmap idp Q qinterp m x /\ vp_stagnant p = true.
Proof. exact stagnant_on_unresolved_refuted_proof. Qed.

(** In Model.v's renderer, through EVERY history of operations: a probe parameter linked to [id]
    stays linked, and in any later chunk it is the mapping of the value the modulator has after that
    chunk's update (it holds while / once the id does not resolve). *)
Theorem linked_probe_for_ever :
  forall (T : Type) (NT : Num T) (tau : T) (sin : T -> T) (powf : T -> T -> T) (secs_to_ns : T -> Z)
         (ns_to_secs : Z -> T) (ibs : Z) (ops : list (op T)) (st : rstate T) (pid w id : Z) (m : mapping T),
    is_linked_probe pid w id m st ->
    forall len : Z,
      let st1 := fold_left (apply_op tau sin powf secs_to_ns ns_to_secs ibs) ops st in
      let st2 := process_chunk tau sin powf secs_to_ns ns_to_secs st1 len in
      exists raw1 : T,
        In (pid, PrParam w (linked id m raw1)) (r_probes st1) /\
        In (pid, PrParam w (linked id m
              match lookup_val (vals_of (r_mods st2)) id with
              | Some x => map_value powf m x
              | None => raw1
              end)) (r_probes st2).
Proof. exact (fun T NT => @linked_probe_for_ever_proof T NT). Qed.

(** The start of a callback.  The game thread's pushes interleave in any way with the audio
    thread's drains; whenever the modulator queue is drained LAST ([real_drains]), after every
    callback every live reader's modulator is in the arena or its handle was dropped: a link that
    does not resolve means "removed", never "not yet". *)
Theorem readers_never_ahead_of_modulators :
  forall (pre : list qkind) (cbs : list (list (list gstep))) (st : wstate),
    winv st -> cbs_ok (pre ++ [KMod]) cbs st ->
    forall n : nat, (0 < n <= length cbs)%nat ->
      resolvable (run_callbacks (pre ++ [KMod]) (firstn n cbs) st).
Proof. exact readers_never_ahead_proof. Qed.

(** Counter-model refuted: with the modulator queue drained FIRST a reader goes live one callback
    before the modulator it was created after. *)
Theorem mods_first_refuted :
  exists cbs : list (list (list gstep)),
    cbs_ok mods_first_drains cbs w_init /\ ~ resolvable (run_callbacks mods_first_drains cbs w_init).
Proof. exact mods_first_refuted_proof. Qed.
