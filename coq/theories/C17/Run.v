(** C17 — entry point of the correspondence check (model side): one case is a whole history of
    an [AudioManager]: modulators / clocks / probes added, commands, drops, callbacks. *)
From Coq Require Import ZArith List Bool.
From KV Require Import Base.IEEE Base.Outcome Base.Num Base.Corr C19.Model C19.Run C17.Model C17.ModelX.
From KV Require C15.Model C15.BaseF32.
Import ListNotations.
Local Open Scope Z_scope.

(** *** the binary64 environment of the model *)
Definition tau64 : f64 := f64_of_bits 0x401921FB54442D18.
(** libm [sin] as a finite table [(bits x, bits (sin x))] recorded by the harness *)
Fixpoint lookup1 (tab : list (Z * Z)) (x : Z) : option Z :=
  match tab with
  | [] => None
  | (a, r) :: tab' => if a =? x then Some r else lookup1 tab' x
  end.
Definition sin64_tab (tab : list (Z * Z)) (x : f64) : f64 :=
  match lookup1 tab (bits_of_f64 x) with Some r => f64_of_bits r | None => f64_of_bits sentinel end.

(** [Duration::from_secs_f64]: the exact product with 10^9 rounded to nearest, ties to even
    (the argument is [dt * len > 0], finite) *)
Definition round_half_even_div (num den : Z) : Z :=
  let q := num / den in
  let r := num mod den in
  if 2 * r <? den then q else if den <? 2 * r then q + 1 else if Z.even q then q else q + 1.
Definition secs_to_ns64 (x : f64) : Z :=
  let '(m, e) := dyadic_of x in
  if m <=? 0 then 0
  else if 0 <=? e then m * 2 ^ e * 10 ^ 9
  else round_half_even_div (m * 10 ^ 9) (2 ^ (- e)).
(** [Duration::as_secs_f64]: [(secs as f64) + (nanos as f64) / 1e9] *)
Definition ns_to_secs64 (ns : Z) : f64 :=
  add64 (Z64 (ns / 10 ^ 9)) (div64 (Z64 (ns mod 10 ^ 9)) (Z64 (10 ^ 9))).

(** *** case syntax (bit patterns) *)
Inductive rvalue := RFixed (bits : Z) | RMod (id lo hi olo ohi ekind ep : Z).
Inductive rtween := RTween (delay_ns dur_ns ekind ep : Z).     (* delay_ns < 0: StartTime::Immediate *)
Inductive rwave := RSine | RTriangle | RSaw | RPulse (w : Z).
Inductive rop :=
| RAddLfo (id : Z) (w : rwave) (f a o : rvalue) (phase : Z)
| RAddTweener (id init : Z)
| RAddProbeMod (id watch : Z)
| RDrop (id : Z)
| RSetTweener (id target : Z) (tw : rtween)
| RSetLfoParam (id which : Z) (target : rvalue) (tw : rtween)
| RSetPhase (id phase : Z)
| RSetWave (id : Z) (w : rwave)
| RAddClock (cid : Z) (speed : rvalue)
| RAddProbe (pid watch : Z) (v : rvalue)
| RAddClockProbe (pid cid : Z)
| RCb (frames : Z).
(** start times with clock times (the clock of a [CTw] case has id 0) *)
Inductive rstart := RSImm | RSDelay (ns : Z) | RSClock (cid tk fr : Z).
Inductive rxtween := RXTween (st : rstart) (dur_ns ekind ep : Z).
(** a tweener's command history: [set]s (only the last one before a callback is read), the clock's
    [start] / [pause], callbacks *)
Inductive rtwop := RTwSet (target : Z) (tw : rxtween) | RTwTicking (b : Z) | RTwCb (frames : Z).
(** listener positions: [Vec3] of binary32 *)
Inductive rvvalue :=
| RVFixed (x y z : Z)
| RVMod (id lo hi : Z) (ax ay az bx by_ bz : Z) (ekind ep : Z).
Inductive rxop :=
| RXBase (o : rop)
| RXAddListener (lid : Z) (pos : rvvalue)
| RXSetListener (lid : Z) (target : rvvalue) (tw : rxtween)
| RXAddSpat (sid lid ex ey ez watch cid : Z)
| RXTicking (cid b : Z)
| RXCb (frames : Z).
Inductive case :=
| CScen (sr ibs : Z) (ops : list rop) (sin_tab : list (Z * Z)) (pow_tab : list (Z * Z * Z))
(** one tweener, optionally one clock (ticks per second), observed once per chunk *)
| CTw (sr ibs init : Z) (clock_tps : option Z) (ops : list rtwop) (pow_tab : list (Z * Z * Z))
(** a manager with listeners and spatial tracks carrying probe effects *)
| CLis (sr ibs : Z) (ops : list rxop) (sin_tab : list (Z * Z)) (pow_tab : list (Z * Z * Z)).

Definition mk_value (v : rvalue) : value f64 :=
  match v with
  | RFixed b => VFixed (f64_of_bits b)
  | RMod id lo hi olo ohi ek ep =>
      VFromMod id {| in_lo := f64_of_bits lo; in_hi := f64_of_bits hi; out_lo := f64_of_bits olo;
                     out_hi := f64_of_bits ohi; m_easing := mk_easing ek ep |}
  end.
Definition mk_tween (t : rtween) : tween f64 :=
  match t with
  | RTween d dur ek ep =>
      {| tw_start := if d <? 0 then Immediate else Delayed d; tw_dur := dur; tw_easing := mk_easing ek ep |}
  end.
Definition mk_wave (w : rwave) : waveform f64 :=
  match w with RSine => Sine | RTriangle => Triangle | RSaw => Saw | RPulse b => Pulse (f64_of_bits b) end.
Definition mk_op (o : rop) : op f64 :=
  match o with
  | RAddLfo id w f a ofs ph =>
      OAddMod id (MLfo (lfo_new tau64 (mk_wave w) (mk_value f) (mk_value a) (mk_value ofs) (f64_of_bits ph)))
  | RAddTweener id init => OAddMod id (MTweener (tweener_new (f64_of_bits init)))
  | RAddProbeMod id watch => OAddMod id (MProbe watch 0)
  | RDrop id => ODropMod id
  | RSetTweener id target tw => OSetTweener id (f64_of_bits target) (mk_tween tw)
  | RSetLfoParam id which target tw => OSetLfoParam id which (mk_value target) (mk_tween tw)
  | RSetPhase id ph => OSetPhase id (f64_of_bits ph)
  | RSetWave id w => OSetWave id (mk_wave w)
  | RAddClock cid sp => OAddClock cid (clock_new (mk_value sp) true)
  | RAddProbe pid watch v => OAddProbe pid (PrParam watch (param_new (mk_value v) (Z64 0)))
  | RAddClockProbe pid cid => OAddProbe pid (PrClock cid)
  | RCb frames => OCallback frames
  end.

Definition enc_opt (o : option f64) : list Z :=
  match o with Some v => [1; bits_of_f64 v] | None => [0; 0] end.
Definition enc_mod_events (id : Z) (log : list (event f64)) : list Z :=
  flat_map (fun e => match e with
                     | EvMod i dt seen => if i =? id then bits_of_f64 dt :: enc_opt seen else []
                     | _ => [] end) log.
Definition enc_probe_events (pid : Z) (log : list (event f64)) : list Z :=
  flat_map (fun e => match e with
                     | EvProbe p len raw v => if p =? pid then len :: enc_opt raw ++ [bits_of_f64 v] else []
                     | EvProbeClock p len info =>
                         if p =? pid then
                           len :: match info with
                                  | Some (tk, ticks, fr) => [1; (if tk : bool then 1 else 0); ticks; bits_of_f64 fr]
                                  | None => [0; 0; 0; 0]
                                  end
                         else []
                     | _ => [] end) log.
(** the observers, in the order in which the history creates them *)
Definition observe (log : list (event f64)) (o : rop) : list Z :=
  match o with
  | RAddProbeMod id _ => enc_mod_events id log
  | RAddProbe pid _ _ => enc_probe_events pid log
  | RAddClockProbe pid _ => enc_probe_events pid log
  | _ => []
  end.

Definition mk_start (st : rstart) : xstart f64 :=
  match st with
  | RSImm => XImmediate
  | RSDelay ns => XDelayed ns
  | RSClock cid tk fr => XClock cid tk (f64_of_bits fr)
  end.
Definition mk_xtween (t : rxtween) : xtween f64 :=
  match t with
  | RXTween st dur ek ep => {| xt_start := mk_start st; xt_dur := dur; xt_easing := mk_easing ek ep |}
  end.
Definition mk_twop (o : rtwop) : twop f64 :=
  match o with
  | RTwSet target tw => TwSet (f64_of_bits target) (mk_xtween tw)
  | RTwTicking b => TwTicking (negb (b =? 0))
  | RTwCb frames => TwCb frames
  end.

(** [Vec3] in binary32: [Tweenable::interpolate = a + (b - a) * amount as f32], [Vec3::distance] *)
Definition v3 := C15.Model.vec3 f32.
Definition mk_v3 (x y z : Z) : v3 := C15.Model.V3 (f32_of_bits x) (f32_of_bits y) (f32_of_bits z).
Definition v3_interp (a b : v3) (t : f64) : v3 := C15.Model.v_interp a b (f64_to_f32 t).
Definition v3_dist (a b : v3) : f32 := C15.Model.v_length (C15.Model.v_sub a b).
Definition enc_v3 (v : v3) : list Z :=
  [bits_of_f32 (C15.Model.vx v); bits_of_f32 (C15.Model.vy v); bits_of_f32 (C15.Model.vz v)].
Definition mk_vvalue (v : rvvalue) : vvalue f64 v3 :=
  match v with
  | RVFixed x y z => VVFixed (mk_v3 x y z)
  | RVMod id lo hi ax ay az bx by_ bz ek ep =>
      VVFromMod id {| vin_lo := f64_of_bits lo; vin_hi := f64_of_bits hi; vout_lo := mk_v3 ax ay az;
                      vout_hi := mk_v3 bx by_ bz; vm_easing := mk_easing ek ep |}
  end.
Definition mk_xop (o : rxop) : xop f64 v3 :=
  match o with
  | RXBase o => XBase (mk_op o)
  | RXAddListener lid pos => XAddListener lid (mk_vvalue pos) (mk_v3 0 0 0)
  | RXSetListener lid target tw => XSetListener lid (mk_vvalue target) (mk_xtween tw)
  | RXAddSpat sid lid ex ey ez watch cid =>
      XAddSpat sid {| sp_listener := lid; sp_emitter := mk_v3 ex ey ez; sp_watch := watch; sp_clock := cid |}
  | RXTicking cid b => XClockTicking cid (negb (b =? 0))
  | RXCb frames => XCallback frames
  end.
Definition enc_spat_event (e : spat_event f64 v3 f32) : list Z :=
  se_sid e :: se_len e :: enc_opt (se_mod e)
    ++ match se_clock e with
       | Some (tk, ticks, fr) => [1; (if tk : bool then 1 else 0); ticks; bits_of_f64 fr]
       | None => [0; 0; 0; 0]
       end
    ++ match se_pos e with
       | Some (p, pp) => 1 :: enc_v3 p ++ enc_v3 pp
       | None => [0; 0; 0; 0; 0; 0; 0]
       end
    ++ match se_dist e with Some d => [1; bits_of_f32 d] | None => [0; 0] end.

Definition run (c : case) : list Z :=
  match c with
  | CScen sr ibs ops sin_tab pow_tab =>
      let st := run_ops tau64 (sin64_tab sin_tab) (powf64_tab pow_tab) secs_to_ns64 ns_to_secs64
                        sr ibs (map mk_op ops) in
      flat_map (observe (r_log st)) ops
  | CTw sr ibs init clock_tps ops pow_tab =>
      map bits_of_f64
        (tw_run (powf64_tab pow_tab) secs_to_ns64 ns_to_secs64 sr ibs (f64_of_bits init)
                (option_map (fun tps => clock_new (VFixed (f64_of_bits tps)) false) clock_tps)
                (map mk_twop ops))
  | CLis sr ibs ops sin_tab pow_tab =>
      let st0 : cstate f64 v3 f32 :=
        {| k_base := init_state sr; k_lis := []; k_spat := []; k_calls := []; k_slog := [] |} in
      let st := fold_left (xapply tau64 (sin64_tab sin_tab) (powf64_tab pow_tab) secs_to_ns64 ns_to_secs64
                                  v3 v3_interp f32 v3_dist real_order ibs) (map mk_xop ops) st0 in
      (* per spatial track in creation order (the mixer's iteration order over its sub-tracks is the arena's) *)
      flat_map (fun sid => flat_map (fun e => if se_sid e =? sid then enc_spat_event e else []) (k_slog st))
               (flat_map (fun o => match o with RXAddSpat sid _ _ _ _ _ _ => [sid] | _ => [] end) ops)
  end.
