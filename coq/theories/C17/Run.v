(** C17 — entry point of the correspondence check (model side): one case is a whole history of
    an [AudioManager]: modulators / clocks / probes added, commands, drops, callbacks. *)
From Coq Require Import ZArith List Bool.
From KV Require Import Base.IEEE Base.Outcome Base.Num Base.Corr C19.Model C19.Run C17.Model.
Import ListNotations.
Local Open Scope Z_scope.

(** *** the binary64 environment of the model *)
Definition tau64 : f64 := f64_of_bits 0x401921FB54442D18.
(** libm [sin] as a finite table [(bits x, bits (sin x))] recorded by the harness *)
Fixpoint lookup1 (tab : list (Z * Z)) (x : Z) : option Z :=
  match tab with
  | [] => None
  | (a, r) :: tab' => if a =? x then Some r else lookup1 tab' x
  end.
Definition sin64_tab (tab : list (Z * Z)) (x : f64) : f64 :=
  match lookup1 tab (bits_of_f64 x) with Some r => f64_of_bits r | None => f64_of_bits sentinel end.

(** [Duration::from_secs_f64]: the exact product with 10^9 rounded to nearest, ties to even
    (the argument is [dt * len > 0], finite) *)
Definition round_half_even_div (num den : Z) : Z :=
  let q := num / den in
  let r := num mod den in
  if 2 * r <? den then q else if den <? 2 * r then q + 1 else if Z.even q then q else q + 1.
Definition secs_to_ns64 (x : f64) : Z :=
  let '(m, e) := dyadic_of x in
  if m <=? 0 then 0
  else if 0 <=? e then m * 2 ^ e * 10 ^ 9
  else round_half_even_div (m * 10 ^ 9) (2 ^ (- e)).
(** [Duration::as_secs_f64]: [(secs as f64) + (nanos as f64) / 1e9] *)
Definition ns_to_secs64 (ns : Z) : f64 :=
  add64 (Z64 (ns / 10 ^ 9)) (div64 (Z64 (ns mod 10 ^ 9)) (Z64 (10 ^ 9))).

(** *** case syntax (bit patterns) *)
Inductive rvalue := RFixed (bits : Z) | RMod (id lo hi olo ohi ekind ep : Z).
Inductive rtween := RTween (delay_ns dur_ns ekind ep : Z).     (* delay_ns < 0: StartTime::Immediate *)
Inductive rwave := RSine | RTriangle | RSaw | RPulse (w : Z).
Inductive rop :=
| RAddLfo (id : Z) (w : rwave) (f a o : rvalue) (phase : Z)
| RAddTweener (id init : Z)
| RAddProbeMod (id watch : Z)
| RDrop (id : Z)
| RSetTweener (id target : Z) (tw : rtween)
| RSetLfoParam (id which : Z) (target : rvalue) (tw : rtween)
| RSetPhase (id phase : Z)
| RSetWave (id : Z) (w : rwave)
| RAddClock (cid : Z) (speed : rvalue)
| RAddProbe (pid watch : Z) (v : rvalue)
| RAddClockProbe (pid cid : Z)
| RCb (frames : Z).
Inductive case := CScen (sr ibs : Z) (ops : list rop) (sin_tab : list (Z * Z)) (pow_tab : list (Z * Z * Z)).

Definition mk_value (v : rvalue) : value f64 :=
  match v with
  | RFixed b => VFixed (f64_of_bits b)
  | RMod id lo hi olo ohi ek ep =>
      VFromMod id {| in_lo := f64_of_bits lo; in_hi := f64_of_bits hi; out_lo := f64_of_bits olo;
                     out_hi := f64_of_bits ohi; m_easing := mk_easing ek ep |}
  end.
Definition mk_tween (t : rtween) : tween f64 :=
  match t with
  | RTween d dur ek ep =>
      {| tw_start := if d <? 0 then Immediate else Delayed d; tw_dur := dur; tw_easing := mk_easing ek ep |}
  end.
Definition mk_wave (w : rwave) : waveform f64 :=
  match w with RSine => Sine | RTriangle => Triangle | RSaw => Saw | RPulse b => Pulse (f64_of_bits b) end.
Definition mk_op (o : rop) : op f64 :=
  match o with
  | RAddLfo id w f a ofs ph =>
      OAddMod id (MLfo (lfo_new tau64 (mk_wave w) (mk_value f) (mk_value a) (mk_value ofs) (f64_of_bits ph)))
  | RAddTweener id init => OAddMod id (MTweener (tweener_new (f64_of_bits init)))
  | RAddProbeMod id watch => OAddMod id (MProbe watch 0)
  | RDrop id => ODropMod id
  | RSetTweener id target tw => OSetTweener id (f64_of_bits target) (mk_tween tw)
  | RSetLfoParam id which target tw => OSetLfoParam id which (mk_value target) (mk_tween tw)
  | RSetPhase id ph => OSetPhase id (f64_of_bits ph)
  | RSetWave id w => OSetWave id (mk_wave w)
  | RAddClock cid sp => OAddClock cid (clock_new (mk_value sp) true)
  | RAddProbe pid watch v => OAddProbe pid (PrParam watch (param_new (mk_value v) (Z64 0)))
  | RAddClockProbe pid cid => OAddProbe pid (PrClock cid)
  | RCb frames => OCallback frames
  end.

Definition enc_opt (o : option f64) : list Z :=
  match o with Some v => [1; bits_of_f64 v] | None => [0; 0] end.
Definition enc_mod_events (id : Z) (log : list (event f64)) : list Z :=
  flat_map (fun e => match e with
                     | EvMod i dt seen => if i =? id then bits_of_f64 dt :: enc_opt seen else []
                     | _ => [] end) log.
Definition enc_probe_events (pid : Z) (log : list (event f64)) : list Z :=
  flat_map (fun e => match e with
                     | EvProbe p len raw v => if p =? pid then len :: enc_opt raw ++ [bits_of_f64 v] else []
                     | EvProbeClock p len info =>
                         if p =? pid then
                           len :: match info with
                                  | Some (tk, ticks, fr) => [1; (if tk : bool then 1 else 0); ticks; bits_of_f64 fr]
                                  | None => [0; 0; 0; 0]
                                  end
                         else []
                     | _ => [] end) log.
(** the observers, in the order in which the history creates them *)
Definition observe (log : list (event f64)) (o : rop) : list Z :=
  match o with
  | RAddProbeMod id _ => enc_mod_events id log
  | RAddProbe pid _ _ => enc_probe_events pid log
  | RAddClockProbe pid _ => enc_probe_events pid log
  | _ => []
  end.

Definition run (c : case) : list Z :=
  match c with
  | CScen sr ibs ops sin_tab pow_tab =>
      let st := run_ops tau64 (sin64_tab sin_tab) (powf64_tab pow_tab) secs_to_ns64 ns_to_secs64
                        sr ibs (map mk_op ops) in
      flat_map (observe (r_log st)) ops
  end.
