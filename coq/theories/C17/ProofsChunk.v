(** C17 — listeners are readers too ([ModelX.v]): in [Renderer::process_chunk] every listener
    parameter is updated AFTER the modulators and AFTER the clocks of the same chunk, and the
    spatial tracks of the mixer read the listeners of the same chunk.  Structural: any number
    type, any value type, any operations (bit-for-bit for binary64 / binary32 vectors). *)
From Coq Require Import ZArith List Bool Lia.
From KV Require Import Base.Outcome Base.Num C19.Model C17.Model C17.ModelX C17.ProofsOrder.
Import ListNotations.
Local Open Scope Z_scope.

Section Chunk.
  Context {T : Type} {NT : Num T}.
  Variable tau : T.
  Variable sin : T -> T.
  Variable powf : T -> T -> T.
  Variable secs_to_ns : T -> Z.
  Variable ns_to_secs : Z -> T.
  Variable V : Type.
  Variable interp : V -> V -> T -> V.
  Variable D : Type.
  Variable dist : V -> V -> D.

  Let pm := process_mods tau sin powf secs_to_ns ns_to_secs.
  Let vpu := vparam_update powf secs_to_ns ns_to_secs V interp.
  Let chunk := xchunk tau sin powf secs_to_ns ns_to_secs V interp D dist.
  Let cord := chunk_ord tau sin powf secs_to_ns ns_to_secs V interp D dist.

  (** *** [process_chunk] with listeners, written with projections *)
  Lemma xchunk_eq (st : cstate T V D) len :
    chunk st len =
    let b := k_base st in
    let dtc := nmul (r_dt b) (nofZ len) in
    let r := pm dtc [] (r_mods b) in
    let look := lookup_val (vals_of (fst r)) in
    let clocks' := map (fun kc => (fst kc, clock_update powf secs_to_ns ns_to_secs dtc look (snd kc))) (r_clocks b) in
    let ci := cinfo_of clocks' in
    let lis' := map (fun kl => (fst kl, vpu dtc look ci (snd kl))) (k_lis st) in
    let probes' := map (fun kp => (fst kp, probe_update powf secs_to_ns ns_to_secs dtc look (snd kp))) (r_probes b) in
    {| k_base :=
         {| r_dt := r_dt b; r_mods := fst r; r_new := r_new b; r_removed := r_removed b;
            r_clocks := clocks'; r_probes := probes';
            r_log := ((r_log b ++ snd r) ++ map (fun kc => EvClock (fst kc) dtc) (r_clocks b))
                       ++ map (probe_event len look clocks') probes' |};
       k_lis := lis'; k_spat := k_spat st;
       k_calls := (((k_calls st ++ map (fun km => XcMod (fst km)) (r_mods b))
                      ++ map (fun kc => XcClock (fst kc)) (r_clocks b))
                     ++ map (fun kl => XcListener (fst kl)) (k_lis st))
                    ++ map (fun kp => XcProbe (fst kp)) (r_probes b)
                    ++ map (fun ks => XcSpat (fst ks)) (k_spat st);
       k_slog := k_slog st ++ map (spat_event_of V D dist len look ci lis') (k_spat st) |}.
  Proof. reflexivity. Qed.

  (** the part of the state that Model.v knows evolves exactly as Model.v says *)
  Lemma xchunk_base_proof (st : cstate T V D) len :
    k_base (chunk st len) = process_chunk tau sin powf secs_to_ns ns_to_secs (k_base st) len.
  Proof.
    rewrite xchunk_eq. cbv zeta. cbn [k_base].
    rewrite (chunk_eq tau sin powf secs_to_ns ns_to_secs). cbv zeta.
    f_equal. rewrite <- !app_assoc. reflexivity.
  Qed.

  Lemma xchunk_frame (st : cstate T V D) len :
    r_dt (k_base (chunk st len)) = r_dt (k_base st) /\
    map fst (r_mods (k_base (chunk st len))) = map fst (r_mods (k_base st)) /\
    map fst (r_clocks (k_base (chunk st len))) = map fst (r_clocks (k_base st)) /\
    map fst (k_lis (chunk st len)) = map fst (k_lis st) /\
    map fst (r_probes (k_base (chunk st len))) = map fst (r_probes (k_base st)) /\
    k_spat (chunk st len) = k_spat st.
  Proof.
    rewrite xchunk_eq. cbv zeta. cbn [k_base k_lis k_spat r_dt r_mods r_clocks r_probes].
    split; [reflexivity|]. split; [apply (pm_ids tau sin powf secs_to_ns ns_to_secs)|].
    split; [rewrite map_map; reflexivity|]. split; [rewrite map_map; reflexivity|].
    split; [rewrite map_map; reflexivity|reflexivity].
  Qed.

  (** *** every listener parameter, in ANY state (idle on a modulator, in a transition that waits
      for a clock time, ...), is updated with the modulator values and the clock times that THIS
      chunk's modulator and clock updates produced *)
  Lemma listeners_updated_after_proof (st : cstate T V D) len lid (p : vparam T V) :
    In (lid, p) (k_lis st) ->
    let st' := chunk st len in
    In (lid, vpu (nmul (r_dt (k_base st)) (nofZ len))
               (lookup_val (vals_of (r_mods (k_base st'))))
               (cinfo_of (r_clocks (k_base st'))) p) (k_lis st').
  Proof.
    intro H. cbv zeta. rewrite xchunk_eq. cbv zeta. cbn [k_lis k_base r_mods r_clocks].
    apply in_map_iff. exists (lid, p). split; [reflexivity|exact H].
  Qed.

  (** the two cases the property names *)
  Definition vlinked (id : Z) (m : vmapping T V) (raw prev : V) : vparam T V :=
    {| vp_state := VIdle (VVFromMod id m); vp_raw := raw; vp_prev := prev; vp_stagnant := false |}.
  Lemma vupdate_linked dt look ci id m raw prev :
    vpu dt look ci (vlinked id m raw prev) =
    vlinked id m (match look id with Some x => vmap powf V interp m x | None => raw end) raw.
  Proof.
    unfold vpu, vparam_update, vlinked. cbn [vp_stagnant vp_state vupdate_tween vnew_raw vraw vp_raw].
    destruct (look id); reflexivity.
  Qed.
  Lemma listener_linked_same_chunk_proof (st : cstate T V D) len lid id m raw prev :
    In (lid, vlinked id m raw prev) (k_lis st) ->
    let st' := chunk st len in
    In (lid, vlinked id m
               (match lookup_val (vals_of (r_mods (k_base st'))) id with
                | Some x => vmap powf V interp m x
                | None => raw end) raw) (k_lis st').
  Proof.
    intro H. pose proof (listeners_updated_after_proof st len lid _ H) as L. cbv zeta in L.
    rewrite vupdate_linked in L. exact L.
  Qed.

  (** a transition towards a fixed position that waits for time [(tk, fr)] of clock [c] *)
  Definition vwaiting (start target : V) (time : T) (c tk : Z) (fr : T) (dur : Z) (e : easing T)
             (raw prev : V) : vparam T V :=
    {| vp_state := VTween start (VVFixed target) time {| xt_start := XClock c tk fr; xt_dur := dur; xt_easing := e |};
       vp_raw := raw; vp_prev := prev; vp_stagnant := false |}.
  Lemma vupdate_waiting dt look ci start target time c tk fr dur e raw prev :
    let tw := {| xt_start := XClock c tk fr; xt_dur := dur; xt_easing := e |} in
    vpu dt look ci (vwaiting start target time c tk fr dur e raw prev) =
    if when_now ci c tk fr then
      if nleb (ns_to_secs dur) (nadd time dt)
      then {| vp_state := VIdle (VVFixed target); vp_raw := target; vp_prev := raw; vp_stagnant := true |}
      else {| vp_state := VTween start (VVFixed target) (nadd time dt) tw;
              vp_raw := if dur =? 0 then raw else interp start target (xtween_value powf ns_to_secs tw (nadd time dt));
              vp_prev := raw; vp_stagnant := false |}
    else vwaiting start target time c tk fr dur e
           (if dur =? 0 then raw else interp start target (xtween_value powf ns_to_secs tw time)) raw.
  Proof.
    cbv zeta. unfold vpu, vparam_update, vwaiting.
    cbn [vp_stagnant vp_state vupdate_tween xt_start xstart_step xt_dur vp_raw].
    destruct (when_now ci c tk fr); cbn [negb].
    - destruct (nleb (ns_to_secs dur) (nadd time dt)).
      + cbn [vis_fixed orb vnew_raw vraw]. reflexivity.
      + unfold xset_start. cbn [xt_dur xt_easing vnew_raw vraw option_map].
        destruct (dur =? 0); reflexivity.
    - unfold xset_start. cbn [xt_dur xt_easing vnew_raw vraw option_map].
      destruct (dur =? 0); reflexivity.
  Qed.
  (** it starts in the chunk in which the clock reaches the time: the test sees the clock AFTER
      this chunk's [Clock::update] *)
  Lemma listener_clock_same_chunk_proof (st : cstate T V D) len lid start target time c tk fr dur e raw prev :
    In (lid, vwaiting start target time c tk fr dur e raw prev) (k_lis st) ->
    let st' := chunk st len in
    let dtc := nmul (r_dt (k_base st)) (nofZ len) in
    let tw := {| xt_start := XClock c tk fr; xt_dur := dur; xt_easing := e |} in
    In (lid,
        if when_now (cinfo_of (r_clocks (k_base st'))) c tk fr then
          if nleb (ns_to_secs dur) (nadd time dtc)
          then {| vp_state := VIdle (VVFixed target); vp_raw := target; vp_prev := raw; vp_stagnant := true |}
          else {| vp_state := VTween start (VVFixed target) (nadd time dtc) tw;
                  vp_raw := if dur =? 0 then raw else interp start target (xtween_value powf ns_to_secs tw (nadd time dtc));
                  vp_prev := raw; vp_stagnant := false |}
        else vwaiting start target time c tk fr dur e
               (if dur =? 0 then raw else interp start target (xtween_value powf ns_to_secs tw time)) raw)
       (k_lis st').
  Proof.
    intro H. pose proof (listeners_updated_after_proof st len lid _ H) as L. cbv zeta in L.
    rewrite vupdate_waiting in L. exact L.
  Qed.

  (** *** the mixer reads the listeners of the same chunk *)
  Lemma spatial_reads_same_chunk_proof (st : cstate T V D) len sid (s : spat V) :
    In (sid, s) (k_spat st) ->
    let st' := chunk st len in
    In (spat_event_of V D dist len
          (lookup_val (vals_of (r_mods (k_base st'))))
          (cinfo_of (r_clocks (k_base st')))
          (k_lis st') (sid, s)) (k_slog st').
  Proof.
    intro H. cbv zeta. rewrite xchunk_eq. cbv zeta. cbn [k_slog k_base k_lis r_mods r_clocks].
    apply in_or_app. right. apply in_map. exact H.
  Qed.

  Lemma lookup_lis_in (ls : list (Z * vparam T V)) lid p :
    NoDup (map fst ls) -> In (lid, p) ls -> lookup_lis ls lid = Some p.
  Proof.
    induction ls as [|[k q] ls IH]; intros ND H; [contradiction|].
    cbn [map fst] in ND. inversion ND as [|? ? Hn ND']; subst.
    cbn [lookup_lis]. destruct H as [H|H].
    - inversion H; subst. rewrite Z.eqb_refl. reflexivity.
    - destruct (k =? lid) eqn:E.
      + apply Z.eqb_eq in E. subst k. exfalso. apply Hn. apply in_map_iff. exists (lid, p). tauto.
      + apply IH; assumption.
  Qed.

  (** same-chunk corollary: a spatial track whose listener's position is linked to modulator [id]
      hears, in chunk k, the distance that belongs to the modulator's value of chunk k *)
  Lemma spatial_distance_same_chunk_proof (st : cstate T V D) len sid s lid id m raw prev :
    NoDup (map fst (k_lis st)) ->
    In (sid, s) (k_spat st) -> sp_listener s = lid ->
    In (lid, vlinked id m raw prev) (k_lis st) ->
    let st' := chunk st len in
    exists ev, In ev (k_slog st') /\ se_sid ev = sid /\ se_len ev = len /\
      se_mod ev = lookup_val (vals_of (r_mods (k_base st'))) (sp_watch s) /\
      let pos := match lookup_val (vals_of (r_mods (k_base st'))) id with
                 | Some x => vmap powf V interp m x
                 | None => raw end in
      se_pos ev = Some (pos, raw) /\ se_dist ev = Some (dist pos (sp_emitter s)).
  Proof.
    intros ND Hs Hl Hin. cbv zeta.
    pose proof (spatial_reads_same_chunk_proof st len sid s Hs) as E. cbv zeta in E.
    pose proof (listener_linked_same_chunk_proof st len lid id m raw prev Hin) as L. cbv zeta in L.
    eexists. split; [exact E|].
    unfold spat_event_of. cbn [fst snd se_sid se_len se_mod se_pos se_dist].
    split; [reflexivity|]. split; [reflexivity|]. split; [reflexivity|].
    assert (ND' : NoDup (map fst (k_lis (chunk st len)))).
    { destruct (xchunk_frame st len) as (_ & _ & _ & E4 & _). rewrite E4. exact ND. }
    rewrite Hl. rewrite (lookup_lis_in _ lid _ ND' L). cbn [option_map vlinked vp_raw vp_prev].
    split; reflexivity.
  Qed.

  (** *** exactly once per chunk and in this order: modulators, clocks, listeners, mixer *)
  Definition xexpected (mods clocks lis probes spats : list Z) : list xcall :=
    map XcMod mods ++ map XcClock clocks ++ map XcListener lis ++ map XcProbe probes ++ map XcSpat spats.
  Lemma xchunk_calls (st : cstate T V D) len :
    k_calls (chunk st len) =
    k_calls st ++ xexpected (map fst (r_mods (k_base st))) (map fst (r_clocks (k_base st)))
                            (map fst (k_lis st)) (map fst (r_probes (k_base st))) (map fst (k_spat st)).
  Proof.
    rewrite xchunk_eq. cbv zeta. cbn [k_calls]. unfold xexpected.
    rewrite !map_map, <- !app_assoc. reflexivity.
  Qed.
  Lemma listeners_once_per_chunk_proof lens : forall (st : cstate T V D),
    k_calls (fold_left chunk lens st) =
    k_calls st ++
      flat_map (fun _ : Z => xexpected (map fst (r_mods (k_base st))) (map fst (r_clocks (k_base st)))
                                       (map fst (k_lis st)) (map fst (r_probes (k_base st)))
                                       (map fst (k_spat st))) lens.
  Proof.
    induction lens as [|len lens IH]; intro st; cbn [fold_left flat_map].
    - rewrite app_nil_r. reflexivity.
    - rewrite IH, xchunk_calls.
      destruct (xchunk_frame st len) as (_ & E2 & E3 & E4 & E5 & E6).
      rewrite E2, E3, E4, E5, E6, <- app_assoc. reflexivity.
  Qed.

  (** *** a parameter linked to a modulator that does not resolve YET: it keeps its value, stays
      live, and follows from the first update at which the id resolves -- for ever *)
  Definition follow (id : Z) (m : vmapping T V) (raw : V) (us : list (vupd T)) : V :=
    fold_left (fun r u => match snd (fst u) id with Some x => vmap powf V interp m x | None => r end) us raw.
  Lemma linked_run_proof (us : list (vupd T)) : forall id m raw prev,
    exists prev',
      vparam_run V vpu us (vlinked id m raw prev) = vlinked id m (follow id m raw us) prev'.
  Proof.
    induction us as [|u us IH]; intros id m raw prev.
    - exists prev. reflexivity.
    - unfold vparam_run. cbn [fold_left]. rewrite vupdate_linked.
      destruct (IH id m (match snd (fst u) id with Some x => vmap powf V interp m x | None => raw end) raw) as [pv E].
      exists pv. unfold vparam_run in E. rewrite E. reflexivity.
  Qed.
  Lemma linked_follows_once_resolvable_proof (us : list (vupd T)) id m raw prev dt look ci x :
    look id = Some x ->
    let p := vparam_run V vpu (us ++ [(dt, look, ci)]) (vlinked id m raw prev) in
    vp_raw p = vmap powf V interp m x /\ vp_state p = VIdle (VVFromMod id m) /\ vp_stagnant p = false.
  Proof.
    intro H. cbv zeta.
    destruct (linked_run_proof (us ++ [(dt, look, ci)]) id m raw prev) as [pv E]. rewrite E.
    unfold vlinked. cbn [vp_raw vp_state vp_stagnant]. split; [|split; reflexivity].
    unfold follow. rewrite fold_left_app. cbn [fold_left fst snd]. rewrite H. reflexivity.
  Qed.
  Lemma linked_holds_while_unresolvable_proof (us : list (vupd T)) id m raw prev :
    Forall (fun u => snd (fst u) id = None) us ->
    let p := vparam_run V vpu us (vlinked id m raw prev) in
    vp_raw p = raw /\ vp_state p = VIdle (VVFromMod id m) /\ vp_stagnant p = false.
  Proof.
    intro H. cbv zeta. destruct (linked_run_proof us id m raw prev) as [pv E]. rewrite E.
    unfold vlinked. cbn [vp_raw vp_state vp_stagnant]. split; [|split; reflexivity].
    clear E. unfold follow. revert raw. induction H as [|u us Hu _ IH]; intro raw; cbn [fold_left]; [reflexivity|].
    rewrite Hu. apply IH.
  Qed.
End Chunk.

(** *** the same for the probe parameters of Model.v's renderer, through EVERY history: the
    parameter stays linked and live, and in every later chunk it is the mapping of the value the
    modulator has after that chunk's update (or holds, while / once the id does not resolve) *)
Section Forever.
  Context {T : Type} {NT : Num T}.
  Variable tau : T.
  Variable sin : T -> T.
  Variable powf : T -> T -> T.
  Variable secs_to_ns : T -> Z.
  Variable ns_to_secs : Z -> T.
  Let chunk := process_chunk tau sin powf secs_to_ns ns_to_secs.
  Let apply := apply_op tau sin powf secs_to_ns ns_to_secs.

  Definition is_linked_probe (pid w id : Z) (m : mapping T) (st : rstate T) : Prop :=
    exists raw, In (pid, PrParam w (linked id m raw)) (r_probes st).

  Lemma chunk_keeps_linked st len pid w id m :
    is_linked_probe pid w id m st -> is_linked_probe pid w id m (chunk st len).
  Proof.
    intros [raw H]. eexists.
    apply (linked_same_chunk_proof tau sin powf secs_to_ns ns_to_secs st len pid w id m raw H).
  Qed.
  Lemma chunks_keep_linked lens : forall st pid w id m,
    is_linked_probe pid w id m st -> is_linked_probe pid w id m (fold_left chunk lens st).
  Proof.
    induction lens as [|len lens IH]; intros st pid w id m H; cbn [fold_left]; [exact H|].
    apply IH. apply chunk_keeps_linked. exact H.
  Qed.
  Lemma op_keeps_linked ibs st o pid w id m :
    is_linked_probe pid w id m st -> is_linked_probe pid w id m (apply ibs st o).
  Proof.
    intros [raw H]. unfold apply. destruct o; cbn [apply_op].
    - exists raw. exact H.
    - exists raw. exact H.
    - exists raw. exact H.
    - exists raw. exact H.
    - exists raw. exact H.
    - exists raw. exact H.
    - exists raw. exact H.
    - exists raw. cbn [r_probes]. apply in_or_app. left. exact H.
    - unfold callback, process. apply chunks_keep_linked. exists raw. exact H.
  Qed.
  Lemma linked_probe_for_ever_proof ibs (ops : list (op T)) : forall st pid w id m,
    is_linked_probe pid w id m st ->
    forall len,
      let st1 := fold_left (apply ibs) ops st in
      let st2 := chunk st1 len in
      exists raw1,
        In (pid, PrParam w (linked id m raw1)) (r_probes st1) /\
        In (pid, PrParam w (linked id m
              (match lookup_val (vals_of (r_mods st2)) id with
               | Some x => map_value powf m x
               | None => raw1 end))) (r_probes st2).
  Proof.
    induction ops as [|o ops IH]; intros st pid w id m H len; cbn [fold_left].
    - destruct H as [raw H]. exists raw. split; [exact H|].
      apply (linked_same_chunk_proof tau sin powf secs_to_ns ns_to_secs st len pid w id m raw H).
    - apply IH. apply op_keeps_linked. exact H.
  Qed.
End Forever.

(** *** the start of a callback: when the modulator queue is drained LAST, no reader is ever live
    before the modulator it is linked to *)
Section Window.
  (** every id that was handed out is queued, in the arena, or its handle was dropped *)
  Definition accounted (st : wstate) : Prop :=
    forall id, In id (w_issued st) -> In id (w_qmod st) \/ In id (w_mod st) \/ In id (w_dropped st).
  Definition readers_issued (st : wstate) : Prop :=
    (forall k rid id, In (k, rid, id) (w_read st) -> In id (w_issued st)) /\
    (forall k rid id, In (k, rid, id) (w_qread st) -> In id (w_issued st)).
  Definition winv (st : wstate) : Prop := accounted st /\ readers_issued st.

  Lemma winv_init : winv w_init.
  Proof. split; [intros id []|split; intros k rid id []]. Qed.

  Lemma gapply_inv st g : g_ok st g -> winv st -> winv (gapply st g).
  Proof.
    intros Hok [A [R1 R2]]. destruct g as [id|k rid id|id]; cbn [gapply g_ok] in *.
    - split; [|split].
      + intros j Hj. cbn [w_issued w_qmod w_mod w_dropped] in *. destruct Hj as [<-|Hj].
        * left. apply in_or_app. right. left. reflexivity.
        * destruct (A j Hj) as [H|[H|H]]; [left; apply in_or_app; left; exact H|tauto|tauto].
      + intros k rid j H. cbn [w_read w_issued] in *. right. eapply R1; exact H.
      + intros k rid j H. cbn [w_qread w_issued] in *. right. eapply R2; exact H.
    - split; [exact A|split].
      + exact R1.
      + intros k' rid' j H. cbn [w_qread w_issued] in *. apply in_app_or in H.
        destruct H as [H|[H|[]]]; [eapply R2; exact H|]. inversion H; subst. tauto.
    - split; [|split; assumption].
      intros j Hj. cbn [w_issued w_qmod w_mod w_dropped] in *.
      destruct (A j Hj) as [H|[H|H]]; [tauto|tauto|right; right; right; exact H].
  Qed.
  Lemma steps_inv g : forall st, steps_ok g st -> winv st -> winv (fold_left gapply g st).
  Proof.
    induction g as [|x g IH]; intros st Hok Hi; cbn [fold_left]; [exact Hi|].
    cbn [steps_ok] in Hok. destruct Hok as [H1 H2]. apply IH; [exact H2|]. apply gapply_inv; assumption.
  Qed.
  Lemma zmem_false x l : zmem x l = false -> ~ In x l.
  Proof.
    unfold zmem. intros H C.
    assert (X : existsb (Z.eqb x) l = true) by (apply existsb_exists; exists x; split; [exact C|apply Z.eqb_refl]).
    congruence.
  Qed.
  Lemma drain_inv st k : winv st -> winv (drain st k).
  Proof.
    intros [A [R1 R2]]. destruct k; cbn [drain].
    1-3: (split; [exact A|split; cbn [w_read w_qread w_issued];
          [intros k rid id H; apply in_app_or in H; destruct H as [H|H];
           [eapply R1; exact H|apply filter_In in H; destruct H as [H _]; eapply R2; exact H]
          |intros k rid id H; apply filter_In in H; destruct H as [H _]; eapply R2; exact H]]).
    split; [|split; assumption].
    intros id Hid. cbn [w_issued w_qmod w_mod w_dropped].
    destruct (A id Hid) as [H|[H|H]].
    - right. left. apply in_or_app. right. exact H.
    - destruct (zmem id (w_dropped st)) eqn:E.
      + right. right. unfold zmem in E. apply existsb_exists in E. destruct E as (y & Hy & Ey).
        apply Z.eqb_eq in Ey. subst y. exact Hy.
      + right. left. apply in_or_app. left. apply filter_In. split; [exact H|]. rewrite E. reflexivity.
    - tauto.
  Qed.

  (** game steps do not touch the arenas; dropped handles only accumulate *)
  Lemma gapply_live st g :
    w_read (gapply st g) = w_read st /\ w_mod (gapply st g) = w_mod st /\
    (forall id, In id (w_dropped st) -> In id (w_dropped (gapply st g))).
  Proof. destruct g; cbn [gapply w_read w_mod w_dropped]; repeat split; auto. intros; right; assumption. Qed.
  Lemma steps_live g : forall st,
    w_read (fold_left gapply g st) = w_read st /\ w_mod (fold_left gapply g st) = w_mod st /\
    (forall id, In id (w_dropped st) -> In id (w_dropped (fold_left gapply g st))).
  Proof.
    induction g as [|x g IH]; intro st; cbn [fold_left]; [repeat split; auto|].
    destruct (IH (gapply st x)) as (E1 & E2 & E3). destruct (gapply_live st x) as (F1 & F2 & F3).
    rewrite E1, E2, F1, F2. repeat split; auto.
  Qed.

  (** a callback whose LAST drain is the modulators' *)
  Lemma drains_mods_last pre : forall gaps st,
    gaps_ok (pre ++ [KMod]) gaps st -> winv st ->
    winv (run_drains (pre ++ [KMod]) gaps st) /\ resolvable (run_drains (pre ++ [KMod]) gaps st).
  Proof.
    induction pre as [|k pre IH]; intros gaps st Hok Hi.
    - (* the modulator drain itself, then the last gap *)
      cbn [app run_drains gaps_ok] in *.
      assert (Main : forall st0 rest, winv st0 ->
                (match rest with [] => True | g :: _ => steps_ok g (drain st0 KMod) end) ->
                winv (run_drains [] rest (drain st0 KMod)) /\ resolvable (run_drains [] rest (drain st0 KMod))).
      { intros st0 rest Hi0 Hrest.
        pose proof (drain_inv st0 KMod Hi0) as Hd.
        assert (Rd : resolvable (drain st0 KMod)).
        { destruct Hd as [A [R1 _]]. intros k rid id H.
          destruct (A id (R1 k rid id H)) as [Q|[Q|Q]]; [cbn [drain w_qmod] in Q; contradiction|tauto|tauto]. }
        destruct rest as [|g rest]; cbn [run_drains]; [split; assumption|].
        split; [apply steps_inv; assumption|].
        destruct (steps_live g (drain st0 KMod)) as (E1 & E2 & E3).
        intros k rid id H. rewrite E1 in H. rewrite E2. destruct (Rd k rid id H) as [Q|Q]; [tauto|right; auto]. }
      destruct gaps as [|g gaps].
      + apply (Main st []); [exact Hi|exact I].
      + destruct Hok as [H1 H2]. apply (Main (fold_left gapply g st) gaps); [apply steps_inv; assumption|].
        destruct gaps; cbn [gaps_ok] in H2; [exact I|exact H2].
    - cbn [app run_drains gaps_ok] in *. destruct gaps as [|g gaps].
      + apply IH; [|apply drain_inv; exact Hi].
        clear. generalize (drain st k). induction pre as [|k' pre IHp]; intro s; cbn [app gaps_ok]; exact I.
      + destruct Hok as [H1 H2]. apply IH; [exact H2|]. apply drain_inv. apply steps_inv; assumption.
  Qed.

  Lemma readers_never_ahead_proof pre (cbs : list (list (list gstep))) : forall st,
    winv st -> cbs_ok (pre ++ [KMod]) cbs st ->
    forall n, (0 < n <= length cbs)%nat ->
      resolvable (run_callbacks (pre ++ [KMod]) (firstn n cbs) st).
  Proof.
    induction cbs as [|gaps cbs IH]; intros st Hi Hok n Hn; cbn [length] in Hn; [lia|].
    cbn [cbs_ok] in Hok. destruct Hok as [H1 H2].
    destruct (drains_mods_last pre gaps st H1 Hi) as [Hi' Hr].
    destruct n as [|n]; [lia|]. cbn [firstn]. unfold run_callbacks. cbn [fold_left].
    destruct n as [|n].
    - cbn [firstn fold_left]. exact Hr.
    - apply (IH _ Hi' H2 (S n)). lia.
  Qed.
End Window.
