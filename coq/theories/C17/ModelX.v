(** C17 — second part of the executable model (NO proofs): what Model.v leaves out.

    * [StartTime::ClockTime]: the complete [Tweener] ([modulator/tweener.rs]: [set], [update] with
      the three start times) and its command histories; the reading "[set] returns early when the
      target equals the present value" as a counter-model ([xtweener_set_early]).
    * a [Parameter<V>] for ANY value type [V] with its [Tweenable::interpolate] ([parameter.rs],
      [value.rs]: [Mapping::map] into [V], [previous_raw_value]); the reading "an idle parameter
      whose modulator does not resolve is marked stagnant" as a counter-model
      ([vparam_update_stag]).
    * listeners ([listener.rs], [backend/resources/listeners.rs]) as readers of modulators and
      clocks, spatial tracks as readers of listeners ([info.rs]: [listener_info],
      [listener_distance]); [Renderer::process_chunk] as a list of STAGES so that the update order
      is a parameter ([real_order]; [listeners_first_order] is the counter-model).
    * [Renderer::on_start_processing] as a list of DRAINS of the new-resource queues, interleaved
      with the game thread's pushes ([real_drains]; [mods_first_drains] is the counter-model).

    Same conventions as Model.v: generic over [Num]; libm and the [Duration] conversions are
    arguments. *)
From Coq Require Import ZArith List Bool.
From KV Require Import Base.Outcome Base.Num C19.Model C17.Model.
Import ListNotations.
Local Open Scope Z_scope.

Section X.
  Context {T : Type} {NT : Num T}.
  Variable tau : T.
  Variable sin : T -> T.
  Variable powf : T -> T -> T.
  Variable secs_to_ns : T -> Z.
  Variable ns_to_secs : Z -> T.

  (** ** info.rs: [clock_info] and [when_to_start] *)
  Definition cinfo := Z -> option (bool * Z * T).       (* ticking, ticks, fraction *)
  Definition no_clocks : cinfo := fun _ => None.
  (** [info.when_to_start(t) == WhenToStart::Now]: the clock exists, is ticking and its time is
      [>=] t ([PartialOrd for ClockTime]; an unordered pair -- a NaN fraction -- is not [>=]) *)
  Definition when_now (ci : cinfo) (cid tk : Z) (fr : T) : bool :=
    match ci cid with
    | Some (ticking, ctk, cfr) =>
        ticking &&
        match ct_cmp {| ticks := ctk; fraction := cfr |} {| ticks := tk; fraction := fr |} with
        | Some Gt | Some Eq => true
        | _ => false
        end
    | None => false
    end.
  (** what [Info] shows of a clock arena *)
  Definition cinfo_of (clocks : list (Z * clock T)) : cinfo :=
    fun cid =>
      match lookup_clock clocks cid with
      | Some c => Some (c_ticking c, (if c_started c then c_ticks c else 0),
                        (if c_started c then c_frac c else n0))
      | None => None
      end.

  (** ** start_time.rs / tween.rs with all three start times *)
  Inductive xstart := XImmediate | XDelayed (ns : Z) | XClock (cid tk : Z) (fr : T).
  Record xtween := { xt_start : xstart; xt_dur : Z; xt_easing : easing T }.
  Definition xset_start (tw : xtween) (st : xstart) : xtween :=
    {| xt_start := st; xt_dur := xt_dur tw; xt_easing := xt_easing tw |}.
  Definition xtween_value (tw : xtween) (time : T) : T :=
    ease powf (xt_easing tw) (ndiv time (ns_to_secs (xt_dur tw))).
  (** the [started] computation of [Tweener::update] and [Parameter::update_tween] *)
  Definition xstart_step (dt : T) (ci : cinfo) (st : xstart) : bool * xstart :=
    match st with
    | XImmediate => (true, XImmediate)
    | XDelayed r => if r =? 0 then (true, XDelayed r)
                    else (false, XDelayed (Z.max 0 (r - secs_to_ns dt)))
    | XClock c tk fr => (when_now ci c tk fr, XClock c tk fr)
    end.

  (** ** modulator/tweener.rs, complete *)
  Inductive xstate := XIdle | XTweening (v0 v1 : T) (time : T) (tw : xtween).
  Record xtweener := { x_state : xstate; x_value : T }.
  Definition xtweener_new (initial : T) : xtweener := {| x_state := XIdle; x_value := initial |}.
  (** [Tweener::set]: whatever the state was, a new transition from the PRESENT value *)
  Definition xtweener_set (t : xtweener) (target : T) (tw : xtween) : xtweener :=
    {| x_state := XTweening (x_value t) target n0 tw; x_value := x_value t |}.
  (** counter-model: [if target == self.value { return; }] in front *)
  Definition xtweener_set_early (t : xtweener) (target : T) (tw : xtween) : xtweener :=
    if neqb target (x_value t) then t else xtweener_set t target tw.
  Definition xtweener_update (dt : T) (ci : cinfo) (t : xtweener) : xtweener :=
    match x_state t with
    | XIdle => t
    | XTweening v0 v1 time tw =>
        let '(started, st') := xstart_step dt ci (xt_start tw) in
        let tw' := xset_start tw st' in
        if negb started then {| x_state := XTweening v0 v1 time tw'; x_value := x_value t |}
        else
          let time' := nadd time dt in
          if nleb (ns_to_secs (xt_dur tw)) time' then {| x_state := XIdle; x_value := v1 |}
          else {| x_state := XTweening v0 v1 time' tw';
                  x_value := lerp v0 v1 (xtween_value tw time') |}
    end.

  (** a history of one tweener: a [set] command being READ (in [on_start_processing]) and
      [update] calls (one per internal chunk) in any interleaving *)
  Inductive xev := XSet (target : T) (tw : xtween) | XUpd (dt : T) (ci : cinfo).
  Definition xstep (set : xtweener -> T -> xtween -> xtweener) (t : xtweener) (e : xev) : xtweener :=
    match e with
    | XSet target tw => set t target tw
    | XUpd dt ci => xtweener_update dt ci t
    end.
  Definition xrun (set : xtweener -> T -> xtween -> xtweener) (evs : list xev) (t : xtweener) : xtweener :=
    fold_left (xstep set) evs t.
  (** the values after each update of a history (what a probe sees once per chunk) *)
  Fixpoint xtrace (set : xtweener -> T -> xtween -> xtweener) (evs : list xev) (t : xtweener) : list T :=
    match evs with
    | [] => []
    | e :: evs' =>
        let t' := xstep set t e in
        match e with
        | XSet _ _ => xtrace set evs' t'
        | XUpd _ _ => x_value t' :: xtrace set evs' t'
        end
    end.

  (** one tweener and one clock in the renderer: modulators first (the tweener sees the clock as
      the previous chunk left it), then the clock *)
  Record twstate := { tw_t : xtweener; tw_clock : option (clock T); tw_vals : list T }.
  Definition tw_cinfo (c : option (clock T)) : cinfo :=
    match c with Some c => cinfo_of [(0, c)] | None => no_clocks end.
  Definition tw_chunk (dt : T) (st : twstate) (len : Z) : twstate :=
    let dtc := nmul dt (nofZ len) in
    let t' := xtweener_update dtc (tw_cinfo (tw_clock st)) (tw_t st) in
    let c' := option_map (clock_update powf secs_to_ns ns_to_secs dtc (fun _ => None)) (tw_clock st) in
    {| tw_t := t'; tw_clock := c'; tw_vals := tw_vals st ++ [x_value t'] |}.
  Inductive twop :=
  | TwSet (target : T) (tw : xtween)       (* written by the handle; only the LAST one before a callback is read *)
  | TwTicking (b : bool)                   (* [ClockHandle::start] / [pause] *)
  | TwCb (frames : Z).
  (** between two callbacks the handle's writes overwrite each other (C07); the callback reads the
      last one in [on_start_processing] (mixer, CLOCKS, listeners, MODULATORS), then processes *)
  Record twrun := { tr_st : twstate; tr_set : option (T * xtween); tr_tick : option bool }.
  Definition tw_apply (dt : T) (ibs : Z) (r : twrun) (o : twop) : twrun :=
    match o with
    | TwSet target tw => {| tr_st := tr_st r; tr_set := Some (target, tw); tr_tick := tr_tick r |}
    | TwTicking b => {| tr_st := tr_st r; tr_set := tr_set r; tr_tick := Some b |}
    | TwCb frames =>
        let st := tr_st r in
        let c1 := match tr_tick r, tw_clock st with
                  | Some b, Some c =>
                      Some {| c_speed := c_speed c; c_ticking := b; c_started := c_started c;
                              c_ticks := c_ticks c; c_frac := c_frac c |}
                  | _, c => c
                  end in
        let t1 := match tr_set r with
                  | Some (target, tw) => xtweener_set (tw_t st) target tw
                  | None => tw_t st
                  end in
        let st1 := {| tw_t := t1; tw_clock := c1; tw_vals := tw_vals st |} in
        {| tr_st := fold_left (tw_chunk dt) (chunk_lens ibs frames) st1; tr_set := None; tr_tick := None |}
    end.
  Definition tw_run (sample_rate ibs : Z) (init : T) (clock : option (clock T)) (ops : list twop) : list T :=
    let r0 := {| tr_st := {| tw_t := xtweener_new init; tw_clock := clock; tw_vals := [] |};
                 tr_set := None; tr_tick := None |} in
    tw_vals (tr_st (fold_left (tw_apply (ndiv n1 (nofZ sample_rate)) ibs) ops r0)).

  (** ** parameter.rs for a value type [V] *)
  Section VParam.
    Variable V : Type.
    Variable interp : V -> V -> T -> V.            (* [Tweenable::interpolate a b amount] *)

    Record vmapping := { vin_lo : T; vin_hi : T; vout_lo : V; vout_hi : V; vm_easing : easing T }.
    (** [Mapping::map] *)
    Definition vmap (m : vmapping) (input : T) : V :=
      let amount := ndiv (nsub input (vin_lo m)) (nsub (vin_hi m) (vin_lo m)) in
      let amount := clamp01 amount in
      let amount := ease powf (vm_easing m) amount in
      interp (vout_lo m) (vout_hi m) amount.
    Inductive vvalue := VVFixed (v : V) | VVFromMod (id : Z) (m : vmapping).
    Definition vraw (lookup : Z -> option T) (v : vvalue) : option V :=
      match v with
      | VVFixed x => Some x
      | VVFromMod id m => option_map (vmap m) (lookup id)
      end.
    Definition vis_fixed (v : vvalue) : bool := match v with VVFixed _ => true | _ => false end.
    Inductive vpstate := VIdle (v : vvalue) | VTween (start : V) (target : vvalue) (time : T) (tw : xtween).
    Record vparam := { vp_state : vpstate; vp_raw : V; vp_prev : V; vp_stagnant : bool }.
    Definition vparam_new (v : vvalue) (default : V) : vparam :=
      let raw := match v with VVFixed x => x | _ => default end in
      {| vp_state := VIdle v; vp_raw := raw; vp_prev := raw; vp_stagnant := vis_fixed v |}.
    Definition vparam_set (p : vparam) (target : vvalue) (tw : xtween) : vparam :=
      {| vp_state := VTween (vp_raw p) target n0 tw; vp_raw := vp_raw p; vp_prev := vp_prev p;
         vp_stagnant := false |}.
    (** [update_tween]: new state and stagnant flag *)
    Definition vupdate_tween (dt : T) (ci : cinfo) (s : vpstate) (stagnant : bool) : vpstate * bool :=
      match s with
      | VIdle _ => (s, stagnant)
      | VTween start target time tw =>
          let '(started, st') := xstart_step dt ci (xt_start tw) in
          let tw' := xset_start tw st' in
          if negb started then (VTween start target time tw', stagnant)
          else
            let time' := nadd time dt in
            if nleb (ns_to_secs (xt_dur tw)) time'
            then (VIdle target, vis_fixed target || stagnant)
            else (VTween start target time' tw', stagnant)
      end.
    Definition vnew_raw (lookup : Z -> option T) (s : vpstate) : option V :=
      match s with
      | VIdle v => vraw lookup v
      | VTween start target time tw =>
          if xt_dur tw =? 0 then None
          else option_map (fun tg => interp start tg (xtween_value tw time)) (vraw lookup target)
      end.
    (** [Parameter::update] *)
    Definition vparam_update (dt : T) (lookup : Z -> option T) (ci : cinfo) (p : vparam) : vparam :=
      if vp_stagnant p then
        {| vp_state := vp_state p; vp_raw := vp_raw p; vp_prev := vp_raw p; vp_stagnant := true |}
      else
        let '(s, stag) := vupdate_tween dt ci (vp_state p) (vp_stagnant p) in
        {| vp_state := s;
           vp_raw := match vnew_raw lookup s with Some v => v | None => vp_raw p end;
           vp_prev := vp_raw p; vp_stagnant := stag |}.
    (** counter-model: an idle parameter whose value does not resolve is marked stagnant
        ("the modulator is gone for good") *)
    Definition vparam_update_stag (dt : T) (lookup : Z -> option T) (ci : cinfo) (p : vparam) : vparam :=
      if vp_stagnant p then
        {| vp_state := vp_state p; vp_raw := vp_raw p; vp_prev := vp_raw p; vp_stagnant := true |}
      else
        let '(s, stag) := vupdate_tween dt ci (vp_state p) (vp_stagnant p) in
        match vnew_raw lookup s with
        | Some v => {| vp_state := s; vp_raw := v; vp_prev := vp_raw p; vp_stagnant := stag |}
        | None =>
            {| vp_state := s; vp_raw := vp_raw p; vp_prev := vp_raw p;
               vp_stagnant := match s with VIdle _ => true | _ => stag end |}
        end.
    (** a parameter through a sequence of updates, each with what [Info] resolves at that time *)
    Definition vupd := (T * (Z -> option T) * cinfo)%type.
    Definition vparam_run (upd : T -> (Z -> option T) -> cinfo -> vparam -> vparam)
               (us : list vupd) (p : vparam) : vparam :=
      fold_left (fun p u => upd (fst (fst u)) (snd (fst u)) (snd u) p) us p.

    (** ** listeners and spatial tracks in [Renderer::process_chunk] *)
    Variable D : Type.
    Variable dist : V -> V -> D.                   (* [Vec3::distance] *)

    (** a spatial track (fixed emitter position) carrying a probe effect that reads, inside the
        mixer, [info.modulator_value(watch)], [info.clock_info(clock)], [info.listener_info()]
        and [info.listener_distance()] *)
    Record spat := { sp_listener : Z; sp_emitter : V; sp_watch : Z; sp_clock : Z }.
    Inductive xcall := XcMod (id : Z) | XcClock (cid : Z) | XcListener (lid : Z)
                     | XcProbe (pid : Z) | XcSpat (sid : Z).
    Record spat_event := {
      se_sid : Z; se_len : Z; se_mod : option T; se_clock : option (bool * Z * T);
      se_pos : option (V * V);                      (* position, previous_position *)
      se_dist : option D }.
    Record cstate := {
      k_base : rstate T;                            (* Model.v: dt, modulators, clocks, probes *)
      k_lis : list (Z * vparam);                    (* listeners: the position parameter *)
      k_spat : list (Z * spat);
      k_calls : list xcall;                         (* every update / process call, in order *)
      k_slog : list spat_event;
    }.
    Fixpoint lookup_lis (ls : list (Z * vparam)) (lid : Z) : option vparam :=
      match ls with
      | [] => None
      | (k, p) :: rest => if k =? lid then Some p else lookup_lis rest lid
      end.
    Definition with_base (st : cstate) (b : rstate T) (calls : list xcall) : cstate :=
      {| k_base := b; k_lis := k_lis st; k_spat := k_spat st; k_calls := k_calls st ++ calls;
         k_slog := k_slog st |}.
    Definition spat_event_of (len : Z) (look : Z -> option T) (ci : cinfo) (ls : list (Z * vparam))
               (ks : Z * spat) : spat_event :=
      let s := snd ks in
      let l := lookup_lis ls (sp_listener s) in
      {| se_sid := fst ks; se_len := len; se_mod := look (sp_watch s); se_clock := ci (sp_clock s);
         se_pos := option_map (fun p => (vp_raw p, vp_prev p)) l;
         se_dist := option_map (fun p => dist (vp_raw p) (sp_emitter s)) l |}.

    Inductive stage := SMods | SClocks | SListeners | SMixer.
    (** each stage reads the other resources AS THEY ARE when it runs *)
    Definition run_stage (dtc : T) (len : Z) (st : cstate) (s : stage) : cstate :=
      let b := k_base st in
      let look := lookup_val (vals_of (r_mods b)) in
      match s with
      | SMods =>
          let r := process_mods tau sin powf secs_to_ns ns_to_secs dtc [] (r_mods b) in
          with_base st
            {| r_dt := r_dt b; r_mods := fst r; r_new := r_new b; r_removed := r_removed b;
               r_clocks := r_clocks b; r_probes := r_probes b; r_log := r_log b ++ snd r |}
            (map (fun km => XcMod (fst km)) (r_mods b))
      | SClocks =>
          with_base st
            {| r_dt := r_dt b; r_mods := r_mods b; r_new := r_new b; r_removed := r_removed b;
               r_clocks := map (fun kc => (fst kc, clock_update powf secs_to_ns ns_to_secs dtc look (snd kc))) (r_clocks b);
               r_probes := r_probes b;
               r_log := r_log b ++ map (fun kc => EvClock (fst kc) dtc) (r_clocks b) |}
            (map (fun kc => XcClock (fst kc)) (r_clocks b))
      | SListeners =>
          let ci := cinfo_of (r_clocks b) in
          {| k_base := b;
             k_lis := map (fun kl => (fst kl, vparam_update dtc look ci (snd kl))) (k_lis st);
             k_spat := k_spat st;
             k_calls := k_calls st ++ map (fun kl => XcListener (fst kl)) (k_lis st);
             k_slog := k_slog st |}
      | SMixer =>
          let ci := cinfo_of (r_clocks b) in
          let probes' := map (fun kp => (fst kp, probe_update powf secs_to_ns ns_to_secs dtc look (snd kp))) (r_probes b) in
          {| k_base :=
               {| r_dt := r_dt b; r_mods := r_mods b; r_new := r_new b; r_removed := r_removed b;
                  r_clocks := r_clocks b; r_probes := probes';
                  r_log := r_log b ++ map (probe_event len look (r_clocks b)) probes' |};
             k_lis := k_lis st; k_spat := k_spat st;
             k_calls := k_calls st ++ map (fun kp => XcProbe (fst kp)) (r_probes b)
                          ++ map (fun ks => XcSpat (fst ks)) (k_spat st);
             k_slog := k_slog st ++ map (spat_event_of len look ci (k_lis st)) (k_spat st) |}
      end.
    Definition chunk_ord (order : list stage) (st : cstate) (len : Z) : cstate :=
      fold_left (run_stage (nmul (r_dt (k_base st)) (nofZ len)) len) order st.
    (** [Renderer::process_chunk]: modulators, clocks, listeners, mixer *)
    Definition real_order : list stage := [SMods; SClocks; SListeners; SMixer].
    (** counter-model: listeners brought up to date first *)
    Definition listeners_first_order : list stage := [SListeners; SMods; SClocks; SMixer].
    Definition xchunk : cstate -> Z -> cstate := chunk_ord real_order.
    Definition xprocess (order : list stage) (ibs : Z) (st : cstate) (frames : Z) : cstate :=
      fold_left (chunk_ord order) (chunk_lens ibs frames) st.

    (** the history of a manager with listeners: Model.v's operations, plus *)
    Inductive xop :=
    | XBase (o : op T)                                       (* anything of Model.v but a callback *)
    | XAddListener (lid : Z) (pos : vvalue) (default : V)    (* [Parameter::new(position, Vec3::ZERO)] *)
    | XSetListener (lid : Z) (target : vvalue) (tw : xtween)
    | XAddSpat (sid : Z) (s : spat)
    | XClockTicking (cid : Z) (b : bool)
    | XCallback (frames : Z).
    Definition on_lis (lid : Z) (f : vparam -> vparam) (ls : list (Z * vparam)) : list (Z * vparam) :=
      map (fun kl => if fst kl =? lid then (fst kl, f (snd kl)) else kl) ls.
    Definition xapply (order : list stage) (ibs : Z) (st : cstate) (o : xop) : cstate :=
      match o with
      | XBase (OCallback _) => st
      | XBase o => {| k_base := apply_op tau sin powf secs_to_ns ns_to_secs ibs (k_base st) o;
                      k_lis := k_lis st; k_spat := k_spat st; k_calls := k_calls st; k_slog := k_slog st |}
      | XAddListener lid pos default =>
          {| k_base := k_base st; k_lis := k_lis st ++ [(lid, vparam_new pos default)];
             k_spat := k_spat st; k_calls := k_calls st; k_slog := k_slog st |}
      | XSetListener lid target tw =>
          {| k_base := k_base st; k_lis := on_lis lid (fun p => vparam_set p target tw) (k_lis st);
             k_spat := k_spat st; k_calls := k_calls st; k_slog := k_slog st |}
      | XAddSpat sid s =>
          {| k_base := k_base st; k_lis := k_lis st; k_spat := k_spat st ++ [(sid, s)];
             k_calls := k_calls st; k_slog := k_slog st |}
      | XClockTicking cid b =>
          let bs := k_base st in
          {| k_base :=
               {| r_dt := r_dt bs; r_mods := r_mods bs; r_new := r_new bs; r_removed := r_removed bs;
                  r_clocks := map (fun kc => if fst kc =? cid
                                             then (fst kc, {| c_speed := c_speed (snd kc); c_ticking := b;
                                                              c_started := c_started (snd kc);
                                                              c_ticks := c_ticks (snd kc); c_frac := c_frac (snd kc) |})
                                             else kc) (r_clocks bs);
                  r_probes := r_probes bs; r_log := r_log bs |};
             k_lis := k_lis st; k_spat := k_spat st; k_calls := k_calls st; k_slog := k_slog st |}
      | XCallback frames =>
          xprocess order ibs
            {| k_base := start_processing (k_base st); k_lis := k_lis st; k_spat := k_spat st;
               k_calls := k_calls st; k_slog := k_slog st |} frames
      end.
  End VParam.
End X.

Arguments cinfo : clear implicits.
Arguments xstart : clear implicits.
Arguments xtween : clear implicits.
Arguments xstate : clear implicits.
Arguments xtweener : clear implicits.
Arguments xev : clear implicits.
Arguments twstate : clear implicits.
Arguments twop : clear implicits.
Arguments twrun : clear implicits.
Arguments vmapping : clear implicits.
Arguments vvalue : clear implicits.
Arguments vpstate : clear implicits.
Arguments vparam : clear implicits.
Arguments vupd : clear implicits.
Arguments spat_event : clear implicits.
Arguments cstate : clear implicits.
Arguments xop : clear implicits.
Arguments Build_vmapping {T V}.
Arguments vin_lo {T V}. Arguments vin_hi {T V}. Arguments vout_lo {T V}. Arguments vout_hi {T V}.
Arguments vm_easing {T V}.
Arguments VVFixed {T V}. Arguments VVFromMod {T V}.
Arguments VIdle {T V}. Arguments VTween {T V}.
Arguments Build_vparam {T V}.
Arguments vp_state {T V}. Arguments vp_raw {T V}. Arguments vp_prev {T V}. Arguments vp_stagnant {T V}.
Arguments Build_spat {V}.
Arguments sp_listener {V}. Arguments sp_emitter {V}. Arguments sp_watch {V}. Arguments sp_clock {V}.
Arguments Build_spat_event {T V D}.
Arguments se_sid {T V D}. Arguments se_len {T V D}. Arguments se_mod {T V D}. Arguments se_clock {T V D}.
Arguments se_pos {T V D}. Arguments se_dist {T V D}.
Arguments Build_cstate {T V D}.
Arguments k_base {T V D}. Arguments k_lis {T V D}. Arguments k_spat {T V D}. Arguments k_calls {T V D}.
Arguments k_slog {T V D}.
Arguments XBase {T V}. Arguments XAddListener {T V}. Arguments XSetListener {T V}. Arguments XAddSpat {T V}.
Arguments XClockTicking {T V}. Arguments XCallback {T V}.
Arguments vparam_new {T V}.
Arguments vparam_set {T NT V}.
Arguments vis_fixed {T V}.
Arguments lookup_lis {T V}.
Arguments on_lis {T V}.

(** ** [Renderer::on_start_processing] as a sequence of drains of the new-resource queues.
    The game thread pushes ([add_modulator], then [play] / [add_sub_track] / [add_clock] /
    [add_listener] of something whose parameter is linked to a modulator id it was GIVEN by an
    earlier [add_modulator]); the audio thread pops one queue after the other.  The two threads
    interleave freely: a callback is described by the game steps that fall into each gap. *)
Inductive qkind := KMixer | KClock | KListener | KMod.
Definition qkind_eqb (a b : qkind) : bool :=
  match a, b with
  | KMixer, KMixer | KClock, KClock | KListener, KListener | KMod, KMod => true
  | _, _ => false
  end.
Inductive gstep :=
| GAddMod (id : Z)                           (* [add_modulator] returns [id] *)
| GAddReader (k : qkind) (rid id : Z)        (* a resource of kind [k] with a parameter linked to [id] *)
| GDropMod (id : Z).                         (* the modulator's handle is dropped *)
Record wstate := {
  w_qmod : list Z;                           (* pushed, not yet popped *)
  w_mod : list Z;                            (* in the modulator arena *)
  w_qread : list (qkind * Z * Z);
  w_read : list (qkind * Z * Z);             (* live readers: kind, reader id, modulator id *)
  w_issued : list Z;                         (* ids [add_modulator] has returned so far *)
  w_dropped : list Z;
}.
Definition w_init : wstate :=
  {| w_qmod := []; w_mod := []; w_qread := []; w_read := []; w_issued := []; w_dropped := [] |}.
Definition gapply (st : wstate) (g : gstep) : wstate :=
  match g with
  | GAddMod id =>
      {| w_qmod := w_qmod st ++ [id]; w_mod := w_mod st; w_qread := w_qread st; w_read := w_read st;
         w_issued := id :: w_issued st; w_dropped := w_dropped st |}
  | GAddReader k rid id =>
      {| w_qmod := w_qmod st; w_mod := w_mod st; w_qread := w_qread st ++ [(k, rid, id)];
         w_read := w_read st; w_issued := w_issued st; w_dropped := w_dropped st |}
  | GDropMod id =>
      {| w_qmod := w_qmod st; w_mod := w_mod st; w_qread := w_qread st; w_read := w_read st;
         w_issued := w_issued st; w_dropped := id :: w_dropped st |}
  end.
(** the game thread can only link to an id it has been given *)
Definition g_ok (st : wstate) (g : gstep) : Prop :=
  match g with
  | GAddReader k _ id => In id (w_issued st) /\ k <> KMod
  | _ => True
  end.
Definition is_kind (k : qkind) (e : qkind * Z * Z) : bool := qkind_eqb (fst (fst e)) k.
(** [remove_and_add]: finished resources leave, then the queue is appended *)
Definition drain (st : wstate) (k : qkind) : wstate :=
  match k with
  | KMod =>
      {| w_qmod := []; w_mod := filter (fun id => negb (zmem id (w_dropped st))) (w_mod st) ++ w_qmod st;
         w_qread := w_qread st; w_read := w_read st; w_issued := w_issued st; w_dropped := w_dropped st |}
  | _ =>
      {| w_qmod := w_qmod st; w_mod := w_mod st;
         w_qread := filter (fun e => negb (is_kind k e)) (w_qread st);
         w_read := w_read st ++ filter (is_kind k) (w_qread st);
         w_issued := w_issued st; w_dropped := w_dropped st |}
  end.
(** one callback: the game steps of gap 0, the first drain, gap 1, the second drain, ..., and the
    game steps that run while [process] does (they only push) *)
Fixpoint run_drains (order : list qkind) (gaps : list (list gstep)) (st : wstate) : wstate :=
  match order, gaps with
  | k :: order', g :: gaps' => run_drains order' gaps' (drain (fold_left gapply g st) k)
  | k :: order', [] => run_drains order' [] (drain st k)
  | [], g :: _ => fold_left gapply g st
  | [], [] => st
  end.
(** [Renderer::on_start_processing]: mixer, clocks, listeners, modulators *)
Definition real_drains : list qkind := [KMixer; KClock; KListener; KMod].
(** counter-model: modulators first *)
Definition mods_first_drains : list qkind := [KMod; KMixer; KClock; KListener].
Definition run_callbacks (order : list qkind) (cbs : list (list (list gstep))) (st : wstate) : wstate :=
  fold_left (fun st gaps => run_drains order gaps st) cbs st.
(** every game step of the history links only to ids issued before it *)
Fixpoint steps_ok (g : list gstep) (st : wstate) : Prop :=
  match g with [] => True | x :: g' => g_ok st x /\ steps_ok g' (gapply st x) end.
Fixpoint gaps_ok (order : list qkind) (gaps : list (list gstep)) (st : wstate) : Prop :=
  match order, gaps with
  | k :: order', g :: gaps' => steps_ok g st /\ gaps_ok order' gaps' (drain (fold_left gapply g st) k)
  | k :: order', [] => True
  | [], g :: _ => steps_ok g st
  | [], [] => True
  end.
Fixpoint cbs_ok (order : list qkind) (cbs : list (list (list gstep))) (st : wstate) : Prop :=
  match cbs with
  | [] => True
  | gaps :: cbs' => gaps_ok order gaps st /\ cbs_ok order cbs' (run_drains order gaps st)
  end.
(** while chunks are processed, every live reader's modulator is in the arena, unless its handle
    was dropped: a link that does not resolve means REMOVED, never "not yet" *)
Definition resolvable (st : wstate) : Prop :=
  forall k rid id, In (k, rid, id) (w_read st) -> In id (w_mod st) \/ In id (w_dropped st).
