(** C17 — structural theorems, valid for ANY number type and ANY operations (hence bit-for-bit
    for binary64): update order and the chain-lag rule, exactly-once per chunk, linked
    parameters in the same chunk, hold after removal. *)
From Coq Require Import ZArith List Bool Lia.
From KV Require Import Base.Outcome Base.Num C19.Model C17.Model.
Import ListNotations.
Local Open Scope Z_scope.

Section Order.
  Context {T : Type} {NT : Num T}.
  Variable tau : T.
  Variable sin : T -> T.
  Variable powf : T -> T -> T.
  Variable secs_to_ns : T -> Z.
  Variable ns_to_secs : Z -> T.
  Let pm := process_mods tau sin powf secs_to_ns ns_to_secs.
  Let mupd := mod_update tau sin powf secs_to_ns ns_to_secs.
  Let pupd := param_update powf secs_to_ns ns_to_secs.
  Let chunk := process_chunk tau sin powf secs_to_ns ns_to_secs.
  Let apply := apply_op tau sin powf secs_to_ns ns_to_secs.

  (** *** lookups *)
  Lemma lookup_val_app (a b : list (Z * T)) id :
    lookup_val (a ++ b) id = match lookup_val a id with Some v => Some v | None => lookup_val b id end.
  Proof.
    induction a as [|[k v] a IH]; cbn [app lookup_val]; [reflexivity|].
    destruct (k =? id); [reflexivity|apply IH].
  Qed.
  Lemma lookup_val_notin (a : list (Z * T)) id : ~ In id (map fst a) -> lookup_val a id = None.
  Proof.
    induction a as [|[k v] a IH]; cbn [map fst In lookup_val]; intro H; [reflexivity|].
    destruct (k =? id) eqn:E; [apply Z.eqb_eq in E; tauto|]. apply IH. tauto.
  Qed.
  Lemma vals_of_ids (l : list (Z * modulator T)) : map fst (vals_of l) = map fst l.
  Proof. unfold vals_of. rewrite map_map. reflexivity. Qed.
  Lemma vals_of_app (a b : list (Z * modulator T)) : vals_of (a ++ b) = vals_of a ++ vals_of b.
  Proof. unfold vals_of. apply map_app. Qed.

  (** *** [for_each]: who sees what *)
  Fixpoint updated (dt : T) (done todo : list (Z * modulator T)) : list (Z * modulator T) :=
    match todo with
    | [] => []
    | (id, m) :: rest =>
        let m' := mupd dt (view done id rest) m in
        (id, m') :: updated dt (done ++ [(id, m')]) rest
    end.
  Lemma pm_fst dt todo : forall done, fst (pm dt done todo) = done ++ updated dt done todo.
  Proof.
    induction todo as [|[id m] rest IH]; intro done; cbn [process_mods updated pm].
    - unfold pm. cbn [process_mods fst]. rewrite app_nil_r. reflexivity.
    - unfold pm in *. cbn [process_mods].
      specialize (IH (done ++ [(id, mod_update tau sin powf secs_to_ns ns_to_secs dt (view done id rest) m)])).
      destruct (process_mods tau sin powf secs_to_ns ns_to_secs dt _ rest) as [res evs].
      cbn [fst] in *. rewrite IH, <- app_assoc. reflexivity.
  Qed.
  Lemma updated_ids dt todo : forall done, map fst (updated dt done todo) = map fst todo.
  Proof.
    induction todo as [|[id m] rest IH]; intro done; cbn [updated map fst]; [reflexivity|].
    f_equal. apply IH.
  Qed.
  Lemma pm_ids dt mods : map fst (fst (pm dt [] mods)) = map fst mods.
  Proof. rewrite pm_fst. cbn [app]. apply updated_ids. Qed.

  Definition ev_call (e : event T) : option (Z * T) :=
    match e with EvMod id dt _ => Some (id, dt) | _ => None end.
  Lemma pm_events dt todo : forall done,
    map ev_call (snd (pm dt done todo)) = map (fun km => Some (fst km, dt)) todo.
  Proof.
    induction todo as [|[id m] rest IH]; intro done; unfold pm in *; cbn [process_mods].
    - reflexivity.
    - specialize (IH (done ++ [(id, mod_update tau sin powf secs_to_ns ns_to_secs dt (view done id rest) m)])).
      destruct (process_mods tau sin powf secs_to_ns ns_to_secs dt _ rest) as [res evs].
      cbn [snd map ev_call fst] in *. rewrite IH. reflexivity.
  Qed.

  (** the exact rule: the element at position [length pre] is updated with a view made of
      the NEW versions of its predecessors ([pre'], which are in the result), the dummy value
      0.0 under its own id, and the OLD versions of its successors ([post], from the input) *)
  Lemma chain_lag_gen dt pre : forall done id m post,
    exists pre' post',
      fst (pm dt done (pre ++ (id, m) :: post)) =
        done ++ pre' ++ (id, mupd dt (view (done ++ pre') id post) m) :: post' /\
      map fst pre' = map fst pre /\ map fst post' = map fst post.
  Proof.
    induction pre as [|[k mk] pre IH]; intros done id m post.
    - exists [], (updated dt (done ++ [(id, mupd dt (view done id post) m)]) post).
      rewrite pm_fst. cbn [app updated]. rewrite app_nil_r.
      split; [reflexivity|]. split; [reflexivity|]. apply updated_ids.
    - rewrite pm_fst. cbn [app updated].
      set (mk' := mupd dt (view done k (pre ++ (id, m) :: post)) mk).
      destruct (IH (done ++ [(k, mk')]) id m post) as (pre' & post' & E & I1 & I2).
      rewrite pm_fst in E. apply app_inv_head in E.
      exists ((k, mk') :: pre'), post'.
      split.
      + f_equal. cbn [app]. f_equal. rewrite E. rewrite <- app_assoc. reflexivity.
      + split; [cbn [map fst]; f_equal; exact I1 | exact I2].
  Qed.

  Lemma modulator_chain_lag_proof dt pre id m post :
    exists pre' post',
      fst (pm dt [] (pre ++ (id, m) :: post)) = pre' ++ (id, mupd dt (view pre' id post) m) :: post' /\
      map fst pre' = map fst pre /\ map fst post' = map fst post /\
      (* what that view returns: *)
      (forall j, In j (map fst pre) -> view pre' id post j = lookup_val (vals_of pre') j) /\
      (~ In id (map fst pre) -> view pre' id post id = Some n0) /\
      (forall j, ~ In j (map fst pre) -> j <> id -> view pre' id post j = lookup_val (vals_of post) j).
  Proof.
    destruct (chain_lag_gen dt pre [] id m post) as (pre' & post' & E & I1 & I2).
    exists pre', post'. cbn [app] in E. split; [exact E|]. split; [exact I1|]. split; [exact I2|].
    unfold view. split; [|split].
    - intros j Hj. rewrite lookup_val_app.
      destruct (lookup_val (vals_of pre') j) eqn:L; [reflexivity|].
      exfalso. rewrite <- I1, <- vals_of_ids in Hj.
      clear - Hj L. induction (vals_of pre') as [|[k v] l IH]; cbn [map fst In lookup_val] in *; [tauto|].
      destruct (k =? j) eqn:Ekj; [discriminate|]. apply Z.eqb_neq in Ekj. destruct Hj; [congruence|auto].
    - intro Hn. rewrite lookup_val_app, lookup_val_notin by (rewrite vals_of_ids, I1; exact Hn).
      cbn [lookup_val]. rewrite Z.eqb_refl. reflexivity.
    - intros j Hn Hj. rewrite lookup_val_app, lookup_val_notin by (rewrite vals_of_ids, I1; exact Hn).
      cbn [lookup_val]. destruct (id =? j) eqn:Eij; [apply Z.eqb_eq in Eij; congruence|]. reflexivity.
  Qed.

  (** *** a linked idle parameter: mapping of what the lookup returns, or hold *)
  Lemma param_update_linked dt look id m raw0 :
    pupd dt look {| p_state := PIdle (VFromMod id m); p_raw := raw0; p_stagnant := false |} =
    {| p_state := PIdle (VFromMod id m);
       p_raw := match look id with Some x => map_value powf m x | None => raw0 end;
       p_stagnant := false |}.
  Proof.
    unfold pupd, param_update. cbn [p_stagnant param_update_tween p_state param_new_raw raw_value].
    destruct (look id); reflexivity.
  Qed.

  (** *** [process_chunk] written with projections *)
  Lemma chunk_eq st len :
    chunk st len =
    let dtc := nmul (r_dt st) (nofZ len) in
    let r := pm dtc [] (r_mods st) in
    let look := lookup_val (vals_of (fst r)) in
    let clocks' := map (fun kc => (fst kc, clock_update powf secs_to_ns ns_to_secs dtc look (snd kc))) (r_clocks st) in
    let probes' := map (fun kp => (fst kp, probe_update powf secs_to_ns ns_to_secs dtc look (snd kp))) (r_probes st) in
    {| r_dt := r_dt st; r_mods := fst r; r_new := r_new st; r_removed := r_removed st;
       r_clocks := clocks'; r_probes := probes';
       r_log := r_log st ++ snd r ++ map (fun kc => EvClock (fst kc) dtc) (r_clocks st)
                  ++ map (probe_event len look clocks') probes' |}.
  Proof.
    unfold chunk, process_chunk, pm. cbv zeta.
    destruct (process_mods tau sin powf secs_to_ns ns_to_secs _ [] (r_mods st)) as [mods' evs].
    reflexivity.
  Qed.

  Lemma chunk_frame st len :
    r_dt (chunk st len) = r_dt st /\
    map fst (r_mods (chunk st len)) = map fst (r_mods st) /\
    map fst (r_clocks (chunk st len)) = map fst (r_clocks st) /\
    map fst (r_probes (chunk st len)) = map fst (r_probes st) /\
    r_new (chunk st len) = r_new st /\ r_removed (chunk st len) = r_removed st.
  Proof.
    rewrite chunk_eq. cbv zeta. cbn [r_dt r_mods r_clocks r_probes r_new r_removed].
    split; [reflexivity|]. split; [apply pm_ids|].
    split; [rewrite map_map; reflexivity|]. split; [rewrite map_map; reflexivity|]. split; reflexivity.
  Qed.

  (** *** exactly once per chunk, modulators first *)
  Inductive call := CallMod (id : Z) (dt : T) | CallClock (cid : Z) (dt : T) | CallMixer (pid : Z) (len : Z).
  Definition call_of (e : event T) : call :=
    match e with
    | EvMod id dt _ => CallMod id dt
    | EvClock c dt => CallClock c dt
    | EvProbe p len _ _ => CallMixer p len
    | EvProbeClock p len _ => CallMixer p len
    end.
  Definition expected_calls (dt : T) (mods clocks probes : list Z) (len : Z) : list call :=
    let dtc := nmul dt (nofZ len) in
    map (fun id => CallMod id dtc) mods ++ map (fun c => CallClock c dtc) clocks
      ++ map (fun p => CallMixer p len) probes.

  Lemma pm_calls dt mods :
    map call_of (snd (pm dt [] mods)) = map (fun id => CallMod id dt) (map fst mods).
  Proof.
    pose proof (pm_events dt mods []) as E.
    revert E. generalize (snd (pm dt [] mods)). induction mods as [|[id m] mods IH]; intros evs E.
    - destruct evs; [reflexivity|discriminate].
    - destruct evs as [|e evs]; [discriminate|]. cbn [map fst] in *. inversion E as [[E1 E2]].
      destruct e; try discriminate. cbn [ev_call] in E1. inversion E1; subst.
      cbn [call_of]. f_equal. apply IH. exact E2.
  Qed.

  Lemma chunk_calls st len :
    map call_of (r_log (chunk st len)) =
    map call_of (r_log st) ++
      expected_calls (r_dt st) (map fst (r_mods st)) (map fst (r_clocks st)) (map fst (r_probes st)) len.
  Proof.
    rewrite chunk_eq. cbv zeta. cbn [r_log]. unfold expected_calls.
    rewrite !map_app. f_equal. rewrite pm_calls. f_equal. f_equal.
    - rewrite !map_map. reflexivity.
    - rewrite !map_map. apply map_ext. intros [pid pr]. cbn [fst snd].
      unfold probe_event. cbn [fst snd]. destruct pr; reflexivity.
  Qed.

  Lemma once_per_chunk_proof lens : forall st,
    map call_of (r_log (fold_left chunk lens st)) =
    map call_of (r_log st) ++
      flat_map (expected_calls (r_dt st) (map fst (r_mods st)) (map fst (r_clocks st)) (map fst (r_probes st))) lens.
  Proof.
    induction lens as [|len lens IH]; intro st; cbn [fold_left flat_map].
    - rewrite app_nil_r. reflexivity.
    - rewrite IH, chunk_calls.
      destruct (chunk_frame st len) as (E1 & E2 & E3 & E4 & _).
      rewrite E1, E2, E3, E4, <- app_assoc. reflexivity.
  Qed.

  (** *** linked parameters follow in the same chunk; they hold when the id does not resolve *)
  Definition linked (id : Z) (m : mapping T) (raw : T) : param T :=
    {| p_state := PIdle (VFromMod id m); p_raw := raw; p_stagnant := false |}.

  Lemma linked_same_chunk_proof st len pid w id m raw0 :
    In (pid, PrParam w (linked id m raw0)) (r_probes st) ->
    let st' := chunk st len in
    In (pid, PrParam w (linked id m
          (match lookup_val (vals_of (r_mods st')) id with
           | Some x => map_value powf m x
           | None => raw0 end))) (r_probes st').
  Proof.
    intro H. cbv zeta. rewrite chunk_eq. cbv zeta. cbn [r_probes r_mods].
    apply in_map_iff. exists (pid, PrParam w (linked id m raw0)). split; [|exact H].
    cbn [fst snd probe_update]. unfold linked. rewrite param_update_linked. reflexivity.
  Qed.

  Lemma linked_clock_same_chunk_proof st len cid id m raw0 tk started ticks frac :
    In (cid, {| c_speed := linked id m raw0; c_ticking := tk; c_started := started; c_ticks := ticks; c_frac := frac |}) (r_clocks st) ->
    let st' := chunk st len in
    exists c', In (cid, c') (r_clocks st') /\
      c_speed c' = linked id m (match lookup_val (vals_of (r_mods st')) id with
                                | Some x => map_value powf m x
                                | None => raw0 end).
  Proof.
    intro H. cbv zeta. rewrite chunk_eq. cbv zeta. cbn [r_clocks r_mods].
    eexists. split.
    - apply in_map_iff. eexists. split; [|exact H]. cbn [fst snd]. reflexivity.
    - unfold clock_update. cbn [c_speed c_ticking c_started c_ticks c_frac].
      unfold linked. rewrite param_update_linked.
      destruct tk; cbn [negb].
      + destruct (if started then _ else _) as [tk0 fr0].
        destruct (tick_loop _ _ _) as [tk1 fr1]. reflexivity.
      + reflexivity.
  Qed.

  (** *** hold after removal: ids are never reused, so once the id is gone the parameter keeps
      its value through ANY further history in which that id is not added again *)
  Definition adds (id : Z) (o : op T) : Prop := match o with OAddMod i _ => i = id | _ => False end.
  Definition gone (id : Z) (st : rstate T) : Prop :=
    ~ In id (map fst (r_mods st)) /\ ~ In id (map fst (r_new st)).

  Lemma on_mod_ids i f (l : list (Z * modulator T)) : map fst (on_mod i f l) = map fst l.
  Proof.
    unfold on_mod. rewrite map_map. apply map_ext. intros [k m]. cbn [fst snd].
    destruct (k =? i); reflexivity.
  Qed.
  Lemma filter_ids_notin (p : Z * modulator T -> bool) l id :
    ~ In id (map fst l) -> ~ In id (map fst (filter p l)).
  Proof.
    intros H C. apply H. apply in_map_iff in C. destruct C as (x & E & I).
    apply filter_In in I. apply in_map_iff. exists x. tauto.
  Qed.

  Lemma chunk_keeps st len pid w id m raw0 :
    gone id st -> In (pid, PrParam w (linked id m raw0)) (r_probes st) ->
    gone id (chunk st len) /\ In (pid, PrParam w (linked id m raw0)) (r_probes (chunk st len)).
  Proof.
    intros [G1 G2] H.
    destruct (chunk_frame st len) as (_ & E2 & _ & _ & E5 & _).
    split.
    - unfold gone. rewrite E2, E5. tauto.
    - pose proof (linked_same_chunk_proof st len pid w id m raw0 H) as L. cbv zeta in L.
      rewrite lookup_val_notin in L by (rewrite vals_of_ids, E2; exact G1). exact L.
  Qed.
  Lemma chunks_keep lens : forall st pid w id m raw0,
    gone id st -> In (pid, PrParam w (linked id m raw0)) (r_probes st) ->
    gone id (fold_left chunk lens st) /\ In (pid, PrParam w (linked id m raw0)) (r_probes (fold_left chunk lens st)).
  Proof.
    induction lens as [|len lens IH]; intros st pid w id m raw0 G H; cbn [fold_left]; [tauto|].
    destruct (chunk_keeps st len pid w id m raw0 G H) as [G' H']. apply IH; assumption.
  Qed.

  Lemma op_keeps ibs st o pid w id m raw0 :
    ~ adds id o -> gone id st -> In (pid, PrParam w (linked id m raw0)) (r_probes st) ->
    gone id (apply ibs st o) /\ In (pid, PrParam w (linked id m raw0)) (r_probes (apply ibs st o)).
  Proof.
    intros Hn [G1 G2] H. unfold apply.
    destruct o; cbn [apply_op adds] in *.
    - (* OAddMod *)
      unfold with_mods, gone. cbn [r_mods r_new r_probes]. rewrite map_app. cbn [map fst].
      split; [|exact H]. split; [exact G1|]. intro C. apply in_app_or in C. cbn [In] in C.
      destruct C as [C|[C|[]]]; [tauto|congruence].
    - (* ODropMod *) unfold gone. cbn [r_mods r_new r_probes]. tauto.
    - unfold cmd, with_mods, gone; cbn [r_mods r_new r_probes]; rewrite ?on_mod_ids; tauto.
    - unfold cmd, with_mods, gone; cbn [r_mods r_new r_probes]; rewrite ?on_mod_ids; tauto.
    - unfold cmd, with_mods, gone; cbn [r_mods r_new r_probes]; rewrite ?on_mod_ids; tauto.
    - unfold cmd, with_mods, gone; cbn [r_mods r_new r_probes]; rewrite ?on_mod_ids; tauto.
    - (* OAddClock *) unfold gone. cbn [r_mods r_new r_probes]. tauto.
    - (* OAddProbe *) unfold gone. cbn [r_mods r_new r_probes]. split; [tauto|]. apply in_or_app. tauto.
    - (* OCallback *)
      unfold callback, process.
      apply chunks_keep.
      + unfold gone, start_processing. cbn [r_mods r_new]. rewrite map_app. split; [|cbn; tauto].
        intro C. apply in_app_or in C. destruct C as [C|C]; [|tauto].
        revert C. apply filter_ids_notin. exact G1.
      + unfold start_processing. cbn [r_probes]. exact H.
  Qed.

  Lemma holds_after_removal_proof ibs ops : forall st pid w id m raw0,
    Forall (fun o => ~ adds id o) ops -> gone id st ->
    In (pid, PrParam w (linked id m raw0)) (r_probes st) ->
    In (pid, PrParam w (linked id m raw0)) (r_probes (fold_left (apply ibs) ops st)).
  Proof.
    induction ops as [|o ops IH]; intros st pid w id m raw0 Hops G H; cbn [fold_left]; [exact H|].
    inversion Hops as [|? ? Ho Hrest]; subst.
    destruct (op_keeps ibs st o pid w id m raw0 Ho G H) as [G' H']. apply IH; assumption.
  Qed.

End Order.

  (** a dropped handle takes its modulator out of the arena at the next callback *)
Lemma removed_at_next_callback_proof {T : Type} {NT : Num T} (st : rstate T) id :
    In id (r_removed st) -> ~ In id (map fst (r_new st)) ->
    gone id (start_processing st).
  Proof.
    intros Hr Hn. unfold gone, start_processing. cbn [r_mods r_new]. split; [|cbn; tauto].
    rewrite map_app. intro C. apply in_app_or in C. destruct C as [C|C]; [|tauto].
    apply in_map_iff in C. destruct C as ([k m] & E & I). cbn [fst] in E. subst k.
    apply filter_In in I. destruct I as [_ I]. cbn [fst] in I.
    apply negb_true_iff in I. unfold zmem in I.
    assert (X : existsb (Z.eqb id) (r_removed st) = true).
    { apply existsb_exists. exists id. split; [exact Hr|apply Z.eqb_refl]. }
    congruence.
  Qed.
