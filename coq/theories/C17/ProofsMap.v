(** C17 — [Mapping::map] clamps its input to the input range (normal and inverted ranges).
    Exact rational arithmetic; the equalities are Leibniz equalities of the model's results. *)
From Coq Require Import ZArith QArith Qround Qabs Qreduction Lia Lqa Bool List.
From KV Require Import Base.Outcome Base.Num Base.QLemmas C19.Model C17.Model C17.ProofsLfo.
Local Open Scope Q_scope.

Lemma canon_zero q : q == 0 -> Qred q = 0.
Proof. intro H. rewrite (Qred_complete q 0 H). reflexivity. Qed.
Lemma canon_one q : q == 1 -> Qred q = 1.
Proof. intro H. rewrite (Qred_complete q 1 H). reflexivity. Qed.

(** [f64::clamp(lo, hi)] for [lo <= hi] *)
Definition clamp_to (lo hi x : Q) : Q := if Qltb x lo then lo else if Qltb hi x then hi else x.

Definition amount (lo hi x : Q) : Q := ndiv (nsub x lo) (nsub hi lo).

Lemma amount_eq lo hi x : amount lo hi x == (x - lo) / (hi - lo).
Proof. unfold amount. cbn [ndiv nsub Num_Q]. rewrite !Qred_correct. reflexivity. Qed.

Lemma clamp01_neg a : a < 0 -> clamp01 (T:=Q) a = 0.
Proof.
  intro H. unfold clamp01. cbn [nltb n0 n1 Num_Q].
  apply Qltb_true in H. rewrite H. reflexivity.
Qed.
Lemma clamp01_big a : 1 < a -> clamp01 (T:=Q) a = 1.
Proof.
  intro H. unfold clamp01. cbn [nltb n0 n1 Num_Q].
  assert (H0 : Qltb a 0 = false) by (apply Qltb_false; lra). rewrite H0.
  apply Qltb_true in H. rewrite H. reflexivity.
Qed.

Lemma div_neg a b : a < 0 -> 0 < b -> a / b < 0.
Proof. intros Ha Hb. unfold Qdiv. pose proof (Qinv_lt_0_compat b Hb). nra. Qed.
Lemma div_pos_neg a b : 0 < a -> b < 0 -> a / b < 0.
Proof.
  intros Ha Hb. assert (E : a / b == (- a) / (- b)) by (field; lra). rewrite E.
  apply div_neg; lra.
Qed.
Lemma div_gt1 a b : 0 < b -> b < a -> 1 < a / b.
Proof. intros Hb Hab. apply Qlt_shift_div_l; lra. Qed.
Lemma div_gt1_neg a b : b < 0 -> a < b -> 1 < a / b.
Proof.
  intros Hb Hab. assert (E : a / b == (- a) / (- b)) by (field; lra). rewrite E.
  apply div_gt1; lra.
Qed.

Lemma amount_lo lo hi : ~ hi == lo -> amount lo hi lo = 0.
Proof.
  intro H. unfold amount. cbn [ndiv nsub Num_Q]. apply canon_zero.
  rewrite !Qred_correct. field. lra.
Qed.
Lemma amount_hi lo hi : ~ hi == lo -> amount lo hi hi = 1.
Proof.
  intro H. unfold amount. cbn [ndiv nsub Num_Q]. apply canon_one.
  rewrite !Qred_correct. field. lra.
Qed.
Lemma clamp01_0 : clamp01 (T:=Q) 0 = 0. Proof. reflexivity. Qed.
Lemma clamp01_1 : clamp01 (T:=Q) 1 = 1. Proof. reflexivity. Qed.

Lemma clamp_amount_normal lo hi x : lo < hi ->
  clamp01 (amount lo hi x) = clamp01 (amount lo hi (clamp_to lo hi x)).
Proof.
  intro H. unfold clamp_to.
  destruct (Qltb x lo) eqn:E1.
  - apply Qltb_true in E1. rewrite amount_lo by lra. rewrite clamp01_0.
    apply clamp01_neg. rewrite amount_eq. apply div_neg; lra.
  - destruct (Qltb hi x) eqn:E2; [|reflexivity].
    apply Qltb_true in E2. rewrite amount_hi by lra. rewrite clamp01_1.
    apply clamp01_big. rewrite amount_eq. apply div_gt1; lra.
Qed.
Lemma clamp_amount_inverted lo hi x : hi < lo ->
  clamp01 (amount lo hi x) = clamp01 (amount lo hi (clamp_to hi lo x)).
Proof.
  intro H. unfold clamp_to.
  destruct (Qltb x hi) eqn:E1.
  - apply Qltb_true in E1. rewrite amount_hi by lra. rewrite clamp01_1.
    apply clamp01_big. rewrite amount_eq. apply div_gt1_neg; lra.
  - destruct (Qltb lo x) eqn:E2; [|reflexivity].
    apply Qltb_true in E2. rewrite amount_lo by lra. rewrite clamp01_0.
    apply clamp01_neg. rewrite amount_eq. apply div_pos_neg; lra.
Qed.

Lemma mapping_clamps_proof (powf : Q -> Q -> Q) (m : mapping Q) (x : Q) :
  (in_lo m < in_hi m -> map_value powf m x = map_value powf m (clamp_to (in_lo m) (in_hi m) x)) /\
  (in_hi m < in_lo m -> map_value powf m x = map_value powf m (clamp_to (in_hi m) (in_lo m) x)).
Proof.
  unfold map_value. split; intro H.
  - change (ndiv (nsub ?y (in_lo m)) (nsub (in_hi m) (in_lo m))) with (amount (in_lo m) (in_hi m) y).
    rewrite (clamp_amount_normal _ _ x H). reflexivity.
  - change (ndiv (nsub ?y (in_lo m)) (nsub (in_hi m) (in_lo m))) with (amount (in_lo m) (in_hi m) y).
    rewrite (clamp_amount_inverted _ _ x H). reflexivity.
Qed.

(** the mapped value is [out_lo] below the range and [out_hi] above it (for an easing with
    [ease 0 = 0], [ease 1 = 1], e.g. Linear) -- used for the non-vacuity examples *)
Example mapping_example :
  let m := {| in_lo := 0; in_hi := 4; out_lo := 10; out_hi := 18; m_easing := Linear |} in
  map_value (fun x _ => x) m (-3) = 10 /\ map_value (fun x _ => x) m 7 = 18 /\
  map_value (fun x _ => x) m 1 = 12.
Proof. vm_compute. repeat split; reflexivity. Qed.
