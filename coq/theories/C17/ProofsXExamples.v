(** C17 — counter-models refuted and non-vacuity of the theorems about [ModelX.v], by computation
    on concrete, non-trivial instances (exact rationals; one binary64 instance). *)
From Coq Require Import ZArith QArith Qround Qabs Qreduction List Bool Lia.
From KV Require Import Base.IEEE Base.Outcome Base.Num C19.Model C17.Model C17.ModelX
  C17.ProofsLfo C17.ProofsTween C17.ProofsOrder C17.ProofsMap C17.ProofsExamples
  C17.ProofsSet C17.ProofsChunk.
Import ListNotations.
Local Open Scope Q_scope.

Definition noc : cinfo Q := @no_clocks Q.
Definition xrunQ := xrun idp s2n n2s.
Definition tenth : xev Q := XUpd (1 # 10) noc.

(** *** the tweener: "cancel, stay here" *)
(** to 1.0 in half a second, starting in one second *)
Definition tw_later : xtween Q := {| xt_start := XDelayed 1000000000; xt_dur := 500000000; xt_easing := Linear |}.
Definition tw_now0 : xtween Q := {| xt_start := XImmediate; xt_dur := 0; xt_easing := Linear |}.
Definition cancel_before : list (xev Q) := XSet 1 tw_later :: repeat tenth 3.
Definition cancel_after : list (xev Q) := repeat tenth 30.

Lemma set_to_current_value_dropped_refuted_proof :
  exists (before : list (xev Q)) (v : Q) (tw : xtween Q) (after : list (xev Q)),
    only_updates after /\
    let h := before ++ XSet v tw :: after in
    let t_real := xrun idp s2n n2s (@xtweener_set Q _) h (xtweener_new 0) in
    let t_early := xrun idp s2n n2s (@xtweener_set_early Q _) h (xtweener_new 0) in
    (* at the moment of the command the value IS the target and a transition is pending *)
    x_value (xrun idp s2n n2s (@xtweener_set Q _) before (xtweener_new 0)) = v /\
    x_state (xrun idp s2n n2s (@xtweener_set Q _) before (xtweener_new 0)) <> XIdle /\
    x_value t_real = v /\ x_state t_real = XIdle /\ ~ x_value t_early == v.
Proof.
  exists cancel_before, 0, tw_now0, cancel_after.
  split.
  { unfold only_updates, cancel_after. apply Forall_forall. intros x Hx. apply repeat_spec in Hx. subst x. exact I. }
  cbv zeta. split; [vm_compute; reflexivity|]. split; [vm_compute; discriminate|].
  split; [vm_compute; reflexivity|]. split; [vm_compute; reflexivity|].
  vm_compute. discriminate.
Qed.
(** what the two readings produce, chunk by chunk (0.1 s each) *)
Example cancel_traces :
  xtrace idp s2n n2s (@xtweener_set Q _) (cancel_before ++ XSet 0 tw_now0 :: repeat tenth 14) (xtweener_new 0) =
    repeat 0 17 /\
  xtrace idp s2n n2s (@xtweener_set_early Q _) (cancel_before ++ XSet 0 tw_now0 :: repeat tenth 14) (xtweener_new 0) =
    repeat 0 10 ++ [1 # 5; 2 # 5; 3 # 5; 4 # 5; 1; 1; 1].
Proof. vm_compute. split; reflexivity. Qed.

(** [xtweener_command_law]: a command that arrives while an earlier transition is RUNNING (value
    2, on its way to 8), with a delayed start (0.25 s: two updates of 0.2 s wait) and with a
    clock start (clock 0 reaches tick 3 at the third update); then 0.5 s of a 1 s linear tween *)
Definition running_t0 : xtweener Q :=
  xrunQ (@xtweener_set Q _) [XSet 8 {| xt_start := XImmediate; xt_dur := 1000000000; xt_easing := Linear |};
                             XUpd (1 # 4) noc] (xtweener_new 0).
Definition clock_at (tk : Z) : cinfo Q := fun cid => if (cid =? 0)%Z then Some (true, tk, 0) else None.
Example command_law_example :
  x_value running_t0 = 2 /\ x_state running_t0 <> XIdle /\
  pending s2n (XDelayed 250000000) [(1 # 5, noc); (1 # 5, noc)] = Some (XDelayed 0) /\
  started_all s2n (XDelayed 0) [(1 # 4, noc); (1 # 4, noc)] /\
  pending s2n (XClock 0 3 0) [(1 # 5, clock_at 1); (1 # 5, clock_at 2)] = Some (XClock 0 3 0) /\
  started_all s2n (XClock 0 3 0) [(1 # 4, clock_at 3); (1 # 4, clock_at 4)] /\
  (* to the value it has (2): stays at 2 *)
  x_value (xrunQ (@xtweener_set Q _)
             (XSet 2 {| xt_start := XDelayed 250000000; xt_dur := 1000000000; xt_easing := Linear |}
              :: xupds [(1 # 5, noc); (1 # 5, noc); (1 # 4, noc); (1 # 4, noc)]) running_t0) = 2 /\
  (* to another value (-2) on a clock tick: half way after 0.5 s *)
  x_value (xrunQ (@xtweener_set Q _)
             (XSet (-2) {| xt_start := XClock 0 3 0; xt_dur := 1000000000; xt_easing := Linear |}
              :: xupds [(1 # 5, clock_at 1); (1 # 5, clock_at 2); (1 # 4, clock_at 3); (1 # 4, clock_at 4)]) running_t0) = 0.
Proof.
  split; [vm_compute; reflexivity|]. split; [vm_compute; discriminate|].
  split; [vm_compute; reflexivity|].
  split; [repeat constructor|].
  split; [vm_compute; reflexivity|].
  split; [repeat constructor|].
  vm_compute. split; reflexivity.
Qed.

(** binary64: a command to the present value of a RUNNING transition (the value is whatever the
    interpolation produced: here 0.1 + (0.7 - 0.1) * (1/3-ish)), finished by one update: the result
    is bit-for-bit the target, the state idle *)
Definition s2n64 (x : f64) : Z := 0%Z.
Definition n2s64 (ns : Z) : f64 := div64 (Z64 ns) (Z64 1000000000).
Definition b64_01 : f64 := f64_of_bits 0x3FB999999999999A.   (* 0.1 *)
Definition b64_07 : f64 := f64_of_bits 0x3FE6666666666666.   (* 0.7 *)
Definition b64_t0 : xtweener f64 :=
  xrun (fun x _ => x) s2n64 n2s64 (@xtweener_set f64 _)
    [XSet b64_07 {| xt_start := XImmediate; xt_dur := 3; xt_easing := Linear |};
     XUpd (n2s64 1) (@no_clocks f64)] (xtweener_new b64_01).
Example set_to_current_b64 :
  bits_of_f64 (x_value b64_t0) <> bits_of_f64 b64_01 /\ bits_of_f64 (x_value b64_t0) <> bits_of_f64 b64_07 /\
  let t := xrun (fun x _ => x) s2n64 n2s64 (@xtweener_set f64 _)
             [XSet (x_value b64_t0) {| xt_start := XImmediate; xt_dur := 1; xt_easing := Linear |};
              XUpd (n2s64 1) (@no_clocks f64); XUpd (n2s64 1) (@no_clocks f64)] b64_t0 in
  bits_of_f64 (x_value t) = bits_of_f64 (x_value b64_t0) /\
  match x_state t with XIdle => True | _ => False end.
Proof. vm_compute. repeat split; discriminate. Qed.

(** *** listeners *)
Definition qdist (a b : Q) : Q := Qred (Qabs (a - b)).
Definition qinterp : Q -> Q -> Q -> Q := lerp (T:=Q).
Definition ident8 : vmapping Q Q := {| vin_lo := 0; vin_hi := 8; vout_lo := 0; vout_hi := 8; vm_easing := Linear |}.
(** a tweener on its way 0 -> 8 in one second; a listener whose position is linked to it; a
    listener that waits for tick 1 of a clock running at 4 ticks/s; an emitter at 10;
    chunks of 0.25 s *)
Definition clock4 : clock Q := clock_new (VFixed 4) true.
Definition lf_state : cstate Q Q Q :=
  {| k_base := {| r_dt := 1 # 4;
                  r_mods := [(0%Z, MTweener {| t_state := TTweening 0 8 0 tw1; t_value := 0 |})];
                  r_new := []; r_removed := []; r_clocks := [(0%Z, clock4)]; r_probes := []; r_log := [] |};
     k_lis := [(0%Z, vlinked Q 0 ident8 0 0); (1%Z, vwaiting Q 0 6 0 0 1 0 1000000000 Linear 0 0)];
     k_spat := [(0%Z, {| sp_listener := 0; sp_emitter := 10; sp_watch := 0; sp_clock := 0 |});
                (1%Z, {| sp_listener := 1; sp_emitter := 10; sp_watch := 0; sp_clock := 0 |})];
     k_calls := []; k_slog := [] |}.
Definition lf_chunk (order : list stage) : cstate Q Q Q :=
  chunk_ord 6 half1 idp s2n n2s Q qinterp Q qdist order lf_state 1.
Definition slog_view (st : cstate Q Q Q) : list (Z * option Q * option (Q * Q) * option Q) :=
  map (fun e => (se_sid e, se_mod e, se_pos e, se_dist e)) (k_slog st).

(** the real order: in the chunk in which the tweener reaches 2, listener 0 is at 2 and the track
    hears distance 8; the clock reaches tick 1 in this chunk and listener 1 starts moving in it *)
Example listeners_real_order_example :
  NoDup (map fst (k_lis lf_state)) /\
  vals_of (r_mods (k_base (lf_chunk real_order))) = [(0%Z, 2)] /\
  map (fun kl => (fst kl, vp_raw (snd kl))) (k_lis (lf_chunk real_order)) = [(0%Z, 2); (1%Z, 3 # 2)] /\
  slog_view (lf_chunk real_order) =
    [(0%Z, Some 2, Some (2, 0), Some 8); (1%Z, Some 2, Some (3 # 2, 0), Some (17 # 2))] /\
  k_calls (lf_chunk real_order) = [XcMod 0; XcClock 0; XcListener 0; XcListener 1; XcSpat 0; XcSpat 1].
Proof.
  split; [repeat constructor; cbn; intuition discriminate|].
  vm_compute. repeat split; reflexivity.
Qed.

Lemma listeners_first_refuted_proof :
  exists (st : cstate Q Q Q) (len lid sid id : Z) (m : vmapping Q Q) (s : spat Q) (raw prev : Q),
    NoDup (map fst (k_lis st)) /\ In (sid, s) (k_spat st) /\ sp_listener s = lid /\
    In (lid, vlinked Q id m raw prev) (k_lis st) /\
    let st' := chunk_ord 6 half1 idp s2n n2s Q qinterp Q qdist listeners_first_order st len in
    exists (x : Q) (p : vparam Q Q) (ev : spat_event Q Q Q),
      lookup_val (vals_of (r_mods (k_base st'))) id = Some x /\
      In (lid, p) (k_lis st') /\ ~ vp_raw p == vmap idp Q qinterp m x /\
      In ev (k_slog st') /\ se_sid ev = sid /\
      se_dist ev <> Some (qdist (vmap idp Q qinterp m x) (sp_emitter s)).
Proof.
  exists lf_state, 1%Z, 0%Z, 0%Z, 0%Z, ident8,
         {| sp_listener := 0; sp_emitter := 10; sp_watch := 0; sp_clock := 0 |}, 0, 0.
  split; [repeat constructor; cbn; intuition discriminate|].
  split; [left; reflexivity|]. split; [reflexivity|]. split; [left; reflexivity|].
  cbv zeta.
  exists 2, (vlinked Q 0 ident8 0 0),
         {| se_sid := 0; se_len := 1; se_mod := Some 2; se_clock := Some (true, 1%Z, 0);
            se_pos := Some (0, 0); se_dist := Some 10 |}.
  split; [vm_compute; reflexivity|]. split; [vm_compute; left; reflexivity|].
  split; [vm_compute; discriminate|]. split; [vm_compute; left; reflexivity|].
  split; [reflexivity|]. vm_compute. discriminate.
Qed.
(** ... and a transition that waits for a clock time starts one chunk late *)
Lemma listeners_first_clock_refuted_proof :
  exists (st : cstate Q Q Q) (len lid c tk : Z) (fr : Q) (start target time : Q) (dur : Z) (e : easing Q) (raw prev : Q),
    In (lid, vwaiting Q start target time c tk fr dur e raw prev) (k_lis st) /\
    let st' := chunk_ord 6 half1 idp s2n n2s Q qinterp Q qdist listeners_first_order st len in
    when_now (cinfo_of (r_clocks (k_base st'))) c tk fr = true /\
    In (lid, vwaiting Q start target time c tk fr dur e raw raw) (k_lis st').
Proof.
  exists lf_state, 1%Z, 1%Z, 0%Z, 1%Z, 0, 0, 6, 0, 1000000000%Z, Linear, 0, 0.
  split; [right; left; reflexivity|]. cbv zeta.
  split; [vm_compute; reflexivity|]. vm_compute. right. left. reflexivity.
Qed.

(** *** a link that does not resolve yet *)
Definition ident_v : vmapping Q Q := {| vin_lo := 0; vin_hi := 100; vout_lo := 0; vout_hi := 100; vm_easing := Linear |}.
Definition not_yet : Z -> option Q := fun _ => None.
Definition now_at (x : Q) : Z -> option Q := fun id => if (id =? 7)%Z then Some x else None.
Example linked_follows_example :
  let us := [((1 # 4), not_yet, noc); ((1 # 4), not_yet, noc); ((1 # 4), now_at 3, noc); ((1 # 4), now_at 4, noc)] in
  map (fun n => vp_raw (vparam_run Q (vparam_update idp s2n n2s Q qinterp) (firstn n us) (vlinked Q 7 ident_v 50 50)))
      [1; 2; 3; 4]%nat = [50; 50; 3; 4].
Proof. vm_compute. reflexivity. Qed.
Lemma stagnant_on_unresolved_refuted_proof :
  exists (us : list (vupd Q)) (id : Z) (m : vmapping Q Q) (raw prev dt x : Q) (look : Z -> option Q),
    look id = Some x /\
    let p := vparam_run Q (vparam_update_stag idp s2n n2s Q qinterp) (us ++ [(dt, look, noc)])
                        (vlinked Q id m raw prev) in
    ~ vp_raw p == vmap idp Q qinterp m x /\ vp_stagnant p = true.
Proof.
  exists [((1 # 4), not_yet, noc)], 7%Z, ident_v, 50, 50, (1 # 4), 3, (now_at 3).
  split; [reflexivity|]. cbv zeta. split; [vm_compute; discriminate|vm_compute; reflexivity].
Qed.

(** *** the start of a callback *)
(** the game thread creates a modulator and plays a sound linked to it while the audio thread is
    between its first and its second drain *)
Definition race : list (list (list gstep)) := [[[]; [GAddMod 0; GAddReader KMixer 0 0]]].
Example race_real_order :
  cbs_ok real_drains race w_init /\
  let st := run_callbacks real_drains race w_init in
  w_mod st = [0%Z] /\ w_read st = [] /\ w_qread st = [(KMixer, 0%Z, 0%Z)] /\
  let st2 := run_callbacks real_drains (race ++ [[]]) w_init in
  w_mod st2 = [0%Z] /\ w_read st2 = [(KMixer, 0%Z, 0%Z)].
Proof.
  split.
  - cbn. repeat split; try exact I. left. reflexivity. discriminate.
  - vm_compute. repeat split; reflexivity.
Qed.
Lemma mods_first_refuted_proof :
  exists cbs : list (list (list gstep)),
    cbs_ok mods_first_drains cbs w_init /\ ~ resolvable (run_callbacks mods_first_drains cbs w_init).
Proof.
  exists race. split.
  - cbn. repeat split; try exact I. left. reflexivity. discriminate.
  - intro R. specialize (R KMixer 0%Z 0%Z).
    assert (H : In (KMixer, 0%Z, 0%Z) (w_read (run_callbacks mods_first_drains race w_init))) by (vm_compute; left; reflexivity).
    destruct (R H) as [Q|Q]; vm_compute in Q; exact Q.
Qed.
Example real_drains_shape : real_drains = [KMixer; KClock; KListener] ++ [KMod].
Proof. reflexivity. Qed.

(** [linked_probe_for_ever]: a probe parameter linked to an id that enters the arena two callbacks
    later: default while it does not resolve, the mapping from then on *)
Definition late_ops : list (op Q) :=
  [OAddProbe 0 (PrParam 7 (linked 7 ident_mapping 50)); OCallback 1; OCallback 1;
   OAddMod 7 counter; OCallback 1; OCallback 1].
Example late_modulator_example :
  is_linked_probe 0 7 7 ident_mapping (run_ops 6 half1 idp s2n n2s 4 1 [OAddProbe 0 (PrParam 7 (linked 7 ident_mapping 50))]) /\
  flat_map (fun e => match e with EvProbe _ _ raw v => [(raw, v)] | _ => [] end)
           (r_log (run_ops 6 half1 idp s2n n2s 4 1 late_ops)) =
    [(None, 50); (None, 50); (Some 1, 1); (Some 2, 2)].
Proof.
  split; [exists 50; vm_compute; left; reflexivity|]. vm_compute. reflexivity.
Qed.
