(** C12 — model side of the correspondence check: a real [AudioManager] with a tree of
    sub-tracks, index-coded static sounds (optionally with a start delay), a counting probe effect,
    pause / resume / resume_at / set_volume / drop histories, callbacks cut into internal chunks.

    Instantiation of C12.Model: time = binary64, decibels / frames / gains = binary32 (both
    channels carry the same value, so a frame is one f32), sounds = the transport + resampler
    occupancy core of C03 ([inner]) with a start time and without commands (a static sound at
    rate 1, unit volume, never paused itself: its output is exactly the heard source frame),
    effects = a frame counter added to the signal. *)
From Coq Require Import ZArith List Bool.
From KV Require Import Base.IEEE Base.Outcome Base.Num Base.Corr C19.Model C19.ModelF32 C19.Run
  C06.Model C06.Dur C06.Run C03.Model C03.Run C12.Model.
Import ListNotations.
Local Open Scope Z_scope.

(** ** the light sound *)
Record lsound := { ls_id : Z; ls_start : stime f64; ls_inner : inner; ls_stopped : bool; ls_position : Z }.
Definition u20 : f32 := f32_of_bits 0x35800000.          (* 2^-20 *)
(** source frame [idx] of sound [id] is [((id+1)*256 + idx+1) * 2^-20] in both channels *)
Definition frame_code (id idx : Z) : f32 := mul32 (Z32 ((id + 1) * 256 + idx + 1)) u20.
Definition ls_new (id n start : Z) (st : stime f64) : lsound :=
  let '(x, stopped) := inner_new n start false in
  {| ls_id := id; ls_start := st; ls_inner := x; ls_stopped := stopped; ls_position := start |}.
(** [StaticSound::on_start_processing]: publishes the position of the frame being heard *)
Definition ls_on_start (s : lsound) : lsound :=
  {| ls_id := ls_id s; ls_start := ls_start s; ls_inner := ls_inner s; ls_stopped := ls_stopped s;
     ls_position := snd (inner_heard (ls_inner s)) |}.
Fixpoint ls_frames (id : Z) (x : inner) (stopped : bool) (todo : nat) : inner * bool * list f32 :=
  match todo with
  | O => (x, stopped, [])
  | S todo' =>
      let '(present, idx) := inner_heard x in
      let out := if present then frame_code id idx else Z32 0 in
      let '(x', st) := inner_update_position x in
      let '(x'', stopped', outs) := ls_frames id x' (stopped || st) todo' in
      (x'', stopped', out :: outs)
  end.
(** [StaticSound::process] for such a sound (C03's shell without the state manager) *)
Definition ls_process (s : lsound) (len : nat) (dt : f64) (i : info f64) : outcome (lsound * list f32) :=
  let dtl := nmul dt (nofZ (Z.of_nat len)) in
  let! (st, never) := stime_update (ls_start s) dtl i in
  let stopped := ls_stopped s || never in
  if negb (is_immediate st) || stopped then
    Ok ({| ls_id := ls_id s; ls_start := st; ls_inner := ls_inner s; ls_stopped := stopped;
           ls_position := ls_position s |}, repeat (Z32 0) len)
  else
    let '(x, stopped', outs) := ls_frames (ls_id s) (ls_inner s) stopped len in
    Ok ({| ls_id := ls_id s; ls_start := st; ls_inner := x; ls_stopped := stopped';
           ls_position := ls_position s |}, outs).

(** ** the probe effect: adds [(frames processed so far) * 2^-20] to every frame *)
Fixpoint fx_frames (count : Z) (out : list f32) : list f32 :=
  match out with
  | [] => []
  | a :: r => add32 a (mul32 (Z32 (count + 1)) u20) :: fx_frames (count + 1) r
  end.
Definition fx_process (count : Z) (out : list f32) (dt : f64) (i : info f64) : Z * list f32 :=
  (count + Z.of_nat (length out), fx_frames count out).

(** ** cases *)
Inductive rop :=
| RAddTop (id persist fx : Z)
| RAddSub (parent id persist fx : Z)
| RPlay (tr sid n start : Z) (st : rstart)
| RPause (tr : Z) (tw : rtw)
| RResume (tr : Z) (st : rstart) (tw : rtw)
| RVolume (tr db : Z) (tw : rtw)
| RDrop (tr : Z)
| RDropSound (sid : Z).
(** one device callback: the handle operations issued before it, then the internal chunks
    (length, what the clocks show during that chunk) *)
Inductive rcb := RCb (ops : list rop) (chunks : list (Z * list (Z * Z * Z * Z))).
Inductive case := CTree (dt : Z) (cbs : list rcb) (tab : list (Z * Z * Z)).

Section Run.
  Variable tab : list (Z * Z * Z).
  Definition powf_none (x y : f64) : f64 := powf64_tab [] x y.
  Notation trackR := (track f64 f32 lsound Z).
  Notation mixerR := (mixer f64 f32 lsound Z).
  Definition r_on_start : mixerR -> mixerR :=
    mixer_on_start f32 silence32 identity32 lsound ls_on_start ls_stopped Z (fun e => e).
  Definition r_process : mixerR -> nat -> f64 -> info f64 -> outcome (mixerR * list f32) :=
    mixer_process powf_none f32 lerp32 identity32 f32 (Z32 0) add32 f32 (amp32 tab) mul32 mul32
      lsound ls_process Z fx_process.
  Definition r_new (id persist fx : Z) : trackR :=
    track_new f32 silence32 identity32 lsound Z (Z.to_nat id) (negb (persist =? 0)) (Fixed identity32)
      (if fx =? 0 then [] else [0]).

  Definition r_op (m : mixerR) (o : rop) : mixerR :=
    match o with
    | RAddTop id pe fx => do_op m (HAddTop (r_new id pe fx))
    | RAddSub p id pe fx => do_op m (HAddSub (Z.to_nat p) (r_new id pe fx))
    | RPlay tr sid n start st => do_op m (HPlay (Z.to_nat tr) (ls_new sid n start (mk_start st)))
    | RPause tr tw => do_op m (HPause (Z.to_nat tr) (mk_tw tw))
    | RResume tr st tw => do_op m (HResume (Z.to_nat tr) (mk_start st) (mk_tw tw))
    | RVolume tr db tw => do_op m (HVolume (Z.to_nat tr) (Fixed (f32_of_bits db)) (mk_tw tw))
    | RDrop tr => do_op m (HDrop (Z.to_nat tr))
    | RDropSound _ => m
    end.

  (** handles the user still holds: tracks (ids in creation order), sounds: (id, dropped?, last state, last position) *)
  Record hstate := { hs_tracks : list Z; hs_sounds : list (Z * bool * Z * Z) }.
  Definition h_op (h : hstate) (o : rop) : hstate :=
    match o with
    | RAddTop id _ _ | RAddSub _ id _ _ => {| hs_tracks := hs_tracks h ++ [id]; hs_sounds := hs_sounds h |}
    | RPlay _ sid _ start _ => {| hs_tracks := hs_tracks h; hs_sounds := hs_sounds h ++ [(sid, false, 0, start)] |}
    | RDrop tr => {| hs_tracks := filter (fun x => negb (x =? tr)) (hs_tracks h); hs_sounds := hs_sounds h |}
    | RDropSound sid =>
        {| hs_tracks := hs_tracks h;
           hs_sounds := map (fun '(id, d, a, b) => if id =? sid then (id, true, a, b) else (id, d, a, b)) (hs_sounds h) |}
    | _ => h
    end.
  Definition all_sounds (m : mixerR) : list lsound :=
    flat_map (fun t => t_sounds t ++ t_qsounds t) (mixer_tracks m).
  (** a sound's handle shows what its shared cell last received; a sound that left the tree keeps its last values *)
  Definition refresh (m : mixerR) (h : hstate) : hstate :=
    let live := all_sounds m in
    {| hs_tracks := hs_tracks h;
       hs_sounds := map (fun '(id, d, a, b) =>
                           match find (fun s => ls_id s =? id) live with
                           | Some s => (id, d, if ls_stopped s then 6 else 0, ls_position s)
                           | None => (id, d, a, b)
                           end) (hs_sounds h) |}.
  Definition observe (m : mixerR) (h : hstate) : list Z :=
    mixer_num_sub_tracks m
      :: flat_map (fun id => match find_track (Z.to_nat id) m with
                             | Some t => [match shared_state (t_mirror t) with Ok c => c | Panic k => 1000 + panic_code k | Hang => 2000 end;
                                          num_sounds t; num_sub_tracks t]
                             | None => [-7; -7; -7]
                             end) (hs_tracks h)
      ++ flat_map (fun '(id, d, a, b) => if (d : bool) then [] else [a; b]) (hs_sounds h).

  Definition chunks_all (m : mixerR) (dt : f64) (chunks : list (Z * list (Z * Z * Z * Z)))
    : outcome (mixerR * list Z) :=
    fold_left (fun acc '(len, clocks) =>
                 let! (m, outs) := acc in
                 let! (m', o) := r_process m (Z.to_nat len) dt (mk_info clocks []) in
                 Ok (m', outs ++ map bits_of_f32 o)) chunks (Ok (m, [])).

  Fixpoint go (m : mixerR) (h : hstate) (dt : f64) (cbs : list rcb) : list Z :=
    match cbs with
    | [] => []
    | RCb ops chunks :: cbs' =>
        let m1 := fold_left r_op ops m in
        let h1 := fold_left h_op ops h in
        let m2 := r_on_start m1 in
        match chunks_all m2 dt chunks with
        | Ok (m3, outs) =>
            let h3 := refresh m3 h1 in
            observe m3 h3 ++ outs ++ go m3 h3 dt cbs'
        | Panic k => [1000 + panic_code k]
        | Hang => [2000]
        end
    end.
End Run.

Definition run (c : case) : list Z :=
  match c with
  | CTree dt cbs tab => go tab mixer_new {| hs_tracks := []; hs_sounds := [] |} (f64_of_bits dt) cbs
  end.
