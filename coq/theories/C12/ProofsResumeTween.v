(** C12 — [TrackHandle::resume(tween)] / [SpatialTrackHandle::resume(tween)] resume IMMEDIATELY,
    whatever the start time carried by the fade-in tween: the handle writes
    [(StartTime::Immediate, tween)], so at the next callback start the track is [Resuming] (mirror 4,
    advancing: the subtree runs on from the frame where it froze) and the fade parameter has been
    told to move to 0 dB with exactly that tween — the tween's own delay is therefore counted once,
    by the parameter, and never by the state manager.  Generic in time, decibels, sounds, effects.
    The concrete instance at the end replays, in exact arithmetic, the directed history of the
    harness: pause, wait, [resume(Tween { start_time: Delayed(6 frames), duration: 4 frames })]. *)
From Coq Require Import ZArith QArith List Bool Lia.
From KV Require Import Base.Outcome Base.Num Base.QLemmas C19.Model C06.Model C06.Dur C06.Proofs
  C03.Model C03.ProofsLife C12.Model C12.ProofsFrozen C12.ProofsRemoval C12.ProofsState C12.ProofsFade
  C12.ProofsExamples.
Import ListNotations.

Section ResumeTween.
  Context {T : Type} {NT : Num T} {ND : NumDur T}.
  Variable V : Type.
  Variables silence identity : V.
  Variables Snd E : Type.
  Notation trackT := (track T V Snd E).
  Local Notation tread := (read_commands V silence identity Snd E).

  (** the state manager the resume command meets: the pause command of the same gap (if any) is read first *)
  Definition after_pause (t : trackT) (pa : option (tween T)) : psm T V :=
    match pa with Some p => psm_pause V silence (t_psm t) p | None => t_psm t end.

  Lemma resume_immediate_lemma (t : trackT) (vol : option (value T V * tween T)) (pa : option (tween T)) (tw : tween T) :
    ps (t_psm t) <> Stopped ->
    let t1 := tread (set_cmds t {| tc_vol := vol; tc_pause := pa; tc_resume := Some (Immediate, tw) |}) in
    ps (t_psm t1) = Resuming /\ t_mirror t1 = 4%Z /\ is_advancing (ps (t_psm t1)) = true /\
    fade (t_psm t1) = param_set (fade (after_pause t pa)) (Fixed identity) tw.
  Proof.
    intros N t1.
    assert (NS : is_stopped (ps (after_pause t pa)) = false).
    { unfold after_pause. destruct pa as [p|].
      - unfold psm_pause. destruct (ps (t_psm t)) eqn:EP; cbn; try reflexivity. contradiction.
      - destruct (ps (t_psm t)) eqn:EP; cbn; try reflexivity. contradiction. }
    assert (E1 : t_psm t1 = psm_resume V identity (after_pause t pa) Immediate tw).
    { unfold t1, read_commands, after_pause. cbn [t_cmds set_cmds tc_vol tc_pause tc_resume t_psm].
      destruct pa as [p|]; reflexivity. }
    assert (M1 : t_mirror t1 = state_code (ps (psm_resume V identity (after_pause t pa) Immediate tw))).
    { unfold t1, read_commands, after_pause. cbn [t_cmds set_cmds tc_vol tc_pause tc_resume t_mirror t_psm].
      destruct pa as [p|]; reflexivity. }
    rewrite M1, E1. unfold psm_resume. rewrite NS. cbn. repeat split.
  Qed.

  (** the hypothesis is met by every freshly built track *)
  Lemma resume_immediate_hypothesis_met (id : nat) (persist : bool) (vol : value T V) (fx : list E) :
    ps (t_psm (track_new V silence identity Snd E id persist vol fx)) <> Stopped.
  Proof. cbn. discriminate. Qed.
End ResumeTween.

(** ** the directed history in exact arithmetic: the root of the example tree is paused (zero fade), then
    resumed with a fade-in tween of 4 frames that carries its own delay of 6 frames; chunks of one frame *)
Local Open Scope Q_scope.
Definition twd : tween Q := {| tw_start := Delayed 5859375; tw_dur := 3906250; tw_easing := Linear |}.
Definition frozen_root : xtrack :=
  match xchunks paused_root frozen_list with Ok (t, _) => t | _ => paused_root end.
Definition resumed_root : xtrack := xon_start (h_resume Immediate twd frozen_root).
Definition one_frame_chunks (k : nat) : list (nat * Q * info Q) := repeat (1%nat, dtq, no_info) k.
Definition after_frames (k : nat) : option (Z * Q * bool) :=
  match xchunks resumed_root (one_frame_chunks k) with
  | Ok (t', outs) => Some (t_mirror t', p_raw (fade (t_psm t')), forallb all_zero outs)
  | _ => None
  end.

(** Resuming at once; silent (fade at -60 dB) while the tween's own delay runs — 6 frames, plus the update in
    which the parameter notices that the delay is over —; then the 4-frame fade; Playing at exactly 0 dB after
    6 + 1 + 4 = 11 frames and not one frame earlier.  (Counting the delay twice would give 17.) *)
Example resume_with_delayed_tween_runs :
  t_mirror frozen_root = 2%Z /\ t_mirror resumed_root = 4%Z /\ is_advancing (ps (t_psm resumed_root)) = true /\
  after_frames 7 = Some (4%Z, silenceQ, true) /\
  match after_frames 8 with Some (4%Z, v, false) => Qle_bool v silenceQ = false | _ => False end /\
  match after_frames 10 with Some (4%Z, v, false) => Qle_bool identityQ v = false | _ => False end /\
  after_frames 11 = Some (0%Z, identityQ, false).
Proof. vm_compute. repeat split. Qed.
