(** C12 — [TrackHandle::state] is total: for every history of handle operations, callback starts
    and chunks (with whatever the clocks do, including being removed), no track's state manager is
    ever [Stopped] or [Stopping] and the shared mirror always holds its state code, so the mirror is
    in 0..4 and decoding it never panics.  Generic in time, sounds, effects and frames. *)
From Coq Require Import ZArith List Bool Lia.
From KV Require Import Base.Outcome Base.Num C19.Model C06.Model C03.Model C12.Model C12.ProofsFrozen C12.ProofsRemoval.
Import ListNotations.
Local Open Scope Z_scope.

Section State.
  Context {T : Type} {NT : Num T} {ND : NumDur T}.
  Variable powf : T -> T -> T.
  Variable V : Type.
  Variable interp : V -> V -> T -> V.
  Variables silence identity : V.
  Variable A : Type.
  Variable azero : A.
  Variable aadd : A -> A -> A.
  Variable G : Type.
  Variable amp : V -> G.
  Variable gmul : G -> G -> G.
  Variable ascale : A -> G -> A.
  Variable Snd : Type.
  Variable snd_on_start : Snd -> Snd.
  Variable snd_process : Snd -> nat -> T -> info T -> outcome (Snd * list A).
  Variable snd_finished : Snd -> bool.
  Variable E : Type.
  Variable eff_on_start : E -> E.
  Variable eff_process : E -> list A -> T -> info T -> E * list A.

  Notation trackT := (track T V Snd E).
  Notation mixerT := (mixer T V Snd E).
  Local Notation tprocess := (process powf V interp identity A azero aadd G amp gmul ascale Snd snd_process E eff_process).
  Local Notation ton_start := (on_start V silence identity Snd snd_on_start snd_finished E eff_on_start).
  Local Notation tstep := (step powf V interp silence identity A azero aadd G amp gmul ascale Snd snd_on_start snd_process snd_finished E eff_on_start eff_process).
  Local Notation trun := (run_events powf V interp silence identity A azero aadd G amp gmul ascale Snd snd_on_start snd_process snd_finished E eff_on_start eff_process).
  Local Notation mupdate := (psm_update powf V interp identity).

  (** a track state: one of the five *)
  Definition five (s : pstate7 T) : Prop := s <> Stopped /\ s <> Stopping.
  Definition state_ok (t : trackT) : Prop := five (ps (t_psm t)) /\ t_mirror t = state_code (ps (t_psm t)).
  Definition tree_ok (t : trackT) : Prop := Forall state_ok (tracks_of t).
  Definition mixer_ok (m : mixerT) : Prop := Forall state_ok (mixer_tracks m).

  Lemma Forall_flat_map' {X Y} (P : Y -> Prop) (f : X -> list Y) (l : list X) :
    Forall P (flat_map f l) <-> Forall (fun x => Forall P (f x)) l.
  Proof.
    induction l as [|x r IH]; cbn [flat_map].
    - split; constructor.
    - rewrite Forall_app, IH. split.
      + intros [H1 H2]. constructor; assumption.
      + intro H. inversion H. split; assumption.
  Qed.

  Lemma tree_ok_unfold (t : trackT) :
    tree_ok t <-> state_ok t /\ Forall tree_ok (t_subs t) /\ Forall tree_ok (t_qsubs t).
  Proof.
    unfold tree_ok. rewrite (tracks_of_unfold V Snd E t).
    split.
    - intro H. inversion H as [|? ? K1 K2]. apply Forall_app in K2. destruct K2 as [K2 K3].
      rewrite Forall_flat_map' in K2, K3. split; [exact K1|]. split; [exact K2|exact K3].
    - intros [H1 [H2 H3]]. constructor; [exact H1|]. apply Forall_app. rewrite !Forall_flat_map'. split; assumption.
  Qed.
  Lemma mixer_ok_unfold (m : mixerT) :
    mixer_ok m <-> Forall tree_ok (mx_subs m) /\ Forall tree_ok (mx_qsubs m).
  Proof. unfold mixer_ok, mixer_tracks. rewrite Forall_app, !Forall_flat_map'. reflexivity. Qed.

  (** ** the state manager under the track's use of it *)
  Lemma five_code (s : pstate7 T) : five s -> 0 <= state_code s <= 4.
  Proof. intros [A1 A2]. destruct s; cbn; try lia; contradiction. Qed.

  Lemma pause_five (m : psm T V) tw : five (ps m) -> five (ps (psm_pause V silence m tw)).
  Proof.
    intro H. unfold psm_pause. destruct (is_stopped (ps m)); [exact H|]. cbn. split; discriminate.
  Qed.
  Lemma resume_five (m : psm T V) st tw : five (ps m) -> five (ps (psm_resume V identity m st tw)).
  Proof.
    intro H. unfold psm_resume. destruct (is_stopped (ps m)); [exact H|].
    destruct st; cbn; split; discriminate.
  Qed.

  (** the update followed by the F1 repair never leaves the five states, and the mirror rule
      ("store the code when the update reports a change") keeps the mirror exact *)
  Lemma update_repair_ok (m m0 : psm T V) dt i changed mir :
    five (ps m) -> mir = state_code (ps m) -> mupdate m dt i = Ok (m0, changed) ->
    five (ps (repair m0 changed)) /\
    (if changed then state_code (ps (repair m0 changed)) else mir) = state_code (ps (repair m0 changed)).
  Proof.
    intros [N1 N2] HM. unfold psm_update.
    destruct (param_update powf V interp (fade m) dt i) as [[f fin]| |]; cbn [obind]; try discriminate.
    destruct (ps m) as [| | |st tw| | |] eqn:EP; try contradiction.
    - intro H. inversion H. subst. cbn. repeat split; discriminate.
    - destruct fin; intro H; inversion H; subst; cbn; repeat split; discriminate.
    - intro H. inversion H. subst. cbn. repeat split; discriminate.
    - destruct (stime_update st dt i) as [[st' never]| |]; cbn [obind]; try discriminate.
      destruct never.
      + intro H. inversion H. subst. unfold repair. cbn. repeat split; discriminate.
      + destruct (is_immediate st').
        * intro H. inversion H. subst. unfold repair, psm_resume. cbn. repeat split; discriminate.
        * intro H. inversion H. subst. cbn. repeat split; discriminate.
    - destruct fin; intro H; inversion H; subst; cbn; repeat split; discriminate.
  Qed.

  (** ** each operation keeps every track of the tree in the five states *)
  Lemma read_commands_ok (t : trackT) : state_ok t -> state_ok (read_commands V silence identity Snd E t).
  Proof.
    intros [F M]. unfold read_commands, state_ok.
    destruct (tc_pause (t_cmds t)) as [tw|]; destruct (tc_resume (t_cmds t)) as [[st tw2]|];
      cbn [t_psm t_mirror]; (split; [|try reflexivity; try exact M]).
    - apply resume_five, pause_five, F.
    - apply pause_five, F.
    - apply resume_five, F.
    - exact F.
  Qed.

  Lemma on_start_ok (t : trackT) : tree_ok t -> tree_ok (ton_start t).
  Proof.
    induction t as [t IHs IHq] using (track_ind' V Snd E).
    intro H. apply tree_ok_unfold in H. destruct H as [H1 [H2 H3]].
    apply tree_ok_unfold.
    destruct (on_start_own V silence identity Snd snd_on_start snd_finished E eff_on_start t) as [O1 [O2 [O3 [O4 [O5 [O6 [O7 O8]]]]]]].
    split; [|split].
    - pose proof (read_commands_ok t H1) as [R1 R2]. unfold state_ok. rewrite O1, O3. split; assumption.
    - rewrite (on_start_subs V silence identity Snd snd_on_start snd_finished E eff_on_start t).
      apply Forall_app. split.
      + apply Forall_rev. apply Forall_forall. intros c' Hc'. apply in_map_iff in Hc'. destruct Hc' as [c [Ec Ic]]. subst c'.
        rewrite Forall_forall in IHq, H3. apply IHq; [exact Ic|]. apply H3. exact Ic.
      + apply Forall_forall. intros c' Hc'. apply drain_then_in in Hc'. destruct Hc' as [c [Ic [_ Ec]]]. subst c'.
        rewrite Forall_forall in IHs, H2. apply IHs; [exact Ic|]. apply H2. exact Ic.
    - rewrite O8. constructor.
  Qed.

  Lemma list_process_Forall {X} (f : X -> outcome (X * list A)) (P Q : X -> Prop) (l : list X) :
    Forall (fun x => forall x' o, f x = Ok (x', o) -> P x -> Q x') l -> Forall P l ->
    forall out l' out', list_process A aadd f l out = Ok (l', out') -> Forall Q l'.
  Proof.
    induction l as [|x r IH]; intros HF HP out l' out'; cbn [list_process].
    - intro H. inversion H. constructor.
    - inversion HF as [|? ? Hx Hr]. inversion HP as [|? ? Px Pr]. subst.
      destruct (f x) as [[x' o]| |] eqn:Ex; cbn [obind]; try discriminate.
      destruct (list_process A aadd f r (add_frames A aadd out o)) as [[r' out1]| |] eqn:Er; cbn [obind]; try discriminate.
      intro H. inversion H. subst. constructor; [exact (Hx x' o eq_refl Px)|exact (IH Hr Pr _ _ _ Er)].
  Qed.

  Lemma process_ok (t : trackT) : forall len dt i t' out,
    tprocess t len dt i = Ok (t', out) -> tree_ok t -> tree_ok t'.
  Proof.
    induction t as [t IHs _] using (track_ind' V Snd E).
    intros len dt i t' out HP H. apply tree_ok_unfold in H. destruct H as [[F M] [H2 H3]].
    revert HP. destruct t as [id m vol mk pe mir snds subs fx qs qsubs cm].
    cbn [t_psm t_mirror t_subs t_qsubs] in *.
    cbn [process t_id t_psm t_vol t_marked t_persist t_mirror t_sounds t_subs t_effects t_qsounds t_qsubs t_cmds].
    destruct (param_update powf V interp vol (nmul dt (nofZ (Z.of_nat len))) i) as [[vol' fin]| |]; cbn [obind]; try discriminate.
    destruct (mupdate m (nmul dt (nofZ (Z.of_nat len))) i) as [[m0 changed]| |] eqn:EM; cbn [obind]; try discriminate.
    destruct (update_repair_ok m m0 _ i changed mir F M EM) as [F' M'].
    destruct (negb (is_advancing (ps (repair m0 changed)))).
    - intro HP. inversion HP. subst t' out. apply tree_ok_unfold.
      cbn [t_psm t_mirror t_subs t_qsubs]. split; [split; [exact F'|exact M']|]. split; assumption.
    - destruct (list_process A aadd (fun c => tprocess c len dt i) subs (repeat azero len)) as [[subs' out1]| |] eqn:ES;
        cbn [obind]; try discriminate.
      destruct (sounds_process A aadd Snd snd_process snds len dt i out1) as [[snds' out2]| |]; cbn [obind]; try discriminate.
      destruct (effects_process A E eff_process fx dt i out2) as [fx' out3].
      intro HP. inversion HP. subst t' out. apply tree_ok_unfold.
      cbn [t_psm t_mirror t_subs t_qsubs]. split; [split; assumption|]. split; [|exact H3].
      refine (list_process_Forall _ tree_ok tree_ok subs _ H2 _ _ _ ES).
      apply Forall_forall. intros c Ic c' o Ec Pc. rewrite Forall_forall in IHs. exact (IHs c Ic len dt i c' o Ec Pc).
  Qed.

  Lemma subs_process_ok (l : list trackT) len dt i out l' out' :
    subs_process powf V interp identity A azero aadd G amp gmul ascale Snd snd_process E eff_process l len dt i out = Ok (l', out') ->
    Forall tree_ok l -> Forall tree_ok l'.
  Proof.
    unfold subs_process. intros HP HF.
    refine (list_process_Forall _ tree_ok tree_ok l _ HF _ _ _ HP).
    apply Forall_forall. intros c _ c' o Ec Pc. exact (process_ok c len dt i c' o Ec Pc).
  Qed.

  (** handle operations: [f] touches neither the state manager nor the mirror, and what it adds
      beneath the track is itself in order *)
  Definition gentle (f : trackT -> trackT) : Prop :=
    forall t, t_psm (f t) = t_psm t /\ t_mirror (f t) = t_mirror t /\
              (Forall tree_ok (t_subs t) -> Forall tree_ok (t_subs (f t))) /\
              (Forall tree_ok (t_qsubs t) -> Forall tree_ok (t_qsubs (f t))).

  Lemma upd_ok (id : nat) (f : trackT -> trackT) (t : trackT) : gentle f -> tree_ok t -> tree_ok (upd id f t).
  Proof.
    intro Gf. induction t as [t IHs IHq] using (track_ind' V Snd E).
    intro H. apply tree_ok_unfold in H. destruct H as [[F M] [H2 H3]].
    assert (K : tree_ok (with_kids t (map (upd id f) (t_subs t)) (map (upd id f) (t_qsubs t)))).
    { apply tree_ok_unfold. unfold with_kids. cbn [t_psm t_mirror t_subs t_qsubs]. split; [split; assumption|].
      split; apply Forall_forall; intros c' Hc'; apply in_map_iff in Hc'; destruct Hc' as [c [Ec Ic]]; subst c'.
      - rewrite Forall_forall in IHs, H2. apply IHs; [exact Ic|apply H2; exact Ic].
      - rewrite Forall_forall in IHq, H3. apply IHq; [exact Ic|apply H3; exact Ic]. }
    destruct t as [tid m vol mk pe mir snds subs fx qs qsubs cm].
    cbn [upd t_id t_subs t_qsubs] in *.
    destruct (Nat.eqb tid id); [|exact K].
    apply tree_ok_unfold in K. destruct K as [[KF KM] [K2 K3]].
    destruct (Gf (with_kids (Track tid m vol mk pe mir snds subs fx qs qsubs cm) (map (upd id f) subs) (map (upd id f) qsubs)))
      as [G1 [G2 [G3 G4]]].
    apply tree_ok_unfold. unfold state_ok. rewrite G1, G2. split; [split; assumption|]. split; [apply G3; exact K2|apply G4; exact K3].
  Qed.

  Lemma gentle_pause tw : gentle (h_pause tw).
  Proof. intro t. repeat split; auto. Qed.
  Lemma gentle_resume st tw : gentle (h_resume st tw).
  Proof. intro t. repeat split; auto. Qed.
  Lemma gentle_volume v tw : gentle (h_volume v tw).
  Proof. intro t. repeat split; auto. Qed.
  Lemma gentle_drop : gentle h_drop.
  Proof. intro t. repeat split; auto. Qed.
  Lemma gentle_play s : gentle (h_play s).
  Proof. intro t. repeat split; auto. Qed.
  Lemma gentle_add_sub c : tree_ok c -> gentle (h_add_sub c).
  Proof.
    intros Hc t. repeat split; auto. cbn [h_add_sub t_qsubs]. intro H. apply Forall_app. split; [exact H|]. constructor; [exact Hc|constructor].
  Qed.

  (** a freshly built track is in order *)
  Lemma track_new_ok id pe vol fx : tree_ok (track_new V silence identity Snd E id pe vol fx).
  Proof.
    apply tree_ok_unfold. cbn. repeat split; try discriminate; constructor.
  Qed.

  (** the tracks a history brings in are in order (e.g. built by [track_new], or whole prepared trees) *)
  Definition event_ok (e : event T V Snd E) : Prop :=
    match e with
    | EOp (HAddTop c) => tree_ok c
    | EOp (HAddSub _ c) => tree_ok c
    | _ => True
    end.

  Lemma mixer_upd_ok id f (m : mixerT) : gentle f -> mixer_ok m -> mixer_ok (mixer_upd id f m).
  Proof.
    intros Gf H. apply mixer_ok_unfold in H. destruct H as [H1 H2]. apply mixer_ok_unfold.
    unfold mixer_upd. cbn [mx_subs mx_qsubs].
    split; apply Forall_forall; intros c' Hc'; apply in_map_iff in Hc'; destruct Hc' as [c [Ec Ic]]; subst c';
      apply upd_ok; try exact Gf; [rewrite Forall_forall in H1; apply H1|rewrite Forall_forall in H2; apply H2]; exact Ic.
  Qed.

  Lemma step_ok (m m' : mixerT) (e : event T V Snd E) out :
    mixer_ok m -> event_ok e -> tstep m e = Ok (m', out) -> mixer_ok m'.
  Proof.
    intros H He. destruct e as [o| |len dt i]; cbn [step].
    - intro HS. inversion HS. subst m' out. clear HS.
      destruct o as [c|p c|tr s|tr tw|tr st tw|tr v tw|tr]; cbn [do_op event_ok] in *.
      + apply mixer_ok_unfold in H. destruct H as [H1 H2]. apply mixer_ok_unfold. cbn [mx_subs mx_qsubs].
        split; [exact H1|]. apply Forall_app. split; [exact H2|]. constructor; [exact He|constructor].
      + apply mixer_upd_ok; [apply gentle_add_sub; exact He|exact H].
      + apply mixer_upd_ok; [apply gentle_play|exact H].
      + apply mixer_upd_ok; [apply gentle_pause|exact H].
      + apply mixer_upd_ok; [apply gentle_resume|exact H].
      + apply mixer_upd_ok; [apply gentle_volume|exact H].
      + apply mixer_upd_ok; [apply gentle_drop|exact H].
    - intro HS. inversion HS. subst m' out. clear HS.
      apply mixer_ok_unfold in H. destruct H as [H1 H2]. apply mixer_ok_unfold.
      unfold mixer_on_start. cbn [mx_subs mx_qsubs]. split; [|constructor].
      apply Forall_forall. intros c' Hc'.
      apply (subs_on_start_in V silence identity Snd snd_on_start snd_finished E eff_on_start) in Hc'.
      destruct Hc' as [[c [Ic Ec]]|[c [Ic [_ Ec]]]]; subst c'; apply on_start_ok.
      + rewrite Forall_forall in H2. apply H2. exact Ic.
      + rewrite Forall_forall in H1. apply H1. exact Ic.
    - unfold mixer_process.
      destruct (subs_process powf V interp identity A azero aadd G amp gmul ascale Snd snd_process E eff_process (mx_subs m) len dt i (repeat azero len))
        as [[subs out1]| |] eqn:ES; cbn [obind]; try discriminate.
      intro HS. inversion HS. subst m' out. clear HS.
      apply mixer_ok_unfold in H. destruct H as [H1 H2]. apply mixer_ok_unfold. cbn [mx_subs mx_qsubs].
      split; [|exact H2]. exact (subs_process_ok _ _ _ _ _ _ _ ES H1).
  Qed.

  Lemma run_ok (es : list (event T V Snd E)) : forall (m m' : mixerT) outs,
    mixer_ok m -> Forall event_ok es -> trun m es = Ok (m', outs) -> mixer_ok m'.
  Proof.
    induction es as [|e r IH]; intros m m' outs H HE; cbn [run_events].
    - intro HR. inversion HR. subst. exact H.
    - inversion HE as [|? ? He Hr]. subst.
      destruct (tstep m e) as [[m1 o1]| |] eqn:E1; cbn [obind]; try discriminate.
      destruct (trun m1 r) as [[m2 o2]| |] eqn:E2; cbn [obind]; try discriminate.
      intro HR. injection HR as Hm Ho. rewrite <- Hm. exact (IH m1 m2 o2 (step_ok m m1 e o1 H He E1) Hr E2).
  Qed.

  Lemma mixer_new_ok : mixer_ok (@mixer_new T V Snd E).
  Proof. constructor. Qed.

  (** ** the theorem: after ANY history, every track there is (being processed or still queued)
      has a handle state that decodes, without panic, to the code of one of the five track states —
      the one its state manager is in *)
  Lemma track_state_total_lemma (es : list (event T V Snd E)) (m : mixerT) outs :
    Forall event_ok es -> trun mixer_new es = Ok (m, outs) ->
    forall t, In t (mixer_tracks m) ->
      five (ps (t_psm t)) /\
      shared_state (t_mirror t) = Ok (state_code (ps (t_psm t))) /\
      0 <= state_code (ps (t_psm t)) <= 4.
  Proof.
    intros HE HR t It.
    pose proof (run_ok es mixer_new m outs mixer_new_ok HE HR) as H.
    unfold mixer_ok in H. rewrite Forall_forall in H. destruct (H t It) as [F M].
    pose proof (five_code _ F) as R.
    split; [exact F|]. split; [|exact R].
    unfold shared_state. rewrite M.
    destruct (0 <=? state_code (ps (t_psm t))) eqn:A1; [|apply Z.leb_gt in A1; lia].
    destruct (state_code (ps (t_psm t)) <=? 4) eqn:A2; [reflexivity|apply Z.leb_gt in A2; lia].
  Qed.
End State.
