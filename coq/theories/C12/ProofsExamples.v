(** C12 — non-vacuity: the hypotheses of the theorems are met by concrete, non-trivial states of a
    three-node tree (exact arithmetic, full C03 sounds with start delays and fades), and the
    regression histories of the two repaired defects (F1: clock removed while waiting; F28: handle
    dropped while a sound / sub-track is still queued) replayed on the model. *)
From Coq Require Import ZArith QArith List Bool Lia.
From KV Require Import Base.Outcome Base.Num Base.QLemmas C19.Model C06.Model C06.Dur C06.Proofs
  C03.Model C03.ProofsLife C12.Model C12.ProofsFrozen C12.ProofsRemoval C12.ProofsState C12.ProofsFade.
Import ListNotations.
Local Open Scope Q_scope.

(** ** the instance: time, decibels, frames and gains in Q; sounds = C03's full sound model; effects = a call counter *)
Definition xpowf (x y : Q) : Q := x.
Definition xamp (db : Q) : Q :=
  if Qle_bool db (-60) then 0 else if Qeq_bool db 0 then 1 else Qred ((db + 60) / 60).
Definition xsound := sound Q Q.
Definition xno_cmds : commands Q := {| c_pause := None; c_resume := None; c_stop := None |}.
Definition xsnd_on_start (s : xsound) : xsound := son_start s xno_cmds.
Definition xsnd_process (s : xsound) (len : nat) (dt : Q) (i : info Q) : outcome (xsound * list Q) :=
  sprocess xpowf xamp s len dt i.
Definition xsnd_finished (s : xsound) : bool := sound_finished Q s.
Definition xeff_process (e : nat) (out : list Q) (dt : Q) (i : info Q) : nat * list Q := (S e, out).
Notation xlerp := (@lerp Q Num_Q).
Notation xtrack := (track Q Q xsound nat).
Notation xmixer := (mixer Q Q xsound nat).
Definition qadd (a b : Q) : Q := Qred (a + b).
Definition qmul (a b : Q) : Q := Qred (a * b).

Definition xprocess : xtrack -> nat -> Q -> info Q -> outcome (xtrack * list Q) :=
  process xpowf Q xlerp identityQ Q 0 qadd Q xamp qmul qmul xsound xsnd_process nat xeff_process.
Definition xon_start : xtrack -> xtrack :=
  on_start Q silenceQ identityQ xsound xsnd_on_start xsnd_finished nat (fun e => e).
Definition xchunks := process_chunks xpowf Q xlerp identityQ Q 0 qadd Q xamp qmul qmul xsound xsnd_process nat xeff_process.
Definition xrun : xmixer -> list (event Q Q xsound nat) -> outcome (xmixer * list Q) :=
  run_events xpowf Q xlerp silenceQ identityQ Q 0 qadd Q xamp qmul qmul xsound xsnd_on_start xsnd_process xsnd_finished
    nat (fun e => e) xeff_process.
Definition xnew (id : nat) (persist : bool) : xtrack :=
  track_new Q silenceQ identityQ xsound nat id persist (Fixed identityQ) [O].

Definition dtq : Q := 1 # 1024.
Definition tw0 : tween Q := {| tw_start := Immediate; tw_dur := 0; tw_easing := Linear |}.
(** a fade of 8 frames = 7812500 ns *)
Definition tw8 : tween Q := {| tw_start := Immediate; tw_dur := 7812500; tw_easing := Linear |}.
(** a looping sound of 4 frames; a finite sound with a start delay of 3 frames and a fade-in *)
Definition snd_a : xsound := sound_new Q silenceQ identityQ 4 0 true Immediate None.
Definition snd_b : xsound := sound_new Q silenceQ identityQ 12 0 false (Delayed 2929687) (Some tw8).

(** the three-node tree: root 0 > child 1 > grandchild 2; a sound on the root, one on the grandchild *)
Definition build_events : list (event Q Q xsound nat) :=
  [EOp (HAddTop (xnew 0 false)); EOp (HAddSub 0 (xnew 1 false)); EOp (HAddSub 1 (xnew 2 true));
   EOp (HPlay 0 snd_a); EOp (HPlay 2 snd_b); EStart; EChunk 4 dtq no_info].
Definition the_mixer : xmixer :=
  match xrun mixer_new build_events with Ok (m, _) => m | _ => mixer_new end.
Definition the_root : xtrack := match mx_subs the_mixer with t :: _ => t | [] => xnew 99 false end.

Definition all_zero (l : list Q) : bool := forallb (fun x => Qeq_bool x 0) l.

Example tree_shape :
  map t_id (mixer_tracks the_mixer) = [0; 1; 2]%nat /\ length (t_sounds the_root) = 1%nat /\
  mixer_num_sub_tracks the_mixer = 1%Z.
Proof. vm_compute. repeat split. Qed.

(** the tree plays: the first callback is not silent *)
Example tree_plays :
  match xrun mixer_new build_events with Ok (_, out) => all_zero out = false | _ => False end.
Proof. vm_compute. reflexivity. Qed.

(** ** frozen: pause the root with a zero-length fade *)
Definition paused_root : xtrack := xon_start (h_pause tw0 the_root).
Definition frozen_list : list (nat * Q * info Q) := [(4%nat, dtq, no_info); (1%nat, dtq, no_info); (8%nat, dtq, no_info)].

Example frozen_hypotheses_met :
  match xchunks paused_root frozen_list with
  | Ok (t', outs) =>
      frozen_through xpowf Q xlerp identityQ Q 0 qadd Q xamp qmul qmul xsound xsnd_process nat xeff_process paused_root frozen_list
      /\ ps (t_psm t') = Paused /\ shared_state (t_mirror t') = Ok 2%Z
      /\ forallb all_zero outs = true
      /\ beneath Q xsound nat t' = beneath Q xsound nat paused_root
  | _ => False
  end.
Proof. vm_compute. repeat split. Qed.

(** every sound beneath the paused root — its transport position, its start-delay count-down and its
    fade parameter — is literally unchanged after 13 frozen frames, while the same 13 frames move them
    when the root plays *)
Definition sounds_beneath (t : xtrack) : list xsound := flat_map (fun d => t_sounds d) (tracks_of t).
Definition sound_core (s : xsound) := (s_inner s, s_start s, s_psm s).
Example frozen_sounds_do_not_move :
  match xchunks paused_root frozen_list, xchunks (xon_start the_root) frozen_list with
  | Ok (t', _), Ok (u', _) =>
      map sound_core (sounds_beneath t') = map sound_core (sounds_beneath paused_root) /\
      length (sounds_beneath paused_root) = 2%nat /\
      map sound_core (sounds_beneath u') <> map sound_core (sounds_beneath (xon_start the_root))
  | _, _ => False
  end.
Proof. vm_compute. split; [reflexivity|]. split; [reflexivity|]. intro H. discriminate. Qed.

(** ** resuming continues: after the frozen chunks, the resumed root renders the frames the
    subtree as it froze renders next (here checked against the body of the state at freeze time) *)
Example resume_hypotheses_met :
  match xchunks paused_root frozen_list with
  | Ok (t1, _) =>
      let t1r := xon_start (h_resume Immediate tw0 t1) in
      match xprocess t1r 1 dtq no_info,
            body xpowf Q xlerp identityQ Q 0 qadd Q xamp qmul qmul xsound xsnd_process nat xeff_process
              (t_subs (xon_start paused_root)) (t_sounds (xon_start paused_root)) (t_effects paused_root) 1 dtq no_info with
      | Ok (t2, out), Ok (_, _, _, raw) =>
          is_advancing (ps (t_psm t2)) = true /\ all_zero out = false /\
          forallb (fun '(a, b) => Qeq_bool a b) (combine out raw) = true
      | _, _ => False
      end
  | _ => False
  end.
Proof. vm_compute. repeat split. Qed.

(** ** fade then freeze: an 8-frame fade-out issued on the root; Pausing for the first 7 frames, Paused from the 8th *)
Example pause_fade_hypotheses_met :
  five (ps (t_psm the_root)) /\ not_delayed (tw_start tw8) /\ (tw_dur tw8 <> 0)%Z /\
  completes (tw_start tw8) (ns_to_secs_Q (tw_dur tw8)) 0 (times [(4%nat, dtq, no_info); (3%nat, dtq, @no_info Q)]) = false /\
  completes (tw_start tw8) (ns_to_secs_Q (tw_dur tw8)) 0 (times [(4%nat, dtq, no_info); (3%nat, dtq, no_info); (1%nat, dtq, @no_info Q)]) = true.
Proof. vm_compute. repeat split; discriminate. Qed.
Example pause_fade_runs :
  let t1 := read_commands Q silenceQ identityQ xsound nat (with_pause xsound nat the_root tw8) in
  match xchunks t1 [(4%nat, dtq, no_info); (3%nat, dtq, no_info)],
        xchunks t1 [(4%nat, dtq, no_info); (3%nat, dtq, no_info); (1%nat, dtq, no_info)] with
  | Ok (ta, outa), Ok (tb, outb) =>
      ps (t_psm ta) = Pausing /\ t_mirror ta = 1%Z /\ forallb all_zero outa = false /\
      ps (t_psm tb) = Paused /\ t_mirror tb = 2%Z /\ Qeq_bool (p_raw (fade (t_psm tb))) silenceQ = true
  | _, _ => False
  end.
Proof. vm_compute. repeat split. Qed.

(** ** F1 regression: pause; resume_at(ClockTime of clock 0); clock 0 removed.  Before the repair
    the state manager went to Stopped (code 6) and [state()] panicked; now the track is Paused, its
    handle state decodes, and a later resume brings it back. *)
Definition clock_there : info Q := {| i_clocks := [Some (true, 0%Z, 0)]; i_mods := []; i_dist := None |}.
Definition clock_gone : info Q := {| i_clocks := [None]; i_mods := []; i_dist := None |}.
Definition f1_history : list (event Q Q xsound nat) :=
  [EOp (HAddTop (xnew 0 false)); EOp (HPlay 0 snd_a); EStart; EChunk 4 dtq clock_there;
   EOp (HPause 0 tw0); EStart; EChunk 4 dtq clock_there;
   EOp (HResume 0 (ClockT 0 1 0) tw0); EStart; EChunk 4 dtq clock_there;
   EStart; EChunk 4 dtq clock_gone].
Example f1_regression :
  match xrun mixer_new f1_history with
  | Ok (m, _) =>
      match find_track 0 m with
      | Some t => ps (t_psm t) = Paused /\ shared_state (t_mirror t) = Ok 2%Z
      | None => False
      end
  | _ => False
  end.
Proof. vm_compute. split; reflexivity. Qed.
(** the waiting state was really reached, and the stored code would have been 6 without the repair *)
Example f1_was_waiting :
  match xrun mixer_new (firstn 10 f1_history) with
  | Ok (m, _) => match find_track 0 m with
                 | Some t => shared_state (t_mirror t) = Ok 3%Z /\
                             match psm_update xpowf Q xlerp identityQ (t_psm t) (4 # 1024) clock_gone with
                             | Ok (m0, changed) => ps m0 = Stopped /\ changed = true /\ shared_state (state_code (ps m0)) = Panic InvalidState
                             | _ => False end
                 | None => False end
  | _ => False
  end.
Proof. vm_compute. repeat split. Qed.
Example f1_not_dead :
  match xrun mixer_new (f1_history ++ [EOp (HResume 0 Immediate tw0); EStart; EChunk 4 dtq clock_gone]) with
  | Ok (m, out) =>
      match find_track 0 m with
      | Some t => ps (t_psm t) = Playing /\ shared_state (t_mirror t) = Ok 0%Z /\ all_zero (skipn 16 out) = false
      | None => False
      end
  | _ => False
  end.
Proof. vm_compute. repeat split. Qed.

(** ** removal on the three-node tree, all drop orders that matter *)
Definition count_after (es : list (event Q Q xsound nat)) : Z :=
  match xrun the_mixer es with Ok (m, _) => Z.of_nat (length (mixer_tracks m)) | _ => (-1)%Z end.
Definition cb : list (event Q Q xsound nat) := [EStart; EChunk 4 dtq no_info].
(** parent handles dropped, a descendant's handle alive: nothing goes *)
Example removal_waits_for_descendants :
  count_after ([EOp (HDrop 0)] ++ cb ++ cb) = 3%Z /\
  count_after ([EOp (HDrop 0); EOp (HDrop 1)] ++ cb ++ cb) = 3%Z.
Proof. vm_compute. split; reflexivity. Qed.
(** all three dropped, but the grandchild persists until its 12-frame sound (after a 3-frame delay) has
    finished: the chain stays while it plays and is gone afterwards *)
Example removal_waits_for_persisting_sounds :
  count_after ([EOp (HDrop 2); EOp (HDrop 0); EOp (HDrop 1)] ++ cb ++ cb) = 3%Z /\
  count_after ([EOp (HDrop 2); EOp (HDrop 0); EOp (HDrop 1)] ++ cb ++ cb ++ cb ++ cb ++ cb ++ cb ++ cb) = 0%Z.
Proof. vm_compute. split; reflexivity. Qed.
(** the child (no persistence) with its subtree handles dropped goes at the very next callback start
    only if the grandchild can go too *)
Example removal_rule_hypotheses_met :
  should_be_removed (h_drop the_root) = false /\
  should_be_removed (upd 2 h_drop (upd 1 h_drop (h_drop the_root))) = false /\
  (exists d, In d (tracks_of the_root) /\ t_marked d = false).
Proof.
  split; [vm_compute; reflexivity|]. split; [vm_compute; reflexivity|].
  exists the_root. split; [rewrite (tracks_of_unfold Q xsound nat); left; reflexivity|vm_compute; reflexivity].
Qed.

(** ** F28 regressions *)
(** (a) persisting track, already picked up; a sound is played on it and the handle dropped before the next callback *)
Definition f28a : list (event Q Q xsound nat) :=
  [EOp (HAddTop (xnew 0 true)); EStart; EChunk 4 dtq no_info;
   EOp (HPlay 0 (sound_new Q silenceQ identityQ 6 0 false Immediate None)); EOp (HDrop 0);
   EStart; EChunk 4 dtq no_info].
Example f28a_regression :
  match xrun mixer_new f28a with
  | Ok (m, out) => mixer_num_sub_tracks m = 1%Z /\ all_zero (skipn 4 out) = false
  | _ => False
  end /\
  match xrun mixer_new (f28a ++ cb ++ cb ++ cb) with
  | Ok (m, _) => mixer_num_sub_tracks m = 0%Z
  | _ => False
  end.
Proof. vm_compute. repeat split. Qed.
(** (b) a child is added and the parent's handle dropped before the next callback; the child's handle is alive *)
Definition f28b : list (event Q Q xsound nat) :=
  [EOp (HAddTop (xnew 0 false)); EStart; EChunk 4 dtq no_info;
   EOp (HAddSub 0 (xnew 1 false)); EOp (HPlay 1 snd_a); EOp (HDrop 0);
   EStart; EChunk 4 dtq no_info; EStart; EChunk 4 dtq no_info].
Example f28b_regression :
  match xrun mixer_new f28b with
  | Ok (m, out) => map t_id (mixer_tracks m) = [0; 1]%nat /\ all_zero (skipn 4 out) = false
  | _ => False
  end /\
  match xrun mixer_new (f28b ++ [EOp (HDrop 1)] ++ cb) with
  | Ok (m, _) => mixer_tracks m = []
  | _ => False
  end.
Proof. vm_compute. repeat split. Qed.

(** a track dropped before it was ever picked up plays for one callback and goes at the next *)
Example queued_track_dropped :
  match xrun mixer_new [EOp (HAddTop (xnew 0 false)); EOp (HPlay 0 snd_a); EOp (HDrop 0); EStart; EChunk 4 dtq no_info] with
  | Ok (m, out) => mixer_num_sub_tracks m = 1%Z /\ all_zero out = false
  | _ => False
  end /\
  match xrun mixer_new [EOp (HAddTop (xnew 0 false)); EOp (HPlay 0 snd_a); EOp (HDrop 0); EStart; EChunk 4 dtq no_info; EStart; EChunk 4 dtq no_info] with
  | Ok (m, out) => mixer_num_sub_tracks m = 0%Z /\ all_zero (skipn 4 out) = true
  | _ => False
  end.
Proof. vm_compute. repeat split. Qed.

(** the histories above satisfy the side condition of [track_state_total] *)
Example histories_in_order : Forall (event_ok Q xsound nat) (build_events ++ f1_history ++ f28a ++ f28b).
Proof.
  repeat (constructor; [try exact I; try apply track_new_ok|]). constructor.
Qed.
