(** C12 — a track that is not advancing freezes everything beneath it.
    Generic: any time type, any sound, any effect, any frame arithmetic (so bit-for-bit for IEEE). *)
From Coq Require Import ZArith List Bool Lia.
From KV Require Import Base.Outcome Base.Num C19.Model C06.Model C03.Model C12.Model.
Import ListNotations.
Local Open Scope Z_scope.

Section Frozen.
  Context {T : Type} {NT : Num T} {ND : NumDur T}.
  Variable powf : T -> T -> T.
  Variable V : Type.
  Variable interp : V -> V -> T -> V.
  Variables silence identity : V.
  Variable A : Type.
  Variable azero : A.
  Variable aadd : A -> A -> A.
  Variable G : Type.
  Variable amp : V -> G.
  Variable gmul : G -> G -> G.
  Variable ascale : A -> G -> A.
  Variable Snd : Type.
  Variable snd_on_start : Snd -> Snd.
  Variable snd_process : Snd -> nat -> T -> info T -> outcome (Snd * list A).
  Variable snd_finished : Snd -> bool.
  Variable E : Type.
  Variable eff_on_start : E -> E.
  Variable eff_process : E -> list A -> T -> info T -> E * list A.

  Notation trackT := (track T V Snd E).
  Local Notation tprocess := (process powf V interp identity A azero aadd G amp gmul ascale Snd snd_process E eff_process).
  Local Notation tbody := (body powf V interp identity A azero aadd G amp gmul ascale Snd snd_process E eff_process).
  Local Notation tsubs_process := (subs_process powf V interp identity A azero aadd G amp gmul ascale Snd snd_process E eff_process).
  Local Notation tsounds_process := (sounds_process A aadd Snd snd_process).
  Local Notation teffects_process := (effects_process A E eff_process).
  Local Notation tapply_gain := (apply_gain V interp A G amp gmul ascale).
  Local Notation pupdate := (param_update powf V interp).
  Local Notation mupdate := (psm_update powf V interp identity).

  (** the time a chunk of [len] frames lasts: [dt * out.len() as f64] *)
  Definition chunk_time (len : nat) (dt : T) : T := nmul dt (nofZ (Z.of_nat len)).

  (** the part of a track that [process] rewrites when the track does NOT advance *)
  Definition set_own (t : trackT) (vol : param T V) (m : psm T V) (mir : Z) : trackT :=
    {| t_id := t_id t; t_psm := m; t_vol := vol; t_marked := t_marked t; t_persist := t_persist t;
       t_mirror := mir; t_sounds := t_sounds t; t_subs := t_subs t; t_effects := t_effects t;
       t_qsounds := t_qsounds t; t_qsubs := t_qsubs t; t_cmds := t_cmds t |}.
  (** ... and the part beneath its fader *)
  Definition set_body (t : trackT) (subs : list trackT) (snds : list Snd) (fx : list E) : trackT :=
    {| t_id := t_id t; t_psm := t_psm t; t_vol := t_vol t; t_marked := t_marked t; t_persist := t_persist t;
       t_mirror := t_mirror t; t_sounds := snds; t_subs := subs; t_effects := fx;
       t_qsounds := t_qsounds t; t_qsubs := t_qsubs t; t_cmds := t_cmds t |}.

  (** everything beneath the fader, as one value: sub-tracks (whole sub-trees: every descendant's
      state manager, volume, sounds, effects, queues, pending commands), sounds, effects, and
      what the handle queued *)
  Definition beneath (t : trackT) : list trackT * list Snd * list E * list Snd * list trackT :=
    (t_subs t, t_sounds t, t_effects t, t_qsounds t, t_qsubs t).

  (** [process], restated with the named pieces *)
  Lemma process_unfold (t : trackT) len dt i :
    tprocess t len dt i =
      (let! (vol, _) := pupdate (t_vol t) (chunk_time len dt) i in
       let! (m0, changed) := mupdate (t_psm t) (chunk_time len dt) i in
       let m := repair m0 changed in
       let mir := if changed then state_code (ps m) else t_mirror t in
       if negb (is_advancing (ps m)) then Ok (set_own t vol m mir, repeat azero len)
       else
         let! (subs, snds, fx, raw) := tbody (t_subs t) (t_sounds t) (t_effects t) len dt i in
         Ok (set_body (set_own t vol m mir) subs snds fx, tapply_gain vol (fade m) len O raw)).
  Proof.
    destruct t as [id m vol mk pe mir snds subs fx qs qsubs cm].
    cbn [process t_id t_psm t_vol t_marked t_persist t_mirror t_sounds t_subs t_effects t_qsounds t_qsubs t_cmds].
    unfold chunk_time.
    destruct (pupdate vol (nmul dt (nofZ (Z.of_nat len))) i) as [[vol' fin]| |]; cbn [obind]; try reflexivity.
    destruct (mupdate m (nmul dt (nofZ (Z.of_nat len))) i) as [[m0 changed]| |]; cbn [obind]; try reflexivity.
    destruct (negb (is_advancing (ps (repair m0 changed)))); [reflexivity|].
    unfold body, subs_process.
    destruct (list_process A aadd (fun c => tprocess c len dt i) subs (repeat azero len)) as [[subs' out1]| |];
      cbn [obind]; try reflexivity.
    destruct (tsounds_process snds len dt i out1) as [[snds' out2]| |]; cbn [obind]; try reflexivity.
    destruct (teffects_process fx dt i out2) as [fx' out3]. cbn [obind]. reflexivity.
  Qed.

  (** ** the frozen chunk *)
  Lemma paused_subtree_frozen_lemma (t t' : trackT) len dt i out :
    tprocess t len dt i = Ok (t', out) ->
    is_advancing (ps (t_psm t')) = false ->
    out = repeat azero len /\
    beneath t' = beneath t /\
    t_id t' = t_id t /\ t_marked t' = t_marked t /\ t_persist t' = t_persist t /\ t_cmds t' = t_cmds t /\
    exists vol fin m0 changed,
      pupdate (t_vol t) (chunk_time len dt) i = Ok (vol, fin) /\
      mupdate (t_psm t) (chunk_time len dt) i = Ok (m0, changed) /\
      t_vol t' = vol /\ t_psm t' = repair m0 changed /\
      t_mirror t' = (if changed then state_code (ps (repair m0 changed)) else t_mirror t).
  Proof.
    rewrite process_unfold.
    destruct (pupdate (t_vol t) (chunk_time len dt) i) as [[vol fin]| |] eqn:EV; cbn [obind]; try discriminate.
    destruct (mupdate (t_psm t) (chunk_time len dt) i) as [[m0 changed]| |] eqn:EM; cbn [obind]; try discriminate.
    destruct (is_advancing (ps (repair m0 changed))) eqn:Adv; cbn [negb].
    - destruct (tbody (t_subs t) (t_sounds t) (t_effects t) len dt i) as [[[[subs snds] fx] raw]| |]; cbn [obind]; try discriminate.
      intro H. inversion H. subst t' out. cbn [set_body set_own t_psm]. intro H1. rewrite H1 in Adv. discriminate.
    - intro H. inversion H. subst t' out. intros _.
      split; [reflexivity|]. split; [reflexivity|]. repeat (split; [reflexivity|]).
      exists vol, fin, m0, changed. repeat split.
  Qed.

  (** the converse reading: what an advancing chunk renders *)
  Lemma advancing_chunk (t t' : trackT) len dt i out :
    tprocess t len dt i = Ok (t', out) ->
    is_advancing (ps (t_psm t')) = true ->
    exists subs snds fx raw,
      tbody (t_subs t) (t_sounds t) (t_effects t) len dt i = Ok (subs, snds, fx, raw) /\
      t_subs t' = subs /\ t_sounds t' = snds /\ t_effects t' = fx /\
      out = tapply_gain (t_vol t') (fade (t_psm t')) len O raw.
  Proof.
    rewrite process_unfold.
    destruct (pupdate (t_vol t) (chunk_time len dt) i) as [[vol fin]| |] eqn:EV; cbn [obind]; try discriminate.
    destruct (mupdate (t_psm t) (chunk_time len dt) i) as [[m0 changed]| |] eqn:EM; cbn [obind]; try discriminate.
    destruct (is_advancing (ps (repair m0 changed))) eqn:Adv; cbn [negb].
    - destruct (tbody (t_subs t) (t_sounds t) (t_effects t) len dt i) as [[[[subs snds] fx] raw]| |]; cbn [obind]; try discriminate.
      intro H. inversion H. subst t' out. intros _. exists subs, snds, fx, raw. repeat split.
    - intro H. inversion H. subst t' out. cbn [set_own t_psm]. intro H1. rewrite H1 in Adv. discriminate.
  Qed.

  (** ** any number of chunks *)
  Fixpoint process_chunks (t : trackT) (l : list (nat * T * info T)) : outcome (trackT * list (list A)) :=
    match l with
    | [] => Ok (t, [])
    | (len, dt, i) :: r =>
        let! (t1, o) := tprocess t len dt i in
        let! (t2, os) := process_chunks t1 r in
        Ok (t2, o :: os)
    end.
  (** the track is not advancing after any of the chunks *)
  Fixpoint frozen_through (t : trackT) (l : list (nat * T * info T)) : Prop :=
    match l with
    | [] => True
    | (len, dt, i) :: r =>
        match tprocess t len dt i with
        | Ok (t1, _) => is_advancing (ps (t_psm t1)) = false /\ frozen_through t1 r
        | _ => False
        end
    end.

  Lemma frozen_chunks_lemma (l : list (nat * T * info T)) : forall (t t' : trackT) outs,
    process_chunks t l = Ok (t', outs) -> frozen_through t l ->
    outs = map (fun '(len, _, _) => repeat azero len) l /\ beneath t' = beneath t /\
    t_id t' = t_id t /\ t_marked t' = t_marked t /\ t_persist t' = t_persist t /\ t_cmds t' = t_cmds t.
  Proof.
    induction l as [|[[len dt] i] r IH]; intros t t' outs.
    - cbn. intro H. inversion H. intros _. repeat split.
    - cbn [process_chunks frozen_through].
      destruct (tprocess t len dt i) as [[t1 o]| |] eqn:E1; cbn [obind]; try discriminate.
      destruct (process_chunks t1 r) as [[t2 os]| |] eqn:E2; cbn [obind]; try discriminate.
      intro H. inversion H. subst t' outs. intros [F1 F2].
      destruct (paused_subtree_frozen_lemma t t1 len dt i o E1 F1) as [Ho [Hb [H1 [H2 [H3 [H4 _]]]]]].
      destruct (IH t1 t2 os E2 F2) as [Hos [Hb2 [G1 [G2 [G3 G4]]]]].
      split; [cbn [map]; rewrite Ho, Hos; reflexivity|].
      split; [rewrite Hb2; exact Hb|].
      repeat split; congruence.
  Qed.

  (** ** resuming continues from exactly the state at which the subtree froze: the first chunk in
      which the track advances again renders what the subtree, as it was when it froze, renders
      next (same states out, same frames under the fader). *)
  Lemma resume_continues_lemma (l : list (nat * T * info T)) (t t1 t2 : trackT) outs len dt i out :
    process_chunks t l = Ok (t1, outs) -> frozen_through t l ->
    tprocess t1 len dt i = Ok (t2, out) -> is_advancing (ps (t_psm t2)) = true ->
    exists subs snds fx raw,
      tbody (t_subs t) (t_sounds t) (t_effects t) len dt i = Ok (subs, snds, fx, raw) /\
      t_subs t2 = subs /\ t_sounds t2 = snds /\ t_effects t2 = fx /\
      out = tapply_gain (t_vol t2) (fade (t_psm t2)) len O raw.
  Proof.
    intros HP HF HR HA.
    destruct (frozen_chunks_lemma l t t1 outs HP HF) as [_ [Hb _]].
    unfold beneath in Hb. injection Hb as B1 B2 B3 B4 B5.
    rewrite <- B1, <- B2, <- B3. exact (advancing_chunk t1 t2 len dt i out HR HA).
  Qed.

  (** ** between chunks: [on_start_processing] hands every surviving sound to
      [Sound::on_start_processing] only — it never calls [process] on anything, whatever the
      playback state of the track or of its ancestors *)
  Local Notation ton_start := (on_start V silence identity Snd snd_on_start snd_finished E eff_on_start).
  Lemma on_start_sounds (t : trackT) :
    t_sounds (ton_start t) =
      map snd_on_start (rev (t_qsounds t) ++ filter (fun s => negb (snd_finished s)) (t_sounds t)).
  Proof. destruct t; reflexivity. Qed.
  Lemma on_start_subs (t : trackT) :
    t_subs (ton_start t) =
      rev (map ton_start (t_qsubs t)) ++ drain_then should_be_removed ton_start (t_subs t).
  Proof. destruct t; reflexivity. Qed.
  Lemma on_start_own (t : trackT) :
    t_psm (ton_start t) = t_psm (read_commands V silence identity Snd E t) /\
    t_vol (ton_start t) = t_vol (read_commands V silence identity Snd E t) /\
    t_mirror (ton_start t) = t_mirror (read_commands V silence identity Snd E t) /\
    t_marked (ton_start t) = t_marked t /\ t_persist (ton_start t) = t_persist t /\ t_id (ton_start t) = t_id t /\
    t_qsounds (ton_start t) = [] /\ t_qsubs (ton_start t) = [].
  Proof.
    destruct t as [id m vol mk pe mir snds subs fx qs qsubs cm].
    cbn [on_start t_psm t_vol t_mirror t_marked t_persist t_id t_qsounds t_qsubs].
    repeat split; unfold read_commands; cbn [t_cmds t_psm t_mirror t_vol t_marked t_persist t_id];
      destruct (tc_pause cm); destruct (tc_resume cm) as [[? ?]|]; reflexivity.
  Qed.
End Frozen.
