(** C12 — executable model of the mixer's sub-track tree with its control state.
    Transcribed from crates/kira/src/track/sub.rs (Track::{read_commands, pause, resume,
    should_be_removed, on_start_processing, process, update_shared_playback_state}), track.rs
    (TrackShared::{new, state, set_state, mark_for_removal}), track/sub/handle.rs (pause, resume,
    resume_at, set_volume, play, add_sub_track, num_sounds, num_sub_tracks, Drop),
    track/sub/builder.rs (build, persist_until_sounds_finish), backend/resources.rs
    (ResourceStorage::remove_and_add, ResourceController::{insert, len}) and
    backend/resources/mixer.rs (Mixer::{on_start_processing, process}, sub-track part).

    The track's PlaybackStateManager and its volume are the C03 / C06 models.  Sounds and effects
    are ABSTRACT but stateful (a state type and the three / two trait methods the track calls), so
    every theorem holds for any sound and any effect; frames and gains are abstract too (any
    addition / scaling), so the theorems hold bit-for-bit for IEEE frames.

    What is abstracted: an arena ([ResourceStorage]) is the list of its items in iteration order
    (atomic_arena iterates most-recently-inserted first; [remove_and_add] first drains the items
    that pass the test, then pops the new-resource queue in FIFO order, inserting each at the
    head); the queue of not-yet-picked-up resources is a list (oldest first); capacities are
    never reached (C08); a command slot ([CommandWriter]/[CommandReader], C07) is an [option]
    overwritten by the handle and taken by [read_commands]; send routes (C02), spatial data (C15)
    and effects' own parameters are left out. *)
From Coq Require Import ZArith List Bool.
From KV Require Import Base.Outcome Base.Num C19.Model C06.Model C03.Model.
Import ListNotations.
Local Open Scope Z_scope.

Section Generic.
  Context {T : Type} {NT : Num T} {ND : NumDur T}.
  Variable powf : T -> T -> T.
  Variable V : Type.                           (* Decibels *)
  Variable interp : V -> V -> T -> V.
  Variables silence identity : V.
  (** frames and gains *)
  Variable A : Type.
  Variable azero : A.
  Variable aadd : A -> A -> A.                 (* Frame += Frame *)
  Variable G : Type.
  Variable amp : V -> G.                       (* Decibels::as_amplitude *)
  Variable gmul : G -> G -> G.                 (* volume * fade_volume *)
  Variable ascale : A -> G -> A.               (* Frame *= f32 *)
  (** sounds: [Sound::{on_start_processing, process, finished}] *)
  Variable Snd : Type.
  Variable snd_on_start : Snd -> Snd.
  Variable snd_process : Snd -> nat -> T -> info T -> outcome (Snd * list A).
  Variable snd_finished : Snd -> bool.
  (** effects: [Effect::{on_start_processing, process}] *)
  Variable E : Type.
  Variable eff_on_start : E -> E.
  Variable eff_process : E -> list A -> T -> info T -> E * list A.

  Notation psmT := (psm T V).
  Notation paramV := (param T V).

  (** pending handle commands of one track (one slot per kind, last write wins) *)
  Record tcmds := {
    tc_vol : option (value T V * tween T);
    tc_pause : option (tween T);
    tc_resume : option (stime T * tween T);
  }.
  Definition no_cmds : tcmds := {| tc_vol := None; tc_pause := None; tc_resume := None |}.

  (** ** the track *)
  Inductive track := Track {
    t_id : nat;                 (* identity used by the handle operations of a history *)
    t_psm : psmT;               (* playback_state_manager *)
    t_vol : paramV;             (* volume *)
    t_marked : bool;            (* TrackShared.removed *)
    t_persist : bool;           (* persist_until_sounds_finish *)
    t_mirror : Z;               (* TrackShared.state (u8) *)
    t_sounds : list Snd;          (* sounds arena *)
    t_subs : list track;        (* sub_tracks arena *)
    t_effects : list E;
    t_qsounds : list Snd;         (* sounds queued by the handle, not yet picked up *)
    t_qsubs : list track;       (* sub-tracks queued by the handle, not yet picked up *)
    t_cmds : tcmds;
  }.

  (** [PlaybackStateManager::mark_as_paused] *)
  Definition psm_mark_paused (m : psmT) : psmT := {| ps := Paused; fade := fade m |}.

  (** [TrackBuilder::build] ([PlaybackStateManager::new(None)], [TrackShared::new]) *)
  Definition track_new (id : nat) (persist : bool) (vol : value T V) (fx : list E) : track :=
    {| t_id := id; t_psm := psm_new V silence identity None; t_vol := param_new vol identity;
       t_marked := false; t_persist := persist; t_mirror := 0;
       t_sounds := []; t_subs := []; t_effects := fx; t_qsounds := []; t_qsubs := [];
       t_cmds := no_cmds |}.

  (** [TrackShared::state]: decodes 0..4, anything else panics *)
  Definition shared_state (mirror : Z) : outcome Z :=
    if (0 <=? mirror) && (mirror <=? 4) then Ok mirror else Panic InvalidState.

  (** [Track::should_be_removed] *)
  Definition is_nil {X : Type} (l : list X) : bool := match l with [] => true | _ => false end.
  (** [ResourceStorage::has_pending] (F28 repair: queued resources count as alive) *)
  Definition has_pending {X : Type} (queue : list X) : bool := negb (is_nil queue).
  Fixpoint should_be_removed (t : track) : bool :=
    if has_pending (t_qsubs t) || existsb (fun c => negb (should_be_removed c)) (t_subs t) then false
    else if t_persist t then t_marked t && is_nil (t_sounds t) && negb (has_pending (t_qsounds t))
         else t_marked t.

  (** [Track::read_commands] (volume, then pause, then resume; each refreshes the mirror) *)
  Definition read_commands (t : track) : track :=
    let c := t_cmds t in
    let vol := match tc_vol c with Some (v, tw) => param_set (t_vol t) v tw | None => t_vol t end in
    let '(m, mir) := match tc_pause c with
                     | Some tw => let m := psm_pause V silence (t_psm t) tw in (m, state_code (ps m))
                     | None => (t_psm t, t_mirror t) end in
    let '(m, mir) := match tc_resume c with
                     | Some (st, tw) => let m := psm_resume V identity m st tw in (m, state_code (ps m))
                     | None => (m, mir) end in
    {| t_id := t_id t; t_psm := m; t_vol := vol; t_marked := t_marked t; t_persist := t_persist t;
       t_mirror := mir; t_sounds := t_sounds t; t_subs := t_subs t; t_effects := t_effects t;
       t_qsounds := t_qsounds t; t_qsubs := t_qsubs t; t_cmds := no_cmds |}.

  (** [sounds.remove_and_add(finished)] then every sound's [on_start_processing] *)
  Definition sounds_on_start (arena queue : list Snd) : list Snd :=
    map snd_on_start (rev queue ++ filter (fun s => negb (snd_finished s)) arena).

  (** [remove_and_add(test)] on the arena part, followed by the per-item call: items passing
      the test are dropped, the others get [f] *)
  Definition drain_then {X : Type} (test : X -> bool) (f : X -> X) : list X -> list X :=
    fix go (l : list X) : list X :=
      match l with
      | [] => []
      | c :: r => if test c then go r else f c :: go r
      end.

  (** [Track::on_start_processing] *)
  Fixpoint on_start (t : track) : track :=
    let t1 := read_commands t in
    {| t_id := t_id t1; t_psm := t_psm t1; t_vol := t_vol t1; t_marked := t_marked t1;
       t_persist := t_persist t1; t_mirror := t_mirror t1;
       t_sounds := sounds_on_start (t_sounds t) (t_qsounds t);
       t_subs := rev (map on_start (t_qsubs t)) ++ drain_then should_be_removed on_start (t_subs t);
       t_effects := map eff_on_start (t_effects t);
       t_qsounds := []; t_qsubs := []; t_cmds := t_cmds t1 |}.

  (** [sub_tracks.remove_and_add(should_be_removed)] then every sub-track's [on_start_processing] *)
  Definition subs_on_start (arena queue : list track) : list track :=
    rev (map on_start queue) ++ drain_then should_be_removed on_start arena.

  (** [*summed_out += x] over the zipped slices *)
  Fixpoint add_frames (out src : list A) : list A :=
    match out, src with
    | o :: os, s :: ss => aadd o s :: add_frames os ss
    | _, _ => out
    end.

  (** "for each item: process it into the temp buffer, add the temp buffer to [out]" *)
  Definition list_process {X : Type} (f : X -> outcome (X * list A))
    : list X -> list A -> outcome (list X * list A) :=
    fix go (l : list X) (out : list A) : outcome (list X * list A) :=
      match l with
      | [] => Ok ([], out)
      | x :: r =>
          let! (x', o) := f x in
          let! (r', out') := go r (add_frames out o) in
          Ok (x' :: r', out')
      end.

  Definition sounds_process (l : list Snd) (len : nat) (dt : T) (i : info T) (out : list A)
    : outcome (list Snd * list A) :=
    list_process (fun s => snd_process s len dt i) l out.

  Fixpoint effects_process (l : list E) (dt : T) (i : info T) (out : list A) : list E * list A :=
    match l with
    | [] => ([], out)
    | e :: r =>
        let '(e', out1) := eff_process e out dt i in
        let '(r', out2) := effects_process r dt i out1 in
        (e' :: r', out2)
    end.

  (** the volume fade loop: frame [k] of [n] is scaled by
      [volume.interpolated_value((k+1)/n).as_amplitude() * fade.interpolated_value((k+1)/n).as_amplitude()] *)
  Fixpoint apply_gain (vol fd : paramV) (n : nat) (k : nat) (out : list A) : list A :=
    match out with
    | [] => []
    | a :: r =>
        let amount := ndiv (nofZ (Z.of_nat k + 1)) (nofZ (Z.of_nat n)) in
        ascale a (gmul (amp (param_interpolated V interp vol amount))
                       (amp (param_interpolated V interp fd amount)))
          :: apply_gain vol fd n (S k) r
    end.

  (** the F1 repair: "tracks have no stopped state" *)
  Definition repair (m : psmT) (changed : bool) : psmT :=
    if changed && is_stopped (ps m) then psm_mark_paused m else m.

  (** [Track::process] on a slice of [len] frames *)
  Fixpoint process (t : track) (len : nat) (dt : T) (i : info T) {struct t} : outcome (track * list A) :=
    let dtl := nmul dt (nofZ (Z.of_nat len)) in
    let! (vol, _) := param_update powf V interp (t_vol t) dtl i in
    let! (m0, changed) := psm_update powf V interp identity (t_psm t) dtl i in
    let m := repair m0 changed in
    let mir := if changed then state_code (ps m) else t_mirror t in
    if negb (is_advancing (ps m)) then
      Ok ({| t_id := t_id t; t_psm := m; t_vol := vol; t_marked := t_marked t; t_persist := t_persist t;
             t_mirror := mir; t_sounds := t_sounds t; t_subs := t_subs t; t_effects := t_effects t;
             t_qsounds := t_qsounds t; t_qsubs := t_qsubs t; t_cmds := t_cmds t |},
          repeat azero len)
    else
      let! (subs, out) :=
        list_process (fun c => process c len dt i) (t_subs t) (repeat azero len) in
      let! (snds, out) := sounds_process (t_sounds t) len dt i out in
      let '(fx, out) := effects_process (t_effects t) dt i out in
      let out := apply_gain vol (fade m) len O out in
      Ok ({| t_id := t_id t; t_psm := m; t_vol := vol; t_marked := t_marked t; t_persist := t_persist t;
             t_mirror := mir; t_sounds := snds; t_subs := subs; t_effects := fx;
             t_qsounds := t_qsounds t; t_qsubs := t_qsubs t; t_cmds := t_cmds t |}, out).

  (** the sub-track loop of [process] / of [Mixer::process], named *)
  Definition subs_process (l : list track) (len : nat) (dt : T) (i : info T) (out : list A)
    : outcome (list track * list A) :=
    list_process (fun c => process c len dt i) l out.

  (** what an advancing track renders beneath its own fader: sub-tracks, sounds, effects *)
  Definition body (subs : list track) (snds : list Snd) (fx : list E) (len : nat) (dt : T) (i : info T)
    : outcome (list track * list Snd * list E * list A) :=
    let! (subs', out) := subs_process subs len dt i (repeat azero len) in
    let! (snds', out) := sounds_process snds len dt i out in
    let '(fx', out) := effects_process fx dt i out in
    Ok (subs', snds', fx', out).

  (** ** handle operations (the user's thread) *)
  Definition with_kids (t : track) (subs qsubs : list track) : track :=
    {| t_id := t_id t; t_psm := t_psm t; t_vol := t_vol t; t_marked := t_marked t; t_persist := t_persist t;
       t_mirror := t_mirror t; t_sounds := t_sounds t; t_subs := subs; t_effects := t_effects t;
       t_qsounds := t_qsounds t; t_qsubs := qsubs; t_cmds := t_cmds t |}.
  (** apply [f] to the track with identity [id], wherever it is (arena or queue) *)
  Fixpoint upd (id : nat) (f : track -> track) (t : track) : track :=
    let t' := with_kids t (map (upd id f) (t_subs t)) (map (upd id f) (t_qsubs t)) in
    if Nat.eqb (t_id t) id then f t' else t'.

  Definition set_cmds (t : track) (c : tcmds) : track :=
    {| t_id := t_id t; t_psm := t_psm t; t_vol := t_vol t; t_marked := t_marked t; t_persist := t_persist t;
       t_mirror := t_mirror t; t_sounds := t_sounds t; t_subs := t_subs t; t_effects := t_effects t;
       t_qsounds := t_qsounds t; t_qsubs := t_qsubs t; t_cmds := c |}.
  (** [TrackHandle::pause] *)
  Definition h_pause (tw : tween T) (t : track) : track :=
    set_cmds t {| tc_vol := tc_vol (t_cmds t); tc_pause := Some tw; tc_resume := tc_resume (t_cmds t) |}.
  (** [TrackHandle::resume_at] ([resume] = [resume_at(Immediate)]) *)
  Definition h_resume (st : stime T) (tw : tween T) (t : track) : track :=
    set_cmds t {| tc_vol := tc_vol (t_cmds t); tc_pause := tc_pause (t_cmds t); tc_resume := Some (st, tw) |}.
  (** [TrackHandle::set_volume] *)
  Definition h_volume (v : value T V) (tw : tween T) (t : track) : track :=
    set_cmds t {| tc_vol := Some (v, tw); tc_pause := tc_pause (t_cmds t); tc_resume := tc_resume (t_cmds t) |}.
  (** [Drop for TrackHandle]: [mark_for_removal] *)
  Definition h_drop (t : track) : track :=
    {| t_id := t_id t; t_psm := t_psm t; t_vol := t_vol t; t_marked := true; t_persist := t_persist t;
       t_mirror := t_mirror t; t_sounds := t_sounds t; t_subs := t_subs t; t_effects := t_effects t;
       t_qsounds := t_qsounds t; t_qsubs := t_qsubs t; t_cmds := t_cmds t |}.
  (** [TrackHandle::play]: the sound goes to the new-resource queue *)
  Definition h_play (s : Snd) (t : track) : track :=
    {| t_id := t_id t; t_psm := t_psm t; t_vol := t_vol t; t_marked := t_marked t; t_persist := t_persist t;
       t_mirror := t_mirror t; t_sounds := t_sounds t; t_subs := t_subs t; t_effects := t_effects t;
       t_qsounds := t_qsounds t ++ [s]; t_qsubs := t_qsubs t; t_cmds := t_cmds t |}.
  (** [TrackHandle::add_sub_track] *)
  Definition h_add_sub (c : track) (t : track) : track :=
    {| t_id := t_id t; t_psm := t_psm t; t_vol := t_vol t; t_marked := t_marked t; t_persist := t_persist t;
       t_mirror := t_mirror t; t_sounds := t_sounds t; t_subs := t_subs t; t_effects := t_effects t;
       t_qsounds := t_qsounds t; t_qsubs := t_qsubs t ++ [c]; t_cmds := t_cmds t |}.
  (** [TrackHandle::num_sounds] / [num_sub_tracks]: reserved slots = arena + queue *)
  Definition num_sounds (t : track) : Z := Z.of_nat (length (t_sounds t) + length (t_qsounds t)).
  Definition num_sub_tracks (t : track) : Z := Z.of_nat (length (t_subs t) + length (t_qsubs t)).

  (** ** the mixer's sub-track arena *)
  Record mixer := { mx_subs : list track; mx_qsubs : list track }.
  Definition mixer_new : mixer := {| mx_subs := []; mx_qsubs := [] |}.
  (** [Mixer::on_start_processing] (sub-track part) *)
  Definition mixer_on_start (m : mixer) : mixer :=
    {| mx_subs := subs_on_start (mx_subs m) (mx_qsubs m); mx_qsubs := [] |}.
  (** [Mixer::process] (sub-track part): the sum of the top-level tracks *)
  Definition mixer_process (m : mixer) (len : nat) (dt : T) (i : info T) : outcome (mixer * list A) :=
    let! (subs, out) := subs_process (mx_subs m) len dt i (repeat azero len) in
    Ok ({| mx_subs := subs; mx_qsubs := mx_qsubs m |}, out).
  Definition mixer_upd (id : nat) (f : track -> track) (m : mixer) : mixer :=
    {| mx_subs := map (upd id f) (mx_subs m); mx_qsubs := map (upd id f) (mx_qsubs m) |}.
  (** [AudioManager::num_sub_tracks] *)
  Definition mixer_num_sub_tracks (m : mixer) : Z := Z.of_nat (length (mx_subs m) + length (mx_qsubs m)).

  (** ** histories *)
  Inductive hop :=
  | HAddTop (c : track)                         (* AudioManager::add_sub_track *)
  | HAddSub (parent : nat) (c : track)          (* TrackHandle::add_sub_track *)
  | HPlay (tr : nat) (s : Snd)
  | HPause (tr : nat) (tw : tween T)
  | HResume (tr : nat) (st : stime T) (tw : tween T)
  | HVolume (tr : nat) (v : value T V) (tw : tween T)
  | HDrop (tr : nat).
  Inductive event :=
  | EOp (o : hop)
  | EStart                                      (* Renderer::on_start_processing *)
  | EChunk (len : nat) (dt : T) (i : info T).   (* one internal chunk of Renderer::process *)

  Definition do_op (m : mixer) (o : hop) : mixer :=
    match o with
    | HAddTop c => {| mx_subs := mx_subs m; mx_qsubs := mx_qsubs m ++ [c] |}
    | HAddSub p c => mixer_upd p (h_add_sub c) m
    | HPlay tr s => mixer_upd tr (h_play s) m
    | HPause tr tw => mixer_upd tr (h_pause tw) m
    | HResume tr st tw => mixer_upd tr (h_resume st tw) m
    | HVolume tr v tw => mixer_upd tr (h_volume v tw) m
    | HDrop tr => mixer_upd tr h_drop m
    end.
  Definition step (m : mixer) (e : event) : outcome (mixer * list A) :=
    match e with
    | EOp o => Ok (do_op m o, [])
    | EStart => Ok (mixer_on_start m, [])
    | EChunk len dt i => mixer_process m len dt i
    end.
  Fixpoint run_events (m : mixer) (es : list event) : outcome (mixer * list A) :=
    match es with
    | [] => Ok (m, [])
    | e :: r =>
        let! (m1, o1) := step m e in
        let! (m2, o2) := run_events m1 r in
        Ok (m2, o1 ++ o2)
    end.

  (** every track of a tree / forest, arenas and queues *)
  Fixpoint tracks_of (t : track) : list track :=
    t :: flat_map tracks_of (t_subs t) ++ flat_map tracks_of (t_qsubs t).
  Definition mixer_tracks (m : mixer) : list track :=
    flat_map tracks_of (mx_subs m) ++ flat_map tracks_of (mx_qsubs m).
  (** the tracks that are being processed (arenas only) *)
  Fixpoint live_tracks_of (t : track) : list track := t :: flat_map live_tracks_of (t_subs t).
  Definition find_track (id : nat) (m : mixer) : option track :=
    find (fun t => Nat.eqb (t_id t) id) (mixer_tracks m).
End Generic.

Arguments track : clear implicits.
Arguments tcmds : clear implicits.
Arguments mixer : clear implicits.
Arguments hop : clear implicits.
Arguments event : clear implicits.
Arguments Track {T V Snd E}.
Arguments t_id {T V Snd E}. Arguments t_psm {T V Snd E}. Arguments t_vol {T V Snd E}.
Arguments t_marked {T V Snd E}. Arguments t_persist {T V Snd E}. Arguments t_mirror {T V Snd E}.
Arguments t_sounds {T V Snd E}. Arguments t_subs {T V Snd E}. Arguments t_effects {T V Snd E}.
Arguments t_qsounds {T V Snd E}. Arguments t_qsubs {T V Snd E}. Arguments t_cmds {T V Snd E}.
Arguments tc_vol {T V}. Arguments tc_pause {T V}. Arguments tc_resume {T V}. Arguments Build_tcmds {T V}.
Arguments no_cmds {T V}.
Arguments mx_subs {T V Snd E}. Arguments mx_qsubs {T V Snd E}. Arguments Build_mixer {T V Snd E}.
Arguments mixer_new {T V Snd E}.
Arguments HAddTop {T V Snd E}. Arguments HAddSub {T V Snd E}. Arguments HPlay {T V Snd E}.
Arguments HPause {T V Snd E}. Arguments HResume {T V Snd E}. Arguments HVolume {T V Snd E}.
Arguments HDrop {T V Snd E}.
Arguments EOp {T V Snd E}. Arguments EStart {T V Snd E}. Arguments EChunk {T V Snd E}.
Arguments should_be_removed {T V Snd E}. Arguments is_nil {X}. Arguments has_pending {X}.
Arguments psm_mark_paused {T V}.
Arguments repair {T V}.
Arguments upd {T V Snd E}. Arguments with_kids {T V Snd E}. Arguments set_cmds {T V Snd E}.
Arguments h_pause {T V Snd E}. Arguments h_resume {T V Snd E}. Arguments h_volume {T V Snd E}.
Arguments h_drop {T V Snd E}. Arguments h_play {T V Snd E}. Arguments h_add_sub {T V Snd E}.
Arguments num_sounds {T V Snd E}. Arguments num_sub_tracks {T V Snd E}.
Arguments mixer_upd {T V Snd E}. Arguments mixer_num_sub_tracks {T V Snd E}.
Arguments do_op {T V Snd E}.
Arguments tracks_of {T V Snd E}. Arguments live_tracks_of {T V Snd E}.
Arguments mixer_tracks {T V Snd E}. Arguments find_track {T V Snd E}.
