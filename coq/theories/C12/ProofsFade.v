(** C12 — pausing fades the track out and then freezes it; resuming fades it back in.
    The track's own state manager obeys the C03 life-cycle laws (instantiated here, time and
    decibels in Q); waiting for a start time and the clock-removed fallback are generic. *)
From Coq Require Import ZArith QArith List Bool Lia.
From KV Require Import Base.Outcome Base.Num Base.QLemmas C19.Model C19.ProofsEasing
  C06.Model C06.Dur C06.Proofs C06.Proofs2 C03.Model C03.ProofsInner C03.ProofsLife
  C12.Model C12.ProofsFrozen C12.ProofsState.
Import ListNotations.

(** ** generic part: a paused track stays frozen; a waiting track waits, resumes, or — if the
    clock it waits for is gone — falls back to Paused (the F1 repair) *)
Section Wait.
  Context {T : Type} {NT : Num T} {ND : NumDur T}.
  Variable powf : T -> T -> T.
  Variable V : Type.
  Variable interp : V -> V -> T -> V.
  Variables silence identity : V.
  Variable A : Type.
  Variable azero : A.
  Variable aadd : A -> A -> A.
  Variable G : Type.
  Variable amp : V -> G.
  Variable gmul : G -> G -> G.
  Variable ascale : A -> G -> A.
  Variable Snd : Type.
  Variable snd_process : Snd -> nat -> T -> info T -> outcome (Snd * list A).
  Variable E : Type.
  Variable eff_process : E -> list A -> T -> info T -> E * list A.

  Notation trackT := (track T V Snd E).
  Local Notation tprocess := (process powf V interp identity A azero aadd G amp gmul ascale Snd snd_process E eff_process).
  Local Notation tchunks := (process_chunks powf V interp identity A azero aadd G amp gmul ascale Snd snd_process E eff_process).
  Local Notation tfrozen := (frozen_through powf V interp identity A azero aadd G amp gmul ascale Snd snd_process E eff_process).
  Local Notation mupdate := (psm_update powf V interp identity).
  Local Notation pupdate := (param_update powf V interp).

  Lemma paused_chunk (t t' : trackT) len dt i out :
    ps (t_psm t) = Paused -> tprocess t len dt i = Ok (t', out) ->
    ps (t_psm t') = Paused /\ t_mirror t' = t_mirror t /\ out = repeat azero len /\ beneath V Snd E t' = beneath V Snd E t.
  Proof.
    intros HP HR.
    assert (St : ps (t_psm t') = Paused /\ t_mirror t' = t_mirror t).
    { revert HR. rewrite process_unfold.
      destruct (pupdate (t_vol t) (chunk_time len dt) i) as [[vol fin]| |]; cbn [obind]; try discriminate.
      unfold psm_update. rewrite HP.
      destruct (pupdate (fade (t_psm t)) (chunk_time len dt) i) as [[f fin2]| |]; cbn [obind]; try discriminate.
      unfold repair. cbn [andb ps is_advancing negb].
      intro H. inversion H. subst. split; reflexivity. }
    destruct St as [S1 S2].
    destruct (paused_subtree_frozen_lemma powf V interp identity A azero aadd G amp gmul ascale Snd snd_process E eff_process
                t t' len dt i out HR) as [Ho [Hb _]]; [rewrite S1; reflexivity|].
    repeat split; assumption.
  Qed.

  (** Paused is stable without a command: any number of chunks, all frozen *)
  Lemma paused_frozen_forever_lemma (l : list (nat * T * info T)) : forall (t t' : trackT) outs,
    ps (t_psm t) = Paused -> tchunks t l = Ok (t', outs) ->
    ps (t_psm t') = Paused /\ t_mirror t' = t_mirror t /\
    outs = map (fun '(len, _, _) => repeat azero len) l /\ beneath V Snd E t' = beneath V Snd E t.
  Proof.
    induction l as [|[[len dt] i] r IH]; intros t t' outs HP; cbn [process_chunks].
    - intro H. inversion H. subst. repeat split. exact HP.
    - destruct (tprocess t len dt i) as [[t1 o]| |] eqn:E1; cbn [obind]; try discriminate.
      destruct (tchunks t1 r) as [[t2 os]| |] eqn:E2; cbn [obind]; try discriminate.
      intro H. inversion H. subst t' outs.
      destruct (paused_chunk t t1 len dt i o HP E1) as [P1 [M1 [O1 B1]]].
      destruct (IH t1 t2 os P1 E2) as [P2 [M2 [O2 B2]]].
      split; [exact P2|]. split; [congruence|]. split; [cbn [map]; rewrite O1, O2; reflexivity|congruence].
  Qed.

  (** waiting for a start time *)
  Lemma waiting_chunk_lemma (t t' : trackT) st tw len dt i out st' never :
    ps (t_psm t) = WaitingToResume st tw -> tprocess t len dt i = Ok (t', out) ->
    stime_update st (chunk_time len dt) i = Ok (st', never) ->
    if never then
      (* the clock it waited for no longer exists: back to Paused, still frozen *)
      ps (t_psm t') = Paused /\ t_mirror t' = 2%Z /\ out = repeat azero len /\ beneath V Snd E t' = beneath V Snd E t
    else if is_immediate st' then
      (* the start time has come: the fade-in starts, from the fade value the track froze at *)
      ps (t_psm t') = Resuming /\ t_mirror t' = 4%Z /\
      exists f fin, pupdate (fade (t_psm t)) (chunk_time len dt) i = Ok (f, fin) /\
                    fade (t_psm t') = param_set f (Fixed identity) tw
    else
      ps (t_psm t') = WaitingToResume st' tw /\ t_mirror t' = t_mirror t /\
      out = repeat azero len /\ beneath V Snd E t' = beneath V Snd E t.
  Proof.
    intros HP HR HS.
    assert (St : exists f fin, pupdate (fade (t_psm t)) (chunk_time len dt) i = Ok (f, fin) /\
              if never then ps (t_psm t') = Paused /\ t_mirror t' = 2%Z
              else if is_immediate st' then ps (t_psm t') = Resuming /\ t_mirror t' = 4%Z /\ fade (t_psm t') = param_set f (Fixed identity) tw
              else ps (t_psm t') = WaitingToResume st' tw /\ t_mirror t' = t_mirror t).
    { revert HR. rewrite process_unfold.
      destruct (pupdate (t_vol t) (chunk_time len dt) i) as [[vol fin]| |]; cbn [obind]; try discriminate.
      unfold psm_update. rewrite HP.
      destruct (pupdate (fade (t_psm t)) (chunk_time len dt) i) as [[f fin2]| |]; cbn [obind]; try discriminate.
      rewrite HS. cbn [obind]. exists f, fin2. split; [reflexivity|].
      destruct never.
      - revert HR. unfold repair. cbn [andb ps is_stopped psm_mark_paused is_advancing negb state_code].
        intro H. inversion H. subst. split; reflexivity.
      - destruct (is_immediate st') eqn:Im.
        + revert HR. unfold psm_resume, repair. cbn [ps is_stopped andb is_advancing negb state_code].
          destruct (body powf V interp identity A azero aadd G amp gmul ascale Snd snd_process E eff_process
                      (t_subs t) (t_sounds t) (t_effects t) len dt i) as [[[[subs snds] fx] raw]| |]; cbn [obind]; try discriminate.
          intro H. inversion H. subst. cbn. repeat split.
        + revert HR. unfold repair. cbn [andb ps is_advancing negb].
          intro H. inversion H. subst. split; reflexivity. }
    destruct St as [f [fin [EF St]]].
    destruct never.
    - destruct St as [S1 S2].
      destruct (paused_subtree_frozen_lemma powf V interp identity A azero aadd G amp gmul ascale Snd snd_process E eff_process
                  t t' len dt i out HR) as [Ho [Hb _]]; [rewrite S1; reflexivity|].
      repeat split; assumption.
    - destruct (is_immediate st').
      + destruct St as [S1 [S2 S3]]. split; [exact S1|]. split; [exact S2|]. exists f, fin. split; assumption.
      + destruct St as [S1 S2].
        destruct (paused_subtree_frozen_lemma powf V interp identity A azero aadd G amp gmul ascale Snd snd_process E eff_process
                    t t' len dt i out HR) as [Ho [Hb _]]; [rewrite S1; reflexivity|].
        repeat split; assumption.
  Qed.

  (** a clock that does not resolve makes the start time report "never" *)
  Lemma clock_removed_never c tk fr dt (i : info T) :
    nth_error (i_clocks i) c = None \/ nth_error (i_clocks i) c = Some None ->
    stime_update (ClockT c tk fr) dt i = Ok (ClockT c tk fr, true).
  Proof.
    intro H. unfold stime_update, when_to_start. destruct H as [H|H]; rewrite H; reflexivity.
  Qed.

  (** the state manager of a track over a list of chunks: the C03 update followed by the repair *)
  Definition tupd (m : psm T V) (dt : T) (i : info T) : outcome (psm T V) :=
    match mupdate m dt i with Ok (m0, c) => Ok (repair m0 c) | Panic k => Panic k | Hang => Hang end.
  Fixpoint trun_psm (m : psm T V) (l : list (T * info T)) : outcome (psm T V) :=
    match l with
    | [] => Ok m
    | (dt, i) :: r => match tupd m dt i with Ok m' => trun_psm m' r | Panic k => Panic k | Hang => Hang end
    end.
  Definition times (l : list (nat * T * info T)) : list (T * info T) :=
    map (fun '(len, dt, i) => (chunk_time len dt, i)) l.

  Lemma process_psm (t t' : trackT) len dt i out :
    tprocess t len dt i = Ok (t', out) -> tupd (t_psm t) (chunk_time len dt) i = Ok (t_psm t').
  Proof.
    rewrite process_unfold. unfold tupd.
    destruct (pupdate (t_vol t) (chunk_time len dt) i) as [[vol fin]| |]; cbn [obind]; try discriminate.
    destruct (mupdate (t_psm t) (chunk_time len dt) i) as [[m0 changed]| |]; cbn [obind]; try discriminate.
    destruct (negb (is_advancing (ps (repair m0 changed)))).
    - intro H. inversion H. reflexivity.
    - destruct (body powf V interp identity A azero aadd G amp gmul ascale Snd snd_process E eff_process
                  (t_subs t) (t_sounds t) (t_effects t) len dt i) as [[[[subs snds] fx] raw]| |]; cbn [obind]; try discriminate.
      intro H. inversion H. reflexivity.
  Qed.
  Lemma chunks_psm (l : list (nat * T * info T)) : forall (t t' : trackT) outs,
    tchunks t l = Ok (t', outs) -> trun_psm (t_psm t) (times l) = Ok (t_psm t').
  Proof.
    induction l as [|[[len dt] i] r IH]; intros t t' outs; cbn [process_chunks times map trun_psm].
    - intro H. inversion H. reflexivity.
    - destruct (tprocess t len dt i) as [[t1 o]| |] eqn:E1; cbn [obind]; try discriminate.
      destruct (tchunks t1 r) as [[t2 os]| |] eqn:E2; cbn [obind]; try discriminate.
      intro H. injection H as H1 H2. subst t'. rewrite (process_psm t t1 len dt i o E1). exact (IH t1 t2 os E2).
  Qed.
  (** the mirror follows the state manager through chunks *)
  Lemma chunks_mirror (l : list (nat * T * info T)) (t t' : trackT) outs :
    state_ok V Snd E t -> tchunks t l = Ok (t', outs) -> state_ok V Snd E t'.
  Proof.
    revert t t' outs. induction l as [|[[len dt] i] r IH]; intros t t' outs HS; cbn [process_chunks].
    - intro H. inversion H. subst. exact HS.
    - destruct (tprocess t len dt i) as [[t1 o]| |] eqn:E1; cbn [obind]; try discriminate.
      destruct (tchunks t1 r) as [[t2 os]| |] eqn:E2; cbn [obind]; try discriminate.
      intro H. injection H as H1 H2. subst t'. apply (IH t1 t2 os); [|exact E2].
      revert E1. rewrite process_unfold.
      destruct (pupdate (t_vol t) (chunk_time len dt) i) as [[vol fin]| |]; cbn [obind]; try discriminate.
      destruct (mupdate (t_psm t) (chunk_time len dt) i) as [[m0 changed]| |] eqn:EM; cbn [obind]; try discriminate.
      destruct HS as [F M].
      destruct (update_repair_ok powf V interp identity (t_psm t) m0 _ i changed (t_mirror t) F M EM) as [F' M'].
      destruct (negb (is_advancing (ps (repair m0 changed)))).
      + intro H1. inversion H1. split; assumption.
      + destruct (body powf V interp identity A azero aadd G amp gmul ascale Snd snd_process E eff_process
                    (t_subs t) (t_sounds t) (t_effects t) len dt i) as [[[[subs snds] fx] raw]| |]; cbn [obind]; try discriminate.
        intro H1. inversion H1. split; assumption.
  Qed.
End Wait.

(** ** the fade laws, exact arithmetic *)
Section FadeQ.
  Variable powf : Q -> Q -> Q.
  Variable A : Type.
  Variable azero : A.
  Variable aadd : A -> A -> A.
  Variable G : Type.
  Variable amp : Q -> G.
  Variable gmul : G -> G -> G.
  Variable ascale : A -> G -> A.
  Variable Snd : Type.
  Variable snd_process : Snd -> nat -> Q -> info Q -> outcome (Snd * list A).
  Variable E : Type.
  Variable eff_process : E -> list A -> Q -> info Q -> E * list A.

  Notation lerpQ := (@lerp Q Num_Q).
  Notation trackQ := (track Q Q Snd E).
  Local Notation tchunks := (process_chunks powf Q lerpQ identityQ A azero aadd G amp gmul ascale Snd snd_process E eff_process).
  Local Notation tread := (read_commands Q silenceQ identityQ Snd E).

  (** outside WaitingToResume the repair never fires: the track's state manager runs exactly as C03's *)
  Definition nowait (s : pstate7 Q) : Prop := s = Playing \/ s = Pausing \/ s = Paused \/ s = Resuming.
  Lemma nowait_upd (m m0 : psm Q Q) dt i c :
    nowait (ps m) -> pupd powf m dt i = Ok (m0, c) -> nowait (ps m0) /\ repair m0 c = m0.
  Proof.
    intros H. unfold pupd, psm_update.
    destruct (param_update powf Q lerpQ (fade m) dt i) as [[f fin]| |]; cbn [obind]; try discriminate.
    unfold nowait in *. destruct H as [H|[H|[H|H]]]; rewrite H.
    - intro R. inversion R. subst. cbn. split; [auto|]. unfold repair. reflexivity.
    - destruct fin; intro R; inversion R; subst; cbn; (split; [auto|]); unfold repair; cbn; reflexivity.
    - intro R. inversion R. subst. cbn. split; [auto|]. reflexivity.
    - destruct fin; intro R; inversion R; subst; cbn; (split; [auto|]); unfold repair; cbn; reflexivity.
  Qed.
  Lemma nowait_run (l : list (Q * info Q)) : forall (m : psm Q Q),
    nowait (ps m) -> trun_psm powf Q lerpQ identityQ m l = prun powf m l.
  Proof.
    induction l as [|[dt i] r IH]; intros m H; cbn [trun_psm prun]; [reflexivity|].
    unfold tupd. fold (pupd powf m dt i).
    destruct (pupd powf m dt i) as [[m0 c]| |] eqn:EU; try reflexivity.
    destruct (nowait_upd m m0 dt i c H EU) as [H0 R]. rewrite R. apply IH. exact H0.
  Qed.

  (** the commands of one callback start: only a pause / only a resume *)
  Definition with_pause (t : trackQ) (tw : tween Q) : trackQ :=
    set_cmds t {| tc_vol := None; tc_pause := Some tw; tc_resume := None |}.
  Definition with_resume (t : trackQ) (st : stime Q) (tw : tween Q) : trackQ :=
    set_cmds t {| tc_vol := None; tc_pause := None; tc_resume := Some (st, tw) |}.

  (** pause: Pausing at once (mirror 1), the fade value follows the tween's law, Paused (mirror 2)
      at exactly the first chunk at which the tween is complete, at exactly silence *)
  Lemma track_pause_lifecycle (t t' : trackQ) tw (l : list (nat * Q * info Q)) outs :
    five (ps (t_psm t)) -> not_delayed (tw_start tw) -> (tw_dur tw <> 0)%Z ->
    let t1 := tread (with_pause t tw) in
    let D := ns_to_secs_Q (tw_dur tw) in
    let L := times l in
    ps (t_psm t1) = Pausing /\ t_mirror t1 = 1%Z /\
    (tchunks t1 l = Ok (t', outs) ->
     if completes (tw_start tw) D 0 L
     then ps (t_psm t') = Paused /\ t_mirror t' = 2%Z /\ p_raw (fade (t_psm t')) = silenceQ
     else ps (t_psm t') = Pausing /\ t_mirror t' = 1%Z /\
          (L <> [] -> p_raw (fade (t_psm t')) =
                      the_law powf (p_raw (fade (t_psm t))) silenceQ (tw_easing tw) D (elapsed (tw_start tw) 0 L))).
  Proof.
    intros [N1 N2] Hnd Hdur t1 D L.
    destruct (pause_lifecycle powf (t_psm t) tw L N1 Hnd Hdur) as [P1 [m' [R C]]].
    assert (E1 : t_psm t1 = ppause (t_psm t) tw) by reflexivity.
    assert (M1 : t_mirror t1 = state_code (ps (ppause (t_psm t) tw))) by reflexivity.
    split; [rewrite E1; exact P1|]. split; [rewrite M1, P1; reflexivity|].
    intro HR.
    pose proof (chunks_psm powf Q lerpQ identityQ A azero aadd G amp gmul ascale Snd snd_process E eff_process l t1 t' outs HR) as HT.
    fold L in HT. rewrite nowait_run in HT by (rewrite E1, P1; unfold nowait; auto).
    rewrite E1, R in HT. inversion HT. subst m'.
    assert (SO : state_ok Q Snd E t').
    { apply (chunks_mirror powf Q lerpQ identityQ A azero aadd G amp gmul ascale Snd snd_process E eff_process l t1 t' outs); [|exact HR].
      split; [rewrite E1, P1; split; discriminate|rewrite M1, E1; reflexivity]. }
    destruct SO as [_ SM].
    fold D in C. destruct (completes (tw_start tw) D 0 L).
    - destruct C as [C1 C2]. split; [exact C1|]. split; [rewrite SM, C1; reflexivity|exact C2].
    - destruct C as [C1 C2]. split; [exact C1|]. split; [rewrite SM, C1; reflexivity|exact C2].
  Qed.

  (** resume (immediately): Resuming at once (mirror 4), Playing (mirror 0) at exactly the chunk at
      which the fade-in tween is complete, at exactly 0 dB *)
  Lemma track_resume_lifecycle (t t' : trackQ) tw (l : list (nat * Q * info Q)) outs :
    five (ps (t_psm t)) -> not_delayed (tw_start tw) -> (tw_dur tw <> 0)%Z ->
    let t1 := tread (with_resume t Immediate tw) in
    let D := ns_to_secs_Q (tw_dur tw) in
    let L := times l in
    ps (t_psm t1) = Resuming /\ t_mirror t1 = 4%Z /\
    (tchunks t1 l = Ok (t', outs) ->
     if completes (tw_start tw) D 0 L
     then ps (t_psm t') = Playing /\ t_mirror t' = 0%Z /\ p_raw (fade (t_psm t')) = identityQ
     else ps (t_psm t') = Resuming /\ t_mirror t' = 4%Z /\
          (L <> [] -> p_raw (fade (t_psm t')) =
                      the_law powf (p_raw (fade (t_psm t))) identityQ (tw_easing tw) D (elapsed (tw_start tw) 0 L))).
  Proof.
    intros [N1 N2] Hnd Hdur t1 D L.
    destruct (resume_lifecycle powf (t_psm t) tw L N1 Hnd Hdur) as [P1 [m' [R C]]].
    assert (E1 : t_psm t1 = presume (t_psm t) Immediate tw) by reflexivity.
    assert (M1 : t_mirror t1 = state_code (ps (presume (t_psm t) Immediate tw))) by reflexivity.
    split; [rewrite E1; exact P1|]. split; [rewrite M1, P1; reflexivity|].
    intro HR.
    pose proof (chunks_psm powf Q lerpQ identityQ A azero aadd G amp gmul ascale Snd snd_process E eff_process l t1 t' outs HR) as HT.
    fold L in HT. rewrite nowait_run in HT by (rewrite E1, P1; unfold nowait; auto).
    rewrite E1, R in HT. inversion HT. subst m'.
    assert (SO : state_ok Q Snd E t').
    { apply (chunks_mirror powf Q lerpQ identityQ A azero aadd G amp gmul ascale Snd snd_process E eff_process l t1 t' outs); [|exact HR].
      split; [rewrite E1, P1; split; discriminate|rewrite M1, E1; reflexivity]. }
    destruct SO as [_ SM].
    fold D in C. destruct (completes (tw_start tw) D 0 L).
    - destruct C as [C1 C2]. split; [exact C1|]. split; [rewrite SM, C1; reflexivity|exact C2].
    - destruct C as [C1 C2]. split; [exact C1|]. split; [rewrite SM, C1; reflexivity|exact C2].
  Qed.

  (** resume_at: WaitingToResume at once (mirror 3); nothing else changes until the start time resolves *)
  Lemma track_resume_at (t : trackQ) st tw :
    five (ps (t_psm t)) -> st <> Immediate ->
    let t1 := tread (with_resume t st tw) in
    ps (t_psm t1) = WaitingToResume st tw /\ t_mirror t1 = 3%Z /\ fade (t_psm t1) = fade (t_psm t).
  Proof.
    intros [N1 N2] Hst t1.
    assert (E1 : t_psm t1 = presume (t_psm t) st tw) by reflexivity.
    assert (M1 : t_mirror t1 = state_code (ps (presume (t_psm t) st tw))) by reflexivity.
    rewrite M1, E1. unfold presume, psm_resume.
    destruct (ps (t_psm t)) eqn:EP; try contradiction; cbn [is_stopped];
      destruct st; try contradiction; cbn; repeat split.
  Qed.
End FadeQ.
