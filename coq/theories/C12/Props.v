(** C12 — property theorems: statements (as printed by Coq) closed by [exact]. *)
From Coq Require Import ZArith QArith List Bool.
From KV Require Import Base.Outcome Base.Num C19.Model C06.Model C06.Dur C06.Proofs C03.Model C03.ProofsLife
  C12.Model C12.ProofsFrozen C12.ProofsRemoval C12.ProofsState C12.ProofsFade C12.ProofsExamples C12.ProofsResumeTween.
Import ListNotations.

Theorem paused_subtree_frozen :
  forall (T : Type) (NT : Num T) (ND : NumDur T) (powf : T -> T -> T) (V : Type)
         (interp : V -> V -> T -> V) (identity : V) (A : Type) (azero : A) (aadd : A -> A -> A) 
         (G : Type) (amp : V -> G) (gmul : G -> G -> G) (ascale : A -> G -> A) (Snd : Type)
         (snd_process : Snd -> nat -> T -> info T -> outcome (Snd * list A)) (E : Type)
         (eff_process : E -> list A -> T -> info T -> E * list A) (t t' : track T V Snd E) 
         (len : nat) (dt : T) (i : info T) (out : list A),
       process powf V interp identity A azero aadd G amp gmul ascale Snd snd_process E eff_process t len dt i =
       Ok (t', out) ->
       is_advancing (ps (t_psm t')) = false ->
       out = repeat azero len /\
       beneath V Snd E t' = beneath V Snd E t /\
       t_id t' = t_id t /\
       t_marked t' = t_marked t /\
       t_persist t' = t_persist t /\
       t_cmds t' = t_cmds t /\
       (exists (vol : param T V) (fin : bool) (m0 : psm T V) (changed : bool),
          param_update powf V interp (t_vol t) (chunk_time len dt) i = Ok (vol, fin) /\
          psm_update powf V interp identity (t_psm t) (chunk_time len dt) i = Ok (m0, changed) /\
          t_vol t' = vol /\
          t_psm t' = repair m0 changed /\
          t_mirror t' = (if changed then state_code (ps (repair m0 changed)) else t_mirror t)).
Proof. exact @paused_subtree_frozen_lemma. Qed.

Theorem frozen_chunks :
  forall (T : Type) (NT : Num T) (ND : NumDur T) (powf : T -> T -> T) (V : Type)
         (interp : V -> V -> T -> V) (identity : V) (A : Type) (azero : A) (aadd : A -> A -> A) 
         (G : Type) (amp : V -> G) (gmul : G -> G -> G) (ascale : A -> G -> A) (Snd : Type)
         (snd_process : Snd -> nat -> T -> info T -> outcome (Snd * list A)) (E : Type)
         (eff_process : E -> list A -> T -> info T -> E * list A) (l : list (nat * T * info T))
         (t t' : track T V Snd E) (outs : list (list A)),
       process_chunks powf V interp identity A azero aadd G amp gmul ascale Snd snd_process E eff_process t l =
       Ok (t', outs) ->
       frozen_through powf V interp identity A azero aadd G amp gmul ascale Snd snd_process E eff_process t l ->
       outs = map (fun '(len, _, _) => repeat azero len) l /\
       beneath V Snd E t' = beneath V Snd E t /\
       t_id t' = t_id t /\ t_marked t' = t_marked t /\ t_persist t' = t_persist t /\ t_cmds t' = t_cmds t.
Proof. exact @frozen_chunks_lemma. Qed.

Theorem resume_continues :
  forall (T : Type) (NT : Num T) (ND : NumDur T) (powf : T -> T -> T) (V : Type)
         (interp : V -> V -> T -> V) (identity : V) (A : Type) (azero : A) (aadd : A -> A -> A) 
         (G : Type) (amp : V -> G) (gmul : G -> G -> G) (ascale : A -> G -> A) (Snd : Type)
         (snd_process : Snd -> nat -> T -> info T -> outcome (Snd * list A)) (E : Type)
         (eff_process : E -> list A -> T -> info T -> E * list A) (l : list (nat * T * info T))
         (t t1 t2 : track T V Snd E) (outs : list (list A)) (len : nat) (dt : T) 
         (i : info T) (out : list A),
       process_chunks powf V interp identity A azero aadd G amp gmul ascale Snd snd_process E eff_process t l =
       Ok (t1, outs) ->
       frozen_through powf V interp identity A azero aadd G amp gmul ascale Snd snd_process E eff_process t l ->
       process powf V interp identity A azero aadd G amp gmul ascale Snd snd_process E eff_process t1 len dt
         i = Ok (t2, out) ->
       is_advancing (ps (t_psm t2)) = true ->
       exists (subs : list (track T V Snd E)) (snds : list Snd) (fx : list E) (raw : list A),
         body powf V interp identity A azero aadd G amp gmul ascale Snd snd_process E eff_process 
           (t_subs t) (t_sounds t) (t_effects t) len dt i = Ok (subs, snds, fx, raw) /\
         t_subs t2 = subs /\
         t_sounds t2 = snds /\
         t_effects t2 = fx /\
         out = apply_gain V interp A G amp gmul ascale (t_vol t2) (fade (t_psm t2)) len 0 raw.
Proof. exact @resume_continues_lemma. Qed.

Theorem advancing_chunk_renders_subtree :
  forall (T : Type) (NT : Num T) (ND : NumDur T) (powf : T -> T -> T) (V : Type)
         (interp : V -> V -> T -> V) (identity : V) (A : Type) (azero : A) (aadd : A -> A -> A) 
         (G : Type) (amp : V -> G) (gmul : G -> G -> G) (ascale : A -> G -> A) (Snd : Type)
         (snd_process : Snd -> nat -> T -> info T -> outcome (Snd * list A)) (E : Type)
         (eff_process : E -> list A -> T -> info T -> E * list A) (t t' : track T V Snd E) 
         (len : nat) (dt : T) (i : info T) (out : list A),
       process powf V interp identity A azero aadd G amp gmul ascale Snd snd_process E eff_process t len dt i =
       Ok (t', out) ->
       is_advancing (ps (t_psm t')) = true ->
       exists (subs : list (track T V Snd E)) (snds : list Snd) (fx : list E) (raw : list A),
         body powf V interp identity A azero aadd G amp gmul ascale Snd snd_process E eff_process 
           (t_subs t) (t_sounds t) (t_effects t) len dt i = Ok (subs, snds, fx, raw) /\
         t_subs t' = subs /\
         t_sounds t' = snds /\
         t_effects t' = fx /\
         out = apply_gain V interp A G amp gmul ascale (t_vol t') (fade (t_psm t')) len 0 raw.
Proof. exact @advancing_chunk. Qed.

Theorem callback_start_hands_sounds_over_only :
  forall (T : Type) (NT : Num T) (V : Type) (silence identity : V) (Snd : Type)
         (snd_on_start : Snd -> Snd) (snd_finished : Snd -> bool) (E : Type) (eff_on_start : E -> E)
         (t : track T V Snd E),
       t_sounds (on_start V silence identity Snd snd_on_start snd_finished E eff_on_start t) =
       map snd_on_start (rev (t_qsounds t) ++ filter (fun s : Snd => negb (snd_finished s)) (t_sounds t)).
Proof. exact @on_start_sounds. Qed.

Theorem callback_start_subtracks :
  forall (T : Type) (NT : Num T) (V : Type) (silence identity : V) (Snd : Type)
         (snd_on_start : Snd -> Snd) (snd_finished : Snd -> bool) (E : Type) (eff_on_start : E -> E)
         (t : track T V Snd E),
       t_subs (on_start V silence identity Snd snd_on_start snd_finished E eff_on_start t) =
       rev (map (on_start V silence identity Snd snd_on_start snd_finished E eff_on_start) (t_qsubs t)) ++
       drain_then should_be_removed
         (on_start V silence identity Snd snd_on_start snd_finished E eff_on_start) 
         (t_subs t).
Proof. exact @on_start_subs. Qed.

Theorem paused_frozen_forever :
  forall (T : Type) (NT : Num T) (ND : NumDur T) (powf : T -> T -> T) (V : Type)
         (interp : V -> V -> T -> V) (identity : V) (A : Type) (azero : A) (aadd : A -> A -> A) 
         (G : Type) (amp : V -> G) (gmul : G -> G -> G) (ascale : A -> G -> A) (Snd : Type)
         (snd_process : Snd -> nat -> T -> info T -> outcome (Snd * list A)) (E : Type)
         (eff_process : E -> list A -> T -> info T -> E * list A) (l : list (nat * T * info T))
         (t t' : track T V Snd E) (outs : list (list A)),
       ps (t_psm t) = Paused ->
       process_chunks powf V interp identity A azero aadd G amp gmul ascale Snd snd_process E eff_process t l =
       Ok (t', outs) ->
       ps (t_psm t') = Paused /\
       t_mirror t' = t_mirror t /\
       outs = map (fun '(len, _, _) => repeat azero len) l /\ beneath V Snd E t' = beneath V Snd E t.
Proof. exact @paused_frozen_forever_lemma. Qed.

Theorem resume_at_waits_resumes_or_falls_back :
  forall (T : Type) (NT : Num T) (ND : NumDur T) (powf : T -> T -> T) (V : Type)
         (interp : V -> V -> T -> V) (identity : V) (A : Type) (azero : A) (aadd : A -> A -> A) 
         (G : Type) (amp : V -> G) (gmul : G -> G -> G) (ascale : A -> G -> A) (Snd : Type)
         (snd_process : Snd -> nat -> T -> info T -> outcome (Snd * list A)) (E : Type)
         (eff_process : E -> list A -> T -> info T -> E * list A) (t t' : track T V Snd E) 
         (st : stime T) (tw : tween T) (len : nat) (dt : T) (i : info T) (out : list A) 
         (st' : stime T) (never : bool),
       ps (t_psm t) = WaitingToResume st tw ->
       process powf V interp identity A azero aadd G amp gmul ascale Snd snd_process E eff_process t len dt i =
       Ok (t', out) ->
       stime_update st (chunk_time len dt) i = Ok (st', never) ->
       if never
       then
        ps (t_psm t') = Paused /\
        t_mirror t' = 2%Z /\ out = repeat azero len /\ beneath V Snd E t' = beneath V Snd E t
       else
        if is_immediate st'
        then
         ps (t_psm t') = Resuming /\
         t_mirror t' = 4%Z /\
         (exists (f : param T V) (fin : bool),
            param_update powf V interp (fade (t_psm t)) (chunk_time len dt) i = Ok (f, fin) /\
            fade (t_psm t') = param_set f (Fixed identity) tw)
        else
         ps (t_psm t') = WaitingToResume st' tw /\
         t_mirror t' = t_mirror t /\ out = repeat azero len /\ beneath V Snd E t' = beneath V Snd E t.
Proof. exact @waiting_chunk_lemma. Qed.

Theorem removed_clock_never_starts :
  forall (T : Type) (NT : Num T) (ND : NumDur T) (c : nat) (tk : Z) (fr dt : T) (i : info T),
       nth_error (i_clocks i) c = None \/ nth_error (i_clocks i) c = Some None ->
       stime_update (ClockT c tk fr) dt i = Ok (ClockT c tk fr, true).
Proof. exact @clock_removed_never. Qed.

Theorem fade_then_freeze_pause :
  forall (powf : Q -> Q -> Q) (A : Type) (azero : A) (aadd : A -> A -> A) (G : Type) 
         (amp : Q -> G) (gmul : G -> G -> G) (ascale : A -> G -> A) (Snd : Type)
         (snd_process : Snd -> nat -> Q -> info Q -> outcome (Snd * list A)) (E : Type)
         (eff_process : E -> list A -> Q -> info Q -> E * list A) (t t' : track Q Q Snd E) 
         (tw : tween Q) (l : list (nat * Q * info Q)) (outs : list (list A)),
       five (ps (t_psm t)) ->
       not_delayed (tw_start tw) ->
       tw_dur tw <> 0%Z ->
       let t1 := read_commands Q silenceQ identityQ Snd E (with_pause Snd E t tw) in
       let D := ns_to_secs_Q (tw_dur tw) in
       let L := times l in
       ps (t_psm t1) = Pausing /\
       t_mirror t1 = 1%Z /\
       (process_chunks powf Q xlerp identityQ A azero aadd G amp gmul ascale Snd snd_process E eff_process t1
          l = Ok (t', outs) ->
        if completes (tw_start tw) D 0 L
        then ps (t_psm t') = Paused /\ t_mirror t' = 2%Z /\ p_raw (fade (t_psm t')) = silenceQ
        else
         ps (t_psm t') = Pausing /\
         t_mirror t' = 1%Z /\
         (L <> [] ->
          p_raw (fade (t_psm t')) =
          the_law powf (p_raw (fade (t_psm t))) silenceQ (tw_easing tw) D (elapsed (tw_start tw) 0 L))).
Proof. exact @track_pause_lifecycle. Qed.

Theorem fade_then_freeze_resume :
  forall (powf : Q -> Q -> Q) (A : Type) (azero : A) (aadd : A -> A -> A) (G : Type) 
         (amp : Q -> G) (gmul : G -> G -> G) (ascale : A -> G -> A) (Snd : Type)
         (snd_process : Snd -> nat -> Q -> info Q -> outcome (Snd * list A)) (E : Type)
         (eff_process : E -> list A -> Q -> info Q -> E * list A) (t t' : track Q Q Snd E) 
         (tw : tween Q) (l : list (nat * Q * info Q)) (outs : list (list A)),
       five (ps (t_psm t)) ->
       not_delayed (tw_start tw) ->
       tw_dur tw <> 0%Z ->
       let t1 := read_commands Q silenceQ identityQ Snd E (with_resume Snd E t Immediate tw) in
       let D := ns_to_secs_Q (tw_dur tw) in
       let L := times l in
       ps (t_psm t1) = Resuming /\
       t_mirror t1 = 4%Z /\
       (process_chunks powf Q xlerp identityQ A azero aadd G amp gmul ascale Snd snd_process E eff_process t1
          l = Ok (t', outs) ->
        if completes (tw_start tw) D 0 L
        then ps (t_psm t') = Playing /\ t_mirror t' = 0%Z /\ p_raw (fade (t_psm t')) = identityQ
        else
         ps (t_psm t') = Resuming /\
         t_mirror t' = 4%Z /\
         (L <> [] ->
          p_raw (fade (t_psm t')) =
          the_law powf (p_raw (fade (t_psm t))) identityQ (tw_easing tw) D (elapsed (tw_start tw) 0 L))).
Proof. exact @track_resume_lifecycle. Qed.

Theorem resume_at_waits :
  forall (Snd E : Type) (t : track Q Q Snd E) (st : stime Q) (tw : tween Q),
       five (ps (t_psm t)) ->
       st <> Immediate ->
       let t1 := read_commands Q silenceQ identityQ Snd E (with_resume Snd E t st tw) in
       ps (t_psm t1) = WaitingToResume st tw /\ t_mirror t1 = 3%Z /\ fade (t_psm t1) = fade (t_psm t).
Proof. exact @track_resume_at. Qed.

Theorem removal_rule :
  forall (T V Snd E : Type) (t : track T V Snd E),
       should_be_removed t = true <->
       t_marked t = true /\
       t_qsubs t = [] /\
       Forall (fun c : track T V Snd E => should_be_removed c = true) (t_subs t) /\
       (t_persist t = false \/ t_sounds t = [] /\ t_qsounds t = []).
Proof. exact @removal_rule_lemma. Qed.

Theorem removed_only_if_every_descendant_marked :
  forall (T V Snd E : Type) (t : track T V Snd E),
       should_be_removed t = true -> Forall (fun d : track T V Snd E => t_marked d = true) (tracks_of t).
Proof. exact @removed_all_marked. Qed.

Theorem never_removed_while_descendant_alive :
  forall (T V Snd E : Type) (t d : track T V Snd E),
       In d (tracks_of t) -> t_marked d = false -> should_be_removed t = false.
Proof. exact @never_removed_while_descendant_alive_lemma. Qed.

Theorem own_handle_keeps_track :
  forall (T V Snd E : Type) (t : track T V Snd E), t_marked t = false -> should_be_removed t = false.
Proof. exact @handle_alive_keeps. Qed.

Theorem persisting_track_stays_while_sounds :
  forall (T V Snd E : Type) (t : track T V Snd E),
       t_persist t = true -> t_sounds t <> [] \/ t_qsounds t <> [] -> should_be_removed t = false.
Proof. exact @persist_keeps. Qed.

Theorem track_without_live_descendants_goes :
  forall (T V Snd E : Type) (t : track T V Snd E),
       t_marked t = true ->
       t_subs t = [] ->
       t_qsubs t = [] ->
       t_persist t = false \/ t_sounds t = [] /\ t_qsounds t = [] -> should_be_removed t = true.
Proof. exact @leaf_removed. Qed.

Theorem removal_happens_at_callback_start :
  forall (T : Type) (NT : Num T) (V : Type) (silence identity : V) (Snd : Type)
         (snd_on_start : Snd -> Snd) (snd_finished : Snd -> bool) (E : Type) (eff_on_start : E -> E)
         (arena queue : list (track T V Snd E)) (c' : track T V Snd E),
       In c' (subs_on_start V silence identity Snd snd_on_start snd_finished E eff_on_start arena queue) <->
       (exists c : track T V Snd E,
          In c queue /\ c' = on_start V silence identity Snd snd_on_start snd_finished E eff_on_start c) \/
       (exists c : track T V Snd E,
          In c arena /\
          should_be_removed c = false /\
          c' = on_start V silence identity Snd snd_on_start snd_finished E eff_on_start c).
Proof. exact @subs_on_start_in. Qed.

Theorem removed_track_silent_mixer :
  forall (T : Type) (NT : Num T) (V : Type) (silence identity : V) (Snd : Type)
         (snd_on_start : Snd -> Snd) (snd_finished : Snd -> bool) (E : Type) (eff_on_start : E -> E)
         (l1 l2 q : list (track T V Snd E)) (c : track T V Snd E),
       should_be_removed c = true ->
       mixer_on_start V silence identity Snd snd_on_start snd_finished E eff_on_start
         {| mx_subs := l1 ++ c :: l2; mx_qsubs := q |} =
       mixer_on_start V silence identity Snd snd_on_start snd_finished E eff_on_start
         {| mx_subs := l1 ++ l2; mx_qsubs := q |}.
Proof. exact @removed_track_silent_mixer. Qed.

Theorem removed_track_silent_sub :
  forall (T : Type) (NT : Num T) (V : Type) (silence identity : V) (Snd : Type)
         (snd_on_start : Snd -> Snd) (snd_finished : Snd -> bool) (E : Type) (eff_on_start : E -> E)
         (t : track T V Snd E) (l1 l2 : list (track T V Snd E)) (c : track T V Snd E),
       should_be_removed c = true ->
       on_start V silence identity Snd snd_on_start snd_finished E eff_on_start
         (with_kids t (l1 ++ c :: l2) (t_qsubs t)) =
       on_start V silence identity Snd snd_on_start snd_finished E eff_on_start
         (with_kids t (l1 ++ l2) (t_qsubs t)).
Proof. exact @removed_track_silent_sub. Qed.

Theorem callback_start_keeps_live_handles :
  forall (T : Type) (NT : Num T) (V : Type) (silence identity : V) (Snd : Type)
         (snd_on_start : Snd -> Snd) (snd_finished : Snd -> bool) (E : Type) (eff_on_start : E -> E)
         (t d : track T V Snd E),
       In d (tracks_of t) ->
       t_marked d = false ->
       exists d' : track T V Snd E,
         In d' (tracks_of (on_start V silence identity Snd snd_on_start snd_finished E eff_on_start t)) /\
         t_id d' = t_id d /\ t_marked d' = false.
Proof. exact @on_start_keeps_alive. Qed.

Theorem mixer_keeps_live_handles :
  forall (T : Type) (NT : Num T) (V : Type) (silence identity : V) (Snd : Type)
         (snd_on_start : Snd -> Snd) (snd_finished : Snd -> bool) (E : Type) (eff_on_start : E -> E)
         (m : mixer T V Snd E) (d : track T V Snd E),
       In d (mixer_tracks m) ->
       t_marked d = false ->
       exists d' : track T V Snd E,
         In d'
           (mixer_tracks (mixer_on_start V silence identity Snd snd_on_start snd_finished E eff_on_start m)) /\
         t_id d' = t_id d /\ t_marked d' = false.
Proof. exact @mixer_on_start_keeps_alive. Qed.

Theorem update_with_repair_stays_in_five_states :
  forall (T : Type) (NT : Num T) (ND : NumDur T) (powf : T -> T -> T) (V : Type)
         (interp : V -> V -> T -> V) (identity : V) (m m0 : psm T V) (dt : T) (i : info T) 
         (changed : bool) (mir : Z),
       five (ps m) ->
       mir = state_code (ps m) ->
       psm_update powf V interp identity m dt i = Ok (m0, changed) ->
       five (ps (repair m0 changed)) /\
       (if changed then state_code (ps (repair m0 changed)) else mir) = state_code (ps (repair m0 changed)).
Proof. exact @update_repair_ok. Qed.

Theorem state_invariant_all_histories :
  forall (T : Type) (NT : Num T) (ND : NumDur T) (powf : T -> T -> T) (V : Type)
         (interp : V -> V -> T -> V) (silence identity : V) (A : Type) (azero : A) 
         (aadd : A -> A -> A) (G : Type) (amp : V -> G) (gmul : G -> G -> G) (ascale : A -> G -> A)
         (Snd : Type) (snd_on_start : Snd -> Snd)
         (snd_process : Snd -> nat -> T -> info T -> outcome (Snd * list A)) (snd_finished : Snd -> bool)
         (E : Type) (eff_on_start : E -> E) (eff_process : E -> list A -> T -> info T -> E * list A)
         (es : list (event T V Snd E)) (m m' : mixer T V Snd E) (outs : list A),
       mixer_ok V Snd E m ->
       Forall (event_ok V Snd E) es ->
       run_events powf V interp silence identity A azero aadd G amp gmul ascale Snd snd_on_start snd_process
         snd_finished E eff_on_start eff_process m es = Ok (m', outs) -> mixer_ok V Snd E m'.
Proof. exact @run_ok. Qed.

Theorem track_state_total :
  forall (T : Type) (NT : Num T) (ND : NumDur T) (powf : T -> T -> T) (V : Type)
         (interp : V -> V -> T -> V) (silence identity : V) (A : Type) (azero : A) 
         (aadd : A -> A -> A) (G : Type) (amp : V -> G) (gmul : G -> G -> G) (ascale : A -> G -> A)
         (Snd : Type) (snd_on_start : Snd -> Snd)
         (snd_process : Snd -> nat -> T -> info T -> outcome (Snd * list A)) (snd_finished : Snd -> bool)
         (E : Type) (eff_on_start : E -> E) (eff_process : E -> list A -> T -> info T -> E * list A)
         (es : list (event T V Snd E)) (m : mixer T V Snd E) (outs : list A),
       Forall (event_ok V Snd E) es ->
       run_events powf V interp silence identity A azero aadd G amp gmul ascale Snd snd_on_start snd_process
         snd_finished E eff_on_start eff_process mixer_new es = Ok (m, outs) ->
       forall t : track T V Snd E,
       In t (mixer_tracks m) ->
       five (ps (t_psm t)) /\
       shared_state (t_mirror t) = Ok (state_code (ps (t_psm t))) /\ (0 <= state_code (ps (t_psm t)) <= 4)%Z.
Proof. exact @track_state_total_lemma. Qed.

Theorem ex_tree_shape :
  map t_id (mixer_tracks the_mixer) = [0%nat; 1%nat; 2%nat] /\
       length (t_sounds the_root) = 1%nat /\ mixer_num_sub_tracks the_mixer = 1%Z.
Proof. exact @tree_shape. Qed.

Theorem ex_frozen_hypotheses_met :
  match xchunks paused_root frozen_list with
       | Ok (t', outs) =>
           frozen_through xpowf Q xlerp identityQ Q 0 qadd Q xamp qmul qmul xsound xsnd_process nat
             xeff_process paused_root frozen_list /\
           ps (t_psm t') = Paused /\
           shared_state (t_mirror t') = Ok 2%Z /\
           forallb all_zero outs = true /\ beneath Q xsound nat t' = beneath Q xsound nat paused_root
       | _ => False
       end.
Proof. exact @frozen_hypotheses_met. Qed.

Theorem ex_frozen_sounds_do_not_move :
  match xchunks paused_root frozen_list with
       | Ok (t', _) =>
           match xchunks (xon_start the_root) frozen_list with
           | Ok (u', _) =>
               map sound_core (sounds_beneath t') = map sound_core (sounds_beneath paused_root) /\
               length (sounds_beneath paused_root) = 2%nat /\
               map sound_core (sounds_beneath u') <> map sound_core (sounds_beneath (xon_start the_root))
           | _ => False
           end
       | _ => False
       end.
Proof. exact @frozen_sounds_do_not_move. Qed.

Theorem ex_pause_fade_hypotheses_met :
  five (ps (t_psm the_root)) /\
       not_delayed (tw_start tw8) /\
       tw_dur tw8 <> 0%Z /\
       completes (tw_start tw8) (ns_to_secs_Q (tw_dur tw8)) 0
         (times [(4%nat, dtq, no_info); (3%nat, dtq, no_info)]) = false /\
       completes (tw_start tw8) (ns_to_secs_Q (tw_dur tw8)) 0
         (times [(4%nat, dtq, no_info); (3%nat, dtq, no_info); (1%nat, dtq, no_info)]) = true.
Proof. exact @pause_fade_hypotheses_met. Qed.

Theorem ex_pause_fade_runs :
  let t1 := read_commands Q silenceQ identityQ xsound nat (with_pause xsound nat the_root tw8) in
       match xchunks t1 [(4%nat, dtq, no_info); (3%nat, dtq, no_info)] with
       | Ok (ta, outa) =>
           match xchunks t1 [(4%nat, dtq, no_info); (3%nat, dtq, no_info); (1%nat, dtq, no_info)] with
           | Ok (tb, _) =>
               ps (t_psm ta) = Pausing /\
               t_mirror ta = 1%Z /\
               forallb all_zero outa = false /\
               ps (t_psm tb) = Paused /\
               t_mirror tb = 2%Z /\ Qeq_bool (p_raw (fade (t_psm tb))) silenceQ = true
           | _ => False
           end
       | _ => False
       end.
Proof. exact @pause_fade_runs. Qed.

Theorem f1_regression :
  match xrun mixer_new f1_history with
       | Ok (m, _) =>
           match find_track 0 m with
           | Some t => ps (t_psm t) = Paused /\ shared_state (t_mirror t) = Ok 2%Z
           | None => False
           end
       | _ => False
       end.
Proof. exact @f1_regression. Qed.

Theorem f1_regression_was_waiting :
  match xrun mixer_new (firstn 10 f1_history) with
       | Ok (m, _) =>
           match find_track 0 m with
           | Some t =>
               shared_state (t_mirror t) = Ok 3%Z /\
               match psm_update xpowf Q xlerp identityQ (t_psm t) (4 # 1024) clock_gone with
               | Ok (m0, changed) =>
                   ps m0 = Stopped /\
                   changed = true /\ shared_state (state_code (ps m0)) = Panic InvalidState
               | _ => False
               end
           | None => False
           end
       | _ => False
       end.
Proof. exact @f1_was_waiting. Qed.

Theorem f1_regression_not_dead :
  match
         xrun mixer_new (f1_history ++ [EOp (HResume 0 Immediate tw0); EStart; EChunk 4 dtq clock_gone])
       with
       | Ok (m, out) =>
           match find_track 0 m with
           | Some t =>
               ps (t_psm t) = Playing /\
               shared_state (t_mirror t) = Ok 0%Z /\ all_zero (skipn 16 out) = false
           | None => False
           end
       | _ => False
       end.
Proof. exact @f1_not_dead. Qed.

Theorem f28a_regression :
  match xrun mixer_new f28a with
       | Ok (m, out) => mixer_num_sub_tracks m = 1%Z /\ all_zero (skipn 4 out) = false
       | _ => False
       end /\
       match xrun mixer_new (f28a ++ cb ++ cb ++ cb) with
       | Ok (m, _) => mixer_num_sub_tracks m = 0%Z
       | _ => False
       end.
Proof. exact @f28a_regression. Qed.

Theorem f28b_regression :
  match xrun mixer_new f28b with
       | Ok (m, out) => map t_id (mixer_tracks m) = [0%nat; 1%nat] /\ all_zero (skipn 4 out) = false
       | _ => False
       end /\
       match xrun mixer_new (f28b ++ [EOp (HDrop 1)] ++ cb) with
       | Ok (m, _) => mixer_tracks m = []
       | _ => False
       end.
Proof. exact @f28b_regression. Qed.

Theorem ex_removal_waits_for_descendants :
  count_after ([EOp (HDrop 0)] ++ cb ++ cb) = 3%Z /\
       count_after ([EOp (HDrop 0); EOp (HDrop 1)] ++ cb ++ cb) = 3%Z.
Proof. exact @removal_waits_for_descendants. Qed.

Theorem ex_removal_waits_for_persisting_sounds :
  count_after ([EOp (HDrop 2); EOp (HDrop 0); EOp (HDrop 1)] ++ cb ++ cb) = 3%Z /\
       count_after ([EOp (HDrop 2); EOp (HDrop 0); EOp (HDrop 1)] ++ cb ++ cb ++ cb ++ cb ++ cb ++ cb ++ cb) =
       0%Z.
Proof. exact @removal_waits_for_persisting_sounds. Qed.

Theorem ex_removal_rule_hypotheses_met :
  should_be_removed (h_drop the_root) = false /\
       should_be_removed (upd 2 h_drop (upd 1 h_drop (h_drop the_root))) = false /\
       (exists d : xtrack, In d (tracks_of the_root) /\ t_marked d = false).
Proof. exact @removal_rule_hypotheses_met. Qed.

Theorem ex_queued_track_dropped :
  match
         xrun mixer_new
           [EOp (HAddTop (xnew 0 false)); EOp (HPlay 0 snd_a); EOp (HDrop 0); EStart; EChunk 4 dtq no_info]
       with
       | Ok (m, out) => mixer_num_sub_tracks m = 1%Z /\ all_zero out = false
       | _ => False
       end /\
       match
         xrun mixer_new
           [EOp (HAddTop (xnew 0 false)); EOp (HPlay 0 snd_a); EOp (HDrop 0); EStart; 
            EChunk 4 dtq no_info; EStart; EChunk 4 dtq no_info]
       with
       | Ok (m, out) => mixer_num_sub_tracks m = 0%Z /\ all_zero (skipn 4 out) = true
       | _ => False
       end.
Proof. exact @queued_track_dropped. Qed.

Theorem ex_histories_in_order :
  Forall (event_ok Q xsound nat) (build_events ++ f1_history ++ f28a ++ f28b).
Proof. exact @histories_in_order. Qed.

Theorem resume_is_immediate_whatever_the_tween_start :
  forall (T : Type) (NT : Num T) (V : Type) (silence identity : V) (Snd E : Type)
         (t : track T V Snd E) (vol : option (value T V * tween T)) (pa : option (tween T)) (tw : tween T),
       ps (t_psm t) <> Stopped ->
       let t1 :=
         read_commands V silence identity Snd E
           (set_cmds t {| tc_vol := vol; tc_pause := pa; tc_resume := Some (Immediate, tw) |}) in
       ps (t_psm t1) = Resuming /\
       t_mirror t1 = 4%Z /\
       is_advancing (ps (t_psm t1)) = true /\
       fade (t_psm t1) = param_set (fade (after_pause V silence Snd E t pa)) (Fixed identity) tw.
Proof. exact @resume_immediate_lemma. Qed.

Theorem ex_resume_is_immediate_hypothesis_met :
  forall (T : Type) (NT : Num T) (V : Type) (silence identity : V) (Snd E : Type) (id : nat) (persist : bool)
         (vol : value T V) (fx : list E),
       ps (t_psm (track_new V silence identity Snd E id persist vol fx)) <> Stopped.
Proof. exact @resume_immediate_hypothesis_met. Qed.

Theorem ex_resume_with_delayed_tween_runs :
  t_mirror frozen_root = 2%Z /\
       t_mirror resumed_root = 4%Z /\
       is_advancing (ps (t_psm resumed_root)) = true /\
       after_frames 7 = Some (4%Z, silenceQ, true) /\
       match after_frames 8 with
       | Some (4%Z, v, false) => Qle_bool v silenceQ = false
       | _ => False
       end /\
       match after_frames 10 with
       | Some (4%Z, v, false) => Qle_bool identityQ v = false
       | _ => False
       end /\ after_frames 11 = Some (0%Z, identityQ, false).
Proof. exact @resume_with_delayed_tween_runs. Qed.
