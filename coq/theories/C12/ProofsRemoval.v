(** C12 — the removal rule: when a track leaves its parent's arena, and that it is then gone for good.
    Generic in everything (structure only). *)
From Coq Require Import ZArith List Bool Lia.
From KV Require Import Base.Outcome Base.Num C19.Model C06.Model C03.Model C12.Model.
Import ListNotations.

Section Removal.
  Context {T : Type} {NT : Num T}.
  Variable V : Type.
  Variables silence identity : V.
  Variable Snd : Type.
  Variable snd_on_start : Snd -> Snd.
  Variable snd_finished : Snd -> bool.
  Variable E : Type.
  Variable eff_on_start : E -> E.

  Notation trackT := (track T V Snd E).
  Local Notation ton_start := (on_start V silence identity Snd snd_on_start snd_finished E eff_on_start).
  Local Notation tsubs_on_start := (subs_on_start V silence identity Snd snd_on_start snd_finished E eff_on_start).
  Local Notation tmixer_on_start := (mixer_on_start V silence identity Snd snd_on_start snd_finished E eff_on_start).

  (** induction over the nested tree *)
  Section Ind.
    Variable P : trackT -> Prop.
    Hypothesis H : forall t, Forall P (t_subs t) -> Forall P (t_qsubs t) -> P t.
    Fixpoint track_ind' (t : trackT) : P t :=
      H t ((fix go (l : list trackT) : Forall P l :=
              match l with [] => Forall_nil _ | c :: r => Forall_cons _ (track_ind' c) (go r) end) (t_subs t))
          ((fix go (l : list trackT) : Forall P l :=
              match l with [] => Forall_nil _ | c :: r => Forall_cons _ (track_ind' c) (go r) end) (t_qsubs t)).
  End Ind.

  Lemma should_be_removed_unfold (t : trackT) :
    should_be_removed t =
      (if has_pending (t_qsubs t) || existsb (fun c => negb (should_be_removed c)) (t_subs t) then false
       else if t_persist t then t_marked t && is_nil (t_sounds t) && negb (has_pending (t_qsounds t))
            else t_marked t).
  Proof. destruct t; reflexivity. Qed.

  Lemma existsb_negb_false {X} (f : X -> bool) (l : list X) :
    existsb (fun c => negb (f c)) l = false <-> Forall (fun c => f c = true) l.
  Proof.
    induction l as [|c r IH]; cbn.
    - split; [constructor|reflexivity].
    - rewrite orb_false_iff, IH, negb_false_iff. split.
      + intros [A B]. constructor; assumption.
      + intro F. inversion F. split; assumption.
  Qed.

  (** ** the rule *)
  Lemma removal_rule_lemma (t : trackT) :
    should_be_removed t = true <->
      t_marked t = true /\
      t_qsubs t = [] /\
      Forall (fun c => should_be_removed c = true) (t_subs t) /\
      (t_persist t = false \/ (t_sounds t = [] /\ t_qsounds t = [])).
  Proof.
    rewrite should_be_removed_unfold.
    destruct (t_qsubs t) as [|q qs] eqn:EQ; cbn [has_pending is_nil negb orb].
    2:{ split; [discriminate|]. intros [_ [H _]]. discriminate. }
    destruct (existsb (fun c => negb (should_be_removed c)) (t_subs t)) eqn:EX.
    - split; [discriminate|]. intros [_ [_ [F _]]]. apply existsb_negb_false in F. congruence.
    - apply existsb_negb_false in EX.
      destruct (t_persist t).
      + destruct (t_sounds t) as [|s ss], (t_qsounds t) as [|s' ss'], (t_marked t); cbn;
          split; intro H; try discriminate; try (repeat split; auto; fail);
          destruct H as [? [? [? [?|[? ?]]]]]; try discriminate; auto.
      + split.
        * intro M. repeat split; auto.
        * intros [M _]. exact M.
  Qed.

  (** every track of the subtree that is being processed or still queued *)
  Lemma tracks_of_unfold (t : trackT) :
    tracks_of t = t :: flat_map tracks_of (t_subs t) ++ flat_map tracks_of (t_qsubs t).
  Proof. destruct t; reflexivity. Qed.

  (** a removable track has no handle left anywhere beneath it: every descendant — including
      sub-tracks that were added but not picked up yet — is marked (its handle was dropped);
      so a track is never removed while a descendant's handle is alive *)
  Lemma removed_all_marked (t : trackT) :
    should_be_removed t = true -> Forall (fun d => t_marked d = true) (tracks_of t).
  Proof.
    induction t as [t IHs _] using track_ind'.
    intro H. apply removal_rule_lemma in H. destruct H as [M [Q [F _]]].
    rewrite tracks_of_unfold, Q. cbn [flat_map]. rewrite app_nil_r.
    constructor; [exact M|].
    induction (t_subs t) as [|c r IHr]; cbn [flat_map]; [constructor|].
    inversion IHs as [|? ? Hc Hr]. inversion F as [|? ? Fc Fr]. subst.
    apply Forall_app. split; [apply Hc; exact Fc|apply IHr; assumption].
  Qed.

  Lemma never_removed_while_descendant_alive_lemma (t d : trackT) :
    In d (tracks_of t) -> t_marked d = false -> should_be_removed t = false.
  Proof.
    intros HI HM. destruct (should_be_removed t) eqn:R; [|reflexivity].
    pose proof (removed_all_marked t R) as F. rewrite Forall_forall in F.
    rewrite (F d HI) in HM. discriminate.
  Qed.

  (** a track's own handle keeps it *)
  Lemma handle_alive_keeps (t : trackT) : t_marked t = false -> should_be_removed t = false.
  Proof.
    intro M. apply (never_removed_while_descendant_alive_lemma t t); [|exact M].
    rewrite tracks_of_unfold. left. reflexivity.
  Qed.

  (** a persisting track stays while it has a sound, in the arena or still queued *)
  Lemma persist_keeps (t : trackT) :
    t_persist t = true -> (t_sounds t <> [] \/ t_qsounds t <> []) -> should_be_removed t = false.
  Proof.
    intros P H. destruct (should_be_removed t) eqn:R; [|reflexivity].
    apply removal_rule_lemma in R. destruct R as [_ [_ [_ [R|[R1 R2]]]]]; [congruence|].
    destruct H as [H|H]; contradiction.
  Qed.
  (** ... and goes (once its handle is dropped and nothing lives beneath it) when they are gone;
      without persistence the sounds do not matter *)
  Lemma leaf_removed (t : trackT) :
    t_marked t = true -> t_subs t = [] -> t_qsubs t = [] ->
    (t_persist t = false \/ (t_sounds t = [] /\ t_qsounds t = [])) -> should_be_removed t = true.
  Proof.
    intros M S Q P. apply removal_rule_lemma. rewrite S. repeat split; auto.
  Qed.

  (** ** when it happens: [remove_and_add] of the parent, at the start of a callback *)
  Lemma drain_then_in {X} (test : X -> bool) (f : X -> X) (l : list X) (y : X) :
    In y (drain_then test f l) <-> exists x, In x l /\ test x = false /\ y = f x.
  Proof.
    induction l as [|c r IH]; cbn [drain_then].
    - split; [intros []|intros [x [[] _]]].
    - destruct (test c) eqn:Tc.
      + rewrite IH. split.
        * intros [x [I [A B]]]. exists x. split; [right; exact I|split; assumption].
        * intros [x [[I|I] [A B]]]; [subst; congruence|]. exists x. repeat split; assumption.
      + cbn [In]. rewrite IH. split.
        * intros [Hy|[x [I [A B]]]].
          -- exists c. split; [left; reflexivity|split; [exact Tc|symmetry; exact Hy]].
          -- exists x. split; [right; exact I|split; assumption].
        * intros [x [[I|I] [A B]]].
          -- left. subst. reflexivity.
          -- right. exists x. repeat split; assumption.
  Qed.

  (** after [on_start_processing] of the parent, the arena holds exactly: the queued sub-tracks
      (picked up WITHOUT being tested — a track whose handle was dropped before it was ever
      picked up therefore plays for one callback and goes at the next), and the old ones that are
      not removable; each has run its own [on_start_processing] *)
  Lemma subs_on_start_in (arena queue : list trackT) (c' : trackT) :
    In c' (tsubs_on_start arena queue) <->
      (exists c, In c queue /\ c' = ton_start c) \/
      (exists c, In c arena /\ should_be_removed c = false /\ c' = ton_start c).
  Proof.
    unfold subs_on_start. rewrite in_app_iff, <- in_rev, in_map_iff, drain_then_in.
    split; (intros [[c [A B]]|H]; [left; exists c; split; auto|right; exact H]).
  Qed.

  (** [on_start] keeps identity, mark and persistence *)
  Lemma on_start_id (t : trackT) :
    t_id (ton_start t) = t_id t /\ t_marked (ton_start t) = t_marked t /\ t_persist (ton_start t) = t_persist t.
  Proof.
    destruct t as [id m vol mk pe mir snds subs fx qs qsubs cm].
    cbn [on_start t_id t_marked t_persist]. unfold read_commands. cbn [t_cmds t_psm t_mirror t_id t_marked t_persist].
    destruct (tc_pause cm); destruct (tc_resume cm) as [[? ?]|]; repeat split.
  Qed.

  (** ** a removed track is gone for good: the state after the callback start is literally the
      state the mixer (or the parent track) would have had if the track had never existed — so
      from this callback on it contributes nothing to any output, and nothing of it is processed *)
  Lemma drain_then_removed {X} (test : X -> bool) (f : X -> X) (l1 l2 : list X) (c : X) :
    test c = true -> drain_then test f (l1 ++ c :: l2) = drain_then test f (l1 ++ l2).
  Proof.
    intro H. induction l1 as [|x r IH]; cbn [app drain_then].
    - rewrite H. reflexivity.
    - destruct (test x); [exact IH|f_equal; exact IH].
  Qed.

  Lemma removed_track_silent_mixer (l1 l2 q : list trackT) (c : trackT) :
    should_be_removed c = true ->
    tmixer_on_start {| mx_subs := l1 ++ c :: l2; mx_qsubs := q |} =
    tmixer_on_start {| mx_subs := l1 ++ l2; mx_qsubs := q |}.
  Proof.
    intro H. unfold mixer_on_start, subs_on_start. cbn [mx_subs mx_qsubs].
    rewrite (drain_then_removed _ _ l1 l2 c H). reflexivity.
  Qed.

  Lemma removed_track_silent_sub (t : trackT) (l1 l2 : list trackT) (c : trackT) :
    should_be_removed c = true ->
    ton_start (with_kids t (l1 ++ c :: l2) (t_qsubs t)) = ton_start (with_kids t (l1 ++ l2) (t_qsubs t)).
  Proof.
    intro H. destruct t as [id m vol mk pe mir snds subs fx qs qsubs cm].
    unfold with_kids. cbn [t_id t_psm t_vol t_marked t_persist t_mirror t_sounds t_subs t_effects t_qsounds t_qsubs t_cmds].
    cbn [on_start t_id t_psm t_vol t_marked t_persist t_mirror t_sounds t_subs t_effects t_qsounds t_qsubs t_cmds].
    rewrite (drain_then_removed _ _ l1 l2 c H).
    unfold read_commands. cbn [t_id t_psm t_vol t_marked t_persist t_mirror t_sounds t_subs t_effects t_qsounds t_qsubs t_cmds].
    destruct (tc_pause cm); destruct (tc_resume cm) as [[? ?]|]; reflexivity.
  Qed.

  (** the mixer after a callback start holds no removable track that was tested, and keeps
      every track that has a live handle somewhere beneath it *)
  Lemma mixer_keeps_alive (m : mixer T V Snd E) (c d : trackT) :
    In c (mx_subs m) -> In d (tracks_of c) -> t_marked d = false ->
    In (ton_start c) (mx_subs (tmixer_on_start m)).
  Proof.
    intros HI HD HM. unfold mixer_on_start. cbn [mx_subs]. apply subs_on_start_in. right.
    exists c. split; [exact HI|]. split; [|reflexivity].
    exact (never_removed_while_descendant_alive_lemma c d HD HM).
  Qed.
  Lemma mixer_picks_up_queued (m : mixer T V Snd E) (c : trackT) :
    In c (mx_qsubs m) -> In (ton_start c) (mx_subs (tmixer_on_start m)).
  Proof.
    intro HI. unfold mixer_on_start. cbn [mx_subs]. apply subs_on_start_in. left. exists c. split; [exact HI|reflexivity].
  Qed.
  Lemma mixer_removes (m : mixer T V Snd E) (c' : trackT) :
    In c' (mx_subs (tmixer_on_start m)) ->
    (exists c, In c (mx_qsubs m) /\ c' = ton_start c) \/
    (exists c, In c (mx_subs m) /\ should_be_removed c = false /\ c' = ton_start c).
  Proof. unfold mixer_on_start. cbn [mx_subs]. apply subs_on_start_in. Qed.
  (** ** at any depth: a callback start never removes a track whose handle is alive — it is still
      in the tree afterwards (same identity, still unmarked), wherever it sat (arena or queue) and
      whichever ancestors' handles were dropped *)
  Lemma in_tracks_of_sub (t c d : trackT) : In c (t_subs t) -> In d (tracks_of c) -> In d (tracks_of t).
  Proof.
    intros Ic Id. rewrite tracks_of_unfold. right. apply in_app_iff. left. apply in_flat_map. exists c. split; assumption.
  Qed.
  Lemma on_start_keeps_alive (t : trackT) : forall d,
    In d (tracks_of t) -> t_marked d = false ->
    exists d', In d' (tracks_of (ton_start t)) /\ t_id d' = t_id d /\ t_marked d' = false.
  Proof.
    induction t as [t IHs IHq] using track_ind'.
    intros d Id Md. rewrite tracks_of_unfold in Id. destruct Id as [Id|Id].
    - subst d. exists (ton_start t). destruct (on_start_id t) as [A [B _]].
      split; [rewrite tracks_of_unfold; left; reflexivity|]. split; [exact A|rewrite B; exact Md].
    - assert (Sub : forall c, In (ton_start c) (t_subs (ton_start t)) -> In d (tracks_of c) ->
                (forall d0, In d0 (tracks_of c) -> t_marked d0 = false ->
                   exists d', In d' (tracks_of (ton_start c)) /\ t_id d' = t_id d0 /\ t_marked d' = false) ->
                exists d', In d' (tracks_of (ton_start t)) /\ t_id d' = t_id d /\ t_marked d' = false).
      { intros c Ic Idc IHc. destruct (IHc d Idc Md) as [d' [I' [A B]]].
        exists d'. split; [|split; assumption]. exact (in_tracks_of_sub (ton_start t) (ton_start c) d' Ic I'). }
      assert (ES : t_subs (ton_start t) = tsubs_on_start (t_subs t) (t_qsubs t)) by (destruct t; reflexivity).
      apply in_app_iff in Id. destruct Id as [Id|Id]; apply in_flat_map in Id; destruct Id as [c [Ic Idc]].
      + apply (Sub c); [|exact Idc|rewrite Forall_forall in IHs; exact (IHs c Ic)].
        rewrite ES. apply subs_on_start_in. right. exists c. split; [exact Ic|]. split; [|reflexivity].
        exact (never_removed_while_descendant_alive_lemma c d Idc Md).
      + apply (Sub c); [|exact Idc|rewrite Forall_forall in IHq; exact (IHq c Ic)].
        rewrite ES. apply subs_on_start_in. left. exists c. split; [exact Ic|reflexivity].
  Qed.
  Lemma mixer_on_start_keeps_alive (m : mixer T V Snd E) (d : trackT) :
    In d (mixer_tracks m) -> t_marked d = false ->
    exists d', In d' (mixer_tracks (tmixer_on_start m)) /\ t_id d' = t_id d /\ t_marked d' = false.
  Proof.
    intros Id Md. unfold mixer_tracks in Id. apply in_app_iff in Id.
    assert (K : forall c, In (ton_start c) (mx_subs (tmixer_on_start m)) -> In d (tracks_of c) ->
              exists d', In d' (mixer_tracks (tmixer_on_start m)) /\ t_id d' = t_id d /\ t_marked d' = false).
    { intros c Ic Idc. destruct (on_start_keeps_alive c d Idc Md) as [d' [I' [A B]]].
      exists d'. split; [|split; assumption]. unfold mixer_tracks. apply in_app_iff. left.
      apply in_flat_map. exists (ton_start c). split; assumption. }
    destruct Id as [Id|Id]; apply in_flat_map in Id; destruct Id as [c [Ic Idc]]; apply (K c); try exact Idc.
    - exact (mixer_keeps_alive m c d Ic Idc Md).
    - exact (mixer_picks_up_queued m c Ic).
  Qed.
End Removal.
