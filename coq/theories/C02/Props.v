(** C02 — property theorems (statements closed by [exact]).
    [O : ops] bundles the frame arithmetic (zero, +=, *= gain), the sounds, the effects, the
    control behaviour of tracks (volumes, fades, pause state, route volumes, spatialisation) and
    the output stage; nothing is assumed about any of them, so every statement holds bit-for-bit
    for IEEE binary32 frames and for every sound / effect / tween / pause history. *)
From Coq Require Import List Arith Bool PeanoNat Reals.
From KV Require Import C02.Model C02.ProofsList C02.ProofsRefine C02.ProofsCor C02.ProofsLog C02.ProofsClosed.
From KV Require Import C02.ModelOrder C02.ProofsOrder.
From KV Require C02.Examples.
Import ListNotations.

(** The buffer-level `Mixer::process` (shared temp buffers, slices, zip-truncated `+=`,
    `fill(ZERO)`, send `input` buffers, arena order) on any state whose buffers are clean computes
    exactly the recursive signal-flow specification [spec_mix], with the same association order of
    the additions — and leaves a state whose buffers are clean again. *)
Theorem mixer_refines_spec_any :
  forall (O : ops) (env : tI O) (b m : nat) (mx : mixer O),
    clean_mixer O b mx -> m <= b -> NoDup (map fst (mx_sends O mx)) ->
    mixer_process O env mx (zeros O m) =
    (conc_mixer O b (fst (spec_mix O env (abs_mixer O mx) m)), snd (spec_mix O env (abs_mixer O mx) m)).
Proof. exact mixer_refines_clean. Qed.

Theorem builder_made_state_is_clean :
  forall (O : ops) (b : nat) (sx : smixer O), clean_mixer O b (conc_mixer O b sx).
Proof. exact conc_mixer_clean. Qed.

(** nothing carries over between children, chunks or callbacks: after `process` every temp
    buffer of every track and every send-track input is all zeros again *)
Theorem buffers_zero_after_process_any :
  forall (O : ops) (env : tI O) (b m : nat) (mx : mixer O),
    clean_mixer O b mx -> m <= b -> NoDup (map fst (mx_sends O mx)) ->
    clean_mixer O b (fst (mixer_process O env mx (zeros O m))).
Proof. exact buffers_zero_after. Qed.

(** the whole renderer over any list of chunk lengths <= b (and hence any callbacks) is the
    signal-level machine [spec_chunks]; its state stays clean *)
Theorem renderer_refines_spec_any :
  forall (O : ops) (ch b : nat) (ms : list nat),
    Forall (fun m => m <= b) ms ->
    forall (res : tI O) (sx : smixer O), NoDup (map fst (sx_sends O sx)) ->
      run_chunks O ch (conc_renderer O b res sx) ms =
      (conc_renderer O b (fst (fst (spec_chunks O ch (res, sx) ms))) (snd (fst (spec_chunks O ch (res, sx) ms))),
       snd (spec_chunks O ch (res, sx) ms)).
Proof. exact chunks_refine. Qed.

(** all histories of callbacks interleaved with edits (adding / removing tracks, sounds, sends:
    any state transformation that only introduces builder-made buffers): the device output of
    every callback is what the specification computes from the CURRENT tree — a removed branch
    contributes nothing, nothing is remembered *)
Theorem history_refines_spec_any :
  forall (O : ops) (ch b : nat) (h : list (hop O)),
    1 <= b -> Forall (edit_ok O b) h ->
    forall st : tI O * smixer O, NoDup (map fst (sx_sends O (snd st))) ->
      run_hist O ch (conc_renderer O b (fst st) (snd st)) h =
      (conc_renderer O b (fst (fst (spec_hist O ch b st h))) (snd (fst (spec_hist O ch b st h))),
       snd (spec_hist O ch b st h)).
Proof. exact history_refines. Qed.

(** a non-advancing (paused / waiting to resume) track returns exact zeros, adds nothing to any
    send, and its sub-tracks, sounds, effects and buffers are not touched — whatever the state *)
Theorem paused_track_frozen_any :
  forall (O : ops) (env : tI O) cs subs snds fx routes temp (out : list (tF O)) (S : sends_t O),
    c_adv (snd (o_ctl O (o_env O cs env) cs (length out))) = false ->
    track_process O env (Trk cs subs snds fx routes temp) out S =
    (Trk (fst (o_ctl O (o_env O cs env) cs (length out))) subs snds fx routes temp, zeros O (length out), S).
Proof. exact paused_track_frozen. Qed.

Theorem paused_branch_silent_any :
  forall (O : ops) (env : tI O) (m : nat) cs subs snds fx routes,
    c_adv (snd (o_ctl O (o_env O cs env) cs m)) = false ->
    spec_track O env m (STrk cs subs snds fx routes) =
    (STrk (fst (o_ctl O (o_env O cs env) cs m)) subs snds fx routes, zeros O m, []).
Proof. exact paused_branch_silent. Qed.

(** sends are post-fader: a track emits to its routes its own output signal (after effects,
    spatialisation, volume and fade), scaled by the route gain; nested emissions come first *)
Theorem post_fader_sends_any :
  forall (O : ops) (env : tI O) (m : nat) cs subs snds fx routes,
    c_adv (snd (o_ctl O (o_env O cs env) cs m)) = true ->
    let r := spec_track O env m (STrk cs subs snds fx routes) in
    let env' := o_env O cs env in
    snd r = snd (spec_subs O (spec_track O env' m) subs (zeros O m))
            ++ emit_from O 0 routes (c_rgain (snd (o_ctl O env' cs m))) (snd (fst r)).
Proof. exact post_fader_sends. Qed.

(** one chunk of m frames adds exactly [m] to the call log of every sound and effect whose whole
    path is advancing (main track and send tracks always), and nothing to anybody else *)
Theorem calls_per_chunk_any :
  forall (O : ops) (env : tI (logged O)) (sx : smixer (logged O)) (m : nat),
    mlogs_of O (fst (spec_mix (logged O) env sx m)) = step_mlogs O env m sx.
Proof. exact spec_mix_logs. Qed.

(** over any sequence of callbacks and any internal buffer size b >= 1 (no track paused), the
    call log of EVERY sound and EVERY effect of the buffer-level model grows by exactly the
    chunk sequence b, b, .., rest of each callback: contiguous slices in order, each of length
    1..b, together covering each callback's frames exactly once *)
Theorem exactly_once_in_order_any :
  forall (O : ops) (ch b : nat) (res : tI (logged O)) (sx : smixer (logged O)) (cbs : list nat),
    1 <= b -> NoDup (map fst (sx_sends (logged O) sx)) -> never_paused O ->
    let ms := concat (map (chunk_sizes b) cbs) in
    mlogs_of O (abs_mixer (logged O) (r_mixer (logged O) (fst (run_callbacks (logged O) ch (conc_renderer (logged O) b res sx) cbs))))
    = map_mlogs (fun l => l ++ ms) (mlogs_of O sx)
    /\ Forall (fun m => 1 <= m <= b) ms
    /\ Forall (fun n => list_sum (chunk_sizes b n) = n) cbs.
Proof. exact exactly_once_in_order. Qed.

(** the sentence of the track documentation as a formula, over any commutative semiring, without
    effects and spatialisation: frame i of the output is
      v_main[i] * ( sum over sounds reachable through advancing tracks of s[i] * product of the gains on its path
                  + sum over send tracks of v_send[i] * sum over routes into it of s[i] * gains up to the routed track * route gain
                  + main-track sounds ) *)
Theorem closed_form_semiring :
  forall (A : Type) (rO rI : A) (radd rmul : A -> A -> A),
    Ring_theory.semi_ring_theory rO rI radd rmul eq ->
    forall (TI TSS TES TCS TO : Type) (snd_proc : TI -> TSS -> nat -> TSS * list A)
           (fx_proc : TI -> TES -> list A -> TES * list A) (ctl_env : TCS -> TI -> TI)
           (ctl_step : TI -> TCS -> nat -> TCS * tctl A A) (res_step : TI -> nat -> TI) (out_frame : nat -> A -> list TO),
      (forall env cs n i x, c_spat (snd (ctl_step env cs n)) i x = x) ->
      forall (env : TI)
             (sx : smixer (semiring_ops A rO radd rmul TI TSS TES TCS TO snd_proc fx_proc ctl_env ctl_step res_step out_frame))
             (m i : nat),
        no_fx_mixer A rO radd rmul TI TSS TES TCS TO snd_proc fx_proc ctl_env ctl_step res_step out_frame sx ->
        i < m ->
        nth i (snd (spec_mix (semiring_ops A rO radd rmul TI TSS TES TCS TO snd_proc fx_proc ctl_env ctl_step res_step out_frame) env sx m)) rO =
        closed_form A rO rI radd rmul TI TSS TES TCS TO snd_proc fx_proc ctl_env ctl_step res_step out_frame env sx m i.
Proof. exact closed_form_holds. Qed.

(** ... in particular over the real numbers *)
Theorem closed_form_R :
  forall (TI TSS TES TCS TO : Type) (snd_proc : TI -> TSS -> nat -> TSS * list R)
         (fx_proc : TI -> TES -> list R -> TES * list R) (ctl_env : TCS -> TI -> TI)
         (ctl_step : TI -> TCS -> nat -> TCS * tctl R R) (res_step : TI -> nat -> TI) (out_frame : nat -> R -> list TO),
    (forall env cs n i x, c_spat (snd (ctl_step env cs n)) i x = x) ->
    forall (env : TI)
           (sx : smixer (semiring_ops R 0%R Rplus Rmult TI TSS TES TCS TO snd_proc fx_proc ctl_env ctl_step res_step out_frame))
           (m i : nat),
      no_fx_mixer R 0%R Rplus Rmult TI TSS TES TCS TO snd_proc fx_proc ctl_env ctl_step res_step out_frame sx ->
      i < m ->
      nth i (snd (spec_mix (semiring_ops R 0%R Rplus Rmult TI TSS TES TCS TO snd_proc fx_proc ctl_env ctl_step res_step out_frame) env sx m)) 0%R =
      closed_form R 0%R 1%R Rplus Rmult TI TSS TES TCS TO snd_proc fx_proc ctl_env ctl_step res_step out_frame env sx m i.
Proof. exact closed_form_holds_R. Qed.

(** Nothing is lost at pick-up either.  [Renderer::on_start_processing] drains the storages in the order
    sub-tracks (with their sounds), send tracks, main-track sounds, clocks, listeners, modulators: users before
    what they refer to.  For EVERY interleaving of the caller (who creates a referenced resource before its
    user, but through a different queue) with those drains: whenever the audio thread has finished draining and
    processes, every live resource finds everything it refers to — a track its send tracks, a sound its clock. *)
Theorem pickup_order_users_first :
  forall (n : nat) (sched : list ostep),
    let s := orun n users_first sched in o_pc s = n -> deps_live s.
Proof. exact pickup_order_l. Qed.
(** ... and not with send tracks drained before sub-tracks: the track is heard without its send route *)
Theorem pickup_order_matters :
  let s := orun 6 (fun _ _ => true) swapped_sched in
  o_pc s = 6 /\ live s (1, 8) = true /\ live s (0, 7) = false /\ deps_liveb s = false.
Proof. exact order_matters_l. Qed.
Theorem pickup_order_example :
  let s := orun 6 users_first [A_drain; G_add kira_send; G_add kira_track; A_drain; A_drain; A_drain; A_drain; A_drain; A_process;
                               A_drain; A_drain; A_drain; A_drain; A_drain; A_drain] in
  o_pc s = 6 /\ live s (k_sub, 8) = true /\ live s (k_send, 7) = true /\ deps_liveb s = true.
Proof. exact order_example_l. Qed.
(** references against the order exist in kira (a modulator's tween waiting for a clock): the referrer can be live
    one callback before its clock — harmless for a tween (it keeps waiting), fatal for a sound (it would be
    cancelled), which is why sounds are drained before clocks *)
Theorem pickup_against_the_order :
  let s := orun 6 (fun _ _ => true) [A_drain; A_drain; A_drain; A_drain; G_add late_clock; G_add early_mod; A_drain; A_drain] in
  o_pc s = 6 /\ live s (k_mod, 2) = true /\ live s (k_clock, 1) = false.
Proof. exact against_the_order_l. Qed.
