(** C02 — property theorems (statements closed by [exact]).
    [O : ops] bundles the frame arithmetic (zero, +=, *= gain), the sounds, the effects, the
    control behaviour of tracks (volumes, fades, pause state, route volumes, spatialisation) and
    the output stage; nothing is assumed about any of them, so every statement holds bit-for-bit
    for IEEE binary32 frames and for every sound / effect / tween / pause history. *)
From Coq Require Import List Arith Bool PeanoNat Reals ZArith QArith.
From KV Require Import Base.Outcome Base.Num C19.Model C06.Model C06.Dur C06.Proofs C06.Proofs2 C03.Model.
From KV Require Import C02.Model C02.ProofsList C02.ProofsRefine C02.ProofsCor C02.ProofsLog C02.ProofsClosed.
From KV Require Import C02.ModelOrder C02.ProofsOrder C02.ModelCtl C02.ProofsCtl C02.ProofsCtl2.
From KV Require C02.Examples.
Import ListNotations.
Close Scope Q_scope.

(** The buffer-level `Mixer::process` (shared temp buffers, slices, zip-truncated `+=`,
    `fill(ZERO)`, send `input` buffers, arena order) on any state whose buffers are clean computes
    exactly the recursive signal-flow specification [spec_mix], with the same association order of
    the additions — and leaves a state whose buffers are clean again. *)
Theorem mixer_refines_spec_any :
  forall (O : ops) (env : tI O) (b m : nat) (mx : mixer O),
    clean_mixer O b mx -> m <= b -> NoDup (map fst (mx_sends O mx)) ->
    mixer_process O env mx (zeros O m) =
    (conc_mixer O b (fst (spec_mix O env (abs_mixer O mx) m)), snd (spec_mix O env (abs_mixer O mx) m)).
Proof. exact mixer_refines_clean. Qed.

Theorem builder_made_state_is_clean :
  forall (O : ops) (b : nat) (sx : smixer O), clean_mixer O b (conc_mixer O b sx).
Proof. exact conc_mixer_clean. Qed.

(** nothing carries over between children, chunks or callbacks: after `process` every temp
    buffer of every track and every send-track input is all zeros again *)
Theorem buffers_zero_after_process_any :
  forall (O : ops) (env : tI O) (b m : nat) (mx : mixer O),
    clean_mixer O b mx -> m <= b -> NoDup (map fst (mx_sends O mx)) ->
    clean_mixer O b (fst (mixer_process O env mx (zeros O m))).
Proof. exact buffers_zero_after. Qed.

(** the whole renderer over any list of chunk lengths <= b (and hence any callbacks) is the
    signal-level machine [spec_chunks]; its state stays clean *)
Theorem renderer_refines_spec_any :
  forall (O : ops) (ch b : nat) (ms : list nat),
    Forall (fun m => m <= b) ms ->
    forall (res : tI O) (sx : smixer O), NoDup (map fst (sx_sends O sx)) ->
      run_chunks O ch (conc_renderer O b res sx) ms =
      (conc_renderer O b (fst (fst (spec_chunks O ch (res, sx) ms))) (snd (fst (spec_chunks O ch (res, sx) ms))),
       snd (spec_chunks O ch (res, sx) ms)).
Proof. exact chunks_refine. Qed.

(** all histories of callbacks interleaved with edits (adding / removing tracks, sounds, sends:
    any state transformation that only introduces builder-made buffers): the device output of
    every callback is what the specification computes from the CURRENT tree — a removed branch
    contributes nothing, nothing is remembered *)
Theorem history_refines_spec_any :
  forall (O : ops) (ch b : nat) (h : list (hop O)),
    1 <= b -> Forall (edit_ok O b) h ->
    forall st : tI O * smixer O, NoDup (map fst (sx_sends O (snd st))) ->
      run_hist O ch (conc_renderer O b (fst st) (snd st)) h =
      (conc_renderer O b (fst (fst (spec_hist O ch b st h))) (snd (fst (spec_hist O ch b st h))),
       snd (spec_hist O ch b st h)).
Proof. exact history_refines. Qed.

(** a non-advancing (paused / waiting to resume) track returns exact zeros, adds nothing to any
    send, and its sub-tracks, sounds, effects and buffers are not touched — whatever the state *)
Theorem paused_track_frozen_any :
  forall (O : ops) (env : tI O) cs subs snds fx routes temp (out : list (tF O)) (S : sends_t O),
    c_adv (snd (o_ctl O (o_env O cs env) cs (length out))) = false ->
    track_process O env (Trk cs subs snds fx routes temp) out S =
    (Trk (fst (o_ctl O (o_env O cs env) cs (length out))) subs snds fx routes temp, zeros O (length out), S).
Proof. exact paused_track_frozen. Qed.

Theorem paused_branch_silent_any :
  forall (O : ops) (env : tI O) (m : nat) cs subs snds fx routes,
    c_adv (snd (o_ctl O (o_env O cs env) cs m)) = false ->
    spec_track O env m (STrk cs subs snds fx routes) =
    (STrk (fst (o_ctl O (o_env O cs env) cs m)) subs snds fx routes, zeros O m, []).
Proof. exact paused_branch_silent. Qed.

(** sends are post-fader: a track emits to its routes its own output signal (after effects,
    spatialisation, volume and fade), scaled by the route gain; nested emissions come first *)
Theorem post_fader_sends_any :
  forall (O : ops) (env : tI O) (m : nat) cs subs snds fx routes,
    c_adv (snd (o_ctl O (o_env O cs env) cs m)) = true ->
    let r := spec_track O env m (STrk cs subs snds fx routes) in
    let env' := o_env O cs env in
    snd r = snd (spec_subs O (spec_track O env' m) subs (zeros O m))
            ++ emit_from O 0 routes (c_rgain (snd (o_ctl O env' cs m))) (snd (fst r)).
Proof. exact post_fader_sends. Qed.

(** one chunk of m frames adds exactly [m] to the call log of every sound and effect whose whole
    path is advancing (main track and send tracks always), and nothing to anybody else *)
Theorem calls_per_chunk_any :
  forall (O : ops) (env : tI (logged O)) (sx : smixer (logged O)) (m : nat),
    mlogs_of O (fst (spec_mix (logged O) env sx m)) = step_mlogs O env m sx.
Proof. exact spec_mix_logs. Qed.

(** over any sequence of callbacks and any internal buffer size b >= 1 (no track paused), the
    call log of EVERY sound and EVERY effect of the buffer-level model grows by exactly the
    chunk sequence b, b, .., rest of each callback: contiguous slices in order, each of length
    1..b, together covering each callback's frames exactly once *)
Theorem exactly_once_in_order_any :
  forall (O : ops) (ch b : nat) (res : tI (logged O)) (sx : smixer (logged O)) (cbs : list nat),
    1 <= b -> NoDup (map fst (sx_sends (logged O) sx)) -> never_paused O ->
    let ms := concat (map (chunk_sizes b) cbs) in
    mlogs_of O (abs_mixer (logged O) (r_mixer (logged O) (fst (run_callbacks (logged O) ch (conc_renderer (logged O) b res sx) cbs))))
    = map_mlogs (fun l => l ++ ms) (mlogs_of O sx)
    /\ Forall (fun m => 1 <= m <= b) ms
    /\ Forall (fun n => list_sum (chunk_sizes b n) = n) cbs.
Proof. exact exactly_once_in_order. Qed.

(** the sentence of the track documentation as a formula, over any commutative semiring, without
    effects and spatialisation: frame i of the output is
      v_main[i] * ( sum over sounds reachable through advancing tracks of s[i] * product of the gains on its path
                  + sum over send tracks of v_send[i] * sum over routes into it of s[i] * gains up to the routed track * route gain
                  + main-track sounds ) *)
Theorem closed_form_semiring :
  forall (A : Type) (rO rI : A) (radd rmul : A -> A -> A),
    Ring_theory.semi_ring_theory rO rI radd rmul eq ->
    forall (TI TSS TES TCS TO : Type) (snd_proc : TI -> TSS -> nat -> TSS * list A)
           (fx_proc : TI -> TES -> list A -> TES * list A) (ctl_env : TCS -> TI -> TI)
           (ctl_step : TI -> TCS -> nat -> TCS * tctl A A) (res_step : TI -> nat -> TI) (out_frame : nat -> A -> list TO),
      (forall env cs n i x, c_spat (snd (ctl_step env cs n)) i x = x) ->
      forall (env : TI)
             (sx : smixer (semiring_ops A rO radd rmul TI TSS TES TCS TO snd_proc fx_proc ctl_env ctl_step res_step out_frame))
             (m i : nat),
        no_fx_mixer A rO radd rmul TI TSS TES TCS TO snd_proc fx_proc ctl_env ctl_step res_step out_frame sx ->
        i < m ->
        nth i (snd (spec_mix (semiring_ops A rO radd rmul TI TSS TES TCS TO snd_proc fx_proc ctl_env ctl_step res_step out_frame) env sx m)) rO =
        closed_form A rO rI radd rmul TI TSS TES TCS TO snd_proc fx_proc ctl_env ctl_step res_step out_frame env sx m i.
Proof. exact closed_form_holds. Qed.

(** ... in particular over the real numbers *)
Theorem closed_form_R :
  forall (TI TSS TES TCS TO : Type) (snd_proc : TI -> TSS -> nat -> TSS * list R)
         (fx_proc : TI -> TES -> list R -> TES * list R) (ctl_env : TCS -> TI -> TI)
         (ctl_step : TI -> TCS -> nat -> TCS * tctl R R) (res_step : TI -> nat -> TI) (out_frame : nat -> R -> list TO),
    (forall env cs n i x, c_spat (snd (ctl_step env cs n)) i x = x) ->
    forall (env : TI)
           (sx : smixer (semiring_ops R 0%R Rplus Rmult TI TSS TES TCS TO snd_proc fx_proc ctl_env ctl_step res_step out_frame))
           (m i : nat),
      no_fx_mixer R 0%R Rplus Rmult TI TSS TES TCS TO snd_proc fx_proc ctl_env ctl_step res_step out_frame sx ->
      i < m ->
      nth i (snd (spec_mix (semiring_ops R 0%R Rplus Rmult TI TSS TES TCS TO snd_proc fx_proc ctl_env ctl_step res_step out_frame) env sx m)) 0%R =
      closed_form R 0%R 1%R Rplus Rmult TI TSS TES TCS TO snd_proc fx_proc ctl_env ctl_step res_step out_frame env sx m i.
Proof. exact closed_form_holds_R. Qed.

(** Nothing is lost at pick-up either.  [Renderer::on_start_processing] drains the storages in the order
    sub-tracks (with their sounds), send tracks, main-track sounds, clocks, listeners, modulators: users before
    what they refer to.  For EVERY interleaving of the caller (who creates a referenced resource before its
    user, but through a different queue) with those drains: whenever the audio thread has finished draining and
    processes, every live resource finds everything it refers to — a track its send tracks, a sound its clock. *)
Theorem pickup_order_users_first :
  forall (n : nat) (sched : list ostep),
    let s := orun n users_first sched in o_pc s = n -> deps_live s.
Proof. exact pickup_order_l. Qed.
(** ... and not with send tracks drained before sub-tracks: the track is heard without its send route *)
Theorem pickup_order_matters :
  let s := orun 6 (fun _ _ => true) swapped_sched in
  o_pc s = 6 /\ live s (1, 8) = true /\ live s (0, 7) = false /\ deps_liveb s = false.
Proof. exact order_matters_l. Qed.
Theorem pickup_order_example :
  let s := orun 6 users_first [A_drain; G_add kira_send; G_add kira_track; A_drain; A_drain; A_drain; A_drain; A_drain; A_process;
                               A_drain; A_drain; A_drain; A_drain; A_drain; A_drain] in
  o_pc s = 6 /\ live s (k_sub, 8) = true /\ live s (k_send, 7) = true /\ deps_liveb s = true.
Proof. exact order_example_l. Qed.
(** references against the order exist in kira (a modulator's tween waiting for a clock): the referrer can be live
    one callback before its clock — harmless for a tween (it keeps waiting), fatal for a sound (it would be
    cancelled), which is why sounds are drained before clocks *)
Theorem pickup_against_the_order :
  let s := orun 6 (fun _ _ => true) [A_drain; A_drain; A_drain; A_drain; G_add late_clock; G_add early_mod; A_drain; A_drain] in
  o_pc s = 6 /\ live s (k_mod, 2) = true /\ live s (k_clock, 1) = false.
Proof. exact against_the_order_l. Qed.

(** * The control part of a track, concretely (C02/ModelCtl.v: the top of `Track::process`, `read_commands`).
    The guard.  After the chunk's update of a sub-track's state manager (with the "tracks have no stopped
    state" repair) the track does not advance EXACTLY when its state is Paused or WaitingToResume — and a
    track is never Stopped.  With [nonadvancing_track_frozen_ctl] below: a track that is waiting to resume
    contributes exact silence, like a paused one.  Any number type: bit for bit for IEEE. *)
Theorem ctl_guard_exact :
  forall (T : Type) (NT : Num T) (ND : NumDur T) (powf : T -> T -> T) (V : Type)
         (interp : V -> V -> T -> V) (silence identity : V) (F G : Type) (amp : V -> G) 
         (gmul : G -> G -> G) (dt : T) (i : info T) (cs : tcs T V) (n : nat) (cs' : tcs T V) 
         (c : tctl F G) (m : psm T V),
       k_psm cs = Some m ->
       ps m <> Stopped ->
       ctl_step_o powf V interp silence identity F G amp gmul dt i cs n = Ok (cs', c) ->
       exists m' : psm T V,
         k_psm cs' = Some m' /\
         ps m' <> Stopped /\
         (c_adv c = false <->
          ps m' = Paused \/ (exists (st : stime T) (tw : tween T), ps m' = WaitingToResume st tw)).
Proof. exact @ctl_guard_exact_l. Qed.

(** the main track and send tracks have no state manager: they always advance *)
Theorem ctl_main_and_send_tracks_always_advance :
  forall (T : Type) (NT : Num T) (ND : NumDur T) (powf : T -> T -> T) (V : Type)
         (interp : V -> V -> T -> V) (silence identity : V) (F G : Type) (amp : V -> G) 
         (gmul : G -> G -> G) (dt : T) (i : info T) (cs : tcs T V) (n : nat) (cs' : tcs T V) 
         (c : tctl F G),
       k_psm cs = None ->
       ctl_step_o powf V interp silence identity F G amp gmul dt i cs n = Ok (cs', c) ->
       c_adv c = true /\ k_psm cs' = None.
Proof. exact @ctl_no_psm_advances. Qed.

(** The track volume and EVERY route volume are updated by every chunk, in every pause state: the
    updates stand above the guard. *)
Theorem ctl_volumes_tick_in_every_state :
  forall (T : Type) (NT : Num T) (ND : NumDur T) (powf : T -> T -> T) (V : Type)
         (interp : V -> V -> T -> V) (silence identity : V) (F G : Type) (amp : V -> G) 
         (gmul : G -> G -> G) (dt : T) (i : info T) (cs : tcs T V) (n : nat) (cs' : tcs T V) 
         (c : tctl F G),
       ctl_step_o powf V interp silence identity F G amp gmul dt i cs n = Ok (cs', c) ->
       (exists f : bool, param_update powf V interp (k_vol cs) (dtl dt n) i = Ok (k_vol cs', f)) /\
       routes_update powf V interp (k_routes cs) (dtl dt n) i = Ok (k_routes cs') /\ k_id cs' = k_id cs.
Proof. exact @ctl_volumes_tick_l. Qed.

(** what the chunk is rendered with: per frame `volume.interpolated((k+1)/n).as_amplitude() *
    fade.interpolated((k+1)/n).as_amplitude()`, per chunk `route.volume.value().as_amplitude()`; no
    spatialisation *)
Theorem ctl_gain_formula :
  forall (T : Type) (NT : Num T) (ND : NumDur T) (powf : T -> T -> T) (V : Type)
         (interp : V -> V -> T -> V) (silence identity : V) (F G : Type) (amp : V -> G) 
         (gmul : G -> G -> G) (dt : T) (i : info T) (cs : tcs T V) (n : nat) (cs' : tcs T V) 
         (c : tctl F G) (m' : psm T V),
       ctl_step_o powf V interp silence identity F G amp gmul dt i cs n = Ok (cs', c) ->
       k_psm cs' = Some m' ->
       (forall k : nat,
        c_gain c k =
        gmul (amp (param_interpolated V interp (k_vol cs') (amount_of n k)))
          (amp (param_interpolated V interp (fade m') (amount_of n k)))) /\
       (forall r : nat,
        c_rgain c r = nth r (map (fun p : param T V => amp (p_raw p)) (k_routes cs')) (amp silence)) /\
       c_adv c = is_advancing (ps m') /\ (forall (k : nat) (x : F), c_spat c k x = x).
Proof. exact @ctl_gain_formula_l. Qed.

Theorem ctl_gain_formula_main :
  forall (T : Type) (NT : Num T) (ND : NumDur T) (powf : T -> T -> T) (V : Type)
         (interp : V -> V -> T -> V) (silence identity : V) (F G : Type) (amp : V -> G) 
         (gmul : G -> G -> G) (dt : T) (i : info T) (cs : tcs T V) (n : nat) (cs' : tcs T V) 
         (c : tctl F G),
       ctl_step_o powf V interp silence identity F G amp gmul dt i cs n = Ok (cs', c) ->
       k_psm cs = None ->
       forall k : nat, c_gain c k = amp (param_interpolated V interp (k_vol cs') (amount_of n k)).
Proof. exact @ctl_gain_formula_main_l. Qed.

(** For ALL histories of the two threads (handle writes at any time, callback starts, chunks): the track's
    volume parameter sees exactly the last volume command written before each callback start, applied at
    that start, and one update per chunk — whatever pause / resume / resume_at / route commands do. *)
Theorem volume_follows_history :
  forall (T : Type) (NT : Num T) (ND : NumDur T) (powf : T -> T -> T) (V : Type)
         (interp : V -> V -> T -> V) (silence identity : V) (F G : Type) (amp : V -> G) 
         (gmul : G -> G -> G) (dt : T) (es : list (mev T V)) (b b' : tcs T V * tcmd T V)
         (outs : list (tctl F G)),
       mrun powf V interp silence identity F G amp gmul dt b es = Ok (b', outs) ->
       param_run powf V interp (k_vol (fst b)) (vol_view V dt (m_vol (snd b)) es) = Ok (k_vol (fst b')).
Proof. exact @volume_follows_history_l. Qed.

(** ... and so does the volume parameter of every send route *)
Theorem route_follows_history :
  forall (T : Type) (NT : Num T) (ND : NumDur T) (powf : T -> T -> T) (V : Type)
         (interp : V -> V -> T -> V) (silence identity : V) (F G : Type) (amp : V -> G) 
         (gmul : G -> G -> G) (dt : T) (k : nat) (es : list (mev T V)) (b b' : tcs T V * tcmd T V)
         (outs : list (tctl F G)) (p : param T V),
       boxed V b ->
       mrun powf V interp silence identity F G amp gmul dt b es = Ok (b', outs) ->
       nth_error (k_routes (fst b)) k = Some p ->
       exists p' : param T V,
         nth_error (k_routes (fst b')) k = Some p' /\
         param_run powf V interp p (route_view V dt k (nth k (m_routes (snd b)) None) es) = Ok p'.
Proof. exact @route_follows_history_l. Qed.

(** Commands are read by `on_start_processing` only: whatever the handle writes DURING a callback (between
    any two chunks), every chunk of that callback is rendered exactly as if nothing had been written; the
    writes are all in the mailbox afterwards (one slot per kind, the last write in each), for the next
    callback start to apply. *)
Theorem mid_callback_writes_wait :
  forall (T : Type) (NT : Num T) (ND : NumDur T) (powf : T -> T -> T) (V : Type)
         (interp : V -> V -> T -> V) (silence identity : V) (F G : Type) (amp : V -> G) 
         (gmul : G -> G -> G) (dt : T) (es : list (mev T V)) (b b' : tcs T V * tcmd T V)
         (outs : list (tctl F G)),
       forallb (fun e : mev T V => negb (is_start e)) es = true ->
       mrun powf V interp silence identity F G amp gmul dt b es = Ok (b', outs) ->
       mrun powf V interp silence identity F G amp gmul dt b
         (filter (fun e : mev T V => negb (is_write e)) es) = Ok (fst b', snd b, outs) /\
       snd b' = fold_left write (writes_of V es) (snd b).
Proof. exact @mid_callback_writes_wait_l. Qed.

(** one chunk of a track waiting to resume: volumes tick, the start time is counted down; the track stays
    WaitingToResume (not advancing) until the start time resolves, resumes in the chunk in which it does
    (advancing, fading in from the current fade value), and is left Paused if its clock is gone *)
Theorem waiting_step :
  forall (T : Type) (NT : Num T) (ND : NumDur T) (powf : T -> T -> T) (V : Type)
         (interp : V -> V -> T -> V) (silence identity : V) (F G : Type) (amp : V -> G) 
         (gmul : G -> G -> G) (dt : T) (i : info T) (cs : tcs T V) (n : nat) (m : psm T V) 
         (st : stime T) (tw : tween T) (vol : param T V) (fv : bool) (routes : list (param T V))
         (f : param T V) (fin : bool) (st' : stime T) (never : bool),
       k_psm cs = Some m ->
       ps m = WaitingToResume st tw ->
       param_update powf V interp (k_vol cs) (dtl dt n) i = Ok (vol, fv) ->
       routes_update powf V interp (k_routes cs) (dtl dt n) i = Ok routes ->
       param_update powf V interp (fade m) (dtl dt n) i = Ok (f, fin) ->
       stime_update st (dtl dt n) i = Ok (st', never) ->
       exists c : tctl F G,
         ctl_step_o powf V interp silence identity F G amp gmul dt i cs n =
         Ok
           ({|
              k_id := k_id cs;
              k_vol := vol;
              k_routes := routes;
              k_psm :=
                Some
                  (if never
                   then {| ps := Paused; fade := f |}
                   else
                    if is_immediate st'
                    then {| ps := Resuming; fade := param_set f (Fixed identity) tw |}
                    else {| ps := WaitingToResume st' tw; fade := f |})
            |}, c) /\ c_adv c = negb never && is_immediate st'.
Proof. exact @waiting_step_l. Qed.

(** The buffer-level `Track::process` of C02/Model.v instantiated with this control (any frame arithmetic,
    sounds, effects): a track that is Paused or WaitingToResume after the chunk's update returns exact
    zeros, feeds no send, and nothing beneath it is touched — sub-tracks, sounds, effects, scratch buffer;
    only its own control state moves, volume and route parameters included. *)
Theorem nonadvancing_track_frozen_ctl :
  forall (T : Type) (NT : Num T) (ND : NumDur T) (powf : T -> T -> T) (V : Type)
         (interp : V -> V -> T -> V) (silence identity : V) (F G : Type) (amp : V -> G) 
         (gmul : G -> G -> G) (dt : T) (SS ES TO : Type) (zero : F) (add : F -> F -> F) 
         (scale : F -> G -> F) (snd_proc : info T -> SS -> nat -> SS * list F)
         (fx_proc : info T -> ES -> list F -> ES * list F) (res : info T -> nat -> info T)
         (outf : nat -> F -> list TO) (env : info T) (cs cs' : tcs T V) (c : tctl F G) 
         (m m' : psm T V)
         (subs : list
                   (track
                      (ctl_ops powf V interp silence identity F G amp gmul dt SS ES TO zero add scale
                         snd_proc fx_proc res outf)))
         (snds : list
                   (tSS
                      (ctl_ops powf V interp silence identity F G amp gmul dt SS ES TO zero add scale
                         snd_proc fx_proc res outf)))
         (fx : list
                 (tES
                    (ctl_ops powf V interp silence identity F G amp gmul dt SS ES TO zero add scale snd_proc
                       fx_proc res outf))) (routes : list nat)
         (temp : list
                   (tF
                      (ctl_ops powf V interp silence identity F G amp gmul dt SS ES TO zero add scale
                         snd_proc fx_proc res outf))) (out : list F)
         (S : sends_t
                (ctl_ops powf V interp silence identity F G amp gmul dt SS ES TO zero add scale snd_proc
                   fx_proc res outf)),
       k_psm cs = Some m ->
       ps m <> Stopped ->
       ctl_step_o powf V interp silence identity F G amp gmul dt env cs (length out) = Ok (cs', c) ->
       k_psm cs' = Some m' ->
       ps m' = Paused \/ (exists (st : stime T) (tw : tween T), ps m' = WaitingToResume st tw) ->
       track_process
         (ctl_ops powf V interp silence identity F G amp gmul dt SS ES TO zero add scale snd_proc fx_proc res
            outf) env (@Trk (ctl_ops powf V interp silence identity F G amp gmul dt SS ES TO zero add scale snd_proc fx_proc res outf) (Ok cs) subs snds fx routes temp) out S =
       (@Trk (ctl_ops powf V interp silence identity F G amp gmul dt SS ES TO zero add scale snd_proc fx_proc res outf) (Ok cs') subs snds fx routes temp,
        zeros
          (ctl_ops powf V interp silence identity F G amp gmul dt SS ES TO zero add scale snd_proc fx_proc
             res outf) (length out), S).
Proof. exact @nonadvancing_track_frozen_l. Qed.

(** ... and in every other state it renders *)
Theorem advancing_track_renders :
  forall (T : Type) (NT : Num T) (ND : NumDur T) (powf : T -> T -> T) (V : Type)
         (interp : V -> V -> T -> V) (silence identity : V) (F G : Type) (amp : V -> G) 
         (gmul : G -> G -> G) (dt : T) (env : info T) (cs cs' : tcs T V) (c : tctl F G) 
         (m m' : psm T V),
       k_psm cs = Some m ->
       ps m <> Stopped ->
       ctl_step_o powf V interp silence identity F G amp gmul dt env cs 1 = Ok (cs', c) ->
       k_psm cs' = Some m' ->
       ps m' = Playing \/ ps m' = Pausing \/ ps m' = Resuming \/ ps m' = Stopping -> c_adv c = true.
Proof. exact @advancing_track_renders_l. Qed.

(** Exact time.  A volume commanded at a callback start follows the tween law (C06 [tween_law]) over the
    chunks that follow IN WHATEVER STATE the track is — in particular a tween whose duration has elapsed
    while the track was paused has ended exactly on its target, so the commanded volume is in force from
    the first frame after the resume. *)
Theorem volume_commanded_in_any_state :
  forall (powf : Q -> Q -> Q) (silence identity : Q) (F G : Type) (amp : Q -> G) 
         (gmul : G -> G -> G) (dt : Q) (b b' : tcs Q Q * tcmd Q Q) (outs : list (tctl F G)) 
         (tg : Q) (tw : tween Q) (l : list (nat * info Q)),
       not_delayed (tw_start tw) ->
       tw_dur tw <> 0%Z ->
       l <> [] ->
       mrun powf Q lerp silence identity F G amp gmul dt b
         (MWrite (WVol (Fixed tg) tw) :: MStart :: chunk_events l) = Ok (b', outs) ->
       let D := ns_to_secs_Q (tw_dur tw) in
       if completes (tw_start tw) D 0 (chunk_calls dt l)
       then p_state (k_vol (fst b')) = Idle (Fixed tg) /\ p_raw (k_vol (fst b')) = tg
       else
        p_raw (k_vol (fst b')) =
        the_law powf (p_raw (k_vol (fst b))) tg (tw_easing tw) D (elapsed (tw_start tw) 0 (chunk_calls dt l)).
Proof. exact @volume_commanded_in_any_state_l. Qed.

Theorem route_commanded_in_any_state :
  forall (powf : Q -> Q -> Q) (silence identity : Q) (F G : Type) (amp : Q -> G) 
         (gmul : G -> G -> G) (dt : Q) (b b' : tcs Q Q * tcmd Q Q) (outs : list (tctl F G)) 
         (k : nat) (p : param Q Q) (tg : Q) (tw : tween Q) (l : list (nat * info Q)),
       boxed Q b ->
       nth_error (k_routes (fst b)) k = Some p ->
       not_delayed (tw_start tw) ->
       tw_dur tw <> 0%Z ->
       l <> [] ->
       mrun powf Q lerp silence identity F G amp gmul dt b
         (MWrite (WRoute k (Fixed tg) tw) :: MStart :: chunk_events l) = Ok (b', outs) ->
       let D := ns_to_secs_Q (tw_dur tw) in
       exists p' : param Q Q,
         nth_error (k_routes (fst b')) k = Some p' /\
         (if completes (tw_start tw) D 0 (chunk_calls dt l)
          then p_state p' = Idle (Fixed tg) /\ p_raw p' = tg
          else
           p_raw p' = the_law powf (p_raw p) tg (tw_easing tw) D (elapsed (tw_start tw) 0 (chunk_calls dt l))).
Proof. exact @route_commanded_in_any_state_l. Qed.

(** * Branches.  `Track::should_be_removed` holds exactly when nothing at or below the track has a reason to
    stay: a live handle, a persisting track with a sound (playing or queued), a queued sub-track. *)
Theorem removable_iff_not_anchored :
  forall t : ktree, removable t = negb (anchored t).
Proof. exact @removable_iff_not_anchored_l. Qed.

(** a track with such a descendant ANYWHERE below it, at any depth, is not removable *)
Theorem live_descendant_keeps_branch :
  forall t u : ktree, on_branch t u -> anchored_here u = true -> removable t = false.
Proof. exact @live_descendant_keeps_branch_l. Qed.

(** ... and after `Mixer::on_start_processing` the whole branch down to that descendant is still in the
    tree, with all the descendant's sounds (nothing is lost) *)
Theorem live_descendant_survives_pickup :
  forall (tops : list ktree) (t u : ktree),
       In t tops ->
       on_branch t u ->
       anchored_here u = true ->
       exists t' u' : ktree,
         In t' (k_mixer_on_start removable tops) /\
         on_branch t' u' /\ sounds_here u' = sounds_here u /\ flags_of u' = flags_of u.
Proof. exact @live_descendant_survives_mixer_l. Qed.

(** a forest in which nothing has a reason to stay is removed entirely *)
Theorem unanchored_branch_removed :
  forall tops : list ktree,
       forallb (fun t : ktree => negb (anchored t)) tops = true -> k_mixer_on_start removable tops = [].
Proof. exact @unanchored_branch_removed_l. Qed.

(** * Examples (the hypotheses are met) and counter-models of the seeded readings, exact arithmetic.
    pause; resume_at in 20 ms; chunks of 8 ms: not advancing, not advancing (WaitingToResume, code 3), not
    advancing, advancing from the chunk in which 20 ms have passed, Playing at the end *)
Theorem waiting_example :
  advs (mrunQ0 b0 ex_wait) = [false; false; false; true; true] /\
       state_of (mrunQ0 b0 ex_wait) = 0%Z /\ state_of (mrunQ0 b0 (firstn 7 ex_wait)) = 3%Z.
Proof. exact @waiting_example_l. Qed.

(** the guard `== Paused` is not the guard: a resume_at that arrives half-way through a fade-out leaves the
    track WaitingToResume at half gain; the real guard stops it, that one renders it *)
Theorem paused_only_guard_refuted :
  code_of cs_leak = 3%Z /\
       adv_of (stepQ no_info cs_leak 8) = Some false /\
       adv_of (ctl_step_paused_only pw0 Q lerp (-60)%Q 0%Q unit Q ampQ gmulQ dtQ no_info cs_leak 8) =
       Some true /\
       ~ (gain0_of (ctl_step_paused_only pw0 Q lerp (-60) 0 unit Q ampQ gmulQ dtQ no_info cs_leak 8) == 0)%Q.
Proof. exact @paused_only_guard_refuted_l. Qed.

(** volumes ticked below the guard are not these volumes: muted with a 16 ms tween while paused, resumed
    24 ms later: gain 0 from the first frame here, the old volume is heard there *)
Theorem late_volumes_refuted :
  skipn 4 (gains (mrunQ0 b0 ex_mute_paused)) = [0%Q; 0%Q] /\
       advs (mrunQ0 b0 ex_mute_paused) = [false; false; false; false; true; true] /\
       advs
         (mrun_with (ctl_step_late_volumes pw0 Q lerp (-60)%Q 0%Q unit Q ampQ gmulQ dtQ) b0 ex_mute_paused) =
       [false; false; false; false; true; true] /\
       ~
       (nth 5
          (gains
             (mrun_with (ctl_step_late_volumes pw0 Q lerp (-60) 0 unit Q ampQ gmulQ dtQ) b0 ex_mute_paused))
          0 == 0)%Q.
Proof. exact @late_volumes_refuted_l. Qed.

Theorem mute_paused_example :
  completes Immediate (ns_to_secs_Q 16000000) 0
         (chunk_calls dtQ [(8, no_info); (8, no_info); (8, no_info)]) = true.
Proof. exact @mute_paused_example_l. Qed.

(** route commands polled per chunk are not these commands: a route muted between the first and second
    chunk of a callback stays open for the whole callback here (closed from the next), closes at once there *)
Theorem per_chunk_reading_refuted :
  rgains (mrunQ0 b0 ex_mid) = [1%Q; 1%Q; 1%Q] /\
       rgains (mrun_per_chunk pw0 Q lerp (-60)%Q 0%Q unit Q ampQ gmulQ dtQ b0 ex_mid) = [1%Q; 0%Q; 0%Q] /\
       rgains (mrunQ0 b0 (ex_mid ++ [MStart; chunk 4])) = [1%Q; 1%Q; 1%Q; 0%Q].
Proof. exact @per_chunk_reading_refuted_l. Qed.

(** the shallow liveness test is not this test: parent and child handles dropped, grandchild alive with a
    sound: kept here (1 sound still rendered), torn out there *)
Theorem shallow_test_refuted :
  on_branch k_parent k_grand /\
       anchored_here k_grand = true /\
       removable k_parent = false /\
       list_sum (map k_sounds (k_mixer_on_start removable [k_parent])) = 1 /\
       removable_shallow k_parent = true /\ k_mixer_on_start removable_shallow [k_parent] = [].
Proof. exact @shallow_test_refuted_l. Qed.

Theorem persisting_child_example :
  let c := KT 2 true true 0 1 [] [] in
       anchored_here c = true /\
       removable (KT 1 true false 0 0 [] [c]) = false /\
       removable_shallow (KT 1 true false 0 0 [] [c]) = true.
Proof. exact @persisting_child_example_l. Qed.
