(** C02 — the pick-up order: users are drained before what they refer to, so for EVERY interleaving of the
    caller with the audio thread's drains, whenever [Renderer::process] runs every live resource finds
    everything it refers to (a track its send tracks, a sound its clock, ...). *)
From Coq Require Import List Arith Bool PeanoNat Lia.
From KV Require Import C02.ModelOrder.
Import ListNotations.

Lemma rid_eqb_true (a b : rid) : rid_eqb a b = true <-> a = b.
Proof.
  destruct a as [a1 a2], b as [b1 b2]; unfold rid_eqb; cbn [fst snd].
  rewrite andb_true_iff, !Nat.eqb_eq. split; [intros [-> ->]; reflexivity | intros E; inversion E; auto].
Qed.

Lemma live_iff s d : live s d = true <-> exists r, In r (o_arena s) /\ rid_of r = d.
Proof.
  unfold live. rewrite existsb_exists. split; intros [r [Hr E]]; exists r; (split; [exact Hr|]); apply rid_eqb_true; exact E.
Qed.
Lemma known_iff s d : known s d = true <-> exists r, In r (o_queue s ++ o_arena s) /\ rid_of r = d.
Proof.
  unfold known. rewrite existsb_exists. split; intros [r [Hr E]]; exists r; (split; [exact Hr|]); apply rid_eqb_true; exact E.
Qed.

Section Inv.
  Variable n : nat.

  Definition OInv (s : ost) : Prop :=
    o_pc s <= n /\
    (forall r, In r (o_queue s ++ o_arena s) ->
       r_kind r < n /\
       forall d, In d (r_deps r) -> r_kind r <= fst d /\ exists r', In r' (o_queue s ++ o_arena s) /\ rid_of r' = d) /\
    (forall r d, In r (o_arena s) -> In d (r_deps r) ->
       live s d = true \/ exists r', In r' (o_queue s) /\ rid_of r' = d /\ o_pc s <= fst d).

  Lemma oinv_init : OInv ost_init.
  Proof. unfold OInv, ost_init; cbn. split; [lia|]. split; intros; contradiction. Qed.

  Lemma oinv_step s o : OInv s -> OInv (ostep_run n users_first s o).
  Proof.
    intros (Hpc & Hwf & Hdep). destruct o as [r0| |]; cbn [ostep_run].
    - (* G_add *)
      destruct (add_ok n users_first s r0) eqn:Eok; [|exact (conj Hpc (conj Hwf Hdep))].
      unfold add_ok in Eok. rewrite !andb_true_iff in Eok. destruct Eok as [[Ek _] Edeps].
      apply Nat.ltb_lt in Ek. rewrite forallb_forall in Edeps.
      unfold OInv; cbn [o_queue o_arena o_pc]. split; [exact Hpc|]. split.
      + intros r Hr. rewrite <- app_assoc in Hr. rewrite in_app_iff in Hr.
        assert (Hext : forall d, (exists r', In r' (o_queue s ++ o_arena s) /\ rid_of r' = d) ->
                                 exists r', In r' ((o_queue s ++ [r0]) ++ o_arena s) /\ rid_of r' = d).
        { intros d [r' [Hr' E]]. exists r'. split; [|exact E]. rewrite in_app_iff in Hr'. rewrite !in_app_iff. tauto. }
        destruct Hr as [Hr|Hr].
        * destruct (Hwf r) as [K D]; [rewrite in_app_iff; tauto|]. split; [exact K|]. intros d Hd.
          destruct (D d Hd) as [L X]. split; [exact L|]. apply Hext; exact X.
        * cbn [app] in Hr. destruct Hr as [<-|Hr].
          -- split; [exact Ek|]. intros d Hd. specialize (Edeps d Hd). rewrite andb_true_iff in Edeps.
             destruct Edeps as [Kn Ok]. unfold users_first in Ok. apply Nat.leb_le in Ok. split; [exact Ok|].
             apply Hext. apply known_iff. exact Kn.
          -- destruct (Hwf r) as [K D]; [rewrite in_app_iff; tauto|]. split; [exact K|]. intros d Hd.
             destruct (D d Hd) as [L X]. split; [exact L|]. apply Hext; exact X.
      + intros r d Hr Hd. destruct (Hdep r d Hr Hd) as [L|[r' [Hr' [E P]]]].
        * left. apply live_iff. apply live_iff in L. exact L.
        * right. exists r'. rewrite in_app_iff. tauto.
    - (* A_drain *)
      destruct (o_pc s <? n) eqn:Epc; [|exact (conj Hpc (conj Hwf Hdep))]. apply Nat.ltb_lt in Epc.
      set (k := o_pc s) in *.
      assert (Hmem : forall r, In r (filter (fun r => negb (r_kind r =? k)) (o_queue s) ++ o_arena s ++ filter (fun r => r_kind r =? k) (o_queue s))
                               <-> In r (o_queue s ++ o_arena s)).
      { intro r. rewrite !in_app_iff, !filter_In. destruct (r_kind r =? k); cbn; tauto. }
      unfold OInv; cbn [o_queue o_arena o_pc]. split; [lia|]. split.
      + intros r Hr. apply Hmem in Hr. destruct (Hwf r Hr) as [K D]. split; [exact K|]. intros d Hd.
        destruct (D d Hd) as [L [r' [Hr' E]]]. split; [exact L|]. exists r'. split; [apply Hmem; exact Hr'|exact E].
      + intros r d Hr Hd. rewrite in_app_iff, filter_In in Hr.
        (* where is d's resource? *)
        assert (Hcase : (exists r', In r' (o_arena s) /\ rid_of r' = d) \/
                        (exists r', In r' (o_queue s) /\ rid_of r' = d /\ k <= fst d)).
        { destruct Hr as [Hr|[Hr Ek]].
          - destruct (Hdep r d Hr Hd) as [L|X]; [left; apply live_iff; exact L|right; exact X].
          - apply Nat.eqb_eq in Ek. destruct (Hwf r) as [_ D]; [rewrite in_app_iff; tauto|].
            destruct (D d Hd) as [L [r' [Hr' E]]]. rewrite in_app_iff in Hr'. destruct Hr' as [Hq|Ha].
            + right. exists r'. repeat split; [exact Hq|exact E|lia].
            + left. exists r'. tauto. }
        destruct Hcase as [[r' [Ha E]]|[r' [Hq [E P]]]].
        * left. apply live_iff. exists r'. cbn [o_arena]. rewrite in_app_iff. tauto.
        * assert (Kd : r_kind r' = fst d) by (rewrite <- E; reflexivity).
          destruct (Nat.eq_dec (fst d) k) as [Eq|Ne].
          -- left. apply live_iff. exists r'. cbn [o_arena]. split; [|exact E]. rewrite in_app_iff, filter_In. right.
             split; [exact Hq|]. apply Nat.eqb_eq. lia.
          -- right. exists r'. rewrite filter_In. repeat split; [exact Hq| |exact E|lia].
             apply negb_true_iff, Nat.eqb_neq. lia.
    - (* A_process *)
      destruct (o_pc s =? n) eqn:Epc; [|exact (conj Hpc (conj Hwf Hdep))]. apply Nat.eqb_eq in Epc.
      unfold OInv; cbn [o_queue o_arena o_pc]. split; [lia|]. split; [exact Hwf|].
      intros r d Hr Hd. left. destruct (Hdep r d Hr Hd) as [L|[r' [Hq [E P]]]].
      + apply live_iff. apply live_iff in L. exact L.
      + exfalso. destruct (Hwf r') as [K _]; [rewrite in_app_iff; tauto|].
        assert (Kd : r_kind r' = fst d) by (rewrite <- E; reflexivity). lia.
  Qed.

  Lemma oinv_run sched s : OInv s -> OInv (fold_left (ostep_run n users_first) sched s).
  Proof. revert s; induction sched as [|o sched IH]; cbn [fold_left]; intros s H; [exact H|]. apply IH, oinv_step, H. Qed.

  (** whenever the audio thread has finished draining (is about to process), every reference resolves *)
  Theorem pickup_order_l (sched : list ostep) :
    let s := orun n users_first sched in o_pc s = n -> deps_live s.
  Proof.
    intros s Hpc r d Hr Hd. destruct (oinv_run sched ost_init oinv_init) as (_ & Hwf & Hdep). fold (orun n users_first sched) in Hwf, Hdep. fold s in Hwf, Hdep.
    destruct (Hdep r d Hr Hd) as [L|[r' [Hq [E P]]]]; [exact L|].
    exfalso. destruct (Hwf r') as [K _]; [rewrite in_app_iff; tauto|].
    assert (Kd : r_kind r' = fst d) by (rewrite <- E; reflexivity). lia.
  Qed.
End Inv.

(** Why the order matters.  If send tracks were drained BEFORE sub-tracks (kinds renumbered: send = 0, sub = 1), a
    track routed to a send track created just before it can be live while the send track is still queued: *)
Definition swapped_send : res := {| r_kind := 0; r_id := 7; r_deps := [] |}.
Definition swapped_track : res := {| r_kind := 1; r_id := 8; r_deps := [(0, 7)] |}.
Definition swapped_sched : list ostep :=
  [A_drain (* sends *); G_add swapped_send; G_add swapped_track; A_drain (* sub-tracks: the track goes live *);
   A_drain; A_drain; A_drain; A_drain].
Lemma order_matters_l :
  let s := orun 6 (fun _ _ => true) swapped_sched in
  o_pc s = 6 /\ live s (1, 8) = true /\ live s (0, 7) = false /\ deps_liveb s = false.
Proof. vm_compute. repeat split; reflexivity. Qed.

(** the same schedule with kira's order (the track is kind 0, the send track kind 1): both go live together *)
Definition kira_send : res := {| r_kind := k_send; r_id := 7; r_deps := [] |}.
Definition kira_track : res := {| r_kind := k_sub; r_id := 8; r_deps := [(k_send, 7)] |}.
Lemma order_example_l :
  let s := orun 6 users_first [A_drain; G_add kira_send; G_add kira_track; A_drain; A_drain; A_drain; A_drain; A_drain; A_process;
                               A_drain; A_drain; A_drain; A_drain; A_drain; A_drain] in
  o_pc s = 6 /\ live s (k_sub, 8) = true /\ live s (k_send, 7) = true /\ deps_liveb s = true.
Proof. vm_compute. repeat split; reflexivity. Qed.

(** kira has references against the order too (a modulator's or listener's tween may wait for a clock, which is
    drained earlier): there the referrer can be live one callback before the clock; a tween just keeps waiting
    (C05 [event_buffer]), a SOUND would be cancelled — which is why sounds are drained before clocks. *)
Definition late_clock : res := {| r_kind := k_clock; r_id := 1; r_deps := [] |}.
Definition early_mod : res := {| r_kind := k_mod; r_id := 2; r_deps := [(k_clock, 1)] |}.
Lemma against_the_order_l :
  let s := orun 6 (fun _ _ => true) [A_drain; A_drain; A_drain; A_drain; G_add late_clock; G_add early_mod; A_drain; A_drain] in
  o_pc s = 6 /\ live s (k_mod, 2) = true /\ live s (k_clock, 1) = false.
Proof. vm_compute. repeat split; reflexivity. Qed.
