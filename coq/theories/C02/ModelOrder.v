(** C02 — the pick-up order of [Renderer::on_start_processing] (backend/renderer.rs, backend/resources/mixer.rs).

    Every resource storage hands new resources from the caller's thread to the audio thread through its own
    queue; [on_start_processing] drains the queues one storage after the other ("pop until empty"):

      0  mixer.sub_tracks (and, inside each track's on_start_processing, its sounds and nested tracks)
      1  mixer.send_tracks
      2  the main track's sounds
      3  clocks          4  listeners          5  modulators

    A resource may refer to resources created before it: a track routes to send tracks, a sound or a tween
    waits for a clock, a spatial track names a listener, a parameter follows a modulator.  The caller creates
    the referenced resource FIRST (it needs its id / handle), but the two travel through different queues, and the
    caller runs concurrently with the drains.  The model: kinds are numbered by their position in the drain
    order; the caller's steps ([G_add]) and the audio thread's steps ([A_drain], [A_process]) interleave freely. *)
From Coq Require Import List Arith Bool PeanoNat Lia.
Import ListNotations.

Definition rid := (nat * nat)%type.                    (* kind (= drain position), id *)
Record res := { r_kind : nat; r_id : nat; r_deps : list rid }.
Definition rid_of (r : res) : rid := (r_kind r, r_id r).

Record ost := { o_queue : list res; o_arena : list res; o_pc : nat }.
Definition ost_init : ost := {| o_queue := []; o_arena := []; o_pc := 0 |}.

Inductive ostep :=
| G_add (r : res)        (* caller: controller.insert / new_resource_producer.push *)
| A_drain                (* audio thread: the next storage's remove_and_add (pop until empty) *)
| A_process.             (* audio thread: all storages drained; Renderer::process runs on this state *)

Definition rid_eqb (a b : rid) : bool := (fst a =? fst b) && (snd a =? snd b).
Definition known (s : ost) (d : rid) : bool :=
  existsb (fun r => rid_eqb (rid_of r) d) (o_queue s ++ o_arena s).
Definition live (s : ost) (d : rid) : bool := existsb (fun r => rid_eqb (rid_of r) d) (o_arena s).

Section Order.
  (** [n] storages; [dep_ok ku kd]: may a resource of kind [ku] refer to one of kind [kd]? *)
  Variable n : nat.
  Variable dep_ok : nat -> nat -> bool.

  (** program order: a resource can only refer to resources that already exist (the caller holds their ids) *)
  Definition add_ok (s : ost) (r : res) : bool :=
    (r_kind r <? n) && negb (known s (rid_of r))
    && forallb (fun d => known s d && dep_ok (r_kind r) (fst d)) (r_deps r).

  Definition ostep_run (s : ost) (o : ostep) : ost :=
    match o with
    | G_add r =>
        if add_ok s r then {| o_queue := o_queue s ++ [r]; o_arena := o_arena s; o_pc := o_pc s |} else s
    | A_drain =>
        if o_pc s <? n then
          {| o_queue := filter (fun r => negb (r_kind r =? o_pc s)) (o_queue s);
             o_arena := o_arena s ++ filter (fun r => r_kind r =? o_pc s) (o_queue s);
             o_pc := S (o_pc s) |}
        else s
    | A_process =>
        if o_pc s =? n then {| o_queue := o_queue s; o_arena := o_arena s; o_pc := 0 |} else s
    end.
  Definition orun (sched : list ostep) : ost := fold_left ostep_run sched ost_init.

  (** what [Renderer::process] needs: every live resource finds everything it refers to *)
  Definition deps_live (s : ost) : Prop :=
    forall r d, In r (o_arena s) -> In d (r_deps r) -> live s d = true.
  Definition deps_liveb (s : ost) : bool :=
    forallb (fun r => forallb (live s) (r_deps r)) (o_arena s).
End Order.

(** kira's kinds *)
Definition k_sub := 0.  Definition k_send := 1.  Definition k_mainsound := 2.
Definition k_clock := 3.  Definition k_listener := 4.  Definition k_mod := 5.
(** references whose target must be live in the same callback: users are drained BEFORE what they refer to *)
Definition users_first (ku kd : nat) : bool := ku <=? kd.
