(** C02 — buffer lemmas (no algebraic law about the frame arithmetic is used anywhere). *)
From Coq Require Import List Arith Bool PeanoNat Lia.
From KV Require Import C02.Model.
Import ListNotations.

Section L.
  Variable O : ops.
  Local Notation F := (tF O).

  Lemma zeros_len n : length (zeros O n) = n.
  Proof. apply repeat_length. Qed.
  Lemma fill_zero_len (l : list F) : length (fill_zero O l) = length l.
  Proof. apply map_length. Qed.
  Lemma fill_zero_zeros (l : list F) : fill_zero O l = zeros O (length l).
  Proof. induction l as [|x l IH]; cbn; [reflexivity|]. unfold fill_zero, zeros in *. cbn. now rewrite IH. Qed.
  Lemma zeros_app n k : zeros O n ++ zeros O k = zeros O (n + k).
  Proof. unfold zeros. now rewrite repeat_app. Qed.
  Lemma firstn_zeros m b : m <= b -> firstn m (zeros O b) = zeros O m.
  Proof.
    intros H. replace b with (m + (b - m)) by lia. rewrite <- zeros_app.
    rewrite firstn_app, zeros_len, Nat.sub_diag, firstn_O, app_nil_r.
    rewrite firstn_all2; [reflexivity | rewrite zeros_len; lia].
  Qed.
  Lemma skipn_zeros m b : skipn m (zeros O b) = zeros O (b - m).
  Proof.
    unfold zeros. revert b. induction m as [|m IH]; intros b; cbn.
    - now rewrite Nat.sub_0_r.
    - destruct b; cbn; [reflexivity | apply IH].
  Qed.

  Lemma add_into_len (a b : list F) : length (add_into O a b) = length a.
  Proof. revert b. induction a as [|x a IH]; intros [|y b]; cbn; auto. Qed.
  Lemma add_into_app_r (a x r : list F) : length a <= length x -> add_into O a (x ++ r) = add_into O a x.
  Proof.
    revert x. induction a as [|y a IH]; intros [|z x] H; cbn in *; try reflexivity; try lia.
    f_equal. apply IH. lia.
  Qed.
  Lemma add_into_app_l (a r v : list F) : length v <= length a -> add_into O (a ++ r) v = add_into O a v ++ r.
  Proof.
    revert v. induction a as [|y a IH]; intros [|z v] H; cbn in *; try reflexivity; try lia.
    - destruct r; reflexivity.
    - f_equal. apply IH. lia.
  Qed.
  Lemma add_into_nil_r (a : list F) : add_into O a [] = a.
  Proof. destruct a; reflexivity. Qed.
  Lemma firstn_add_into m (a v : list F) : firstn m (add_into O a v) = add_into O (firstn m a) v.
  Proof.
    revert a v. induction m as [|m IH]; intros a v; cbn; [reflexivity|].
    destruct a as [|x a]; cbn; [reflexivity|]. destruct v as [|y v]; cbn; [reflexivity|]. now rewrite IH.
  Qed.
  Lemma add_into_firstn (a x : list F) : add_into O a x = add_into O a (firstn (length a) x).
  Proof. revert x. induction a as [|y a IH]; intros [|z x]; cbn; try reflexivity. f_equal. apply IH. Qed.
  Lemma add_into_app (a1 a2 b1 b2 : list F) :
    length a1 = length b1 -> add_into O (a1 ++ a2) (b1 ++ b2) = add_into O a1 b1 ++ add_into O a2 b2.
  Proof.
    revert b1. induction a1 as [|x a1 IH]; intros [|y b1] H; cbn in *; try discriminate; [reflexivity|].
    f_equal. apply IH. lia.
  Qed.
  Lemma add_scaled_spec (inp src : list F) g : add_scaled O inp src g = add_into O inp (vscale O src g).
  Proof. revert src. induction inp as [|x inp IH]; intros [|y src]; cbn; try reflexivity. f_equal. apply IH. Qed.
  Lemma vscale_len (v : list F) g : length (vscale O v g) = length v.
  Proof. apply map_length. Qed.
  Lemma vscale_app (a b : list F) g : vscale O (a ++ b) g = vscale O a g ++ vscale O b g.
  Proof. apply map_app. Qed.

  Lemma fit_len n (o : list F) : length (fit O n o) = n.
  Proof. unfold fit. rewrite app_length, firstn_length, zeros_len. lia. Qed.
  Lemma fit_id n (o : list F) : length o = n -> fit O n o = o.
  Proof.
    intros H. unfold fit. rewrite firstn_all2 by lia. rewrite H, Nat.sub_diag. cbn. apply app_nil_r.
  Qed.
  Lemma mapi_from_len {A B} k (f : nat -> A -> B) l : length (mapi_from k f l) = length l.
  Proof. revert k. induction l as [|x l IH]; intros k; cbn; auto. Qed.
  Lemma mapi_len {A B} (f : nat -> A -> B) l : length (mapi f l) = length l.
  Proof. apply mapi_from_len. Qed.
  Lemma mapi_from_app {A B} k (f : nat -> A -> B) l1 l2 :
    mapi_from k f (l1 ++ l2) = mapi_from k f l1 ++ mapi_from (k + length l1) f l2.
  Proof.
    revert k. induction l1 as [|x l1 IH]; intros k; cbn.
    - now rewrite Nat.add_0_r.
    - rewrite IH. do 3 f_equal. lia.
  Qed.
  Lemma mapi_from_const {A B} k (f : nat -> A -> B) (g : A -> B) l :
    (forall i x, f i x = g x) -> mapi_from k f l = map g l.
  Proof. intros H. revert k. induction l as [|x l IH]; intros k; cbn; [reflexivity|]. now rewrite H, IH. Qed.
  Lemma mapi_from_ext {A B} k (f g : nat -> A -> B) l :
    (forall i x, f i x = g i x) -> mapi_from k f l = mapi_from k g l.
  Proof. intros H. revert k. induction l as [|x l IH]; intros k; cbn; [reflexivity|]. now rewrite H, IH. Qed.
  Lemma nth_mapi_from {A B} k (f : nat -> A -> B) l i d d' :
    i < length l -> nth i (mapi_from k f l) d' = f (k + i) (nth i l d).
  Proof.
    revert k i. induction l as [|x l IH]; intros k i H; cbn in *; [lia|].
    destruct i; [now rewrite Nat.add_0_r|]. rewrite IH by lia. f_equal. lia.
  Qed.

  Lemma snd_call_len env s n : length (snd (snd_call O env s n)) = n.
  Proof. unfold snd_call. destruct (o_snd O env s n) as [s' o]. cbn. apply fit_len. Qed.
  Lemma fx_call_len env e xs : length (snd (fx_call O env e xs)) = length xs.
  Proof. unfold fx_call. destruct (o_fx O env e xs) as [e' o]. cbn. apply fit_len. Qed.
  Lemma effects_process_len env fx out : length (snd (effects_process O env fx out)) = length out.
  Proof.
    revert out. induction fx as [|e fx IH]; intros out; cbn; [reflexivity|].
    pose proof (fx_call_len env e out) as H. destruct (fx_call O env e out) as [e' o1]. cbn in H.
    specialize (IH o1). destruct (effects_process O env fx o1) as [r' outf]. cbn in *. congruence.
  Qed.
  Lemma apply_gain_len c (l : list F) : length (apply_gain O c l) = length l.
  Proof. apply mapi_len. Qed.
  Lemma apply_spat_len c (l : list F) : length (apply_spat O c l) = length l.
  Proof. apply mapi_len. Qed.
  Lemma spec_sounds_len env snds m acc : length (snd (spec_sounds O env snds m acc)) = length acc.
  Proof.
    revert acc. induction snds as [|s r IH]; intros acc; cbn; [reflexivity|].
    destruct (snd_call O env s m) as [s' o]. specialize (IH (vadd O acc o)).
    destruct (spec_sounds O env r m (vadd O acc o)) as [r' accf]. cbn in *. rewrite IH. apply add_into_len.
  Qed.

  (** the chunk sizes of one callback *)
  Lemma chunk_sizes_fuel_spec fuel b n :
    1 <= b -> n <= fuel ->
    Forall (fun m => 1 <= m <= b) (chunk_sizes_fuel fuel b n) /\ list_sum (chunk_sizes_fuel fuel b n) = n.
  Proof.
    intros Hb. revert n. induction fuel as [|f IH]; intros n Hn; cbn.
    - split; [constructor | lia].
    - destruct (Nat.eqb_spec n 0) as [->|Hz]; [split; [constructor | reflexivity]|].
      destruct (Nat.leb_spec n b) as [Hle|Hgt].
      + split; [repeat constructor; lia | unfold list_sum; cbn; lia].
      + destruct (IH (n - b)) as [H1 H2]; [lia|]. split; [constructor; [lia | exact H1] | unfold list_sum in *; cbn; lia].
  Qed.
  Lemma chunk_sizes_spec b n :
    1 <= b -> Forall (fun m => 1 <= m <= b) (chunk_sizes b n) /\ list_sum (chunk_sizes b n) = n.
  Proof. intros Hb. apply chunk_sizes_fuel_spec; [exact Hb | lia]. Qed.
End L.
