(** C02 — the closed form of the mixer output over any commutative semiring (no effects, no
    spatialisation): the sentence of the track documentation as a formula. *)
From Coq Require Import List Arith Bool PeanoNat Lia Ring Ring_theory Reals.
From KV Require Import C02.Model C02.ProofsList C02.ProofsRefine.
Import ListNotations.

Section Closed.
  Variable A : Type.
  Variables (rO rI : A) (radd rmul : A -> A -> A).
  Hypothesis SR : semi_ring_theory rO rI radd rmul eq.
  Add Ring Aring : SR.
  Variables (TI TSS TES TCS TO : Type).
  Variable snd_proc : TI -> TSS -> nat -> TSS * list A.
  Variable fx_proc : TI -> TES -> list A -> TES * list A.
  Variable ctl_env : TCS -> TI -> TI.
  Variable ctl_step : TI -> TCS -> nat -> TCS * tctl A A.
  Variable res_step : TI -> nat -> TI.
  Variable out_frame : nat -> A -> list TO.
  Definition semiring_ops : ops :=
    Build_ops A A TI TSS TES TCS TO rO radd rmul snd_proc fx_proc ctl_env ctl_step res_step out_frame.
  Local Notation O := semiring_ops.
  Hypothesis spat_id : forall env cs n i x, c_spat (snd (ctl_step env cs n)) i x = x.

  (** a term of the sum: a sound's signal and the gains it passes through *)
  Definition term := (list A * list (nat -> A))%type.
  Definition prodg (i : nat) (gs : list (nat -> A)) : A := fold_right (fun g acc => rmul (g i) acc) rI gs.
  Definition eval_term (i : nat) (t : term) : A := rmul (nth i (fst t) rO) (prodg i (snd t)).
  Definition sum_terms (i : nat) (ts : list term) : A := fold_right (fun t acc => radd (eval_term i t) acc) rO ts.
  Definition push_gain (g : nat -> A) (t : term) : term := (fst t, snd t ++ [g]).
  Definition snd_terms (env : TI) (m : nat) (snds : list TSS) : list term :=
    map (fun s => (snd (snd_call O env s m), @nil (nat -> A))) snds.
  Definition indexed (routes : list nat) : list (nat * nat) := combine routes (seq 0 (length routes)).

  (** the sounds below a track with the gains on their path up to and including this track;
      a non-advancing track cuts its whole subtree off *)
  Fixpoint terms (env : TI) (m : nat) (t : strack O) : list term :=
    match t with
    | STrk cs subs snds _ _ =>
        let env' := ctl_env cs env in
        let c := snd (ctl_step env' cs m) in
        if c_adv c then map (push_gain (c_gain c)) (flat_map (terms env' m) subs ++ snd_terms env' m snds) else []
    end.
  (** what reaches the send tracks: for every route at a track u on an advancing path, the terms
      of u (gains up to u) times the route gain *)
  Fixpoint send_terms (env : TI) (m : nat) (t : strack O) : list (nat * term) :=
    match t with
    | STrk cs subs snds fx routes =>
        let env' := ctl_env cs env in
        let c := snd (ctl_step env' cs m) in
        if c_adv c
        then flat_map (send_terms env' m) subs
             ++ flat_map (fun kr => map (fun tm => (fst kr, push_gain (fun _ => c_rgain c (snd kr)) tm))
                                        (terms env m (STrk cs subs snds fx routes))) (indexed routes)
        else []
    end.
  Definition sum_send (k i : nat) (sts : list (nat * term)) : A :=
    fold_right (fun kt acc => if Nat.eqb (fst kt) k then radd (eval_term i (snd kt)) acc else acc) rO sts.

  Definition closed_form (env : TI) (sx : smixer O) (m i : nat) : A :=
    let sts := flat_map (send_terms env m) (sx_subs O sx) in
    rmul (radd (radd (sum_terms i (flat_map (terms env m) (sx_subs O sx)))
                     (fold_right (fun ks acc =>
                                    radd (rmul (sum_send (fst ks) i sts)
                                               (c_gain (snd (ctl_step env (ss_ctl O (snd ks)) m)) i)) acc)
                                 rO (sx_sends O sx)))
               (sum_terms i (snd_terms env m (sm_snds O (sx_main O sx)))))
         (c_gain (snd (ctl_step env (sm_ctl O (sx_main O sx)) m)) i).

  Fixpoint no_fx (t : strack O) : Prop :=
    match t with STrk _ subs _ fx _ => fx = [] /\ fold_right and True (map no_fx subs) end.
  Definition no_fx_mixer (sx : smixer O) : Prop :=
    sm_fx O (sx_main O sx) = [] /\ fold_right and True (map no_fx (sx_subs O sx)) /\
    Forall (fun ks => ss_fx O (snd ks) = []) (sx_sends O sx).

  Ltac norm := change (tF O) with A in *; change (tG O) with A in *.
  Ltac aring := cbn [tF tG o_zero o_add o_scale semiring_ops]; match goal with |- @eq _ ?x ?y => change (@eq A x y) end; ring.

  (** ** pointwise facts *)
  Lemma nth_add_into i (a b : list A) :
    i < length a -> nth i (add_into O a b) rO = radd (nth i a rO) (nth i b rO).
  Proof.
    revert i b. induction a as [|x a IH]; intros i b Hi; cbn in Hi; [lia|].
    destruct b as [|y b]; cbn.
    - destruct i; cbn; aring.
    - destruct i; cbn; [reflexivity | apply IH; lia].
  Qed.
  Lemma nth_zeros i m : nth i (zeros O m) rO = rO.
  Proof. unfold zeros. cbn. revert i. induction m; intros [|i]; cbn; auto. Qed.
  Lemma nth_gain i c (l : list A) : i < length l -> nth i (apply_gain O c l) rO = rmul (nth i l rO) (c_gain c i).
  Proof. intros Hi. unfold apply_gain, mapi. now rewrite (nth_mapi_from 0 _ l i rO rO Hi). Qed.
  Lemma spat_is_id env cs n (l : list A) : apply_spat O (snd (ctl_step env cs n)) l = l.
  Proof.
    unfold apply_spat, mapi. rewrite (mapi_from_const 0 _ (fun x => x)); [apply map_id|].
    intros i x. apply spat_id.
  Qed.
  Lemma nth_vscale i (v : list A) g : nth i (vscale O v g) rO = rmul (nth i v rO) g.
  Proof.
    unfold vscale. cbn. revert i. induction v as [|x v IH]; intros [|i]; cbn; try aring; auto.
  Qed.

  Lemma sum_terms_app i a b : sum_terms i (a ++ b) = radd (sum_terms i a) (sum_terms i b).
  Proof. unfold sum_terms. induction a as [|x a IH]; cbn [app fold_right]; [aring | rewrite IH; aring]. Qed.
  Lemma prodg_snoc i gs g : prodg i (gs ++ [g]) = rmul (prodg i gs) (g i).
  Proof. unfold prodg. induction gs as [|x gs IH]; cbn [app fold_right]; [aring | rewrite IH; aring]. Qed.
  Lemma eval_push i g t : eval_term i (push_gain g t) = rmul (eval_term i t) (g i).
  Proof. unfold eval_term, push_gain. cbn [fst snd]. rewrite prodg_snoc. aring. Qed.
  Lemma sum_terms_push i g ts : sum_terms i (map (push_gain g) ts) = rmul (sum_terms i ts) (g i).
  Proof. unfold sum_terms. induction ts as [|x ts IH]; cbn [map fold_right]; [aring | rewrite IH, eval_push; aring]. Qed.
  Lemma sum_send_app k i a b : sum_send k i (a ++ b) = radd (sum_send k i a) (sum_send k i b).
  Proof.
    unfold sum_send. induction a as [|x a IH]; cbn [app fold_right]; [aring|]. destruct (Nat.eqb (fst x) k); rewrite IH; aring.
  Qed.

  Lemma spec_sounds_closed env snds m acc i :
    i < length acc ->
    nth i (snd (spec_sounds O env snds m acc)) rO = radd (nth i acc rO) (sum_terms i (snd_terms env m snds)).
  Proof.
    revert acc. induction snds as [|s r IH]; intros acc Hi; cbn [spec_sounds snd_terms map sum_terms fold_right].
    - cbn. aring.
    - destruct (snd_call O env s m) as [s' o] eqn:E.
      specialize (IH (vadd O acc o)).
      destruct (spec_sounds O env r m (vadd O acc o)) as [r' accf]. cbn [snd] in *.
      rewrite IH by (unfold vadd; rewrite (add_into_len O); exact Hi).
      unfold vadd. rewrite nth_add_into by exact Hi.
      unfold sum_terms, snd_terms, eval_term. cbn [fst snd prodg fold_right map]. aring.
  Qed.

  Lemma recv_app k em1 em2 (acc : list A) : recv O k (em1 ++ em2) acc = recv O k em2 (recv O k em1 acc).
  Proof. unfold recv. apply fold_left_app. Qed.

  Lemma emit_from_indexed r routes rg (z : list A) :
    emit_from O r routes rg z = map (fun kr => (fst kr, vscale O z (rg (snd kr)))) (combine routes (seq r (length routes))).
  Proof.
    revert r. induction routes as [|k rest IH]; intros r; cbn; [reflexivity|]. now rewrite IH.
  Qed.

  (** ** a track *)
  Definition track_closed (m : nat) (t : strack O) : Prop :=
    forall env,
      (forall i, i < m -> nth i (snd (fst (spec_track O env m t))) rO = sum_terms i (terms env m t)) /\
      (forall k acc i, i < length acc ->
         nth i (recv O k (snd (spec_track O env m t)) acc) rO
         = radd (nth i acc rO) (sum_send k i (send_terms env m t))).

  Lemma subs_closed m env l :
    Forall (track_closed m) l ->
    forall acc, length acc = m ->
      (forall i, i < m ->
         nth i (snd (fst (spec_subs O (spec_track O env m) l acc))) rO
         = radd (nth i acc rO) (sum_terms i (flat_map (terms env m) l))) /\
      (forall k a i, i < length a ->
         nth i (recv O k (snd (spec_subs O (spec_track O env m) l acc)) a) rO
         = radd (nth i a rO) (sum_send k i (flat_map (send_terms env m) l))).
  Proof.
    induction 1 as [|t l Ht HF IH]; intros acc Hacc; cbn [spec_subs flat_map].
    - split; intros; cbn; aring.
    - destruct (Ht env) as [H1 H2].
      destruct (spec_track O env m t) as [[t' sig] em0]. cbn [fst snd] in *.
      destruct (IH (vadd O acc sig)) as [I1 I2]; [unfold vadd; now rewrite (add_into_len O)|].
      destruct (spec_subs O (spec_track O env m) l (vadd O acc sig)) as [[l'' accf] em']. cbn [fst snd] in *.
      split.
      + intros i Hi. rewrite I1 by exact Hi.
        unfold vadd. rewrite nth_add_into by (eapply Nat.lt_le_trans; [exact Hi | apply Nat.eq_le_incl; symmetry; exact Hacc]). rewrite sum_terms_app, H1 by exact Hi. aring.
      + intros k a i Hi. rewrite recv_app, I2 by (rewrite (recv_len O); exact Hi).
        rewrite H2 by exact Hi. rewrite sum_send_app. aring.
  Qed.

  Lemma recv_emit k (z : list A) rg (kts : list (nat * nat)) (ts : list term) a i :
    i < length a ->
    (nth i z rO = sum_terms i ts) ->
    nth i (recv O k (map (fun kr => (fst kr, vscale O z (rg (snd kr)))) kts) a) rO
    = radd (nth i a rO)
           (sum_send k i (flat_map (fun kr => map (fun tm => (fst kr, push_gain (fun _ => rg (snd kr)) tm)) ts) kts)).
  Proof.
    intros Hi Hz. revert a Hi. induction kts as [|[k' r] kts IH]; intros a Hi; cbn [map flat_map].
    - cbn. aring.
    - unfold recv in *. cbn [fold_left fst snd]. rewrite sum_send_app.
      destruct (Nat.eqb k' k) eqn:E.
      + rewrite IH by (rewrite (add_into_len O); exact Hi). rewrite nth_add_into by exact Hi.
        rewrite nth_vscale, Hz.
        assert (G : sum_send k i (map (fun tm => (k', push_gain (fun _ => rg r) tm)) ts) = rmul (sum_terms i ts) (rg r)).
        { clear - E SR. unfold sum_send, sum_terms. induction ts as [|x ts IHt]; cbn [map fold_right fst snd]; [aring|]. rewrite E, IHt, eval_push. aring. }
        rewrite G. aring.
      + rewrite IH by exact Hi.
        assert (G : sum_send k i (map (fun tm => (k', push_gain (fun _ => rg r) tm)) ts) = rO).
        { clear - E. unfold sum_send. induction ts as [|x ts IHt]; cbn [map fold_right fst snd]; [reflexivity|]. now rewrite E. }
        rewrite G. aring.
  Qed.

  Lemma track_closed_all m : forall t, no_fx t -> track_closed m t.
  Proof.
    apply (strack_ind' O (fun t => no_fx t -> track_closed m t)).
    intros cs subs snds fx routes HF [Hfx Hsubs] env. subst fx.
    assert (HF' : Forall (track_closed m) subs).
    { clear - HF Hsubs. induction HF as [|x l Hx HF IH]; cbn in *; constructor; [apply Hx | apply IH]; tauto. }
    cbn [spec_track terms send_terms].
    change (o_env O) with ctl_env. change (o_ctl O) with ctl_step.
    pose proof (spat_is_id (ctl_env cs env) cs m) as Hsp.
    destruct (ctl_step (ctl_env cs env) cs m) as [cs' c]. cbn [fst snd] in *.
    change (tF O) with A in *; change (tG O) with A in *.
    destruct (c_adv c).
    2:{ split; [intros i Hi; cbn [fst snd]; apply nth_zeros | intros k a i Hi; unfold recv, sum_send; cbn [fst snd fold_left fold_right]; aring]. }
    destruct (subs_closed m (ctl_env cs env) subs HF' (zeros O m) (zeros_len O m)) as [S1 S2].
    pose proof (spec_subs_len O (ctl_env cs env) m subs (zeros O m)) as Hl1. rewrite (zeros_len O) in Hl1.
    destruct (spec_subs O (spec_track O (ctl_env cs env) m) subs (zeros O m)) as [[subs' acc1] em1].
    cbn [fst snd] in *.
    pose proof (fun i => spec_sounds_closed (ctl_env cs env) snds m acc1 i) as H2.
    pose proof (spec_sounds_len O (ctl_env cs env) snds m acc1) as Hl2.
    destruct (spec_sounds O (ctl_env cs env) snds m acc1) as [snds' acc2]. cbn [fst snd effects_process] in *.
    rewrite Hsp. norm.
    set (ts := map (push_gain (c_gain c)) (flat_map (terms (ctl_env cs env) m) subs ++ snd_terms (ctl_env cs env) m snds)) in *.
    assert (Hz : forall i, i < m -> nth i (apply_gain O c acc2) rO = sum_terms i ts).
    { intros i Hi. subst ts. rewrite nth_gain by lia. rewrite H2 by lia. rewrite S1 by exact Hi.
      rewrite nth_zeros, sum_terms_push, sum_terms_app. aring. }
    split.
    - exact Hz.
    - intros k a i Hi. rewrite recv_app, emit_from_indexed. fold (indexed routes).
      destruct (Nat.lt_ge_cases i m) as [Him|Him].
      + rewrite (recv_emit k _ (c_rgain c) (indexed routes) ts _ i); [| rewrite (recv_len O); exact Hi | apply Hz; exact Him].
        rewrite S2 by exact Hi. rewrite sum_send_app. aring.
      + (* beyond the chunk: both the signal and every term are 0 there *)
        rewrite (recv_emit k _ (c_rgain c) (indexed routes) [] _ i); [| rewrite (recv_len O); exact Hi |].
        2:{ rewrite nth_overflow; [reflexivity | rewrite (apply_gain_len O); norm; lia]. }
        rewrite S2 by exact Hi. rewrite sum_send_app.
        assert (Z : forall (kts : list (nat * nat)) f, sum_send k i (flat_map (fun kr => map (f kr) (@nil term)) kts) = rO).
        { induction kts as [|x kts IHk]; intros f; cbn [flat_map map app]; [reflexivity | exact (IHk f)]. }
        rewrite Z.
        assert (Z2 : forall kts ts0, (forall t, In t ts0 -> length (fst t) <= i) ->
                       sum_send k i (flat_map (fun kr : nat * nat => map (fun tm => (fst kr, push_gain (fun _ => c_rgain c (snd kr)) tm)) ts0) kts) = rO).
        { induction kts as [|x kts IHk]; intros ts0 Hts; cbn [flat_map]; [reflexivity|]. rewrite sum_send_app, IHk by exact Hts.
          assert (Z3 : sum_send k i (map (fun tm => (fst x, push_gain (fun _ => c_rgain c (snd x)) tm)) ts0) = rO).
          { unfold sum_send in *. induction ts0 as [|y ts0 IHt]; cbn [map fold_right fst snd]; [reflexivity|].
            rewrite IHt by (intros; apply Hts; now right).
            destruct (Nat.eqb (fst x) k); [|reflexivity].
            unfold eval_term. cbn [fst snd push_gain]. rewrite nth_overflow by (apply Hts; now left). aring. }
          rewrite Z3. aring. }
        rewrite Z2; [aring|].
        intros t Hin. apply in_map_iff in Hin. destruct Hin as [t0 [<- Hin]]. cbn [fst push_gain].
        apply in_app_or in Hin. destruct Hin as [Hin|Hin].
        * (* a term of a sub-track: its signal is a sound output of length m *)
          clear - Hin Him. revert Hin. generalize (ctl_env cs env) as e. intros e Hin.
          apply in_flat_map in Hin. destruct Hin as [u [_ Hu]].
          revert e t0 Hu.
          apply (strack_ind' O (fun u => forall e t0, In t0 (terms e m u) -> length (fst t0) <= i)).
          intros cs0 su sn fx0 ro HF0 e t0 Hu. cbn [terms] in Hu.
          destruct (c_adv (snd (ctl_step (ctl_env cs0 e) cs0 m))); [|destruct Hu].
          apply in_map_iff in Hu. destruct Hu as [t1 [<- Hu]]. cbn [fst push_gain].
          apply in_app_or in Hu. destruct Hu as [Hu|Hu].
          -- apply in_flat_map in Hu. destruct Hu as [u' [Hin' Hu']].
             rewrite Forall_forall in HF0. eapply HF0; eassumption.
          -- unfold snd_terms in Hu. apply in_map_iff in Hu. destruct Hu as [s [<- _]]. cbn [fst].
             rewrite (snd_call_len O). exact Him.
        * unfold snd_terms in Hin. apply in_map_iff in Hin. destruct Hin as [s [<- _]]. cbn [fst].
          rewrite (snd_call_len O). exact Him.
  Qed.

  Theorem closed_form_holds (env : TI) (sx : smixer O) (m i : nat) :
    no_fx_mixer sx -> i < m ->
    nth i (snd (spec_mix O env sx m)) rO = closed_form env sx m i.
  Proof.
    intros (Hm & Hs & Hsd) Hi. unfold spec_mix, closed_form.
    assert (HF : Forall (track_closed m) (sx_subs O sx)).
    { clear - Hs SR spat_id. induction (sx_subs O sx) as [|x l IH]; cbn in *; constructor;
        [apply track_closed_all | apply IH]; tauto. }
    destruct (subs_closed m env (sx_subs O sx) HF (zeros O m) (zeros_len O m)) as [S1 S2].
    pose proof (spec_subs_len O env m (sx_subs O sx) (zeros O m)) as Hl1. rewrite (zeros_len O) in Hl1.
    destruct (spec_subs O (spec_track O env m) (sx_subs O sx) (zeros O m)) as [[subs' acc1] em].
    cbn [fst snd] in *.
    (* sends *)
    assert (HS : forall acc, length acc = m ->
              nth i (snd (spec_sends O env m em (sx_sends O sx) acc)) rO =
              radd (nth i acc rO)
                   (fold_right (fun ks a => radd (rmul (sum_send (fst ks) i (flat_map (send_terms env m) (sx_subs O sx)))
                                                       (c_gain (snd (ctl_step env (ss_ctl O (snd ks)) m)) i)) a) rO (sx_sends O sx))).
    { induction Hsd as [|[k s] l Hfx Hsd IH]; intros acc Hacc; cbn [spec_sends fold_right]; [cbn; aring|].
      cbn [snd] in Hfx. unfold spec_send. rewrite send_input_recv, (recv_len O), (zeros_len O), Hfx.
      change (o_ctl O) with ctl_step. cbn [effects_process fst snd].
      destruct (ctl_step env (ss_ctl O s) m) as [cs' c]. cbn [fst snd].
      specialize (IH (vadd O acc (apply_gain O c (vadd O (zeros O m) (recv O k em (zeros O m)))))).
      destruct (spec_sends O env m em l _) as [l'' accf]. cbn [fst snd] in *.
      rewrite IH by (unfold vadd; now rewrite (add_into_len O)).
      unfold vadd. rewrite nth_add_into by (norm; lia).
      rewrite nth_gain by (rewrite (add_into_len O), (zeros_len O); exact Hi).
      rewrite nth_add_into by (rewrite (zeros_len O); exact Hi).
      rewrite S2 by (rewrite (zeros_len O); exact Hi). rewrite !nth_zeros. aring. }
    specialize (HS acc1 Hl1).
    pose proof (spec_sends_len O env m em (sx_sends O sx) acc1) as Hl2.
    destruct (spec_sends O env m em (sx_sends O sx) acc1) as [sends' acc2]. cbn [fst snd] in *.
    unfold spec_main. rewrite Hm. change (o_ctl O) with ctl_step.
    destruct (ctl_step env (sm_ctl O (sx_main O sx)) m) as [cs' c]. cbn [fst snd].
    pose proof (spec_sounds_closed env (sm_snds O (sx_main O sx)) m acc2 i) as H2.
    pose proof (spec_sounds_len O env (sm_snds O (sx_main O sx)) m acc2) as Hl3.
    destruct (spec_sounds O env (sm_snds O (sx_main O sx)) m acc2) as [snds' acc3]. cbn [fst snd effects_process] in *.
    norm. rewrite nth_gain by (norm; lia). rewrite H2 by (norm; lia). rewrite HS. rewrite S1 by exact Hi. rewrite nth_zeros. aring.
  Qed.
End Closed.

Lemma R_semi_ring : semi_ring_theory 0%R 1%R Rplus Rmult eq.
Proof. constructor; intros; ring. Qed.
Definition closed_form_holds_R := closed_form_holds R 0%R 1%R Rplus Rmult R_semi_ring.
