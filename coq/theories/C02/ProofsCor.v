(** C02 — corollaries of the refinement: clean buffers, paused branches, post-fader sends,
    histories of callbacks and edits. *)
From Coq Require Import List Arith Bool PeanoNat Lia.
From KV Require Import C02.Model C02.ProofsList C02.ProofsRefine.
Import ListNotations.

Section C.
  Variable O : ops.
  Local Notation F := (tF O).

  Section Ind.
    Variable P : track O -> Prop.
    Hypothesis H : forall cs subs snds fx routes temp, Forall P subs -> P (Trk cs subs snds fx routes temp).
    Fixpoint track_ind' (t : track O) : P t :=
      match t with
      | Trk cs subs snds fx routes temp =>
          H cs subs snds fx routes temp
            ((fix go (l : list (track O)) : Forall P l :=
                match l with
                | [] => Forall_nil P
                | x :: r => Forall_cons x (track_ind' x) (go r)
                end) subs)
      end.
  End Ind.

  (** forgetting the buffers *)
  Fixpoint abs_track (t : track O) : strack O :=
    match t with Trk cs subs snds fx routes _ => STrk cs (map abs_track subs) snds fx routes end.
  Definition abs_send (s : sendtrack O) : ssend O := {| ss_ctl := sd_ctl O s; ss_fx := sd_fx O s |}.
  Definition abs_main (mn : maintrack O) : smain O :=
    {| sm_ctl := mn_ctl O mn; sm_snds := mn_snds O mn; sm_fx := mn_fx O mn |}.
  Definition abs_mixer (mx : mixer O) : smixer O :=
    {| sx_main := abs_main (mx_main O mx); sx_subs := map abs_track (mx_subs O mx);
       sx_sends := map (fun ks => (fst ks, abs_send (snd ks))) (mx_sends O mx) |}.

  (** "every buffer is all zeros of length b": what the builders create
      (`vec![Frame::ZERO; internal_buffer_size]`) and what every `process` leaves behind *)
  Fixpoint clean_track (b : nat) (t : track O) : Prop :=
    match t with
    | Trk _ subs _ _ _ temp => temp = zeros O b /\ fold_right and True (map (clean_track b) subs)
    end.
  Definition clean_mixer (b : nat) (mx : mixer O) : Prop :=
    mx_temp O mx = zeros O b /\ mn_temp O (mx_main O mx) = zeros O b /\
    fold_right and True (map (clean_track b) (mx_subs O mx)) /\
    Forall (fun ks => sd_input O (snd ks) = zeros O b) (mx_sends O mx).
  Definition clean_renderer (b : nat) (r : renderer O) : Prop :=
    r_b O r = b /\ r_temp O r = zeros O b /\ clean_mixer b (r_mixer O r).

  Lemma clean_track_conc b t : clean_track b t -> t = conc_track O b (abs_track t).
  Proof.
    revert t. apply (track_ind' (fun t => clean_track b t -> t = conc_track O b (abs_track t))).
    intros cs subs snds fx routes temp HF [Ht Hs]. cbn. subst temp. f_equal.
    rewrite map_map. induction HF as [|x l Hx HF IH]; cbn in *; [reflexivity|].
    destruct Hs as [H1 H2]. f_equal; auto.
  Qed.
  Lemma conc_track_clean b t : clean_track b (conc_track O b t).
  Proof.
    revert t. apply strack_ind'. intros cs subs snds fx routes HF. cbn. split; [reflexivity|].
    induction HF as [|x l Hx HF IH]; cbn; auto.
  Qed.
  Lemma clean_subs_conc b l : fold_right and True (map (clean_track b) l) -> l = map (conc_track O b) (map abs_track l).
  Proof.
    induction l as [|x l IH]; cbn; [reflexivity|]. intros [H1 H2]. f_equal; [now apply clean_track_conc | auto].
  Qed.
  Lemma clean_mixer_conc b mx : clean_mixer b mx -> mx = conc_mixer O b (abs_mixer mx).
  Proof.
    intros (H1 & H2 & H3 & H4). destruct mx as [mn subs sends temp]. cbn in *. unfold conc_mixer. cbn.
    subst temp. f_equal.
    - destruct mn as [c s f t]. cbn in *. subst t. reflexivity.
    - now apply clean_subs_conc.
    - unfold conc_sends. rewrite map_map. cbn.
      induction H4 as [|[k s] l Hs H4 IH]; cbn; [reflexivity|]. f_equal; [|exact IH].
      destruct s as [c f i]. cbn in *. subst i. reflexivity.
  Qed.
  Lemma conc_mixer_clean b sx : clean_mixer b (conc_mixer O b sx).
  Proof.
    unfold clean_mixer, conc_mixer. cbn. repeat split.
    - induction (sx_subs O sx) as [|x l IH]; cbn; auto using conc_track_clean.
    - unfold conc_sends. apply Forall_forall. intros ks Hin. apply in_map_iff in Hin.
      destruct Hin as [x [<- _]]. reflexivity.
  Qed.
  Lemma clean_renderer_conc b r :
    clean_renderer b r -> r = conc_renderer O b (r_res O r) (abs_mixer (r_mixer O r)).
  Proof.
    intros (H1 & H2 & H3). destruct r as [res mx temp b']. cbn in *. subst. unfold conc_renderer.
    f_equal. now apply clean_mixer_conc.
  Qed.
  Lemma conc_renderer_clean b res sx : clean_renderer b (conc_renderer O b res sx).
  Proof. unfold clean_renderer. cbn. split; [reflexivity|]. split; [reflexivity|]. apply conc_mixer_clean. Qed.
  Lemma abs_conc_keys b sx : map fst (mx_sends O (conc_mixer O b sx)) = map fst (sx_sends O sx).
  Proof. apply conc_sends_keys. Qed.
  Lemma abs_mixer_keys mx : map fst (sx_sends O (abs_mixer mx)) = map fst (mx_sends O mx).
  Proof. unfold abs_mixer. cbn. now rewrite map_map. Qed.

  (** the refinement, stated on clean states *)
  Theorem mixer_refines_clean env b m mx :
    clean_mixer b mx -> m <= b -> NoDup (map fst (mx_sends O mx)) ->
    mixer_process O env mx (zeros O m) =
    (conc_mixer O b (fst (spec_mix O env (abs_mixer mx) m)), snd (spec_mix O env (abs_mixer mx) m)).
  Proof.
    intros Hc Hm ND. rewrite (clean_mixer_conc b mx Hc) at 1.
    apply mixer_refines; [exact Hm | now rewrite abs_mixer_keys].
  Qed.
  (** nothing carries over: whatever was rendered, every buffer is zero again afterwards *)
  Theorem buffers_zero_after env b m mx :
    clean_mixer b mx -> m <= b -> NoDup (map fst (mx_sends O mx)) ->
    clean_mixer b (fst (mixer_process O env mx (zeros O m))).
  Proof. intros Hc Hm ND. rewrite (mixer_refines_clean env b m mx) by assumption. apply conc_mixer_clean. Qed.

  (** a non-advancing track: exact zeros, nothing sent, and the WHOLE subtree (sub-tracks,
      sounds, effects, buffers) is not touched — for any state, any buffer contents *)
  Theorem paused_track_frozen env cs subs snds fx routes temp out S :
    c_adv (snd (o_ctl O (o_env O cs env) cs (length out))) = false ->
    track_process O env (Trk cs subs snds fx routes temp) out S =
    (Trk (fst (o_ctl O (o_env O cs env) cs (length out))) subs snds fx routes temp, zeros O (length out), S).
  Proof.
    intros Hp. cbn. destruct (o_ctl O (o_env O cs env) cs (length out)) as [cs' c]. cbn in *.
    rewrite Hp. now rewrite fill_zero_zeros.
  Qed.
  Theorem paused_branch_silent env m cs subs snds fx routes :
    c_adv (snd (o_ctl O (o_env O cs env) cs m)) = false ->
    spec_track O env m (STrk cs subs snds fx routes) =
    (STrk (fst (o_ctl O (o_env O cs env) cs m)) subs snds fx routes, zeros O m, []).
  Proof.
    intros Hp. cbn. destruct (o_ctl O (o_env O cs env) cs m) as [cs' c]. cbn in *. now rewrite Hp.
  Qed.

  (** sends are post-fader: what a track emits to its routes is its own OUTPUT signal (after
      effects, spatialisation, volume and fade) — the same list its parent adds — times the route gain *)
  Theorem post_fader_sends env m cs subs snds fx routes :
    c_adv (snd (o_ctl O (o_env O cs env) cs m)) = true ->
    let r := spec_track O env m (STrk cs subs snds fx routes) in
    let env' := o_env O cs env in
    snd r = snd (spec_subs O (spec_track O env' m) subs (zeros O m))
            ++ emit_from O 0 routes (c_rgain (snd (o_ctl O env' cs m))) (snd (fst r)).
  Proof.
    intros Hp. cbn. destruct (o_ctl O (o_env O cs env) cs m) as [cs' c]. cbn in *. rewrite Hp.
    destruct (spec_subs O (spec_track O (o_env O cs env) m) subs (zeros O m)) as [[subs' acc1] em1].
    destruct (spec_sounds O (o_env O cs env) snds m acc1) as [snds' acc2].
    destruct (effects_process O (o_env O cs env) fx acc2) as [fx' y]. reflexivity.
  Qed.

  (** ** histories: callbacks interleaved with edits (add / remove tracks, sounds, sends ...).
      An edit is any transformation of the buffer-level state that has a signal-level counterpart
      [g]: [f (conc b s) = conc b (g s)] — i.e. it creates only builder-made (zero) buffers. *)
  Inductive hop :=
  | HCallback (n : nat)
  | HEdit (f : renderer O -> renderer O) (g : tI O * smixer O -> tI O * smixer O).
  Definition edit_ok (b : nat) (h : hop) : Prop :=
    match h with
    | HCallback _ => True
    | HEdit f g =>
        forall st, NoDup (map fst (sx_sends O (snd st))) ->
          f (conc_renderer O b (fst st) (snd st)) = conc_renderer O b (fst (g st)) (snd (g st)) /\
          NoDup (map fst (sx_sends O (snd (g st))))
    end.
  Fixpoint run_hist (ch : nat) (r : renderer O) (h : list hop) : renderer O * list (list (tO O)) :=
    match h with
    | [] => (r, [])
    | HCallback n :: h' =>
        let '(r1, o1) := run_chunks O ch r (chunk_sizes (r_b O r) n) in
        let '(r2, o2) := run_hist ch r1 h' in (r2, o1 :: o2)
    | HEdit f _ :: h' => run_hist ch (f r) h'
    end.
  Fixpoint spec_hist (ch b : nat) (st : tI O * smixer O) (h : list hop) : (tI O * smixer O) * list (list (tO O)) :=
    match h with
    | [] => (st, [])
    | HCallback n :: h' =>
        let '(st1, o1) := spec_chunks O ch st (chunk_sizes b n) in
        let '(st2, o2) := spec_hist ch b st1 h' in (st2, o1 :: o2)
    | HEdit _ g :: h' => spec_hist ch b (g st) h'
    end.
  Theorem history_refines ch b h :
    1 <= b -> Forall (edit_ok b) h ->
    forall st, NoDup (map fst (sx_sends O (snd st))) ->
      run_hist ch (conc_renderer O b (fst st) (snd st)) h =
      (conc_renderer O b (fst (fst (spec_hist ch b st h))) (snd (fst (spec_hist ch b st h))), snd (spec_hist ch b st h)).
  Proof.
    intros Hb HF. induction HF as [|x h Hx HF IH]; intros st ND; [reflexivity|].
    destruct x as [n|f g]; cbn [run_hist spec_hist].
    - cbn [r_b conc_renderer].
      destruct st as [res sx]. cbn [fst snd] in *.
      rewrite chunks_refine; [| | exact ND].
      2:{ destruct (chunk_sizes_spec b n Hb) as [Hc _]. eapply Forall_impl; [|exact Hc]. cbn. intros; lia. }
      pose proof (spec_chunks_keys O ch (res, sx) (chunk_sizes b n)) as Hk.
      destruct (spec_chunks O ch (res, sx) (chunk_sizes b n)) as [[res1 sx1] o1]. cbn [fst snd] in *.
      pose proof (IH (res1, sx1)) as IH1. cbn [fst snd] in IH1. rewrite IH1 by congruence.
      destruct (spec_hist ch b (res1, sx1) h) as [[res2 sx2] o2]. reflexivity.
    - destruct (Hx st ND) as [Hf ND']. rewrite Hf. now apply IH.
  Qed.
End C.
