(** C02 — consequences for the mixer of the concrete control model: a waiting track is frozen and silent,
    a volume commanded while the track is paused is in force at the resume, a branch with a live
    descendant is never torn out; examples (non-vacuity) and counter-models of the seeded readings. *)
From Coq Require Import ZArith QArith List Bool Lia PeanoNat.
From KV Require Import Base.Outcome Base.Num Base.QLemmas C19.Model C06.Model C06.Dur C06.Proofs C06.Proofs2 C03.Model.
From KV Require Import C02.Model C02.ProofsList C02.ProofsRefine C02.ProofsCor C02.ModelCtl C02.ProofsCtl.
Import ListNotations.

Section G.
  Context {T : Type} {NT : Num T} {ND : NumDur T}.
  Variable powf : T -> T -> T.
  Variable V : Type.
  Variable interp : V -> V -> T -> V.
  Variables silence identity : V.
  Variable F : Type.
  Variable G : Type.
  Variable amp : V -> G.
  Variable gmul : G -> G -> G.
  Variable dt : T.

  Notation step := (ctl_step_o powf V interp silence identity F G amp gmul dt).
  Notation pupd := (param_update powf V interp).
  Notation dtl := (dtl dt).

  (** ** one chunk of a track that is waiting to resume: it waits until its start time, then resumes in
      that very chunk; a vanished clock leaves it paused *)
  Lemma waiting_step_l i cs n m st tw vol fv routes f fin st' never :
    k_psm cs = Some m -> ps m = WaitingToResume st tw ->
    pupd (k_vol cs) (dtl n) i = Ok (vol, fv) ->
    routes_update powf V interp (k_routes cs) (dtl n) i = Ok routes ->
    pupd (fade m) (dtl n) i = Ok (f, fin) ->
    stime_update st (dtl n) i = Ok (st', never) ->
    exists c, step i cs n =
      Ok ({| k_id := k_id cs; k_vol := vol; k_routes := routes;
             k_psm := Some (if never then {| ps := Paused; fade := f |}
                            else if is_immediate st'
                                 then {| ps := Resuming; fade := param_set f (Fixed identity) tw |}
                                 else {| ps := WaitingToResume st' tw; fade := f |}) |}, c)
      /\ c_adv c = negb never && is_immediate st'.
  Proof.
    intros Hm Hs Hv Hr Hf Ht. unfold ctl_step_o. unfold ProofsCtl.dtl in *. rewrite Hv. cbn. rewrite Hr. cbn. rewrite Hm.
    unfold psm_update. rewrite Hf. cbn. rewrite Hs. rewrite Ht. cbn.
    destruct never; cbn.
    - eexists. split; reflexivity.
    - destruct (is_immediate st') eqn:E; cbn.
      + eexists. split; reflexivity.
      + eexists. split; reflexivity.
  Qed.

  (** ** the mixer instance *)
  Variables SS ES TO : Type.
  Variable zero : F.
  Variable add : F -> F -> F.
  Variable scale : F -> G -> F.
  Variable snd_proc : info T -> SS -> nat -> SS * list F.
  Variable fx_proc : info T -> ES -> list F -> ES * list F.
  Variable res : info T -> nat -> info T.
  Variable outf : nat -> F -> list TO.
  Notation O := (ctl_ops powf V interp silence identity F G amp gmul dt SS ES TO zero add scale snd_proc fx_proc res outf).

  (** a track whose state after the chunk's update is Paused or WaitingToResume returns exact zeros, feeds
      no send, and nothing beneath it is touched: not its sub-tracks, not its sounds, not its effects,
      not its scratch buffer; only its own control state moves (volume and route parameters included) *)
  Lemma nonadvancing_track_frozen_l (env : info T) cs cs' c m m' subs snds fx routes temp (out : list F) (S : sends_t O) :
    k_psm cs = Some m -> ps m <> Stopped ->
    step env cs (length out) = Ok (cs', c) ->
    k_psm cs' = Some m' -> (ps m' = Paused \/ exists st tw, ps m' = WaitingToResume st tw) ->
    track_process O env (Trk (O := O) (Ok cs) subs snds fx routes temp) out S =
    (Trk (O := O) (Ok cs') subs snds fx routes temp, zeros O (length out), S).
  Proof.
    intros Hm Hn Hs Hm' Hst.
    destruct (ctl_guard_exact_l powf V interp silence identity F G amp gmul dt _ _ _ _ _ _ Hm Hn Hs)
      as [m2 [Hm2 [_ Hiff]]].
    rewrite Hm' in Hm2. injection Hm2 as <-.
    assert (Hadv : c_adv c = false) by (apply Hiff; exact Hst).
    pose proof (paused_track_frozen O env (Ok cs : tCS O) subs snds fx routes temp out S) as P.
    cbn [o_ctl o_env ctl_ops tF] in P. unfold ctl_step in P. cbn [tF ctl_ops] in P. rewrite Hs in P. cbn [snd fst] in P.
    apply P. exact Hadv.
  Qed.
  (** ... and in every other state it renders (the guard is EXACTLY those two states) *)
  Lemma advancing_track_renders_l (env : info T) cs cs' c m m' :
    k_psm cs = Some m -> ps m <> Stopped ->
    step env cs 1 = Ok (cs', c) -> k_psm cs' = Some m' ->
    (ps m' = Playing \/ ps m' = Pausing \/ ps m' = Resuming \/ ps m' = Stopping) -> c_adv c = true.
  Proof.
    intros Hm Hn Hs Hm' Hst.
    destruct (ctl_guard_exact_l powf V interp silence identity F G amp gmul dt _ _ _ _ _ _ Hm Hn Hs)
      as [m2 [Hm2 [_ Hiff]]].
    rewrite Hm' in Hm2. injection Hm2 as <-.
    destruct (c_adv c) eqn:E; [reflexivity|].
    destruct (proj1 Hiff eq_refl) as [H|[st [tw H]]]; rewrite H in Hst;
      destruct Hst as [H1|[H1|[H1|H1]]]; discriminate.
  Qed.
End G.

(** * exact time: a volume (or route volume) commanded while the track is paused follows the tween law all
    the same, so it is in force when the track resumes *)
Section Q.
  Local Open Scope Q_scope.
  Variable powf : Q -> Q -> Q.
  Variables silence identity : Q.
  Variable F : Type.
  Variable G : Type.
  Variable amp : Q -> G.
  Variable gmul : G -> G -> G.
  Variable dt : Q.
  Notation lerpQ := (@lerp Q Num_Q).
  Notation mrunQ := (mrun powf Q lerpQ silence identity F G amp gmul dt).
  Definition chunk_events (l : list (nat * info Q)) : list (mev Q Q) := map (fun '(n, i) => MChunk i n) l.
  Definition chunk_calls (l : list (nat * info Q)) : list (Q * info Q) := map (fun '(n, i) => (dtl dt n, i)) l.

  Lemma vol_view_chunks slot l :
    vol_view Q dt slot (chunk_events l) = updates (chunk_calls l).
  Proof. unfold chunk_events, chunk_calls, updates. induction l as [|[n i] l IH]; cbn; [reflexivity|]. now rewrite IH. Qed.
  Lemma route_view_chunks k slot l :
    route_view Q dt k slot (chunk_events l) = updates (chunk_calls l).
  Proof. unfold chunk_events, chunk_calls, updates. induction l as [|[n i] l IH]; cbn; [reflexivity|]. now rewrite IH. Qed.

  Lemma volume_commanded_in_any_state_l (b b' : tcs Q Q * tcmd Q Q) outs tg tw (l : list (nat * info Q)) :
    not_delayed (tw_start tw) -> (tw_dur tw <> 0)%Z -> l <> [] ->
    mrunQ b (MWrite (WVol (Fixed tg) tw) :: MStart :: chunk_events l) = Ok (b', outs) ->
    let D := ns_to_secs_Q (tw_dur tw) in
    if completes (tw_start tw) D 0 (chunk_calls l)
    then p_state (k_vol (fst b')) = Idle (Fixed tg) /\ p_raw (k_vol (fst b')) = tg
    else p_raw (k_vol (fst b')) =
         the_law powf (p_raw (k_vol (fst b))) tg (tw_easing tw) D (elapsed (tw_start tw) 0 (chunk_calls l)).
  Proof.
    intros Hnd Hdur Hl H D.
    pose proof (volume_follows_history_l powf Q lerpQ silence identity F G amp gmul dt _ _ _ _ H) as P.
    cbn [vol_view] in P. rewrite vol_view_chunks in P. cbn [opt_set app] in P.
    assert (Hl' : chunk_calls l <> []) by (destruct l as [|[n i] l]; [congruence|discriminate]).
    destruct (tween_law_from_set powf (k_vol (fst b)) tg tw (chunk_calls l) Hnd Hdur Hl') as [p' [R C]].
    unfold run in R. cbn [param_run param_step] in P. cbn [obind] in P. rewrite R in P. injection P as <-.
    exact C.
  Qed.

  Lemma route_commanded_in_any_state_l (b b' : tcs Q Q * tcmd Q Q) outs k p tg tw (l : list (nat * info Q)) :
    boxed Q b -> nth_error (k_routes (fst b)) k = Some p ->
    not_delayed (tw_start tw) -> (tw_dur tw <> 0)%Z -> l <> [] ->
    mrunQ b (MWrite (WRoute k (Fixed tg) tw) :: MStart :: chunk_events l) = Ok (b', outs) ->
    let D := ns_to_secs_Q (tw_dur tw) in
    exists p', nth_error (k_routes (fst b')) k = Some p' /\
    if completes (tw_start tw) D 0 (chunk_calls l)
    then p_state p' = Idle (Fixed tg) /\ p_raw p' = tg
    else p_raw p' = the_law powf (p_raw p) tg (tw_easing tw) D (elapsed (tw_start tw) 0 (chunk_calls l)).
  Proof.
    intros Hb Hp Hnd Hdur Hl H D.
    destruct (route_follows_history_l powf Q lerpQ silence identity F G amp gmul dt k _ _ _ _ _ Hb H Hp) as [p' [Hp' P]].
    exists p'. split; [exact Hp'|].
    cbn [route_view] in P. rewrite Nat.eqb_refl in P. rewrite route_view_chunks in P. cbn [opt_set app] in P.
    assert (Hl' : chunk_calls l <> []) by (destruct l as [|[n i] l]; [congruence|discriminate]).
    destruct (tween_law_from_set powf p tg tw (chunk_calls l) Hnd Hdur Hl') as [p2 [R C]].
    unfold run in R. cbn [param_run param_step] in P. cbn [obind] in P. rewrite R in P. injection P as <-.
    exact C.
  Qed.
End Q.

(** * branches *)
Section KeepProofs.
  Section Ind.
    Variable P : ktree -> Prop.
    Hypothesis H : forall id marked persist ns qs qsubs subs, Forall P qsubs -> Forall P subs -> P (KT id marked persist ns qs qsubs subs).
    Fixpoint ktree_ind' (t : ktree) : P t :=
      match t with
      | KT id marked persist ns qs qsubs subs =>
          H id marked persist ns qs qsubs subs
            ((fix go (l : list ktree) : Forall P l :=
                match l with [] => Forall_nil P | x :: r => Forall_cons x (ktree_ind' x) (go r) end) qsubs)
            ((fix go (l : list ktree) : Forall P l :=
                match l with [] => Forall_nil P | x :: r => Forall_cons x (ktree_ind' x) (go r) end) subs)
      end.
  End Ind.

  (** [should_be_removed] says exactly: nothing at or below this track has a reason to stay *)
  Lemma removable_iff_not_anchored_l t : removable t = negb (anchored t).
  Proof.
    induction t as [id marked persist ns qs qsubs subs _ IH] using ktree_ind'.
    cbn [removable anchored anchored_here].
    assert (E : existsb (fun c => negb (removable c)) subs = existsb anchored subs).
    { induction IH as [|x l Hx _ IHl]; cbn; [reflexivity|]. rewrite Hx, negb_involutive, IHl. reflexivity. }
    rewrite E. destruct (is_nilb qsubs), (existsb anchored subs), marked, persist, (Nat.eqb ns 0), (Nat.eqb qs 0); reflexivity.
  Qed.

  Definition subs_of (t : ktree) : list ktree := match t with KT _ _ _ _ _ _ subs => subs end.
  Definition sounds_here (t : ktree) : nat := match t with KT _ _ _ ns qs _ _ => ns + qs end.
  Definition flags_of (t : ktree) : nat * bool * bool := match t with KT i m p _ _ _ _ => (i, m, p) end.
  (** [on_branch t u]: [u] is [t] or sits below it in the arenas *)
  Inductive on_branch : ktree -> ktree -> Prop :=
  | ob_here t : on_branch t t
  | ob_below t c u : In c (subs_of t) -> on_branch c u -> on_branch t u.

  Lemma anchored_up t u : on_branch t u -> anchored u = true -> anchored t = true.
  Proof.
    induction 1 as [t|t c u Hin Hb IH]; intros Hu; [exact Hu|].
    specialize (IH Hu). destruct t as [id m p ns qs qsubs subs]. cbn in *.
    apply orb_true_iff. right. apply existsb_exists. eauto.
  Qed.
  Lemma anchored_here_anchored u : anchored_here u = true -> anchored u = true.
  Proof. destruct u. cbn [anchored]. intros ->. reflexivity. Qed.

  Lemma live_descendant_keeps_branch_l t u :
    on_branch t u -> anchored_here u = true -> removable t = false.
  Proof.
    intros Hb Hu. rewrite removable_iff_not_anchored_l.
    rewrite (anchored_up _ _ Hb (anchored_here_anchored _ Hu)). reflexivity.
  Qed.

  Lemma drain_then_in {X} (test : X -> bool) (f : X -> X) l c :
    In c l -> test c = false -> In (f c) (drain_then test f l).
  Proof.
    induction l as [|x l IH]; cbn; [tauto|]. intros [->|Hin] Ht.
    - rewrite Ht. left. reflexivity.
    - destruct (test x); [auto|right; auto].
  Qed.

  (** the branch down to [u] is still there after [on_start_processing], with all of [u]'s sounds (those
      queued for it are picked up), its handle flag and its persistence unchanged *)
  Lemma live_descendant_survives_l t u :
    on_branch t u -> anchored_here u = true ->
    exists u', on_branch (k_on_start removable t) u' /\ sounds_here u' = sounds_here u /\ flags_of u' = flags_of u.
  Proof.
    induction 1 as [t|t c u Hin Hb IH]; intros Hu.
    - exists (k_on_start removable t). split; [constructor|]. destruct t. cbn. split; [lia|reflexivity].
    - destruct (IH Hu) as [u' [Hb' Hs]]. exists u'. split; [|exact Hs].
      apply ob_below with (c := k_on_start removable c); [|exact Hb'].
      destruct t as [id m p ns qs qsubs subs]. cbn in *. apply in_or_app. right.
      apply drain_then_in; [exact Hin|]. eapply live_descendant_keeps_branch_l; eauto.
  Qed.
  Lemma live_descendant_survives_mixer_l tops t u :
    In t tops -> on_branch t u -> anchored_here u = true ->
    exists t' u', In t' (k_mixer_on_start removable tops) /\ on_branch t' u' /\
                  sounds_here u' = sounds_here u /\ flags_of u' = flags_of u.
  Proof.
    intros Hin Hb Hu. destruct (live_descendant_survives_l _ _ Hb Hu) as [u' [Hb' Hs]].
    exists (k_on_start removable t), u'. split; [|split; [exact Hb'|exact Hs]].
    unfold k_mixer_on_start. apply drain_then_in; [exact Hin|]. eapply live_descendant_keeps_branch_l; eauto.
  Qed.
  (** and a branch with no reason to stay anywhere is removed, sounds and all *)
  Lemma unanchored_branch_removed_l tops :
    forallb (fun t => negb (anchored t)) tops = true -> k_mixer_on_start removable tops = [].
  Proof.
    induction tops as [|t l IH]; cbn; [reflexivity|]. intros H. apply andb_true_iff in H. destruct H as [Ht Hl].
    rewrite removable_iff_not_anchored_l, Ht. auto.
  Qed.
End KeepProofs.

(** * examples and counter-models, exact arithmetic *)
Section Witness.
  Local Open Scope Q_scope.
  Definition pw0 (x y : Q) : Q := 1.
  (** a stand-in for [as_amplitude]: 0 at and below -60 dB, 1 at 0 dB, linear in between *)
  Definition ampQ (v : Q) : Q := if Qle_bool v (-60) then 0 else Qred (1 + v / 60).
  Definition gmulQ (a b : Q) : Q := Qred (a * b).
  Definition dtQ : Q := 1 # 1000.
  Notation lerpQ := (@lerp Q Num_Q).
  Definition stepQ := ctl_step_o pw0 Q lerpQ (-60) 0 unit Q ampQ gmulQ dtQ.
  Definition mrunQ0 := mrun pw0 Q lerpQ (-60) 0 unit Q ampQ gmulQ dtQ.
  Definition tw_ms (ms : Z) : tween Q := {| tw_start := Immediate; tw_dur := ms * 1000000; tw_easing := Linear |}.
  Definition idle (v : Q) : param Q Q := param_new (Fixed v) v.
  (** a sub-track at 0 dB with one route at 0 dB, playing *)
  Definition cs0 : tcs Q Q := {| k_id := 1%nat; k_vol := idle 0; k_routes := [idle 0]; k_psm := Some (psm_new Q (-60) 0 None) |}.
  Definition b0 : tcs Q Q * tcmd Q Q := (cs0, no_cmd 1).
  Definition chunk (n : nat) : mev Q Q := MChunk no_info n.
  Definition advs (r : outcome ((tcs Q Q * tcmd Q Q) * list (tctl unit Q))) : list bool :=
    match r with Ok (_, l) => map c_adv l | _ => [] end.
  Definition gains (r : outcome ((tcs Q Q * tcmd Q Q) * list (tctl unit Q))) : list Q :=
    match r with Ok (_, l) => map (fun c => c_gain c 0%nat) l | _ => [] end.
  Definition rgains (r : outcome ((tcs Q Q * tcmd Q Q) * list (tctl unit Q))) : list Q :=
    match r with Ok (_, l) => map (fun c => c_rgain c 0%nat) l | _ => [] end.
  Definition state_of (r : outcome ((tcs Q Q * tcmd Q Q) * list (tctl unit Q))) : Z :=
    match r with Ok ((cs, _), _) => match k_psm cs with Some m => state_code (ps m) | None => -1 end | _ => -2 end%Z.

  (** pause (instant); resume_at in 20 ms; chunks of 8 ms: paused, waiting, waiting, resuming in the third
      chunk after the resume_at (24 ms >= 20 ms), playing *)
  Definition ex_wait : list (mev Q Q) :=
    [MWrite (WPause (tw_ms 0)); MStart; chunk 8;
     MWrite (WResume (Delayed 20000000) (tw_ms 0)); MStart; chunk 8; chunk 8; chunk 8; chunk 8].
  Lemma waiting_example_l :
    advs (mrunQ0 b0 ex_wait) = [false; false; false; true; true] /\ state_of (mrunQ0 b0 ex_wait) = 0%Z
    /\ state_of (mrunQ0 b0 (firstn 7 ex_wait)) = 3%Z.
  Proof. vm_compute. repeat split. Qed.

  (** the seeded guard `== Paused`: resume_at arrives half-way through a 16 ms fade-out; the waiting track
      is rendered, at gain 1/2 *)
  Definition ex_leak : list (mev Q Q) :=
    [MWrite (WPause (tw_ms 16)); MStart; chunk 8; MWrite (WResume (Delayed 20000000) (tw_ms 0)); MStart].
  Definition cs_leak : tcs Q Q := match mrunQ0 b0 ex_leak with Ok ((cs, _), _) => cs | _ => cs0 end.
  Definition adv_of (r : outcome (tcs Q Q * tctl unit Q)) : option bool :=
    match r with Ok (_, c) => Some (c_adv c) | _ => None end.
  Definition gain0_of (r : outcome (tcs Q Q * tctl unit Q)) : Q :=
    match r with Ok (_, c) => c_gain c 0%nat | _ => 0 end.
  Definition code_of (cs : tcs Q Q) : Z := match k_psm cs with Some m => state_code (ps m) | None => (-1)%Z end.
  Lemma paused_only_guard_refuted_l :
    code_of cs_leak = 3%Z /\
    adv_of (stepQ no_info cs_leak 8%nat) = Some false /\
    adv_of (ctl_step_paused_only pw0 Q lerpQ (-60) 0 unit Q ampQ gmulQ dtQ no_info cs_leak 8%nat) = Some true /\
    ~ gain0_of (ctl_step_paused_only pw0 Q lerpQ (-60) 0 unit Q ampQ gmulQ dtQ no_info cs_leak 8%nat) == 0.
  Proof. vm_compute. repeat split. intro H. discriminate H. Qed.

  (** a generic runner for a seeded chunk step *)
  Definition mstep_with (stepf : info Q -> tcs Q Q -> nat -> outcome (tcs Q Q * tctl unit Q))
    (b : tcs Q Q * tcmd Q Q) (e : mev Q Q) :=
    match e with
    | MChunk i n => let! (cs', c) := stepf i (fst b) n in Ok ((cs', snd b), [c])
    | _ => mstep pw0 Q lerpQ (-60) 0 unit Q ampQ gmulQ dtQ b e
    end.
  Fixpoint mrun_with stepf (b : tcs Q Q * tcmd Q Q) (es : list (mev Q Q)) :=
    match es with
    | [] => Ok (b, [])
    | e :: r =>
        let! (b1, o1) := mstep_with stepf b e in
        let! (b2, o2) := mrun_with stepf b1 r in
        Ok (b2, o1 ++ o2)
    end.
  (** pause; while paused: mute with a 16 ms tween, 24 ms go by; resume: the real track is silent from the
      first frame (gain 0 in both chunks after the resume); with the volume ticked below the guard the
      old volume is heard *)
  Definition ex_mute_paused : list (mev Q Q) :=
    [MWrite (WPause (tw_ms 0)); MStart; chunk 8;
     MWrite (WVol (Fixed (-60)) (tw_ms 16)); MStart; chunk 8; chunk 8; chunk 8;
     MWrite (WResume Immediate (tw_ms 0)); MStart; chunk 8; chunk 8].
  Lemma late_volumes_refuted_l :
    skipn 4 (gains (mrunQ0 b0 ex_mute_paused)) = [0; 0] /\
    advs (mrunQ0 b0 ex_mute_paused) = [false; false; false; false; true; true] /\
    advs (mrun_with (ctl_step_late_volumes pw0 Q lerpQ (-60) 0 unit Q ampQ gmulQ dtQ) b0 ex_mute_paused)
      = [false; false; false; false; true; true] /\
    ~ nth 5 (gains (mrun_with (ctl_step_late_volumes pw0 Q lerpQ (-60) 0 unit Q ampQ gmulQ dtQ) b0 ex_mute_paused)) 0 == 0.
  Proof. vm_compute. repeat split. intro H. discriminate H. Qed.
  (** the same history is an instance of the theorem: the tween completed while the track was paused *)
  Lemma mute_paused_example_l :
    completes Immediate (ns_to_secs_Q 16000000) 0 (chunk_calls dtQ [(8%nat, no_info); (8%nat, no_info); (8%nat, no_info)]) = true.
  Proof. vm_compute. reflexivity. Qed.

  (** a route muted in the MIDDLE of a callback (between its first and its second chunk): the real track
      keeps the route open for the rest of the callback; polled per chunk it closes at once *)
  Definition ex_mid : list (mev Q Q) := [chunk 4; MWrite (WRoute 0 (Fixed (-60)) (tw_ms 0)); chunk 4; chunk 4].
  Lemma per_chunk_reading_refuted_l :
    rgains (mrunQ0 b0 ex_mid) = [1; 1; 1] /\
    rgains (mrun_per_chunk pw0 Q lerpQ (-60) 0 unit Q ampQ gmulQ dtQ b0 ex_mid) = [1; 0; 0] /\
    rgains (mrunQ0 b0 (ex_mid ++ [MStart; chunk 4])) = [1; 1; 1; 0].
  Proof. vm_compute. repeat split. Qed.

  (** parent and child handles dropped, grandchild alive with one sound *)
  Definition k_grand : ktree := KT 3 false false 1 0 [] [].
  Definition k_child : ktree := KT 2 true false 0 0 [] [k_grand].
  Definition k_parent : ktree := KT 1 true false 0 0 [] [k_child].
  Lemma shallow_test_refuted_l :
    on_branch k_parent k_grand /\ anchored_here k_grand = true /\
    removable k_parent = false /\ list_sum (map k_sounds (k_mixer_on_start removable [k_parent])) = 1%nat /\
    removable_shallow k_parent = true /\ k_mixer_on_start removable_shallow [k_parent] = [].
  Proof.
    split; [|vm_compute; repeat split].
    apply ob_below with (c := k_child); [left; reflexivity|].
    apply ob_below with (c := k_grand); [left; reflexivity|]. constructor.
  Qed.
  (** a persisting child with a sound still queued for it keeps the parent too *)
  Lemma persisting_child_example_l :
    let c := KT 2 true true 0 1 [] [] in
    anchored_here c = true /\ removable (KT 1 true false 0 0 [] [c]) = false /\
    removable_shallow (KT 1 true false 0 0 [] [c]) = true.
  Proof. vm_compute. repeat split. Qed.
End Witness.
