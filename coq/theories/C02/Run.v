(** C02 — model side of the correspondence check.

    The harness builds random track trees inside a real AudioManager out of PROBE sounds and
    PROBE effects whose values are dyadic rationals chosen so that every float operation the
    mixer performs on them is exact (all values are multiples of 2^-24 of magnitude <= 1, see
    harness/src/c02.rs which also asserts this on every observed sample).  IEEE-754 addition and
    multiplication return the exact result whenever it is representable, so on these scenes the
    binary32 execution coincides with exact integer arithmetic on the values scaled by 2^24, and
    the model (which is generic in the frame arithmetic) is instantiated with
        F := Z * Z  (left, right; unit 2^-24),   G := Z  (a gain that is exactly 0 or 1),
    which is ~100x cheaper under vm_compute than Flocq.  An effect's halving of an odd integer
    (which would mean the scene left the exact regime) yields a poison value, so it cannot pass
    unnoticed.

    probe sound  (id, pos):  frame i of a call = (v, v + 2^9) with v = id * 2^13 + ((pos + i) mod 128) * 2^6
    probe effect (k, pos):   x -> x / 2 + (if k = 0 then 0 else k * 2^12 + ((pos + i) mod 8) * 2^6)   on both sides
    Sounds and effects are wrapped with the call log of Model.v ([lsnd_proc], [lfx_proc]).
    A case is a scene snapshot (states included) rendered for a list of callbacks with nothing
    in between; the observable is the device buffer followed by every call log. *)
From Coq Require Import ZArith List Bool.
From KV Require Import Base.Outcome Base.Corr C02.Model.
From KV Require Import Base.IEEE Base.Num C19.Model C19.ModelF32 C19.Run C06.Model C06.Dur C06.Run C03.Model C02.ModelCtl.
Import ListNotations.
Local Open Scope Z_scope.

Definition FZ := (Z * Z)%type.
Definition fz0 : FZ := (0, 0).
Definition fzadd (a b : FZ) : FZ := (fst a + fst b, snd a + snd b).
Definition fzscale (a : FZ) (g : Z) : FZ := (fst a * g, snd a * g).
Definition poison : Z := - 2 ^ 60.
Definition halfZ (x : Z) : Z := if Z.even x then x / 2 else poison.

Definition psnd := (Z * Z)%type.   (* id, pos *)
Definition pfx := (Z * Z)%type.    (* k, pos *)

Fixpoint gen_snd (id pos : Z) (n : nat) : list FZ :=
  match n with
  | O => []
  | S n' => let v := id * 2 ^ 13 + (pos mod 128) * 2 ^ 6 in (v, v + 2 ^ 9) :: gen_snd id (pos + 1) n'
  end.
Definition probe_snd (_ : unit) (s : psnd) (n : nat) : psnd * list FZ :=
  ((fst s, snd s + Z.of_nat n), gen_snd (fst s) (snd s) n).
Fixpoint gen_fx (k pos : Z) (xs : list FZ) : list FZ :=
  match xs with
  | [] => []
  | x :: r =>
      let o := if k =? 0 then 0 else k * 2 ^ 12 + (pos mod 8) * 2 ^ 6 in
      (halfZ (fst x) + o, halfZ (snd x) + o) :: gen_fx k (pos + 1) r
  end.
Definition probe_fx (_ : unit) (e : pfx) (xs : list FZ) : pfx * list FZ :=
  ((fst e, snd e + Z.of_nat (length xs)), gen_fx (fst e) (snd e) xs).

(** control state of a track in a segment with no commands in flight: constant *)
Definition pctl := (bool * Z * list Z)%type.   (* advancing, gain, route gains *)
Definition probe_ctl (_ : unit) (c : pctl) (_ : nat) : pctl * tctl FZ Z :=
  (c, Build_tctl (fst (fst c)) (fun _ => snd (fst c)) (fun r => nth r (snd c) 0) (fun _ x => x)).

(** output stage on scaled integers: clamp to [-1, 1] = [-2^24, 2^24]; mono = (l + r) / 2 *)
Definition unitZ : Z := 2 ^ 24.
Definition clampZ (x : Z) : Z := Z.max (- unitZ) (Z.min unitZ x).
Definition out_frame_Z : nat -> FZ -> list Z := out_frame_of Z clampZ Z.add halfZ 0.

Definition probe0 : ops :=
  {| tF := FZ; tG := Z; tI := unit; tSS := psnd; tES := pfx; tCS := pctl; tO := Z;
     o_zero := fz0; o_add := fzadd; o_scale := fzscale; o_snd := probe_snd; o_fx := probe_fx;
     o_env := fun _ e => e; o_ctl := probe_ctl; o_res := fun e _ => e; o_out := out_frame_Z |}.
(** sounds and effects wrapped with their call logs *)
Definition PO : ops := logged probe0.
Definition LS := tSS PO.
Definition LE := tES PO.

(** scene terms written by the harness *)
Inductive rtrack := RT (adv gain : Z) (subs : list rtrack) (snds : list (Z * Z)) (fx : list (Z * Z)) (routes : list (Z * Z)).
Inductive rsend := RS (key gain : Z) (fx : list (Z * Z)).
(** control scenes (see the second half of this file): a track's identity, volume (f32 bit pattern of the
    decibel value), send routes (send key, volume bits) sorted by key, probe sounds, probe effects, sub-tracks *)
Inductive rcnode := RCN (id vol : Z) (routes : list (Z * Z)) (snds fx : list (Z * Z)) (subs : list rcnode).
Definition rtw : Type := (rstart * Z * Z * Z)%type.       (* start, duration ns, easing kind, power *)
Inductive rcmd :=
| KVol (tr db : Z) (tw : rtw)
| KRoute (tr r db : Z) (tw : rtw)                   (* r: index in the track's (sorted) route list *)
| KPause (tr : Z) (tw : rtw)
| KResume (tr : Z) (st : rstart) (tw : rtw).
(** one device callback: the commands the handles wrote since the previous callback STARTED (in the order
    of writing), its number of frames, what the clocks show during it *)
Inductive rccb := RCCb (cmds : list rcmd) (n : Z) (clocks : list (Z * Z * Z * Z)).
(** handle operations on the track tree as far as removal is concerned *)
Inductive rkop := RKAdd (parent id persist : Z) | RKPlay (tr : Z) | RKDrop (tr : Z).
Inductive case :=
| CScene (b ch : Z) (cbs : list Z) (main_gain : Z) (main_snds main_fx : list (Z * Z)) (subs : list rtrack) (sends : list rsend)
| CCtl (b ch dt : Z) (main : rcnode) (sends : list (Z * rcnode)) (subs : list rcnode) (cbs : list rccb) (tab : list (Z * Z * Z))
| CKeep (rounds : list (list rkop)).

Definition mk_snds (l : list (Z * Z)) : list LS := map (fun s => (s, @nil nat)) l.
Definition mk_fxs (l : list (Z * Z)) : list LE := map (fun s => (s, @nil nat)) l.
Fixpoint mk_track (t : rtrack) : strack PO :=
  match t with
  | RT adv g subs snds fx routes =>
      STrk (O := PO) (negb (adv =? 0), g, map snd routes) (map mk_track subs) (mk_snds snds) (mk_fxs fx)
           (map (fun r => Z.to_nat (fst r)) routes)
  end.
Definition mk_send (s : rsend) : nat * ssend PO :=
  match s with RS k g fx => (Z.to_nat k, {| ss_ctl := ((true, g, []) : tCS PO); ss_fx := mk_fxs fx |}) end.
Definition mk_mixer (mg : Z) (msn mfx : list (Z * Z)) (subs : list rtrack) (sends : list rsend) : smixer PO :=
  {| sx_main := {| sm_ctl := ((true, mg, []) : tCS PO); sm_snds := mk_snds msn; sm_fx := mk_fxs mfx |};
     sx_subs := map mk_track subs; sx_sends := map mk_send sends |}.

(** the logs, in a fixed traversal order: a sound's / effect's log is [length; entries] *)
Definition enc_log (l : list nat) : list Z := Z.of_nat (length l) :: map Z.of_nat l.
Definition enc_snds (l : list LS) : list Z := flat_map (fun s => enc_log (snd s)) l.
Definition enc_fxs (l : list LE) : list Z := flat_map (fun s => enc_log (snd s)) l.
Fixpoint enc_track (t : track PO) : list Z :=
  match t with
  | Trk _ subs snds fx _ _ => enc_snds snds ++ enc_fxs fx ++ flat_map enc_track subs
  end.
Definition enc_mixer (mx : mixer PO) : list Z :=
  enc_snds (mn_snds PO (mx_main PO mx)) ++ enc_fxs (mn_fx PO (mx_main PO mx))
  ++ flat_map enc_track (mx_subs PO mx)
  ++ flat_map (fun ks => enc_fxs (sd_fx PO (snd ks))) (mx_sends PO mx).

(** every buffer must be back to exact zero after a callback: 0 if so, else 1 *)
Definition all_zero (l : list FZ) : bool := forallb (fun x => (fst x =? 0) && (snd x =? 0)) l.
Fixpoint track_bufs_zero (t : track PO) : bool :=
  match t with
  | Trk _ subs _ _ _ temp => all_zero temp && forallb track_bufs_zero subs
  end.
Definition mixer_bufs_zero (mx : mixer PO) : bool :=
  all_zero (mx_temp PO mx) && all_zero (mn_temp PO (mx_main PO mx))
  && forallb track_bufs_zero (mx_subs PO mx)
  && forallb (fun ks => all_zero (sd_input PO (snd ks))) (mx_sends PO mx).

(** runs the BUFFER-LEVEL model (not the specification) *)
Fixpoint go_callbacks (ch : nat) (r : renderer PO) (cbs : list Z) : outcome (renderer PO * list Z) :=
  match cbs with
  | [] => Ok (r, [])
  | n :: cbs' =>
      let! x := renderer_process PO ch r (Z.to_nat n) in
      let! y := go_callbacks ch (fst x) cbs' in
      Ok (fst y, snd x ++ snd y)
  end.

(** * Control scenes: the same buffer-level mixer, instantiated with binary32 frames and gains and with the
    CONCRETE control part of C02/ModelCtl.v (binary64 time, binary32 decibels): volumes and route volumes
    with tweens, pause / resume / resume_at with fades, delayed and clock start times, commands applied at
    callback starts through the one-slot-per-kind mailbox.  Probe sounds and effects as above, in binary32
    (unit 2^-24).  libm's powf (as_amplitude of a decibel value strictly between -60 and 0) comes from the
    table recorded by the harness. *)
Definition F32 := (f32 * f32)%type.
Definition f32zero : F32 := (Z32 0, Z32 0).
Definition f32add (a b : F32) : F32 := (add32 (fst a) (fst b), add32 (snd a) (snd b)).
Definition f32scale (a : F32) (g : f32) : F32 := (mul32 (fst a) g, mul32 (snd a) g).
Definition units32 (v : Z) : f32 := dy32 v (-24).
Fixpoint gen_snd32 (id pos : Z) (n : nat) : list F32 :=
  match n with
  | O => []
  | S n' => let v := id * 2 ^ 13 + (pos mod 128) * 2 ^ 6 in (units32 v, units32 (v + 2 ^ 9)) :: gen_snd32 id (pos + 1) n'
  end.
Definition probe_snd32 (_ : info f64) (s : psnd) (n : nat) : psnd * list F32 :=
  ((fst s, snd s + Z.of_nat n), gen_snd32 (fst s) (snd s) n).
Fixpoint gen_fx32 (k pos : Z) (xs : list F32) : list F32 :=
  match xs with
  | [] => []
  | x :: r =>
      let o := if k =? 0 then Z32 0 else units32 (k * 2 ^ 12 + (pos mod 8) * 2 ^ 6) in
      (add32 (mul32 (fst x) half32) o, add32 (mul32 (snd x) half32) o) :: gen_fx32 k (pos + 1) r
  end.
Definition probe_fx32 (_ : info f64) (e : pfx) (xs : list F32) : pfx * list F32 :=
  ((fst e, snd e + Z.of_nat (length xs)), gen_fx32 (fst e) (snd e) xs).
(** `finite_clamped` of backend/renderer.rs *)
Definition finite_clamped32 (s : f32) : f32 := if isnan32 s then Z32 0 else clamp32 s (Z32 (-1)) (Z32 1).
Definition out_frame_32 : nat -> F32 -> list f32 :=
  out_frame_of f32 finite_clamped32 add32 (fun x => div32 x (Z32 2)) (Z32 0).
Definition silence32 : f32 := Z32 (-60).
Definition identity32 : f32 := Z32 0.
Definition mk_tw (t : rtw) : tween f64 :=
  let '(s, d, ek, p) := t in {| tw_start := mk_start s; tw_dur := d; tw_easing := mk_easing ek p |}.

Section CtlRun.
  Variable tab : list (Z * Z * Z).
  Variable dt : f64.
  Definition amp32 (db : f32) : f32 := db_as_amplitude (powf32_tab tab (Z32 10)) db.
  Definition powf_none (x y : f64) : f64 := powf64_tab [] x y.
  Definition ctl0 : ops :=
    ctl_ops powf_none f32 lerp32 silence32 identity32 F32 f32 amp32 mul32 dt psnd pfx f32
            f32zero f32add f32scale probe_snd32 probe_fx32 (fun e _ => e) out_frame_32.
  Definition PC : ops := logged ctl0.
  Definition csT := tcs f64 f32.

  Definition mk_cs (sub : bool) (id vol : Z) (routes : list (Z * Z)) : tCS PC :=
    Ok {| k_id := Z.to_nat id;
          k_vol := param_new (Fixed (f32_of_bits vol)) (f32_of_bits vol);
          k_routes := map (fun r => param_new (Fixed (f32_of_bits (snd r))) (f32_of_bits (snd r))) routes;
          k_psm := if sub then Some (psm_new f32 silence32 identity32 None) else None |}.
  Definition mk_lsnds (l : list (Z * Z)) : list (tSS PC) := map (fun s => (s, @nil nat)) l.
  Definition mk_lfxs (l : list (Z * Z)) : list (tES PC) := map (fun s => (s, @nil nat)) l.
  Fixpoint mk_ctrack (t : rcnode) : strack PC :=
    match t with
    | RCN id vol routes snds fx subs =>
        STrk (O := PC) (mk_cs true id vol routes) (map mk_ctrack subs) (mk_lsnds snds) (mk_lfxs fx)
             (map (fun r => Z.to_nat (fst r)) routes)
    end.
  Definition mk_cmixer (main : rcnode) (sends : list (Z * rcnode)) (subs : list rcnode) : smixer PC :=
    match main with
    | RCN mid mvol _ msn mfx _ =>
        {| sx_main := {| sm_ctl := mk_cs false mid mvol []; sm_snds := mk_lsnds msn; sm_fx := mk_lfxs mfx |};
           sx_subs := map mk_ctrack subs;
           sx_sends := map (fun ks => match snd ks with
                                      | RCN sid svol _ _ sfx _ =>
                                          (Z.to_nat (fst ks), {| ss_ctl := mk_cs false sid svol []; ss_fx := mk_lfxs sfx |})
                                      end) sends |}
    end.

  (** `read_commands` of every track at a callback start: the handle writes go through the mailbox (one slot
      per kind, the last write wins), then the slots are read in the code's order *)
  Definition hw_of (c : rcmd) : Z * hwrite f64 f32 :=
    match c with
    | KVol tr db tw => (tr, WVol (Fixed (f32_of_bits db)) (mk_tw tw))
    | KRoute tr r db tw => (tr, WRoute (Z.to_nat r) (Fixed (f32_of_bits db)) (mk_tw tw))
    | KPause tr tw => (tr, WPause (mk_tw tw))
    | KResume tr st tw => (tr, WResume (mk_start st) (mk_tw tw))
    end.
  Definition read_cs (cmds : list rcmd) (c : tCS PC) : tCS PC :=
    match c with
    | Ok cs =>
        let mine := map snd (filter (fun x => fst x =? Z.of_nat (k_id cs)) (map hw_of cmds)) in
        Ok (ctl_read f32 silence32 identity32 cs (fold_left write mine (no_cmd (length (k_routes cs)))))
    | x => x
    end.
  Fixpoint map_track (f : tCS PC -> tCS PC) (t : track PC) : track PC :=
    match t with
    | Trk cs subs snds fx routes temp => Trk (O := PC) (f cs) (map (map_track f) subs) snds fx routes temp
    end.
  Definition map_mixer (f : tCS PC -> tCS PC) (mx : mixer PC) : mixer PC :=
    let mn := mx_main PC mx in
    {| mx_main := {| mn_ctl := f (mn_ctl PC mn); mn_snds := mn_snds PC mn; mn_fx := mn_fx PC mn; mn_temp := mn_temp PC mn |};
       mx_subs := map (map_track f) (mx_subs PC mx);
       mx_sends := map (fun ks => (fst ks, {| sd_ctl := f (sd_ctl PC (snd ks)); sd_fx := sd_fx PC (snd ks);
                                               sd_input := sd_input PC (snd ks) |})) (mx_sends PC mx);
       mx_temp := mx_temp PC mx |}.

  Definition enc_lsnds (l : list (tSS PC)) : list Z := flat_map (fun s => enc_log (snd s)) l.
  Definition enc_lfxs (l : list (tES PC)) : list Z := flat_map (fun s => enc_log (snd s)) l.
  Fixpoint enc_ctrack (t : track PC) : list Z :=
    match t with
    | Trk _ subs snds fx _ _ => enc_lsnds snds ++ enc_lfxs fx ++ flat_map enc_ctrack subs
    end.
  Definition enc_cmixer (mx : mixer PC) : list Z :=
    enc_lsnds (mn_snds PC (mx_main PC mx)) ++ enc_lfxs (mn_fx PC (mx_main PC mx))
    ++ flat_map enc_ctrack (mx_subs PC mx)
    ++ flat_map (fun ks => enc_lfxs (sd_fx PC (snd ks))) (mx_sends PC mx).
  (** the pause state of every sub-track, in traversal order (-1: the control update panicked) *)
  Definition enc_state (c : tCS PC) : Z :=
    match c with
    | Ok cs => match k_psm cs with Some m => state_code (ps m) | None => 0 end
    | _ => -1
    end.
  Fixpoint enc_states (t : track PC) : list Z :=
    match t with Trk cs subs _ _ _ _ => enc_state cs :: flat_map enc_states subs end.

  Fixpoint go_ctl (ch : nat) (r : renderer PC) (cbs : list rccb) : outcome (renderer PC * list Z) :=
    match cbs with
    | [] => Ok (r, [])
    | RCCb cmds n clocks :: cbs' =>
        let r1 := Build_renderer PC (mk_info clocks [] : tI PC) (map_mixer (read_cs cmds) (r_mixer PC r))
                                 (r_temp PC r) (r_b PC r) in
        let! x := renderer_process PC ch r1 (Z.to_nat n) in
        let! y := go_ctl ch (fst x) cbs' in
        Ok (fst y, map bits_of_f32 (snd x) ++ flat_map enc_states (mx_subs PC (r_mixer PC (fst x))) ++ snd y)
    end.
End CtlRun.

(** * Removal histories: rounds of handle operations, each followed by one callback start; the observable is
    the number of sounds that the callback renders *)
Definition mk_kop (o : rkop) : kop :=
  match o with
  | RKAdd p id pe => KAdd (Z.to_nat p) (Z.to_nat id) (negb (pe =? 0))
  | RKPlay tr => KPlay (Z.to_nat tr)
  | RKDrop tr => KDrop (Z.to_nat tr)
  end.
Fixpoint go_keep (root : ktree) (rounds : list (list rkop)) : list Z :=
  match rounds with
  | [] => []
  | ops :: rest =>
      let root1 := fold_left (fun t o => k_do t (mk_kop o)) ops root in
      let root2 := k_on_start removable root1 in
      Z.of_nat (k_sounds root2) :: go_keep root2 rest
  end.

Definition run (c : case) : list Z :=
  match c with
  | CScene b ch cbs mg msn mfx subs sends =>
      let r0 := conc_renderer PO (Z.to_nat b) tt (mk_mixer mg msn mfx subs sends) in
      encode_outcome
        (fun x : renderer PO * list Z =>
           snd x ++ [if mixer_bufs_zero (r_mixer PO (fst x)) && all_zero (r_temp PO (fst x)) then 0 else 1]
                 ++ enc_mixer (r_mixer PO (fst x)))
        (go_callbacks (Z.to_nat ch) r0 cbs)
  | CCtl b ch dt main sends subs cbs tab =>
      let r0 := conc_renderer (PC tab (f64_of_bits dt)) (Z.to_nat b) (mk_info [] [])
                  (mk_cmixer tab (f64_of_bits dt) main sends subs) in
      encode_outcome
        (fun x : renderer (PC tab (f64_of_bits dt)) * list Z =>
           snd x ++ enc_cmixer tab (f64_of_bits dt) (r_mixer _ (fst x)))
        (go_ctl tab (f64_of_bits dt) (Z.to_nat ch) r0 cbs)
  | CKeep rounds => go_keep k_root rounds
  end.
