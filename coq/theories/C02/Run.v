(** C02 — model side of the correspondence check.

    The harness builds random track trees inside a real AudioManager out of PROBE sounds and
    PROBE effects whose values are dyadic rationals chosen so that every float operation the
    mixer performs on them is exact (all values are multiples of 2^-24 of magnitude <= 1, see
    harness/src/c02.rs which also asserts this on every observed sample).  IEEE-754 addition and
    multiplication return the exact result whenever it is representable, so on these scenes the
    binary32 execution coincides with exact integer arithmetic on the values scaled by 2^24, and
    the model (which is generic in the frame arithmetic) is instantiated with
        F := Z * Z  (left, right; unit 2^-24),   G := Z  (a gain that is exactly 0 or 1),
    which is ~100x cheaper under vm_compute than Flocq.  An effect's halving of an odd integer
    (which would mean the scene left the exact regime) yields a poison value, so it cannot pass
    unnoticed.

    probe sound  (id, pos):  frame i of a call = (v, v + 2^9) with v = id * 2^13 + ((pos + i) mod 128) * 2^6
    probe effect (k, pos):   x -> x / 2 + (if k = 0 then 0 else k * 2^12 + ((pos + i) mod 8) * 2^6)   on both sides
    Sounds and effects are wrapped with the call log of Model.v ([lsnd_proc], [lfx_proc]).
    A case is a scene snapshot (states included) rendered for a list of callbacks with nothing
    in between; the observable is the device buffer followed by every call log. *)
From Coq Require Import ZArith List Bool.
From KV Require Import Base.Outcome Base.Corr C02.Model.
Import ListNotations.
Local Open Scope Z_scope.

Definition FZ := (Z * Z)%type.
Definition fz0 : FZ := (0, 0).
Definition fzadd (a b : FZ) : FZ := (fst a + fst b, snd a + snd b).
Definition fzscale (a : FZ) (g : Z) : FZ := (fst a * g, snd a * g).
Definition poison : Z := - 2 ^ 60.
Definition halfZ (x : Z) : Z := if Z.even x then x / 2 else poison.

Definition psnd := (Z * Z)%type.   (* id, pos *)
Definition pfx := (Z * Z)%type.    (* k, pos *)

Fixpoint gen_snd (id pos : Z) (n : nat) : list FZ :=
  match n with
  | O => []
  | S n' => let v := id * 2 ^ 13 + (pos mod 128) * 2 ^ 6 in (v, v + 2 ^ 9) :: gen_snd id (pos + 1) n'
  end.
Definition probe_snd (_ : unit) (s : psnd) (n : nat) : psnd * list FZ :=
  ((fst s, snd s + Z.of_nat n), gen_snd (fst s) (snd s) n).
Fixpoint gen_fx (k pos : Z) (xs : list FZ) : list FZ :=
  match xs with
  | [] => []
  | x :: r =>
      let o := if k =? 0 then 0 else k * 2 ^ 12 + (pos mod 8) * 2 ^ 6 in
      (halfZ (fst x) + o, halfZ (snd x) + o) :: gen_fx k (pos + 1) r
  end.
Definition probe_fx (_ : unit) (e : pfx) (xs : list FZ) : pfx * list FZ :=
  ((fst e, snd e + Z.of_nat (length xs)), gen_fx (fst e) (snd e) xs).

(** control state of a track in a segment with no commands in flight: constant *)
Definition pctl := (bool * Z * list Z)%type.   (* advancing, gain, route gains *)
Definition probe_ctl (_ : unit) (c : pctl) (_ : nat) : pctl * tctl FZ Z :=
  (c, Build_tctl (fst (fst c)) (fun _ => snd (fst c)) (fun r => nth r (snd c) 0) (fun _ x => x)).

(** output stage on scaled integers: clamp to [-1, 1] = [-2^24, 2^24]; mono = (l + r) / 2 *)
Definition unitZ : Z := 2 ^ 24.
Definition clampZ (x : Z) : Z := Z.max (- unitZ) (Z.min unitZ x).
Definition out_frame_Z : nat -> FZ -> list Z := out_frame_of Z clampZ Z.add halfZ 0.

Definition probe0 : ops :=
  {| tF := FZ; tG := Z; tI := unit; tSS := psnd; tES := pfx; tCS := pctl; tO := Z;
     o_zero := fz0; o_add := fzadd; o_scale := fzscale; o_snd := probe_snd; o_fx := probe_fx;
     o_env := fun _ e => e; o_ctl := probe_ctl; o_res := fun e _ => e; o_out := out_frame_Z |}.
(** sounds and effects wrapped with their call logs *)
Definition PO : ops := logged probe0.
Definition LS := tSS PO.
Definition LE := tES PO.

(** scene terms written by the harness *)
Inductive rtrack := RT (adv gain : Z) (subs : list rtrack) (snds : list (Z * Z)) (fx : list (Z * Z)) (routes : list (Z * Z)).
Inductive rsend := RS (key gain : Z) (fx : list (Z * Z)).
Inductive case :=
| CScene (b ch : Z) (cbs : list Z) (main_gain : Z) (main_snds main_fx : list (Z * Z)) (subs : list rtrack) (sends : list rsend).

Definition mk_snds (l : list (Z * Z)) : list LS := map (fun s => (s, @nil nat)) l.
Definition mk_fxs (l : list (Z * Z)) : list LE := map (fun s => (s, @nil nat)) l.
Fixpoint mk_track (t : rtrack) : strack PO :=
  match t with
  | RT adv g subs snds fx routes =>
      STrk (O := PO) (negb (adv =? 0), g, map snd routes) (map mk_track subs) (mk_snds snds) (mk_fxs fx)
           (map (fun r => Z.to_nat (fst r)) routes)
  end.
Definition mk_send (s : rsend) : nat * ssend PO :=
  match s with RS k g fx => (Z.to_nat k, {| ss_ctl := ((true, g, []) : tCS PO); ss_fx := mk_fxs fx |}) end.
Definition mk_mixer (mg : Z) (msn mfx : list (Z * Z)) (subs : list rtrack) (sends : list rsend) : smixer PO :=
  {| sx_main := {| sm_ctl := ((true, mg, []) : tCS PO); sm_snds := mk_snds msn; sm_fx := mk_fxs mfx |};
     sx_subs := map mk_track subs; sx_sends := map mk_send sends |}.

(** the logs, in a fixed traversal order: a sound's / effect's log is [length; entries] *)
Definition enc_log (l : list nat) : list Z := Z.of_nat (length l) :: map Z.of_nat l.
Definition enc_snds (l : list LS) : list Z := flat_map (fun s => enc_log (snd s)) l.
Definition enc_fxs (l : list LE) : list Z := flat_map (fun s => enc_log (snd s)) l.
Fixpoint enc_track (t : track PO) : list Z :=
  match t with
  | Trk _ subs snds fx _ _ => enc_snds snds ++ enc_fxs fx ++ flat_map enc_track subs
  end.
Definition enc_mixer (mx : mixer PO) : list Z :=
  enc_snds (mn_snds PO (mx_main PO mx)) ++ enc_fxs (mn_fx PO (mx_main PO mx))
  ++ flat_map enc_track (mx_subs PO mx)
  ++ flat_map (fun ks => enc_fxs (sd_fx PO (snd ks))) (mx_sends PO mx).

(** every buffer must be back to exact zero after a callback: 0 if so, else 1 *)
Definition all_zero (l : list FZ) : bool := forallb (fun x => (fst x =? 0) && (snd x =? 0)) l.
Fixpoint track_bufs_zero (t : track PO) : bool :=
  match t with
  | Trk _ subs _ _ _ temp => all_zero temp && forallb track_bufs_zero subs
  end.
Definition mixer_bufs_zero (mx : mixer PO) : bool :=
  all_zero (mx_temp PO mx) && all_zero (mn_temp PO (mx_main PO mx))
  && forallb track_bufs_zero (mx_subs PO mx)
  && forallb (fun ks => all_zero (sd_input PO (snd ks))) (mx_sends PO mx).

(** runs the BUFFER-LEVEL model (not the specification) *)
Fixpoint go_callbacks (ch : nat) (r : renderer PO) (cbs : list Z) : outcome (renderer PO * list Z) :=
  match cbs with
  | [] => Ok (r, [])
  | n :: cbs' =>
      let! x := renderer_process PO ch r (Z.to_nat n) in
      let! y := go_callbacks ch (fst x) cbs' in
      Ok (fst y, snd x ++ snd y)
  end.

Definition run (c : case) : list Z :=
  match c with
  | CScene b ch cbs mg msn mfx subs sends =>
      let r0 := conc_renderer PO (Z.to_nat b) tt (mk_mixer mg msn mfx subs sends) in
      encode_outcome
        (fun x : renderer PO * list Z =>
           snd x ++ [if mixer_bufs_zero (r_mixer PO (fst x)) && all_zero (r_temp PO (fst x)) then 0 else 1]
                 ++ enc_mixer (r_mixer PO (fst x)))
        (go_callbacks (Z.to_nat ch) r0 cbs)
  end.
