(** C02 — proofs about the concrete control part of a track (C02/ModelCtl.v):
    the non-advancing guard is exactly "Paused or WaitingToResume", the volume parameters tick above it
    in every state, commands wait for the next callback, branches with a live descendant survive. *)
From Coq Require Import ZArith QArith List Bool Lia PeanoNat.
From KV Require Import Base.Outcome Base.Num C19.Model C06.Model C06.Dur C06.Proofs C06.Proofs2 C03.Model.
From KV Require Import C02.Model C02.ProofsList C02.ProofsRefine C02.ProofsCor C02.ModelCtl.
Import ListNotations.

Lemma obind_ok {A B} (x : outcome A) (f : A -> outcome B) (b : B) :
  obind x f = Ok b -> exists a, x = Ok a /\ f a = Ok b.
Proof. destruct x; cbn; intros H; try discriminate. eauto. Qed.

Section G.
  Context {T : Type} {NT : Num T} {ND : NumDur T}.
  Variable powf : T -> T -> T.
  Variable V : Type.
  Variable interp : V -> V -> T -> V.
  Variables silence identity : V.
  Variable F : Type.
  Variable G : Type.
  Variable amp : V -> G.
  Variable gmul : G -> G -> G.
  Variable dt : T.

  Notation tcsT := (tcs T V).
  Notation step := (ctl_step_o powf V interp silence identity F G amp gmul dt).
  Notation pupd := (param_update powf V interp).
  Notation supd := (psm_update powf V interp identity).
  Definition dtl (n : nat) : T := nmul dt (nofZ (Z.of_nat n)).

  (** ** the state manager never leaves a track Stopped *)
  Lemma psm_update_stopped_changed m m0 changed x i :
    ps m <> Stopped -> supd m x i = Ok (m0, changed) -> ps m0 = Stopped -> changed = true.
  Proof.
    intros Hn H Hs. unfold psm_update in H. apply obind_ok in H. destruct H as [[f fin] [_ H]].
    destruct (ps m) eqn:E; try (injection H as <- <-; cbn in Hs; congruence);
      try (destruct fin; injection H as <- <-; cbn in Hs; congruence).
    - apply obind_ok in H. destruct H as [[st' never] [_ H]].
      destruct never; [injection H as <- <-; reflexivity|].
      destruct (is_immediate st'); injection H as <- <-; [reflexivity|cbn in Hs; discriminate].
  Qed.
  Lemma repair_not_stopped m m0 changed x i :
    ps m <> Stopped -> supd m x i = Ok (m0, changed) -> ps (repair m0 changed) <> Stopped.
  Proof.
    intros Hn H. unfold repair. destruct (is_stopped (ps m0)) eqn:E.
    - assert (ps m0 = Stopped) by (destruct (ps m0); cbn in E; congruence).
      rewrite (psm_update_stopped_changed _ _ _ _ _ Hn H H0). cbn. discriminate.
    - rewrite andb_false_r. intro Hs. rewrite Hs in E. discriminate.
  Qed.

  (** ** the guard *)
  Lemma not_advancing_iff (s : pstate7 T) :
    s <> Stopped -> (is_advancing s = false <-> (s = Paused \/ exists st tw, s = WaitingToResume st tw)).
  Proof.
    intros Hn. destruct s; cbn; split; intros H; try discriminate; try congruence; eauto;
      try (destruct H as [H|[st' [tw' H]]]; discriminate).
  Qed.

  Lemma ctl_guard_exact_l i cs n cs' c m :
    k_psm cs = Some m -> ps m <> Stopped -> step i cs n = Ok (cs', c) ->
    exists m', k_psm cs' = Some m' /\ ps m' <> Stopped /\
      (c_adv c = false <-> (ps m' = Paused \/ exists st tw, ps m' = WaitingToResume st tw)).
  Proof.
    intros Hm Hn H. unfold ctl_step_o in H.
    apply obind_ok in H. destruct H as [[vol f1] [_ H]].
    apply obind_ok in H. destruct H as [routes [_ H]].
    rewrite Hm in H. apply obind_ok in H. destruct H as [[m0 changed] [Hu H]].
    injection H as <- <-. cbn. eexists. split; [reflexivity|].
    pose proof (repair_not_stopped _ _ _ _ _ Hn Hu) as Hr. split; [exact Hr|].
    now apply not_advancing_iff.
  Qed.
  (** main track and send tracks have no guard *)
  Lemma ctl_no_psm_advances i cs n cs' c :
    k_psm cs = None -> step i cs n = Ok (cs', c) -> c_adv c = true /\ k_psm cs' = None.
  Proof.
    intros Hm H. unfold ctl_step_o in H.
    apply obind_ok in H. destruct H as [[vol f1] [_ H]].
    apply obind_ok in H. destruct H as [routes [_ H]].
    rewrite Hm in H. injection H as <- <-. split; reflexivity.
  Qed.

  (** ** the volume parameters are ticked in EVERY state, and before the guard is looked at *)
  Lemma ctl_volumes_tick_l i cs n cs' c :
    step i cs n = Ok (cs', c) ->
    (exists f, pupd (k_vol cs) (dtl n) i = Ok (k_vol cs', f)) /\
    routes_update powf V interp (k_routes cs) (dtl n) i = Ok (k_routes cs') /\
    k_id cs' = k_id cs.
  Proof.
    intros H. unfold ctl_step_o in H.
    apply obind_ok in H. destruct H as [[vol f1] [Hv H]].
    apply obind_ok in H. destruct H as [routes [Hr H]].
    destruct (k_psm cs) as [m|].
    - apply obind_ok in H. destruct H as [[m0 changed] [Hu H]]. injection H as <- <-. cbn.
      split; [eexists; exact Hv|]. split; [exact Hr|reflexivity].
    - injection H as <- <-. cbn. split; [eexists; exact Hv|]. split; [exact Hr|reflexivity].
  Qed.
  (** the formula of the per-frame gain and of the per-chunk route gain *)
  Lemma ctl_gain_formula_l i cs n cs' c m' :
    step i cs n = Ok (cs', c) -> k_psm cs' = Some m' ->
    (forall k, c_gain c k = gmul (amp (param_interpolated V interp (k_vol cs') (amount_of n k)))
                               (amp (param_interpolated V interp (fade m') (amount_of n k)))) /\
    (forall r, c_rgain c r = nth r (map (fun p => amp (p_raw p)) (k_routes cs')) (amp silence)) /\
    c_adv c = is_advancing (ps m') /\ (forall k x, c_spat c k x = x).
  Proof.
    intros H Hm. unfold ctl_step_o in H.
    apply obind_ok in H. destruct H as [[vol f1] [Hv H]].
    apply obind_ok in H. destruct H as [routes [Hr H]].
    destruct (k_psm cs) as [m|].
    - apply obind_ok in H. destruct H as [[m0 changed] [Hu H]]. injection H as <- <-. cbn in *.
      injection Hm as <-. repeat split; reflexivity.
    - injection H as <- <-. cbn in Hm. discriminate.
  Qed.
  Lemma ctl_gain_formula_main_l i cs n cs' c :
    step i cs n = Ok (cs', c) -> k_psm cs = None ->
    (forall k, c_gain c k = amp (param_interpolated V interp (k_vol cs') (amount_of n k))).
  Proof.
    intros H Hm. unfold ctl_step_o in H.
    apply obind_ok in H. destruct H as [[vol f1] [Hv H]].
    apply obind_ok in H. destruct H as [routes [Hr H]].
    rewrite Hm in H. injection H as <- <-. reflexivity.
  Qed.

  (** a route's parameter after [routes_update] is its own [param_update] *)
  Lemma routes_update_nth l x i l' :
    routes_update powf V interp l x i = Ok l' ->
    length l' = length l /\
    forall r p, nth_error l r = Some p -> exists p' f, nth_error l' r = Some p' /\ pupd p x i = Ok (p', f).
  Proof.
    revert l'. induction l as [|p0 l IH]; cbn; intros l' H.
    - injection H as <-. split; [reflexivity|]. intros r p Hr. destruct r; discriminate.
    - apply obind_ok in H. destruct H as [[p0' f0] [H0 H]].
      apply obind_ok in H. destruct H as [r' [Hr H]]. injection H as <-.
      destruct (IH _ Hr) as [Hl Hn]. split; [cbn; lia|].
      intros r p Hp. destruct r; cbn in *.
      + injection Hp as <-. eauto.
      + eauto.
  Qed.

  (** ** histories: the volume parameter and every route parameter see their own commands (the last one
      written before each callback start, applied at that start) and one update per chunk — whatever the
      pause state does, whatever the other commands are *)
  Definition opt_set (c : option (value T V * tween T)) : list (pop T V) :=
    match c with Some (v, tw) => [OSet v tw] | None => [] end.
  Fixpoint vol_view (slot : option (value T V * tween T)) (es : list (mev T V)) : list (pop T V) :=
    match es with
    | [] => []
    | MWrite (WVol v tw) :: r => vol_view (Some (v, tw)) r
    | MWrite _ :: r => vol_view slot r
    | MStart :: r => opt_set slot ++ vol_view None r
    | MChunk i n :: r => OUpdate (dtl n) i :: vol_view slot r
    end.
  Fixpoint route_view (k : nat) (slot : option (value T V * tween T)) (es : list (mev T V)) : list (pop T V) :=
    match es with
    | [] => []
    | MWrite (WRoute r v tw) :: rest => route_view k (if Nat.eqb r k then Some (v, tw) else slot) rest
    | MWrite _ :: rest => route_view k slot rest
    | MStart :: rest => opt_set slot ++ route_view k None rest
    | MChunk i n :: rest => OUpdate (dtl n) i :: route_view k slot rest
    end.
  Notation mrunT := (mrun powf V interp silence identity F G amp gmul dt).
  Notation prun := (param_run powf V interp).

  Lemma prun_app p l1 l2 p1 : prun p l1 = Ok p1 -> prun p (l1 ++ l2) = prun p1 l2.
  Proof.
    revert p. induction l1 as [|o l1 IH]; cbn; intros p H; [injection H as <-; reflexivity|].
    apply obind_ok in H. destruct H as [[p' f] [H1 H]]. rewrite H1. cbn. now apply IH.
  Qed.
  Lemma prun_opt_set p c : prun p (opt_set c) = Ok (set_opt V p c).
  Proof. destruct c as [[v tw]|]; reflexivity. Qed.

  Lemma volume_follows_history_l es : forall b b' outs,
    mrunT b es = Ok (b', outs) ->
    prun (k_vol (fst b)) (vol_view (m_vol (snd b)) es) = Ok (k_vol (fst b')).
  Proof.
    induction es as [|e es IH]; intros b b' outs H; cbn in H.
    - injection H as <- <-. reflexivity.
    - apply obind_ok in H. destruct H as [[b1 o1] [H1 H]].
      apply obind_ok in H. destruct H as [[b2 o2] [H2 H]]. injection H as <- <-.
      specialize (IH _ _ _ H2). destruct e as [w| |i n]; cbn in H1.
      + injection H1 as <- <-. destruct w; cbn in *; exact IH.
      + injection H1 as <- <-. cbn in *.
        rewrite (prun_app _ _ _ _ (prun_opt_set _ _)). exact IH.
      + apply obind_ok in H1. destruct H1 as [[cs' c] [Hs H1]]. injection H1 as <- <-. cbn in *.
        destruct (ctl_volumes_tick_l _ _ _ _ _ Hs) as [[f Hv] _]. fold (dtl n). rewrite Hv. cbn. exact IH.
  Qed.

  Lemma routes_read_nth l c k p :
    nth_error l k = Some p -> nth_error (routes_read V l c) k = Some (set_opt V p (nth k c None)).
  Proof.
    revert c k. induction l as [|q l IH]; intros c k H; [destruct k; discriminate|].
    destruct c as [|x c]; cbn.
    - destruct k; cbn in *; [injection H as <-; reflexivity|]. rewrite H. destruct k; reflexivity.
    - destruct k; cbn in *; [injection H as <-; reflexivity|]. now apply IH.
  Qed.
  Lemma set_nth_nth {X} (l : list X) r x k d :
    nth k (set_nth l r x) d = if Nat.eqb r k && Nat.ltb k (length l) then x else nth k l d.
  Proof.
    revert r k. induction l as [|y l IH]; intros r k; cbn.
    - rewrite andb_false_r. destruct k; reflexivity.
    - destruct r, k; cbn; try reflexivity. rewrite IH. reflexivity.
  Qed.
  Lemma nth_repeat_none {X} n k : nth k (repeat (@None X) n) None = None.
  Proof. revert k. induction n; destruct k; cbn; auto. Qed.

  (** the mailbox always has one slot per route *)
  Definition boxed (b : tcsT * tcmd T V) : Prop := length (m_routes (snd b)) = length (k_routes (fst b)).
  Lemma set_nth_length {X} (l : list X) r x : length (set_nth l r x) = length l.
  Proof. revert r. induction l; destruct r; cbn; auto. Qed.
  Lemma routes_read_length l c : length (routes_read V l c) = length l.
  Proof. revert c. induction l; destruct c; cbn; auto. Qed.

  Lemma route_follows_history_l k es : forall b b' outs p,
    boxed b ->
    mrunT b es = Ok (b', outs) -> nth_error (k_routes (fst b)) k = Some p ->
    exists p', nth_error (k_routes (fst b')) k = Some p' /\
               prun p (route_view k (nth k (m_routes (snd b)) None) es) = Ok p'.
  Proof.
    induction es as [|e es IH]; intros b b' outs p Hb H Hp; cbn in H.
    - injection H as <- <-. eauto.
    - apply obind_ok in H. destruct H as [[b1 o1] [H1 H]].
      apply obind_ok in H. destruct H as [[b2 o2] [H2 H]]. injection H as <- <-.
      destruct e as [w| |i n]; cbn in H1.
      + injection H1 as <- <-.
        assert (Hb1 : boxed (fst b, write (snd b) w)).
        { unfold boxed in *. destruct w; cbn; try exact Hb. now rewrite set_nth_length. }
        destruct (IH _ _ _ p Hb1 H2 Hp) as [p' [Hp' Hr]]. exists p'. split; [exact Hp'|].
        destruct w; cbn in *; try exact Hr.
        rewrite set_nth_nth in Hr.
        assert (Hlt : Nat.ltb k (length (m_routes (snd b))) = true).
        { apply Nat.ltb_lt. rewrite Hb. apply nth_error_Some. congruence. }
        rewrite Hlt, andb_true_r in Hr. exact Hr.
      + injection H1 as <- <-.
        assert (Hb1 : boxed (ctl_read V silence identity (fst b) (snd b), no_cmd (length (k_routes (fst b))))).
        { unfold boxed. cbn. now rewrite repeat_length, routes_read_length. }
        pose proof (routes_read_nth _ (m_routes (snd b)) _ _ Hp) as Hq.
        destruct (IH _ _ _ _ Hb1 H2 Hq) as [p' [Hp' Hr]]. exists p'. split; [exact Hp'|].
        cbn [route_view]. rewrite (prun_app _ _ _ _ (prun_opt_set _ _)).
        cbn in Hr. rewrite nth_repeat_none in Hr. exact Hr.
      + apply obind_ok in H1. destruct H1 as [[cs' c] [Hs H1]]. injection H1 as <- <-.
        destruct (ctl_volumes_tick_l _ _ _ _ _ Hs) as [_ [Hru _]].
        destruct (routes_update_nth _ _ _ _ Hru) as [Hlen Hn]. destruct (Hn _ _ Hp) as [p1 [f [Hp1 Hu]]].
        assert (Hb1 : boxed (cs', snd b)) by (unfold boxed in *; cbn; congruence).
        destruct (IH _ _ _ _ Hb1 H2 Hp1) as [p' [Hp' Hr]]. exists p'. split; [exact Hp'|].
        cbn. fold (dtl n). rewrite Hu. cbn. exact Hr.
  Qed.

  (** ** commands written during a callback wait for the next callback *)
  Definition writes_of (es : list (mev T V)) : list (hwrite T V) :=
    flat_map (fun e => match e with MWrite w => [w] | _ => [] end) es.
  Lemma chunks_ignore_mailbox : forall l cs c c' r o,
    mrunT (cs, c) l = Ok (r, o) ->
    forallb (fun e => negb (is_write e) && negb (is_start e)) l = true ->
    mrunT (cs, c') l = Ok ((fst r, c'), o) /\ snd r = c.
  Proof.
    induction l as [|e l IH]; intros cs c c' r o H Hf; cbn in H.
    - injection H as <- <-. cbn. split; reflexivity.
    - cbn in Hf. apply andb_true_iff in Hf. destruct Hf as [He Hf].
      apply obind_ok in H. destruct H as [[b1 o1] [H1 H]].
      apply obind_ok in H. destruct H as [[b2 o2] [H2 H]]. injection H as <- <-.
      destruct e as [w| |i n]; cbn in He; try discriminate. cbn in H1.
      apply obind_ok in H1. destruct H1 as [[cs' cc] [Hs H1]]. injection H1 as <- <-. cbn in *.
      destruct (IH _ _ c' _ _ H2 Hf) as [Hx Hy]. rewrite Hs. cbn. rewrite Hx. cbn.
      split; [reflexivity|exact Hy].
  Qed.
  Lemma filter_only_chunks es :
    forallb (fun e => negb (is_start e)) es = true ->
    forallb (fun e => negb (is_write e) && negb (is_start e)) (filter (fun e : mev T V => negb (is_write e)) es) = true.
  Proof.
    induction es as [|e es IH]; cbn; intros H; [reflexivity|].
    apply andb_true_iff in H. destruct H as [He H].
    destruct (negb (is_write e)) eqn:E; cbn; [rewrite E, He; cbn; auto|auto].
  Qed.
  Lemma mid_callback_writes_wait_l es : forall b b' outs,
    forallb (fun e => negb (is_start e)) es = true ->
    mrunT b es = Ok (b', outs) ->
    mrunT b (filter (fun e => negb (is_write e)) es) = Ok ((fst b', snd b), outs) /\
    snd b' = fold_left write (writes_of es) (snd b).
  Proof.
    induction es as [|e es IH]; intros b b' outs Hns H; cbn in H.
    - injection H as <- <-. cbn. destruct b; split; reflexivity.
    - cbn in Hns. apply andb_true_iff in Hns. destruct Hns as [He Hns].
      apply obind_ok in H. destruct H as [[b1 o1] [H1 H]].
      apply obind_ok in H. destruct H as [[b2 o2] [H2 H]]. injection H as <- <-.
      destruct e as [w| |i n]; cbn in H1; [| discriminate |].
      + injection H1 as <- <-. destruct (IH _ _ _ Hns H2) as [Ha Hb]. cbn in *.
        split; [|exact Hb].
        destruct (chunks_ignore_mailbox _ _ _ (snd b) _ _ Ha (filter_only_chunks _ Hns)) as [Hx _].
        cbn in Hx. destruct b as [x y]. exact Hx.
      + apply obind_ok in H1. destruct H1 as [[cs' cc] [Hs H1]]. injection H1 as <- <-. cbn in *.
        destruct (IH _ _ _ Hns H2) as [Ha Hb]. cbn in *. rewrite Hs. cbn. rewrite Ha. cbn.
        split; [reflexivity|exact Hb].
  Qed.
End G.
