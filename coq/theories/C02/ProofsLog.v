(** C02 — "every live sound and effect is asked for every output frame exactly once, in order,
    in slices no longer than the internal buffer size": statements about the call logs of the
    model instantiated with logging sounds / effects ([logged O]). *)
From Coq Require Import List Arith Bool PeanoNat Lia.
From KV Require Import C02.Model C02.ProofsList C02.ProofsRefine C02.ProofsCor.
Import ListNotations.

(** the call logs of a track tree / of the whole mixer, in place *)
Inductive ltree := LT (snds fx : list (list nat)) (subs : list ltree).
Record mlogs := { ml_main_snds : list (list nat); ml_main_fx : list (list nat); ml_subs : list ltree; ml_sends : list (list (list nat)) }.
Fixpoint map_ltree (f : list nat -> list nat) (t : ltree) : ltree :=
  match t with LT s e subs => LT (map f s) (map f e) (map (map_ltree f) subs) end.
Definition map_mlogs (f : list nat -> list nat) (l : mlogs) : mlogs :=
  {| ml_main_snds := map f (ml_main_snds l); ml_main_fx := map f (ml_main_fx l);
     ml_subs := map (map_ltree f) (ml_subs l); ml_sends := map (map f) (ml_sends l) |}.

Section LtreeInd.
  Variable P : ltree -> Prop.
  Hypothesis H : forall s e subs, Forall P subs -> P (LT s e subs).
  Fixpoint ltree_ind' (t : ltree) : P t :=
    match t with
    | LT s e subs =>
        H s e subs ((fix go (l : list ltree) : Forall P l :=
                       match l with [] => Forall_nil P | x :: r => Forall_cons x (ltree_ind' x) (go r) end) subs)
    end.
End LtreeInd.

Lemma map_ltree_comp f g t : map_ltree f (map_ltree g t) = map_ltree (fun l => f (g l)) t.
Proof.
  revert t. apply ltree_ind'. intros s e subs HF. cbn. rewrite !map_map. f_equal.
  induction HF as [|x l Hx HF IH]; cbn; [reflexivity | now rewrite Hx, IH].
Qed.
Lemma map_ltree_ext f g t : (forall l, f l = g l) -> map_ltree f t = map_ltree g t.
Proof.
  intros E. revert t. apply ltree_ind'. intros s e subs HF. cbn. f_equal; try (apply map_ext; exact E).
  induction HF as [|x l Hx HF IH]; cbn; [reflexivity | now rewrite Hx, IH].
Qed.
Lemma map_app_nil (l : list (list nat)) : map (fun x => x ++ []) l = l.
Proof. induction l as [|x l IH]; cbn; [reflexivity | now rewrite app_nil_r, IH]. Qed.
Lemma map_ltree_id t : map_ltree (fun l => l ++ []) t = t.
Proof.
  revert t. apply ltree_ind'. intros s e subs HF. cbn. rewrite !map_app_nil. f_equal.
  induction HF as [|x l Hx HF IH]; cbn; [reflexivity | now rewrite Hx, IH].
Qed.

#[local] Arguments logged : simpl never.

Section G.
  Variable O : ops.
  Local Notation LO := (logged O).

  Fixpoint slogs_of (t : strack LO) : ltree :=
    match t with STrk _ subs snds fx _ => LT (map snd snds) (map snd fx) (map slogs_of subs) end.
  Definition mlogs_of (sx : smixer LO) : mlogs :=
    {| ml_main_snds := map snd (sm_snds LO (sx_main LO sx)); ml_main_fx := map snd (sm_fx LO (sx_main LO sx));
       ml_subs := map slogs_of (sx_subs LO sx);
       ml_sends := map (fun ks => map snd (ss_fx LO (snd ks))) (sx_sends LO sx) |}.

  (** what one chunk of m frames must add: [m] to every sound and effect of every track whose
      whole path is advancing in this chunk, nothing anywhere else *)
  Fixpoint step_logs (env : tI LO) (m : nat) (t : strack LO) : ltree :=
    match t with
    | STrk cs subs snds fx _ =>
        let env' := o_env LO cs env in
        if c_adv (snd (o_ctl LO env' cs m))
        then LT (map (fun s => snd s ++ [m]) snds) (map (fun e => snd e ++ [m]) fx) (map (step_logs env' m) subs)
        else LT (map snd snds) (map snd fx) (map slogs_of subs)
    end.
  Definition step_mlogs (env : tI LO) (m : nat) (sx : smixer LO) : mlogs :=
    {| ml_main_snds := map (fun s => snd s ++ [m]) (sm_snds LO (sx_main LO sx));
       ml_main_fx := map (fun s => snd s ++ [m]) (sm_fx LO (sx_main LO sx));
       ml_subs := map (step_logs env m) (sx_subs LO sx);
       ml_sends := map (fun ks => map (fun s => snd s ++ [m]) (ss_fx LO (snd ks))) (sx_sends LO sx) |}.

  Lemma spec_sounds_logs env snds m acc :
    map snd (fst (spec_sounds LO env snds m acc)) = map (fun s => snd s ++ [m]) snds.
  Proof.
    revert acc. induction snds as [|s r IH]; intros acc; cbn; [reflexivity|].
    unfold snd_call at 1. change (o_snd LO) with (lsnd_proc O). unfold lsnd_proc at 1.
    destruct (o_snd O env (fst s) m) as [s' o]. cbn [fst snd].
    specialize (IH (vadd LO acc (fit LO m o))).
    destruct (spec_sounds LO env r m (vadd LO acc (fit LO m o))) as [r' accf]. cbn in *. now rewrite IH.
  Qed.
  Lemma effects_logs env fx out :
    map snd (fst (effects_process LO env fx out)) = map (fun e => snd e ++ [length out]) fx.
  Proof.
    revert out. induction fx as [|e r IH]; intros out; cbn; [reflexivity|].
    pose proof (fx_call_len LO env e out) as Hl.
    unfold fx_call in *. change (o_fx LO) with (lfx_proc O) in *. unfold lfx_proc in *.
    destruct (o_fx O env (fst e) out) as [e' o]. cbn [fst snd] in *.
    specialize (IH (fit LO (length out) o)).
    destruct (effects_process LO env r (fit LO (length out) o)) as [r' outf]. cbn in *.
    rewrite IH, Hl. reflexivity.
  Qed.

  Theorem spec_track_logs m : forall t env, slogs_of (fst (fst (spec_track LO env m t))) = step_logs env m t.
  Proof.
    apply (strack_ind' LO (fun t => forall env, slogs_of (fst (fst (spec_track LO env m t))) = step_logs env m t)).
    intros cs subs snds fx routes HF env. cbn [spec_track step_logs].
    destruct (o_ctl LO (o_env LO cs env) cs m) as [cs' c]. cbn [fst snd].
    destruct (c_adv c); [|reflexivity].
    pose proof (spec_subs_len LO (o_env LO cs env) m subs (zeros LO m)) as Hl1.
    assert (Hs : map slogs_of (fst (fst (spec_subs LO (spec_track LO (o_env LO cs env) m) subs (zeros LO m)))) =
                 map (step_logs (o_env LO cs env) m) subs).
    { generalize (zeros LO m) as acc. clear Hl1.
      induction HF as [|x l Hx HF IH]; intros acc; cbn; [reflexivity|].
      specialize (Hx (o_env LO cs env)).
      destruct (spec_track LO (o_env LO cs env) m x) as [[t' sig] em0].
      specialize (IH (vadd LO acc sig)).
      destruct (spec_subs LO (spec_track LO (o_env LO cs env) m) l (vadd LO acc sig)) as [[l'' accf] em'].
      cbn in *. now rewrite Hx, IH. }
    destruct (spec_subs LO (spec_track LO (o_env LO cs env) m) subs (zeros LO m)) as [[subs' acc1] em1].
    cbn [fst snd] in *. rewrite zeros_len in Hl1.
    pose proof (spec_sounds_logs (o_env LO cs env) snds m acc1) as H2.
    pose proof (spec_sounds_len LO (o_env LO cs env) snds m acc1) as Hl2.
    destruct (spec_sounds LO (o_env LO cs env) snds m acc1) as [snds' acc2]. cbn [fst snd] in *.
    pose proof (effects_logs (o_env LO cs env) fx acc2) as H3.
    destruct (effects_process LO (o_env LO cs env) fx acc2) as [fx' y]. cbn [fst snd slogs_of] in *.
    rewrite H2, H3, Hs, Hl2, Hl1. reflexivity.
  Qed.

  Theorem spec_mix_logs env sx m : mlogs_of (fst (spec_mix LO env sx m)) = step_mlogs env m sx.
  Proof.
    unfold spec_mix, mlogs_of, step_mlogs.
    assert (Hs : map slogs_of (fst (fst (spec_subs LO (spec_track LO env m) (sx_subs LO sx) (zeros LO m)))) =
                 map (step_logs env m) (sx_subs LO sx)).
    { generalize (zeros LO m) as acc. induction (sx_subs LO sx) as [|x l IH]; intros acc; cbn; [reflexivity|].
      pose proof (spec_track_logs m x env) as Hx.
      destruct (spec_track LO env m x) as [[t' sig] em0].
      specialize (IH (vadd LO acc sig)).
      destruct (spec_subs LO (spec_track LO env m) l (vadd LO acc sig)) as [[l'' accf] em'].
      cbn in *. now rewrite Hx, IH. }
    pose proof (spec_subs_len LO env m (sx_subs LO sx) (zeros LO m)) as Hl1.
    destruct (spec_subs LO (spec_track LO env m) (sx_subs LO sx) (zeros LO m)) as [[subs' acc1] em].
    cbn [fst snd] in *. rewrite zeros_len in Hl1.
    assert (Hsd : forall acc, map (fun ks => map snd (ss_fx LO (snd ks))) (fst (spec_sends LO env m em (sx_sends LO sx) acc)) =
                  map (fun ks => map (fun s => snd s ++ [m]) (ss_fx LO (snd ks))) (sx_sends LO sx)).
    { induction (sx_sends LO sx) as [|[k s] l IH]; intros acc; cbn; [reflexivity|].
      unfold spec_send. rewrite send_input_recv, recv_len, zeros_len.
      destruct (o_ctl LO env (ss_ctl LO s) m) as [cs' c].
      pose proof (effects_logs env (ss_fx LO s) (vadd LO (zeros LO m) (recv LO k em (zeros LO m)))) as H3.
      unfold vadd in H3 at 2. rewrite add_into_len, zeros_len in H3.
      destruct (effects_process LO env (ss_fx LO s) (vadd LO (zeros LO m) (recv LO k em (zeros LO m)))) as [fx' y].
      cbn [fst snd] in *.
      specialize (IH (vadd LO acc (apply_gain LO c y))).
      destruct (spec_sends LO env m em l (vadd LO acc (apply_gain LO c y))) as [l'' accf].
      cbn in *. now rewrite H3, IH. }
    specialize (Hsd acc1).
    pose proof (spec_sends_len LO env m em (sx_sends LO sx) acc1) as Hl2.
    destruct (spec_sends LO env m em (sx_sends LO sx) acc1) as [sends' acc2]. cbn [fst snd] in *.
    unfold spec_main.
    destruct (o_ctl LO env (sm_ctl LO (sx_main LO sx)) m) as [cs' c].
    pose proof (spec_sounds_logs env (sm_snds LO (sx_main LO sx)) m acc2) as H2.
    pose proof (spec_sounds_len LO env (sm_snds LO (sx_main LO sx)) m acc2) as Hl3.
    destruct (spec_sounds LO env (sm_snds LO (sx_main LO sx)) m acc2) as [snds' acc3]. cbn [fst snd] in *.
    pose proof (effects_logs env (sm_fx LO (sx_main LO sx)) acc3) as H3.
    destruct (effects_process LO env (sm_fx LO (sx_main LO sx)) acc3) as [fx' y]. cbn [fst snd] in *.
    cbn. rewrite H2, H3, Hs, Hsd, Hl3, Hl2, Hl1. reflexivity.
  Qed.

  (** ** sequences of chunks, no track ever paused *)
  Definition never_paused : Prop := forall env cs n, c_adv (snd (o_ctl O env cs n)) = true.

  Lemma step_logs_adv env m t : never_paused -> step_logs env m t = map_ltree (fun l => l ++ [m]) (slogs_of t).
  Proof.
    intros NP. revert env. apply (strack_ind' LO (fun t => forall env, step_logs env m t = map_ltree (fun l => l ++ [m]) (slogs_of t))).
    intros cs subs snds fx routes HF env. cbn [step_logs slogs_of map_ltree].
    assert (E : c_adv (snd (o_ctl LO (o_env LO cs env) cs m)) = true) by exact (NP (o_env LO cs env) cs m).
    rewrite E. rewrite !map_map. f_equal.
    induction HF as [|x l Hx HF IH]; cbn; [reflexivity | now rewrite Hx, IH].
  Qed.
  Lemma step_mlogs_adv env m sx : never_paused -> step_mlogs env m sx = map_mlogs (fun l => l ++ [m]) (mlogs_of sx).
  Proof.
    intros NP. unfold step_mlogs, map_mlogs, mlogs_of. cbn. rewrite !map_map. f_equal.
    - apply map_ext. intros t. now apply step_logs_adv.
    - apply map_ext. intros ks. now rewrite map_map.
  Qed.
  Lemma map_mlogs_comp f g l : map_mlogs f (map_mlogs g l) = map_mlogs (fun x => f (g x)) l.
  Proof.
    unfold map_mlogs. cbn. rewrite !map_map. f_equal.
    - apply map_ext. intros t. apply map_ltree_comp.
    - apply map_ext. intros x. now rewrite map_map.
  Qed.
  Lemma map_mlogs_ext f g l : (forall x, f x = g x) -> map_mlogs f l = map_mlogs g l.
  Proof.
    intros E. unfold map_mlogs. f_equal; try (apply map_ext; exact E).
    - apply map_ext. intros t. now apply map_ltree_ext.
    - apply map_ext. intros x. apply map_ext. exact E.
  Qed.

  Theorem spec_chunks_logs ch ms :
    never_paused ->
    forall st, mlogs_of (snd (fst (spec_chunks LO ch st ms))) = map_mlogs (fun l => l ++ ms) (mlogs_of (snd st)).
  Proof.
    intros NP. induction ms as [|m ms IH]; intros st; cbn [spec_chunks].
    - cbn. unfold map_mlogs. rewrite !map_app_nil.
      assert (E1 : forall l, map (map_ltree (fun l => l ++ [])) l = l).
      { induction l as [|x l IHl]; cbn; [reflexivity | now rewrite map_ltree_id, IHl]. }
      assert (E2 : forall l : list (list (list nat)), map (map (fun l => l ++ [])) l = l).
      { induction l as [|x l IHl]; cbn; [reflexivity | now rewrite map_app_nil, IHl]. }
      rewrite E1, E2. destruct (mlogs_of (snd st)); reflexivity.
    - unfold spec_chunk.
      pose proof (spec_mix_logs (o_res LO (fst st) m) (snd st) m) as H1.
      destruct (spec_mix LO (o_res LO (fst st) m) (snd st) m) as [sx' sig]. cbn [fst snd] in *.
      specialize (IH (o_res LO (fst st) m, sx')).
      destruct (spec_chunks LO ch (o_res LO (fst st) m, sx') ms) as [st2 o2]. cbn [fst snd] in *.
      rewrite IH, H1, step_mlogs_adv by exact NP. rewrite map_mlogs_comp.
      apply map_mlogs_ext. intros x. now rewrite <- app_assoc.
  Qed.

  (** callbacks = the concatenation of their chunk lists *)
  Lemma run_chunks_app ch (r : renderer LO) a b :
    run_chunks LO ch r (a ++ b) =
    (fst (run_chunks LO ch (fst (run_chunks LO ch r a)) b),
     snd (run_chunks LO ch r a) ++ snd (run_chunks LO ch (fst (run_chunks LO ch r a)) b)).
  Proof.
    revert r. induction a as [|m a IH]; intros r; cbn [app run_chunks].
    - cbn. now destruct (run_chunks LO ch r b).
    - destruct (process_chunk LO ch r m) as [r1 o1]. rewrite IH.
      destruct (run_chunks LO ch r1 a) as [r2 o2]. cbn [fst snd].
      destruct (run_chunks LO ch r2 b) as [r3 o3]. cbn. now rewrite app_assoc.
  Qed.
  Lemma run_chunks_rb ch (r : renderer LO) ms : r_b LO (fst (run_chunks LO ch r ms)) = r_b LO r.
  Proof.
    revert r. induction ms as [|m ms IH]; intros r; cbn [run_chunks]; [reflexivity|].
    assert (H : r_b LO (fst (process_chunk LO ch r m)) = r_b LO r).
    { unfold process_chunk. destruct (mixer_process LO _ _ _). reflexivity. }
    destruct (process_chunk LO ch r m) as [r1 o1]. specialize (IH r1).
    destruct (run_chunks LO ch r1 ms) as [r2 o2]. cbn in *. congruence.
  Qed.
  Lemma run_callbacks_chunks ch (r : renderer LO) cbs :
    run_callbacks LO ch r cbs = run_chunks LO ch r (concat (map (chunk_sizes (r_b LO r)) cbs)).
  Proof.
    revert r. induction cbs as [|n cbs IH]; intros r; cbn [run_callbacks map concat]; [reflexivity|].
    rewrite run_chunks_app. pose proof (run_chunks_rb ch r (chunk_sizes (r_b LO r) n)) as Hb.
    destruct (run_chunks LO ch r (chunk_sizes (r_b LO r) n)) as [r1 o1]. cbn [fst snd] in *.
    rewrite IH, Hb. destruct (run_chunks LO ch r1 _) as [r2 o2]. reflexivity.
  Qed.

  Lemma concat_chunks_bounds b cbs :
    1 <= b -> Forall (fun m => 1 <= m <= b) (concat (map (chunk_sizes b) cbs)).
  Proof.
    intros Hb. induction cbs as [|n cbs IH]; cbn; [constructor|].
    apply Forall_app. split; [apply (chunk_sizes_spec b n Hb) | exact IH].
  Qed.

  Theorem exactly_once_in_order ch b res sx cbs :
    1 <= b -> NoDup (map fst (sx_sends LO sx)) -> never_paused ->
    let ms := concat (map (chunk_sizes b) cbs) in
    mlogs_of (abs_mixer LO (r_mixer LO (fst (run_callbacks LO ch (conc_renderer LO b res sx) cbs))))
    = map_mlogs (fun l => l ++ ms) (mlogs_of sx)
    /\ Forall (fun m => 1 <= m <= b) ms
    /\ Forall (fun n => list_sum (chunk_sizes b n) = n) cbs.
  Proof.
    intros Hb ND NP ms. split; [|split].
    - rewrite run_callbacks_chunks. cbn [r_b conc_renderer]. fold ms.
      rewrite chunks_refine; [| | exact ND].
      2:{ eapply Forall_impl; [|apply (concat_chunks_bounds b cbs Hb)]. cbn. intros; lia. }
      cbn [fst r_mixer conc_renderer].
      pose proof (spec_chunks_logs ch ms NP (res, sx)) as HL. cbn [snd] in HL. rewrite <- HL.
      f_equal. set (sx' := snd (fst (spec_chunks LO ch (res, sx) ms))).
      (* abs (conc sx') = sx' *)
      unfold abs_mixer, conc_mixer. cbn. destruct sx' as [mn subs sends]. cbn. f_equal.
      + destruct mn; reflexivity.
      + rewrite map_map. rewrite <- (map_id subs) at 2. apply map_ext_Forall.
        apply Forall_forall. intros t _. revert t.
        apply (strack_ind' LO (fun t => abs_track LO (conc_track LO b t) = t)).
        intros cs su sn fx ro HF. cbn. f_equal. rewrite map_map. rewrite <- (map_id su) at 2.
        apply map_ext_Forall. exact HF.
      + unfold conc_sends. rewrite !map_map. rewrite <- (map_id sends) at 2. apply map_ext.
        intros [k [c f]]. reflexivity.
    - apply concat_chunks_bounds. exact Hb.
    - apply Forall_forall. intros n _. apply (chunk_sizes_spec b n Hb).
  Qed.
End G.
