(** C02 / C11 — the mixer at BUFFER level (executable transcription, no proofs) and the clean
    signal-level specification it is proved to refine.

    Transcribed, statement by statement, from
      backend/renderer.rs        Renderer::{process, process_chunk}
      backend/resources/mixer.rs Mixer::process
      track/sub.rs               Track::process
      track/main.rs              MainTrack::process
      track/send.rs              SendTrack::{add_input, process}

    Everything numeric is abstract: a frame type [F] with [fzero], [fadd] ([Frame +=]),
    [fscale] ([Frame *= f32], gains are of type [G]); NO law is assumed about them, so every
    theorem proved about this section holds bit-for-bit for IEEE binary32 pairs.

    Sounds, effects and the control part of a track (volume / route-volume parameters, the
    pause state machine, the spatial parameters) are abstract state machines, fields of the
    record [ops] (written snd_proc, fx_proc, ctl_env, ctl_step, res_step inside the section):
      [snd_proc env s n]   `sound.process(&mut temp[..n], dt, &info)`: the sound is asked for n
                           frames ("should overwrite the entire out slice", sound.rs);
      [fx_proc env e xs]   `effect.process(out, dt, &info)` in place on a slice holding xs;
      [ctl_env cs env]     the `Info` a track builds (its own SpatialTrackInfo overrides the
                           parent's) — read BEFORE any update, as in the code;
      [ctl_step env cs n]  `volume.update`, every `route.volume.update`, the playback state
                           manager's `update` (all with dt * n), plus the spatial parameters:
                           returns the new control state and what the chunk needs from it:
                             c_adv      playback_state().is_advancing()
                             c_gain i   volume.interpolated_value((i+1)/n).as_amplitude()
                                          * interpolated_fade_volume((i+1)/n).as_amplitude()
                             c_rgain r  routes[r].volume.value().as_amplitude()   (one per chunk)
                             c_spat i   the spatialisation of frame i (identity if not spatial)
                           so fixed AND tweened volumes are covered.
    [env : I] stands for `Info` (clocks, modulators, listeners): [res_step] is what
    process_chunk does to them before the mixer runs.

    Arenas iterate most-recently-inserted first (atomic_arena: insert_with_key makes the new
    slot the head of the occupied list); a storage is therefore the list in iteration order,
    insertion = cons.  Send tracks are keyed: [list (nat * sendtrack)]; a route naming a key
    that is not present (stale SendTrackId) is skipped ([send_add_input] on [[]]). *)
From Coq Require Import List Arith Bool PeanoNat.
From KV Require Import Base.Outcome.
Import ListNotations.

(** what a chunk needs from a track's control state *)
Record tctl (F G : Type) := { c_adv : bool; c_gain : nat -> G; c_rgain : nat -> G; c_spat : nat -> F -> F }.
Arguments Build_tctl {F G}.
Arguments c_adv {F G}.
Arguments c_gain {F G}.
Arguments c_rgain {F G}.
Arguments c_spat {F G}.

(** all abstract types and operations, bundled: a theorem [forall O : ops, ...] holds for ANY
    frame arithmetic, sounds, effects, control behaviour and output stage *)
Record ops := {
  tF : Type; tG : Type; tI : Type; tSS : Type; tES : Type; tCS : Type; tO : Type;
  o_zero : tF;
  o_add : tF -> tF -> tF;
  o_scale : tF -> tG -> tF;
  o_snd : tI -> tSS -> nat -> tSS * list tF;
  o_fx : tI -> tES -> list tF -> tES * list tF;
  o_env : tCS -> tI -> tI;
  o_ctl : tI -> tCS -> nat -> tCS * tctl tF tG;
  o_res : tI -> nat -> tI;
  o_out : nat -> tF -> list tO
}.

Fixpoint mapi_from {A B : Type} (k : nat) (f : nat -> A -> B) (l : list A) : list B :=
  match l with [] => [] | x :: r => f k x :: mapi_from (S k) f r end.
Definition mapi {A B : Type} (f : nat -> A -> B) (l : list A) : list B := mapi_from 0 f l.

(** `out.chunks_mut(internal_buffer_size * num_channels)`: b, b, ..., remainder (in frames) *)
Fixpoint chunk_sizes_fuel (fuel b n : nat) : list nat :=
  match fuel with
  | 0 => []
  | S f => if Nat.eqb n 0 then [] else if Nat.leb n b then [n] else b :: chunk_sizes_fuel f b (n - b)
  end.
Definition chunk_sizes (b n : nat) : list nat := chunk_sizes_fuel n b n.

Section Mixer.
  Variable O : ops.
  Local Notation F := (tF O).
  Local Notation G := (tG O).
  Local Notation I := (tI O).
  Local Notation SS := (tSS O).
  Local Notation ES := (tES O).
  Local Notation CS := (tCS O).
  Local Notation fzero := (o_zero O).
  Local Notation fadd := (o_add O).
  Local Notation fscale := (o_scale O).
  Local Notation snd_proc := (o_snd O).
  Local Notation fx_proc := (o_fx O).
  Local Notation ctl_env := (o_env O).
  Local Notation ctl_step := (o_ctl O).
  Local Notation res_step := (o_res O).
  Local Notation out_frame := (o_out O).
  Local Notation tctl := (tctl (tF O) (tG O)).

  (** ** buffers *)
  Definition zeros (n : nat) : list F := repeat fzero n.
  (** `buf.fill(Frame::ZERO)` *)
  Definition fill_zero (l : list F) : list F := map (fun _ => fzero) l.
  (** `for (o, s) in out.iter_mut().zip(src.iter().copied()) { *o += s }` — zip truncates *)
  Fixpoint add_into (out src : list F) : list F :=
    match out, src with
    | o :: out', s :: src' => fadd o s :: add_into out' src'
    | _, _ => out
    end.
  (** `for (i, a) in input.iter_mut().zip(src.iter().copied()) { *i += a * amp }` *)
  Fixpoint add_scaled (inp src : list F) (g : G) : list F :=
    match inp, src with
    | i :: inp', s :: src' => fadd i (fscale s g) :: add_scaled inp' src' g
    | _, _ => inp
    end.
  (** a callee that is handed `&mut buf[..n]` can only leave n frames there *)
  Definition fit (n : nat) (o : list F) : list F := firstn n o ++ zeros (n - length o).

  Definition snd_call (env : I) (s : SS) (n : nat) : SS * list F :=
    let '(s', o) := snd_proc env s n in (s', fit n o).
  Definition fx_call (env : I) (e : ES) (xs : list F) : ES * list F :=
    let '(e', ys) := fx_proc env e xs in (e', fit (length xs) ys).

  (** ** state *)
  Inductive track :=
  | Trk (cs : CS) (subs : list track) (snds : list SS) (fx : list ES) (routes : list nat) (temp : list F).
  Record sendtrack := { sd_ctl : CS; sd_fx : list ES; sd_input : list F }.
  Record maintrack := { mn_ctl : CS; mn_snds : list SS; mn_fx : list ES; mn_temp : list F }.
  Record mixer := { mx_main : maintrack; mx_subs : list track; mx_sends : list (nat * sendtrack); mx_temp : list F }.
  Definition sends_t := list (nat * sendtrack).

  (** ** loops shared by Track / MainTrack / Mixer *)
  (** `for (_, sound) in &mut self.sounds { sound.process(&mut temp[..out.len()]); out += temp; temp.fill(ZERO) }` *)
  Fixpoint sounds_process (env : I) (snds : list SS) (temp out : list F) : list SS * list F * list F :=
    match snds with
    | [] => ([], temp, out)
    | s :: r =>
        let m := length out in
        let '(s', o) := snd_call env s m in
        let temp1 := o ++ skipn m temp in
        let out1 := add_into out temp1 in
        let temp2 := fill_zero temp1 in
        let '(r', tempf, outf) := sounds_process env r temp2 out1 in
        (s' :: r', tempf, outf)
    end.
  (** `for effect in &mut self.effects { effect.process(out) }` *)
  Fixpoint effects_process (env : I) (fx : list ES) (out : list F) : list ES * list F :=
    match fx with
    | [] => ([], out)
    | e :: r =>
        let '(e', out1) := fx_call env e out in
        let '(r', outf) := effects_process env r out1 in
        (e' :: r', outf)
    end.
  (** `*frame *= volume * fade_volume` with the per-frame interpolated gain *)
  Definition apply_gain (c : tctl) (out : list F) : list F := mapi (fun i x => fscale x (c_gain c i)) out.
  Definition apply_spat (c : tctl) (out : list F) : list F := mapi (c_spat c) out.

  (** `send_tracks.get_mut(id)` then `add_input(out, volume)`; no such key: `continue` *)
  Fixpoint send_add_input (sends : sends_t) (k : nat) (src : list F) (g : G) : sends_t :=
    match sends with
    | [] => []
    | (k', s) :: r =>
        if Nat.eqb k' k
        then (k', {| sd_ctl := sd_ctl s; sd_fx := sd_fx s; sd_input := add_scaled (sd_input s) src g |}) :: r
        else (k', s) :: send_add_input r k src g
    end.
  Fixpoint routes_output_from (r : nat) (routes : list nat) (rg : nat -> G) (out : list F) (sends : sends_t) : sends_t :=
    match routes with
    | [] => sends
    | k :: rest => routes_output_from (S r) rest rg out (send_add_input sends k out (rg r))
    end.

  (** `for (_, sub_track) in &mut self.sub_tracks { sub_track.process(&mut temp[..out.len()], ..); out += temp; temp.fill(ZERO) }` *)
  Definition subs_loop (proc : track -> list F -> sends_t -> track * list F * sends_t) (m : nat) :=
    fix go (l : list track) (temp out : list F) (sends : sends_t) {struct l}
      : list track * list F * list F * sends_t :=
      match l with
      | [] => ([], temp, out, sends)
      | t :: l' =>
          let '(t', slice, sends1) := proc t (firstn m temp) sends in
          let temp1 := slice ++ skipn m temp in
          let out1 := add_into out temp1 in
          let temp2 := fill_zero temp1 in
          let '(l'', tempf, outf, sendsf) := go l' temp2 out1 sends1 in
          (t' :: l'', tempf, outf, sendsf)
      end.

  (** ** Track::process (track/sub.rs) *)
  Fixpoint track_process (env : I) (t : track) (out : list F) (sends : sends_t) {struct t}
    : track * list F * sends_t :=
    match t with
    | Trk cs subs snds fx routes temp =>
        let env' := ctl_env cs env in                       (* get info *)
        let m := length out in
        let '(cs', c) := ctl_step env' cs m in              (* update volume parameters / playback state *)
        if c_adv c then
          let '(subs', temp1, out1, sends1) := subs_loop (track_process env') m subs temp out sends in
          let '(snds', temp2, out2) := sounds_process env' snds temp1 out1 in
          let '(fx', out3) := effects_process env' fx out2 in
          let out4 := apply_spat c out3 in
          let out5 := apply_gain c out4 in
          let sends2 := routes_output_from 0 routes (c_rgain c) out5 sends1 in
          (Trk cs' subs' snds' fx' routes temp2, out5, sends2)
        else
          (* `out.fill(Frame::ZERO); return;` — before children, sounds, effects and sends *)
          (Trk cs' subs snds fx routes temp, fill_zero out, sends)
    end.

  (** ** SendTrack::process (track/send.rs) *)
  Definition sendtrack_process (env : I) (s : sendtrack) (out : list F) : sendtrack * list F :=
    let m := length out in
    let '(cs', c) := ctl_step env (sd_ctl s) m in
    let out1 := add_into out (sd_input s) in
    let input1 := fill_zero (sd_input s) in
    let '(fx', out2) := effects_process env (sd_fx s) out1 in
    ({| sd_ctl := cs'; sd_fx := fx'; sd_input := input1 |}, apply_gain c out2).

  (** ** MainTrack::process (track/main.rs) *)
  Definition maintrack_process (env : I) (mn : maintrack) (out : list F) : maintrack * list F :=
    let m := length out in
    let '(cs', c) := ctl_step env (mn_ctl mn) m in
    let '(snds', temp1, out1) := sounds_process env (mn_snds mn) (mn_temp mn) out in
    let '(fx', out2) := effects_process env (mn_fx mn) out1 in
    ({| mn_ctl := cs'; mn_snds := snds'; mn_fx := fx'; mn_temp := temp1 |}, apply_gain c out2).

  (** ** Mixer::process (backend/resources/mixer.rs) *)
  Fixpoint sends_loop (env : I) (m : nat) (l : sends_t) (temp out : list F) : sends_t * list F * list F :=
    match l with
    | [] => ([], temp, out)
    | (k, s) :: l' =>
        let '(s', slice) := sendtrack_process env s (firstn m temp) in
        let temp1 := slice ++ skipn m temp in
        let out1 := add_into out temp1 in
        let temp2 := fill_zero temp1 in
        let '(l'', tempf, outf) := sends_loop env m l' temp2 out1 in
        ((k, s') :: l'', tempf, outf)
    end.
  Definition mixer_process (env : I) (mx : mixer) (out : list F) : mixer * list F :=
    let m := length out in
    let '(subs', temp1, out1, sends1) := subs_loop (track_process env) m (mx_subs mx) (mx_temp mx) out (mx_sends mx) in
    let '(sends2, temp2, out2) := sends_loop env m sends1 temp1 out1 in
    let '(main', out3) := maintrack_process env (mx_main mx) out2 in
    ({| mx_main := main'; mx_subs := subs'; mx_sends := sends2; mx_temp := temp2 |}, out3).

  (** ** Renderer (backend/renderer.rs) — device side abstract: [out_frame ch f] is what the
      output stage writes for one frame on a device with [ch] channels *)
  Record renderer := { r_res : I; r_mixer : mixer; r_temp : list F; r_b : nat }.

  Definition process_chunk (ch : nat) (r : renderer) (m : nat) : renderer * list (tO O) :=
    let res' := res_step (r_res r) m in     (* modulators.process; clocks.update; listeners.update *)
    let '(mx', slice) := mixer_process res' (r_mixer r) (firstn m (r_temp r)) in
    let temp1 := slice ++ skipn m (r_temp r) in
    let dev := flat_map (out_frame ch) (firstn m temp1) in
    ({| r_res := res'; r_mixer := mx'; r_temp := fill_zero temp1; r_b := r_b r |}, dev).

  Fixpoint run_chunks (ch : nat) (r : renderer) (ms : list nat) : renderer * list (tO O) :=
    match ms with
    | [] => (r, [])
    | m :: ms' =>
        let '(r1, o1) := process_chunk ch r m in
        let '(r2, o2) := run_chunks ch r1 ms' in
        (r2, o1 ++ o2)
    end.
  (** one device callback of [n] frames; `chunks_mut(0)` panics *)
  Definition renderer_process (ch : nat) (r : renderer) (n : nat) : outcome (renderer * list (tO O)) :=
    if Nat.eqb (r_b r * ch) 0 then Panic ChunkSizeZero else Ok (run_chunks ch r (chunk_sizes (r_b r) n)).
  (** a sequence of callbacks with nothing happening in between (no commands in flight) *)
  Fixpoint run_callbacks (ch : nat) (r : renderer) (cbs : list nat) : renderer * list (tO O) :=
    match cbs with
    | [] => (r, [])
    | n :: cbs' =>
        let '(r1, o1) := run_chunks ch r (chunk_sizes (r_b r) n) in
        let '(r2, o2) := run_callbacks ch r1 cbs' in
        (r2, o1 ++ o2)
    end.

  (** * The specification: signals, no buffers
      T(t)  = gain_t . Sp_t ( FX_t ( ((0 + T(c1)) + T(c2)) ... + s1 + s2 ... ) )   (zeros if not advancing)
      in_s  = ((0 + e1) + e2) ...   over the emissions (T(t) scaled by the route gain) addressed to s,
              in the order the tracks finish (children before their parent, arena order)
      S(s)  = gain_s . FX_s (0 + in_s)
      out   = gain_main . FX_main ( (((0 + T(t1)) + ...) + S(s1) + ...) + main-track sounds ) *)
  Inductive strack :=
  | STrk (cs : CS) (subs : list strack) (snds : list SS) (fx : list ES) (routes : list nat).
  Record ssend := { ss_ctl : CS; ss_fx : list ES }.
  Record smain := { sm_ctl : CS; sm_snds : list SS; sm_fx : list ES }.
  Record smixer := { sx_main : smain; sx_subs : list strack; sx_sends : list (nat * ssend) }.

  Definition vadd : list F -> list F -> list F := add_into.
  Definition vscale (v : list F) (g : G) : list F := map (fun x => fscale x g) v.
  Definition emis := list (nat * list F).

  Fixpoint spec_sounds (env : I) (snds : list SS) (m : nat) (acc : list F) : list SS * list F :=
    match snds with
    | [] => ([], acc)
    | s :: r =>
        let '(s', o) := snd_call env s m in
        let '(r', accf) := spec_sounds env r m (vadd acc o) in
        (s' :: r', accf)
    end.
  Fixpoint emit_from (r : nat) (routes : list nat) (rg : nat -> G) (sig : list F) : emis :=
    match routes with
    | [] => []
    | k :: rest => (k, vscale sig (rg r)) :: emit_from (S r) rest rg sig
    end.
  Definition spec_subs (proc : strack -> strack * list F * emis) :=
    fix go (l : list strack) (acc : list F) {struct l} : list strack * list F * emis :=
      match l with
      | [] => ([], acc, [])
      | t :: l' =>
          let '(t', sig, em) := proc t in
          let '(l'', accf, em') := go l' (vadd acc sig) in
          (t' :: l'', accf, em ++ em')
      end.
  Fixpoint spec_track (env : I) (m : nat) (t : strack) {struct t} : strack * list F * emis :=
    match t with
    | STrk cs subs snds fx routes =>
        let env' := ctl_env cs env in
        let '(cs', c) := ctl_step env' cs m in
        if c_adv c then
          let '(subs', acc1, em1) := spec_subs (spec_track env' m) subs (zeros m) in
          let '(snds', acc2) := spec_sounds env' snds m acc1 in
          let '(fx', y) := effects_process env' fx acc2 in
          let z := apply_gain c (apply_spat c y) in
          (STrk cs' subs' snds' fx' routes, z, em1 ++ emit_from 0 routes (c_rgain c) z)
        else (STrk cs' subs snds fx routes, zeros m, [])
    end.
  (** what send [k] receives: the emissions addressed to it, summed in order *)
  Definition send_input (m k : nat) (em : emis) : list F :=
    fold_left (fun acc (e : nat * list F) => if Nat.eqb (fst e) k then vadd acc (snd e) else acc) em (zeros m).
  Definition spec_send (env : I) (s : ssend) (inp : list F) : ssend * list F :=
    let m := length inp in
    let '(cs', c) := ctl_step env (ss_ctl s) m in
    let '(fx', y) := effects_process env (ss_fx s) (vadd (zeros m) inp) in
    ({| ss_ctl := cs'; ss_fx := fx' |}, apply_gain c y).
  Fixpoint spec_sends (env : I) (m : nat) (em : emis) (l : list (nat * ssend)) (acc : list F) : list (nat * ssend) * list F :=
    match l with
    | [] => ([], acc)
    | (k, s) :: l' =>
        let '(s', sig) := spec_send env s (send_input m k em) in
        let '(l'', accf) := spec_sends env m em l' (vadd acc sig) in
        ((k, s') :: l'', accf)
    end.
  Definition spec_main (env : I) (m : nat) (mn : smain) (acc : list F) : smain * list F :=
    let '(cs', c) := ctl_step env (sm_ctl mn) m in
    let '(snds', acc1) := spec_sounds env (sm_snds mn) m acc in
    let '(fx', y) := effects_process env (sm_fx mn) acc1 in
    ({| sm_ctl := cs'; sm_snds := snds'; sm_fx := fx' |}, apply_gain c y).
  Definition spec_mix (env : I) (sx : smixer) (m : nat) : smixer * list F :=
    let '(subs', acc1, em) := spec_subs (spec_track env m) (sx_subs sx) (zeros m) in
    let '(sends', acc2) := spec_sends env m em (sx_sends sx) acc1 in
    let '(main', out) := spec_main env m (sx_main sx) acc2 in
    ({| sx_main := main'; sx_subs := subs'; sx_sends := sends' |}, out).

  (** the buffer-level state that a signal-level state stands for: every `temp_buffer` and
      every send `input` is `vec![Frame::ZERO; internal_buffer_size]` — what the builders create *)
  Fixpoint conc_track (b : nat) (t : strack) : track :=
    match t with
    | STrk cs subs snds fx routes => Trk cs (map (conc_track b) subs) snds fx routes (zeros b)
    end.
  Definition conc_send (b : nat) (s : ssend) : sendtrack := {| sd_ctl := ss_ctl s; sd_fx := ss_fx s; sd_input := zeros b |}.
  Definition conc_sends (b : nat) (l : list (nat * ssend)) : sends_t := map (fun ks => (fst ks, conc_send b (snd ks))) l.
  Definition conc_main (b : nat) (mn : smain) : maintrack :=
    {| mn_ctl := sm_ctl mn; mn_snds := sm_snds mn; mn_fx := sm_fx mn; mn_temp := zeros b |}.
  Definition conc_mixer (b : nat) (sx : smixer) : mixer :=
    {| mx_main := conc_main b (sx_main sx); mx_subs := map (conc_track b) (sx_subs sx);
       mx_sends := conc_sends b (sx_sends sx); mx_temp := zeros b |}.
  Definition conc_renderer (b : nat) (res : I) (sx : smixer) : renderer :=
    {| r_res := res; r_mixer := conc_mixer b sx; r_temp := zeros b; r_b := b |}.

  (** the signal-level renderer: one frame-sequential machine *)
  Definition spec_chunk (ch : nat) (st : I * smixer) (m : nat) : (I * smixer) * list (tO O) :=
    let res' := res_step (fst st) m in
    let '(sx', sig) := spec_mix res' (snd st) m in
    ((res', sx'), flat_map (out_frame ch) sig).
  Fixpoint spec_chunks (ch : nat) (st : I * smixer) (ms : list nat) : (I * smixer) * list (tO O) :=
    match ms with
    | [] => (st, [])
    | m :: ms' =>
        let '(st1, o1) := spec_chunk ch st m in
        let '(st2, o2) := spec_chunks ch st1 ms' in
        (st2, o1 ++ o2)
    end.
End Mixer.

Arguments Trk {O}.
Arguments STrk {O}.

(** * Call logs (ghost): a sound / effect wrapped so that its state also records the length of
    every slice it was asked for.  Instantiating the model with the wrapped procedures turns
    "asked for every frame exactly once, in order, in slices <= b" into a statement about states. *)
Definition lsnd_proc (O : ops) (env : tI O) (s : tSS O * list nat) (n : nat) : (tSS O * list nat) * list (tF O) :=
  let '(s', o) := o_snd O env (fst s) n in ((s', snd s ++ [n]), o).
Definition lfx_proc (O : ops) (env : tI O) (e : tES O * list nat) (xs : list (tF O)) : (tES O * list nat) * list (tF O) :=
  let '(e', o) := o_fx O env (fst e) xs in ((e', snd e ++ [length xs]), o).
Definition logged (O : ops) : ops :=
  {| tF := tF O; tG := tG O; tI := tI O; tSS := tSS O * list nat; tES := tES O * list nat; tCS := tCS O; tO := tO O;
     o_zero := o_zero O; o_add := o_add O; o_scale := o_scale O;
     o_snd := lsnd_proc O; o_fx := lfx_proc O; o_env := o_env O; o_ctl := o_ctl O; o_res := o_res O; o_out := o_out O |}.

(** * The output stage of process_chunk, per frame, over an abstract sample type:
    clamp both sides to [-1, 1]; one channel: (l + r) / 2; otherwise l, r and silence on the
    remaining channels. *)
Section OutStage.
  Variable S : Type.
  Variables (clamp1 : S -> S) (sadd : S -> S -> S) (shalf : S -> S) (szero : S).
  Definition out_frame_of (ch : nat) (f : S * S) : list S :=
    let l := clamp1 (fst f) in
    let r := clamp1 (snd f) in
    if Nat.eqb ch 1 then [shalf (sadd l r)] else l :: r :: repeat szero (ch - 2).
End OutStage.
