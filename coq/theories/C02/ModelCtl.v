(** C02 — the CONTROL part of a track, concretely (executable transcription, no proofs).

    C02/Model.v leaves the control behaviour of a track abstract ([o_ctl]: "volume.update, every
    route.volume.update, the playback state manager's update ... returns what the chunk needs").
    Here it is transcribed, statement by statement, from the top of

      track/sub.rs   Track::process          volume.update; every route.volume.update;
                                             playback_state_manager.update; the "tracks have no stopped
                                             state" repair; `if !playback_state().is_advancing()
                                             { out.fill(ZERO); return }`; per-frame
                                             `volume.interpolated((i+1)/n).as_amplitude()
                                              * interpolated_fade_volume((i+1)/n).as_amplitude()`;
                                             `send.add_input(out, route.volume.value())`
      track/sub.rs   Track::read_commands    volume, every route, (spatial,) pause, resume — called from
                                             on_start_processing, ONCE PER CALLBACK
      track/main.rs  MainTrack::process      volume.update; per-frame volume (no state manager)
      track/send.rs  SendTrack::process      the same
      track/sub.rs   Track::should_be_removed  (the recursive liveness test; section [Keep])

    The parameters are the C06 model ([param], [param_update], [param_set]), the state manager is the
    C03 model ([psm], [psm_update], [psm_pause], [psm_resume]).  Generic over the time type [T], the
    decibel type [V] with its interpolation, the gain type [G] — so the theorems hold for ANY number
    operations, bit for bit for IEEE. *)
From Coq Require Import ZArith List Bool.
From KV Require Import Base.Outcome Base.Num C19.Model C06.Model C03.Model C02.Model.
Import ListNotations.
Local Open Scope Z_scope.

Section Ctl.
  Context {T : Type} {NT : Num T} {ND : NumDur T}.
  Variable powf : T -> T -> T.
  Variable V : Type.                           (* Decibels *)
  Variable interp : V -> V -> T -> V.
  Variables silence identity : V.
  Variable F : Type.                           (* frames (only the type: spatialisation is the identity here) *)
  Variable G : Type.                           (* gains *)
  Variable amp : V -> G.                       (* Decibels::as_amplitude *)
  Variable gmul : G -> G -> G.                 (* volume * fade_volume *)
  Variable dt : T.                             (* seconds per frame *)

  Notation paramV := (param T V).
  Notation psmT := (psm T V).

  (** the control state of one track; [k_psm = None]: main track / send track (no state manager) *)
  Record tcs := {
    k_id : nat;
    k_vol : paramV;                 (* volume *)
    k_routes : list paramV;         (* sends[r].volume, in the order of the track's route list *)
    k_psm : option psmT;            (* playback_state_manager *)
  }.

  (** `for (_, route) in &mut self.sends { route.volume.update(dt * len, &info) }` *)
  Fixpoint routes_update (l : list paramV) (dtl : T) (i : info T) : outcome (list paramV) :=
    match l with
    | [] => Ok []
    | p :: r =>
        let! (p', _) := param_update powf V interp p dtl i in
        let! r' := routes_update r dtl i in
        Ok (p' :: r')
    end.

  (** [PlaybackStateManager::mark_as_paused] *)
  Definition psm_mark_paused (m : psmT) : psmT := {| ps := Paused; fade := fade m |}.
  (** "tracks have no stopped state: a track that was waiting to resume at the time of a clock that
      no longer exists stays paused" *)
  Definition repair (m : psmT) (changed : bool) : psmT :=
    if changed && is_stopped (ps m) then psm_mark_paused m else m.

  (** `(i + 1) as f64 / num_frames as f64` *)
  Definition amount_of (n k : nat) : T := ndiv (nofZ (Z.of_nat k + 1)) (nofZ (Z.of_nat n)).
  Definition route_gains (routes : list paramV) (r : nat) : G :=
    nth r (map (fun p => amp (p_raw p)) routes) (amp silence).

  (** the top of [Track::process] / [MainTrack::process] / [SendTrack::process] for a chunk of [n] frames:
      FIRST the volume parameters, THEN the state manager, THEN the guard *)
  Definition ctl_step_o (i : info T) (cs : tcs) (n : nat) : outcome (tcs * tctl F G) :=
    let dtl := nmul dt (nofZ (Z.of_nat n)) in
    let! (vol, _) := param_update powf V interp (k_vol cs) dtl i in
    let! routes := routes_update (k_routes cs) dtl i in
    match k_psm cs with
    | None =>
        Ok ({| k_id := k_id cs; k_vol := vol; k_routes := routes; k_psm := None |},
            Build_tctl true
              (fun k => amp (param_interpolated V interp vol (amount_of n k)))
              (route_gains routes)
              (fun _ x => x))
    | Some m =>
        let! (m0, changed) := psm_update powf V interp identity m dtl i in
        let m1 := repair m0 changed in
        Ok ({| k_id := k_id cs; k_vol := vol; k_routes := routes; k_psm := Some m1 |},
            Build_tctl (is_advancing (ps m1))
              (fun k => gmul (amp (param_interpolated V interp vol (amount_of n k)))
                             (amp (param_interpolated V interp (fade m1) (amount_of n k))))
              (route_gains routes)
              (fun _ x => x))
    end.

  (** what a chunk sees of a track whose update panicked (the audio thread is gone): nothing *)
  Definition dead_ctl : tctl F G :=
    Build_tctl false (fun _ => amp silence) (fun _ => amp silence) (fun _ x => x).
  (** [o_ctl] of C02/Model.v is total: the control state of the instance is [outcome tcs] *)
  Definition ctl_step (i : info T) (c : outcome tcs) (n : nat) : outcome tcs * tctl F G :=
    match c with
    | Ok cs =>
        match ctl_step_o i cs n with
        | Ok (cs', c') => (Ok cs', c')
        | Panic k => (Panic k, dead_ctl)
        | Hang => (Hang, dead_ctl)
        end
    | Panic k => (Panic k, dead_ctl)
    | Hang => (Hang, dead_ctl)
    end.

  (** ** commands: one slot per kind (CommandWriter / CommandReader, C07: the last write wins), read by
      [Track::read_commands] from [on_start_processing] — once per callback, NOT in [process] *)
  Record tcmd := {
    m_vol : option (value T V * tween T);
    m_routes : list (option (value T V * tween T));   (* one slot per route *)
    m_pause : option (tween T);
    m_resume : option (stime T * tween T);
  }.
  Definition no_cmd (nroutes : nat) : tcmd :=
    {| m_vol := None; m_routes := repeat None nroutes; m_pause := None; m_resume := None |}.
  Definition set_opt (p : paramV) (c : option (value T V * tween T)) : paramV :=
    match c with Some (v, tw) => param_set p v tw | None => p end.
  Fixpoint routes_read (l : list paramV) (c : list (option (value T V * tween T))) : list paramV :=
    match l, c with
    | p :: l', x :: c' => set_opt p x :: routes_read l' c'
    | _, _ => l
    end.
  (** [Track::read_commands]: volume, routes, pause, resume, in this order *)
  Definition ctl_read (cs : tcs) (c : tcmd) : tcs :=
    let m := match k_psm cs with
             | None => None
             | Some m =>
                 let m := match m_pause c with Some tw => psm_pause V silence m tw | None => m end in
                 let m := match m_resume c with Some (st, tw) => psm_resume V identity m st tw | None => m end in
                 Some m
             end in
    {| k_id := k_id cs; k_vol := set_opt (k_vol cs) (m_vol c); k_routes := routes_read (k_routes cs) (m_routes c);
       k_psm := m |}.

  (** the handle's side: writing a slot *)
  Inductive hwrite :=
  | WVol (v : value T V) (tw : tween T)
  | WRoute (r : nat) (v : value T V) (tw : tween T)
  | WPause (tw : tween T)
  | WResume (st : stime T) (tw : tween T).
  Fixpoint set_nth {X : Type} (l : list X) (r : nat) (x : X) : list X :=
    match l, r with
    | [], _ => []
    | _ :: l', O => x :: l'
    | y :: l', S r' => y :: set_nth l' r' x
    end.
  Definition write (c : tcmd) (w : hwrite) : tcmd :=
    match w with
    | WVol v tw => {| m_vol := Some (v, tw); m_routes := m_routes c; m_pause := m_pause c; m_resume := m_resume c |}
    | WRoute r v tw => {| m_vol := m_vol c; m_routes := set_nth (m_routes c) r (Some (v, tw)); m_pause := m_pause c; m_resume := m_resume c |}
    | WPause tw => {| m_vol := m_vol c; m_routes := m_routes c; m_pause := Some tw; m_resume := m_resume c |}
    | WResume st tw => {| m_vol := m_vol c; m_routes := m_routes c; m_pause := m_pause c; m_resume := Some (st, tw) |}
    end.

  (** a track's control with its mailbox, through the events of the two threads *)
  Inductive mev :=
  | MWrite (w : hwrite)                 (* the caller's thread, at any time *)
  | MStart                              (* on_start_processing: the slots are read and emptied *)
  | MChunk (i : info T) (n : nat).      (* one internal chunk of process *)
  Definition mstep (b : tcs * tcmd) (e : mev) : outcome ((tcs * tcmd) * list (tctl F G)) :=
    match e with
    | MWrite w => Ok ((fst b, write (snd b) w), [])
    | MStart => Ok ((ctl_read (fst b) (snd b), no_cmd (length (k_routes (fst b)))), [])
    | MChunk i n => let! (cs', c) := ctl_step_o i (fst b) n in Ok ((cs', snd b), [c])
    end.
  Fixpoint mrun (b : tcs * tcmd) (es : list mev) : outcome ((tcs * tcmd) * list (tctl F G)) :=
    match es with
    | [] => Ok (b, [])
    | e :: r =>
        let! (b1, o1) := mstep b e in
        let! (b2, o2) := mrun b1 r in
        Ok (b2, o1 ++ o2)
    end.
  Definition is_write (e : mev) : bool := match e with MWrite _ => true | _ => false end.
  Definition is_start (e : mev) : bool := match e with MStart => true | _ => false end.

  (** ** the two seeded readings, as executable counter-models *)
  (** guard `== Paused` instead of `!is_advancing()` *)
  Definition ctl_step_paused_only (i : info T) (cs : tcs) (n : nat) : outcome (tcs * tctl F G) :=
    let! (cs', c) := ctl_step_o i cs n in
    Ok (cs', Build_tctl (match k_psm cs' with
                         | Some m => negb (match ps m with Paused => true | _ => false end)
                         | None => true end)
                        (c_gain c) (c_rgain c) (c_spat c)).
  (** the volume parameters ticked BELOW the guard: not at all in a chunk that does not advance *)
  Definition ctl_step_late_volumes (i : info T) (cs : tcs) (n : nat) : outcome (tcs * tctl F G) :=
    let! (cs', c) := ctl_step_o i cs n in
    if c_adv c then Ok (cs', c)
    else Ok ({| k_id := k_id cs'; k_vol := k_vol cs; k_routes := k_routes cs; k_psm := k_psm cs' |}, c).
  (** route commands polled in [process] (every chunk) instead of in [on_start_processing] *)
  Definition mstep_per_chunk (b : tcs * tcmd) (e : mev) : outcome ((tcs * tcmd) * list (tctl F G)) :=
    match e with
    | MChunk i n =>
        let cs := fst b in
        let cs1 := {| k_id := k_id cs; k_vol := k_vol cs; k_routes := routes_read (k_routes cs) (m_routes (snd b));
                      k_psm := k_psm cs |} in
        let c1 := {| m_vol := m_vol (snd b); m_routes := repeat None (length (m_routes (snd b)));
                     m_pause := m_pause (snd b); m_resume := m_resume (snd b) |} in
        let! (cs', c) := ctl_step_o i cs1 n in Ok ((cs', c1), [c])
    | _ => mstep b e
    end.
  Fixpoint mrun_per_chunk (b : tcs * tcmd) (es : list mev) : outcome ((tcs * tcmd) * list (tctl F G)) :=
    match es with
    | [] => Ok (b, [])
    | e :: r =>
        let! (b1, o1) := mstep_per_chunk b e in
        let! (b2, o2) := mrun_per_chunk b1 r in
        Ok (b2, o1 ++ o2)
    end.
End Ctl.

Arguments tcs : clear implicits.
Arguments tcmd : clear implicits.
Arguments hwrite : clear implicits.
Arguments mev : clear implicits.
Arguments k_id {T V}. Arguments k_vol {T V}. Arguments k_routes {T V}. Arguments k_psm {T V}.
Arguments Build_tcs {T V}.
Arguments m_vol {T V}. Arguments m_routes {T V}. Arguments m_pause {T V}. Arguments m_resume {T V}.
Arguments Build_tcmd {T V}.
Arguments WVol {T V}. Arguments WRoute {T V}. Arguments WPause {T V}. Arguments WResume {T V}.
Arguments MWrite {T V}. Arguments MStart {T V}. Arguments MChunk {T V}.
Arguments no_cmd {T V}.
Arguments write {T V}.
Arguments is_write {T V}. Arguments is_start {T V}.
Arguments psm_mark_paused {T V}.
Arguments repair {T V}.

(** the instance of C02/Model.v's [ops]: any frame arithmetic, sounds, effects, output stage; the control
    behaviour is the transcription above; a track's `Info` is the renderer's (no spatial tracks here) *)
Definition ctl_ops {T : Type} {NT : Num T} {ND : NumDur T} (powf : T -> T -> T)
  (V : Type) (interp : V -> V -> T -> V) (silence identity : V)
  (F G : Type) (amp : V -> G) (gmul : G -> G -> G) (dt : T)
  (SS ES TO : Type) (zero : F) (add : F -> F -> F) (scale : F -> G -> F)
  (snd_proc : info T -> SS -> nat -> SS * list F) (fx_proc : info T -> ES -> list F -> ES * list F)
  (res : info T -> nat -> info T) (out : nat -> F -> list TO) : ops :=
  {| tF := F; tG := G; tI := info T; tSS := SS; tES := ES; tCS := outcome (tcs T V); tO := TO;
     o_zero := zero; o_add := add; o_scale := scale; o_snd := snd_proc; o_fx := fx_proc;
     o_env := fun _ e => e;
     o_ctl := ctl_step powf V interp silence identity F G amp gmul dt;
     o_res := res; o_out := out |}.

(** * Which branches survive [on_start_processing] (Track::should_be_removed, sub_tracks.remove_and_add)
    A track as far as removal is concerned: was its handle dropped, was it built with
    [persist_until_sounds_finish], how many sounds does it hold / are queued for it, which sub-tracks are
    queued for it (not yet picked up), which are in its arena. *)
Section Keep.
  Inductive ktree :=
  | KT (id : nat) (marked persist : bool) (nsounds qsounds : nat) (qsubs subs : list ktree).

  Definition is_nilb {X : Type} (l : list X) : bool := match l with [] => true | _ => false end.
  (** [Track::should_be_removed] *)
  Fixpoint removable (t : ktree) : bool :=
    match t with
    | KT id marked persist nsounds qsounds qsubs subs =>
        if negb (is_nilb qsubs) || existsb (fun c => negb (removable c)) subs then false
        else if persist then marked && (Nat.eqb nsounds 0) && (Nat.eqb qsounds 0)
             else marked
    end.
  (** the seeded reading: a sub-track keeps its parent only while its own handle exists *)
  Definition removable_shallow (t : ktree) : bool :=
    match t with
    | KT id marked persist nsounds qsounds qsubs subs =>
        if negb (is_nilb qsubs)
           || existsb (fun c => match c with KT _ m _ _ _ _ _ => negb m end) subs then false
        else if persist then marked && (Nat.eqb nsounds 0) && (Nat.eqb qsounds 0)
             else marked
    end.
  (** a track's own reason to stay: its handle exists, or it persists and still has (or is about to
      get) a sound, or a sub-track is waiting to be picked up by it *)
  Definition anchored_here (t : ktree) : bool :=
    match t with
    | KT _ marked persist nsounds qsounds qsubs _ =>
        negb marked || (persist && negb ((Nat.eqb nsounds 0) && (Nat.eqb qsounds 0))) || negb (is_nilb qsubs)
    end.
  Fixpoint anchored (t : ktree) : bool :=
    match t with
    | KT _ _ _ _ _ _ subs => anchored_here t || existsb anchored subs
    end.
  (** `sub_tracks.remove_and_add(|t| t.should_be_removed())` then every survivor's own on_start_processing
      (queued sub-tracks are inserted at the head, most recent first, and started too) *)
  Definition drain_then {X : Type} (test : X -> bool) (f : X -> X) : list X -> list X :=
    fix go (l : list X) : list X :=
      match l with
      | [] => []
      | c :: r => if test c then go r else f c :: go r
      end.
  Fixpoint k_on_start (test : ktree -> bool) (t : ktree) : ktree :=
    match t with
    | KT id marked persist nsounds qsounds qsubs subs =>
        KT id marked persist (nsounds + qsounds) 0 []
           (rev (map (k_on_start test) qsubs) ++ drain_then test (k_on_start test) subs)
    end.
  Definition k_mixer_on_start (test : ktree -> bool) (tops : list ktree) : list ktree :=
    drain_then test (k_on_start test) tops.
  (** number of sounds that will be processed (arena sounds of every track still in the tree) *)
  Fixpoint k_sounds (t : ktree) : nat :=
    match t with
    | KT _ _ _ nsounds _ _ subs => nsounds + list_sum (map k_sounds subs)
    end.

  (** the handle's side, by track identity; the mixer is a root that is never removed (identity 0) *)
  Fixpoint k_upd (i : nat) (f : ktree -> ktree) (t : ktree) : ktree :=
    match t with
    | KT id marked persist nsounds qsounds qsubs subs =>
        let t' := KT id marked persist nsounds qsounds (map (k_upd i f) qsubs) (map (k_upd i f) subs) in
        if Nat.eqb id i then f t' else t'
    end.
  Inductive kop :=
  | KAdd (parent id : nat) (persist : bool)      (* add_sub_track on the manager (parent 0) or on a track handle *)
  | KPlay (tr : nat)                             (* play a sound on the track *)
  | KDrop (tr : nat).                            (* drop the track's handle *)
  Definition k_do (root : ktree) (o : kop) : ktree :=
    match o with
    | KAdd parent id persist =>
        k_upd parent (fun t => match t with KT i m p ns qs qsubs subs => KT i m p ns qs (qsubs ++ [KT id false persist 0 0 [] []]) subs end) root
    | KPlay tr => k_upd tr (fun t => match t with KT i m p ns qs qsubs subs => KT i m p ns (S qs) qsubs subs end) root
    | KDrop tr => k_upd tr (fun t => match t with KT i m p ns qs qsubs subs => KT i true p ns qs qsubs subs end) root
    end.
  Definition k_root : ktree := KT 0 false false 0 0 [] [].
End Keep.
