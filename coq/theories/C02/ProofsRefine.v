(** C02 — the buffer-level mixer refines the signal-level specification.
    The buffer-level state reached from builder-made tracks is always [conc_* b] of a signal-level
    state (every temp buffer and send input all zeros of length b), and on such a state one
    `process` call computes exactly what the specification says, for ANY frame arithmetic. *)
From Coq Require Import List Arith Bool PeanoNat Lia.
From KV Require Import C02.Model C02.ProofsList.
Import ListNotations.

Section R.
  Variable O : ops.
  Local Notation F := (tF O).

  (** induction over the nested track tree *)
  Section Ind.
    Variable P : strack O -> Prop.
    Hypothesis H : forall cs subs snds fx routes, Forall P subs -> P (STrk cs subs snds fx routes).
    Fixpoint strack_ind' (t : strack O) : P t :=
      match t with
      | STrk cs subs snds fx routes =>
          H cs subs snds fx routes
            ((fix go (l : list (strack O)) : Forall P l :=
                match l with
                | [] => Forall_nil P
                | x :: r => Forall_cons x (strack_ind' x) (go r)
                end) subs)
      end.
  End Ind.

  (** ** sends: what `add_input` does, in terms of emissions *)
  Definition set_input (s : sendtrack O) (inp : list F) : sendtrack O :=
    {| sd_ctl := sd_ctl O s; sd_fx := sd_fx O s; sd_input := inp |}.
  Fixpoint deliver (S : sends_t O) (k : nat) (v : list F) : sends_t O :=
    match S with
    | [] => []
    | (k', s) :: r =>
        if Nat.eqb k' k then (k', set_input s (add_into O (sd_input O s) v)) :: r
        else (k', s) :: deliver r k v
    end.
  Definition deliver_all (S : sends_t O) (em : emis O) : sends_t O :=
    fold_left (fun S e => deliver S (fst e) (snd e)) em S.

  Lemma send_add_input_deliver S k src g : send_add_input O S k src g = deliver S k (vscale O src g).
  Proof.
    induction S as [|[k' s] r IH]; cbn; [reflexivity|].
    destruct (Nat.eqb k' k); [now rewrite add_scaled_spec | now rewrite IH].
  Qed.
  Lemma routes_output_deliver r routes rg out S :
    routes_output_from O r routes rg out S = deliver_all S (emit_from O r routes rg out).
  Proof.
    revert r S. induction routes as [|k rest IH]; intros r S; cbn; [reflexivity|].
    now rewrite IH, send_add_input_deliver.
  Qed.
  Lemma deliver_all_app S em1 em2 : deliver_all S (em1 ++ em2) = deliver_all (deliver_all S em1) em2.
  Proof. apply fold_left_app. Qed.

  (** ** sounds loop *)
  Lemma sounds_refine env snds b out :
    length out <= b ->
    sounds_process O env snds (zeros O b) out =
    (fst (spec_sounds O env snds (length out) out), zeros O b, snd (spec_sounds O env snds (length out) out)).
  Proof.
    revert out. induction snds as [|s r IH]; intros out Hm; cbn; [reflexivity|].
    pose proof (snd_call_len O env s (length out)) as Hl.
    destruct (snd_call O env s (length out)) as [s' o]. cbn in Hl.
    rewrite skipn_zeros.
    rewrite add_into_app_r by lia.
    rewrite fill_zero_zeros, app_length, zeros_len, Hl.
    replace (length out + (b - length out)) with b by lia.
    rewrite IH by (rewrite add_into_len; exact Hm).
    rewrite add_into_len. unfold vadd.
    destruct (spec_sounds O env r (length out) (add_into O out o)) as [r' accf]. reflexivity.
  Qed.

  (** ** sub-track loop, given the refinement for every element *)
  Definition track_ok (b m : nat) (t : strack O) : Prop :=
    forall env S,
      track_process O env (conc_track O b t) (zeros O m) S =
      (conc_track O b (fst (fst (spec_track O env m t))), snd (fst (spec_track O env m t)),
       deliver_all S (snd (spec_track O env m t))).

  Lemma spec_track_len env m t : length (snd (fst (spec_track O env m t))) = m.
  Proof.
    destruct t as [cs subs snds fx routes]. cbn.
    destruct (o_ctl O (o_env O cs env) cs m) as [cs' c].
    destruct (c_adv c); cbn; [|apply zeros_len].
    destruct (spec_subs O (spec_track O (o_env O cs env) m) subs (zeros O m)) as [[subs' acc1] em1] eqn:E1.
    pose proof (spec_sounds_len O (o_env O cs env) snds m acc1) as H2.
    destruct (spec_sounds O (o_env O cs env) snds m acc1) as [snds' acc2]. cbn in H2.
    pose proof (effects_process_len O (o_env O cs env) fx acc2) as H3.
    destruct (effects_process O (o_env O cs env) fx acc2) as [fx' y]. cbn in *.
    rewrite apply_gain_len, apply_spat_len, H3, H2.
    (* length acc1 = m : spec_subs only ever adds INTO the accumulator *)
    clear - E1. revert acc1 subs' em1 E1.
    assert (G : forall l acc l' accf em, spec_subs O (spec_track O (o_env O cs env) m) l acc = (l', accf, em) -> length accf = length acc).
    { induction l as [|x l IH]; intros acc l' accf em E; cbn in E.
      - inversion E; subst; reflexivity.
      - destruct (spec_track O (o_env O cs env) m x) as [[t' sig] em0].
        destruct (spec_subs O (spec_track O (o_env O cs env) m) l (vadd O acc sig)) as [[l'' accf'] em'] eqn:E'.
        inversion E; subst. apply IH in E'. rewrite E'. apply add_into_len. }
    intros acc1 subs' em1 E1. apply G in E1. rewrite E1. apply zeros_len.
  Qed.

  Lemma subs_refine b m env subs :
    m <= b -> Forall (track_ok b m) subs ->
    forall out S, length out = m ->
      subs_loop O (track_process O env) m (map (conc_track O b) subs) (zeros O b) out S =
      (map (conc_track O b) (fst (fst (spec_subs O (spec_track O env m) subs out))), zeros O b,
       snd (fst (spec_subs O (spec_track O env m) subs out)),
       deliver_all S (snd (spec_subs O (spec_track O env m) subs out))).
  Proof.
    intros Hm HF. induction HF as [|t l Ht HF IH]; intros out S Hout; cbn; [reflexivity|].
    rewrite firstn_zeros by exact Hm. rewrite (Ht env S).
    pose proof (spec_track_len env m t) as Hl.
    destruct (spec_track O env m t) as [[t' sig] em]. cbn in Hl. cbn [fst snd].
    rewrite skipn_zeros. rewrite add_into_app_r by lia.
    rewrite fill_zero_zeros, app_length, zeros_len, Hl.
    replace (m + (b - m)) with b by lia.
    rewrite IH by (rewrite add_into_len; exact Hout). unfold vadd.
    destruct (spec_subs O (spec_track O env m) l (add_into O out sig)) as [[l'' accf] em'].
    cbn [fst snd]. now rewrite deliver_all_app.
  Qed.

  (** ** Track::process *)
  Lemma track_refines b m : m <= b -> forall t, track_ok b m t.
  Proof.
    intros Hm. apply strack_ind'. intros cs subs snds fx routes HF env S.
    cbn [conc_track track_process spec_track]. rewrite zeros_len.
    destruct (o_ctl O (o_env O cs env) cs m) as [cs' c].
    destruct (c_adv c).
    - rewrite (subs_refine b m (o_env O cs env) subs Hm HF (zeros O m) S (zeros_len O m)).
      destruct (spec_subs O (spec_track O (o_env O cs env) m) subs (zeros O m)) as [[subs' acc1] em1] eqn:E1.
      cbn [fst snd].
      assert (Hacc1 : length acc1 = m).
      { pose proof (spec_track_len (o_env O cs env) m (STrk cs subs [] [] [])) as HH. cbn in HH.
        (* simpler: spec_subs only adds into the accumulator *)
        clear HH.
        assert (G : forall l acc l' accf em, spec_subs O (spec_track O (o_env O cs env) m) l acc = (l', accf, em) -> length accf = length acc).
        { induction l as [|x l IH]; intros acc l' accf em E; cbn in E.
          - inversion E; subst; reflexivity.
          - destruct (spec_track O (o_env O cs env) m x) as [[t' sig] em0].
            destruct (spec_subs O (spec_track O (o_env O cs env) m) l (vadd O acc sig)) as [[l'' accf'] em'] eqn:E'.
            inversion E; subst. apply IH in E'. rewrite E'. apply add_into_len. }
        apply G in E1. rewrite E1. apply zeros_len. }
      rewrite sounds_refine by lia. rewrite Hacc1.
      destruct (spec_sounds O (o_env O cs env) snds m acc1) as [snds' acc2]. cbn [fst snd].
      destruct (effects_process O (o_env O cs env) fx acc2) as [fx' y].
      cbn [fst snd conc_track]. rewrite routes_output_deliver, deliver_all_app. reflexivity.
    - cbn [fst snd conc_track deliver_all fold_left]. now rewrite fill_zero_zeros, zeros_len.
  Qed.

  (** ** the send tracks after all sub-tracks have run *)
  Definition recv (k : nat) (em : emis O) (inp : list F) : list F :=
    fold_left (fun acc (e : nat * list F) => if Nat.eqb (fst e) k then add_into O acc (snd e) else acc) em inp.
  Definition recv_all (em : emis O) (S : sends_t O) : sends_t O :=
    map (fun ks => (fst ks, set_input (snd ks) (recv (fst ks) em (sd_input O (snd ks))))) S.

  Lemma set_input_id (s : sendtrack O) : set_input s (sd_input O s) = s.
  Proof. destruct s; reflexivity. Qed.
  Lemma deliver_as_map S k v :
    NoDup (map fst S) ->
    deliver S k v = map (fun ks => (fst ks, if Nat.eqb (fst ks) k then set_input (snd ks) (add_into O (sd_input O (snd ks)) v) else snd ks)) S.
  Proof.
    induction S as [|[k' s] r IH]; intros ND; cbn; [reflexivity|].
    inversion ND as [|? ? Hnin ND']; subst.
    destruct (Nat.eqb_spec k' k) as [->|Hne].
    - f_equal. clear IH ND ND'. induction r as [|[k2 s2] r IH]; cbn; [reflexivity|].
      cbn in Hnin. destruct (Nat.eqb_spec k2 k) as [->|Hne]; [exfalso; apply Hnin; now left|].
      f_equal. apply IH. intros Hin. apply Hnin. now right.
    - f_equal. now apply IH.
  Qed.
  Lemma deliver_keys S k v : map fst (deliver S k v) = map fst S.
  Proof.
    induction S as [|[k' s] r IH]; cbn; [reflexivity|].
    destruct (Nat.eqb k' k); cbn; [reflexivity | now rewrite IH].
  Qed.
  Lemma deliver_all_recv em : forall S, NoDup (map fst S) -> deliver_all S em = recv_all em S.
  Proof.
    induction em as [|[k v] em IH]; intros S ND.
    - unfold recv_all, deliver_all. cbn. induction S as [|[k s] r IHr]; cbn; [reflexivity|].
      rewrite set_input_id. f_equal. apply IHr. now inversion ND.
    - change (deliver_all S ((k, v) :: em)) with (deliver_all (deliver S k v) em).
      rewrite IH by (rewrite deliver_keys; exact ND).
      rewrite deliver_as_map by exact ND. unfold recv_all. rewrite map_map.
      apply map_ext. intros [k' s]. cbn [fst snd recv fold_left].
      rewrite (Nat.eqb_sym k k').
      destruct (Nat.eqb k' k); [|reflexivity].
      destruct s; reflexivity.
  Qed.
  Lemma recv_len k em inp : length (recv k em inp) = length inp.
  Proof.
    unfold recv. revert inp. induction em as [|e em IH]; intros inp; cbn; [reflexivity|].
    destruct (Nat.eqb (fst e) k); rewrite IH; [apply add_into_len | reflexivity].
  Qed.
  Lemma firstn_recv m k em inp : firstn m (recv k em inp) = recv k em (firstn m inp).
  Proof.
    unfold recv. revert inp. induction em as [|e em IH]; intros inp; cbn; [reflexivity|].
    destruct (Nat.eqb (fst e) k); rewrite IH; [now rewrite firstn_add_into | reflexivity].
  Qed.
  Lemma send_input_recv m k em : send_input O m k em = recv k em (zeros O m).
  Proof. reflexivity. Qed.

  (** ** SendTrack::process and the send loop *)
  Lemma sends_refine env b m em l :
    m <= b ->
    forall out, length out = m ->
      sends_loop O env m (recv_all em (conc_sends O b l)) (zeros O b) out =
      (conc_sends O b (fst (spec_sends O env m em l out)), zeros O b, snd (spec_sends O env m em l out)).
  Proof.
    intros Hm. induction l as [|[k s] l IH]; intros out Hout; cbn; [reflexivity|].
    unfold sendtrack_process. cbn [sd_ctl sd_fx sd_input set_input conc_send fst snd].
    rewrite firstn_zeros by exact Hm. rewrite zeros_len.
    unfold spec_send. rewrite send_input_recv, recv_len, zeros_len.
    destruct (o_ctl O env (ss_ctl O s) m) as [cs' c].
    rewrite (add_into_firstn O (zeros O m)), zeros_len, firstn_recv, firstn_zeros by exact Hm.
    unfold vadd.
    pose proof (effects_process_len O env (ss_fx O s) (add_into O (zeros O m) (recv k em (zeros O m)))) as Hl.
    destruct (effects_process O env (ss_fx O s) (add_into O (zeros O m) (recv k em (zeros O m)))) as [fx' y].
    cbn in Hl. rewrite add_into_len, zeros_len in Hl.
    rewrite skipn_zeros. rewrite add_into_app_r by (rewrite apply_gain_len; lia).
    rewrite fill_zero_zeros, app_length, zeros_len, apply_gain_len, Hl.
    replace (m + (b - m)) with b by lia.
    rewrite fill_zero_zeros, recv_len, zeros_len.
    fold (recv_all em (conc_sends O b l)).
    rewrite IH by (rewrite add_into_len; exact Hout).
    destruct (spec_sends O env m em l (add_into O out (apply_gain O c y))) as [l'' accf].
    reflexivity.
  Qed.
  Lemma spec_sends_keys env m em l acc : map fst (fst (spec_sends O env m em l acc)) = map fst l.
  Proof.
    revert acc. induction l as [|[k s] l IH]; intros acc; cbn; [reflexivity|].
    destruct (spec_send O env s (send_input O m k em)) as [s' sig].
    specialize (IH (vadd O acc sig)). destruct (spec_sends O env m em l (vadd O acc sig)) as [l'' accf].
    cbn in *. now rewrite IH.
  Qed.
  Lemma conc_sends_keys b l : map fst (conc_sends O b l) = map fst l.
  Proof. unfold conc_sends. rewrite map_map. reflexivity. Qed.

  Lemma spec_subs_len env m l acc : length (snd (fst (spec_subs O (spec_track O env m) l acc))) = length acc.
  Proof.
    revert acc. induction l as [|x l IH]; intros acc; cbn; [reflexivity|].
    destruct (spec_track O env m x) as [[t' sig] em0].
    specialize (IH (vadd O acc sig)).
    destruct (spec_subs O (spec_track O env m) l (vadd O acc sig)) as [[l'' accf'] em'].
    cbn in *. rewrite IH. apply add_into_len.
  Qed.
  Lemma spec_sends_len env m em l acc : length (snd (spec_sends O env m em l acc)) = length acc.
  Proof.
    revert acc. induction l as [|[k s] l IH]; intros acc; cbn; [reflexivity|].
    destruct (spec_send O env s (send_input O m k em)) as [s' sig].
    specialize (IH (vadd O acc sig)). destruct (spec_sends O env m em l (vadd O acc sig)) as [l'' accf].
    cbn in *. rewrite IH. apply add_into_len.
  Qed.

  (** ** MainTrack::process *)
  Lemma main_refine env b mn out :
    length out <= b ->
    maintrack_process O env (conc_main O b mn) out =
    (conc_main O b (fst (spec_main O env (length out) mn out)), snd (spec_main O env (length out) mn out)).
  Proof.
    intros Hm. unfold maintrack_process, spec_main. cbn [mn_ctl mn_snds mn_fx mn_temp conc_main].
    destruct (o_ctl O env (sm_ctl O mn) (length out)) as [cs' c].
    rewrite sounds_refine by exact Hm.
    destruct (spec_sounds O env (sm_snds O mn) (length out) out) as [snds' acc1]. cbn [fst snd].
    destruct (effects_process O env (sm_fx O mn) acc1) as [fx' y]. reflexivity.
  Qed.

  (** ** Mixer::process *)
  Theorem mixer_refines env b m sx :
    m <= b -> NoDup (map fst (sx_sends O sx)) ->
    mixer_process O env (conc_mixer O b sx) (zeros O m) =
    (conc_mixer O b (fst (spec_mix O env sx m)), snd (spec_mix O env sx m)).
  Proof.
    intros Hm ND. unfold mixer_process, spec_mix. cbn [mx_main mx_subs mx_sends mx_temp conc_mixer]. rewrite zeros_len.
    rewrite (subs_refine b m env (sx_subs O sx) Hm) by (try apply zeros_len; apply Forall_forall; intros t _; now apply track_refines).
    pose proof (spec_subs_len env m (sx_subs O sx) (zeros O m)) as Hl1.
    destruct (spec_subs O (spec_track O env m) (sx_subs O sx) (zeros O m)) as [[subs' acc1] em].
    cbn [fst snd] in *. rewrite zeros_len in Hl1.
    rewrite deliver_all_recv by (rewrite conc_sends_keys; exact ND).
    rewrite sends_refine by assumption.
    pose proof (spec_sends_len env m em (sx_sends O sx) acc1) as Hl2.
    destruct (spec_sends O env m em (sx_sends O sx) acc1) as [sends' acc2]. cbn [fst snd] in *.
    rewrite main_refine by lia. rewrite Hl2, Hl1.
    destruct (spec_main O env m (sx_main O sx) acc2) as [main' out]. reflexivity.
  Qed.

  Lemma spec_mix_keys env sx m : map fst (sx_sends O (fst (spec_mix O env sx m))) = map fst (sx_sends O sx).
  Proof.
    unfold spec_mix.
    destruct (spec_subs O (spec_track O env m) (sx_subs O sx) (zeros O m)) as [[subs' acc1] em].
    pose proof (spec_sends_keys env m em (sx_sends O sx) acc1) as Hk.
    destruct (spec_sends O env m em (sx_sends O sx) acc1) as [sends' acc2].
    destruct (spec_main O env m (sx_main O sx) acc2) as [main' out]. exact Hk.
  Qed.
  Lemma spec_mix_len env sx m : length (snd (spec_mix O env sx m)) = m.
  Proof.
    unfold spec_mix.
    pose proof (spec_subs_len env m (sx_subs O sx) (zeros O m)) as Hl1.
    destruct (spec_subs O (spec_track O env m) (sx_subs O sx) (zeros O m)) as [[subs' acc1] em].
    pose proof (spec_sends_len env m em (sx_sends O sx) acc1) as Hl2.
    destruct (spec_sends O env m em (sx_sends O sx) acc1) as [sends' acc2].
    unfold spec_main. destruct (o_ctl O env (sm_ctl O (sx_main O sx)) m) as [cs' c].
    pose proof (spec_sounds_len O env (sm_snds O (sx_main O sx)) m acc2) as Hl3.
    destruct (spec_sounds O env (sm_snds O (sx_main O sx)) m acc2) as [snds' acc3].
    pose proof (effects_process_len O env (sm_fx O (sx_main O sx)) acc3) as Hl4.
    destruct (effects_process O env (sm_fx O (sx_main O sx)) acc3) as [fx' y].
    cbn in *. rewrite apply_gain_len, Hl4, Hl3, Hl2, Hl1. apply zeros_len.
  Qed.

  (** ** Renderer: one chunk, a list of chunks, callbacks *)
  Lemma chunk_refines ch b res sx m :
    m <= b -> NoDup (map fst (sx_sends O sx)) ->
    process_chunk O ch (conc_renderer O b res sx) m =
    (conc_renderer O b (fst (fst (spec_chunk O ch (res, sx) m))) (snd (fst (spec_chunk O ch (res, sx) m))),
     snd (spec_chunk O ch (res, sx) m)).
  Proof.
    intros Hm ND. unfold process_chunk, spec_chunk. cbn [r_res r_mixer r_temp r_b conc_renderer fst snd].
    rewrite firstn_zeros by exact Hm. rewrite mixer_refines by assumption.
    pose proof (spec_mix_len (o_res O res m) sx m) as Hl.
    destruct (spec_mix O (o_res O res m) sx m) as [sx' sig]. cbn [fst snd] in *.
    rewrite skipn_zeros, firstn_app, Hl, Nat.sub_diag, firstn_O, app_nil_r.
    rewrite firstn_all2 by lia.
    rewrite fill_zero_zeros, app_length, zeros_len, Hl.
    replace (m + (b - m)) with b by lia. reflexivity.
  Qed.
  Lemma spec_chunks_keys ch st ms :
    map fst (sx_sends O (snd (fst (spec_chunks O ch st ms)))) = map fst (sx_sends O (snd st)).
  Proof.
    revert st. induction ms as [|m ms IH]; intros st; cbn; [reflexivity|].
    unfold spec_chunk. pose proof (spec_mix_keys (o_res O (fst st) m) (snd st) m) as Hk.
    destruct (spec_mix O (o_res O (fst st) m) (snd st) m) as [sx' sig].
    specialize (IH (o_res O (fst st) m, sx')).
    destruct (spec_chunks O ch (o_res O (fst st) m, sx') ms) as [st2 o2]. cbn in *. congruence.
  Qed.
  Theorem chunks_refine ch b ms :
    Forall (fun m => m <= b) ms ->
    forall res sx, NoDup (map fst (sx_sends O sx)) ->
      run_chunks O ch (conc_renderer O b res sx) ms =
      (conc_renderer O b (fst (fst (spec_chunks O ch (res, sx) ms))) (snd (fst (spec_chunks O ch (res, sx) ms))),
       snd (spec_chunks O ch (res, sx) ms)).
  Proof.
    induction 1 as [|m ms Hm HF IH]; intros res sx ND; cbn [run_chunks spec_chunks]; [reflexivity|].
    rewrite chunk_refines by assumption.
    pose proof (spec_mix_keys (o_res O res m) sx m) as Hk.
    unfold spec_chunk in *. cbn [fst snd] in *.
    destruct (spec_mix O (o_res O res m) sx m) as [sx' sig]. cbn [fst snd] in *.
    rewrite IH by congruence.
    destruct (spec_chunks O ch (o_res O res m, sx') ms) as [[res2 sx2] o2]. reflexivity.
  Qed.
End R.
