(** C02 — non-vacuity: a concrete 3-track tree (two top-level tracks, one with a child, one send
    track, routes, a stateful effect) meets every hypothesis of the theorems, and the theorems'
    conclusions compute to non-trivial values. *)
From Coq Require Import ZArith List Bool Lia Ring_theory.
From KV Require Import C02.Model C02.ProofsList C02.ProofsRefine C02.ProofsCor C02.ProofsLog C02.ProofsClosed.
Import ListNotations.
Local Open Scope Z_scope.

(** frames are integers; sound (id, pos) produces id*100 + pos, id*100 + pos + 1, ...;
    effect e: x -> 2x + e and e counts its calls; control (advancing, gain, route gains) constant *)
Definition ex_snd (_ : unit) (s : Z * Z) (n : nat) : (Z * Z) * list Z :=
  ((fst s, snd s + Z.of_nat n), map (fun i => fst s * 100 + snd s + Z.of_nat i) (seq 0 n)).
Definition ex_fx (_ : unit) (e : Z) (xs : list Z) : Z * list Z := (e + 1, map (fun x => 2 * x + e) xs).
Definition ex_cs := (bool * Z * list Z)%type.
Definition ex_ctl (_ : unit) (c : ex_cs) (_ : nat) : ex_cs * tctl Z Z :=
  (c, Build_tctl (fst (fst c)) (fun _ => snd (fst c)) (fun r => nth r (snd c) 0) (fun _ x => x)).
Definition exO : ops :=
  semiring_ops Z 0 Z.add Z.mul unit (Z * Z) Z ex_cs Z ex_snd ex_fx (fun _ e => e) ex_ctl (fun e _ => e) (fun _ x => [x]).

Definition ex_child (fx : list Z) : strack exO := STrk (O := exO) (true, 5, [1]) [] [(3, 0)] fx [7%nat].
Definition ex_t1 (fx : list Z) : strack exO := STrk (O := exO) (true, 2, [3]) [ex_child fx] [(1, 0)] fx [7%nat].
Definition ex_t2 (adv : bool) : strack exO := STrk (O := exO) (adv, 1, []) [] [(2, 0)] [] [9%nat] (* stale route *).
Definition ex_sx (fx : list Z) (adv2 : bool) : smixer exO :=
  {| sx_main := {| sm_ctl := ((true, 1, []) : tCS exO); sm_snds := [(4, 0)]; sm_fx := fx |};
     sx_subs := [ex_t1 fx; ex_t2 adv2];
     sx_sends := [(7%nat, {| ss_ctl := ((true, 1, []) : tCS exO); ss_fx := fx |})] |}.

(** the refinement theorem applies (with a stateful effect on every track) and the output is not trivial *)
Example ex_refines :
  mixer_process exO tt (conc_mixer exO 4 (ex_sx [10] true)) (zeros exO 3)
  = (conc_mixer exO 4 (fst (spec_mix exO tt (ex_sx [10] true) 3)), snd (spec_mix exO tt (ex_sx [10] true) 3))
  /\ snd (spec_mix exO tt (ex_sx [10] true) 3) = [190110; 190770; 191430].
Proof.
  split; [|vm_compute; reflexivity].
  apply (mixer_refines_clean exO tt 4 3).
  - apply conc_mixer_clean.
  - lia.
  - cbn. repeat constructor. intros [].
Qed.
Example ex_buffers_really_used :
  (* the buffer-level run is a real computation on buffers of length 4 with a chunk of 3 *)
  snd (mixer_process exO tt (conc_mixer exO 4 (ex_sx [10] true)) (zeros exO 3)) = [190110; 190770; 191430].
Proof. vm_compute. reflexivity. Qed.

(** a paused branch: the hypothesis of [paused_branch_silent] holds for track 2, and the output changes accordingly *)
Example ex_paused :
  c_adv (snd (o_ctl exO (o_env exO (false, 1, []) tt) (false, 1, []) 3)) = false
  /\ snd (spec_mix exO tt (ex_sx [] false) 3) <> snd (spec_mix exO tt (ex_sx [] true) 3).
Proof. split; [reflexivity | vm_compute; discriminate]. Qed.

(** closed form (no effects): hypotheses hold and both sides compute to the same non-zero number *)
Lemma Z_semi_ring : semi_ring_theory 0 1 Z.add Z.mul eq.
Proof. constructor; intros; ring. Qed.
Example ex_closed_form :
  no_fx_mixer Z 0 Z.add Z.mul unit (Z * Z) Z ex_cs Z ex_snd ex_fx (fun _ e => e) ex_ctl (fun e _ => e) (fun _ x => [x]) (ex_sx [] true)
  /\ nth 1 (snd (spec_mix exO tt (ex_sx [] true) 3)) 0
     = closed_form Z 0 1 Z.add Z.mul unit (Z * Z) Z ex_cs Z ex_snd ex_fx (fun _ e => e) ex_ctl (fun e _ => e) (fun _ x => [x]) tt (ex_sx [] true) 3 1
  /\ nth 1 (snd (spec_mix exO tt (ex_sx [] true) 3)) 0 = 14955.
Proof.
  assert (H : no_fx_mixer Z 0 Z.add Z.mul unit (Z * Z) Z ex_cs Z ex_snd ex_fx (fun _ e => e) ex_ctl (fun e _ => e) (fun _ x => [x]) (ex_sx [] true)).
  { unfold no_fx_mixer. cbn. repeat split; repeat constructor. }
  split; [exact H|]. split; [|vm_compute; reflexivity].
  apply (closed_form_holds Z 0 1 Z.add Z.mul Z_semi_ring); [reflexivity | exact H | lia].
Qed.

(** call logs: with b = 2 and callbacks of 3 and 1 frames every sound and effect is asked for 2, 1, 1 *)
Definition ex_lsx : smixer (logged exO) :=
  {| sx_main := {| sm_ctl := ((true, 1, []) : tCS (logged exO)); sm_snds := [((4, 0), [])]; sm_fx := [(10, [])] |};
     sx_subs := [STrk (O := logged exO) (true, 2, [3]) [STrk (O := logged exO) (true, 5, [1]) [] [((3, 0), [])] [] [7%nat]]
                      [((1, 0), [])] [(20, [])] [7%nat]];
     sx_sends := [(7%nat, {| ss_ctl := ((true, 1, []) : tCS (logged exO)); ss_fx := [(30, [])] |})] |}.
Example ex_logs :
  mlogs_of exO (abs_mixer (logged exO) (r_mixer (logged exO)
      (fst (run_callbacks (logged exO) 2 (conc_renderer (logged exO) 2 tt ex_lsx) [3%nat; 1%nat]))))
  = {| ml_main_snds := [[2; 1; 1]%nat]; ml_main_fx := [[2; 1; 1]%nat];
       ml_subs := [LT [[2; 1; 1]%nat] [[2; 1; 1]%nat] [LT [[2; 1; 1]%nat] [] []]];
       ml_sends := [[[2; 1; 1]%nat]] |}.
Proof. vm_compute. reflexivity. Qed.

(** an edit with a signal-level counterpart: inserting a builder-made track at the head of the
    mixer's sub-track arena *)
Definition ex_add (t : strack exO) : hop exO :=
  HEdit exO
    (fun r => {| r_res := r_res exO r;
                 r_mixer := {| mx_main := mx_main exO (r_mixer exO r);
                               mx_subs := conc_track exO (r_b exO r) t :: mx_subs exO (r_mixer exO r);
                               mx_sends := mx_sends exO (r_mixer exO r); mx_temp := mx_temp exO (r_mixer exO r) |};
                 r_temp := r_temp exO r; r_b := r_b exO r |})
    (fun st => (fst st, {| sx_main := sx_main exO (snd st); sx_subs := t :: sx_subs exO (snd st); sx_sends := sx_sends exO (snd st) |})).
Example ex_edit_ok : forall b t, edit_ok exO b (ex_add t).
Proof. intros b t st ND. split; [reflexivity | exact ND]. Qed.
