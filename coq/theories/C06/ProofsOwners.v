(** C06 — an owner that follows the update discipline hands every history on to its parameters
    unchanged: the parameter sees one update of [dt * len] per [process] call, whatever the
    owner's state is and whatever else [process] does.  Structural part for any number type
    (so bit-for-bit for IEEE), tween law for the exact instance. *)
From Coq Require Import ZArith QArith Qround Lia Lqa Bool List.
From KV Require Import Base.Outcome Base.Num Base.QLemmas C19.Model C19.ProofsEasing C06.Model C06.Dur C06.Proofs C06.Proofs2
  C06.ModelOwners.
Import ListNotations.

Section Structural.
  Context {T : Type} {NT : Num T} {ND : NumDur T}.
  Variable powf : T -> T -> T.
  Variable VE : Type.
  Variable interpE : VE -> VE -> T -> VE.
  Variable VL : Type.
  Variable interpL : VL -> VL -> T -> VL.
  Variable S : Type.
  Variable Out : Type.
  Variable before : S -> nat -> T -> info T -> outcome S.
  Variable pre : S -> param T VE -> nat -> T -> info T -> outcome (S * bool).
  Variable silent_out : nat -> Out.
  Variable mid : S -> param T VE -> param T VL -> nat -> T -> info T -> outcome S.
  Variable render : S -> param T VE -> param T VL -> nat -> T -> info T -> outcome (S * Out).

  Notation ownerT := (owner T VE VL S).
  Notation oprocess := (owner_process powf VE interpE VL interpL S Out before pre silent_out mid render).
  Notation orun := (owner_run powf VE interpE VL interpL S Out before pre silent_out mid render).
  Notation ostep := (owner_step powf VE interpE VL interpL S Out before pre silent_out mid render).

  (** one call: the early parameter is updated with [dt * len], taken the early return or not *)
  Lemma process_early (o o' : ownerT) len dt i silent out :
    oprocess o len dt i = Ok (o', silent, out) ->
    exists f, param_update powf VE interpE (o_early o) (chunk_time len dt) i = Ok (o_early o', f).
  Proof.
    unfold owner_process.
    destruct (before (o_rest o) len dt i) as [s0| |]; cbn [obind]; try discriminate.
    destruct (param_update powf VE interpE (o_early o) (chunk_time len dt) i) as [[pe f]| |]; cbn [obind]; try discriminate.
    destruct (pre s0 pe len dt i) as [[s1 sil]| |]; cbn [obind]; try discriminate.
    destruct sil.
    - intro H. inversion H. subst. exists f. reflexivity.
    - destruct (mid s1 pe (o_late o) len dt i) as [s2| |]; cbn [obind]; try discriminate.
      destruct (param_update powf VL interpL (o_late o) (chunk_time len dt) i) as [[pl fl]| |]; cbn [obind]; try discriminate.
      destruct (render s2 pe pl len dt i) as [[s3 out']| |]; cbn [obind]; try discriminate.
      intro H. inversion H. subst. exists f. reflexivity.
  Qed.

  (** one call: the late parameter is updated only when the call renders *)
  Lemma process_late (o o' : ownerT) len dt i silent out :
    oprocess o len dt i = Ok (o', silent, out) ->
    if silent then o_late o' = o_late o
    else exists f, param_update powf VL interpL (o_late o) (chunk_time len dt) i = Ok (o_late o', f).
  Proof.
    unfold owner_process.
    destruct (before (o_rest o) len dt i) as [s0| |]; cbn [obind]; try discriminate.
    destruct (param_update powf VE interpE (o_early o) (chunk_time len dt) i) as [[pe f]| |]; cbn [obind]; try discriminate.
    destruct (pre s0 pe len dt i) as [[s1 sil]| |]; cbn [obind]; try discriminate.
    destruct sil.
    - intro H. inversion H. subst. reflexivity.
    - destruct (mid s1 pe (o_late o) len dt i) as [s2| |]; cbn [obind]; try discriminate.
      destruct (param_update powf VL interpL (o_late o) (chunk_time len dt) i) as [[pl fl]| |]; cbn [obind]; try discriminate.
      destruct (render s2 pe pl len dt i) as [[s3 out']| |]; cbn [obind]; try discriminate.
      intro H. inversion H. subst. exists fl. reflexivity.
  Qed.

  (** the whole history, as the early parameter sees it *)
  Lemma early_projection_proof (h : list (oop T VE VL S)) : forall (o o' : ownerT) l,
    orun o h = Ok (o', l) ->
    param_run powf VE interpE (o_early o) (early_view h) = Ok (o_early o').
  Proof.
    induction h as [|op h IH]; intros o o' l H.
    - cbn in H. inversion H. reflexivity.
    - cbn [owner_run] in H.
      destruct (ostep o op) as [[o1 l1]| |] eqn:E1; cbn [obind] in H; try discriminate.
      destruct (orun o1 h) as [[o2 l2]| |] eqn:E2; cbn [obind] in H; try discriminate.
      inversion H. subst o' l. clear H.
      specialize (IH o1 o2 l2 E2).
      destruct op as [tg tw|tg tw|f|len dt i]; cbn [owner_step] in E1.
      + inversion E1. subst o1 l1. cbn [early_view param_run param_step obind o_early] in *. exact IH.
      + inversion E1. subst o1 l1. cbn [early_view o_early] in *. exact IH.
      + inversion E1. subst o1 l1. cbn [early_view o_early] in *. exact IH.
      + destruct (oprocess o len dt i) as [[[o1' sil] out]| |] eqn:EP; cbn [obind] in E1; try discriminate.
        inversion E1. subst o1 l1.
        destruct (process_early o o1' len dt i sil out EP) as [f U].
        cbn [early_view param_run param_step]. rewrite U. cbn [obind]. exact IH.
  Qed.

  (** ... and as the late parameter sees it: the calls that took the early return are missing *)
  Lemma late_projection_proof (h : list (oop T VE VL S)) : forall (o o' : ownerT) l,
    orun o h = Ok (o', l) ->
    param_run powf VL interpL (o_late o) (late_view h (map fst l)) = Ok (o_late o').
  Proof.
    induction h as [|op h IH]; intros o o' l H.
    - cbn in H. inversion H. reflexivity.
    - cbn [owner_run] in H.
      destruct (ostep o op) as [[o1 l1]| |] eqn:E1; cbn [obind] in H; try discriminate.
      destruct (orun o1 h) as [[o2 l2]| |] eqn:E2; cbn [obind] in H; try discriminate.
      inversion H. subst o' l. clear H.
      specialize (IH o1 o2 l2 E2).
      destruct op as [tg tw|tg tw|f|len dt i]; cbn [owner_step] in E1.
      + inversion E1. subst o1 l1. cbn [late_view app o_late] in *. exact IH.
      + inversion E1. subst o1 l1. cbn [late_view app param_run param_step obind o_late] in *. exact IH.
      + inversion E1. subst o1 l1. cbn [late_view app o_late] in *. exact IH.
      + destruct (oprocess o len dt i) as [[[o1' sil] out]| |] eqn:EP; cbn [obind] in E1; try discriminate.
        inversion E1. subst o1 l1.
        pose proof (process_late o o1' len dt i sil out EP) as L.
        cbn [app map fst late_view]. destruct sil.
        * rewrite <- L. exact IH.
        * destruct L as [f U]. cbn [param_run param_step]. rewrite U. cbn [obind]. exact IH.
  Qed.

  (** a history without commands for the early parameter is, to it, just its list of updates *)
  Lemma early_view_calls (h : list (oop T VE VL S)) :
    forallb (fun op => negb (is_set_early op)) h = true ->
    early_view h = map (fun '(dt, i) => OUpdate dt i) (calls h).
  Proof.
    induction h as [|op h IH]; intro H; [reflexivity|].
    cbn [forallb] in H. apply andb_prop in H. destruct H as [H1 H2].
    destruct op as [tg tw|tg tw|f|len dt i]; cbn [early_view calls map is_set_early negb] in *;
      try discriminate; rewrite (IH H2); reflexivity.
  Qed.
  Lemma late_view_calls (h : list (oop T VE VL S)) : forall flags,
    forallb (fun op => negb (is_set_late op)) h = true ->
    forallb negb flags = true -> length flags = length (calls h) ->
    late_view h flags = map (fun '(dt, i) => OUpdate dt i) (calls h).
  Proof.
    induction h as [|op h IH]; intros flags H Hf Hl; [reflexivity|].
    cbn [forallb] in H. apply andb_prop in H. destruct H as [H1 H2].
    destruct op as [tg tw|tg tw|f|len dt i]; cbn [late_view calls map is_set_late negb] in *;
      try discriminate; try (apply IH; assumption).
    destruct flags as [|b flags]; cbn [length] in Hl; [discriminate|].
    cbn [forallb] in Hf. apply andb_prop in Hf. destruct Hf as [Hb Hf].
    destruct b; [discriminate|]. rewrite (IH flags H2 Hf); [reflexivity|]. lia.
  Qed.
  Lemma run_flags_length (h : list (oop T VE VL S)) : forall (o o' : ownerT) l,
    orun o h = Ok (o', l) -> length l = length (calls h).
  Proof.
    induction h as [|op h IH]; intros o o' l H.
    - cbn in H. inversion H. reflexivity.
    - cbn [owner_run] in H.
      destruct (ostep o op) as [[o1 l1]| |] eqn:E1; cbn [obind] in H; try discriminate.
      destruct (orun o1 h) as [[o2 l2]| |] eqn:E2; cbn [obind] in H; try discriminate.
      inversion H. subst o' l. clear H. rewrite app_length, (IH o1 o2 l2 E2).
      destruct op as [tg tw|tg tw|f|len dt i]; cbn [owner_step] in E1.
      1-3: inversion E1; reflexivity.
      destruct (oprocess o len dt i) as [[[o1' sil] out]| |]; cbn [obind] in E1; try discriminate.
      inversion E1. reflexivity.
  Qed.
End Structural.

(** ** the tween law of the embedded parameter (exact arithmetic) *)
Section Law.
  Variable powf : Q -> Q -> Q.
  Variable VL : Type.
  Variable interpL : VL -> VL -> Q -> VL.
  Variable S : Type.
  Variable Out : Type.
  Variable before : S -> nat -> Q -> info Q -> outcome S.
  Variable pre : S -> param Q Q -> nat -> Q -> info Q -> outcome (S * bool).
  Variable silent_out : nat -> Out.
  Variable mid : S -> param Q Q -> param Q VL -> nat -> Q -> info Q -> outcome S.
  Variable render : S -> param Q Q -> param Q VL -> nat -> Q -> info Q -> outcome (S * Out).
  Notation lerpQ := (@lerp Q Num_Q).
  Notation ownerQ := (owner Q Q VL S).
  Notation orun := (owner_run powf Q lerpQ VL interpL S Out before pre silent_out mid render).

  Definition no_early_set (h : list (oop Q Q VL S)) : Prop :=
    forallb (fun op => negb (is_set_early op)) h = true.

  (** After [set target tween] the early parameter of an owner follows the tween law of the
      time PROCESSED since -- every [process] call counts with [dt * len], those that took the
      early return included; state changes and commands to other parameters do not matter. *)
  Lemma owner_tween_law_proof (o o' : ownerQ) tg tw (h : list (oop Q Q VL S)) l :
    no_early_set h -> not_delayed (tw_start tw) -> (tw_dur tw <> 0)%Z -> calls h <> [] ->
    orun o (OSetEarly (Fixed tg) tw :: h) = Ok (o', l) ->
    let D := ns_to_secs_Q (tw_dur tw) in
    if completes (tw_start tw) D 0 (calls h)
    then p_state (o_early o') = Idle (Fixed tg) /\ p_raw (o_early o') = tg
    else p_raw (o_early o') =
         the_law powf (p_raw (o_early o)) tg (tw_easing tw) D (elapsed (tw_start tw) 0 (calls h)).
  Proof.
    intros Hn Hnd Hdur Hc R D.
    pose proof (early_projection_proof powf Q lerpQ VL interpL S Out before pre silent_out mid render _ _ _ _ R) as P.
    cbn [early_view param_run param_step obind] in P.
    rewrite (early_view_calls Q VL S h Hn) in P.
    destruct (tween_law_from_set powf (o_early o) tg tw (calls h) Hnd Hdur Hc) as [p' [R' C]].
    unfold run, updates in R'. rewrite R' in P. inversion P. subst p'. exact C.
  Qed.

  (** Independence of the owner's state and of the partition: two histories -- different state
      changes, different chunk lengths, different commands to the other parameter -- in which
      the same time was processed leave the parameter at the same value. *)
  Lemma owner_history_independent_proof (o1 o2 o1' o2' : ownerQ) tg tw (h1 h2 : list (oop Q Q VL S)) l1 l2 :
    o_early o1 = o_early o2 ->
    no_early_set h1 -> no_early_set h2 -> not_delayed (tw_start tw) -> (tw_dur tw <> 0)%Z ->
    calls h1 <> [] -> calls h2 <> [] ->
    let D := ns_to_secs_Q (tw_dur tw) in
    completes (tw_start tw) D 0 (calls h1) = false -> completes (tw_start tw) D 0 (calls h2) = false ->
    plain_sum (tw_start tw) (calls h1) == plain_sum (tw_start tw) (calls h2) ->
    orun o1 (OSetEarly (Fixed tg) tw :: h1) = Ok (o1', l1) ->
    orun o2 (OSetEarly (Fixed tg) tw :: h2) = Ok (o2', l2) ->
    p_raw (o_early o1') = p_raw (o_early o2').
  Proof.
    intros He Hn1 Hn2 Hnd Hdur Hc1 Hc2 D C1 C2 Hs R1 R2.
    pose proof (early_projection_proof powf Q lerpQ VL interpL S Out before pre silent_out mid render _ _ _ _ R1) as P1.
    pose proof (early_projection_proof powf Q lerpQ VL interpL S Out before pre silent_out mid render _ _ _ _ R2) as P2.
    cbn [early_view param_run param_step obind] in P1, P2.
    rewrite (early_view_calls Q VL S h1 Hn1) in P1. rewrite (early_view_calls Q VL S h2 Hn2) in P2.
    rewrite <- He in P2.
    destruct (partition_independent powf (o_early o1) tg tw (calls h1) (calls h2) Hnd Hdur Hc1 Hc2 C1 C2 Hs)
      as [p1 [p2 [Q1 [Q2 E]]]].
    unfold run, updates in Q1, Q2. rewrite Q1 in P1. rewrite Q2 in P2. inversion P1. inversion P2. subst. exact E.
  Qed.

  (** for an immediate start the processed time is [dt] times the number of frames processed *)
  Definition uniform_dt (dt : Q) (h : list (oop Q Q VL S)) : Prop :=
    Forall (fun op => match op with OProcess _ dt' _ => dt' = dt | _ => True end) h.
  Lemma processed_time_is_frames (dt : Q) (h : list (oop Q Q VL S)) :
    uniform_dt dt h -> plain_sum Immediate (calls h) == dt * inject_Z (Z.of_nat (frames_of h)).
  Proof.
    induction 1 as [|op h Hop Hh IH].
    - cbn. ring.
    - destruct op as [tg tw|tg tw|f|len dt' i]; cbn [calls frames_of]; try exact IH.
      subst dt'. cbn [plain_sum counts]. rewrite IH. unfold chunk_time. cbn [nmul nofZ Num_Q]. qred.
      rewrite Nat2Z.inj_add, inject_Z_plus. ring.
  Qed.

  (** a delayed tween start is counted down by every [process] call, in every state *)
  Lemma owner_delayed_countdown_proof (o o' : ownerQ) v0 tg tw rem len dt i d l :
    p_state (o_early o) = Tweening v0 (Fixed tg) 0 tw -> p_stagnant (o_early o) = false ->
    tw_start tw = Delayed rem -> (rem <> 0)%Z -> (tw_dur tw <> 0)%Z ->
    secs_to_ns_Q (chunk_time len dt) = Ok d ->
    orun o [OProcess len dt i] = Ok (o', l) ->
    p_state (o_early o') =
      Tweening v0 (Fixed tg) 0 {| tw_start := Delayed (sat_sub rem d); tw_dur := tw_dur tw; tw_easing := tw_easing tw |}
    /\ p_raw (o_early o') = the_law powf v0 tg (tw_easing tw) (ns_to_secs_Q (tw_dur tw)) 0.
  Proof.
    intros Hs Hg Hst Hrem Hdur Hd R.
    pose proof (early_projection_proof powf Q lerpQ VL interpL S Out before pre silent_out mid render _ _ _ _ R) as P.
    cbn [early_view param_run param_step] in P.
    pose proof (delayed_countdown powf (o_early o) v0 tg tw rem (chunk_time len dt) i d Hs Hg Hst Hrem Hdur Hd) as U.
    unfold upd in U. rewrite U in P. cbn [obind] in P. inversion P as [E]. split; reflexivity.
  Qed.
End Law.

(** ** the late slot ("update the parameters below the early return") *)
Section Late.
  Variable powf : Q -> Q -> Q.
  Variable VE : Type.
  Variable interpE : VE -> VE -> Q -> VE.
  Variable S : Type.
  Variable Out : Type.
  Variable before : S -> nat -> Q -> info Q -> outcome S.
  Variable pre : S -> param Q VE -> nat -> Q -> info Q -> outcome (S * bool).
  Variable silent_out : nat -> Out.
  Variable mid : S -> param Q VE -> param Q Q -> nat -> Q -> info Q -> outcome S.
  Variable render : S -> param Q VE -> param Q Q -> nat -> Q -> info Q -> outcome (S * Out).
  Notation lerpQ := (@lerp Q Num_Q).
  Notation ownerQ := (owner Q VE Q S).
  Notation orun := (owner_run powf VE interpE Q lerpQ S Out before pre silent_out mid render).

  Definition no_late_set (h : list (oop Q VE Q S)) : Prop :=
    forallb (fun op => negb (is_set_late op)) h = true.
  (** the class on which the late slot misbehaves: some call took the early return *)
  Definition some_call_silent (l : list (bool * Out)) : Prop := existsb fst l = true.

  (** a late parameter follows the law as long as the owner never takes the early return *)
  Lemma late_tween_law_proof (o o' : ownerQ) tg tw (h : list (oop Q VE Q S)) l :
    no_late_set h -> not_delayed (tw_start tw) -> (tw_dur tw <> 0)%Z -> calls h <> [] ->
    orun o (OSetLate (Fixed tg) tw :: h) = Ok (o', l) ->
    ~ some_call_silent l ->
    let D := ns_to_secs_Q (tw_dur tw) in
    if completes (tw_start tw) D 0 (calls h)
    then p_state (o_late o') = Idle (Fixed tg) /\ p_raw (o_late o') = tg
    else p_raw (o_late o') =
         the_law powf (p_raw (o_late o)) tg (tw_easing tw) D (elapsed (tw_start tw) 0 (calls h)).
  Proof.
    intros Hn Hnd Hdur Hc R Hns D.
    pose proof (late_projection_proof powf VE interpE Q lerpQ S Out before pre silent_out mid render _ _ _ _ R) as P.
    pose proof (run_flags_length powf VE interpE Q lerpQ S Out before pre silent_out mid render _ _ _ _ R) as Len.
    cbn [late_view param_run param_step obind calls] in P, Len.
    assert (Hf : forallb negb (map fst l) = true).
    { unfold some_call_silent in Hns. clear -Hns. induction l as [|[b x] l IH]; [reflexivity|].
      cbn [existsb fst map forallb] in *. destruct b; cbn [orb negb andb] in *; [congruence|]. apply IH. exact Hns. }
    rewrite (late_view_calls VE Q S h (map fst l) Hn Hf) in P by (rewrite map_length; exact Len).
    destruct (tween_law_from_set powf (o_late o) tg tw (calls h) Hnd Hdur Hc) as [p' [R' C]].
    unfold run, updates in R'. rewrite R' in P. inversion P. subst p'. exact C.
  Qed.
End Late.

(** ** witnesses *)
Definition toyQ := toy (T:=Q) Q.
Definition toy0 : toyQ :=
  {| o_early := param_new (Fixed 0%Q) 0%Q; o_late := param_new (Fixed 0%Q) 0%Q; o_rest := false |}.
Definition tw_1s : tween Q := {| tw_start := Immediate; tw_dur := 1000000000%Z; tw_easing := Linear |}.
Definition dt1024 : Q := 1 # 1024.
Definition pw0 : Q -> Q -> Q := fun _ _ => 0%Q.

(** non-vacuity of [owner_tween_law]: a paused owner, three calls of unequal length (512 frames
    in all at 1024 Hz) after a 1 s tween 0 -> 10: the early parameter is at 5 *)
Example owner_law_example :
  exists o' l,
    toy_run pw0 Q (@lerp Q Num_Q) toy0
      [OSetEarly (Fixed 10%Q) tw_1s; toy_pause Q; OProcess 100 dt1024 no_info; OProcess 1 dt1024 no_info;
       OProcess 411 dt1024 no_info] = Ok (o', l)
    /\ map fst l = [true; true; true] /\ (p_raw (o_early o') == 5)%Q.
Proof. eexists. eexists. split; [vm_compute; reflexivity|]. split; reflexivity. Qed.

(** The late slot refuted: with the parameter ticked below the early return, a tween set on a
    paused owner has not moved after half its duration has been processed, while the law of the
    processed time says 5. *)
Lemma late_update_reading_refuted_proof :
  exists (h : list (toy_op (T:=Q) Q)) (o' : toyQ) l,
    no_late_set Q bool h /\ calls h <> [] /\
    toy_run pw0 Q (@lerp Q Num_Q) toy0 (OSetLate (Fixed 10%Q) tw_1s :: h) = Ok (o', l) /\
    some_call_silent (option (Q * Q)) l /\
    completes Immediate (ns_to_secs_Q 1000000000) 0 (calls h) = false /\
    ~ (p_raw (o_late o') ==
       the_law pw0 (p_raw (o_late toy0)) 10 Linear (ns_to_secs_Q 1000000000) (elapsed Immediate 0 (calls h)))%Q /\
    (p_raw (o_late o') == 0)%Q /\
    (the_law pw0 0 10 Linear (ns_to_secs_Q 1000000000) (elapsed Immediate 0 (calls h)) == 5)%Q.
Proof.
  exists [toy_pause Q; OProcess 512 dt1024 no_info].
  eexists. eexists.
  split; [reflexivity|]. split; [discriminate|].
  split; [vm_compute; reflexivity|].
  split; [reflexivity|]. split; [reflexivity|].
  split; [|split; reflexivity].
  vm_compute. discriminate.
Qed.
