(** C06 — the tween law for tweenable types whose interpolation is not plain [a + (b - a) * t], and tweens that
    reach their parameter through a constructor:

    - [Parameter<ClockSpeed>]: the law holds IN THE UNIT OF THE TARGET (seconds per tick is the reciprocal of
      ticks per second / per minute: a ramp that is linear in one unit is not linear in the other, so "the speed
      follows start + (target - start) x ease" is a statement about one unit, the one the caller gave the target
      in); "interpolate everything in ticks per second" is refuted.
    - a pending start keeps the old value and a started zero-duration tween is the target at the next update, for
      EVERY value type and every duration (C06/Proofs2 has the delayed count-down for non-zero durations only);
    - the fade-in tween of a sound's settings is handed to the fade parameter as it is (start time and zero
      duration included), so the two facts above are facts about the sound's fade volume. *)
From Coq Require Import ZArith QArith Qround Lia Lqa Bool List.
From KV Require Import Base.Outcome Base.Num Base.QLemmas C19.Model C19.ProofsEasing C06.Model C06.Dur C06.Proofs C06.Proofs2
  C05.ProofsSpeed C03.Model.
Import ListNotations.
Local Open Scope Q_scope.

(** ** clock speeds *)

(** the speed [s] expressed in the unit [tg] is given in *)
Definition in_unit_of (tg s : cspeed Q) : Q :=
  match tg with SecondsPerTick _ => as_spt s | TicksPerSecond _ => as_tps s | TicksPerMinute _ => as_tpm s end.
Definition same_unit (a b : cspeed Q) : Prop :=
  match a, b with
  | SecondsPerTick _, SecondsPerTick _ | TicksPerSecond _, TicksPerSecond _ | TicksPerMinute _, TicksPerMinute _ => True
  | _, _ => False
  end.

Lemma lerpQ_eq (a b x : Q) : @lerp Q Num_Q a b x == a + (b - a) * x.
Proof. unfold lerp. cbn [nadd nmul nsub Num_Q]. qred. reflexivity. Qed.

Lemma cspeed_interpolate_in_unit (a tg : cspeed Q) (x : Q) :
  same_unit (cspeed_interpolate a tg x) tg /\
  in_unit_of tg (cspeed_interpolate a tg x) == in_unit_of tg a + (in_unit_of tg tg - in_unit_of tg a) * x.
Proof.
  destruct tg as [y|y|y]; cbn [cspeed_interpolate same_unit in_unit_of as_spt as_tps as_tpm];
    (split; [exact I|apply lerpQ_eq]).
Qed.

Lemma clock_speed_law_from_set (powf : Q -> Q -> Q) (p : param Q (cspeed Q)) (tg : cspeed Q) (tw : tween Q)
  (l : list (Q * info Q)) :
  not_delayed (tw_start tw) -> (tw_dur tw <> 0)%Z -> l <> [] ->
  let D := ns_to_secs_Q (tw_dur tw) in
  exists p', runV powf (cspeed Q) cspeed_interpolate (param_set p (Fixed tg) tw) (updatesV (cspeed Q) l) = Ok p' /\
    if completes (tw_start tw) D 0 l
    then p_state p' = Idle (Fixed tg) /\ p_raw p' = tg
    else same_unit (p_raw p') tg /\
         in_unit_of tg (p_raw p') ==
           in_unit_of tg (p_raw p)
           + (in_unit_of tg tg - in_unit_of tg (p_raw p))
             * ease powf (tw_easing tw) (ndiv (elapsed (tw_start tw) 0 l) D).
Proof.
  intros Hnd Hdur Hl D.
  destruct (law_runV powf (cspeed Q) cspeed_interpolate l (param_set p (Fixed tg) tw) (p_raw p) tg 0 tw)
    as [p' [R C]]; [split; reflexivity|exact Hnd|exact Hdur|].
  exists p'. split; [exact R|]. fold D in C.
  destruct (completes (tw_start tw) D 0 l); [exact C|].
  destruct C as [_ C]. rewrite (C Hl). unfold the_lawV. apply cspeed_interpolate_in_unit.
Qed.

(** "clocks only ever read ticks per second, so interpolate there": from one second per tick to half a second per
    tick, halfway, that reading is at 2/3 s per tick; the law says 3/4 *)
Definition interpolate_in_tps (a b : cspeed Q) (x : Q) : cspeed Q := TicksPerSecond (lerp (as_tps a) (as_tps b) x).
Lemma interpolate_in_tps_not_the_law :
  exists (a tg : cspeed Q) (x : Q),
    0 < x /\ x < 1 /\
    ~ in_unit_of tg (interpolate_in_tps a tg x) == in_unit_of tg a + (in_unit_of tg tg - in_unit_of tg a) * x.
Proof.
  exists (SecondsPerTick 1), (SecondsPerTick (1 # 2)), (1 # 2).
  split; [reflexivity|]. split; [reflexivity|]. vm_compute. discriminate.
Qed.

(** ** pending starts and zero durations, for any value type *)
Section AnyType.
  Variable powf : Q -> Q -> Q.
  Variable V : Type.
  Variable interp : V -> V -> Q -> V.
  Notation paramV := (param Q V).

  (** the start time has not come for this update: a delay that is still counting down, or a clock that does not
      say "now" *)
  Definition pending (st : stime Q) (i : info Q) : Prop :=
    match st with
    | Immediate => False
    | Delayed rem => rem <> 0%Z
    | ClockT c tk fr => when_to_start i c tk fr <> Now
    end.

  (** a ZERO-duration tween whose start is pending: the value stays what it was (exactly), nothing finishes, the
      tween is still there with its delay counted down by [dt] *)
  Lemma zero_duration_pending (p : paramV) (v0 tg : V) (tw : tween Q) (dt : Q) (i : info Q) (d : Z) :
    p_state p = Tweening v0 (Fixed tg) 0 tw -> p_stagnant p = false -> tw_dur tw = 0%Z ->
    pending (tw_start tw) i -> secs_to_ns_Q dt = Ok d ->
    exists p', updV powf V interp p dt i = Ok (p', false) /\ p_raw p' = p_raw p /\ p_prev p' = p_raw p /\
      p_stagnant p' = false /\
      p_state p' = Tweening v0 (Fixed tg) 0
                     {| tw_start := match tw_start tw with Delayed rem => Delayed (sat_sub rem d) | s => s end;
                        tw_dur := 0; tw_easing := tw_easing tw |}.
  Proof.
    intros Hs Hg Hd Hp Hdt. unfold updV, param_update. rewrite Hg, Hs. cbn [update_tween].
    destruct tw as [st du ea]. cbn [tw_start tw_dur tw_easing] in *. subst du.
    destruct st as [|rem|c tk fr]; cbn [pending] in Hp.
    - contradiction.
    - destruct (Z.eqb_spec rem 0) as [E|E]; [contradiction|].
      cbn [secs_to_ns NumDur_Q]. rewrite Hdt. cbn [obind negb new_raw tw_dur tw_start tw_easing Z.eqb].
      eexists. split; [reflexivity|]. cbn [p_raw p_prev p_stagnant p_state]. repeat split.
    - destruct (when_to_start i c tk fr) eqn:W; [contradiction| |];
        cbn [obind negb new_raw tw_dur Z.eqb]; eexists; (split; [reflexivity|]);
        cbn [p_raw p_prev p_stagnant p_state]; repeat split.
  Qed.

  (** a zero-duration tween whose start has come: the target, exactly, at this very update, and the parameter is
      at rest on it *)
  Lemma zero_duration_started (p : paramV) (v0 tg : V) (tw : tween Q) (dt : Q) (i : info Q) :
    p_state p = Tweening v0 (Fixed tg) 0 tw -> p_stagnant p = false -> tw_dur tw = 0%Z ->
    counts (tw_start tw) i = true -> 0 <= dt ->
    updV powf V interp p dt i =
      Ok ({| p_state := Idle (Fixed tg); p_raw := tg; p_prev := p_raw p; p_stagnant := true |}, true).
  Proof.
    intros Hs Hg Hd Hc Hdt. unfold updV, param_update. rewrite Hg, Hs. cbn [update_tween].
    assert (Hstart : match tw_start tw with
                     | Immediate => Ok (true, tw)
                     | Delayed rem => if (rem =? 0)%Z then Ok (true, tw)
                                      else obind (secs_to_ns dt) (fun d => Ok (false, {| tw_start := Delayed (sat_sub rem d); tw_dur := tw_dur tw; tw_easing := tw_easing tw |}))
                     | ClockT c tk fr => Ok (match when_to_start i c tk fr with Now => true | _ => false end, tw)
                     end = Ok (true, tw)).
    { destruct (tw_start tw) as [|ns|c tk fr]; cbn [counts] in Hc; [reflexivity| |].
      - rewrite Hc. reflexivity.
      - destruct (when_to_start i c tk fr); try discriminate. reflexivity. }
    rewrite Hstart. cbn [obind negb]. rewrite Hd.
    assert (L : nleb (ns_to_secs 0%Z) (nadd 0 dt) = true).
    { cbn [nleb nadd ns_to_secs NumDur_Q Num_Q]. apply Qle_bool_iff. unfold ns_to_secs_Q.
      rewrite !Qred_correct. assert (Z0 : 0 # 1000000000 == 0) by reflexivity. rewrite Z0. lra. }
    rewrite L. reflexivity.
  Qed.

  (** ** the fade-in tween of a sound's settings reaches the fade parameter as it is *)
  Variables silence identity : V.
  Lemma fade_in_reaches_parameter (tw : tween Q) :
    let f := fade (psm_new V silence identity (Some tw)) in
    p_state f = Tweening silence (Fixed identity) 0 tw /\ p_raw f = silence /\ p_prev f = silence /\
    p_stagnant f = false.
  Proof. cbn. repeat split. Qed.

  (** ... so a sound played with a fade-in of zero duration whose start is pending is at SILENCE after the update
      (for every state of the manager: [psm_update] ticks the fade first) *)
  Lemma fade_in_zero_duration_pending_silent (tw : tween Q) (dt : Q) (i : info Q) (d : Z) :
    tw_dur tw = 0%Z -> pending (tw_start tw) i -> secs_to_ns_Q dt = Ok d ->
    exists m', psm_update powf V interp identity (psm_new V silence identity (Some tw)) dt i = Ok (m', false) /\
      ps m' = Playing /\ p_raw (fade m') = silence /\ p_prev (fade m') = silence.
  Proof.
    intros Hd Hp Hdt.
    destruct (fade_in_reaches_parameter tw) as [F1 [F2 [F3 F4]]].
    destruct (zero_duration_pending (fade (psm_new V silence identity (Some tw))) silence identity tw dt i d F1 F4 Hd Hp Hdt)
      as [p' [U [R1 [R2 _]]]].
    unfold updV in U. unfold psm_update. rewrite U. cbn [obind psm_new ps].
    eexists. split; [reflexivity|]. cbn [ps fade]. rewrite R1, R2, F2. repeat split.
  Qed.

  (** ... and is at IDENTITY (0 dB), at rest, after the first update at which the start has come *)
  Lemma fade_in_zero_duration_started_identity (tw : tween Q) (dt : Q) (i : info Q) :
    tw_dur tw = 0%Z -> counts (tw_start tw) i = true -> 0 <= dt ->
    exists m', psm_update powf V interp identity (psm_new V silence identity (Some tw)) dt i = Ok (m', false) /\
      ps m' = Playing /\ p_raw (fade m') = identity /\ p_state (fade m') = Idle (Fixed identity).
  Proof.
    intros Hd Hc Hdt.
    destruct (fade_in_reaches_parameter tw) as [F1 [F2 [F3 F4]]].
    pose proof (zero_duration_started (fade (psm_new V silence identity (Some tw))) silence identity tw dt i F1 F4 Hd Hc Hdt) as U.
    unfold updV in U. unfold psm_update. rewrite U. cbn [obind psm_new ps].
    eexists. split; [reflexivity|]. cbn [ps fade p_raw p_state]. repeat split.
  Qed.
End AnyType.

(** the hypotheses are satisfiable: a fade-in of zero duration that starts half a second (or at tick 4 of a clock
    that shows tick 1) after the sound *)
Example pending_example :
  pending (tw_start {| tw_start := Delayed 500000000; tw_dur := 0; tw_easing := Linear |}) (@no_info Q) /\
  pending (tw_start {| tw_start := ClockT 0 4 0; tw_dur := 0; tw_easing := Linear |})
          {| i_clocks := [Some (true, 1%Z, 0)]; i_mods := []; i_dist := None |} /\
  secs_to_ns_Q (1 # 10) = Ok 100000000%Z.
Proof. split; [discriminate|]. split; [vm_compute; discriminate|reflexivity]. Qed.
