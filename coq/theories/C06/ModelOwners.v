(** C06 — the parameters as they are embedded in their owners (executable model, no proofs).

    Every tweenable quantity of kira is a [Parameter] (C06/Model.v: [param]) that SOMEBODY has to
    tick: [Parameter::update(dt * frames)] exactly once per processed chunk.  Who does it, with
    which time step and under which guards (paths relative to crates/kira/src; "chunk" = one
    [Renderer::process_chunk], at most [internal_buffer_size] frames; "dt" = 1 / sample_rate):

    owner                 parameter(s)                       updated at                        time step             guard (what must hold for the update to happen)
    --------------------  ---------------------------------  --------------------------------  --------------------  ----------------------------------------------------------
    StaticSound           volume, playback_rate, panning     sound/static_sound/sound.rs:199-201  dt * out.len()      none: first statements of [process] (before the state manager :202, the start
                                                                                                                    time :209, "not started yet" return :214-217, "not advancing" return :219-222)
    StreamingSound        volume, playback_rate, panning     sound/streaming/sound.rs:212-214  dt * out.len()        only [encountered_error] (:204-209, the sound is then Stopped); before the state
                                                                                                                    manager :215, start time :222, the returns :227, :232 and the "waiting for data" return :239
    PlaybackStateManager  volume_fade                        playback_state_manager.rs:86      the owner's dt*len    none (called from sound.rs:202, streaming/sound.rs:215, track/sub.rs:169)
    MainTrack             volume                             track/main.rs:51                  dt * out.len()        none (first statement; the main track cannot be paused)
    Track (sub-track)     volume                             track/sub.rs:163                  dt * out.len()        none: before the state manager :169 and the "not advancing" return :180-183
                          send routes' volume                track/sub.rs:164-166              dt * out.len()        none (same place)
                          spatial position                   track/sub.rs:220                  dt * out.len()        LATE: only in chunks in which the track is advancing (after the return at :180-183,
                          spatialization_strength            track/sub.rs:221-223              dt * out.len()        after sub-tracks, sounds and effects)
    SendTrack             volume                             track/send.rs:71                  dt * out.len()        none (first statement; a send track cannot be paused)
    effects (all)         every parameter of the effect      effect/*.rs, top of [process]     dt * input.len()      the effect's own [process] has none (reverb.rs:147-150: only once initialised), but the
                          (volume_control.rs:40, panning_control.rs:40, filter.rs:72-74,                              OWNER calls [effect.process] at track/main.rs:60, track/send.rs:77 (always) and
                           eq_filter.rs:59-61, delay.rs:83-84, distortion.rs:58-59,                                   track/sub.rs:215 (LATE: only while the sub-track is advancing)
                           compressor.rs:73-78, reverb.rs:147-150)
    Lfo                   frequency, amplitude, offset       modulator/lfo.rs:68-70            dt*num_frames (renderer.rs:80-84 -> resources/modulators.rs:25)   none
    Tweener               its own copy of the tween machine  modulator/tweener.rs:71-101       same                  none
    Clock                 speed                              clock.rs:320                      dt*num_frames (renderer.rs:85-89 -> resources/clocks.rs:27)       none: before "not ticking" (:321)
    Listener              position, orientation              listener.rs:67-68                 dt*num_frames (renderer.rs:90-94 -> resources/listeners.rs:26)    none
    (anything beneath a sub-track that is not advancing -- its sounds, sub-tracks, effects -- is not processed at all: C12.)

    Commands ([read_commands_into_parameters!], command.rs:158 / [Parameter::read_command]) are read in the
    owner's [on_start_processing], once per callback, before the first chunk of that callback.

    The model: an OWNER has one "early" parameter (ticked before any state-dependent return), one
    "late" parameter (ticked only when the owner actually renders) and a rest of any type (state
    manager, start time, transport, the other parameters, ...).  Hooks [before] / [pre] / [mid] /
    [render] stand for everything else [process] does; they may read the parameters but are
    never handed a way to write them.  For kira as it is: sounds, main / send tracks, modulators,
    clocks, listeners have early parameters only; a sub-track has both kinds.  The "update after
    the early return" reading of the discipline is the late slot. *)
From Coq Require Import ZArith List Bool.
From KV Require Import Base.Outcome Base.Num C19.Model C06.Model.
Import ListNotations.
Local Open Scope Z_scope.

Section Owner.
  Context {T : Type} {NT : Num T} {ND : NumDur T}.
  Variable powf : T -> T -> T.
  Variable VE : Type.                              (* value type of the early parameter *)
  Variable interpE : VE -> VE -> T -> VE.
  Variable VL : Type.                              (* value type of the late parameter *)
  Variable interpL : VL -> VL -> T -> VL.
  Variable S : Type.                               (* everything else the owner has *)
  Variable Out : Type.                             (* what one [process] call produces *)

  (** [dt * out.len() as f64] *)
  Definition chunk_time (len : nat) (dt : T) : T := nmul dt (nofZ (Z.of_nat len)).

  Record owner := { o_early : param T VE; o_late : param T VL; o_rest : S }.

  (** statements of [process] above the early parameter's update (e.g. the other parameters) *)
  Variable before : S -> nat -> T -> info T -> outcome S.
  (** state manager, start time, ...; [true] = [process] fills the output with silence and returns *)
  Variable pre : S -> param T VE -> nat -> T -> info T -> outcome (S * bool).
  Variable silent_out : nat -> Out.
  (** what an owner that renders does before the late update (children, sounds, effects) ... *)
  Variable mid : S -> param T VE -> param T VL -> nat -> T -> info T -> outcome S.
  (** ... and after it (the per-frame loop) *)
  Variable render : S -> param T VE -> param T VL -> nat -> T -> info T -> outcome (S * Out).

  (** one [process] call on [len] frames; the flag says whether it took the early return *)
  Definition owner_process (o : owner) (len : nat) (dt : T) (i : info T) : outcome (owner * bool * Out) :=
    let dtl := chunk_time len dt in
    let! s0 := before (o_rest o) len dt i in
    let! (pe, _) := param_update powf VE interpE (o_early o) dtl i in
    let! (s1, silent) := pre s0 pe len dt i in
    if silent then Ok ({| o_early := pe; o_late := o_late o; o_rest := s1 |}, true, silent_out len)
    else
      let! s2 := mid s1 pe (o_late o) len dt i in
      let! (pl, _) := param_update powf VL interpL (o_late o) dtl i in
      let! (s3, out) := render s2 pe pl len dt i in
      Ok ({| o_early := pe; o_late := pl; o_rest := s3 |}, false, out).

  (** a history: commands (taken in [on_start_processing]), arbitrary changes of the rest
      (pause, resume, resume_at, stop, seek, ...), [process] calls of arbitrary length *)
  Inductive oop :=
  | OSetEarly (target : value T VE) (tw : tween T)
  | OSetLate (target : value T VL) (tw : tween T)
  | OState (f : S -> S)
  | OProcess (len : nat) (dt : T) (i : info T).

  Definition owner_step (o : owner) (op : oop) : outcome (owner * list (bool * Out)) :=
    match op with
    | OSetEarly tg tw => Ok ({| o_early := param_set (o_early o) tg tw; o_late := o_late o; o_rest := o_rest o |}, [])
    | OSetLate tg tw => Ok ({| o_early := o_early o; o_late := param_set (o_late o) tg tw; o_rest := o_rest o |}, [])
    | OState f => Ok ({| o_early := o_early o; o_late := o_late o; o_rest := f (o_rest o) |}, [])
    | OProcess len dt i => let! (o', silent, out) := owner_process o len dt i in Ok (o', [(silent, out)])
    end.
  (** the whole history; the result lists, per [process] call, (took the early return?, output) *)
  Fixpoint owner_run (o : owner) (h : list oop) : outcome (owner * list (bool * Out)) :=
    match h with
    | [] => Ok (o, [])
    | op :: h' =>
        let! (o1, l1) := owner_step o op in
        let! (o2, l2) := owner_run o1 h' in
        Ok (o2, l1 ++ l2)
    end.

  (** what the early parameter sees of a history: its own commands and one update per call *)
  Fixpoint early_view (h : list oop) : list (pop T VE) :=
    match h with
    | [] => []
    | OSetEarly tg tw :: h' => OSet tg tw :: early_view h'
    | OProcess len dt i :: h' => OUpdate (chunk_time len dt) i :: early_view h'
    | _ :: h' => early_view h'
    end.
  (** what the late parameter sees: only the calls that did not take the early return *)
  Fixpoint late_view (h : list oop) (flags : list bool) : list (pop T VL) :=
    match h with
    | [] => []
    | OSetLate tg tw :: h' => OSet tg tw :: late_view h' flags
    | OProcess len dt i :: h' =>
        match flags with
        | silent :: flags' =>
            if silent then late_view h' flags' else OUpdate (chunk_time len dt) i :: late_view h' flags'
        | [] => []
        end
    | _ :: h' => late_view h' flags
    end.
  (** the [process] calls of a history as updates: (time step, info) *)
  Fixpoint calls (h : list oop) : list (T * info T) :=
    match h with
    | [] => []
    | OProcess len dt i :: h' => (chunk_time len dt, i) :: calls h'
    | _ :: h' => calls h'
    end.
  Definition is_set_early (op : oop) : bool := match op with OSetEarly _ _ => true | _ => false end.
  Definition is_set_late (op : oop) : bool := match op with OSetLate _ _ => true | _ => false end.
  (** frames processed by a history *)
  Fixpoint frames_of (h : list oop) : nat :=
    match h with
    | [] => O
    | OProcess len _ _ :: h' => (len + frames_of h')%nat
    | _ :: h' => frames_of h'
    end.
End Owner.

Arguments owner : clear implicits.
Arguments oop : clear implicits.
Arguments o_early {T VE VL S}.
Arguments o_late {T VE VL S}.
Arguments o_rest {T VE VL S}.
Arguments Build_owner {T VE VL S}.
Arguments OSetEarly {T VE VL S}.
Arguments OSetLate {T VE VL S}.
Arguments OState {T VE VL S}.
Arguments OProcess {T VE VL S}.
Arguments early_view {T NT VE VL S}.
Arguments late_view {T NT VE VL S}.
Arguments calls {T NT VE VL S}.
Arguments frames_of {T VE VL S}.
Arguments is_set_early {T VE VL S}.
Arguments is_set_late {T VE VL S}.

(** ** the simplest owner with a playback state: the rest is "paused?", a paused owner takes the
    early return (what a sound / a sub-track does with [is_advancing]), nothing else happens.
    Used for the witnesses. *)
Section Toy.
  Context {T : Type} {NT : Num T} {ND : NumDur T}.
  Variable powf : T -> T -> T.
  Variable V : Type.
  Variable interp : V -> V -> T -> V.
  Definition toy := owner T V V bool.
  Definition toy_op := oop T V V bool.
  (** output of a call that renders: the two values at the end of the chunk *)
  Definition toy_run : toy -> list toy_op -> outcome (toy * list (bool * option (V * V))) :=
    owner_run powf V interp V interp bool (option (V * V))
      (fun s _ _ _ => Ok s)
      (fun s _ _ _ _ => Ok (s, s))
      (fun _ => None)
      (fun s _ _ _ _ _ => Ok s)
      (fun s pe pl _ _ _ => Ok (s, Some (p_raw pe, p_raw pl))).
  Definition toy_pause : toy_op := OState (fun _ => true).
  Definition toy_resume : toy_op := OState (fun _ => false).
End Toy.
