(** C06 — consequences of the law: from [set], range, pending start, zero duration, delay,
    continuity, modulator targets. *)
From Coq Require Import ZArith QArith Qround Lia Lqa Bool List.
From KV Require Import Base.Outcome Base.Num Base.QLemmas C19.Model C19.ProofsEasing C06.Model C06.Dur C06.Proofs.
Import ListNotations.
Local Open Scope Q_scope.

Section Cons.
  Variable powf : Q -> Q -> Q.
  Notation paramQ := (param Q Q).
  Notation lerpQ := (@lerp Q Num_Q).

  Lemma set_is_mid (p : paramQ) tg tw : mid (param_set p (Fixed tg) tw) (p_raw p) tg 0 tw.
  Proof. split; reflexivity. Qed.

  (** The tween law.  After [set target tween] at value [v0], for EVERY list of updates (every
      partition of time): if the tween completes within the list, the value is identically the
      target; otherwise it is [v0 + (target - v0) * ease(elapsed / duration)], where [elapsed]
      sums the updates that count (all of them for an immediate start). *)
  Lemma tween_law_from_set (p : paramQ) tg tw (l : list (Q * info Q)) :
    not_delayed (tw_start tw) -> (tw_dur tw <> 0)%Z -> l <> [] ->
    let D := ns_to_secs_Q (tw_dur tw) in
    exists p', run powf (param_set p (Fixed tg) tw) (updates l) = Ok p' /\
      if completes (tw_start tw) D 0 l
      then p_state p' = Idle (Fixed tg) /\ p_raw p' = tg
      else p_raw p' = the_law powf (p_raw p) tg (tw_easing tw) D (elapsed (tw_start tw) 0 l).
  Proof.
    intros Hnd Hdur Hl D.
    destruct (law_run powf l (param_set p (Fixed tg) tw) (p_raw p) tg 0 tw (set_is_mid p tg tw) Hnd Hdur)
      as [p' [R C]].
    exists p'. split; [exact R|]. fold D in C.
    destruct (completes (tw_start tw) D 0 l); [exact C|]. destruct C as [_ C]. apply C. exact Hl.
  Qed.

  (** the law in plain arithmetic *)
  Lemma the_law_eq v0 tg e D t :
    the_law powf v0 tg e D t == v0 + (tg - v0) * ease powf e (ndiv t D) /\ ndiv t D == t / D.
  Proof.
    unfold the_law, lerp. cbn [nadd nmul nsub ndiv Num_Q]. split; qred; reflexivity.
  Qed.

  (** elapsed time is the plain sum of the counted updates *)
  Fixpoint plain_sum (st : stime Q) (l : list (Q * info Q)) : Q :=
    match l with
    | [] => 0
    | (dt, i) :: l' => (if counts st i then dt else 0) + plain_sum st l'
    end.
  Lemma elapsed_sum st acc l : elapsed st acc l == acc + plain_sum st l.
  Proof.
    revert acc. induction l as [|[dt i] l IH]; intro acc; cbn [elapsed plain_sum].
    - ring.
    - rewrite IH. destruct (counts st i); cbn [nadd Num_Q]; qred; ring.
  Qed.
  Lemma elapsed_canonical st l : Qred (elapsed st 0 l) = elapsed st 0 l.
  Proof.
    assert (G : forall acc, Qred acc = acc -> Qred (elapsed st acc l) = elapsed st acc l).
    { induction l as [|[dt i] l IH]; intros acc Hacc; cbn [elapsed]; [exact Hacc|].
      apply IH. destruct (counts st i); [|exact Hacc]. cbn [nadd Num_Q].
      apply Qred_complete. apply Qred_correct. }
    apply G. reflexivity.
  Qed.

  (** Partition independence: two partitions of the same elapsed time give the same value. *)
  Lemma partition_independent (p : paramQ) tg tw (l1 l2 : list (Q * info Q)) :
    not_delayed (tw_start tw) -> (tw_dur tw <> 0)%Z -> l1 <> [] -> l2 <> [] ->
    let D := ns_to_secs_Q (tw_dur tw) in
    completes (tw_start tw) D 0 l1 = false -> completes (tw_start tw) D 0 l2 = false ->
    plain_sum (tw_start tw) l1 == plain_sum (tw_start tw) l2 ->
    exists p1 p2, run powf (param_set p (Fixed tg) tw) (updates l1) = Ok p1 /\
                  run powf (param_set p (Fixed tg) tw) (updates l2) = Ok p2 /\ p_raw p1 = p_raw p2.
  Proof.
    intros Hnd Hdur H1 H2 D C1 C2 Hs.
    destruct (tween_law_from_set p tg tw l1 Hnd Hdur H1) as [p1 [R1 V1]].
    destruct (tween_law_from_set p tg tw l2 Hnd Hdur H2) as [p2 [R2 V2]].
    fold D in V1, V2. rewrite C1 in V1. rewrite C2 in V2.
    exists p1, p2. split; [exact R1|]. split; [exact R2|]. rewrite V1, V2.
    assert (E : elapsed (tw_start tw) 0 l1 = elapsed (tw_start tw) 0 l2).
    { rewrite <- (elapsed_canonical _ l1), <- (elapsed_canonical _ l2). apply Qred_complete.
      rewrite !elapsed_sum, Hs. reflexivity. }
    rewrite E. reflexivity.
  Qed.

  (** completion happens exactly when the elapsed time reaches the duration (non-negative updates) *)
  Definition nonneg_updates (l : list (Q * info Q)) : Prop := Forall (fun x => 0 <= fst x) l.
  Lemma elapsed_ge st acc l : nonneg_updates l -> acc <= elapsed st acc l.
  Proof.
    intro H. revert acc. induction H as [|[dt i] l Hd Hl IH]; intro acc; cbn [elapsed]; [lra|].
    cbn [fst] in Hd. destruct (counts st i).
    - eapply Qle_trans; [|apply IH]. cbn [nadd Num_Q]. qred. lra.
    - apply IH.
  Qed.
  Lemma completes_spec st D acc l :
    nonneg_updates l -> acc < D -> (completes st D acc l = true <-> D <= elapsed st acc l).
  Proof.
    intro H. revert acc. induction H as [|[dt i] l Hd Hl IH]; intros acc Hacc; cbn [completes elapsed].
    - split; [discriminate|]. intro. lra.
    - destruct (counts st i).
      + destruct (Qle_bool D (nadd acc dt)) eqn:Hle.
        * split; [intros _|reflexivity]. apply Qle_bool_iff in Hle.
          eapply Qle_trans; [exact Hle|]. apply elapsed_ge. exact Hl.
        * apply IH. apply Qle_bool_false. exact Hle.
      + apply IH. exact Hacc.
  Qed.

  (** ** the value never leaves the interval between start and target *)
  Lemma law_in_range v0 tg e D t :
    shape (ease powf e) -> 0 < D -> 0 <= t -> t <= D ->
    (v0 <= tg -> v0 <= the_law powf v0 tg e D t <= tg) /\
    (tg <= v0 -> tg <= the_law powf v0 tg e D t <= v0).
  Proof.
    intros S HD H0 H1. destruct (the_law_eq v0 tg e D t) as [E1 E2].
    assert (R : 0 <= ease powf e (ndiv t D) <= 1).
    { apply shape_range; [exact S|]. rewrite E2. split.
      - apply Qle_shift_div_l; lra.
      - apply Qle_shift_div_r; lra. }
    destruct R as [R0 R1]. rewrite E1. split; intro H.
    - split; [|].
      + assert (0 <= (tg - v0) * ease powf e (ndiv t D)) by (apply Qmult_le_0_compat; lra). lra.
      + assert ((tg - v0) * ease powf e (ndiv t D) <= (tg - v0) * 1); [|lra].
        nra.
    - split.
      + assert ((v0 - tg) * ease powf e (ndiv t D) <= (v0 - tg) * 1) by nra. lra.
      + assert (0 <= (v0 - tg) * ease powf e (ndiv t D)) by (apply Qmult_le_0_compat; lra). lra.
  Qed.

  (** while nothing has counted yet (start time pending) the value is the old value *)
  Lemma law_at_zero v0 tg e D :
    shape (ease powf e) -> ~ D == 0 -> the_law powf v0 tg e D 0 == v0.
  Proof.
    intros S HD. destruct (the_law_eq v0 tg e D 0) as [E1 E2]. rewrite E1.
    rewrite (sh_comp _ S (ndiv 0 D) 0); [rewrite (sh_0 _ S); ring|]. rewrite E2. field. exact HD.
  Qed.

  (** ** continuity across updates: each update interpolates from the previous final value *)
  Lemma prev_is_last_value (p p' : paramQ) dt i f :
    upd powf p dt i = Ok (p', f) -> p_prev p' = p_raw p.
  Proof.
    unfold upd, param_update. destruct (p_stagnant p).
    - intro H. inversion H. reflexivity.
    - destruct (update_tween (p_state p) false dt i) as [[[st sg] fin]| |]; cbn [obind]; try discriminate.
      intro H. inversion H. reflexivity.
  Qed.
  Lemma interpolated_endpoints (p : paramQ) :
    param_interpolated Q lerpQ p 0 == p_prev p /\ param_interpolated Q lerpQ p 1 == p_raw p.
  Proof. unfold param_interpolated, lerp. cbn [nadd nmul nsub Num_Q]. split; qred; ring. Qed.
  (** a new tween begins from the current, possibly mid-tween, value and changes nothing by itself *)
  Lemma set_from_current (p : paramQ) tg tw :
    p_raw (param_set p tg tw) = p_raw p /\ p_prev (param_set p tg tw) = p_prev p /\
    p_state (param_set p tg tw) = Tweening (p_raw p) tg 0 tw.
  Proof. repeat split. Qed.

  (** ** zero duration: takes effect at the first update that counts; no division is evaluated *)
  Lemma zero_duration_update (p : paramQ) v0 tg t tw dt i :
    mid p v0 tg t tw -> not_delayed (tw_start tw) -> tw_dur tw = 0%Z -> counts (tw_start tw) i = true ->
    0 <= t -> 0 <= dt ->
    upd powf p dt i = Ok ({| p_state := Idle (Fixed tg); p_raw := tg; p_prev := p_raw p; p_stagnant := true |}, true).
  Proof.
    intros [Hs Hg] Hnd Hdur Hc Ht Hdt. unfold upd, param_update. rewrite Hg, Hs. cbn [update_tween].
    destruct (tw_start tw) as [|ns|c tk fr] eqn:Est; cbn in Hc, Hnd.
    - cbn [obind negb]. rewrite Hdur.
      assert (L : nleb (ns_to_secs 0%Z) (nadd t dt) = true).
      { cbn [nleb nadd ns_to_secs NumDur_Q Num_Q]. apply Qle_bool_iff. qred. unfold ns_to_secs_Q. qred.
        assert (Z0 : 0 # 1000000000 == 0) by reflexivity. rewrite Z0. lra. }
      rewrite L. reflexivity.
    - subst ns. cbn [Z.eqb obind negb]. rewrite Hdur.
      assert (L : nleb (ns_to_secs 0%Z) (nadd t dt) = true).
      { cbn [nleb nadd ns_to_secs NumDur_Q Num_Q]. apply Qle_bool_iff. qred. unfold ns_to_secs_Q. qred.
        assert (Z0 : 0 # 1000000000 == 0) by reflexivity. rewrite Z0. lra. }
      rewrite L. reflexivity.
    - rewrite Hc. cbn [obind negb]. rewrite Hdur.
      assert (L : nleb (ns_to_secs 0%Z) (nadd t dt) = true).
      { cbn [nleb nadd ns_to_secs NumDur_Q Num_Q]. apply Qle_bool_iff. qred. unfold ns_to_secs_Q. qred.
        assert (Z0 : 0 # 1000000000 == 0) by reflexivity. rewrite Z0. lra. }
      rewrite L. reflexivity.
  Qed.

  (** ** delayed start: the delay is counted down by the rounded update lengths; the update in which
      it reaches zero does not count yet (one update of slack); the value is untouched meanwhile *)
  Lemma delayed_countdown (p : paramQ) v0 tg tw rem dt i d :
    p_state p = Tweening v0 (Fixed tg) 0 tw -> p_stagnant p = false ->
    tw_start tw = Delayed rem -> (rem <> 0)%Z -> (tw_dur tw <> 0)%Z -> secs_to_ns_Q dt = Ok d ->
    upd powf p dt i =
      Ok ({| p_state := Tweening v0 (Fixed tg) 0
                          {| tw_start := Delayed (sat_sub rem d); tw_dur := tw_dur tw; tw_easing := tw_easing tw |};
             p_raw := the_law powf v0 tg (tw_easing tw) (ns_to_secs_Q (tw_dur tw)) 0;
             p_prev := p_raw p; p_stagnant := false |}, false).
  Proof.
    intros Hs Hg Hst Hrem Hdur Hd. unfold upd, param_update. rewrite Hg, Hs. cbn [update_tween]. rewrite Hst.
    destruct (Z.eqb_spec rem 0) as [E|E]; [contradiction|].
    cbn [secs_to_ns NumDur_Q]. rewrite Hd. cbn [obind negb new_raw raw_of tw_dur].
    destruct (Z.eqb_spec (tw_dur tw) 0) as [E2|E2]; [contradiction|]. cbn [option_map]. reflexivity.
  Qed.

  (** ** modulator-linked values follow the mapping in the same update and hold when the modulator is gone *)
  Lemma idle_modulator_follows (p : paramQ) id m dt i x :
    p_state p = Idle (FromMod id m) -> p_stagnant p = false -> nth_error (i_mods i) id = Some (Some x) ->
    exists p', upd powf p dt i = Ok (p', false) /\ p_raw p' = vmap powf Q lerpQ m x /\ p_state p' = Idle (FromMod id m).
  Proof.
    intros Hs Hg Hm. unfold upd, param_update. rewrite Hg, Hs. cbn [update_tween obind new_raw raw_of]. rewrite Hm.
    eexists. split; [reflexivity|]. split; reflexivity.
  Qed.
  Lemma idle_modulator_holds (p : paramQ) id m dt i :
    p_state p = Idle (FromMod id m) -> p_stagnant p = false ->
    (nth_error (i_mods i) id = None \/ nth_error (i_mods i) id = Some None) ->
    exists p', upd powf p dt i = Ok (p', false) /\ p_raw p' = p_raw p /\ p_state p' = Idle (FromMod id m).
  Proof.
    intros Hs Hg Hm. unfold upd, param_update. rewrite Hg, Hs. cbn [update_tween obind new_raw raw_of].
    destruct Hm as [Hm|Hm]; rewrite Hm; eexists; (split; [reflexivity|]); split; reflexivity.
  Qed.
End Cons.

(** non-vacuity: a half-finished linear tween from 0 to 10 over 1 s, in two unequal updates *)
Example law_example :
  let tw := {| tw_start := Immediate; tw_dur := 1000000000%Z; tw_easing := Linear |} in
  let p := param_new (Fixed 0) 0 in
  exists p', run (fun _ _ => 0) (param_set p (Fixed 10) tw) (updates [(1#8, no_info); (3#8, no_info)]) = Ok p' /\ p_raw p' == 5.
Proof. eexists. split; [vm_compute; reflexivity|]. reflexivity. Qed.
