(** C06 — the concrete owners (executable model, no proofs): a sound with its three parameters in
    the shell of C03 ([StaticSound::process] / [StreamingSound::process]: parameter updates,
    state manager, start time, the two early returns, the per-frame loop), and a sub-track with
    its volume, its send-route volumes (early) and its spatial position / spatialization
    strength (late).

    Transcribed from sound/static_sound/sound.rs:155-248, sound/streaming/sound.rs:175-275,
    track/sub.rs:136-276.  The playback state manager and the start time are the C03 model.

    The audio source is abstract: [source pops fpos] is what the resampler / the ring buffer
    yields after [pops] calls of [update_position] (static) / pops of the ring (streaming) at
    fractional position [fpos]; for the correspondence check it is a long constant-amplitude
    sound (the window is [0, s, s, s] before the first pop and [s, s, s, s] afterwards), far from
    its end, so no natural end is modelled here (C03 / C04 do that). *)
From Coq Require Import ZArith List Bool.
From KV Require Import Base.Outcome Base.Num C19.Model C06.Model C06.ModelOwners C03.Model.
Import ListNotations.
Local Open Scope Z_scope.

Section Sound.
  Context {T : Type} {NT : Num T} {ND : NumDur T}.
  Variable powf : T -> T -> T.
  Variable V : Type.                               (* the f32-valued quantities: Decibels, Panning *)
  Variable interp : V -> V -> T -> V.
  Variables silence identity : V.
  Variable A : Type.                               (* Frame *)
  Variable azero : A.
  Variable G : Type.                               (* amplitude (f32) *)
  Variable amp : V -> G.                           (* Decibels::as_amplitude *)
  Variable source : Z -> T -> A.                   (* resampler / ring output *)
  Variable mix : A -> G -> G -> V -> A.            (* (out * fade_volume * volume).panned(panning) *)
  Variable rate_abs : T -> T.                      (* [.abs()] (static) / [.max(0.0)] (streaming) *)
  Variable position_of : Z -> T -> T.              (* what [on_start_processing] publishes *)
  Variable sr : Z.                                 (* sample rate of the sound *)
  Variable fuel : nat.

  Record dsound := {
    d_vol : param T V; d_rate : param T T; d_pan : param T V;
    d_psm : psm T V; d_start : stime T;
    d_pops : Z; d_fpos : T;
    d_mirror : Z;                                   (* Shared.state *)
    d_shpos : T;                                    (* Shared.position *)
  }.

  Definition dsound_new (vol : V) (rate : T) (pan : V) (st : stime T) (fade_in : option (tween T)) : dsound :=
    {| d_vol := param_new (Fixed vol) identity; d_rate := param_new (Fixed rate) n1;
       d_pan := param_new (Fixed pan) identity (* default unused: the initial value is Fixed *);
       d_psm := psm_new V silence identity fade_in; d_start := st;
       d_pops := 0; d_fpos := n0; d_mirror := 0; d_shpos := position_of 0 n0 |}.

  Definition with_dpsm (s : dsound) (m : psm T V) : dsound :=
    {| d_vol := d_vol s; d_rate := d_rate s; d_pan := d_pan s; d_psm := m; d_start := d_start s;
       d_pops := d_pops s; d_fpos := d_fpos s; d_mirror := state_code (ps m); d_shpos := d_shpos s |}.

  (** handle commands as [read_commands] takes them *)
  Inductive sop :=
  | SVol (target : value T V) (tw : tween T)
  | SRate (target : value T T) (tw : tween T)
  | SPan (target : value T V) (tw : tween T)
  | SPause (tw : tween T)
  | SResume (st : stime T) (tw : tween T)
  | SStop (tw : tween T)
  | SPublish                                        (* the first statement of [on_start_processing] *)
  | SProcess (len : nat) (dt : T) (i : info T).

  (** [while self.fractional_position >= 1.0 { self.fractional_position -= 1.0; update_position / pop }] *)
  Fixpoint carry (fl : nat) (pops : Z) (fpos : T) : outcome (Z * T) :=
    match fl with
    | O => Hang
    | S f => if nleb n1 fpos then carry f (pops + 1) (nsub fpos n1) else Ok (pops, fpos)
    end.

  (** the per-frame loop of [process]: frame [k] of [len] *)
  Fixpoint dframes (vol : param T V) (rate : param T T) (pan : param T V) (fd : param T V)
    (dt : T) (len : nat) (k : nat) (todo : nat) (pops : Z) (fpos : T) : outcome (Z * T * list A) :=
    match todo with
    | O => Ok (pops, fpos, [])
    | S todo' =>
        let time_in_chunk := ndiv (nofZ (Z.of_nat k + 1)) (nofZ (Z.of_nat len)) in
        let volume := amp (param_interpolated V interp vol time_in_chunk) in
        let fade_volume := amp (param_interpolated V interp fd time_in_chunk) in
        let panning := param_interpolated V interp pan time_in_chunk in
        let playback_rate := param_interpolated T lerp rate time_in_chunk in
        let resampler_out := source pops fpos in
        let! (pops', fpos') := carry fuel pops (nadd fpos (nmul (nmul (nofZ sr) (rate_abs playback_rate)) dt)) in
        let! (pops'', fpos'', outs) := dframes vol rate pan fd dt len (Datatypes.S k) todo' pops' fpos' in
        Ok (pops'', fpos'', mix resampler_out fade_volume volume panning :: outs)
    end.

  (** [Sound::process] on a slice of [len] frames; the flag says whether it returned early *)
  Definition dsound_process (s : dsound) (len : nat) (dt : T) (i : info T) : outcome (dsound * bool * list A) :=
    let dtl := chunk_time len dt in
    let! (vol, _) := param_update powf V interp (d_vol s) dtl i in
    let! (rate, _) := param_update powf T lerp (d_rate s) dtl i in
    let! (pan, _) := param_update powf V interp (d_pan s) dtl i in
    let! (m, changed) := psm_update powf V interp identity (d_psm s) dtl i in
    let mir := if changed then state_code (ps m) else d_mirror s in
    let! (st, never) := stime_update (d_start s) dtl i in
    let m := if never then psm_mark_stopped V m else m in
    let mir := if never then state_code (ps m) else mir in
    if negb (is_immediate st) || negb (is_advancing (ps m)) then
      Ok ({| d_vol := vol; d_rate := rate; d_pan := pan; d_psm := m; d_start := st;
             d_pops := d_pops s; d_fpos := d_fpos s; d_mirror := mir; d_shpos := d_shpos s |},
          true, repeat azero len)
    else
      let! (pops, fpos, outs) := dframes vol rate pan (fade m) dt len O len (d_pops s) (d_fpos s) in
      Ok ({| d_vol := vol; d_rate := rate; d_pan := pan; d_psm := m; d_start := st;
             d_pops := pops; d_fpos := fpos; d_mirror := mir; d_shpos := d_shpos s |}, false, outs).

  Definition dsound_step (s : dsound) (op : sop) : outcome (dsound * list (bool * list A)) :=
    match op with
    | SVol tg tw =>
        Ok ({| d_vol := param_set (d_vol s) tg tw; d_rate := d_rate s; d_pan := d_pan s; d_psm := d_psm s;
               d_start := d_start s; d_pops := d_pops s; d_fpos := d_fpos s; d_mirror := d_mirror s;
               d_shpos := d_shpos s |}, [])
    | SRate tg tw =>
        Ok ({| d_vol := d_vol s; d_rate := param_set (d_rate s) tg tw; d_pan := d_pan s; d_psm := d_psm s;
               d_start := d_start s; d_pops := d_pops s; d_fpos := d_fpos s; d_mirror := d_mirror s;
               d_shpos := d_shpos s |}, [])
    | SPan tg tw =>
        Ok ({| d_vol := d_vol s; d_rate := d_rate s; d_pan := param_set (d_pan s) tg tw; d_psm := d_psm s;
               d_start := d_start s; d_pops := d_pops s; d_fpos := d_fpos s; d_mirror := d_mirror s;
               d_shpos := d_shpos s |}, [])
    | SPause tw => Ok (with_dpsm s (psm_pause V silence (d_psm s) tw), [])
    | SResume st tw => Ok (with_dpsm s (psm_resume V identity (d_psm s) st tw), [])
    | SStop tw => Ok (with_dpsm s (psm_stop V silence (d_psm s) tw), [])
    | SPublish =>
        Ok ({| d_vol := d_vol s; d_rate := d_rate s; d_pan := d_pan s; d_psm := d_psm s;
               d_start := d_start s; d_pops := d_pops s; d_fpos := d_fpos s; d_mirror := d_mirror s;
               d_shpos := position_of (d_pops s) (d_fpos s) |}, [])
    | SProcess len dt i => let! (s', silent, out) := dsound_process s len dt i in Ok (s', [(silent, out)])
    end.
  Fixpoint dsound_run (s : dsound) (h : list sop) : outcome (dsound * list (bool * list A)) :=
    match h with
    | [] => Ok (s, [])
    | op :: h' =>
        let! (s1, l1) := dsound_step s op in
        let! (s2, l2) := dsound_run s1 h' in
        Ok (s2, l1 ++ l2)
    end.

  (** what each parameter sees of a history *)
  Definition vol_view (op : sop) : list (pop T V) :=
    match op with SVol tg tw => [OSet tg tw] | SProcess len dt i => [OUpdate (chunk_time len dt) i] | _ => [] end.
  Definition rate_view (op : sop) : list (pop T T) :=
    match op with SRate tg tw => [OSet tg tw] | SProcess len dt i => [OUpdate (chunk_time len dt) i] | _ => [] end.
  Definition pan_view (op : sop) : list (pop T V) :=
    match op with SPan tg tw => [OSet tg tw] | SProcess len dt i => [OUpdate (chunk_time len dt) i] | _ => [] end.
  Definition scalls (h : list sop) : list (T * info T) :=
    flat_map (fun op => match op with SProcess len dt i => [(chunk_time len dt, i)] | _ => [] end) h.
  Definition is_svol (op : sop) : bool := match op with SVol _ _ => true | _ => false end.
  Definition is_srate (op : sop) : bool := match op with SRate _ _ => true | _ => false end.
  Definition is_span (op : sop) : bool := match op with SPan _ _ => true | _ => false end.
End Sound.

Arguments dsound : clear implicits.
Arguments sop : clear implicits.
Arguments d_vol {T V}. Arguments d_rate {T V}. Arguments d_pan {T V}. Arguments d_psm {T V}.
Arguments d_start {T V}. Arguments d_pops {T V}. Arguments d_fpos {T V}. Arguments d_mirror {T V}.
Arguments d_shpos {T V}. Arguments Build_dsound {T V}.
Arguments SVol {T V}. Arguments SRate {T V}. Arguments SPan {T V}. Arguments SPause {T V}.
Arguments SResume {T V}. Arguments SStop {T V}. Arguments SPublish {T V}. Arguments SProcess {T V}.
Arguments vol_view {T NT V}. Arguments rate_view {T NT V}. Arguments pan_view {T NT V}.
Arguments scalls {T NT V}. Arguments is_svol {T V}. Arguments is_srate {T V}. Arguments is_span {T V}.

(** ** the sub-track: [Track::process] with everything beneath the fader abstract *)
Section Track.
  Context {T : Type} {NT : Num T} {ND : NumDur T}.
  Variable powf : T -> T -> T.
  Variable V : Type.                               (* Decibels *)
  Variable interp : V -> V -> T -> V.
  Variables silence identity : V.
  Variable VP : Type.                              (* Vec3 *)
  Variable interpP : VP -> VP -> T -> VP.
  Variable VS : Type.                              (* f32: spatialization strength *)
  Variable interpS : VS -> VS -> T -> VS.
  Variable A : Type.
  Variable azero : A.
  Variable G : Type.
  Variable amp : V -> G.
  Variable gmul : G -> G -> G.
  Variable ascale : A -> G -> A.
  (** sub-tracks, sounds, effects: what they leave in [out]; they are shown the spatial position the
      track had when [process] was entered ([SpatialTrackInfo], sub.rs:147-154) *)
  Variable body : option VP -> nat -> T -> info T -> list A.
  (** [SpatialData::spatialize] for frame [k] of [len] *)
  Variable spatialize : param T VP -> param T VS -> nat -> nat -> A -> A.

  Record dtrack := {
    k_vol : param T V;
    k_routes : list (param T V);                   (* [sends]: one volume per send route *)
    k_psm : psm T V;
    k_spatial : option (param T VP * param T VS);  (* [spatial_data]: position, spatialization_strength *)
    k_mirror : Z;
  }.

  Fixpoint update_routes (l : list (param T V)) (dtl : T) (i : info T) : outcome (list (param T V)) :=
    match l with
    | [] => Ok []
    | p :: r =>
        let! (p', _) := param_update powf V interp p dtl i in
        let! r' := update_routes r dtl i in
        Ok (p' :: r')
    end.

  Fixpoint track_gain (vol fd : param T V) (sp : option (param T VP * param T VS)) (n k : nat) (out : list A) : list A :=
    match out with
    | [] => []
    | a :: r =>
        let amount := ndiv (nofZ (Z.of_nat k + 1)) (nofZ (Z.of_nat n)) in
        let a := match sp with Some (pos, str) => spatialize pos str n k a | None => a end in
        ascale a (gmul (amp (param_interpolated V interp vol amount)) (amp (param_interpolated V interp fd amount)))
          :: track_gain vol fd sp n (S k) r
    end.

  (** [Track::process]; result: the track, took the early return?, its output, and the
      amplitude each send route applies to that output ([volume.value()], sub.rs:247-252) *)
  Definition dtrack_process (t : dtrack) (len : nat) (dt : T) (i : info T)
    : outcome (dtrack * bool * list A * list G) :=
    let dtl := chunk_time len dt in
    let seen_position := option_map (fun sp => p_raw (fst sp)) (k_spatial t) in
    let! (vol, _) := param_update powf V interp (k_vol t) dtl i in
    let! routes := update_routes (k_routes t) dtl i in
    let! (m0, changed) := psm_update powf V interp identity (k_psm t) dtl i in
    let m := if changed && is_stopped (ps m0) then {| ps := Paused; fade := fade m0 |} else m0 in
    let mir := if changed then state_code (ps m) else k_mirror t in
    if negb (is_advancing (ps m)) then
      Ok ({| k_vol := vol; k_routes := routes; k_psm := m; k_spatial := k_spatial t; k_mirror := mir |},
          true, repeat azero len, [])
    else
      let raw := body seen_position len dt i in
      let! sp := match k_spatial t with
                 | None => Ok None
                 | Some (pos, str) =>
                     let! (pos', _) := param_update powf VP interpP pos dtl i in
                     let! (str', _) := param_update powf VS interpS str dtl i in
                     Ok (Some (pos', str'))
                 end in
      let out := track_gain vol (fade m) sp len O raw in
      Ok ({| k_vol := vol; k_routes := routes; k_psm := m; k_spatial := sp; k_mirror := mir |},
          false, out, map (fun r => amp (p_raw r)) routes).

  Inductive kop :=
  | KVol (target : value T V) (tw : tween T)
  | KRoute (n : nat) (target : value T V) (tw : tween T)
  | KPos (target : value T VP) (tw : tween T)
  | KStrength (target : value T VS) (tw : tween T)
  | KPause (tw : tween T)
  | KResume (st : stime T) (tw : tween T)
  | KProcess (len : nat) (dt : T) (i : info T).

  Fixpoint set_nth_param (l : list (param T V)) (n : nat) (tg : value T V) (tw : tween T) : list (param T V) :=
    match l, n with
    | [], _ => []
    | p :: r, O => param_set p tg tw :: r
    | p :: r, S n' => p :: set_nth_param r n' tg tw
    end.

  Definition dtrack_step (t : dtrack) (op : kop) : outcome (dtrack * list (bool * list A * list G)) :=
    match op with
    | KVol tg tw =>
        Ok ({| k_vol := param_set (k_vol t) tg tw; k_routes := k_routes t; k_psm := k_psm t;
               k_spatial := k_spatial t; k_mirror := k_mirror t |}, [])
    | KRoute n tg tw =>
        Ok ({| k_vol := k_vol t; k_routes := set_nth_param (k_routes t) n tg tw; k_psm := k_psm t;
               k_spatial := k_spatial t; k_mirror := k_mirror t |}, [])
    | KPos tg tw =>
        Ok ({| k_vol := k_vol t; k_routes := k_routes t; k_psm := k_psm t;
               k_spatial := option_map (fun sp => (param_set (fst sp) tg tw, snd sp)) (k_spatial t);
               k_mirror := k_mirror t |}, [])
    | KStrength tg tw =>
        Ok ({| k_vol := k_vol t; k_routes := k_routes t; k_psm := k_psm t;
               k_spatial := option_map (fun sp => (fst sp, param_set (snd sp) tg tw)) (k_spatial t);
               k_mirror := k_mirror t |}, [])
    | KPause tw =>
        let m := psm_pause V silence (k_psm t) tw in
        Ok ({| k_vol := k_vol t; k_routes := k_routes t; k_psm := m; k_spatial := k_spatial t;
               k_mirror := state_code (ps m) |}, [])
    | KResume st tw =>
        let m := psm_resume V identity (k_psm t) st tw in
        Ok ({| k_vol := k_vol t; k_routes := k_routes t; k_psm := m; k_spatial := k_spatial t;
               k_mirror := state_code (ps m) |}, [])
    | KProcess len dt i =>
        let! (t', silent, out, sends) := dtrack_process t len dt i in Ok (t', [(silent, out, sends)])
    end.
  Fixpoint dtrack_run (t : dtrack) (h : list kop) : outcome (dtrack * list (bool * list A * list G)) :=
    match h with
    | [] => Ok (t, [])
    | op :: h' =>
        let! (t1, l1) := dtrack_step t op in
        let! (t2, l2) := dtrack_run t1 h' in
        Ok (t2, l1 ++ l2)
    end.

  Definition kvol_view (op : kop) : list (pop T V) :=
    match op with KVol tg tw => [OSet tg tw] | KProcess len dt i => [OUpdate (chunk_time len dt) i] | _ => [] end.
  Definition kroute_view (n : nat) (op : kop) : list (pop T V) :=
    match op with
    | KRoute n' tg tw => if Nat.eqb n n' then [OSet tg tw] else []
    | KProcess len dt i => [OUpdate (chunk_time len dt) i]
    | _ => []
    end.
  (** the late parameters see only the calls that rendered *)
  Fixpoint kpos_view (h : list kop) (flags : list bool) : list (pop T VP) :=
    match h with
    | [] => []
    | KPos tg tw :: h' => OSet tg tw :: kpos_view h' flags
    | KProcess len dt i :: h' =>
        match flags with
        | silent :: flags' => if silent then kpos_view h' flags' else OUpdate (chunk_time len dt) i :: kpos_view h' flags'
        | [] => []
        end
    | _ :: h' => kpos_view h' flags
    end.
  Definition kcalls (h : list kop) : list (T * info T) :=
    flat_map (fun op => match op with KProcess len dt i => [(chunk_time len dt, i)] | _ => [] end) h.
  Definition is_kvol (op : kop) : bool := match op with KVol _ _ => true | _ => false end.
  Definition is_kpos (op : kop) : bool := match op with KPos _ _ => true | _ => false end.
End Track.

Arguments dtrack : clear implicits.
Arguments kop : clear implicits.
Arguments k_vol {T V VP VS}. Arguments k_routes {T V VP VS}. Arguments k_psm {T V VP VS}.
Arguments k_spatial {T V VP VS}. Arguments k_mirror {T V VP VS}. Arguments Build_dtrack {T V VP VS}.
Arguments KVol {T V VP VS}. Arguments KRoute {T V VP VS}. Arguments KPos {T V VP VS}.
Arguments KStrength {T V VP VS}. Arguments KPause {T V VP VS}. Arguments KResume {T V VP VS}.
Arguments KProcess {T V VP VS}.
Arguments kvol_view {T NT V VP VS}. Arguments kroute_view {T NT V VP VS}. Arguments kpos_view {T NT V VP VS}.
Arguments kcalls {T NT V VP VS}. Arguments is_kvol {T V VP VS}. Arguments is_kpos {T V VP VS}.
