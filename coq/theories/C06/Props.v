(** C06 — property theorems (statements closed by [exact]). *)
From Coq Require Import ZArith QArith List.
From KV Require Import Base.Outcome Base.Num C19.Model C19.ProofsEasing C06.Model C06.Dur C06.Proofs C06.Proofs2.
From KV Require Import C06.ProofsFollow C06.ModelOwners C06.ProofsOwners C03.Model C06.OwnersSound C06.ProofsOwnersSound C06.ProofsOwnersC12.
From KV Require Base.IEEE C17.Model C12.Model C06.ProofsOwnersMod C06.RunOwners.
From KV Require Import C05.ProofsSpeed C06.ProofsTypes C06.ProofsResume.
Import ListNotations.
Local Open Scope Q_scope.

(** The tween law, for every partition of time into updates, every easing, every libm:
    once complete the value is identically the target (and stays so — [run] covers the whole
    list); before that it is start + (target - start) * ease(elapsed / duration). *)
Theorem tween_law :
  forall (powf : Q -> Q -> Q) (p : param Q Q) (tg : Q) (tw : tween Q) (l : list (Q * info Q)),
    not_delayed (tw_start tw) -> (tw_dur tw <> 0)%Z -> l <> [] ->
    let D := ns_to_secs_Q (tw_dur tw) in
    exists p', run powf (param_set p (Fixed tg) tw) (updates l) = Ok p' /\
      if completes (tw_start tw) D 0 l
      then p_state p' = Idle (Fixed tg) /\ p_raw p' = tg
      else p_raw p' = the_law powf (p_raw p) tg (tw_easing tw) D (elapsed (tw_start tw) 0 l).
Proof. exact tween_law_from_set. Qed.

Theorem tween_law_arith :
  forall (powf : Q -> Q -> Q) (v0 tg : Q) (e : easing Q) (D t : Q),
    the_law powf v0 tg e D t == v0 + (tg - v0) * ease powf e (ndiv t D) /\ ndiv t D == t / D.
Proof. exact the_law_eq. Qed.

Theorem tween_elapsed_is_sum :
  forall (st : stime Q) (acc : Q) (l : list (Q * info Q)), elapsed st acc l == acc + plain_sum st l.
Proof. exact elapsed_sum. Qed.

Theorem tween_completes_when_due :
  forall (st : stime Q) (D acc : Q) (l : list (Q * info Q)),
    nonneg_updates l -> acc < D -> (completes st D acc l = true <-> D <= elapsed st acc l).
Proof. exact completes_spec. Qed.

Theorem tween_partition_independent :
  forall (powf : Q -> Q -> Q) (p : param Q Q) (tg : Q) (tw : tween Q) (l1 l2 : list (Q * info Q)),
    not_delayed (tw_start tw) -> (tw_dur tw <> 0)%Z -> l1 <> [] -> l2 <> [] ->
    let D := ns_to_secs_Q (tw_dur tw) in
    completes (tw_start tw) D 0 l1 = false -> completes (tw_start tw) D 0 l2 = false ->
    plain_sum (tw_start tw) l1 == plain_sum (tw_start tw) l2 ->
    exists p1 p2, run powf (param_set p (Fixed tg) tw) (updates l1) = Ok p1 /\
                  run powf (param_set p (Fixed tg) tw) (updates l2) = Ok p2 /\ p_raw p1 = p_raw p2.
Proof. exact partition_independent. Qed.

Theorem tween_in_range :
  forall (powf : Q -> Q -> Q) (v0 tg : Q) (e : easing Q) (D t : Q),
    shape (ease powf e) -> 0 < D -> 0 <= t -> t <= D ->
    (v0 <= tg -> v0 <= the_law powf v0 tg e D t <= tg) /\
    (tg <= v0 -> tg <= the_law powf v0 tg e D t <= v0).
Proof. exact law_in_range. Qed.

Theorem tween_pending_keeps_value :
  forall (powf : Q -> Q -> Q) (v0 tg : Q) (e : easing Q) (D : Q),
    shape (ease powf e) -> ~ D == 0 -> the_law powf v0 tg e D 0 == v0.
Proof. exact law_at_zero. Qed.

Theorem tween_zero_duration :
  forall (powf : Q -> Q -> Q) (p : param Q Q) (v0 tg t : Q) (tw : tween Q) (dt : Q) (i : info Q),
    mid p v0 tg t tw -> not_delayed (tw_start tw) -> tw_dur tw = 0%Z -> counts (tw_start tw) i = true ->
    0 <= t -> 0 <= dt ->
    upd powf p dt i = Ok ({| p_state := Idle (Fixed tg); p_raw := tg; p_prev := p_raw p; p_stagnant := true |}, true).
Proof. exact zero_duration_update. Qed.

Theorem tween_delayed_countdown :
  forall (powf : Q -> Q -> Q) (p : param Q Q) (v0 tg : Q) (tw : tween Q) (rem : Z) (dt : Q) (i : info Q) (d : Z),
    p_state p = Tweening v0 (Fixed tg) 0 tw -> p_stagnant p = false ->
    tw_start tw = Delayed rem -> (rem <> 0)%Z -> (tw_dur tw <> 0)%Z -> secs_to_ns_Q dt = Ok d ->
    upd powf p dt i =
      Ok ({| p_state := Tweening v0 (Fixed tg) 0
                          {| tw_start := Delayed (sat_sub rem d); tw_dur := tw_dur tw; tw_easing := tw_easing tw |};
             p_raw := the_law powf v0 tg (tw_easing tw) (ns_to_secs_Q (tw_dur tw)) 0;
             p_prev := p_raw p; p_stagnant := false |}, false).
Proof. exact delayed_countdown. Qed.

Theorem tween_continuity :
  forall (powf : Q -> Q -> Q) (p p' : param Q Q) (dt : Q) (i : info Q) (f : bool),
    upd powf p dt i = Ok (p', f) -> p_prev p' = p_raw p.
Proof. exact prev_is_last_value. Qed.

Theorem tween_interpolated_endpoints :
  forall p : param Q Q,
    param_interpolated Q (@lerp Q Num_Q) p 0 == p_prev p /\ param_interpolated Q (@lerp Q Num_Q) p 1 == p_raw p.
Proof. exact interpolated_endpoints. Qed.

Theorem tween_retarget_from_current :
  forall (p : param Q Q) (tg : value Q Q) (tw : tween Q),
    p_raw (param_set p tg tw) = p_raw p /\ p_prev (param_set p tg tw) = p_prev p /\
    p_state (param_set p tg tw) = Tweening (p_raw p) tg 0 tw.
Proof. exact set_from_current. Qed.

Theorem param_modulator_follows :
  forall (powf : Q -> Q -> Q) (p : param Q Q) (id : nat) (m : vmapping Q Q) (dt : Q) (i : info Q) (x : Q),
    p_state p = Idle (FromMod id m) -> p_stagnant p = false -> nth_error (i_mods i) id = Some (Some x) ->
    exists p', upd powf p dt i = Ok (p', false) /\ p_raw p' = vmap powf Q (@lerp Q Num_Q) m x /\ p_state p' = Idle (FromMod id m).
Proof. exact idle_modulator_follows. Qed.

Theorem param_modulator_holds :
  forall (powf : Q -> Q -> Q) (p : param Q Q) (id : nat) (m : vmapping Q Q) (dt : Q) (i : info Q),
    p_state p = Idle (FromMod id m) -> p_stagnant p = false ->
    (nth_error (i_mods i) id = None \/ nth_error (i_mods i) id = Some None) ->
    exists p', upd powf p dt i = Ok (p', false) /\ p_raw p' = p_raw p /\ p_state p' = Idle (FromMod id m).
Proof. exact idle_modulator_holds. Qed.

(** * Parameters embedded in their owners (C06/ModelOwners.v: who ticks which parameter, where) *)

(** An owner that ticks its parameter BEFORE any state-dependent return hands every history on to
    it unchanged: whatever the other statements of [process] do, whatever the state changes,
    whatever the chunk lengths, the parameter sees its own commands and one update of [dt * len]
    per [process] call.  Any number type: bit for bit for IEEE. *)
Theorem owner_early_follows_history :
  forall (T : Type) (NT : Num T) (ND : NumDur T) (powf : T -> T -> T)
    (VE : Type) (interpE : VE -> VE -> T -> VE) (VL : Type) (interpL : VL -> VL -> T -> VL) (S Out : Type)
    (before : S -> nat -> T -> info T -> outcome S)
    (pre : S -> param T VE -> nat -> T -> info T -> outcome (S * bool)) (silent_out : nat -> Out)
    (mid : S -> param T VE -> param T VL -> nat -> T -> info T -> outcome S)
    (render : S -> param T VE -> param T VL -> nat -> T -> info T -> outcome (S * Out))
    (h : list (oop T VE VL S)) (o o' : owner T VE VL S) (l : list (bool * Out)),
    owner_run powf VE interpE VL interpL S Out before pre silent_out mid render o h = Ok (o', l) ->
    param_run powf VE interpE (o_early o) (early_view h) = Ok (o_early o').
Proof. exact @early_projection_proof. Qed.

(** A parameter ticked BELOW the early return misses every call that took it. *)
Theorem owner_late_sees_only_rendering_calls :
  forall (T : Type) (NT : Num T) (ND : NumDur T) (powf : T -> T -> T)
    (VE : Type) (interpE : VE -> VE -> T -> VE) (VL : Type) (interpL : VL -> VL -> T -> VL) (S Out : Type)
    (before : S -> nat -> T -> info T -> outcome S)
    (pre : S -> param T VE -> nat -> T -> info T -> outcome (S * bool)) (silent_out : nat -> Out)
    (mid : S -> param T VE -> param T VL -> nat -> T -> info T -> outcome S)
    (render : S -> param T VE -> param T VL -> nat -> T -> info T -> outcome (S * Out))
    (h : list (oop T VE VL S)) (o o' : owner T VE VL S) (l : list (bool * Out)),
    owner_run powf VE interpE VL interpL S Out before pre silent_out mid render o h = Ok (o', l) ->
    param_run powf VL interpL (o_late o) (late_view h (map fst l)) = Ok (o_late o').
Proof. exact @late_projection_proof. Qed.

(** The tween law of an owner's parameter: after [set target tween], for all histories of
    [process] calls with arbitrary chunk lengths, arbitrary interleaved state changes and
    commands to other parameters, the value is the law of the time PROCESSED since the command
    (calls that took the early return included), and identically the target once complete. *)
Theorem owner_tween_law :
  forall (powf : Q -> Q -> Q) (VL : Type) (interpL : VL -> VL -> Q -> VL) (S Out : Type)
    (before : S -> nat -> Q -> info Q -> outcome S)
    (pre : S -> param Q Q -> nat -> Q -> info Q -> outcome (S * bool)) (silent_out : nat -> Out)
    (mid : S -> param Q Q -> param Q VL -> nat -> Q -> info Q -> outcome S)
    (render : S -> param Q Q -> param Q VL -> nat -> Q -> info Q -> outcome (S * Out))
    (o o' : owner Q Q VL S) (tg : Q) (tw : tween Q) (h : list (oop Q Q VL S)) (l : list (bool * Out)),
    no_early_set VL S h -> not_delayed (tw_start tw) -> (tw_dur tw <> 0)%Z -> calls h <> [] ->
    owner_run powf Q (@lerp Q Num_Q) VL interpL S Out before pre silent_out mid render o
      (OSetEarly (Fixed tg) tw :: h) = Ok (o', l) ->
    let D := ns_to_secs_Q (tw_dur tw) in
    if completes (tw_start tw) D 0 (calls h)
    then p_state (o_early o') = Idle (Fixed tg) /\ p_raw (o_early o') = tg
    else p_raw (o_early o') =
         the_law powf (p_raw (o_early o)) tg (tw_easing tw) D (elapsed (tw_start tw) 0 (calls h)).
Proof. exact owner_tween_law_proof. Qed.

(** Independence of the owner's playback state and of the partition into chunks. *)
Theorem owner_history_independent :
  forall (powf : Q -> Q -> Q) (VL : Type) (interpL : VL -> VL -> Q -> VL) (S Out : Type)
    (before : S -> nat -> Q -> info Q -> outcome S)
    (pre : S -> param Q Q -> nat -> Q -> info Q -> outcome (S * bool)) (silent_out : nat -> Out)
    (mid : S -> param Q Q -> param Q VL -> nat -> Q -> info Q -> outcome S)
    (render : S -> param Q Q -> param Q VL -> nat -> Q -> info Q -> outcome (S * Out))
    (o1 o2 o1' o2' : owner Q Q VL S) (tg : Q) (tw : tween Q) (h1 h2 : list (oop Q Q VL S))
    (l1 l2 : list (bool * Out)),
    o_early o1 = o_early o2 ->
    no_early_set VL S h1 -> no_early_set VL S h2 ->
    not_delayed (tw_start tw) -> (tw_dur tw <> 0)%Z -> calls h1 <> [] -> calls h2 <> [] ->
    let D := ns_to_secs_Q (tw_dur tw) in
    completes (tw_start tw) D 0 (calls h1) = false -> completes (tw_start tw) D 0 (calls h2) = false ->
    plain_sum (tw_start tw) (calls h1) == plain_sum (tw_start tw) (calls h2) ->
    owner_run powf Q (@lerp Q Num_Q) VL interpL S Out before pre silent_out mid render o1
      (OSetEarly (Fixed tg) tw :: h1) = Ok (o1', l1) ->
    owner_run powf Q (@lerp Q Num_Q) VL interpL S Out before pre silent_out mid render o2
      (OSetEarly (Fixed tg) tw :: h2) = Ok (o2', l2) ->
    p_raw (o_early o1') = p_raw (o_early o2').
Proof. exact owner_history_independent_proof. Qed.

(** For an immediate start the processed time is [dt] times the number of frames processed. *)
Theorem owner_processed_time_is_frames :
  forall (VL S : Type) (dt : Q) (h : list (oop Q Q VL S)),
    uniform_dt VL S dt h -> plain_sum Immediate (calls h) == dt * inject_Z (Z.of_nat (frames_of h)).
Proof. exact processed_time_is_frames. Qed.

(** A delayed tween start is counted down by every [process] call, in every state. *)
Theorem owner_delayed_countdown :
  forall (powf : Q -> Q -> Q) (VL : Type) (interpL : VL -> VL -> Q -> VL) (S Out : Type)
    (before : S -> nat -> Q -> info Q -> outcome S)
    (pre : S -> param Q Q -> nat -> Q -> info Q -> outcome (S * bool)) (silent_out : nat -> Out)
    (mid : S -> param Q Q -> param Q VL -> nat -> Q -> info Q -> outcome S)
    (render : S -> param Q Q -> param Q VL -> nat -> Q -> info Q -> outcome (S * Out))
    (o o' : owner Q Q VL S) (v0 tg : Q) (tw : tween Q) (rem : Z) (len : nat) (dt : Q) (i : info Q) (d : Z)
    (l : list (bool * Out)),
    p_state (o_early o) = Tweening v0 (Fixed tg) 0 tw -> p_stagnant (o_early o) = false ->
    tw_start tw = Delayed rem -> (rem <> 0)%Z -> (tw_dur tw <> 0)%Z ->
    secs_to_ns_Q (chunk_time len dt) = Ok d ->
    owner_run powf Q (@lerp Q Num_Q) VL interpL S Out before pre silent_out mid render o [OProcess len dt i] = Ok (o', l) ->
    p_state (o_early o') =
      Tweening v0 (Fixed tg) 0 {| tw_start := Delayed (sat_sub rem d); tw_dur := tw_dur tw; tw_easing := tw_easing tw |}
    /\ p_raw (o_early o') = the_law powf v0 tg (tw_easing tw) (ns_to_secs_Q (tw_dur tw)) 0.
Proof. exact owner_delayed_countdown_proof. Qed.

(** The late slot obeys the law only outside the class "some call took the early return" ... *)
Theorem owner_late_tween_law :
  forall (powf : Q -> Q -> Q) (VE : Type) (interpE : VE -> VE -> Q -> VE) (S Out : Type)
    (before : S -> nat -> Q -> info Q -> outcome S)
    (pre : S -> param Q VE -> nat -> Q -> info Q -> outcome (S * bool)) (silent_out : nat -> Out)
    (mid : S -> param Q VE -> param Q Q -> nat -> Q -> info Q -> outcome S)
    (render : S -> param Q VE -> param Q Q -> nat -> Q -> info Q -> outcome (S * Out))
    (o o' : owner Q VE Q S) (tg : Q) (tw : tween Q) (h : list (oop Q VE Q S)) (l : list (bool * Out)),
    no_late_set VE S h -> not_delayed (tw_start tw) -> (tw_dur tw <> 0)%Z -> calls h <> [] ->
    owner_run powf VE interpE Q (@lerp Q Num_Q) S Out before pre silent_out mid render o
      (OSetLate (Fixed tg) tw :: h) = Ok (o', l) ->
    ~ some_call_silent Out l ->
    let D := ns_to_secs_Q (tw_dur tw) in
    if completes (tw_start tw) D 0 (calls h)
    then p_state (o_late o') = Idle (Fixed tg) /\ p_raw (o_late o') = tg
    else p_raw (o_late o') =
         the_law powf (p_raw (o_late o)) tg (tw_easing tw) D (elapsed (tw_start tw) 0 (calls h)).
Proof. exact late_tween_law_proof. Qed.

(** ... and on that class it fails: a tween set on a paused owner has not moved after half its
    duration has been processed ("update the parameters after the early return", refuted). *)
Theorem late_update_reading_refuted :
  exists (h : list (toy_op (T:=Q) Q)) (o' : toyQ) (l : list (bool * option (Q * Q))),
    no_late_set Q bool h /\ calls h <> [] /\
    toy_run pw0 Q (@lerp Q Num_Q) toy0 (OSetLate (Fixed 10) tw_1s :: h) = Ok (o', l) /\
    some_call_silent (option (Q * Q)) l /\
    completes Immediate (ns_to_secs_Q 1000000000) 0 (calls h) = false /\
    ~ (p_raw (o_late o') ==
       the_law pw0 (p_raw (o_late toy0)) 10 Linear (ns_to_secs_Q 1000000000) (elapsed Immediate 0 (calls h))) /\
    p_raw (o_late o') == 0 /\
    the_law pw0 0 10 Linear (ns_to_secs_Q 1000000000) (elapsed Immediate 0 (calls h)) == 5.
Proof. exact late_update_reading_refuted_proof. Qed.

(** The sound (shell of C03 with its three parameters): every history of set_volume /
    set_playback_rate / set_panning, pause, resume, resume_at, stop and [process] calls is, to
    each parameter, its own commands plus one update of [dt * len] per call -- Playing, Pausing,
    Paused, WaitingToResume, Resuming, Stopping, start time pending alike.  Any number type. *)
Theorem sound_params_follow_history :
  forall (T : Type) (NT : Num T) (ND : NumDur T) (powf : T -> T -> T)
    (V : Type) (interp : V -> V -> T -> V) (silence identity : V)
    (A : Type) (azero : A) (G : Type) (amp : V -> G) (source : Z -> T -> A)
    (mix : A -> G -> G -> V -> A) (rate_abs : T -> T) (position_of : Z -> T -> T)
    (sr : Z) (fuel : nat) (s s' : dsound T V) (h : list (sop T V)) (l : list (bool * list A)),
    dsound_run powf V interp silence identity A azero G amp source mix rate_abs position_of sr fuel s h = Ok (s', l) ->
    param_run powf V interp (d_vol s) (flat_map vol_view h) = Ok (d_vol s') /\
    param_run powf T (@lerp T NT) (d_rate s) (flat_map rate_view h) = Ok (d_rate s') /\
    param_run powf V interp (d_pan s) (flat_map pan_view h) = Ok (d_pan s').
Proof. exact @sound_params_follow_history_proof. Qed.

Theorem sound_volume_tween_law :
  forall (powf : Q -> Q -> Q) (silence identity : Q) (A : Type) (azero : A)
    (G : Type) (amp : Q -> G) (source : Z -> Q -> A) (mix : A -> G -> G -> Q -> A)
    (rate_abs : Q -> Q) (position_of : Z -> Q -> Q) (sr : Z) (fuel : nat) (s s' : dsound Q Q)
    (tg : Q) (tw : tween Q) (h : list (sop Q Q)) (l : list (bool * list A)),
    forallb (fun op : sop Q Q => negb (is_svol op)) h = true ->
    not_delayed (tw_start tw) -> (tw_dur tw <> 0)%Z -> scalls h <> [] ->
    dsound_run powf Q (@lerp Q Num_Q) silence identity A azero G amp source mix rate_abs position_of sr fuel s
      (SVol (Fixed tg) tw :: h) = Ok (s', l) ->
    let D := ns_to_secs_Q (tw_dur tw) in
    if completes (tw_start tw) D 0 (scalls h)
    then p_state (d_vol s') = Idle (Fixed tg) /\ p_raw (d_vol s') = tg
    else p_raw (d_vol s') = the_law powf (p_raw (d_vol s)) tg (tw_easing tw) D (elapsed (tw_start tw) 0 (scalls h)).
Proof. exact sound_volume_tween_law_proof. Qed.

Theorem sound_rate_tween_law :
  forall (powf : Q -> Q -> Q) (silence identity : Q) (A : Type) (azero : A)
    (G : Type) (amp : Q -> G) (source : Z -> Q -> A) (mix : A -> G -> G -> Q -> A)
    (rate_abs : Q -> Q) (position_of : Z -> Q -> Q) (sr : Z) (fuel : nat) (s s' : dsound Q Q)
    (tg : Q) (tw : tween Q) (h : list (sop Q Q)) (l : list (bool * list A)),
    forallb (fun op : sop Q Q => negb (is_srate op)) h = true ->
    not_delayed (tw_start tw) -> (tw_dur tw <> 0)%Z -> scalls h <> [] ->
    dsound_run powf Q (@lerp Q Num_Q) silence identity A azero G amp source mix rate_abs position_of sr fuel s
      (SRate (Fixed tg) tw :: h) = Ok (s', l) ->
    let D := ns_to_secs_Q (tw_dur tw) in
    if completes (tw_start tw) D 0 (scalls h)
    then p_state (d_rate s') = Idle (Fixed tg) /\ p_raw (d_rate s') = tg
    else p_raw (d_rate s') = the_law powf (p_raw (d_rate s)) tg (tw_easing tw) D (elapsed (tw_start tw) 0 (scalls h)).
Proof. exact sound_rate_tween_law_proof. Qed.

Theorem sound_panning_tween_law :
  forall (powf : Q -> Q -> Q) (silence identity : Q) (A : Type) (azero : A)
    (G : Type) (amp : Q -> G) (source : Z -> Q -> A) (mix : A -> G -> G -> Q -> A)
    (rate_abs : Q -> Q) (position_of : Z -> Q -> Q) (sr : Z) (fuel : nat) (s s' : dsound Q Q)
    (tg : Q) (tw : tween Q) (h : list (sop Q Q)) (l : list (bool * list A)),
    forallb (fun op : sop Q Q => negb (is_span op)) h = true ->
    not_delayed (tw_start tw) -> (tw_dur tw <> 0)%Z -> scalls h <> [] ->
    dsound_run powf Q (@lerp Q Num_Q) silence identity A azero G amp source mix rate_abs position_of sr fuel s
      (SPan (Fixed tg) tw :: h) = Ok (s', l) ->
    let D := ns_to_secs_Q (tw_dur tw) in
    if completes (tw_start tw) D 0 (scalls h)
    then p_state (d_pan s') = Idle (Fixed tg) /\ p_raw (d_pan s') = tg
    else p_raw (d_pan s') = the_law powf (p_raw (d_pan s)) tg (tw_easing tw) D (elapsed (tw_start tw) 0 (scalls h)).
Proof. exact sound_panning_tween_law_proof. Qed.

(** Two histories of a sound -- one plays while the other is paused, waits to resume or has not
    started; different chunk lengths -- leave the volume at the same value whenever the same
    time was processed. *)
Theorem sound_volume_state_independent :
  forall (powf : Q -> Q -> Q) (silence identity : Q) (A : Type) (azero : A)
    (G : Type) (amp : Q -> G) (source : Z -> Q -> A) (mix : A -> G -> G -> Q -> A)
    (rate_abs : Q -> Q) (position_of : Z -> Q -> Q) (sr : Z) (fuel : nat) (s1 s2 s1' s2' : dsound Q Q)
    (tg : Q) (tw : tween Q) (h1 h2 : list (sop Q Q)) (l1 l2 : list (bool * list A)),
    d_vol s1 = d_vol s2 ->
    forallb (fun op : sop Q Q => negb (is_svol op)) h1 = true ->
    forallb (fun op : sop Q Q => negb (is_svol op)) h2 = true ->
    not_delayed (tw_start tw) -> (tw_dur tw <> 0)%Z -> scalls h1 <> [] -> scalls h2 <> [] ->
    let D := ns_to_secs_Q (tw_dur tw) in
    completes (tw_start tw) D 0 (scalls h1) = false -> completes (tw_start tw) D 0 (scalls h2) = false ->
    plain_sum (tw_start tw) (scalls h1) == plain_sum (tw_start tw) (scalls h2) ->
    dsound_run powf Q (@lerp Q Num_Q) silence identity A azero G amp source mix rate_abs position_of sr fuel s1
      (SVol (Fixed tg) tw :: h1) = Ok (s1', l1) ->
    dsound_run powf Q (@lerp Q Num_Q) silence identity A azero G amp source mix rate_abs position_of sr fuel s2
      (SVol (Fixed tg) tw :: h2) = Ok (s2', l2) ->
    p_raw (d_vol s1') = p_raw (d_vol s2').
Proof. exact sound_volume_state_independent_proof. Qed.

(** The sub-track: volume and send-route volumes in every state ... *)
Theorem track_volume_follows_history :
  forall (T : Type) (NT : Num T) (ND : NumDur T) (powf : T -> T -> T)
    (V : Type) (interp : V -> V -> T -> V) (silence identity : V)
    (VP : Type) (interpP : VP -> VP -> T -> VP) (VS : Type) (interpS : VS -> VS -> T -> VS)
    (A : Type) (azero : A) (G : Type) (amp : V -> G) (gmul : G -> G -> G) (ascale : A -> G -> A)
    (body : option VP -> nat -> T -> info T -> list A)
    (spatialize : param T VP -> param T VS -> nat -> nat -> A -> A) (t t' : dtrack T V VP VS)
    (h : list (kop T V VP VS)) (l : list (bool * list A * list G)),
    dtrack_run powf V interp silence identity VP interpP VS interpS A azero G amp gmul ascale body spatialize t h = Ok (t', l) ->
    param_run powf V interp (k_vol t) (flat_map kvol_view h) = Ok (k_vol t').
Proof. exact @track_volume_follows_history_proof. Qed.

Theorem track_route_follows_history :
  forall (T : Type) (NT : Num T) (ND : NumDur T) (powf : T -> T -> T)
    (V : Type) (interp : V -> V -> T -> V) (silence identity : V)
    (VP : Type) (interpP : VP -> VP -> T -> VP) (VS : Type) (interpS : VS -> VS -> T -> VS)
    (A : Type) (azero : A) (G : Type) (amp : V -> G) (gmul : G -> G -> G) (ascale : A -> G -> A)
    (body : option VP -> nat -> T -> info T -> list A)
    (spatialize : param T VP -> param T VS -> nat -> nat -> A -> A) (n : nat)
    (h : list (kop T V VP VS)) (t t' : dtrack T V VP VS) (l : list (bool * list A * list G)) (p : param T V),
    dtrack_run powf V interp silence identity VP interpP VS interpS A azero G amp gmul ascale body spatialize t h = Ok (t', l) ->
    nth_error (k_routes t) n = Some p ->
    exists p' : param T V,
      nth_error (k_routes t') n = Some p' /\ param_run powf V interp p (flat_map (kroute_view n) h) = Ok p'.
Proof. exact @track_route_follows_history_proof. Qed.

(** ... but its spatial position only in the calls in which the track advanced (kira updates it
    below the "not advancing" return, track/sub.rs:220) ... *)
Theorem track_position_follows_advancing_calls :
  forall (T : Type) (NT : Num T) (ND : NumDur T) (powf : T -> T -> T)
    (V : Type) (interp : V -> V -> T -> V) (silence identity : V)
    (VP : Type) (interpP : VP -> VP -> T -> VP) (VS : Type) (interpS : VS -> VS -> T -> VS)
    (A : Type) (azero : A) (G : Type) (amp : V -> G) (gmul : G -> G -> G) (ascale : A -> G -> A)
    (body : option VP -> nat -> T -> info T -> list A)
    (spatialize : param T VP -> param T VS -> nat -> nat -> A -> A) (h : list (kop T V VP VS))
    (t t' : dtrack T V VP VS) (l : list (bool * list A * list G)) (pos : param T VP) (str : param T VS),
    dtrack_run powf V interp silence identity VP interpP VS interpS A azero G amp gmul ascale body spatialize t h = Ok (t', l) ->
    k_spatial t = Some (pos, str) ->
    exists (pos' : param T VP) (str' : param T VS),
      k_spatial t' = Some (pos', str') /\
      param_run powf VP interpP pos (kpos_view h (map (fun x : bool * list A * list G => fst (fst x)) l)) = Ok pos'.
Proof. exact @track_position_follows_advancing_calls_proof. Qed.

(** ... so that on the class "the track did not advance during some call" the law of the
    processed time fails for it. *)
Theorem track_position_frozen_while_paused_refuted :
  exists (h : list (kop Q Q Q Q)) (t' : dtrack Q Q Q Q) (l : list (bool * list unit * list unit)) (pos' str' : param Q Q),
    forallb (fun op : kop Q Q Q Q => negb (is_kpos op)) h = true /\
    qtrack_run qtrack0 (KPause tw0 :: KProcess 1 dt1024 no_info :: KPos (Fixed 10) tw_1s :: h) = Ok (t', l) /\
    existsb (fun x : bool * list unit * list unit => fst (fst x)) l = true /\
    k_spatial t' = Some (pos', str') /\
    completes Immediate (ns_to_secs_Q 1000000000) 0 (kcalls h) = false /\
    p_raw pos' == 0 /\
    the_law pw0 0 10 Linear (ns_to_secs_Q 1000000000) (elapsed Immediate 0 (kcalls h)) == 5.
Proof. exact track_position_frozen_while_paused_refuted_proof. Qed.

(** The track model of C12 (the whole tree) ticks its volume in every call, advancing or not. *)
Theorem c12_track_volume_ticked :
  forall (T : Type) (NT : Num T) (ND : NumDur T) (powf : T -> T -> T)
    (V : Type) (interp : V -> V -> T -> V) (identity : V)
    (A : Type) (azero : A) (aadd : A -> A -> A) (G : Type) (amp : V -> G) (gmul : G -> G -> G)
    (ascale : A -> G -> A) (Snd : Type)
    (snd_process : Snd -> nat -> T -> info T -> outcome (Snd * list A)) (E : Type)
    (eff_process : E -> list A -> T -> info T -> E * list A) (t t' : C12.Model.track T V Snd E)
    (len : nat) (dt : T) (i : info T) (out : list A),
    C12.Model.process powf V interp identity A azero aadd G amp gmul ascale Snd snd_process E eff_process t len dt i = Ok (t', out) ->
    exists f : bool,
      param_update powf V interp (C12.Model.t_vol t) (nmul dt (nofZ (Z.of_nat len))) i = Ok (C12.Model.t_vol t', f).
Proof. exact @c12_track_volume_ticked_proof. Qed.

(** The tweener modulator (modulator/tweener.rs as transcribed in C17): told to move to [target],
    once it has come to rest -- any updates, any time steps, any start value / duration / easing /
    delay -- its value IS the target, for any number type (binary64: bit for bit), and stays so. *)
Theorem tweener_ends_on_target :
  forall (T : Type) (NT : Num T) (powf : T -> T -> T) (secs_to_ns : T -> Z) (ns_to_secs : Z -> T)
    (t0 : C17.Model.tweener T) (target : T) (tw : C17.Model.tween T) (dts more : list T),
    let t := C06.ProofsOwnersMod.trun powf secs_to_ns ns_to_secs dts (C17.Model.tweener_set t0 target tw) in
    C17.Model.t_state t = C17.Model.TIdle ->
    C17.Model.t_value t = target /\
    C17.Model.t_value (C06.ProofsOwnersMod.trun powf secs_to_ns ns_to_secs more t) = target /\
    C17.Model.t_state (C06.ProofsOwnersMod.trun powf secs_to_ns ns_to_secs more t) = C17.Model.TIdle.
Proof. exact @C06.ProofsOwnersMod.tweener_ends_on_target_proof. Qed.

Theorem tweener_finishing_update :
  forall (T : Type) (NT : Num T) (powf : T -> T -> T) (secs_to_ns : T -> Z) (ns_to_secs : Z -> T)
    (v0 v1 time : T) (tw : C17.Model.tween T) (value dt : T),
    fst (C17.Model.start_step secs_to_ns dt (C17.Model.tw_start tw)) = true ->
    nleb (ns_to_secs (C17.Model.tw_dur tw)) (nadd time dt) = true ->
    C17.Model.tweener_update powf secs_to_ns ns_to_secs dt
      {| C17.Model.t_state := C17.Model.TTweening v0 v1 time tw; C17.Model.t_value := value |} =
    {| C17.Model.t_state := C17.Model.TIdle; C17.Model.t_value := v1 |}.
Proof. exact @C06.ProofsOwnersMod.tweener_finishing_update_proof. Qed.

(** "Finish by interpolate(start, target, 1.0)" refuted in binary64 (1.0 -> 0.1 rests one ulp
    below 0.1, outside the interval), while the code's assignment gives the target's bits. *)
Theorem tweener_finish_by_interpolation_refuted :
  exists (v0 v1 dt : Base.IEEE.f64) (dur : Z),
    let t := C06.ProofsOwnersMod.tweener_update_by_interpolation C06.ProofsOwnersMod.pw64 C06.ProofsOwnersMod.sn64
               C06.ProofsOwnersMod.ns64 dt
               (C17.Model.tweener_set (C17.Model.tweener_new v0) v1 (C06.ProofsOwnersMod.tw64 dur)) in
    C17.Model.t_state t = C17.Model.TIdle /\
    Base.IEEE.bits_of_f64 (C17.Model.t_value t) <> Base.IEEE.bits_of_f64 v1 /\
    Base.IEEE.lt64 (C17.Model.t_value t) v1 = true /\
    Base.IEEE.lt64 v1 v0 = true /\
    Base.IEEE.bits_of_f64
      (C17.Model.t_value
         (C17.Model.tweener_update C06.ProofsOwnersMod.pw64 C06.ProofsOwnersMod.sn64 C06.ProofsOwnersMod.ns64 dt
            (C17.Model.tweener_set (C17.Model.tweener_new v0) v1 (C06.ProofsOwnersMod.tw64 dur)))) =
    Base.IEEE.bits_of_f64 v1.
Proof. exact C06.ProofsOwnersMod.tweener_finish_by_interpolation_refuted_proof. Qed.

(** * Targets that are not fixed: a modulator, the listener distance (value.rs) *)

(** Sent to a modulator or to the listener distance with any tween, a parameter is never marked
    stagnant, during the tween and after it, whatever the updates. *)
Theorem linked_target_stays_live :
  forall (T : Type) (NT : Num T) (ND : NumDur T) (powf : T -> T -> T) (V : Type) (interp : V -> V -> T -> V)
    (v : value T V) (l : list (T * info T)) (p p' : param T V),
    linked V v -> live_on V v p -> param_run powf V interp p (updates_of V l) = Ok p' -> live_on V v p'.
Proof. exact @linked_target_stays_live_proof. Qed.

(** Resting on such a target, one update takes the CURRENT value of what the parameter is linked to
    (and holds the old one if that does not resolve). *)
Theorem idle_linked_update :
  forall (T : Type) (NT : Num T) (ND : NumDur T) (powf : T -> T -> T) (V : Type) (interp : V -> V -> T -> V)
    (v : value T V) (p : param T V) (dt : T) (i : info T),
    linked V v -> p_state p = Idle v -> p_stagnant p = false ->
    param_update powf V interp p dt i =
    Ok ({| p_state := Idle v;
           p_raw := match raw_of powf interp i v with Some x => x | None => p_raw p end;
           p_prev := p_raw p; p_stagnant := false |}, false).
Proof. exact @idle_linked_update_proof. Qed.

(** ... and so for EVERY later update. *)
Theorem idle_linked_follows_forever :
  forall (T : Type) (NT : Num T) (ND : NumDur T) (powf : T -> T -> T) (V : Type) (interp : V -> V -> T -> V)
    (v : value T V) (l : list (T * info T)) (p : param T V) (dt : T) (i : info T),
    linked V v -> p_state p = Idle v -> p_stagnant p = false ->
    exists p' : param T V,
      param_run powf V interp p (updates_of V (l ++ [(dt, i)])) = Ok p' /\
      p_state p' = Idle v /\ p_stagnant p' = false /\
      (forall x : V, raw_of powf interp i v = Some x -> p_raw p' = x).
Proof. exact @idle_linked_follows_forever_proof. Qed.

(** From the command on: linked at run time with any tween (zero length included); once the tween
    has finished, after any further updates, the update made with [i] leaves the parameter on the
    value its target has in [i] (the mapping of the current distance / modulator value). *)
Theorem linked_target_followed_after_tween :
  forall (T : Type) (NT : Num T) (ND : NumDur T) (powf : T -> T -> T) (V : Type) (interp : V -> V -> T -> V)
    (p p1 : param T V) (v : value T V) (tw : tween T) (l1 l2 : list (T * info T)) (dt : T) (i : info T),
    linked V v ->
    param_run powf V interp (param_set p v tw) (updates_of V l1) = Ok p1 -> p_state p1 = Idle v ->
    exists p' : param T V,
      param_run powf V interp (param_set p v tw) (updates_of V (l1 ++ l2 ++ [(dt, i)])) = Ok p' /\
      p_state p' = Idle v /\ p_stagnant p' = false /\
      (forall x : V, raw_of powf interp i v = Some x -> p_raw p' = x).
Proof. exact @linked_target_followed_after_tween_proof. Qed.

(** A fixed target may go stagnant: with or without the flag, value, previous value and state are
    the target's from the next update on. *)
Theorem fixed_target_stagnant_unobservable :
  forall (T : Type) (NT : Num T) (ND : NumDur T) (powf : T -> T -> T) (V : Type) (interp : V -> V -> T -> V)
    (p : param T V) (tg : V) (l : list (T * info T)) (dt : T) (i : info T),
    p_state p = Idle (Fixed tg) -> p_raw p = tg ->
    exists p' : param T V,
      param_run powf V interp p (updates_of V ((dt, i) :: l)) = Ok p' /\
      p_state p' = Idle (Fixed tg) /\ p_raw p' = tg /\ p_prev p' = tg.
Proof. exact @fixed_target_stagnant_unobservable_proof. Qed.

(** "Stagnant unless the target follows a modulator", refuted on a listener-distance target. *)
Theorem stagnant_unless_modulator_refuted :
  exists (p1 p2 : param Q Q) (f1 f2 : bool),
    param_update_stagnant_unless_mod pwq Q lerpq (param_set (param_new (Fixed 0) 0) (FromDist dist_map) tw_zero)
      (1 # 64) (at_dist 10) = Ok (p1, f1) /\
    param_update_stagnant_unless_mod pwq Q lerpq p1 (1 # 64) (at_dist 50) = Ok (p2, f2) /\
    p_state p2 = Idle (FromDist dist_map) /\
    p_raw p2 == -4 /\
    (exists x : Q, raw_of pwq lerpq (at_dist 50) (FromDist dist_map) = Some x /\ x == -20 /\ ~ p_raw p2 == x).
Proof. exact stagnant_unless_modulator_refuted_proof. Qed.

(** * Tweenable types that do not interpolate by plain [a + (b - a) t]; tweens that reach their parameter through
    a constructor *)

(** [Parameter<ClockSpeed>]: for every partition of time, once complete the speed is identically the target;
    before that it is, IN THE UNIT OF THE TARGET, start + (target - start) * ease(elapsed / duration). *)
Theorem clock_speed_tween_law :
  forall (powf : Q -> Q -> Q) (p : param Q (cspeed Q)) (tg : cspeed Q) (tw : tween Q) (l : list (Q * info Q)),
    not_delayed (tw_start tw) -> (tw_dur tw <> 0)%Z -> l <> [] ->
    let D := ns_to_secs_Q (tw_dur tw) in
    exists p', runV powf (cspeed Q) cspeed_interpolate (param_set p (Fixed tg) tw) (updatesV (cspeed Q) l) = Ok p' /\
      if completes (tw_start tw) D 0 l
      then p_state p' = Idle (Fixed tg) /\ p_raw p' = tg
      else same_unit (p_raw p') tg /\
           in_unit_of tg (p_raw p') ==
             in_unit_of tg (p_raw p)
             + (in_unit_of tg tg - in_unit_of tg (p_raw p))
               * ease powf (tw_easing tw) (ndiv (elapsed (tw_start tw) 0 l) D).
Proof. exact clock_speed_law_from_set. Qed.

(** "Interpolate every clock speed in ticks per second", refuted (1 s/tick -> 0.5 s/tick, halfway: 2/3, not 3/4). *)
Theorem clock_speed_interpolated_in_tps_refuted :
  exists (a tg : cspeed Q) (x : Q),
    0 < x /\ x < 1 /\
    ~ in_unit_of tg (interpolate_in_tps a tg x) == in_unit_of tg a + (in_unit_of tg tg - in_unit_of tg a) * x.
Proof. exact interpolate_in_tps_not_the_law. Qed.

(** Any value type: a ZERO-duration tween whose start is pending (delay still counting, clock not there) leaves
    the value exactly where it was and stays in force, its delay counted down ... *)
Theorem tween_zero_duration_pending_holds :
  forall (powf : Q -> Q -> Q) (V : Type) (interp : V -> V -> Q -> V)
         (p : param Q V) (v0 tg : V) (tw : tween Q) (dt : Q) (i : info Q) (d : Z),
    p_state p = Tweening v0 (Fixed tg) 0 tw -> p_stagnant p = false -> tw_dur tw = 0%Z ->
    pending (tw_start tw) i -> secs_to_ns_Q dt = Ok d ->
    exists p', updV powf V interp p dt i = Ok (p', false) /\ p_raw p' = p_raw p /\ p_prev p' = p_raw p /\
      p_stagnant p' = false /\
      p_state p' = Tweening v0 (Fixed tg) 0
                     {| tw_start := match tw_start tw with Delayed rem => Delayed (sat_sub rem d) | s => s end;
                        tw_dur := 0; tw_easing := tw_easing tw |}.
Proof. exact zero_duration_pending. Qed.

(** ... and is the target, exactly and at rest, at the first update at which its start has come. *)
Theorem tween_zero_duration_any_type :
  forall (powf : Q -> Q -> Q) (V : Type) (interp : V -> V -> Q -> V)
         (p : param Q V) (v0 tg : V) (tw : tween Q) (dt : Q) (i : info Q),
    p_state p = Tweening v0 (Fixed tg) 0 tw -> p_stagnant p = false -> tw_dur tw = 0%Z ->
    counts (tw_start tw) i = true -> 0 <= dt ->
    updV powf V interp p dt i =
      Ok ({| p_state := Idle (Fixed tg); p_raw := tg; p_prev := p_raw p; p_stagnant := true |}, true).
Proof. exact zero_duration_started. Qed.

(** The fade-in tween of a sound's settings is given to the fade parameter as it is -- start time and zero
    duration included: the parameter is created at silence and set towards 0 dB with that very tween ... *)
Theorem fade_in_tween_reaches_parameter :
  forall (V : Type) (silence identity : V) (tw : tween Q),
    let f := fade (psm_new V silence identity (Some tw)) in
    p_state f = Tweening silence (Fixed identity) 0 tw /\ p_raw f = silence /\ p_prev f = silence /\
    p_stagnant f = false.
Proof. exact fade_in_reaches_parameter. Qed.

(** ... so a sound played with a zero-duration fade-in is silent as long as the tween's start is pending ... *)
Theorem fade_in_zero_duration_silent_until_start :
  forall (powf : Q -> Q -> Q) (V : Type) (interp : V -> V -> Q -> V) (silence identity : V)
         (tw : tween Q) (dt : Q) (i : info Q) (d : Z),
    tw_dur tw = 0%Z -> pending (tw_start tw) i -> secs_to_ns_Q dt = Ok d ->
    exists m', psm_update powf V interp identity (psm_new V silence identity (Some tw)) dt i = Ok (m', false) /\
      ps m' = Playing /\ p_raw (fade m') = silence /\ p_prev (fade m') = silence.
Proof. exact fade_in_zero_duration_pending_silent. Qed.

(** ... and at 0 dB, at rest, after the first update at which it has come. *)
Theorem fade_in_zero_duration_takes_effect :
  forall (powf : Q -> Q -> Q) (V : Type) (interp : V -> V -> Q -> V) (silence identity : V)
         (tw : tween Q) (dt : Q) (i : info Q),
    tw_dur tw = 0%Z -> counts (tw_start tw) i = true -> 0 <= dt ->
    exists m', psm_update powf V interp identity (psm_new V silence identity (Some tw)) dt i = Ok (m', false) /\
      ps m' = Playing /\ p_raw (fade m') = identity /\ p_state (fade m') = Idle (Fixed identity).
Proof. exact fade_in_zero_duration_started_identity. Qed.

(** The tween of [resume(tween)] -- the owner resumes NOW -- reaches the fade volume as it is: the owner is Resuming at
    once and the fade parameter is told to move to 0 dB with that very tween (its own start time untouched, elapsed
    time 0) from its current, possibly mid-tween, value.  The tween's start time is the parameter's to count, once. *)
Theorem resume_tween_reaches_fade_parameter :
  forall (V : Type) (identity : V) (m : psm Q V) (tw : tween Q),
    is_stopped (ps m) = false ->
    let m' := psm_resume V identity m Immediate tw in
    ps m' = Resuming /\ told_to_move V (fade m) (fade m') identity tw.
Proof. exact resume_now_reaches_parameter. Qed.

(** The same for the fade-out tweens of pause and stop. *)
Theorem pause_tween_reaches_fade_parameter :
  forall (V : Type) (silence : V) (m : psm Q V) (tw : tween Q),
    is_stopped (ps m) = false ->
    let m' := psm_pause V silence m tw in
    ps m' = Pausing /\ told_to_move V (fade m) (fade m') silence tw.
Proof. exact pause_reaches_parameter. Qed.

Theorem stop_tween_reaches_fade_parameter :
  forall (V : Type) (silence : V) (m : psm Q V) (tw : tween Q),
    is_stopped (ps m) = false ->
    let m' := psm_stop V silence m tw in
    ps m' = Stopping /\ told_to_move V (fade m) (fade m') silence tw.
Proof. exact stop_reaches_parameter. Qed.

(** A resume with a start time of its own ([resume_at]) waits with the fade parameter untouched, and at the update at
    which that start time has come tells it to move with the tween as it was given. *)
Theorem resume_at_tween_reaches_fade_parameter_when_due :
  forall (powf : Q -> Q -> Q) (V : Type) (interp : V -> V -> Q -> V) (identity : V)
         (m : psm Q V) (st : stime Q) (tw : tween Q) (dt : Q) (i : info Q) (f : param Q V) (fin : bool),
    ps m = WaitingToResume st tw ->
    param_update powf V interp (fade m) dt i = Ok (f, fin) ->
    stime_update st dt i = Ok (Immediate, false) ->
    exists m', psm_update powf V interp identity m dt i = Ok (m', true) /\
      ps m' = Resuming /\ told_to_move V f (fade m') identity tw.
Proof. exact waiting_due_reaches_parameter. Qed.

(** Resumed NOW with a zero-duration tween whose own start is pending: after an update the owner is still Resuming, the
    fade volume has kept its value exactly, and the tween's delay has been counted down by this update -- once. *)
Theorem resume_tween_pending_start_counted_once :
  forall (powf : Q -> Q -> Q) (V : Type) (interp : V -> V -> Q -> V) (identity : V)
         (m : psm Q V) (tw : tween Q) (dt : Q) (i : info Q) (d : Z),
    is_stopped (ps m) = false -> tw_dur tw = 0%Z -> pending (tw_start tw) i -> secs_to_ns_Q dt = Ok d ->
    exists m', psm_update powf V interp identity (psm_resume V identity m Immediate tw) dt i = Ok (m', false) /\
      ps m' = Resuming /\ p_raw (fade m') = p_raw (fade m) /\
      p_state (fade m') = Tweening (p_raw (fade m)) (Fixed identity) 0
                            {| tw_start := match tw_start tw with Delayed rem => Delayed (sat_sub rem d) | s => s end;
                               tw_dur := 0; tw_easing := tw_easing tw |}.
Proof. exact resume_now_pending_holds. Qed.
