(** C06 — property theorems (statements closed by [exact]). *)
From Coq Require Import ZArith QArith List.
From KV Require Import Base.Outcome Base.Num C19.Model C19.ProofsEasing C06.Model C06.Dur C06.Proofs C06.Proofs2.
Import ListNotations.
Local Open Scope Q_scope.

(** The tween law, for every partition of time into updates, every easing, every libm:
    once complete the value is identically the target (and stays so — [run] covers the whole
    list); before that it is start + (target - start) * ease(elapsed / duration). *)
Theorem tween_law :
  forall (powf : Q -> Q -> Q) (p : param Q Q) (tg : Q) (tw : tween Q) (l : list (Q * info Q)),
    not_delayed (tw_start tw) -> (tw_dur tw <> 0)%Z -> l <> [] ->
    let D := ns_to_secs_Q (tw_dur tw) in
    exists p', run powf (param_set p (Fixed tg) tw) (updates l) = Ok p' /\
      if completes (tw_start tw) D 0 l
      then p_state p' = Idle (Fixed tg) /\ p_raw p' = tg
      else p_raw p' = the_law powf (p_raw p) tg (tw_easing tw) D (elapsed (tw_start tw) 0 l).
Proof. exact tween_law_from_set. Qed.

Theorem tween_law_arith :
  forall (powf : Q -> Q -> Q) (v0 tg : Q) (e : easing Q) (D t : Q),
    the_law powf v0 tg e D t == v0 + (tg - v0) * ease powf e (ndiv t D) /\ ndiv t D == t / D.
Proof. exact the_law_eq. Qed.

Theorem tween_elapsed_is_sum :
  forall (st : stime Q) (acc : Q) (l : list (Q * info Q)), elapsed st acc l == acc + plain_sum st l.
Proof. exact elapsed_sum. Qed.

Theorem tween_completes_when_due :
  forall (st : stime Q) (D acc : Q) (l : list (Q * info Q)),
    nonneg_updates l -> acc < D -> (completes st D acc l = true <-> D <= elapsed st acc l).
Proof. exact completes_spec. Qed.

Theorem tween_partition_independent :
  forall (powf : Q -> Q -> Q) (p : param Q Q) (tg : Q) (tw : tween Q) (l1 l2 : list (Q * info Q)),
    not_delayed (tw_start tw) -> (tw_dur tw <> 0)%Z -> l1 <> [] -> l2 <> [] ->
    let D := ns_to_secs_Q (tw_dur tw) in
    completes (tw_start tw) D 0 l1 = false -> completes (tw_start tw) D 0 l2 = false ->
    plain_sum (tw_start tw) l1 == plain_sum (tw_start tw) l2 ->
    exists p1 p2, run powf (param_set p (Fixed tg) tw) (updates l1) = Ok p1 /\
                  run powf (param_set p (Fixed tg) tw) (updates l2) = Ok p2 /\ p_raw p1 = p_raw p2.
Proof. exact partition_independent. Qed.

Theorem tween_in_range :
  forall (powf : Q -> Q -> Q) (v0 tg : Q) (e : easing Q) (D t : Q),
    shape (ease powf e) -> 0 < D -> 0 <= t -> t <= D ->
    (v0 <= tg -> v0 <= the_law powf v0 tg e D t <= tg) /\
    (tg <= v0 -> tg <= the_law powf v0 tg e D t <= v0).
Proof. exact law_in_range. Qed.

Theorem tween_pending_keeps_value :
  forall (powf : Q -> Q -> Q) (v0 tg : Q) (e : easing Q) (D : Q),
    shape (ease powf e) -> ~ D == 0 -> the_law powf v0 tg e D 0 == v0.
Proof. exact law_at_zero. Qed.

Theorem tween_zero_duration :
  forall (powf : Q -> Q -> Q) (p : param Q Q) (v0 tg t : Q) (tw : tween Q) (dt : Q) (i : info Q),
    mid p v0 tg t tw -> not_delayed (tw_start tw) -> tw_dur tw = 0%Z -> counts (tw_start tw) i = true ->
    0 <= t -> 0 <= dt ->
    upd powf p dt i = Ok ({| p_state := Idle (Fixed tg); p_raw := tg; p_prev := p_raw p; p_stagnant := true |}, true).
Proof. exact zero_duration_update. Qed.

Theorem tween_delayed_countdown :
  forall (powf : Q -> Q -> Q) (p : param Q Q) (v0 tg : Q) (tw : tween Q) (rem : Z) (dt : Q) (i : info Q) (d : Z),
    p_state p = Tweening v0 (Fixed tg) 0 tw -> p_stagnant p = false ->
    tw_start tw = Delayed rem -> (rem <> 0)%Z -> (tw_dur tw <> 0)%Z -> secs_to_ns_Q dt = Ok d ->
    upd powf p dt i =
      Ok ({| p_state := Tweening v0 (Fixed tg) 0
                          {| tw_start := Delayed (sat_sub rem d); tw_dur := tw_dur tw; tw_easing := tw_easing tw |};
             p_raw := the_law powf v0 tg (tw_easing tw) (ns_to_secs_Q (tw_dur tw)) 0;
             p_prev := p_raw p; p_stagnant := false |}, false).
Proof. exact delayed_countdown. Qed.

Theorem tween_continuity :
  forall (powf : Q -> Q -> Q) (p p' : param Q Q) (dt : Q) (i : info Q) (f : bool),
    upd powf p dt i = Ok (p', f) -> p_prev p' = p_raw p.
Proof. exact prev_is_last_value. Qed.

Theorem tween_interpolated_endpoints :
  forall p : param Q Q,
    param_interpolated Q (@lerp Q Num_Q) p 0 == p_prev p /\ param_interpolated Q (@lerp Q Num_Q) p 1 == p_raw p.
Proof. exact interpolated_endpoints. Qed.

Theorem tween_retarget_from_current :
  forall (p : param Q Q) (tg : value Q Q) (tw : tween Q),
    p_raw (param_set p tg tw) = p_raw p /\ p_prev (param_set p tg tw) = p_prev p /\
    p_state (param_set p tg tw) = Tweening (p_raw p) tg 0 tw.
Proof. exact set_from_current. Qed.

Theorem param_modulator_follows :
  forall (powf : Q -> Q -> Q) (p : param Q Q) (id : nat) (m : vmapping Q Q) (dt : Q) (i : info Q) (x : Q),
    p_state p = Idle (FromMod id m) -> p_stagnant p = false -> nth_error (i_mods i) id = Some (Some x) ->
    exists p', upd powf p dt i = Ok (p', false) /\ p_raw p' = vmap powf Q (@lerp Q Num_Q) m x /\ p_state p' = Idle (FromMod id m).
Proof. exact idle_modulator_follows. Qed.

Theorem param_modulator_holds :
  forall (powf : Q -> Q -> Q) (p : param Q Q) (id : nat) (m : vmapping Q Q) (dt : Q) (i : info Q),
    p_state p = Idle (FromMod id m) -> p_stagnant p = false ->
    (nth_error (i_mods i) id = None \/ nth_error (i_mods i) id = Some None) ->
    exists p', upd powf p dt i = Ok (p', false) /\ p_raw p' = p_raw p /\ p_state p' = Idle (FromMod id m).
Proof. exact idle_modulator_holds. Qed.
