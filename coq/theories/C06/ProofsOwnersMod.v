(** C06 — the tweener modulator (the C17 transcription of modulator/tweener.rs) ends on its target
    exactly: the finishing branch ASSIGNS the target.  Proved for any number type, hence bit for
    bit for binary64, where [interpolate(start, target, 1.0)] is not the target.
    Also: the volume of the C12 track model is ticked in every state. *)
From Coq Require Import ZArith List Bool.
From KV Require Import Base.IEEE Base.Outcome Base.Num C19.Model C17.Model.
Import ListNotations.
Local Open Scope Z_scope.

Section Tweener.
  Context {T : Type} {NT : Num T}.
  Variable powf : T -> T -> T.
  Variable secs_to_ns : T -> Z.
  Variable ns_to_secs : Z -> T.
  Notation upd := (tweener_update powf secs_to_ns ns_to_secs).

  (** the tweener after a [set] to [target] and any updates: still heading there, or resting on it *)
  Definition heading_to (target : T) (t : tweener T) : Prop :=
    match t_state t with
    | TTweening _ v1 _ _ => v1 = target
    | TIdle => t_value t = target
    end.

  Lemma upd_keeps_heading target dt t : heading_to target t -> heading_to target (upd dt t).
  Proof.
    unfold heading_to, tweener_update. destruct (t_state t) as [|v0 v1 time tw] eqn:E.
    - rewrite E. exact (fun H => H).
    - intro H. destruct (start_step secs_to_ns dt (tw_start tw)) as [started st'].
      destruct started; cbn [negb].
      + destruct (nleb (ns_to_secs (tw_dur tw)) (nadd time dt)); cbn [t_state t_value]; exact H.
      + cbn [t_state]. exact H.
  Qed.

  Definition trun (dts : list T) (t : tweener T) : tweener T := fold_left (fun t dt => upd dt t) dts t.

  Lemma trun_keeps_heading target dts : forall t, heading_to target t -> heading_to target (trun dts t).
  Proof.
    induction dts as [|dt dts IH]; intros t H; [exact H|]. cbn [trun fold_left].
    apply IH. apply upd_keeps_heading. exact H.
  Qed.

  (** Told to move to [target], a tweener that has come to rest -- after any updates with any time
      steps, whatever the start value, duration, easing, start delay -- has exactly the target as
      its value; and it keeps it under all further updates. *)
  Lemma tweener_ends_on_target_proof (t0 : tweener T) target tw dts more :
    let t := trun dts (tweener_set t0 target tw) in
    t_state t = TIdle -> t_value t = target /\ t_value (trun more t) = target /\ t_state (trun more t) = TIdle.
  Proof.
    intros t Hidle.
    assert (H : heading_to target t) by (apply trun_keeps_heading; reflexivity).
    assert (Hv : t_value t = target) by (unfold heading_to in H; rewrite Hidle in H; exact H).
    split; [exact Hv|].
    assert (Hm : forall l x, t_state x = TIdle -> trun l x = x).
    { induction l as [|dt l IHl]; intros x Hx; [reflexivity|]. cbn [trun fold_left].
      assert (E : upd dt x = x) by (unfold tweener_update; rewrite Hx; reflexivity).
      rewrite E. apply IHl. exact Hx. }
    rewrite (Hm more t Hidle). split; assumption.
  Qed.

  (** the update at which the time reaches the duration puts the value ON the target *)
  Lemma tweener_finishing_update_proof v0 v1 time tw value dt :
    fst (start_step secs_to_ns dt (tw_start tw)) = true ->
    nleb (ns_to_secs (tw_dur tw)) (nadd time dt) = true ->
    upd dt {| t_state := TTweening v0 v1 time tw; t_value := value |} = {| t_state := TIdle; t_value := v1 |}.
  Proof.
    intros Hs Hf. unfold tweener_update. cbn [t_state].
    destruct (start_step secs_to_ns dt (tw_start tw)) as [started st']. cbn [fst] in Hs. subst started.
    cbn [negb]. rewrite Hf. reflexivity.
  Qed.

  (** the other reading: compute the final value as [interpolate(start, target, 1.0)] *)
  Definition tweener_update_by_interpolation (dt : T) (t : tweener T) : tweener T :=
    match t_state t with
    | TIdle => t
    | TTweening v0 v1 time tw =>
        let '(started, st') := start_step secs_to_ns dt (tw_start tw) in
        let tw' := set_start tw st' in
        if negb started then {| t_state := TTweening v0 v1 time tw'; t_value := t_value t |}
        else
          let time' := nadd time dt in
          let finished := nleb (ns_to_secs (tw_dur tw)) time' in
          let progress := if finished then n1 else tween_value powf ns_to_secs tw time' in
          {| t_state := if finished then TIdle else TTweening v0 v1 time' tw'; t_value := lerp v0 v1 progress |}
    end.
End Tweener.

(** ** binary64 *)
Definition f64_1 : f64 := Z64 1.
Definition f64_0_1 : f64 := f64_of_bits 0x3FB999999999999A.      (* 0.1 *)
Definition tw64 (dur_ns : Z) : tween f64 := {| tw_start := Immediate; tw_dur := dur_ns; tw_easing := Linear |}.
Definition ns64 (ns : Z) : f64 := div64 (Z64 ns) (Z64 1000000000).
Definition pw64 : f64 -> f64 -> f64 := fun x _ => x.
Definition sn64 : f64 -> Z := fun _ => 0.

(** non-vacuity: 1.0 -> 0.1 over 1 s in steps of 0.25 s: after four updates the tweener is idle
    and its value IS 0.1 *)
Example tweener_f64_example :
  let t := trun pw64 sn64 ns64 [dy64 1 (-2); dy64 1 (-2); dy64 1 (-2); dy64 1 (-2)]
             (tweener_set (tweener_new f64_1) f64_0_1 (tw64 1000000000)) in
  t_state t = TIdle /\ bits_of_f64 (t_value t) = 0x3FB999999999999A.
Proof. vm_compute. split; reflexivity. Qed.

(** "Finishing by interpolation" refuted in binary64: 1.0 + (0.1 - 1.0) * 1.0 = 0.09999999999999998
    (one ulp below 0.1, outside the interval between start and target) *)
Lemma tweener_finish_by_interpolation_refuted_proof :
  exists (v0 v1 : f64) (dt : f64) (dur : Z),
    let t := tweener_update_by_interpolation pw64 sn64 ns64 dt
               (tweener_set (tweener_new v0) v1 (tw64 dur)) in
    t_state t = TIdle /\ bits_of_f64 (t_value t) <> bits_of_f64 v1 /\
    lt64 (t_value t) v1 = true /\ lt64 v1 v0 = true /\
    bits_of_f64 (t_value (tweener_update pw64 sn64 ns64 dt (tweener_set (tweener_new v0) v1 (tw64 dur)))) = bits_of_f64 v1.
Proof.
  exists f64_1, f64_0_1, (Z64 1), 1000000000.
  vm_compute. repeat split; try reflexivity. discriminate.
Qed.
