(** [Duration] conversions for the two number instances. *)
From Coq Require Import ZArith QArith Qround Bool.
From Flocq Require Import IEEE754.BinarySingleNaN.
From KV Require Import Base.IEEE Base.Outcome Base.Num C06.Model.
Local Open Scope Z_scope.

(** round-half-to-even of [n / 2^k] *)
Definition rhe_shift (n : Z) (k : Z) : Z :=
  if k <=? 0 then n * 2 ^ (- k)
  else
    let q := n / 2 ^ k in
    let r := n mod 2 ^ k in
    let half := 2 ^ (k - 1) in
    if (half <? r) || ((r =? half) && Z.odd q) then q + 1 else q.

Definition ns_per_sec : Z := 1000000000.

(** [Duration::from_secs_f64]: exact value times 1e9, rounded half-to-even to whole nanoseconds;
    panics ("cannot convert float seconds to Duration") for negative, NaN or >= 2^64 seconds *)
Definition secs_to_ns_f64 (x : f64) : outcome Z :=
  match x with
  | B754_nan => Panic OtherPanic
  | B754_infinity _ => Panic OtherPanic
  | B754_zero _ => Ok 0
  | B754_finite s m e _ =>
      if s then Panic OtherPanic
      else
        let ns := rhe_shift (Zpos m * ns_per_sec) (- e) in
        if ns >=? 2 ^ 64 * ns_per_sec then Panic OtherPanic else Ok ns
  end.
(** [Duration::as_secs_f64] *)
Definition ns_to_secs_f64 (ns : Z) : f64 :=
  add64 (Z64 (ns / ns_per_sec)) (div64 (Z64 (ns mod ns_per_sec)) (Z64 ns_per_sec)).

#[global] Instance NumDur_f64 : NumDur f64 := {| secs_to_ns := secs_to_ns_f64; ns_to_secs := ns_to_secs_f64 |}.

(** exact instance *)
Definition Qrhe (q : Q) : Z :=
  let f := Qfloor q in
  let r := (q - inject_Z f)%Q in
  match Qcompare r (1 # 2) with
  | Lt => f
  | Gt => f + 1
  | Eq => if Z.odd f then f + 1 else f
  end.
Definition secs_to_ns_Q (q : Q) : outcome Z :=
  if Qltb q 0 then Panic OtherPanic else Ok (Qrhe (q * inject_Z ns_per_sec)).
Definition ns_to_secs_Q (ns : Z) : Q := Qred (ns # 1000000000).
#[global] Instance NumDur_Q : NumDur Q := {| secs_to_ns := secs_to_ns_Q; ns_to_secs := ns_to_secs_Q |}.
