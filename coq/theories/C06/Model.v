(** C06 — executable model of kira's tweening core.
    Transcribed from crates/kira/src/{parameter.rs, tween.rs, tween/tweenable.rs, value.rs,
    start_time.rs, info.rs (when_to_start)}.  Generic over the time type [T] ([Num]) and the
    value type [V] with its [Tweenable::interpolate]. *)
From Coq Require Import ZArith List Bool.
From KV Require Import Base.Outcome Base.Num C19.Model.
Import ListNotations.
Local Open Scope Z_scope.

(** [std::time::Duration] is a number of nanoseconds; the two conversions kira uses. *)
Class NumDur (T : Type) := {
  secs_to_ns : T -> outcome Z;   (* Duration::from_secs_f64: round half to even; panics if negative / NaN / too big *)
  ns_to_secs : Z -> T;           (* Duration::as_secs_f64: secs as f64 + nanos as f64 / 1e9 *)
}.

Section Generic.
  Context {T : Type} {NT : Num T} {ND : NumDur T}.
  Variable powf : T -> T -> T.

  (** ** what the audio thread knows ([Info]) *)
  Record info := {
    i_clocks : list (option (bool * Z * T));   (* ticking, ticks, fraction; [None] = id does not resolve *)
    i_mods : list (option T);
    i_dist : option T;                          (* listener distance *)
  }.
  Definition no_info : info := {| i_clocks := []; i_mods := []; i_dist := None |}.

  Inductive when := Now | Later | Never.
  (** [Info::when_to_start]: [ticking && clock_time >= time] *)
  Definition when_to_start (i : info) (clock : nat) (tk : Z) (fr : T) : when :=
    match nth_error (i_clocks i) clock with
    | Some (Some (ticking, ctk, cfr)) =>
        let ge := match ct_cmp {| ticks := ctk; fraction := cfr |} {| ticks := tk; fraction := fr |} with
                  | Some Gt | Some Eq => true | _ => false end in
        if ticking && ge then Now else Later
    | _ => Never
    end.

  Inductive stime := Immediate | Delayed (ns : Z) | ClockT (clock : nat) (tk : Z) (fr : T).
  Record tween := { tw_start : stime; tw_dur : Z (* ns *); tw_easing : easing T }.

  (** [Tween::value]: [easing.apply(time / duration.as_secs_f64())] *)
  Definition tween_value (tw : tween) (time : T) : T :=
    ease powf (tw_easing tw) (ndiv time (ns_to_secs (tw_dur tw))).

  Section Value.
    Variable V : Type.
    Variable interp : V -> V -> T -> V.          (* Tweenable::interpolate a b amount *)

    Record vmapping := { vin_lo : T; vin_hi : T; vout_lo : V; vout_hi : V; v_easing : easing T }.
    (** [Mapping::map] *)
    Definition vmap (m : vmapping) (input : T) : V :=
      let amount := ndiv (nsub input (vin_lo m)) (nsub (vin_hi m) (vin_lo m)) in
      let amount := clamp01 amount in
      let amount := ease powf (v_easing m) amount in
      interp (vout_lo m) (vout_hi m) amount.

    Inductive value := Fixed (v : V) | FromMod (id : nat) (m : vmapping) | FromDist (m : vmapping).
    (** [Value::raw_value] *)
    Definition raw_of (i : info) (v : value) : option V :=
      match v with
      | Fixed x => Some x
      | FromMod id m => match nth_error (i_mods i) id with
                        | Some (Some x) => Some (vmap m x) | _ => None end
      | FromDist m => option_map (vmap m) (i_dist i)
      end.

    Inductive pstate :=
    | Idle (v : value)
    | Tweening (start : V) (target : value) (time : T) (tw : tween).
    Record param := { p_state : pstate; p_raw : V; p_prev : V; p_stagnant : bool }.

    (** [Parameter::new] *)
    Definition param_new (initial : value) (default : V) : param :=
      let raw := match initial with Fixed v => v | _ => default end in
      {| p_state := Idle initial; p_raw := raw; p_prev := raw;
         p_stagnant := match initial with Fixed _ => true | _ => false end |}.

    (** [Parameter::set] *)
    Definition param_set (p : param) (target : value) (tw : tween) : param :=
      {| p_state := Tweening (p_raw p) target n0 tw; p_raw := p_raw p; p_prev := p_prev p;
         p_stagnant := false |}.

    (** [Parameter::update_tween]: new state, stagnant flag, just-finished *)
    Definition update_tween (st : pstate) (stagnant : bool) (dt : T) (i : info)
      : outcome (pstate * bool * bool) :=
      match st with
      | Idle _ => Ok (st, stagnant, false)
      | Tweening start target time tw =>
          let! (started, tw') :=
            match tw_start tw with
            | Immediate => Ok (true, tw)
            | Delayed rem =>
                if rem =? 0 then Ok (true, tw)
                else let! d := secs_to_ns dt in
                     Ok (false, {| tw_start := Delayed (sat_sub rem d); tw_dur := tw_dur tw;
                                   tw_easing := tw_easing tw |})
            | ClockT c tk fr =>
                Ok (match when_to_start i c tk fr with Now => true | _ => false end, tw)
            end in
          if negb started then Ok (Tweening start target time tw', stagnant, false)
          else
            let time' := nadd time dt in
            if nleb (ns_to_secs (tw_dur tw')) time' then
              Ok (Idle target, match target with Fixed _ => true | _ => stagnant end, true)
            else Ok (Tweening start target time' tw', stagnant, false)
      end.

    (** [Parameter::calculate_new_raw_value] *)
    Definition new_raw (st : pstate) (i : info) : option V :=
      match st with
      | Idle v => raw_of i v
      | Tweening start target time tw =>
          if tw_dur tw =? 0 then None
          else option_map (fun tg => interp start tg (tween_value tw time)) (raw_of i target)
      end.

    (** [Parameter::update] *)
    Definition param_update (p : param) (dt : T) (i : info) : outcome (param * bool) :=
      if p_stagnant p then
        Ok ({| p_state := p_state p; p_raw := p_raw p; p_prev := p_raw p; p_stagnant := true |}, false)
      else
        let! (st, stag, fin) := update_tween (p_state p) (p_stagnant p) dt i in
        let raw := match new_raw st i with Some v => v | None => p_raw p end in
        Ok ({| p_state := st; p_raw := raw; p_prev := p_raw p; p_stagnant := stag |}, fin).

    (** [Parameter::interpolated_value] *)
    Definition param_interpolated (p : param) (amount : T) : V := interp (p_prev p) (p_raw p) amount.

    (** an operation of a history *)
    Inductive pop := OSet (target : value) (tw : tween) | OUpdate (dt : T) (i : info).
    Definition param_step (p : param) (o : pop) : outcome (param * bool) :=
      match o with
      | OSet target tw => Ok (param_set p target tw, false)
      | OUpdate dt i => param_update p dt i
      end.
    Fixpoint param_run (p : param) (ops : list pop) : outcome param :=
      match ops with
      | [] => Ok p
      | o :: ops' => let! (p', _) := param_step p o in param_run p' ops'
      end.
  End Value.
End Generic.

Arguments info : clear implicits.
Arguments stime : clear implicits.
Arguments tween : clear implicits.
Arguments vmapping : clear implicits.
Arguments value : clear implicits.
Arguments pstate : clear implicits.
Arguments param : clear implicits.
Arguments pop : clear implicits.
Arguments Fixed {T V}.
Arguments FromMod {T V}.
Arguments FromDist {T V}.
Arguments Idle {T V}.
Arguments Tweening {T V}.
Arguments OSet {T V}.
Arguments OUpdate {T V}.
Arguments Immediate {T}.
Arguments Delayed {T}.
Arguments ClockT {T}.
Arguments p_state {T V}.
Arguments p_raw {T V}.
Arguments p_prev {T V}.
Arguments p_stagnant {T V}.
Arguments Build_param {T V}.
Arguments vin_lo {T V}.
Arguments vin_hi {T V}.
Arguments vout_lo {T V}.
Arguments vout_hi {T V}.
Arguments v_easing {T V}.
Arguments Build_vmapping {T V}.
Arguments raw_of {T NT} powf {V} interp.
Arguments new_raw {T NT ND} powf {V} interp.
Arguments update_tween {T NT ND V}.
Arguments param_set {T NT V}.
Arguments param_new {T V}.
