(** C06 — model side of the correspondence check for parameters embedded in their owners:
    a real static / streaming sound of constant amplitude on the main track of a real
    [AudioManager] (volume, panning, playback rate commanded in every playback state), a real
    sub-track with a send route (track / route / send-track / main-track volumes), and -- through
    the C17 model of the renderer -- the tweener and LFO modulators seen by probe effects. *)
From Coq Require Import ZArith List Bool.
From KV Require Import Base.IEEE Base.Outcome Base.Num Base.Corr C19.Model C19.ModelF32 C19.Run
  C06.Model C06.Dur C06.ModelOwners C03.Model C06.OwnersSound C04.Interp C04.Model.
From KV Require C17.Run C06.Run.
Import ListNotations.
Local Open Scope Z_scope.

Inductive ostart := OImm | ODel (ns : Z) | OClk (clock ticks fr : Z).
Definition otw : Type := (ostart * Z * Z * Z)%type.        (* start, duration ns, easing kind, power *)
Definition mk_ostart (s : ostart) : stime f64 :=
  match s with
  | OImm => Immediate | ODel ns => Delayed ns
  | OClk c tk fr => ClockT (Z.to_nat c) tk (f64_of_bits fr)
  end.
Definition mk_otw (t : otw) : tween f64 :=
  let '(s, d, ek, p) := t in {| tw_start := mk_ostart s; tw_dur := d; tw_easing := mk_easing ek p |}.
(** the clocks as a probe effect saw them during the chunk: (present, ticking, ticks, fraction) *)
Definition mk_oinfo (clocks : list (Z * Z * Z * Z)) : info f64 :=
  {| i_clocks := map (fun '(present, ticking, tk, fr) =>
                        if present =? 0 then None else Some (negb (ticking =? 0), tk, f64_of_bits fr)) clocks;
     i_mods := []; i_dist := None |}.

Inductive scmd :=
| CVol (bits : Z) (tw : otw) | CRate (bits : Z) (tw : otw) | CPan (bits : Z) (tw : otw)
| CPause (tw : otw) | CResume (st : ostart) (tw : otw) | CStop (tw : otw).
Inductive scb := SCb (cmds : list scmd) (chunks : list (Z * list (Z * Z * Z * Z))).

Inductive kcmd :=
| TVol (bits : Z) (tw : otw) | TRoute (bits : Z) (tw : otw) | TSend (bits : Z) (tw : otw) | TMain (bits : Z) (tw : otw)
| TPause (tw : otw) | TResume (st : ostart) (tw : otw).
Inductive kcb := KCb (cmds : list kcmd) (chunks : list (Z * list (Z * Z * Z * Z))).

(** a value given to a parameter: fixed, or mapped from the listener distance *)
Inductive dval := DFix (bits : Z) | DDist (lo hi olo ohi ekind ep : Z).
Inductive dcmd := DVol (v : dval) (tw : otw) | DPrm (v : dval) (tw : otw).
(** one callback: commands, then the chunks as (length, listener distance as f32 bits, -2 = none) *)
Inductive dcb := DCb (cmds : list dcmd) (chunks : list (Z * Z)).

Inductive ocase :=
| CDst (sr : Z) (src vol0 prm0 : Z) (cbs : list dcb) (tab : list (Z * Z * Z))
| CSnd (streaming : Z) (sr : Z) (src vol0 rate0 pan0 : Z) (st : ostart) (cbs : list scb) (tab : list (Z * Z * Z))
| CTrk (sr : Z) (src vol0 route0 send0 main0 : Z) (cbs : list kcb) (tab : list (Z * Z * Z))
| CMod (c : C17.Run.case)
(** a sound played with a fade-in tween ([settings.fade_in_tween = Some fade]: start time and duration, zero
    included, are the tween's) *)
| CSndF (streaming : Z) (sr : Z) (src vol0 rate0 pan0 : Z) (st : ostart) (fade : otw) (cbs : list scb) (tab : list (Z * Z * Z))
(** a history of set / update on a bare [Parameter<ClockSpeed>]; values are coded [unit * 2^64 + bits] *)
| CPCS (init : C06.Run.rtarget) (default : Z) (ops : list C06.Run.rop) (tab : list (Z * Z * Z)).

(** [ClockSpeed] as one integer: unit (0 seconds per tick, 1 ticks per second, 2 ticks per minute) times 2^64 plus the
    bits of the number; a NaN in unit [u] is [-(u + 1)] *)
Definition cs_of_bits (z : Z) : cspeed f64 :=
  let u := if z <? 0 then - (z + 1) else z / 2 ^ 64 in
  let x := if z <? 0 then f64_of_bits (-1) else f64_of_bits (z mod 2 ^ 64) in
  if u =? 0 then SecondsPerTick x else if u =? 1 then TicksPerSecond x else TicksPerMinute x.
Definition cs_to_bits (s : cspeed f64) : Z :=
  let '(u, x) := match s with SecondsPerTick x => (0, x) | TicksPerSecond x => (1, x) | TicksPerMinute x => (2, x) end in
  let b := bits_of_f64 x in
  if b <? 0 then - (u + 1) else u * 2 ^ 64 + b.

(** [Tweenable for f32]: [a + (b - a) * amount as f32] *)
Definition olerp32 (a b : f32) (amount : f64) : f32 := add32 a (mul32 (sub32 b a) (f64_to_f32 amount)).
Definition opowf_none (x y : f64) : f64 := powf64_tab [] x y.

Section Run.
  Variable tab : list (Z * Z * Z).
  Definition oamp (db : f32) : f32 := db_as_amplitude (powf32_tab tab (Z32 10)) db.
  Definition osilence : f32 := Z32 (-60).
  Definition oidentity : f32 := Z32 0.

  (** what reaches the device from one sound on the main track (0 dB): [*summed_out += sound_out]
      (track/main.rs:54), [*frame *= volume] (:66), [clamp(-1.0, 1.0)] (backend/renderer.rs:108-109) *)
  (** the renderer's output stage: [if x.is_nan() { 0.0 } else { x.clamp(-1.0, 1.0) }] (agrees with the plain
      [clamp] on a bus without NaN) *)
  Definition finite_clamped (x : f32) : f32 := if isnan32 x then Z32 0 else clamp32 x (Z32 (-1)) (Z32 1).
  Definition to_device (x : f32) : f32 := finite_clamped (mul32 (add32 (Z32 0) x) (Z32 1)).

  Section Snd.
    Variable streaming : bool.
    Variable sr : Z.
    Variable s : f32.                           (* every frame of the source, both channels *)
    (** the four-frame window around the playhead: [ZERO, s, s, s] before the first pop *)
    Definition osource (pops : Z) (fpos : f64) : f32 * f32 :=
      let x := interp1 (if pops =? 0 then Z32 0 else s) s s s (f64_to_f32 fpos) in (x, x).
    Definition omix (x : f32 * f32) (fade_volume volume : f32) (panning : f32) : f32 * f32 :=
      panned (mul32 (mul32 (fst x) fade_volume) volume) (mul32 (mul32 (snd x) fade_volume) volume) panning.
    Definition orate_abs (r : f64) : f64 := if streaming then max64 r (Z64 0) else abs64 r.
    Definition oposition (pops : Z) (fpos : f64) : f64 :=
      if streaming then div64 (add64 (Z64 pops) fpos) (Z64 sr) else div64 (Z64 pops) (Z64 sr).

    Notation sstep := (dsound_step opowf_none f32 olerp32 osilence oidentity (f32 * f32) (Z32 0, Z32 0) f32 oamp
                         osource omix orate_abs oposition sr 4096).

    Definition mk_scmd (c : scmd) : sop f64 f32 :=
      match c with
      | CVol b tw => SVol (Fixed (f32_of_bits b)) (mk_otw tw)
      | CRate b tw => SRate (Fixed (f64_of_bits b)) (mk_otw tw)
      | CPan b tw => SPan (Fixed (f32_of_bits b)) (mk_otw tw)
      | CPause tw => SPause (mk_otw tw)
      | CResume st tw => SResume (mk_ostart st) (mk_otw tw)
      | CStop tw => SStop (mk_otw tw)
      end.
    (** [read_commands]: parameters first, then pause, resume, stop (sound.rs:160-181) *)
    Definition is_param_cmd (c : scmd) : bool := match c with CVol _ _ | CRate _ _ | CPan _ _ => true | _ => false end.
    Definition is_pause_cmd (c : scmd) : bool := match c with CPause _ => true | _ => false end.
    Definition is_resume_cmd (c : scmd) : bool := match c with CResume _ _ => true | _ => false end.
    Definition is_stop_cmd (c : scmd) : bool := match c with CStop _ => true | _ => false end.
    Definition ordered (cmds : list scmd) : list scmd :=
      filter is_param_cmd cmds ++ filter is_pause_cmd cmds ++ filter is_resume_cmd cmds ++ filter is_stop_cmd cmds.

    Fixpoint steps (x : dsound f64 f32) (ops : list (sop f64 f32)) : outcome (dsound f64 f32 * list Z) :=
      match ops with
      | [] => Ok (x, [])
      | op :: ops' =>
          let! (x1, l1) := sstep x op in
          let! (x2, o2) := steps x1 ops' in
          Ok (x2, flat_map (fun '(_, frames) =>
                              flat_map (fun '(l, r) => [bits_of_f32 (to_device l); bits_of_f32 (to_device r)]) frames) l1 ++ o2)
      end.
    Fixpoint go_snd (x : dsound f64 f32) (cbs : list scb) : list Z :=
      match cbs with
      | [] => []
      | SCb cmds chunks :: cbs' =>
          let ops := SPublish :: map mk_scmd (ordered cmds)
                     ++ map (fun '(len, clocks) => SProcess (Z.to_nat len) (div64 (Z64 1) (Z64 sr)) (mk_oinfo clocks)) chunks in
          match steps x ops with
          | Ok (x', outs) => d_mirror x' :: bits_of_f64 (d_shpos x') :: outs ++ go_snd x' cbs'
          | Panic k => [1000 + panic_code k]
          | Hang => [2000]
          end
      end.
    Definition snd_init (vol0 rate0 pan0 : Z) (st : ostart) : dsound f64 f32 :=
      dsound_new f32 osilence oidentity oposition (f32_of_bits vol0) (f64_of_bits rate0) (f32_of_bits pan0)
        (mk_ostart st) None.
    Definition snd_init_fade (vol0 rate0 pan0 : Z) (st : ostart) (fade : otw) : dsound f64 f32 :=
      dsound_new f32 osilence oidentity oposition (f32_of_bits vol0) (f64_of_bits rate0) (f32_of_bits pan0)
        (mk_ostart st) (Some (mk_otw fade)).
  End Snd.

  (** ** sub-track (a constant sound of amplitude [c] on it) -> send route -> send track -> main track *)
  Section Trk.
    Variable sr : Z.
    Variable c : f32.
    Definition kbody (_ : option unit) (len : nat) (_ : f64) (_ : info f64) : list f32 :=
      repeat (add32 (Z32 0) c) len.                                  (* [*summed_out += sound_out] (sub.rs:205) *)
    Notation kprocess := (dtrack_process opowf_none f32 olerp32 oidentity unit (fun a _ _ => a) unit (fun a _ _ => a)
                            f32 (Z32 0) f32 oamp mul32 mul32 kbody (fun _ _ _ _ a => a)).

    Record mixer := { mx_sub : dtrack f64 f32 unit unit; mx_send : param f64 f32; mx_main : param f64 f32 }.

    Fixpoint gain_loop (p : param f64 f32) (n k : nat) (frames : list f32) : list f32 :=
      match frames with
      | [] => []
      | a :: r =>
          let amount := div64 (Z64 (Z.of_nat k + 1)) (Z64 (Z.of_nat n)) in
          mul32 a (oamp (param_interpolated f32 olerp32 p amount)) :: gain_loop p n (S k) r
      end.

    (** [Mixer::process] for one chunk (backend/resources/mixer.rs:84-118) *)
    Definition mixer_chunk (m : mixer) (len : nat) (dt : f64) (i : info f64) : outcome (mixer * list Z) :=
      let dtl := chunk_time len dt in
      let! (sub, silent, sub_out, sends) := kprocess (mx_sub m) len dt i in
      (* out += sub-track output *)
      let out := map (fun x => add32 (Z32 0) x) sub_out in
      (* [add_input]: input += added * volume.as_amplitude() (send.rs:57-61); nothing is sent by a track that returned early *)
      let input := match sends with
                   | g :: _ => map (fun x => add32 (Z32 0) (mul32 x g)) sub_out
                   | [] => repeat (Z32 0) len
                   end in
      (* SendTrack::process (send.rs:70-86) *)
      let! (send, _) := param_update opowf_none f32 olerp32 (mx_send m) dtl i in
      let send_out := gain_loop send len O (map (fun x => add32 (Z32 0) x) input) in
      let out := map (fun '(a, b) => add32 a b) (combine out send_out) in
      (* MainTrack::process (main.rs:50-68) *)
      let! (main, _) := param_update opowf_none f32 olerp32 (mx_main m) dtl i in
      let out := gain_loop main len O out in
      Ok ({| mx_sub := sub; mx_send := send; mx_main := main |},
          map (fun x => bits_of_f32 (finite_clamped x)) out).

    Definition apply_kcmd (m : mixer) (cm : kcmd) : mixer :=
      let sub := mx_sub m in
      let with_sub s := {| mx_sub := s; mx_send := mx_send m; mx_main := mx_main m |} in
      match cm with
      | TVol b tw =>
          with_sub {| k_vol := param_set (k_vol sub) (Fixed (f32_of_bits b)) (mk_otw tw); k_routes := k_routes sub;
                      k_psm := k_psm sub; k_spatial := k_spatial sub; k_mirror := k_mirror sub |}
      | TRoute b tw =>
          with_sub {| k_vol := k_vol sub; k_routes := set_nth_param f32 (k_routes sub) 0 (Fixed (f32_of_bits b)) (mk_otw tw);
                      k_psm := k_psm sub; k_spatial := k_spatial sub; k_mirror := k_mirror sub |}
      | TSend b tw => {| mx_sub := sub; mx_send := param_set (mx_send m) (Fixed (f32_of_bits b)) (mk_otw tw); mx_main := mx_main m |}
      | TMain b tw => {| mx_sub := sub; mx_send := mx_send m; mx_main := param_set (mx_main m) (Fixed (f32_of_bits b)) (mk_otw tw) |}
      | TPause tw =>
          let p := psm_pause f32 osilence (k_psm sub) (mk_otw tw) in
          with_sub {| k_vol := k_vol sub; k_routes := k_routes sub; k_psm := p; k_spatial := k_spatial sub;
                      k_mirror := state_code (ps p) |}
      | TResume st tw =>
          let p := psm_resume f32 oidentity (k_psm sub) (mk_ostart st) (mk_otw tw) in
          with_sub {| k_vol := k_vol sub; k_routes := k_routes sub; k_psm := p; k_spatial := k_spatial sub;
                      k_mirror := state_code (ps p) |}
      end.
    (** [Track::read_commands]: volume, routes, (spatial,) pause, resume (sub.rs:257-276); the send
        and main tracks read theirs in their own [on_start_processing] *)
    Definition is_kparam (cm : kcmd) : bool := match cm with TPause _ | TResume _ _ => false | _ => true end.
    Definition is_kpause (cm : kcmd) : bool := match cm with TPause _ => true | _ => false end.
    Definition is_kresume (cm : kcmd) : bool := match cm with TResume _ _ => true | _ => false end.
    Definition kordered (cmds : list kcmd) : list kcmd :=
      filter is_kparam cmds ++ filter is_kpause cmds ++ filter is_kresume cmds.

    Fixpoint chunks_run (m : mixer) (chunks : list (Z * list (Z * Z * Z * Z))) : outcome (mixer * list Z) :=
      match chunks with
      | [] => Ok (m, [])
      | (len, clocks) :: r =>
          let! (m1, o1) := mixer_chunk m (Z.to_nat len) (div64 (Z64 1) (Z64 sr)) (mk_oinfo clocks) in
          let! (m2, o2) := chunks_run m1 r in
          Ok (m2, o1 ++ o2)
      end.
    Fixpoint go_trk (m : mixer) (cbs : list kcb) : list Z :=
      match cbs with
      | [] => []
      | KCb cmds chunks :: cbs' =>
          let m0 := fold_left apply_kcmd (kordered cmds) m in
          match chunks_run m0 chunks with
          | Ok (m', outs) => k_mirror (mx_sub m') :: outs ++ go_trk m' cbs'
          | Panic k => [1000 + panic_code k]
          | Hang => [2000]
          end
      end.
    Definition trk_init (vol0 route0 send0 main0 : Z) : mixer :=
      {| mx_sub := {| k_vol := param_new (Fixed (f32_of_bits vol0)) oidentity;
                      k_routes := [param_new (Fixed (f32_of_bits route0)) oidentity];
                      k_psm := psm_new f32 osilence oidentity None; k_spatial := None; k_mirror := 0 |};
         mx_send := param_new (Fixed (f32_of_bits send0)) oidentity;
         mx_main := param_new (Fixed (f32_of_bits main0)) oidentity |}.
  End Trk.
  (** ** a spatial sub-track (no attenuation, spatialization strength 0) on the main track: its volume
      and a [Parameter<f64>] held by a probe effect on it, both possibly mapped from the listener distance *)
  Section Dst.
    Variable sr : Z.
    Variable c : f32.
    Definition mk_dval32 (v : dval) : value f64 f32 :=
      match v with
      | DFix b => Fixed (f32_of_bits b)
      | DDist lo hi olo ohi ek ep =>
          FromDist {| vin_lo := f64_of_bits lo; vin_hi := f64_of_bits hi; vout_lo := f32_of_bits olo;
                      vout_hi := f32_of_bits ohi; v_easing := mk_easing ek ep |}
      end.
    Definition mk_dval64 (v : dval) : value f64 f64 :=
      match v with
      | DFix b => Fixed (f64_of_bits b)
      | DDist lo hi olo ohi ek ep =>
          FromDist {| vin_lo := f64_of_bits lo; vin_hi := f64_of_bits hi; vout_lo := f64_of_bits olo;
                      vout_hi := f64_of_bits ohi; v_easing := mk_easing ek ep |}
      end.
    Definition dinfo (d : Z) : info f64 :=
      {| i_clocks := []; i_mods := []; i_dist := if d <? 0 then None else Some (f32_to_f64 (f32_of_bits d)) |}.
    Definition dst_chunk (vp : param f64 f32 * param f64 f64) (len d : Z) : outcome (param f64 f32 * param f64 f64 * list Z) :=
      let dtl := chunk_time (Z.to_nat len) (div64 (Z64 1) (Z64 sr)) in
      let! (vol, _) := param_update opowf_none f32 olerp32 (fst vp) dtl (dinfo d) in
      let! (prm, _) := param_update opowf_none f64 (@lerp f64 Num_f64) (snd vp) dtl (dinfo d) in
      (* last frame of the chunk: time_in_chunk = len / len *)
      let amount := div64 (Z64 len) (Z64 len) in
      let volume := oamp (param_interpolated f32 olerp32 vol amount) in
      let fade_volume := oamp (olerp32 oidentity oidentity amount) in
      let x := mul32 (add32 (Z32 0) c) (mul32 volume fade_volume) in
      Ok (vol, prm, [bits_of_f64 (p_raw prm); bits_of_f32 (to_device x)]).
    Definition apply_dcmd (vp : param f64 f32 * param f64 f64) (cm : dcmd) : param f64 f32 * param f64 f64 :=
      match cm with
      | DVol v tw => (param_set (fst vp) (mk_dval32 v) (mk_otw tw), snd vp)
      | DPrm v tw => (fst vp, param_set (snd vp) (mk_dval64 v) (mk_otw tw))
      end.
    Fixpoint dst_chunks (vp : param f64 f32 * param f64 f64) (chunks : list (Z * Z)) : outcome (param f64 f32 * param f64 f64 * list Z) :=
      match chunks with
      | [] => Ok (fst vp, snd vp, [])
      | (len, d) :: r =>
          let! (v1, p1, o1) := dst_chunk vp len d in
          let! (v2, p2, o2) := dst_chunks (v1, p1) r in
          Ok (v2, p2, o1 ++ o2)
      end.
    Fixpoint go_dst (vp : param f64 f32 * param f64 f64) (cbs : list dcb) : list Z :=
      match cbs with
      | [] => []
      | DCb cmds chunks :: cbs' =>
          match dst_chunks (fold_left apply_dcmd cmds vp) chunks with
          | Ok (v, p, outs) => outs ++ go_dst (v, p) cbs'
          | Panic k => [1000 + panic_code k]
          | Hang => [2000]
          end
      end.
  End Dst.
End Run.

Definition orun (c : ocase) : list Z :=
  match c with
  | CDst sr src vol0 prm0 cbs tab =>
      go_dst tab sr (f32_of_bits src)
        (param_new (Fixed (f32_of_bits vol0)) (Z32 0), param_new (Fixed (f64_of_bits prm0)) (Z64 0)) cbs
  | CSnd streaming sr src vol0 rate0 pan0 st cbs tab =>
      let str := negb (streaming =? 0) in
      go_snd tab str sr (f32_of_bits src) (snd_init str sr vol0 rate0 pan0 st) cbs
  | CTrk sr src vol0 route0 send0 main0 cbs tab =>
      go_trk tab sr (f32_of_bits src) (trk_init vol0 route0 send0 main0) cbs
  | CMod c17 => C17.Run.run c17
  | CSndF streaming sr src vol0 rate0 pan0 st fade cbs tab =>
      let str := negb (streaming =? 0) in
      go_snd tab str sr (f32_of_bits src) (snd_init_fade str sr vol0 rate0 pan0 st fade) cbs
  | CPCS init d ops tab =>
      C06.Run.run_param (cspeed f64) (@cspeed_interpolate f64 Num_f64) cs_of_bits cs_to_bits tab init d ops
  end.

(** the case type of the C06 correspondence check: the bare-[Parameter] cases of C06/Run.v and the
    owner cases above *)
Inductive acase := ABase (c : C06.Run.case) | AOwn (c : ocase).
Definition arun (c : acase) : list Z :=
  match c with ABase c => C06.Run.run c | AOwn c => orun c end.
