(** C06 — the sub-track model of C12 (whole tree: sub-tracks, sounds, effects beneath the fader)
    ticks its volume parameter in every [process] call, advancing or not. *)
From Coq Require Import ZArith List Bool.
From KV Require Import Base.Outcome Base.Num C19.Model C06.Model C03.Model C12.Model C12.ProofsFrozen.
Import ListNotations.

Section C12Track.
  Context {T : Type} {NT : Num T} {ND : NumDur T}.
  Variable powf : T -> T -> T.
  Variable V : Type.
  Variable interp : V -> V -> T -> V.
  Variable identity : V.
  Variable A : Type.
  Variable azero : A.
  Variable aadd : A -> A -> A.
  Variable G : Type.
  Variable amp : V -> G.
  Variable gmul : G -> G -> G.
  Variable ascale : A -> G -> A.
  Variable Snd : Type.
  Variable snd_process : Snd -> nat -> T -> info T -> outcome (Snd * list A).
  Variable E : Type.
  Variable eff_process : E -> list A -> T -> info T -> E * list A.

  Lemma c12_track_volume_ticked_proof (t t' : track T V Snd E) len dt i out :
    process powf V interp identity A azero aadd G amp gmul ascale Snd snd_process E eff_process t len dt i = Ok (t', out) ->
    exists f, param_update powf V interp (t_vol t) (nmul dt (nofZ (Z.of_nat len))) i = Ok (t_vol t', f).
  Proof.
    rewrite process_unfold. unfold chunk_time.
    destruct (param_update powf V interp (t_vol t) (nmul dt (nofZ (Z.of_nat len))) i) as [[vol f]| |]; cbn [obind]; try discriminate.
    destruct (psm_update powf V interp identity (t_psm t) (nmul dt (nofZ (Z.of_nat len))) i) as [[m0 ch]| |]; cbn [obind]; try discriminate.
    match goal with |- context [if negb ?c then _ else _] => destruct c end; cbn [negb].
    - match goal with |- obind ?x _ = _ -> _ => destruct x as [[[[subs snds] fx] raw]| |] end; cbn [obind]; try discriminate.
      intro H. inversion H. subst. exists f. reflexivity.
    - intro H. inversion H. subst. exists f. reflexivity.
  Qed.
End C12Track.
