(** C06 — model side of the correspondence check: histories of [set] / [update] on a
    [Parameter<f64>] and a [Parameter<f32-valued>] (Decibels / Panning / Mix / f32). *)
From Coq Require Import ZArith List Bool.
From KV Require Import Base.IEEE Base.Outcome Base.Num Base.Corr C19.Model C19.Run C06.Model C06.Dur.
Import ListNotations.
Local Open Scope Z_scope.

Inductive rstart := SImm | SDel (ns : Z) | SClk (clock ticks fr : Z).
Inductive rtarget := TFixed (bits : Z) | TMod (id lo hi olo ohi ekind p : Z).
Inductive rop :=
| RSet (target : rtarget) (start : rstart) (dur_ns ekind p : Z)
| RUpd (dt : Z) (clocks : list (Z * Z * Z * Z)) (mods : list (Z * Z)) (amount : Z).
Inductive case :=
| CP64 (init : rtarget) (default : Z) (ops : list rop) (tab : list (Z * Z * Z))
| CP32 (init : rtarget) (default : Z) (ops : list rop) (tab : list (Z * Z * Z))
| CDur (secs : Z)            (* Duration::from_secs_f64 then as_secs_f64 *)
.

Definition mk_start (s : rstart) : stime f64 :=
  match s with
  | SImm => Immediate | SDel ns => Delayed ns
  | SClk c tk fr => ClockT (Z.to_nat c) tk (f64_of_bits fr)
  end.
Definition mk_info (clocks : list (Z * Z * Z * Z)) (mods : list (Z * Z)) : info f64 :=
  {| i_clocks := map (fun '(present, ticking, tk, fr) =>
                        if present =? 0 then None else Some (negb (ticking =? 0), tk, f64_of_bits fr)) clocks;
     i_mods := map (fun '(present, bits) => if present =? 0 then None else Some (f64_of_bits bits)) mods;
     i_dist := None |}.

Section Run.
  Variable V : Type.
  Variable interp : V -> V -> f64 -> V.
  Variable of_bits : Z -> V.
  Variable to_bits : V -> Z.
  Variable tab : list (Z * Z * Z).

  Definition mk_target (t : rtarget) : value f64 V :=
    match t with
    | TFixed b => Fixed (of_bits b)
    | TMod id lo hi olo ohi ek p =>
        FromMod (Z.to_nat id) {| vin_lo := f64_of_bits lo; vin_hi := f64_of_bits hi;
                                 vout_lo := of_bits olo; vout_hi := of_bits ohi; v_easing := mk_easing ek p |}
    end.
  Fixpoint go (p : param f64 V) (ops : list rop) : list Z :=
    match ops with
    | [] => []
    | RSet t s d ek pw :: ops' =>
        go (param_set p (mk_target t) {| tw_start := mk_start s; tw_dur := d; tw_easing := mk_easing ek pw |}) ops'
    | RUpd dt clocks mods amount :: ops' =>
        match param_update (powf64_tab tab) V interp p (f64_of_bits dt) (mk_info clocks mods) with
        | Ok (p', fin) =>
            (if fin then 1 else 0) :: to_bits (p_raw p') :: to_bits (p_prev p')
              :: to_bits (param_interpolated V interp p' (f64_of_bits amount)) :: go p' ops'
        | Panic k => [1000 + panic_code k]
        | Hang => [2000]
        end
    end.
  Definition run_param (init : rtarget) (default : Z) (ops : list rop) : list Z :=
    go (param_new (mk_target init) (of_bits default)) ops.
End Run.

(** [Tweenable for f32]: [a + (b - a) * amount as f32] *)
Definition lerp32 (a b : f32) (amount : f64) : f32 := add32 a (mul32 (sub32 b a) (f64_to_f32 amount)).

Definition run (c : case) : list Z :=
  match c with
  | CP64 init d ops tab => run_param f64 (@lerp f64 Num_f64) f64_of_bits bits_of_f64 tab init d ops
  | CP32 init d ops tab => run_param f32 lerp32 f32_of_bits bits_of_f32 tab init d ops
  | CDur secs =>
      match secs_to_ns_f64 (f64_of_bits secs) with
      | Ok ns => [0; ns; bits_of_f64 (ns_to_secs_f64 ns)]
      | Panic k => [1; panic_code k]
      | Hang => [2]
      end
  end.
