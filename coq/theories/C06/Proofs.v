(** C06 — the tween law for the exact (rational) instance of the model. *)
From Coq Require Import ZArith QArith Qround Lia Lqa Bool List.
From KV Require Import Base.Outcome Base.Num Base.QLemmas C19.Model C06.Model C06.Dur.
Import ListNotations.
Local Open Scope Q_scope.

Section Law.
  Variable powf : Q -> Q -> Q.

  Notation paramQ := (param Q Q).
  Notation lerpQ := (@lerp Q Num_Q).
  Definition upd (p : paramQ) (dt : Q) (i : info Q) := param_update powf Q lerpQ p dt i.
  Definition run (p : paramQ) (ops : list (pop Q Q)) := param_run powf Q lerpQ p ops.
  Definition updates (l : list (Q * info Q)) : list (pop Q Q) := map (fun '(dt, i) => OUpdate dt i) l.

  (** whether a tween with this start time counts the update made with this [info] *)
  Definition counts (st : stime Q) (i : info Q) : bool :=
    match st with
    | Immediate => true
    | Delayed ns => (ns =? 0)%Z
    | ClockT c tk fr => match when_to_start i c tk fr with Now => true | _ => false end
    end.
  (** elapsed tween time: the sum (in the model's own arithmetic) of the [dt] of the updates that count *)
  Fixpoint elapsed (st : stime Q) (acc : Q) (l : list (Q * info Q)) : Q :=
    match l with
    | [] => acc
    | (dt, i) :: l' => elapsed st (if counts st i then nadd acc dt else acc) l'
    end.
  (** the tween is complete after some prefix of the updates *)
  Fixpoint completes (st : stime Q) (D : Q) (acc : Q) (l : list (Q * info Q)) : bool :=
    match l with
    | [] => false
    | (dt, i) :: l' =>
        if counts st i then
          let acc' := nadd acc dt in
          if Qle_bool D acc' then true else completes st D acc' l'
        else completes st D acc l'
    end.
  Definition any_counts (st : stime Q) (l : list (Q * info Q)) : bool :=
    existsb (fun '(_, i) => counts st i) l.

  Definition not_delayed (st : stime Q) : Prop := match st with Delayed ns => ns = 0%Z | _ => True end.

  Definition the_law (v0 tg : Q) (e : easing Q) (D t : Q) : Q := lerpQ v0 tg (ease powf e (ndiv t D)).

  (** state of a parameter in the middle of a fixed-target tween *)
  Definition mid (p : paramQ) (v0 tg : Q) (t : Q) (tw : tween Q) : Prop :=
    p_state p = Tweening v0 (Fixed tg) t tw /\ p_stagnant p = false.

  Lemma upd_mid_counts p v0 tg t tw dt i :
    mid p v0 tg t tw -> not_delayed (tw_start tw) -> (tw_dur tw <> 0)%Z -> counts (tw_start tw) i = true ->
    let t' := nadd t dt in
    let D := ns_to_secs_Q (tw_dur tw) in
    upd p dt i =
      if Qle_bool D t'
      then Ok ({| p_state := Idle (Fixed tg); p_raw := tg; p_prev := p_raw p; p_stagnant := true |}, true)
      else Ok ({| p_state := Tweening v0 (Fixed tg) t' tw;
                  p_raw := the_law v0 tg (tw_easing tw) D t'; p_prev := p_raw p; p_stagnant := false |}, false).
  Proof.
    intros [Hs Hg] Hnd Hdur Hc t' D. unfold upd, param_update. rewrite Hg, Hs. cbn [update_tween].
    assert (Hstart : match tw_start tw with
                     | Immediate => Ok (true, tw)
                     | Delayed rem => if (rem =? 0)%Z then Ok (true, tw)
                                      else obind (secs_to_ns dt) (fun d => Ok (false, {| tw_start := Delayed (sat_sub rem d); tw_dur := tw_dur tw; tw_easing := tw_easing tw |}))
                     | ClockT c tk fr => Ok (match when_to_start i c tk fr with Now => true | _ => false end, tw)
                     end = Ok (true, tw)).
    { destruct (tw_start tw) as [|ns|c tk fr]; cbn in *; [reflexivity| |].
      - subst ns. reflexivity.
      - rewrite Hc. reflexivity. }
    rewrite Hstart. cbn [obind negb]. fold t'.
    change (nleb (ns_to_secs (tw_dur tw)) t') with (Qle_bool D t').
    destruct (Qle_bool D t'); cbn [obind new_raw raw_of].
    - reflexivity.
    - destruct (Z.eqb_spec (tw_dur tw) 0) as [E|E]; [contradiction|]. cbn [option_map]. reflexivity.
  Qed.

  Lemma upd_mid_skips p v0 tg t tw dt i :
    mid p v0 tg t tw -> not_delayed (tw_start tw) -> (tw_dur tw <> 0)%Z -> counts (tw_start tw) i = false ->
    upd p dt i =
      Ok ({| p_state := Tweening v0 (Fixed tg) t tw;
             p_raw := the_law v0 tg (tw_easing tw) (ns_to_secs_Q (tw_dur tw)) t; p_prev := p_raw p;
             p_stagnant := false |}, false).
  Proof.
    intros [Hs Hg] Hnd Hdur Hc. unfold upd, param_update. rewrite Hg, Hs. cbn [update_tween].
    destruct (tw_start tw) as [|ns|c tk fr] eqn:Est; cbn in Hc, Hnd.
    - discriminate.
    - subst ns. discriminate.
    - rewrite Hc. cbn [obind negb new_raw raw_of].
      destruct (Z.eqb_spec (tw_dur tw) 0) as [E|E]; [contradiction|]. cbn [option_map]. reflexivity.
  Qed.

  (** once idle on a fixed value the parameter is that value, forever, whatever the updates *)
  Lemma idle_fixed_forever (p : paramQ) tg l :
    p_state p = Idle (Fixed tg) -> p_raw p = tg ->
    exists p', run p (updates l) = Ok p' /\ p_state p' = Idle (Fixed tg) /\ p_raw p' = tg.
  Proof.
    revert p. induction l as [|[dt i] l IH]; intros p Hs Hr.
    - exists p. repeat split; assumption.
    - cbn [updates map run param_run param_step]. unfold param_update.
      destruct (p_stagnant p) eqn:Sg; cbn [obind].
      + apply IH; cbn [p_state p_raw]; [exact Hs|exact Hr].
      + rewrite Hs. cbn [update_tween obind new_raw raw_of]. apply IH; cbn [p_state p_raw]; reflexivity.
  Qed.

  (** ** the law, for every partition of time into updates (Immediate and clock start times) *)
  Lemma law_run (l : list (Q * info Q)) : forall (p : paramQ) v0 tg t tw,
    mid p v0 tg t tw -> not_delayed (tw_start tw) -> (tw_dur tw <> 0)%Z ->
    let D := ns_to_secs_Q (tw_dur tw) in
    exists p', run p (updates l) = Ok p' /\
      if completes (tw_start tw) D t l
      then p_state p' = Idle (Fixed tg) /\ p_raw p' = tg
      else mid p' v0 tg (elapsed (tw_start tw) t l) tw /\
           (l <> [] -> p_raw p' = the_law v0 tg (tw_easing tw) D (elapsed (tw_start tw) t l)).
  Proof.
    induction l as [|[dt i] l IH]; intros p v0 tg t tw Hm Hnd Hdur D.
    - exists p. split; [reflexivity|]. cbn. split; [assumption|]. intro H; contradiction.
    - cbn [updates map run param_run param_step completes elapsed].
      destruct (counts (tw_start tw) i) eqn:Hc.
      + pose proof (upd_mid_counts p v0 tg t tw dt i Hm Hnd Hdur Hc) as U. cbn zeta in U.
        unfold upd in U. rewrite U. fold D.
        destruct (Qle_bool D (nadd t dt)) eqn:Hle; cbn [obind].
        * destruct (idle_fixed_forever {| p_state := Idle (Fixed tg); p_raw := tg; p_prev := p_raw p; p_stagnant := true |} tg l)
            as [p' [R [S1 S2]]]; [reflexivity|reflexivity|].
          exists p'. split; [exact R|]. split; assumption.
        * set (p1 := {| p_state := Tweening v0 (Fixed tg) (nadd t dt) tw; p_raw := _; p_prev := _; p_stagnant := false |}).
          destruct (IH p1 v0 tg (nadd t dt) tw) as [p' [R C]]; [split; reflexivity|assumption|assumption|].
          exists p'. split; [exact R|]. fold D in C.
          destruct (completes (tw_start tw) D (nadd t dt) l); [exact C|].
          destruct C as [C1 C2]. split; [exact C1|]. intros _.
          destruct l as [|x l']; [|apply C2; discriminate].
          cbn in R. inversion R. subst p'. reflexivity.
      + pose proof (upd_mid_skips p v0 tg t tw dt i Hm Hnd Hdur Hc) as U. unfold upd in U. rewrite U.
        cbn [obind]. fold D.
        set (p1 := {| p_state := Tweening v0 (Fixed tg) t tw; p_raw := _; p_prev := _; p_stagnant := false |}).
        destruct (IH p1 v0 tg t tw) as [p' [R C]]; [split; reflexivity|assumption|assumption|].
        exists p'. split; [exact R|]. fold D in C.
        destruct (completes (tw_start tw) D t l); [exact C|].
        destruct C as [C1 C2]. split; [exact C1|]. intros _.
        destruct l as [|x l']; [|apply C2; discriminate].
        cbn in R. inversion R. subst p'. reflexivity.
  Qed.
End Law.
