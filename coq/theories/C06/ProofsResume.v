(** C06 — the tweens of pause / resume / stop reach the fade volume as they are, start time included, and the
    start time of such a tween is counted by the fade parameter ALONE:

    - [pause tw], [stop tw] and [resume Immediate tw] (what the handle's [resume(tween)] sends) change the owner's state
      at once and tell the fade parameter to move with that very tween -- elapsed time 0, the tween's own start time
      untouched -- from its current, possibly mid-tween, value;
    - [resume st tw] with a start time [st] that is not immediate does not touch the fade parameter; at the update at
      which [st] has come the parameter is told to move with [tw] as it was given;
    - so after [resume Immediate tw] with a tween whose start is pending the owner is Resuming (not waiting) and the
      fade volume keeps its value, the tween's delay counted down by this one update (zero duration: exactly). *)
From Coq Require Import ZArith QArith Lia Bool List.
From KV Require Import Base.Outcome Base.Num C19.Model C06.Model C06.Dur C06.Proofs C06.Proofs2 C05.ProofsSpeed C06.ProofsTypes C03.Model.
Import ListNotations.
Local Open Scope Q_scope.

Section Resume.
  Variable powf : Q -> Q -> Q.
  Variable V : Type.
  Variable interp : V -> V -> Q -> V.
  Variables silence identity : V.

  Definition told_to_move (f f' : param Q V) (tg : V) (tw : tween Q) : Prop :=
    p_state f' = Tweening (p_raw f) (Fixed tg) 0 tw /\ p_raw f' = p_raw f /\ p_prev f' = p_prev f /\
    p_stagnant f' = false.

  Lemma resume_now_reaches_parameter (m : psm Q V) (tw : tween Q) :
    is_stopped (ps m) = false ->
    let m' := psm_resume V identity m Immediate tw in
    ps m' = Resuming /\ told_to_move (fade m) (fade m') identity tw.
  Proof.
    intros Hs. unfold psm_resume. rewrite Hs. cbn [ps fade]. unfold told_to_move, param_set.
    cbn [p_state p_raw p_prev p_stagnant]. repeat split.
  Qed.

  Lemma pause_reaches_parameter (m : psm Q V) (tw : tween Q) :
    is_stopped (ps m) = false ->
    let m' := psm_pause V silence m tw in
    ps m' = Pausing /\ told_to_move (fade m) (fade m') silence tw.
  Proof.
    intros Hs. unfold psm_pause. rewrite Hs. cbn [ps fade]. unfold told_to_move, param_set.
    cbn [p_state p_raw p_prev p_stagnant]. repeat split.
  Qed.

  Lemma stop_reaches_parameter (m : psm Q V) (tw : tween Q) :
    is_stopped (ps m) = false ->
    let m' := psm_stop V silence m tw in
    ps m' = Stopping /\ told_to_move (fade m) (fade m') silence tw.
  Proof.
    intros Hs. unfold psm_stop. rewrite Hs. cbn [ps fade]. unfold told_to_move, param_set.
    cbn [p_state p_raw p_prev p_stagnant]. repeat split.
  Qed.

  (** a resume with a start time of its own leaves the fade parameter alone ... *)
  Lemma resume_later_leaves_parameter (m : psm Q V) (st : stime Q) (tw : tween Q) :
    is_stopped (ps m) = false -> is_immediate st = false ->
    psm_resume V identity m st tw = {| ps := WaitingToResume st tw; fade := fade m |}.
  Proof.
    intros Hs Hi. unfold psm_resume. rewrite Hs. destruct st; [discriminate| |]; reflexivity.
  Qed.

  (** ... and at the update at which that start time has come, the parameter (ticked by this update like at every
      other) is told to move with the tween as it was given *)
  Lemma waiting_due_reaches_parameter (m : psm Q V) (st : stime Q) (tw : tween Q) (dt : Q) (i : info Q)
        (f : param Q V) (fin : bool) :
    ps m = WaitingToResume st tw ->
    param_update powf V interp (fade m) dt i = Ok (f, fin) ->
    stime_update st dt i = Ok (Immediate, false) ->
    exists m', psm_update powf V interp identity m dt i = Ok (m', true) /\
      ps m' = Resuming /\ told_to_move f (fade m') identity tw.
  Proof.
    intros Hp Hu Hst. unfold psm_update. rewrite Hu. cbn [obind]. rewrite Hp, Hst. cbn [obind is_immediate].
    unfold psm_resume. cbn [ps is_stopped fade]. eexists. split; [reflexivity|]. cbn [ps fade].
    unfold told_to_move, param_set. cbn [p_state p_raw p_prev p_stagnant]. repeat split.
  Qed.

  (** resumed NOW with a zero-duration tween whose own start is pending: the owner is Resuming and stays so, the fade
      volume keeps its value exactly, and the tween's delay has been counted down by this update -- once *)
  Lemma resume_now_pending_holds (m : psm Q V) (tw : tween Q) (dt : Q) (i : info Q) (d : Z) :
    is_stopped (ps m) = false -> tw_dur tw = 0%Z -> pending (tw_start tw) i -> secs_to_ns_Q dt = Ok d ->
    exists m', psm_update powf V interp identity (psm_resume V identity m Immediate tw) dt i = Ok (m', false) /\
      ps m' = Resuming /\ p_raw (fade m') = p_raw (fade m) /\
      p_state (fade m') = Tweening (p_raw (fade m)) (Fixed identity) 0
                            {| tw_start := match tw_start tw with Delayed rem => Delayed (sat_sub rem d) | s => s end;
                               tw_dur := 0; tw_easing := tw_easing tw |}.
  Proof.
    intros Hs Hd Hp Hdt.
    destruct (resume_now_reaches_parameter m tw Hs) as [R [F1 [F2 [F3 F4]]]].
    destruct (zero_duration_pending powf V interp (fade (psm_resume V identity m Immediate tw)) (p_raw (fade m)) identity
                tw dt i d F1 F4 Hd Hp Hdt) as [p' [U [R1 [R2 [R3 R4]]]]].
    unfold updV in U. unfold psm_update. rewrite U. cbn [obind]. rewrite R.
    eexists. split; [reflexivity|]. cbn [ps fade]. rewrite R1, F2. repeat split. exact R4.
  Qed.
End Resume.

(** the hypotheses are satisfiable: a paused owner (fade at rest on silence), a zero-duration tween that starts a
    tenth of a second from now, an update of 1/64 s *)
Example resume_example :
  let m : psm Q Q := {| ps := Paused; fade := param_new (Fixed (-60)) (-60) |} in
  let tw : tween Q := {| tw_start := Delayed 100000000; tw_dur := 0; tw_easing := Linear |} in
  is_stopped (ps m) = false /\ tw_dur tw = 0%Z /\ pending (tw_start tw) (@no_info Q) /\
  secs_to_ns_Q (1 # 64) = Ok 15625000%Z.
Proof. cbn. repeat split; discriminate. Qed.
