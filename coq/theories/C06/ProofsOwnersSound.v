(** C06 — the concrete owners follow the discipline: sound (volume, playback rate, panning in
    every playback state and while the start time is pending), sub-track (volume and send-route
    volumes in every state; spatial position / strength only while advancing), the C12 track. *)
From Coq Require Import ZArith QArith Qround Lia Lqa Bool List.
From KV Require Import Base.Outcome Base.Num Base.QLemmas C19.Model C19.ProofsEasing
  C06.Model C06.Dur C06.Proofs C06.Proofs2 C06.ModelOwners C06.ProofsOwners C03.Model C06.OwnersSound.
Import ListNotations.

(** ** per-operation discipline => whole histories *)
Section Discipline.
  Context {T : Type} {NT : Num T} {ND : NumDur T}.
  Variable powf : T -> T -> T.
  Variable V : Type.
  Variable interp : V -> V -> T -> V.

  Lemma param_run_app (l1 l2 : list (pop T V)) : forall p,
    param_run powf V interp p (l1 ++ l2) =
    (let! p1 := param_run powf V interp p l1 in param_run powf V interp p1 l2).
  Proof.
    induction l1 as [|o l1 IH]; intro p; [reflexivity|].
    cbn [app param_run].
    destruct (param_step powf V interp p o) as [[p' f]| |]; cbn [obind]; [apply IH|reflexivity|reflexivity].
  Qed.

  Variables X Op R : Type.
  Variable get : X -> param T V.
  Variable step : X -> Op -> outcome (X * list R).
  Variable view : Op -> list (pop T V).
  Fixpoint lrun (x : X) (h : list Op) : outcome (X * list R) :=
    match h with
    | [] => Ok (x, [])
    | op :: h' => let! (x1, l1) := step x op in let! (x2, l2) := lrun x1 h' in Ok (x2, l1 ++ l2)
    end.
  Hypothesis disciplined : forall x op x' l,
    step x op = Ok (x', l) -> param_run powf V interp (get x) (view op) = Ok (get x').

  Lemma discipline_projection (h : list Op) : forall x x' l,
    lrun x h = Ok (x', l) -> param_run powf V interp (get x) (flat_map view h) = Ok (get x').
  Proof.
    induction h as [|op h IH]; intros x x' l H.
    - cbn in H. inversion H. reflexivity.
    - cbn [lrun] in H.
      destruct (step x op) as [[x1 l1]| |] eqn:E1; cbn [obind] in H; try discriminate.
      destruct (lrun x1 h) as [[x2 l2]| |] eqn:E2; cbn [obind] in H; try discriminate.
      inversion H. subst x' l. cbn [flat_map]. rewrite param_run_app.
      rewrite (disciplined x op x1 l1 E1). cbn [obind]. exact (IH x1 x2 l2 E2).
  Qed.
End Discipline.

(** ** the sound *)
Section SoundAny.
  Context {T : Type} {NT : Num T} {ND : NumDur T}.
  Variable powf : T -> T -> T.
  Variable V : Type.
  Variable interp : V -> V -> T -> V.
  Variables silence identity : V.
  Variable A : Type.
  Variable azero : A.
  Variable G : Type.
  Variable amp : V -> G.
  Variable source : Z -> T -> A.
  Variable mix : A -> G -> G -> V -> A.
  Variable rate_abs : T -> T.
  Variable position_of : Z -> T -> T.
  Variable sr : Z.
  Variable fuel : nat.

  Notation sprocess := (dsound_process powf V interp identity A azero G amp source mix rate_abs sr fuel).
  Notation sstep := (dsound_step powf V interp silence identity A azero G amp source mix rate_abs position_of sr fuel).
  Notation srun := (dsound_run powf V interp silence identity A azero G amp source mix rate_abs position_of sr fuel).

  (** one [process] call updates the three parameters with [dt * len] -- in every playback state,
      started or not *)
  Lemma sound_process_params (s s' : dsound T V) len dt i silent out :
    sprocess s len dt i = Ok (s', silent, out) ->
    (exists f, param_update powf V interp (d_vol s) (chunk_time len dt) i = Ok (d_vol s', f)) /\
    (exists f, param_update powf T lerp (d_rate s) (chunk_time len dt) i = Ok (d_rate s', f)) /\
    (exists f, param_update powf V interp (d_pan s) (chunk_time len dt) i = Ok (d_pan s', f)).
  Proof.
    unfold dsound_process.
    destruct (param_update powf V interp (d_vol s) (chunk_time len dt) i) as [[vol f1]| |]; cbn [obind]; try discriminate.
    destruct (param_update powf T lerp (d_rate s) (chunk_time len dt) i) as [[rate f2]| |]; cbn [obind]; try discriminate.
    destruct (param_update powf V interp (d_pan s) (chunk_time len dt) i) as [[pan f3]| |]; cbn [obind]; try discriminate.
    destruct (psm_update powf V interp identity (d_psm s) (chunk_time len dt) i) as [[m ch]| |]; cbn [obind]; try discriminate.
    destruct (stime_update (d_start s) (chunk_time len dt) i) as [[st nv]| |]; cbn [obind]; try discriminate.
    match goal with |- context [if ?c then _ else _] => destruct c end.
    - intro H. inversion H. subst. cbn [d_vol d_rate d_pan]. repeat split; eexists; reflexivity.
    - match goal with |- obind ?x _ = _ -> _ => destruct x as [[[pp ff] oo]| |] end; cbn [obind]; try discriminate.
      intro H. inversion H. subst. cbn [d_vol d_rate d_pan]. repeat split; eexists; reflexivity.
  Qed.

  Lemma srun_is_lrun (h : list (sop T V)) : forall s, srun s h = lrun _ _ _ sstep s h.
  Proof. induction h as [|op h IH]; intro s; [reflexivity|]. cbn [dsound_run lrun]. destruct (sstep s op) as [[s1 l1]| |]; cbn [obind]; [rewrite IH|..]; reflexivity. Qed.

  Lemma sound_vol_disciplined s op s' l :
    sstep s op = Ok (s', l) -> param_run powf V interp (d_vol s) (vol_view op) = Ok (d_vol s').
  Proof.
    destruct op; cbn [dsound_step vol_view]; try (intro H; inversion H; subst; reflexivity).
    destruct (sprocess s len dt i) as [[[s1 sil] out]| |] eqn:EP; cbn [obind]; try discriminate.
    intro H. inversion H. subst.
    destruct (sound_process_params _ _ _ _ _ _ _ EP) as [[f U] _].
    cbn [param_run param_step]. rewrite U. reflexivity.
  Qed.
  Lemma sound_rate_disciplined s op s' l :
    sstep s op = Ok (s', l) -> param_run powf T lerp (d_rate s) (rate_view op) = Ok (d_rate s').
  Proof.
    destruct op; cbn [dsound_step rate_view]; try (intro H; inversion H; subst; reflexivity).
    destruct (sprocess s len dt i) as [[[s1 sil] out]| |] eqn:EP; cbn [obind]; try discriminate.
    intro H. inversion H. subst.
    destruct (sound_process_params _ _ _ _ _ _ _ EP) as [_ [[f U] _]].
    cbn [param_run param_step]. rewrite U. reflexivity.
  Qed.
  Lemma sound_pan_disciplined s op s' l :
    sstep s op = Ok (s', l) -> param_run powf V interp (d_pan s) (pan_view op) = Ok (d_pan s').
  Proof.
    destruct op; cbn [dsound_step pan_view]; try (intro H; inversion H; subst; reflexivity).
    destruct (sprocess s len dt i) as [[[s1 sil] out]| |] eqn:EP; cbn [obind]; try discriminate.
    intro H. inversion H. subst.
    destruct (sound_process_params _ _ _ _ _ _ _ EP) as [_ [_ [f U]]].
    cbn [param_run param_step]. rewrite U. reflexivity.
  Qed.

  (** Every history of commands (set_volume / set_playback_rate / set_panning, pause, resume,
      resume_at, stop) and [process] calls of arbitrary lengths is, to each of the three
      parameters, its own commands plus one update of [dt * len] per call. *)
  Lemma sound_params_follow_history_proof (s s' : dsound T V) (h : list (sop T V)) l :
    srun s h = Ok (s', l) ->
    param_run powf V interp (d_vol s) (flat_map vol_view h) = Ok (d_vol s') /\
    param_run powf T lerp (d_rate s) (flat_map rate_view h) = Ok (d_rate s') /\
    param_run powf V interp (d_pan s) (flat_map pan_view h) = Ok (d_pan s').
  Proof.
    rewrite srun_is_lrun. intro H. repeat split.
    - exact (discipline_projection powf V interp _ _ _ d_vol sstep vol_view sound_vol_disciplined h s s' l H).
    - exact (discipline_projection powf T lerp _ _ _ d_rate sstep rate_view sound_rate_disciplined h s s' l H).
    - exact (discipline_projection powf V interp _ _ _ d_pan sstep pan_view sound_pan_disciplined h s s' l H).
  Qed.

  Lemma vol_view_calls (h : list (sop T V)) :
    forallb (fun op => negb (is_svol op)) h = true ->
    flat_map vol_view h = map (fun '(dt, i) => OUpdate dt i) (scalls h).
  Proof.
    induction h as [|op h IH]; intro H; [reflexivity|].
    cbn [forallb] in H. apply andb_prop in H. destruct H as [H1 H2].
    unfold scalls in *. cbn [flat_map]. rewrite map_app, <- (IH H2).
    destruct op; cbn [vol_view is_svol negb map app] in *; try discriminate; reflexivity.
  Qed.
  Lemma rate_view_calls (h : list (sop T V)) :
    forallb (fun op => negb (is_srate op)) h = true ->
    flat_map rate_view h = map (fun '(dt, i) => OUpdate dt i) (scalls h).
  Proof.
    induction h as [|op h IH]; intro H; [reflexivity|].
    cbn [forallb] in H. apply andb_prop in H. destruct H as [H1 H2].
    unfold scalls in *. cbn [flat_map]. rewrite map_app, <- (IH H2).
    destruct op; cbn [rate_view is_srate negb map app] in *; try discriminate; reflexivity.
  Qed.
  Lemma pan_view_calls (h : list (sop T V)) :
    forallb (fun op => negb (is_span op)) h = true ->
    flat_map pan_view h = map (fun '(dt, i) => OUpdate dt i) (scalls h).
  Proof.
    induction h as [|op h IH]; intro H; [reflexivity|].
    cbn [forallb] in H. apply andb_prop in H. destruct H as [H1 H2].
    unfold scalls in *. cbn [flat_map]. rewrite map_app, <- (IH H2).
    destruct op; cbn [pan_view is_span negb map app] in *; try discriminate; reflexivity.
  Qed.
End SoundAny.

(** ** the tween law of a sound's parameters (exact arithmetic) *)
Section SoundLaw.
  Variable powf : Q -> Q -> Q.
  Variables silence identity : Q.
  Variable A : Type.
  Variable azero : A.
  Variable G : Type.
  Variable amp : Q -> G.
  Variable source : Z -> Q -> A.
  Variable mix : A -> G -> G -> Q -> A.
  Variable rate_abs : Q -> Q.
  Variable position_of : Z -> Q -> Q.
  Variable sr : Z.
  Variable fuel : nat.
  Notation lerpQ := (@lerp Q Num_Q).
  Notation srun := (dsound_run powf Q lerpQ silence identity A azero G amp source mix rate_abs position_of sr fuel).

  Definition law_after (p p' : param Q Q) tg tw (u : list (Q * info Q)) : Prop :=
    let D := ns_to_secs_Q (tw_dur tw) in
    if completes (tw_start tw) D 0 u
    then p_state p' = Idle (Fixed tg) /\ p_raw p' = tg
    else p_raw p' = the_law powf (p_raw p) tg (tw_easing tw) D (elapsed (tw_start tw) 0 u).

  Lemma law_from_view (p p' : param Q Q) tg tw (u : list (Q * info Q)) :
    not_delayed (tw_start tw) -> (tw_dur tw <> 0)%Z -> u <> [] ->
    param_run powf Q lerpQ p (OSet (Fixed tg) tw :: map (fun '(dt, i) => OUpdate dt i) u) = Ok p' ->
    law_after p p' tg tw u.
  Proof.
    intros Hnd Hdur Hu P. cbn [param_run param_step obind] in P.
    destruct (tween_law_from_set powf p tg tw u Hnd Hdur Hu) as [p1 [R C]].
    unfold run, updates in R. rewrite R in P. inversion P. subst p1. exact C.
  Qed.

  (** A sound's volume, told to move while the sound is Playing, Pausing, Paused,
      WaitingToResume, Resuming, Stopping or has not reached its own start time, follows the
      tween law of the time processed since: the states do not occur in the statement. *)
  Lemma sound_volume_tween_law_proof (s s' : dsound Q Q) tg tw (h : list (sop Q Q)) l :
    forallb (fun op => negb (is_svol op)) h = true ->
    not_delayed (tw_start tw) -> (tw_dur tw <> 0)%Z -> scalls h <> [] ->
    srun s (SVol (Fixed tg) tw :: h) = Ok (s', l) ->
    law_after (d_vol s) (d_vol s') tg tw (scalls h).
  Proof.
    intros Hn Hnd Hdur Hc R.
    destruct (sound_params_follow_history_proof _ _ _ _ _ _ _ _ _ _ _ _ _ _ _ _ _ _ _ R) as [P _].
    cbn [flat_map vol_view app] in P. rewrite (vol_view_calls Q h Hn) in P.
    exact (law_from_view _ _ _ _ _ Hnd Hdur Hc P).
  Qed.
  Lemma sound_rate_tween_law_proof (s s' : dsound Q Q) tg tw (h : list (sop Q Q)) l :
    forallb (fun op => negb (is_srate op)) h = true ->
    not_delayed (tw_start tw) -> (tw_dur tw <> 0)%Z -> scalls h <> [] ->
    srun s (SRate (Fixed tg) tw :: h) = Ok (s', l) ->
    law_after (d_rate s) (d_rate s') tg tw (scalls h).
  Proof.
    intros Hn Hnd Hdur Hc R.
    destruct (sound_params_follow_history_proof _ _ _ _ _ _ _ _ _ _ _ _ _ _ _ _ _ _ _ R) as [_ [P _]].
    cbn [flat_map rate_view app] in P. rewrite (rate_view_calls Q h Hn) in P.
    exact (law_from_view _ _ _ _ _ Hnd Hdur Hc P).
  Qed.
  Lemma sound_panning_tween_law_proof (s s' : dsound Q Q) tg tw (h : list (sop Q Q)) l :
    forallb (fun op => negb (is_span op)) h = true ->
    not_delayed (tw_start tw) -> (tw_dur tw <> 0)%Z -> scalls h <> [] ->
    srun s (SPan (Fixed tg) tw :: h) = Ok (s', l) ->
    law_after (d_pan s) (d_pan s') tg tw (scalls h).
  Proof.
    intros Hn Hnd Hdur Hc R.
    destruct (sound_params_follow_history_proof _ _ _ _ _ _ _ _ _ _ _ _ _ _ _ _ _ _ _ R) as [_ [_ P]].
    cbn [flat_map pan_view app] in P. rewrite (pan_view_calls Q h Hn) in P.
    exact (law_from_view _ _ _ _ _ Hnd Hdur Hc P).
  Qed.

  (** two histories of the same sound -- one may play while the other is paused, waits to resume
      or has not started; the chunk lengths may differ -- leave the volume at the same value
      whenever the same time was processed *)
  Lemma sound_volume_state_independent_proof (s1 s2 s1' s2' : dsound Q Q) tg tw (h1 h2 : list (sop Q Q)) l1 l2 :
    d_vol s1 = d_vol s2 ->
    forallb (fun op => negb (is_svol op)) h1 = true -> forallb (fun op => negb (is_svol op)) h2 = true ->
    not_delayed (tw_start tw) -> (tw_dur tw <> 0)%Z -> scalls h1 <> [] -> scalls h2 <> [] ->
    let D := ns_to_secs_Q (tw_dur tw) in
    completes (tw_start tw) D 0 (scalls h1) = false -> completes (tw_start tw) D 0 (scalls h2) = false ->
    plain_sum (tw_start tw) (scalls h1) == plain_sum (tw_start tw) (scalls h2) ->
    srun s1 (SVol (Fixed tg) tw :: h1) = Ok (s1', l1) ->
    srun s2 (SVol (Fixed tg) tw :: h2) = Ok (s2', l2) ->
    p_raw (d_vol s1') = p_raw (d_vol s2').
  Proof.
    intros He Hn1 Hn2 Hnd Hdur Hc1 Hc2 D C1 C2 Hs R1 R2.
    destruct (sound_params_follow_history_proof _ _ _ _ _ _ _ _ _ _ _ _ _ _ _ _ _ _ _ R1) as [P1 _].
    destruct (sound_params_follow_history_proof _ _ _ _ _ _ _ _ _ _ _ _ _ _ _ _ _ _ _ R2) as [P2 _].
    cbn [flat_map vol_view app param_run param_step obind] in P1, P2.
    rewrite (vol_view_calls Q h1 Hn1) in P1. rewrite (vol_view_calls Q h2 Hn2) in P2. rewrite <- He in P2.
    destruct (partition_independent powf (d_vol s1) tg tw (scalls h1) (scalls h2) Hnd Hdur Hc1 Hc2 C1 C2 Hs)
      as [p1 [p2 [Q1 [Q2 E]]]].
    unfold run, updates in Q1, Q2. rewrite Q1 in P1. rewrite Q2 in P2. inversion P1. inversion P2. subst. exact E.
  Qed.
End SoundLaw.

(** ** the sub-track *)
Section TrackAny.
  Context {T : Type} {NT : Num T} {ND : NumDur T}.
  Variable powf : T -> T -> T.
  Variable V : Type.
  Variable interp : V -> V -> T -> V.
  Variables silence identity : V.
  Variable VP : Type.
  Variable interpP : VP -> VP -> T -> VP.
  Variable VS : Type.
  Variable interpS : VS -> VS -> T -> VS.
  Variable A : Type.
  Variable azero : A.
  Variable G : Type.
  Variable amp : V -> G.
  Variable gmul : G -> G -> G.
  Variable ascale : A -> G -> A.
  Variable body : option VP -> nat -> T -> info T -> list A.
  Variable spatialize : param T VP -> param T VS -> nat -> nat -> A -> A.

  Notation kprocess := (dtrack_process powf V interp identity VP interpP VS interpS A azero G amp gmul ascale body spatialize).
  Notation kstep := (dtrack_step powf V interp silence identity VP interpP VS interpS A azero G amp gmul ascale body spatialize).
  Notation krun := (dtrack_run powf V interp silence identity VP interpP VS interpS A azero G amp gmul ascale body spatialize).
  Notation trackT := (dtrack T V VP VS).

  Lemma update_routes_nth (l : list (param T V)) dtl i : forall l',
    update_routes powf V interp l dtl i = Ok l' ->
    length l' = length l /\
    forall n p, nth_error l n = Some p ->
      exists p' f, nth_error l' n = Some p' /\ param_update powf V interp p dtl i = Ok (p', f).
  Proof.
    induction l as [|p r IH]; intros l' H.
    - cbn in H. inversion H. split; [reflexivity|]. intros n p Hn. destruct n; discriminate.
    - cbn [update_routes] in H.
      destruct (param_update powf V interp p dtl i) as [[p1 f1]| |] eqn:E; cbn [obind] in H; try discriminate.
      destruct (update_routes powf V interp r dtl i) as [r'| |] eqn:ER; cbn [obind] in H; try discriminate.
      inversion H. subst l'. destruct (IH r' eq_refl) as [L N]. split; [cbn; rewrite L; reflexivity|].
      intros n q Hn. destruct n as [|n]; cbn [nth_error] in *.
      + inversion Hn. subst q. exists p1, f1. split; [reflexivity|exact E].
      + exact (N n q Hn).
  Qed.

  (** one [process] call of a track: volume and every send-route volume are updated with
      [dt * len] whether or not the track is advancing; position and strength only if it is *)
  Lemma track_process_params (t t' : trackT) len dt i silent out sends :
    kprocess t len dt i = Ok (t', silent, out, sends) ->
    (exists f, param_update powf V interp (k_vol t) (chunk_time len dt) i = Ok (k_vol t', f)) /\
    (forall n p, nth_error (k_routes t) n = Some p ->
       exists p' f, nth_error (k_routes t') n = Some p' /\
                    param_update powf V interp p (chunk_time len dt) i = Ok (p', f)) /\
    (if silent then k_spatial t' = k_spatial t
     else match k_spatial t with
          | None => k_spatial t' = None
          | Some (pos, str) =>
              exists pos' str' f1 f2, k_spatial t' = Some (pos', str') /\
                param_update powf VP interpP pos (chunk_time len dt) i = Ok (pos', f1) /\
                param_update powf VS interpS str (chunk_time len dt) i = Ok (str', f2)
          end).
  Proof.
    unfold dtrack_process.
    destruct (param_update powf V interp (k_vol t) (chunk_time len dt) i) as [[vol f1]| |]; cbn [obind]; try discriminate.
    destruct (update_routes powf V interp (k_routes t) (chunk_time len dt) i) as [routes| |] eqn:ER; cbn [obind]; try discriminate.
    destruct (psm_update powf V interp identity (k_psm t) (chunk_time len dt) i) as [[m0 ch]| |]; cbn [obind]; try discriminate.
    destruct (update_routes_nth _ _ _ _ ER) as [_ RN].
    match goal with |- context [if negb ?c then _ else _] => destruct c end; cbn [negb].
    - destruct (k_spatial t) as [[pos str]|] eqn:ES; cbn [obind].
      + destruct (param_update powf VP interpP pos (chunk_time len dt) i) as [[pos' g1]| |] eqn:EP; cbn [obind]; try discriminate.
        destruct (param_update powf VS interpS str (chunk_time len dt) i) as [[str' g2]| |] eqn:ES2; cbn [obind]; try discriminate.
        intro H. inversion H. subst. cbn [k_vol k_routes k_spatial].
        split; [eexists; reflexivity|]. split; [exact RN|]. exists pos', str', g1, g2. repeat split.
      + intro H. inversion H. subst. cbn [k_vol k_routes k_spatial].
        split; [eexists; reflexivity|]. split; [exact RN|]. reflexivity.
    - intro H. inversion H. subst. cbn [k_vol k_routes k_spatial].
      split; [eexists; reflexivity|]. split; [exact RN|]. reflexivity.
  Qed.

  Lemma krun_is_lrun (h : list (kop T V VP VS)) : forall t, krun t h = lrun _ _ _ kstep t h.
  Proof. induction h as [|op h IH]; intro t; [reflexivity|]. cbn [dtrack_run lrun]. destruct (kstep t op) as [[t1 l1]| |]; cbn [obind]; [rewrite IH|..]; reflexivity. Qed.

  Lemma track_vol_disciplined t op t' l :
    kstep t op = Ok (t', l) -> param_run powf V interp (k_vol t) (kvol_view op) = Ok (k_vol t').
  Proof.
    destruct op; cbn [dtrack_step kvol_view]; try (intro H; inversion H; subst; reflexivity).
    destruct (kprocess t len dt i) as [[[[t1 sil] out] sends]| |] eqn:EP; cbn [obind]; try discriminate.
    intro H. inversion H. subst.
    destruct (track_process_params _ _ _ _ _ _ _ _ EP) as [[f U] _].
    cbn [param_run param_step]. rewrite U. reflexivity.
  Qed.

  (** a track's volume through any history of commands, pauses, resumes and [process] calls *)
  Lemma track_volume_follows_history_proof (t t' : trackT) (h : list (kop T V VP VS)) l :
    krun t h = Ok (t', l) ->
    param_run powf V interp (k_vol t) (flat_map kvol_view h) = Ok (k_vol t').
  Proof.
    rewrite krun_is_lrun. intro H.
    exact (discipline_projection powf V interp _ _ _ k_vol kstep kvol_view track_vol_disciplined h t t' l H).
  Qed.

  Lemma set_nth_param_nth (l : list (param T V)) : forall n m tg tw,
    nth_error (set_nth_param V l m tg tw) n =
    if Nat.eqb n m then option_map (fun p => param_set p tg tw) (nth_error l n) else nth_error l n.
  Proof.
    induction l as [|p r IH]; intros n m tg tw.
    - cbn. destruct n; destruct (Nat.eqb _ m); reflexivity.
    - destruct m as [|m]; destruct n as [|n]; cbn [set_nth_param nth_error Nat.eqb option_map]; try reflexivity.
      apply IH.
  Qed.

  (** ... and each of its send routes' volumes *)
  Lemma track_route_follows_history_proof (n : nat) (h : list (kop T V VP VS)) : forall (t t' : trackT) l p,
    krun t h = Ok (t', l) -> nth_error (k_routes t) n = Some p ->
    exists p', nth_error (k_routes t') n = Some p' /\
               param_run powf V interp p (flat_map (kroute_view n) h) = Ok p'.
  Proof.
    induction h as [|op h IH]; intros t t' l p H Hp.
    - cbn in H. inversion H. subst. exists p. split; [exact Hp|reflexivity].
    - cbn [dtrack_run] in H.
      destruct (kstep t op) as [[t1 l1]| |] eqn:E1; cbn [obind] in H; try discriminate.
      destruct (krun t1 h) as [[t2 l2]| |] eqn:E2; cbn [obind] in H; try discriminate.
      inversion H. subst t' l. clear H. cbn [flat_map]. rewrite param_run_app.
      destruct op; cbn [dtrack_step] in E1;
        try (inversion E1; subst t1 l1; cbn [kroute_view param_run obind k_routes] in *; exact (IH _ _ _ _ E2 Hp)).
      + (* KRoute *)
        inversion E1. subst t1 l1. cbn [kroute_view].
        assert (Hn : nth_error (k_routes {| k_vol := k_vol t; k_routes := set_nth_param V (k_routes t) n0 target tw;
                                            k_psm := k_psm t; k_spatial := k_spatial t; k_mirror := k_mirror t |}) n
                     = if Nat.eqb n n0 then Some (param_set p target tw) else Some p).
        { cbn [k_routes]. rewrite set_nth_param_nth, Hp. destruct (Nat.eqb n n0); reflexivity. }
        destruct (Nat.eqb n n0); cbn [param_run param_step obind]; exact (IH _ _ _ _ E2 Hn).
      + (* KProcess *)
        destruct (kprocess t len dt i) as [[[[t1' sil] out] sends]| |] eqn:EP; cbn [obind] in E1; try discriminate.
        inversion E1. subst t1 l1.
        destruct (track_process_params _ _ _ _ _ _ _ _ EP) as [_ [RN _]].
        destruct (RN n p Hp) as [p1 [f [Hp1 U]]].
        cbn [kroute_view param_run param_step]. rewrite U. cbn [obind]. exact (IH _ _ _ _ E2 Hp1).
  Qed.

  (** the spatial position is a LATE parameter: it sees only the calls in which the track advanced *)
  Lemma track_position_follows_advancing_calls_proof (h : list (kop T V VP VS)) : forall (t t' : trackT) l pos str,
    krun t h = Ok (t', l) -> k_spatial t = Some (pos, str) ->
    exists pos' str', k_spatial t' = Some (pos', str') /\
      param_run powf VP interpP pos (kpos_view h (map (fun x => fst (fst x)) l)) = Ok pos'.
  Proof.
    induction h as [|op h IH]; intros t t' l pos str H Hs.
    - cbn in H. inversion H. subst. exists pos, str. split; [exact Hs|reflexivity].
    - cbn [dtrack_run] in H.
      destruct (kstep t op) as [[t1 l1]| |] eqn:E1; cbn [obind] in H; try discriminate.
      destruct (krun t1 h) as [[t2 l2]| |] eqn:E2; cbn [obind] in H; try discriminate.
      inversion H. subst t' l. clear H.
      destruct op; cbn [dtrack_step] in E1.
      1,2,5,6: inversion E1; subst t1 l1; cbn [kpos_view app map k_spatial] in *; exact (IH _ _ _ _ _ E2 Hs).
      + (* KPos *)
        inversion E1. subst t1 l1. cbn [kpos_view app map param_run param_step obind].
        apply (IH _ _ _ _ str E2). cbn [k_spatial]. rewrite Hs. reflexivity.
      + (* KStrength *)
        inversion E1. subst t1 l1. cbn [kpos_view app map].
        apply (IH _ _ _ pos (param_set str target tw) E2). cbn [k_spatial]. rewrite Hs. reflexivity.
      + (* KProcess *)
        destruct (kprocess t len dt i) as [[[[t1' sil] out] sends]| |] eqn:EP; cbn [obind] in E1; try discriminate.
        inversion E1. subst t1 l1.
        destruct (track_process_params _ _ _ _ _ _ _ _ EP) as [_ [_ L]].
        cbn [app map fst kpos_view]. destruct sil.
        * rewrite Hs in L. exact (IH _ _ _ _ _ E2 L).
        * rewrite Hs in L. destruct L as [pos' [str' [f1 [f2 [Hs' [U1 U2]]]]]].
          cbn [param_run param_step]. rewrite U1. cbn [obind]. exact (IH _ _ _ _ _ E2 Hs').
  Qed.
End TrackAny.

(** ** witnesses (exact arithmetic, every abstract piece trivial) *)
Definition qsound_run :=
  dsound_run pw0 Q (@lerp Q Num_Q) (-60)%Q 0%Q unit tt unit (fun _ => tt) (fun _ _ => tt) (fun _ _ _ _ => tt)
    (fun x => x) (fun _ _ => 0%Q) 1024%Z 64.
Definition qsound0 (st : stime Q) : dsound Q Q :=
  dsound_new Q (-60)%Q 0%Q (fun _ _ => 0%Q) 0%Q 1%Q 0%Q st None.
Definition tw0 : tween Q := {| tw_start := Immediate; tw_dur := 0%Z; tw_easing := Linear |}.

(** non-vacuity: a sound is paused (zero-length fade), then told to resume 2 s later; while it
    is Paused / WaitingToResume its volume is sent from 0 to -20 dB over 1 s and its rate from
    1 to 2 over 0.5 s; 512 frames are processed in chunks of 5, 500 and 7: every call took the
    early return, the volume is half way (-10), the rate has arrived (exactly 2) *)
Example sound_paused_example :
  exists s' l,
    qsound_run (qsound0 Immediate)
      [SPause tw0; SProcess 1 dt1024 no_info; SResume (Delayed 2000000000) tw0;
       SVol (Fixed (-20)%Q) tw_1s;
       SRate (Fixed 2%Q) {| tw_start := Immediate; tw_dur := 500000000%Z; tw_easing := Linear |};
       SProcess 5 dt1024 no_info; SProcess 500 dt1024 no_info; SProcess 7 dt1024 no_info] = Ok (s', l)
    /\ map fst l = [true; true; true; true]
    /\ d_mirror s' = 3%Z
    /\ (p_raw (d_vol s') == -10)%Q /\ p_raw (d_rate s') = 2%Q /\ p_state (d_rate s') = Idle (Fixed 2%Q).
Proof. eexists. eexists. split; [vm_compute; reflexivity|]. repeat split. Qed.

(** ... and one that has not reached its own (delayed) start time *)
Example sound_start_pending_example :
  exists s' l,
    qsound_run (qsound0 (Delayed 3000000000))
      [SPan (Fixed 1%Q) tw_1s; SProcess 256 dt1024 no_info; SProcess 256 dt1024 no_info] = Ok (s', l)
    /\ map fst l = [true; true] /\ (p_raw (d_pan s') == 1 # 2)%Q.
Proof. eexists. eexists. split; [vm_compute; reflexivity|]. repeat split. Qed.

Definition qtrack_run :=
  dtrack_run pw0 Q (@lerp Q Num_Q) (-60)%Q 0%Q Q (@lerp Q Num_Q) Q (@lerp Q Num_Q) unit tt unit (fun _ => tt)
    (fun _ _ => tt) (fun _ _ => tt) (fun _ len _ _ => repeat tt len) (fun _ _ _ _ a => a).
Definition qtrack0 : dtrack Q Q Q Q :=
  {| k_vol := param_new (Fixed 0%Q) 0%Q; k_routes := [param_new (Fixed 0%Q) 0%Q];
     k_psm := psm_new Q (-60)%Q 0%Q None;
     k_spatial := Some (param_new (Fixed 0%Q) 0%Q, param_new (Fixed (3 # 4)%Q) (3 # 4)%Q); k_mirror := 0%Z |}.

(** a paused track: its volume and its route volume follow their tweens (-10 after half of a
    1 s tween to -20) ... *)
Example track_paused_example :
  exists t' l,
    qtrack_run qtrack0
      [KPause tw0; KProcess 1 dt1024 no_info; KVol (Fixed (-20)%Q) tw_1s; KRoute 0 (Fixed (-20)%Q) tw_1s;
       KProcess 500 dt1024 no_info; KProcess 12 dt1024 no_info] = Ok (t', l)
    /\ map (fun x => fst (fst x)) l = [true; true; true]
    /\ (p_raw (k_vol t') == -10)%Q
    /\ exists r, k_routes t' = [r] /\ (p_raw r == -10)%Q.
Proof.
  eexists. eexists. split; [vm_compute; reflexivity|]. split; [reflexivity|]. split; [reflexivity|].
  eexists. split; reflexivity.
Qed.

(** ... but its spatial position does not: kira updates it below the "not advancing" return
    (track/sub.rs:220), so on the class "the track did not advance during some call" the law of
    the processed time fails (position still 0 after half of a 1 s tween to 10; the law says 5) *)
Lemma track_position_frozen_while_paused_refuted_proof :
  exists (h : list (kop Q Q Q Q)) t' l pos' str',
    forallb (fun op => negb (is_kpos op)) h = true /\
    qtrack_run qtrack0 (KPause tw0 :: KProcess 1 dt1024 no_info :: KPos (Fixed 10%Q) tw_1s :: h) = Ok (t', l) /\
    existsb (fun x => fst (fst x)) l = true /\
    k_spatial t' = Some (pos', str') /\
    completes Immediate (ns_to_secs_Q 1000000000) 0 (kcalls h) = false /\
    (p_raw pos' == 0)%Q /\
    (the_law pw0 0 10 Linear (ns_to_secs_Q 1000000000) (elapsed Immediate 0 (kcalls h)) == 5)%Q.
Proof.
  exists [KProcess 500 dt1024 no_info; KProcess 12 dt1024 no_info].
  eexists. eexists. eexists. eexists.
  split; [reflexivity|]. split; [vm_compute; reflexivity|].
  repeat split.
Qed.
