(** C06 — after its tween has finished, a parameter whose target is a modulator or the listener
    distance KEEPS FOLLOWING it (only a [Fixed] target makes the parameter stagnant, and then
    nothing observable changes).  Structural: any number type, any value type, any libm -- so
    bit for bit for IEEE.  [Parameter::update_tween], parameter.rs:134-140. *)
From Coq Require Import ZArith List Bool.
From KV Require Import Base.Outcome Base.Num C19.Model C06.Model.
Import ListNotations.

Section Follow.
  Context {T : Type} {NT : Num T} {ND : NumDur T}.
  Variable powf : T -> T -> T.
  Variable V : Type.
  Variable interp : V -> V -> T -> V.
  Notation paramV := (param T V).
  Notation pupd := (param_update powf V interp).
  Notation prun := (param_run powf V interp).
  Notation raw := (raw_of powf interp).

  Definition linked (v : value T V) : Prop := match v with Fixed _ => False | _ => True end.
  Definition updates_of (l : list (T * info T)) : list (pop T V) := map (fun '(dt, i) => OUpdate dt i) l.

  (** on its way to [v], or resting on it -- and not stagnant *)
  Definition live_on (v : value T V) (p : paramV) : Prop :=
    p_stagnant p = false /\
    (p_state p = Idle v \/ exists start t tw, p_state p = Tweening start v t tw).

  Lemma set_is_live (p : paramV) v tw : live_on v (param_set p v tw).
  Proof. split; [reflexivity|]. right. exists (p_raw p), n0, tw. reflexivity. Qed.

  Lemma update_keeps_live v (p p' : paramV) dt i f :
    linked v -> live_on v p -> pupd p dt i = Ok (p', f) -> live_on v p'.
  Proof.
    intros Hl [Hs Hst] U. unfold param_update in U. rewrite Hs in U.
    destruct Hst as [Hi | [start [t [tw Ht]]]].
    - rewrite Hi in U. cbn [update_tween obind] in U. inversion U. subst. split; [reflexivity|]. left. reflexivity.
    - rewrite Ht in U. cbn [update_tween] in U.
      match type of U with obind (obind ?x _) _ = _ => destruct x as [[started tw']| |] eqn:E end; cbn [obind] in U; try discriminate.
      destruct started; cbn [negb] in U.
      + destruct (nleb (ns_to_secs (tw_dur tw')) (nadd t dt)); cbn [obind] in U; inversion U; subst; cbn [p_stagnant p_state].
        * split; [destruct v; [contradiction|reflexivity|reflexivity]|]. left. reflexivity.
        * split; [reflexivity|]. right. eexists. eexists. eexists. reflexivity.
      + cbn [obind] in U. inversion U. subst. split; [reflexivity|]. right. eexists. eexists. eexists. reflexivity.
  Qed.

  (** through its tween and beyond, a parameter sent to a linked target is never stagnant *)
  Lemma linked_target_stays_live_proof v (l : list (T * info T)) : forall (p p' : paramV),
    linked v -> live_on v p -> prun p (updates_of l) = Ok p' -> live_on v p'.
  Proof.
    induction l as [|[dt i] l IH]; intros p p' Hl Hv R.
    - cbn in R. inversion R. subst. exact Hv.
    - cbn [updates_of map param_run param_step] in R.
      destruct (pupd p dt i) as [[p1 f]| |] eqn:U; cbn [obind] in R; try discriminate.
      exact (IH p1 p' Hl (update_keeps_live v p p1 dt i f Hl Hv U) R).
  Qed.

  (** one update of a parameter resting on a linked target: it takes the CURRENT value of what
      it is linked to (and holds its value when that does not resolve: modulator gone, no
      listener) *)
  Lemma idle_linked_update_proof v (p : paramV) dt i :
    linked v -> p_state p = Idle v -> p_stagnant p = false ->
    pupd p dt i =
      Ok ({| p_state := Idle v; p_raw := match raw i v with Some x => x | None => p_raw p end;
             p_prev := p_raw p; p_stagnant := false |}, false).
  Proof.
    intros Hl Hi Hs. unfold param_update. rewrite Hs, Hi. cbn [update_tween obind new_raw]. reflexivity.
  Qed.

  (** ... for EVERY later update: whatever happened in between, the update made with [i] leaves
      the parameter on the value its target has in [i] *)
  Lemma idle_linked_follows_forever_proof v (l : list (T * info T)) : forall (p : paramV) dt i,
    linked v -> p_state p = Idle v -> p_stagnant p = false ->
    exists p', prun p (updates_of (l ++ [(dt, i)])) = Ok p' /\
      p_state p' = Idle v /\ p_stagnant p' = false /\
      forall x, raw i v = Some x -> p_raw p' = x.
  Proof.
    induction l as [|[dt0 i0] l IH]; intros p dt i Hl Hi Hs.
    - cbn [app updates_of map param_run param_step]. rewrite (idle_linked_update_proof v p dt i Hl Hi Hs).
      cbn [obind]. eexists. split; [reflexivity|]. cbn [p_state p_stagnant p_raw].
      split; [reflexivity|]. split; [reflexivity|]. intros x Hx. rewrite Hx. reflexivity.
    - cbn [app updates_of map param_run param_step]. rewrite (idle_linked_update_proof v p dt0 i0 Hl Hi Hs).
      cbn [obind]. apply IH; [exact Hl|reflexivity|reflexivity].
  Qed.

  (** from the command on: set a linked target with any tween; after any updates [l1] that
      leave the tween finished, and any further ones, the parameter follows the target *)
  Lemma linked_target_followed_after_tween_proof (p p1 : paramV) v tw (l1 l2 : list (T * info T)) dt i :
    linked v ->
    prun (param_set p v tw) (updates_of l1) = Ok p1 -> p_state p1 = Idle v ->
    exists p', prun (param_set p v tw) (updates_of (l1 ++ l2 ++ [(dt, i)])) = Ok p' /\
      p_state p' = Idle v /\ p_stagnant p' = false /\
      forall x, raw i v = Some x -> p_raw p' = x.
  Proof.
    intros Hl R1 Hi.
    destruct (linked_target_stays_live_proof v l1 _ _ Hl (set_is_live p v tw) R1) as [Hs _].
    destruct (idle_linked_follows_forever_proof v l2 p1 dt i Hl Hi Hs) as [p' [R2 C]].
    exists p'. split; [|exact C].
    unfold updates_of. rewrite map_app.
    assert (A : forall a b q, prun q (a ++ b) = (let! q1 := prun q a in prun q1 b)).
    { induction a as [|o a IHa]; intros b q; [reflexivity|]. cbn [app param_run].
      destruct (param_step powf V interp q o) as [[q' f]| |]; cbn [obind]; [apply IHa|reflexivity|reflexivity]. }
    rewrite A. unfold updates_of in R1. rewrite R1. cbn [obind]. exact R2.
  Qed.

  (** a [Fixed] target: whether or not the flag is set, nothing observable differs -- value,
      previous value and state are the target's from the next update on *)
  Lemma fixed_target_stagnant_unobservable_proof (p : paramV) tg (l : list (T * info T)) dt i :
    p_state p = Idle (Fixed tg) -> p_raw p = tg ->
    exists p', prun p (updates_of ((dt, i) :: l)) = Ok p' /\
      p_state p' = Idle (Fixed tg) /\ p_raw p' = tg /\ p_prev p' = tg.
  Proof.
    revert p dt i. induction l as [|[dt1 i1] l IH]; intros p dt i Hi Hr.
    - cbn [updates_of map param_run param_step]. unfold param_update.
      destruct (p_stagnant p); cbn [obind].
      + eexists. split; [reflexivity|]. cbn. repeat split; assumption.
      + rewrite Hi. cbn [update_tween obind new_raw raw_of]. eexists. split; [reflexivity|]. cbn. repeat split; assumption.
    - cbn [updates_of map param_run param_step]. unfold param_update at 1.
      destruct (p_stagnant p); cbn [obind].
      + apply (IH _ dt1 i1); cbn; assumption.
      + rewrite Hi. cbn [update_tween obind new_raw raw_of]. apply (IH _ dt1 i1); reflexivity.
  Qed.

  (** ** the other reading: "stagnant unless the target follows a modulator" *)
  Definition update_tween_stagnant_unless_mod (st : pstate T V) (stagnant : bool) (dt : T) (i : info T)
    : outcome (pstate T V * bool * bool) :=
    match st with
    | Idle _ => Ok (st, stagnant, false)
    | Tweening start target time tw =>
        let! (started, tw') :=
          match tw_start tw with
          | Immediate => Ok (true, tw)
          | Delayed rem =>
              if (rem =? 0)%Z then Ok (true, tw)
              else let! d := secs_to_ns dt in
                   Ok (false, {| tw_start := Delayed (sat_sub rem d); tw_dur := tw_dur tw; tw_easing := tw_easing tw |})
          | ClockT c tk fr => Ok (match when_to_start i c tk fr with Now => true | _ => false end, tw)
          end in
        if negb started then Ok (Tweening start target time tw', stagnant, false)
        else
          let time' := nadd time dt in
          if nleb (ns_to_secs (tw_dur tw')) time' then
            Ok (Idle target, match target with FromMod _ _ => stagnant | _ => true end, true)
          else Ok (Tweening start target time' tw', stagnant, false)
    end.
  Definition param_update_stagnant_unless_mod (p : paramV) (dt : T) (i : info T) : outcome (paramV * bool) :=
    if p_stagnant p then
      Ok ({| p_state := p_state p; p_raw := p_raw p; p_prev := p_raw p; p_stagnant := true |}, false)
    else
      let! (st, stag, fin) := update_tween_stagnant_unless_mod (p_state p) (p_stagnant p) dt i in
      let raw := match new_raw powf interp st i with Some v => v | None => p_raw p end in
      Ok ({| p_state := st; p_raw := raw; p_prev := p_raw p; p_stagnant := stag |}, fin).
End Follow.

(** ** witnesses (exact arithmetic): volume mapped from the listener distance, 0..100 -> 0 dB..-40 dB *)
From Coq Require Import QArith.
From KV Require Import C06.Dur.
Definition dist_map : vmapping Q Q :=
  {| vin_lo := 0%Q; vin_hi := 100%Q; vout_lo := 0%Q; vout_hi := (-40)%Q; v_easing := Linear |}.
Definition at_dist (d : Q) : info Q := {| i_clocks := []; i_mods := []; i_dist := Some d |}.
Definition tw_zero : tween Q := {| tw_start := Immediate; tw_dur := 0%Z; tw_easing := Linear |}.
Definition pwq : Q -> Q -> Q := fun _ _ => 0%Q.
Definition lerpq := @lerp Q Num_Q.

(** non-vacuity: linked at run time with a zero-length tween at distance 10 (-4 dB), then the
    listener moves to distance 50: the parameter is at -20 dB *)
Example linked_follow_example :
  exists p', param_run pwq Q lerpq (param_set (param_new (Fixed 0%Q) 0%Q) (FromDist dist_map) tw_zero)
               (updates_of Q [((1 # 64)%Q, at_dist 10); ((1 # 64)%Q, at_dist 50)]) = Ok p'
             /\ p_state p' = Idle (FromDist dist_map) /\ p_stagnant p' = false /\ (p_raw p' == -20)%Q.
Proof. eexists. split; [vm_compute; reflexivity|]. repeat split. Qed.

(** "stagnant unless the target follows a modulator", refuted: the parameter keeps the -4 dB of
    the distance at which its tween ended although its target, evaluated now, is -20 dB *)
Lemma stagnant_unless_modulator_refuted_proof :
  exists p1 p2 f1 f2,
    param_update_stagnant_unless_mod pwq Q lerpq
      (param_set (param_new (Fixed 0%Q) 0%Q) (FromDist dist_map) tw_zero) (1 # 64)%Q (at_dist 10) = Ok (p1, f1) /\
    param_update_stagnant_unless_mod pwq Q lerpq p1 (1 # 64)%Q (at_dist 50) = Ok (p2, f2) /\
    p_state p2 = Idle (FromDist dist_map) /\
    (p_raw p2 == -4)%Q /\
    exists x, raw_of pwq lerpq (at_dist 50) (FromDist dist_map) = Some x /\ (x == -20)%Q /\ ~ (p_raw p2 == x)%Q.
Proof.
  eexists. eexists. eexists. eexists.
  split; [vm_compute; reflexivity|]. split; [vm_compute; reflexivity|].
  split; [reflexivity|]. split; [reflexivity|].
  eexists. split; [vm_compute; reflexivity|]. split; [reflexivity|]. vm_compute. discriminate.
Qed.
