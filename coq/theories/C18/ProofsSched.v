(** C18 — streaming equals loading: [frame_at_index] over ANY conforming decoder (any
    packetisation, any seek-landing function) returns frame [i] of the underlying audio, for
    every start position and every history of seeks and frame requests. *)
From Coq Require Import ZArith List Bool Lia Arith.
From KV Require Import Base.Outcome C18.Model.
Import ListNotations.

Section SchedProofs.
  Context {F : Type}.
  Variable zero : F.
  Variable audio : list F.
  Variable psize : nat -> nat.
  Variable land : nat -> nat.

  Notation sched := (@sched F).
  Notation decode_loop := (decode_loop audio psize).
  Notation frame_at_index := (frame_at_index zero audio psize land).
  Notation seek_to_index := (@seek_to_index F land).
  Notation sched_new := (@sched_new F land).

  Definition chunk_ok (c : option (nat * list F)) : Prop :=
    match c with
    | None => True
    | Some (st, frs) => forall k x, nth_error frs k = Some x -> nth_error audio (st + k) = Some x
    end.
  Definition inv (s : sched) : Prop := dpos s = cur s /\ chunk_ok (chunk s).

  Lemma nth_error_skipn : forall {A} (l : list A) p k, nth_error (skipn p l) k = nth_error l (p + k).
  Proof.
    intros A l p. revert l. induction p as [|p IH]; intros l k; [reflexivity|].
    destruct l as [|x l]; cbn [skipn Nat.add nth_error]; [now destruct k|apply IH].
  Qed.
  Lemma nth_error_firstn_some : forall {A} (l : list A) n k x,
      nth_error (firstn n l) k = Some x -> nth_error l k = Some x.
  Proof.
    intros A l n. revert l. induction n as [|n IH]; intros l k x H.
    - cbn in H. destruct k; discriminate.
    - destruct l as [|y l]; [cbn in H; destruct k; discriminate|]. destruct k as [|k]; cbn in *; [assumption|eauto].
  Qed.
  Lemma nth_error_firstn_lt : forall {A} (l : list A) n k, (k < n)%nat -> nth_error (firstn n l) k = nth_error l k.
  Proof.
    intros A l n. revert l. induction n as [|n IH]; intros l k H; [lia|].
    destruct l as [|y l]; [now destruct k|]. destruct k as [|k]; cbn; [reflexivity|apply IH; lia].
  Qed.

  Lemma chunk_frame_sound : forall c i x, chunk_ok c -> chunk_frame c i = Some x -> nth_error audio i = Some x.
  Proof.
    intros [[st frs]|] i x Hc H; unfold chunk_frame in H; [|discriminate].
    destruct (i <? st)%nat eqn:E; [discriminate|]. apply Nat.ltb_ge in E.
    apply Hc in H. now replace (st + (i - st))%nat with i in H by lia.
  Qed.

  Lemma decode_loop_correct : forall fuel (s : sched) index,
      inv s -> (dpos s <= index < length audio)%nat -> (index - dpos s < fuel)%nat ->
      exists s', decode_loop fuel s index = Ok (Some (nth index audio zero), s') /\ inv s'.
  Proof.
    induction fuel as [|fuel IH]; intros s index [Hd Hc] [Hlo Hhi] Hf; [lia|].
    cbn [Model.decode_loop]. unfold dec_decode.
    replace (length audio <=? dpos s)%nat with false by (symmetry; apply Nat.leb_gt; lia).
    set (p := firstn (S (psize (dpos s))) (skipn (dpos s) audio)).
    assert (Hp : forall k x, nth_error p k = Some x -> nth_error audio (cur s + k) = Some x).
    { intros k x H. unfold p in H. apply nth_error_firstn_some in H.
      rewrite nth_error_skipn in H. now rewrite <- Hd. }
    assert (Hlen : (1 <= length p)%nat).
    { unfold p. rewrite firstn_length, skipn_length. lia. }
    set (s' := {| dpos := (dpos s + length p)%nat; cur := (cur s + length p)%nat; chunk := Some (cur s, p) |}).
    assert (Hinv' : inv s') by (split; [cbn; lia|exact Hp]).
    destruct (chunk_frame (chunk s') index) as [fr|] eqn:E.
    - exists s'. split; [|assumption]. f_equal. f_equal. f_equal.
      apply (chunk_frame_sound _ _ _ (proj2 Hinv')) in E.
      symmetry. now apply nth_error_nth.
    - cbn [chunk s' chunk_frame] in E.
      replace (index <? cur s)%nat with false in E by (symmetry; apply Nat.ltb_ge; lia).
      apply nth_error_None in E.
      apply IH; [assumption|cbn [dpos s']; lia|cbn [dpos s']; lia].
  Qed.

  Lemma frame_at_index_correct_lemma : forall fuel (s : sched) index,
      inv s -> (length audio <= fuel)%nat ->
      exists s', frame_at_index fuel (length audio) s index = Ok (Some (nth index audio zero), s') /\ inv s'.
  Proof.
    intros fuel s index Hinv Hf. unfold Model.frame_at_index.
    destruct (length audio <=? index)%nat eqn:E.
    - apply Nat.leb_le in E. exists s. rewrite nth_overflow by assumption. now split.
    - apply Nat.leb_gt in E.
      destruct (chunk_frame (chunk s) index) as [fr|] eqn:Ec.
      + exists s. split; [|assumption]. apply (chunk_frame_sound _ _ _ (proj2 Hinv)) in Ec.
        f_equal. f_equal. f_equal. symmetry. now apply nth_error_nth.
      + destruct Hinv as [Hd Hc]. destruct (index <? cur s)%nat eqn:El.
        * apply decode_loop_correct; [split; [reflexivity|exact Hc]| |]; cbn [dpos]; unfold dec_seek; lia.
        * apply Nat.ltb_ge in El. apply decode_loop_correct; [now split|lia|lia].
  Qed.

  Lemma inv_seek : forall s i, inv s -> inv (seek_to_index s i).
  Proof. intros s i [_ Hc]. split; [reflexivity|exact Hc]. Qed.
  Lemma inv_new : forall start, inv (sched_new start).
  Proof. intros. split; [reflexivity|exact I]. Qed.

  (** every history of seeks and frame requests *)
  Definition requested (ops : list op) : list nat :=
    flat_map (fun o => match o with OFrame i => [i] | OSeek _ => [] end) ops.

  Lemma run_ops_correct : forall fuel ops (s : sched),
      inv s -> (length audio <= fuel)%nat ->
      run_ops zero audio psize land fuel (length audio) s ops =
      Ok (map (fun i => Some (nth i audio zero)) (requested ops)).
  Proof.
    intros fuel ops. induction ops as [|[i|i] ops IH]; intros s Hinv Hf; cbn [run_ops requested flat_map map app].
    - reflexivity.
    - apply IH; [now apply inv_seek|assumption].
    - destruct (frame_at_index_correct_lemma fuel s i Hinv Hf) as [s' [-> Hinv']].
      cbn [obind]. fold (requested ops). rewrite (IH s' Hinv' Hf). reflexivity.
  Qed.

  Lemma run_stream_correct : forall fuel ops (s : sched) pos,
      inv s -> (length audio <= fuel)%nat ->
      run_stream zero audio psize land fuel (length audio) s pos ops =
      Ok (map (fun p => (Some (nth p audio zero), p)) (positions (length audio) pos ops)).
  Proof.
    intros fuel ops. induction ops as [|[|i] ops IH]; intros s pos Hinv Hf; cbn [run_stream positions map].
    - reflexivity.
    - destruct (frame_at_index_correct_lemma fuel s pos Hinv Hf) as [s' [-> Hinv']]. cbn [obind].
      destruct (length audio <=? S pos)%nat; [reflexivity|].
      rewrite (IH s' (S pos) Hinv' Hf). reflexivity.
    - apply IH; [now apply inv_seek|assumption].
  Qed.
End SchedProofs.

Lemma run_ops_from_start : forall (F : Type) (zero : F) (audio : list F) (psize land : nat -> nat)
    (fuel start : nat) (ops : list op),
  (length audio <= fuel)%nat ->
  run_ops zero audio psize land fuel (length audio) (sched_new land start) ops =
  Ok (map (fun i => Some (nth i audio zero)) (requested ops)).
Proof. intros. apply run_ops_correct; [apply inv_new|assumption]. Qed.

Lemma run_stream_from_start : forall (F : Type) (zero : F) (audio : list F) (psize land : nat -> nat)
    (fuel start : nat) (ops : list sop),
  (length audio <= fuel)%nat ->
  run_stream zero audio psize land fuel (length audio) (sched_new land start) start ops =
  Ok (map (fun p => (Some (nth p audio zero), p)) (positions (length audio) start ops)).
Proof. intros. apply run_stream_correct; [apply inv_new|assumption]. Qed.
