(** C18 — FLAC samples: symphonia's decoder delivers [sample << (32 - bits)] as i32 and kira
    converts with [(s as f64 / 2147483648.0) as f32].  For 8/16/24-bit samples every step is
    exact: the float is finite and its value is x / 2^(bits-1) -- the same rational number (and,
    for 16 and 24 bits, the same float value) as for the same sample in a WAV file. *)
From Coq Require Import ZArith Reals Lia Lra Bool List.
From Flocq Require Import Core IEEE754.BinarySingleNaN.
From KV Require Import Base.IEEE C18.Model C18.ModelFlac C18.ProofsConv C18.ProofsFlac.
Local Open Scope R_scope.

Lemma fexp64_FLT : SpecFloat.fexp 53 1024 = FLT_exp (-1074) 53.
Proof. reflexivity. Qed.

Lemma format64_dyadic : forall m e, (Z.abs m < 2 ^ 53)%Z -> (-1074 <= e)%Z ->
  generic_format radix2 (SpecFloat.fexp 53 1024) (F2R (Float radix2 m e)).
Proof.
  intros m e Hm He. rewrite fexp64_FLT. apply generic_format_FLT.
  exists (Float radix2 m e); auto.
Qed.

Lemma pow53_bpow : IZR (2 ^ 53) = bpow radix2 53.
Proof. replace (2 ^ 53)%Z with (Zpower radix2 53) by reflexivity. apply IZR_Zpower. lia. Qed.

Lemma lt_emax64 : forall r, Rabs r < bpow radix2 53 -> Rlt_bool (Rabs r) (bpow radix2 1024) = true.
Proof.
  intros r H. apply Rlt_bool_true. apply Rlt_trans with (1 := H). apply bpow_lt. lia.
Qed.

Lemma Z64_exact : forall x, (Z.abs x < 2 ^ 53)%Z -> B2R (Z64 x) = IZR x /\ is_finite (Z64 x) = true.
Proof.
  intros x H. unfold Z64, of_Z.
  pose proof (binary_normalize_correct 53 1024 Hprec64 Hmax64 mode_NE x 0 false) as C. cbv zeta in C.
  assert (HF : F2R (Float radix2 x 0) = IZR x) by (unfold F2R; simpl; ring).
  rewrite round_generic in C; [|apply valid_rnd_N|apply format64_dyadic; lia].
  rewrite HF in C. rewrite lt_emax64 in C.
  - destruct C as (A & B & _). now split.
  - rewrite <- abs_IZR, <- pow53_bpow. now apply IZR_lt.
Qed.

Lemma abs_scaled_lt64 : forall x k, (Z.abs x < 2 ^ 53)%Z -> (0 <= k)%Z ->
  Rabs (F2R (Float radix2 x (- k))) < bpow radix2 53.
Proof.
  intros x k Hx Hk. unfold F2R. cbn [Fnum Fexp]. rewrite Rabs_mult.
  rewrite (Rabs_pos_eq (bpow radix2 (- k))) by apply bpow_ge_0.
  apply Rle_lt_trans with (Rabs (IZR x) * 1).
  - apply Rmult_le_compat_l; [apply Rabs_pos|].
    change 1 with (bpow radix2 0). apply bpow_le. lia.
  - rewrite Rmult_1_r, <- abs_IZR, <- pow53_bpow. now apply IZR_lt.
Qed.

(** [y as f64 / 2^31] is exact *)
Lemma div64_exact : forall y, (Z.abs y < 2 ^ 53)%Z ->
  B2R (div64 (Z64 y) (Z64 2147483648)) = F2R (Float radix2 y (-31)) /\
  is_finite (div64 (Z64 y) (Z64 2147483648)) = true.
Proof.
  intros y Hy.
  destruct (Z64_exact y Hy) as [By Fy].
  destruct (Z64_exact 2147483648 ltac:(cbn; lia)) as [Bd Fd].
  assert (Hd : B2R (Z64 2147483648) <> 0) by (rewrite Bd; apply IZR_neq; lia).
  pose proof (Bdiv_correct 53 1024 Hprec64 Hmax64 mode_NE (Z64 y) (Z64 2147483648) Hd) as C.
  rewrite By, Bd in C.
  replace (IZR y / IZR 2147483648) with (F2R (Float radix2 y (-31))) in C
    by (symmetry; exact (div_as_F2R y 31 ltac:(lia))).
  rewrite round_generic in C; [|apply valid_rnd_N|apply format64_dyadic; lia].
  rewrite lt_emax64 in C by (apply (abs_scaled_lt64 y 31); lia).
  destruct C as (A & B & _). unfold div64, fdiv. rewrite A, B, Fy. now split.
Qed.

(** the cast of a binary64 number that is representable in binary32 is exact *)
Lemma f64_to_f32_exact : forall (y : f64), is_finite y = true ->
  generic_format radix2 (SpecFloat.fexp 24 128) (B2R y) -> Rabs (B2R y) < bpow radix2 24 ->
  B2R (f64_to_f32 y) = B2R y /\ is_finite (f64_to_f32 y) = true.
Proof.
  intros y Fy Gy Ay. destruct y as [s|s| |s m e He]; try discriminate.
  - split; reflexivity.
  - unfold f64_to_f32.
    pose proof (binary_normalize_correct 24 128 Hprec32 Hmax32 mode_NE (cond_Zopp s (Zpos m)) e s) as C.
    cbv zeta in C.
    change (F2R (Float radix2 (cond_Zopp s (Z.pos m)) e)) with (B2R (B754_finite s m e He : f64)) in C.
    rewrite round_generic in C; [|apply valid_rnd_N|exact Gy].
    rewrite lt_emax32 in C by exact Ay.
    destruct C as (A & B & _). now split.
Qed.

(** the rational number a FLAC sample of [bits] bits denotes *)
Definition fl_value (b : fbps) (x : Z) : R := IZR x / IZR (2 ^ (fbits b - 1)).

Lemma scaled_value : forall b x,
  F2R (Float radix2 (x * 2 ^ (32 - fbits b)) (-31)) = F2R (Float radix2 x (- (fbits b - 1))).
Proof.
  intros b x. unfold F2R. cbn [Fnum Fexp]. rewrite mult_IZR.
  replace (IZR (2 ^ (32 - fbits b))) with (bpow radix2 (32 - fbits b))
    by (destruct b; cbn [fbits]; rewrite <- IZR_Zpower by lia; reflexivity).
  rewrite Rmult_assoc, <- bpow_plus. f_equal. f_equal. lia.
Qed.

Lemma fl_conv_exact_lemma : forall b x, fsample_ok b x ->
  is_finite (fl_conv b x) = true /\ B2R (fl_conv b x) = fl_value b x.
Proof.
  intros b x H. unfold fsample_ok in H. unfold fl_conv, conv.
  assert (Hx : (Z.abs x <= 2 ^ 23)%Z) by (destruct b; cbn [fbits] in H; cbn in H; lia).
  assert (Hy : (Z.abs (x * 2 ^ (32 - fbits b)) < 2 ^ 53)%Z).
  { rewrite Z.abs_mul. destruct b; cbn [fbits]; cbn; lia. }
  destruct (div64_exact _ Hy) as [Bd Fd]. rewrite scaled_value in Bd.
  assert (G : generic_format radix2 (SpecFloat.fexp 24 128) (F2R (Float radix2 x (- (fbits b - 1))))).
  { apply format32_dyadic; [lia|destruct b; cbn; lia]. }
  assert (A : Rabs (F2R (Float radix2 x (- (fbits b - 1)))) < bpow radix2 24).
  { apply abs_scaled_lt; [lia|destruct b; cbn; lia]. }
  rewrite <- Bd in G, A.
  destruct (f64_to_f32_exact _ Fd G A) as [Bc Fc].
  split; [exact Fc|]. rewrite Bc, Bd. unfold fl_value.
  rewrite <- (div_as_F2R x (fbits b - 1)) by (destruct b; cbn; lia). reflexivity.
Qed.

Lemma fl_value_lt : forall b x y, (x < y)%Z -> fl_value b x < fl_value b y.
Proof.
  intros b x y H. unfold fl_value.
  assert (0 < IZR (2 ^ (fbits b - 1))) by (apply IZR_lt; destruct b; cbn; lia).
  assert (IZR x < IZR y) by now apply IZR_lt.
  unfold Rdiv. apply Rmult_lt_compat_r; [now apply Rinv_0_lt_compat|assumption].
Qed.

Lemma fl_value_range : forall b x, fsample_ok b x -> -1 <= fl_value b x < 1.
Proof.
  intros b x H. unfold fsample_ok in H. unfold fl_value.
  set (d := (2 ^ (fbits b - 1))%Z) in *.
  assert (Hd : 0 < IZR d) by (apply IZR_lt; unfold d; destruct b; cbn; lia).
  assert (Hlo : IZR (- d) <= IZR x) by (apply IZR_le; lia).
  assert (Hhi : IZR x < IZR d) by (apply IZR_lt; lia).
  rewrite opp_IZR in Hlo. split.
  - apply Rmult_le_reg_r with (IZR d); [assumption|]. unfold Rdiv. rewrite Rmult_assoc, Rinv_l by lra. lra.
  - apply Rmult_lt_reg_r with (IZR d); [assumption|]. unfold Rdiv. rewrite Rmult_assoc, Rinv_l by lra. lra.
Qed.

Lemma fl_conv_monotone_lemma : forall b x y, fsample_ok b x -> fsample_ok b y ->
  (x < y)%Z -> lt32 (fl_conv b x) (fl_conv b y) = true.
Proof.
  intros b x y Hx Hy Hlt.
  destruct (fl_conv_exact_lemma b x Hx) as [Fx Vx]. destruct (fl_conv_exact_lemma b y Hy) as [Fy Vy].
  unfold lt32, flt. rewrite Bltb_correct by assumption. rewrite Vx, Vy.
  apply Rlt_bool_true. now apply fl_value_lt.
Qed.

Lemma fl_conv_injective_lemma : forall b x y, fsample_ok b x -> fsample_ok b y ->
  fl_conv b x = fl_conv b y -> x = y.
Proof.
  intros b x y Hx Hy E.
  destruct (fl_conv_exact_lemma b x Hx) as [_ Vx]. destruct (fl_conv_exact_lemma b y Hy) as [_ Vy].
  rewrite E, Vy in Vx.
  destruct (Z.lt_trichotomy x y) as [L|[L|L]]; [|assumption|].
  - pose proof (fl_value_lt b x y L). lra.
  - pose proof (fl_value_lt b y x L). lra.
Qed.

Lemma fl_conv_in_unit_lemma : forall b x, fsample_ok b x ->
  le32 (Z32 (-1)) (fl_conv b x) = true /\ lt32 (fl_conv b x) (Z32 1) = true.
Proof.
  intros b x H. destruct (fl_conv_exact_lemma b x H) as [Fin V].
  destruct (fl_value_range b x H) as [Lo Hi]. rewrite <- V in Lo, Hi.
  destruct (Z32_exact (-1) ltac:(cbn; lia)) as [Bm Fm]. destruct (Z32_exact 1 ltac:(cbn; lia)) as [B1 F1].
  unfold le32, fle, lt32, flt. rewrite Bleb_correct, Bltb_correct by assumption.
  rewrite Bm, B1. split; [apply Rle_bool_true|apply Rlt_bool_true]; assumption.
Qed.

(** the same sample in a WAV file of the same size loads to a float of the same value
    (8-bit WAV samples are unsigned with offset 128) *)
Definition wav_twin (b : fbps) (x : Z) : sfmt * Z :=
  match b with B8 => (U8, x + 128) | B16 => (I16, x) | B24 => (I24, x) end%Z.

Lemma fl_conv_wav_lemma : forall b x, fsample_ok b x ->
  let (f, x') := wav_twin b x in
  exact_fmt f /\ sample_ok f x' /\ B2R (fl_conv b x) = B2R (conv f x').
Proof.
  intros b x H. destruct (fl_conv_exact_lemma b x H) as [_ V]. unfold fsample_ok in H.
  destruct b; cbn [wav_twin fbits] in *; cbn in H.
  - assert (E : exact_fmt U8) by (left; reflexivity).
    assert (S : sample_ok U8 (x + 128)) by (unfold sample_ok; cbn; lia).
    split; [exact E|split; [exact S|]]. destruct (conv_exact_lemma U8 (x + 128) E S) as [_ W].
    rewrite V, W. unfold fl_value, value_of. cbn [fbits]. replace (x + 128 - 128)%Z with x by lia. reflexivity.
  - assert (E : exact_fmt I16) by (right; left; reflexivity).
    assert (S : sample_ok I16 x) by (unfold sample_ok; cbn; lia).
    split; [exact E|split; [exact S|]]. destruct (conv_exact_lemma I16 x E S) as [_ W].
    rewrite V, W. reflexivity.
  - assert (E : exact_fmt I24) by (right; right; reflexivity).
    assert (S : sample_ok I24 x) by (unfold sample_ok; cbn; lia).
    split; [exact E|split; [exact S|]]. destruct (conv_exact_lemma I24 x E S) as [_ W].
    rewrite V, W. reflexivity.
Qed.

(** * the statements of Props.v *)
Lemma fl_conv_exact_wav_lemma : forall b x, fsample_ok b x ->
  is_finite (fl_conv b x) = true /\ B2R (fl_conv b x) = fl_value b x /\
  let (f, x') := wav_twin b x in
  exact_fmt f /\ sample_ok f x' /\ B2R (fl_conv b x) = B2R (conv f x').
Proof.
  intros b x H. destruct (fl_conv_exact_lemma b x H) as [F V].
  split; [exact F|split; [exact V|exact (fl_conv_wav_lemma b x H)]].
Qed.

Lemma fl_conv_order_lemma : forall b x y, fsample_ok b x -> fsample_ok b y ->
  (le32 (Z32 (-1)) (fl_conv b x) = true /\ lt32 (fl_conv b x) (Z32 1) = true) /\
  ((x < y)%Z -> lt32 (fl_conv b x) (fl_conv b y) = true) /\
  (fl_conv b x = fl_conv b y -> x = y).
Proof.
  intros b x y Hx Hy. split; [now apply fl_conv_in_unit_lemma|]. split.
  - now apply fl_conv_monotone_lemma.
  - now apply fl_conv_injective_lemma.
Qed.
