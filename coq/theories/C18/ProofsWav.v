(** C18 — proofs about the WAV model: little-endian fields, round trip, the static-load
    specification, truncation. *)
From Coq Require Import ZArith List Bool Lia Arith.
From KV Require Import Base.IEEE Base.Outcome C18.Model.
Import ListNotations.
Local Open Scope Z_scope.

(** * little-endian fields *)
Lemma le_bytes_length : forall n x, length (le_bytes n x) = n.
Proof. induction n as [|n IH]; intros x; cbn [le_bytes length]; [reflexivity|now rewrite IH]. Qed.

Lemma le_val_le_bytes : forall n x, le_val (le_bytes n x) = x mod 256 ^ Z.of_nat n.
Proof.
  induction n as [|n IH]; intros x.
  - cbn [le_bytes le_val]. change (256 ^ Z.of_nat 0) with 1. now rewrite Z.mod_1_r.
  - cbn [le_bytes le_val]. rewrite IH.
    rewrite Nat2Z.inj_succ, Z.pow_succ_r by lia.
    rewrite Z.rem_mul_r by (try lia; apply Z.pow_nonzero; lia). reflexivity.
Qed.

Lemma le_val_le_bytes_small : forall n x, 0 <= x < 256 ^ Z.of_nat n -> le_val (le_bytes n x) = x.
Proof. intros n x H. rewrite le_val_le_bytes. now apply Z.mod_small. Qed.

(** * samples *)
Lemma dec_enc_sample : forall f x, sample_ok f x -> dec_sample f (enc_sample f x) = x.
Proof.
  intros f x H. unfold dec_sample, enc_sample. rewrite le_val_le_bytes.
  unfold sample_ok in H.
  destruct f; cbn [signed width bits andb] in *;
    change (Z.of_nat 1) with 1 in *; change (Z.of_nat 2) with 2 in *; change (Z.of_nat 3) with 3 in *;
    change (Z.of_nat 4) with 4 in *; change (Z.of_nat 8) with 8 in *;
    cbn in H |- *.
  all: try (apply Z.mod_small; lia).
  all: destruct (Z_lt_dec x 0) as [Hn|Hp].
  all: try (rewrite <- (Z_mod_plus_full x 1); rewrite Z.mod_small by lia;
            match goal with |- (if ?c then _ else _) = _ => destruct c eqn:E end; lia).
  all: rewrite Z.mod_small by lia;
       match goal with |- (if ?c then _ else _) = _ => destruct c eqn:E end; lia.
Qed.

Lemma enc_sample_length : forall f x, length (enc_sample f x) = width f.
Proof. intros; apply le_bytes_length. Qed.

(** * chunking *)
Lemma In_firstn_incl : forall {A} n (l : list A) x, In x (firstn n l) -> In x l.
Proof.
  intros A. induction n as [|n IH]; intros l x H; [destruct H|].
  destruct l as [|y l]; [destruct H|]. cbn in H. destruct H as [->|H]; [now left|right; auto].
Qed.
Section ChunkLemmas.
  Context {A : Type}.

  Lemma take_exact_app : forall (c r : list A), take_exact (length c) (c ++ r) = Some (c, r).
  Proof. induction c as [|x c IH]; intros r; cbn; [reflexivity|now rewrite IH]. Qed.
  Lemma take_exact_short : forall n (l : list A), (length l < n)%nat -> take_exact n l = None.
  Proof.
    induction n as [|n IH]; intros l H; [lia|]. destruct l as [|x l]; cbn; [reflexivity|].
    cbn in H. rewrite IH by lia. reflexivity.
  Qed.
  Lemma concat_length_const : forall n (cs : list (list A)),
      Forall (fun c => length c = n) cs -> length (concat cs) = (n * length cs)%nat.
  Proof.
    intros n cs H. induction H as [|c cs Hc _ IH]; cbn [concat length]; [lia|].
    rewrite app_length, IH, Hc. lia.
  Qed.
  Lemma chunks_fuel_concat : forall n (cs : list (list A)) tail fuel,
      Forall (fun c => length c = n) cs -> (length tail < n)%nat -> (length cs <= fuel)%nat ->
      chunks_fuel fuel n (concat cs ++ tail) = cs.
  Proof.
    intros n cs tail fuel H. revert fuel. induction H as [|c cs Hc _ IH]; intros fuel Ht Hf.
    - cbn [concat app]. destruct fuel; cbn [chunks_fuel]; [reflexivity|].
      now rewrite take_exact_short.
    - destruct fuel as [|fuel]; [cbn in Hf; lia|].
      cbn [concat chunks_fuel]. rewrite <- app_assoc. rewrite <- Hc at 1.
      rewrite take_exact_app. f_equal. apply IH; [assumption|cbn in Hf; lia].
  Qed.
  Lemma chunks_concat : forall n (cs : list (list A)) tail,
      (0 < n)%nat -> Forall (fun c => length c = n) cs -> (length tail < n)%nat ->
      chunks n (concat cs ++ tail) = cs.
  Proof.
    intros n cs tail Hn H Ht. unfold chunks. destruct n as [|n]; [lia|].
    apply chunks_fuel_concat; try assumption.
    rewrite app_length, (concat_length_const _ _ H). nia.
  Qed.
  Lemma firstn_add : forall a b (l : list A), firstn (a + b) l = firstn a l ++ firstn b (skipn a l).
  Proof.
    induction a as [|a IH]; intros b l; [reflexivity|].
    destruct l as [|x l]; cbn [Nat.add firstn skipn app]; [now rewrite firstn_nil|].
    now rewrite IH.
  Qed.
  Lemma chunks_firstn_concat : forall n (cs : list (list A)) j,
      (0 < n)%nat -> Forall (fun c => length c = n) cs -> (j <= n * length cs)%nat ->
      chunks n (firstn j (concat cs)) = firstn (j / n) cs.
  Proof.
    intros n cs j Hn H Hj.
    set (q := (j / n)%nat). set (r := (j mod n)%nat).
    assert (Hjq : j = (n * q + r)%nat) by (apply Nat.div_mod; lia).
    assert (Hr : (r < n)%nat) by (apply Nat.mod_upper_bound; lia).
    assert (Hq : (q <= length cs)%nat) by (unfold q; apply Nat.div_le_upper_bound; lia).
    rewrite <- (firstn_skipn q cs) at 1. rewrite concat_app.
    assert (HA : length (concat (firstn q cs)) = (n * q)%nat).
    { rewrite (concat_length_const n); [rewrite firstn_length, Nat.min_l by exact Hq; reflexivity|].
      rewrite Forall_forall in *. intros c Hc. apply H. eapply In_firstn_incl; eauto. }
    rewrite firstn_app, HA. rewrite (firstn_all2 (concat (firstn q cs))) by lia.
    apply chunks_concat; [assumption| |rewrite firstn_length; lia].
    rewrite Forall_forall in *. intros c Hc. apply H. eapply In_firstn_incl; eauto.
  Qed.
End ChunkLemmas.

(** * frames *)
Definition frame_ok (sp : spec) (fr : list Z) : Prop :=
  Z.of_nat (length fr) = s_channels sp /\ Forall (sample_ok (s_fmt sp)) fr.

Lemma width_pos : forall f, (0 < width f)%nat.
Proof. destruct f; cbn; lia. Qed.

Lemma enc_frame_length : forall f fr, length (enc_frame f fr) = (width f * length fr)%nat.
Proof.
  intros f fr. unfold enc_frame. rewrite (concat_length_const (width f)).
  - now rewrite map_length.
  - apply Forall_forall. intros c Hc. apply in_map_iff in Hc as [x [<- _]]. apply enc_sample_length.
Qed.

Lemma dec_enc_frame : forall f fr, Forall (sample_ok f) fr -> dec_frame f (enc_frame f fr) = fr.
Proof.
  intros f fr H. unfold dec_frame, enc_frame.
  rewrite <- (app_nil_r (concat _)).
  rewrite chunks_concat.
  - rewrite map_map. induction H as [|x fr Hx _ IH]; cbn [map]; [reflexivity|].
    now rewrite dec_enc_sample, IH.
  - apply width_pos.
  - apply Forall_forall. intros c Hc. apply in_map_iff in Hc as [x [<- _]]. apply enc_sample_length.
  - cbn. apply width_pos.
Qed.

Definition blockn (sp : spec) : nat := (Z.to_nat (s_channels sp) * width (s_fmt sp))%nat.

Lemma frames_block : forall sp frames, Forall (frame_ok sp) frames ->
  Forall (fun c => length c = blockn sp) (map (enc_frame (s_fmt sp)) frames).
Proof.
  intros sp frames H. apply Forall_forall. intros c Hc. apply in_map_iff in Hc as [fr [<- Hin]].
  rewrite Forall_forall in H. destruct (H _ Hin) as [Hl _].
  rewrite enc_frame_length. unfold blockn. rewrite <- Hl, Nat2Z.id. lia.
Qed.

Lemma enc_data_length : forall sp frames, Forall (frame_ok sp) frames ->
  length (enc_data (s_fmt sp) frames) = (blockn sp * length frames)%nat.
Proof.
  intros sp frames H. unfold enc_data. rewrite (concat_length_const (blockn sp)).
  - now rewrite map_length.
  - now apply frames_block.
Qed.

Lemma dec_enc_frames : forall sp frames, Forall (frame_ok sp) frames ->
  map (dec_frame (s_fmt sp)) (map (enc_frame (s_fmt sp)) frames) = frames.
Proof.
  intros sp frames H. rewrite map_map. induction H as [|fr frames [_ Hfr] _ IH]; cbn [map]; [reflexivity|].
  now rewrite dec_enc_frame, IH.
Qed.

Lemma chunks_enc_data : forall sp frames tail, (0 < blockn sp)%nat -> Forall (frame_ok sp) frames ->
  (length tail < blockn sp)%nat ->
  chunks (blockn sp) (enc_data (s_fmt sp) frames ++ tail) = map (enc_frame (s_fmt sp)) frames.
Proof. intros sp frames tail Hb H Ht. unfold enc_data. apply chunks_concat; auto using frames_block. Qed.

(** * the header *)
Definition spec_ok (sp : spec) : Prop :=
  1 <= s_channels sp /\ block_of sp < 65536 /\ 0 <= s_rate sp < 2 ^ 32.

Lemma block_of_blockn : forall sp, 0 <= s_channels sp -> block_of sp = Z.of_nat (blockn sp).
Proof. intros sp H. unfold block_of, blockn. rewrite Nat2Z.inj_mul, Z2Nat.id by lia. reflexivity. Qed.

Lemma parse_hdr_header : forall sp dlen rest,
  parse_hdr (header sp dlen ++ rest) =
  {| h_riff_ok := true; h_riff_len := le_val (le_bytes 4 (36 + dlen + dlen mod 2));
     h_wave_ok := true; h_fmt_ok := true; h_fmt_len := 16;
     h_tag := le_val (le_bytes 2 (fmt_tag (s_fmt sp))); h_ch := le_val (le_bytes 2 (s_channels sp));
     h_rate := le_val (le_bytes 4 (s_rate sp));
     h_byte_rate := le_val (le_bytes 4 ((s_rate sp * block_of sp) mod 2 ^ 32));
     h_block := le_val (le_bytes 2 (block_of sp)); h_bits := le_val (le_bytes 2 (bits (s_fmt sp)));
     h_data_ok := true; h_dlen := le_val (le_bytes 4 dlen) |}.
Proof. intros. reflexivity. Qed.

Lemma skipn_header : forall sp dlen rest, skipn 44 (header sp dlen ++ rest) = rest.
Proof. intros. reflexivity. Qed.

Lemma header_length : forall sp dlen, length (header sp dlen) = 44%nat.
Proof. intros. reflexivity. Qed.

Lemma fmt_of_tag_bits : forall f, fmt_of (fmt_tag f) (bits f) = Some f.
Proof. destruct f; reflexivity. Qed.

Lemma tag_small : forall f, 0 <= fmt_tag f < 256 ^ Z.of_nat 2.
Proof. destruct f; cbn; lia. Qed.
Lemma bits_small : forall f, 0 <= bits f < 256 ^ Z.of_nat 2.
Proof. destruct f; cbn; lia. Qed.

Lemma pad_length : forall d, (length (pad d) < 2)%nat.
Proof. intros d. unfold pad. destruct (Z.odd d); cbn; lia. Qed.

(** the size condition a RIFF file imposes: the 32-bit chunk lengths must not overflow *)
Definition size_ok (sp : spec) (frames : list (list Z)) : Prop :=
  36 + Z.of_nat (blockn sp * length frames) + 1 < 2 ^ 32.

Lemma hdr_fields : forall sp frames rest,
  spec_ok sp -> Forall (frame_ok sp) frames -> size_ok sp frames ->
  let dlen := Z.of_nat (length (enc_data (s_fmt sp) frames)) in
  parse_hdr (header sp dlen ++ rest) =
  {| h_riff_ok := true; h_riff_len := 36 + dlen + dlen mod 2;
     h_wave_ok := true; h_fmt_ok := true; h_fmt_len := 16;
     h_tag := fmt_tag (s_fmt sp); h_ch := s_channels sp; h_rate := s_rate sp;
     h_byte_rate := (s_rate sp * block_of sp) mod 2 ^ 32;
     h_block := block_of sp; h_bits := bits (s_fmt sp);
     h_data_ok := true; h_dlen := dlen |}.
Proof.
  intros sp frames rest (Hc & Hb & Hr) Hf Hs dlen. rewrite parse_hdr_header.
  assert (Hd : dlen = Z.of_nat (blockn sp * length frames)) by (unfold dlen; now rewrite enc_data_length).
  unfold size_ok in Hs. rewrite <- Hd in Hs.
  assert (Hm : 0 <= dlen mod 2 < 2) by (apply Z.mod_pos_bound; lia).
  assert (Hbn : 0 <= block_of sp) by (rewrite block_of_blockn by lia; lia).
  assert (Hch : s_channels sp <= block_of sp).
  { unfold block_of. pose proof (width_pos (s_fmt sp)). nia. }
  change (256 ^ Z.of_nat 4) with (2 ^ 32) in *.
  rewrite !le_val_le_bytes_small; try reflexivity.
  all: change (256 ^ Z.of_nat 4) with (2 ^ 32); change (256 ^ Z.of_nat 2) with 65536; try lia.
  - apply bits_small.
  - apply Z.mod_pos_bound; lia.
  - apply tag_small.
Qed.

(** * round trip *)
Lemma wav_roundtrip_lemma : forall sp frames,
  spec_ok sp -> Forall (frame_ok sp) frames -> size_ok sp frames ->
  decode (encode sp frames) = Some (sp, frames).
Proof.
  intros sp frames Hsp Hf Hs. unfold decode, encode.
  set (d := enc_data (s_fmt sp) frames). set (dlen := Z.of_nat (length d)).
  rewrite (hdr_fields sp frames _ Hsp Hf Hs). fold d. fold dlen.
  cbn [h_riff_ok h_wave_ok h_fmt_ok h_data_ok h_fmt_len h_tag h_bits h_ch h_rate h_block h_dlen andb negb Z.eqb].
  change (16 =? 16) with true. cbn [negb andb].
  rewrite fmt_of_tag_bits.
  destruct Hsp as (Hc & Hb & Hr).
  replace (s_channels sp =? 0) with false by (symmetry; apply Z.eqb_neq; lia).
  destruct sp as [f ch rate]. cbn [s_fmt s_channels s_rate] in *.
  rewrite Z.eqb_refl. cbn [orb negb].
  rewrite skipn_header.
  unfold dlen. rewrite Nat2Z.id. rewrite firstn_app, Nat.sub_diag, firstn_O, app_nil_r, firstn_all.
  set (sp := {| s_fmt := f; s_channels := ch; s_rate := rate |}) in *.
  rewrite (block_of_blockn sp) by (cbn; lia). rewrite Nat2Z.id.
  rewrite <- (app_nil_r d). unfold d.
  assert (Hbp : (0 < blockn sp)%nat).
  { unfold blockn. cbn [s_channels s_fmt sp]. pose proof (width_pos f). nia. }
  change f with (s_fmt sp).
  rewrite chunks_enc_data; [|assumption|assumption|cbn; lia].
  now rewrite dec_enc_frames.
Qed.

(** * static load *)
Lemma min_pkt_pos : forall n, (0 < n)%nat -> (0 < Nat.min n PKT)%nat.
Proof. intros n H. unfold PKT. lia. Qed.

Lemma pcm_decode_enc : forall sp frames,
  (0 < blockn sp)%nat -> Forall (frame_ok sp) frames -> (length frames <= PKT)%nat ->
  pcm_decode (s_fmt sp) (Z.to_nat (s_channels sp)) (enc_data (s_fmt sp) frames) = frames.
Proof.
  intros sp frames Hb Hf Hl. unfold pcm_decode. fold (blockn sp).
  rewrite <- (app_nil_r (enc_data _ _)). rewrite chunks_enc_data; [|assumption|assumption|cbn; lia].
  rewrite firstn_all2 by (now rewrite map_length). now apply dec_enc_frames.
Qed.

Lemma enc_data_app : forall f a b, enc_data f (a ++ b) = enc_data f a ++ enc_data f b.
Proof. intros. unfold enc_data. now rewrite map_app, concat_app. Qed.

Lemma Forall_firstn : forall {A} (P : A -> Prop) n l, Forall P l -> Forall P (firstn n l).
Proof.
  intros A P n l H. revert n. induction H as [|x l Hx _ IH]; intros [|n]; cbn; auto.
Qed.
Lemma Forall_skipn : forall {A} (P : A -> Prop) n l, Forall P l -> Forall P (skipn n l).
Proof.
  intros A P n l H. revert n. induction H as [|x l Hx H IH]; intros [|n]; cbn; auto.
Qed.

(** one iteration of the packet loop on (possibly truncated) encoded data *)
Lemma sym_packets_step : forall sp fuel frames tail j,
  (0 < blockn sp)%nat -> Forall (frame_ok sp) frames -> frames <> [] ->
  let m := Nat.min (length frames) PKT in
  (m * blockn sp <= j)%nat ->
  sym_packets (S fuel) (blockn sp) (length frames * blockn sp) (firstn j (enc_data (s_fmt sp) frames ++ tail)) =
  enc_data (s_fmt sp) (firstn m frames)
  :: sym_packets fuel (blockn sp) (length (skipn m frames) * blockn sp)
       (firstn (j - m * blockn sp) (enc_data (s_fmt sp) (skipn m frames) ++ tail)).
Proof.
  intros sp fuel frames tail j Hb Hf Hne m Hj.
  cbn [sym_packets]. rewrite Nat.div_mul by lia.
  destruct (length frames) as [|n] eqn:Hlen; [destruct frames; [congruence|discriminate]|].
  fold m.
  rewrite <- (firstn_skipn m frames) at 1. rewrite enc_data_app, <- app_assoc.
  assert (Hlm : length (enc_data (s_fmt sp) (firstn m frames)) = (m * blockn sp)%nat).
  { rewrite enc_data_length by (now apply Forall_firstn). rewrite firstn_length, Hlen. unfold m.
    replace (Init.Nat.min (Nat.min (S n) PKT) (S n)) with (Nat.min (S n) PKT) by lia. lia. }
  rewrite firstn_app, Hlm. rewrite (firstn_all2 (enc_data (s_fmt sp) (firstn m frames))) by lia.
  rewrite <- Hlm at 1. rewrite take_exact_app. f_equal. f_equal.
  rewrite skipn_length. unfold m. rewrite Hlen. nia.
Qed.

Lemma pcm_decode_trunc : forall sp frames tail j,
  (0 < blockn sp)%nat -> Forall (frame_ok sp) frames ->
  (j <= blockn sp * length frames)%nat -> (j / blockn sp <= PKT)%nat ->
  pcm_decode (s_fmt sp) (Z.to_nat (s_channels sp)) (firstn j (enc_data (s_fmt sp) frames ++ tail)) =
  firstn (j / blockn sp) frames.
Proof.
  intros sp frames tail j Hb Hf Hj Hq.
  rewrite firstn_app. rewrite enc_data_length by assumption.
  replace (j - blockn sp * length frames)%nat with 0%nat by lia. rewrite firstn_O, app_nil_r.
  unfold pcm_decode. fold (blockn sp). unfold enc_data.
  rewrite chunks_firstn_concat; [|assumption|now apply frames_block|now rewrite map_length].
  rewrite firstn_firstn. replace (Nat.min PKT (j / blockn sp)) with (j / blockn sp)%nat by lia.
  rewrite <- firstn_map. now rewrite dec_enc_frames.
Qed.

Lemma sym_frames_short : forall sp fuel frames tail j,
  (0 < blockn sp)%nat -> Forall (frame_ok sp) frames ->
  let m := Nat.min (length frames) PKT in
  (j < m * blockn sp)%nat ->
  concat (map (pcm_decode (s_fmt sp) (Z.to_nat (s_channels sp)))
    (sym_packets (S fuel) (blockn sp) (length frames * blockn sp) (firstn j (enc_data (s_fmt sp) frames ++ tail)))) =
  firstn (j / blockn sp) frames.
Proof.
  intros sp fuel frames tail j Hb Hf m Hj.
  cbn [sym_packets]. rewrite Nat.div_mul by lia.
  destruct (length frames) as [|n] eqn:Hlen; [unfold m in Hj; cbn in Hj; lia|].
  fold m. rewrite take_exact_short by (rewrite firstn_length; lia).
  assert (Hq : (j / blockn sp < m)%nat) by (apply Nat.div_lt_upper_bound; lia).
  destruct (firstn j (enc_data (s_fmt sp) frames ++ tail)) as [|a l] eqn:E.
  - apply (f_equal (@length _)) in E. rewrite firstn_length, app_length, enc_data_length in E by assumption.
    cbn [length] in E. assert (j = 0%nat) by (unfold m in Hj; nia). subst j.
    rewrite Nat.div_0_l by lia. reflexivity.
  - rewrite <- E. cbn [map concat]. rewrite app_nil_r.
    apply pcm_decode_trunc; try assumption; unfold m in *; unfold PKT in *; nia.
Qed.

(** complete data: everything is delivered *)
Lemma sym_frames_full : forall sp fuel frames tail,
  (0 < blockn sp)%nat -> Forall (frame_ok sp) frames -> (length frames < fuel)%nat ->
  concat (map (pcm_decode (s_fmt sp) (Z.to_nat (s_channels sp)))
              (sym_packets fuel (blockn sp) (length frames * blockn sp) (enc_data (s_fmt sp) frames ++ tail))) = frames.
Proof.
  intros sp fuel. induction fuel as [|fuel IH]; intros frames tail Hb Hf Hl; [lia|].
  destruct frames as [|fr0 frames'] eqn:E.
  - cbn [length Nat.mul sym_packets]. rewrite Nat.div_0_l by lia. reflexivity.
  - rewrite <- E in *. assert (Hne : frames <> []) by (rewrite E; discriminate).
    set (m := Nat.min (length frames) PKT).
    rewrite <- (firstn_all (enc_data (s_fmt sp) frames ++ tail)).
    rewrite sym_packets_step; try assumption.
    2:{ fold m. rewrite app_length, enc_data_length by assumption. unfold m. nia. }
    fold m. cbn [map concat].
    rewrite pcm_decode_enc; [|assumption|now apply Forall_firstn|rewrite firstn_length; unfold m; lia].
    assert (Hm : (0 < m)%nat) by (apply min_pkt_pos; rewrite E; cbn; lia).
    rewrite (firstn_all2 (n := (length (enc_data (s_fmt sp) frames ++ tail) - m * blockn sp)%nat) (enc_data (s_fmt sp) (skipn m frames) ++ tail)).
    2:{ rewrite !app_length. rewrite (enc_data_length sp frames) by assumption.
        rewrite (enc_data_length sp (skipn m frames)) by (now apply Forall_skipn).
        rewrite skipn_length. unfold m. nia. }
    rewrite IH; [apply firstn_skipn|assumption|now apply Forall_skipn|rewrite skipn_length; lia].
Qed.

(** truncated data: a prefix is delivered *)
Lemma sym_frames_trunc : forall sp fuel frames tail j,
  (0 < blockn sp)%nat -> Forall (frame_ok sp) frames ->
  exists k,
  concat (map (pcm_decode (s_fmt sp) (Z.to_nat (s_channels sp)))
              (sym_packets fuel (blockn sp) (length frames * blockn sp)
                 (firstn j (enc_data (s_fmt sp) frames ++ tail)))) = firstn k frames.
Proof.
  intros sp fuel. induction fuel as [|fuel IH]; intros frames tail j Hb Hf.
  - exists 0%nat. reflexivity.
  - destruct frames as [|fr0 frames'] eqn:E.
    + exists 0%nat. cbn [length Nat.mul sym_packets]. rewrite Nat.div_0_l by lia. reflexivity.
    + rewrite <- E in *. assert (Hne : frames <> []) by (rewrite E; discriminate).
      set (m := Nat.min (length frames) PKT).
      destruct (le_lt_dec (m * blockn sp) j) as [Hj|Hj].
      * rewrite sym_packets_step by assumption. fold m. cbn [map concat].
        rewrite pcm_decode_enc; [|assumption|now apply Forall_firstn|rewrite firstn_length; unfold m; lia].
        destruct (IH (skipn m frames) tail (j - m * blockn sp)%nat Hb (Forall_skipn _ _ _ Hf)) as [k Hk].
        rewrite Hk. exists (m + k)%nat. now rewrite firstn_add.
      * rewrite sym_frames_short by assumption. now exists (j / blockn sp)%nat.
Qed.

(** the bytes after the header of a truncated file *)
Lemma skipn_firstn_comm' : forall {A} m n (l : list A), skipn m (firstn (m + n) l) = firstn n (skipn m l).
Proof.
  induction m as [|m IH]; intros n l; [reflexivity|].
  destruct l as [|x l]; cbn [Nat.add firstn skipn]; [now rewrite firstn_nil|apply IH].
Qed.

Lemma glue_all_firstn : forall f k frames frs,
  glue_all f frames = Some frs -> glue_all f (firstn k frames) = Some (firstn k frs).
Proof.
  intros f k. induction k as [|k IH]; intros frames frs H; [reflexivity|].
  destruct frames as [|fr frames]; cbn in H |- *.
  - injection H as <-. reflexivity.
  - destruct (glue f fr) as [a|]; [|discriminate].
    destruct (glue_all f frames) as [b|] eqn:Hb; [|discriminate].
    injection H as <-. cbn [firstn]. now rewrite (IH frames b Hb).
Qed.

Lemma glue_all_length : forall f frames frs, glue_all f frames = Some frs -> length frs = length frames.
Proof.
  intros f frames. induction frames as [|fr frames IH]; intros frs H; cbn in H.
  - injection H as <-. reflexivity.
  - destruct (glue f fr) as [a|]; [|discriminate].
    destruct (glue_all f frames) as [b|] eqn:Hb; [|discriminate].
    injection H as <-. cbn. now rewrite (IH b).
Qed.

(** header checks of the lenient loader on a (possibly truncated) encoded file *)
Lemma sym_load_encoded : forall sp frames j,
  spec_ok sp -> s_channels sp <= 26 -> 0 < s_rate sp ->
  Forall (frame_ok sp) frames -> size_ok sp frames ->
  let file := encode sp frames in
  sym_load (firstn (44 + j) file) =
  let data := firstn j (enc_data (s_fmt sp) frames ++ pad (Z.of_nat (length (enc_data (s_fmt sp) frames)))) in
  let pkts := sym_packets (S (length data)) (blockn sp) (length frames * blockn sp) data in
  match pkts with
  | [] => LOk (s_rate sp) []
  | _ => if (s_channels sp =? 1) || (s_channels sp =? 2) then
           match glue_all (s_fmt sp) (concat (map (pcm_decode (s_fmt sp) (Z.to_nat (s_channels sp))) pkts)) with
           | Some frs => LOk (s_rate sp) frs
           | None => LErr
           end
         else LErrChannels
  end.
Proof.
  intros sp frames j Hsp H26 Hr0 Hf Hs file. unfold file, encode.
  set (d := enc_data (s_fmt sp) frames). set (dlen := Z.of_nat (length d)).
  assert (Hfile : firstn (44 + j) (header sp dlen ++ d ++ pad dlen) = header sp dlen ++ firstn j (d ++ pad dlen)).
  { rewrite firstn_app, header_length. rewrite firstn_all2 by (rewrite header_length; lia).
    f_equal. f_equal. lia. }
  rewrite Hfile. unfold sym_load.
  rewrite app_length, header_length.
  replace (44 + length (firstn j (d ++ pad dlen)) <? 44)%nat with false by (symmetry; apply Nat.ltb_ge; lia).
  rewrite (hdr_fields sp frames _ Hsp Hf Hs). fold d. fold dlen.
  cbn [h_riff_ok h_wave_ok h_fmt_ok h_data_ok h_fmt_len h_tag h_bits h_ch h_rate h_block h_dlen h_riff_len andb negb].
  change (16 =? 16) with true. cbn [negb andb].
  assert (Hd : dlen = Z.of_nat (blockn sp * length frames)) by (unfold dlen, d; now rewrite enc_data_length).
  unfold size_ok in Hs. rewrite <- Hd in Hs.
  assert (Hm : 0 <= dlen mod 2 < 2) by (apply Z.mod_pos_bound; lia).
  assert (Hd0 : 0 <= dlen) by lia.
  destruct Hsp as (Hc & Hb & Hr).
  replace (8 >? 36 + dlen + dlen mod 2) with false by (symmetry; rewrite Z.gtb_ltb; apply Z.ltb_ge; lia).
  replace (36 + dlen + dlen mod 2 - 8 <? 16) with false by (symmetry; apply Z.ltb_ge; lia).
  cbn [orb]. rewrite fmt_of_tag_bits.
  replace (s_channels sp <? 1) with false by (symmetry; apply Z.ltb_ge; lia).
  replace (s_channels sp >? 26) with false by (symmetry; rewrite Z.gtb_ltb; apply Z.ltb_ge; lia).
  cbn [orb].
  replace (s_rate sp =? 0) with false by (symmetry; apply Z.eqb_neq; lia).
  replace (24 + 8 >? 36 + dlen + dlen mod 2) with false by (symmetry; rewrite Z.gtb_ltb; apply Z.ltb_ge; lia).
  replace (36 + dlen + dlen mod 2 - 32 <? dlen) with false by (symmetry; apply Z.ltb_ge; lia).
  cbn [andb].
  assert (Hbp : (0 < blockn sp)%nat).
  { unfold blockn. pose proof (width_pos (s_fmt sp)). nia. }
  rewrite (block_of_blockn sp) by lia.
  replace (Z.of_nat (blockn sp) =? 0) with false by (symmetry; apply Z.eqb_neq; lia).
  rewrite skipn_header. rewrite !Nat2Z.id.
  replace (Z.to_nat dlen) with (length frames * blockn sp)%nat by (rewrite Hd, Nat2Z.id; lia).
  reflexivity.
Qed.

(** characterisation of [spec_frames] *)
Lemma spec_frames_mono : forall sp frames,
  s_channels sp = 1 -> Forall (frame_ok sp) frames ->
  spec_frames sp frames = Some (map (fun fr => let m := conv (s_fmt sp) (hd 0 fr) in (m, m)) frames).
Proof.
  intros sp frames Hc Hf. unfold spec_frames. induction Hf as [|fr frames [Hl _] _ IH]; [reflexivity|].
  cbn [glue_all map]. rewrite IH. rewrite Hc in Hl.
  destruct fr as [|m [|? ?]]; cbn in Hl; try lia. reflexivity.
Qed.
Lemma spec_frames_stereo : forall sp frames,
  s_channels sp = 2 -> Forall (frame_ok sp) frames ->
  spec_frames sp frames =
  Some (map (fun fr => (conv (s_fmt sp) (nth 0 fr 0), conv (s_fmt sp) (nth 1 fr 0))) frames).
Proof.
  intros sp frames Hc Hf. unfold spec_frames. induction Hf as [|fr frames [Hl _] _ IH]; [reflexivity|].
  cbn [glue_all map]. rewrite IH. rewrite Hc in Hl.
  destruct fr as [|l [|r [|? ?]]]; cbn in Hl; try lia. reflexivity.
Qed.
Lemma spec_frames_multi : forall sp frames,
  3 <= s_channels sp -> Forall (frame_ok sp) frames -> frames <> [] -> spec_frames sp frames = None.
Proof.
  intros sp frames Hc Hf Hne. unfold spec_frames. destruct Hf as [|fr frames [Hl _] _]; [congruence|].
  cbn [glue_all]. destruct fr as [|a [|b [|c ?]]]; cbn in Hl; try lia. reflexivity.
Qed.

Lemma static_load_lemma : forall sp frames,
  spec_ok sp -> s_channels sp <= 26 -> 0 < s_rate sp ->
  Forall (frame_ok sp) frames -> size_ok sp frames ->
  sym_load (encode sp frames) =
  match frames with
  | [] => LOk (s_rate sp) []
  | _ => match spec_frames sp frames with
         | Some frs => LOk (s_rate sp) frs
         | None => LErrChannels
         end
  end.
Proof.
  intros sp frames Hsp H26 Hr0 Hf Hs.
  set (file := encode sp frames).
  assert (Hlen : length file = (44 + (length file - 44))%nat).
  { unfold file, encode. rewrite app_length, header_length. lia. }
  rewrite <- (firstn_all file). rewrite Hlen. unfold file at 2.
  rewrite (sym_load_encoded sp frames _ Hsp H26 Hr0 Hf Hs). cbv zeta.
  set (d := enc_data (s_fmt sp) frames). set (tail := pad (Z.of_nat (length d))).
  assert (Hall : firstn (length file - 44) (d ++ tail) = d ++ tail).
  { apply firstn_all2. unfold file, encode. fold d. fold tail. rewrite !app_length, header_length. lia. }
  rewrite Hall.
  assert (Hbp : (0 < blockn sp)%nat).
  { destruct Hsp as (Hc & _). unfold blockn. pose proof (width_pos (s_fmt sp)). nia. }
  pose proof (sym_frames_full sp (S (length (d ++ tail))) frames tail Hbp Hf) as Hfull.
  fold d in Hfull.
  assert (Hlt : (length frames < S (length (d ++ tail)))%nat).
  { rewrite app_length. unfold d. rewrite enc_data_length by assumption. nia. }
  specialize (Hfull Hlt).
  destruct frames as [|fr0 frames'] eqn:E.
  - cbn [length Nat.mul sym_packets]. rewrite Nat.div_0_l by lia. reflexivity.
  - rewrite <- E in *.
    destruct (sym_packets _ _ _ _) as [|p ps] eqn:Ep.
    + cbn in Hfull. rewrite E in Hfull. discriminate.
    + rewrite Hfull. destruct Hsp as (Hc & _).
      destruct (Z.eq_dec (s_channels sp) 1) as [H1|H1]; [|destruct (Z.eq_dec (s_channels sp) 2) as [H2'|H2']].
      * rewrite H1. cbn [Z.eqb Pos.eqb orb].
        change (glue_all (s_fmt sp) frames) with (spec_frames sp frames).
        rewrite (spec_frames_mono sp frames H1 Hf). reflexivity.
      * rewrite H2'. cbn [Z.eqb Pos.eqb orb].
        change (glue_all (s_fmt sp) frames) with (spec_frames sp frames).
        rewrite (spec_frames_stereo sp frames H2' Hf). reflexivity.
      * replace (s_channels sp =? 1) with false by (symmetry; now apply Z.eqb_neq).
        replace (s_channels sp =? 2) with false by (symmetry; now apply Z.eqb_neq).
        cbn [orb]. rewrite spec_frames_multi; [reflexivity|lia|assumption|rewrite E; discriminate].
Qed.

Lemma truncation_lemma : forall sp frames j frs,
  spec_ok sp -> s_channels sp <= 2 -> 0 < s_rate sp ->
  Forall (frame_ok sp) frames -> size_ok sp frames ->
  spec_frames sp frames = Some frs ->
  exists k, sym_load (firstn (44 + j) (encode sp frames)) = LOk (s_rate sp) (firstn k frs).
Proof.
  intros sp frames j frs Hsp H2 Hr0 Hf Hs Hfrs.
  rewrite (sym_load_encoded sp frames j Hsp ltac:(lia) Hr0 Hf Hs). cbv zeta.
  set (d := enc_data (s_fmt sp) frames). set (tail := pad (Z.of_nat (length d))).
  assert (Hbp : (0 < blockn sp)%nat).
  { destruct Hsp as (Hc & _). unfold blockn. pose proof (width_pos (s_fmt sp)). nia. }
  destruct (sym_frames_trunc sp (S (length (firstn j (d ++ tail)))) frames tail j Hbp Hf) as [k Hk].
  fold d in Hk.
  destruct (sym_packets _ _ _ _) as [|p ps] eqn:Ep.
  - exists 0%nat. reflexivity.
  - rewrite Hk. unfold spec_frames in Hfrs. rewrite (glue_all_firstn _ k _ _ Hfrs).
    destruct Hsp as (Hc & _).
    replace ((s_channels sp =? 1) || (s_channels sp =? 2)) with true; [now exists k|].
    symmetry. apply orb_true_iff. rewrite !Z.eqb_eq. lia.
Qed.


(** a file cut inside its 44-byte header is an error *)
Lemma truncated_header_lemma : forall sp frames k,
  (4 <= k < 44)%nat -> sym_load (firstn k (encode sp frames)) = LErr.
Proof.
  intros sp frames k [H4 H44]. unfold encode.
  set (d := enc_data (s_fmt sp) frames). set (dlen := Z.of_nat (length d)). set (X := d ++ pad dlen).
  do 44 (destruct k as [|k]; [try lia; reflexivity|]). lia.
Qed.
