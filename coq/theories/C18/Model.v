(** C18 — executable model (no proofs).

    1. The RIFF/WAVE PCM subset: [encode : spec -> list (list sample) -> list byte] (the
       property's "independent encoder"; the harness carries the same encoder in Rust and the
       correspondence check compares the bytes) and the strict reference decoder
       [decode : list byte -> option (spec * frames)].
    2. The sample conversions symphonia-core 0.5.5 performs into [f32] (conv.rs):
         u8  : (s as f32) / 128.0 - 1.0          i16 : s as f32 / 32768.0
         i24 : s as f32 / 8388608.0              i32 : (s as f64 / 2147483648.0) as f32
         f32 : s                                 f64 : s as f32
    3. What kira + symphonia do with a file in the canonical 44-byte-header layout
       ([sym_load]): symphonia-format-riff's chunk reader checks, the fmt-chunk checks, the
       simulated packetisation of [next_packet] (1152 blocks of the header's block_align; when
       the source ends early the last packet is short, and the following read of nothing is an
       UnexpectedEof, which kira's loop turns into "end of audio"), symphonia-codec-pcm's decode of one packet (at most 1152 frames of
       channels * width bytes, a trailing partial frame is dropped), kira's
       [load_frames_from_buffer] (mono duplicated, stereo, otherwise
       UnsupportedChannelConfiguration) and the packet loop of
       [StaticSoundData::from_boxed_media_source].
    4. The [Decoder] contract and the part of [DecodeScheduler] that consumes it
       ([frame_at_index], [seek_to_index]). *)
From Coq Require Import ZArith List Bool Lia.
From KV Require Import Base.IEEE Base.Outcome.
Import ListNotations.
Local Open Scope Z_scope.

(** * 1. bytes, little-endian fields *)
Definition byte := Z.

Fixpoint le_bytes (n : nat) (x : Z) : list byte :=
  match n with
  | O => []
  | S n' => (x mod 256) :: le_bytes n' (x / 256)
  end.
Fixpoint le_val (bs : list byte) : Z :=
  match bs with
  | [] => 0
  | b :: bs' => b + 256 * le_val bs'
  end.

Inductive sfmt := U8 | I16 | I24 | I32 | F32 | F64.
Record spec := { s_fmt : sfmt; s_channels : Z; s_rate : Z }.

Definition width (f : sfmt) : nat :=
  match f with U8 => 1 | I16 => 2 | I24 => 3 | I32 => 4 | F32 => 4 | F64 => 8 end%nat.
Definition bits (f : sfmt) : Z := 8 * Z.of_nat (width f).
Definition fmt_tag (f : sfmt) : Z := match f with F32 | F64 => 3 | _ => 1 end.
Definition signed (f : sfmt) : bool := match f with I16 | I24 | I32 => true | _ => false end.
Definition fmt_of (tag bps : Z) : option sfmt :=
  match tag, bps with
  | 1, 8 => Some U8 | 1, 16 => Some I16 | 1, 24 => Some I24 | 1, 32 => Some I32
  | 3, 32 => Some F32 | 3, 64 => Some F64
  | _, _ => None
  end.

(** A sample is an integer: the signed value for I16/I24/I32, the unsigned byte for U8,
    the IEEE bit pattern for F32/F64. *)
Definition sample_ok (f : sfmt) (x : Z) : Prop :=
  if signed f then - 2 ^ (bits f - 1) <= x < 2 ^ (bits f - 1) else 0 <= x < 2 ^ bits f.
Definition sample_okb (f : sfmt) (x : Z) : bool :=
  if signed f then (- 2 ^ (bits f - 1) <=? x) && (x <? 2 ^ (bits f - 1)) else (0 <=? x) && (x <? 2 ^ bits f).

Definition enc_sample (f : sfmt) (x : Z) : list byte := le_bytes (width f) x.
Definition dec_sample (f : sfmt) (bs : list byte) : Z :=
  let u := le_val bs in
  if signed f && (2 ^ (bits f - 1) <=? u) then u - 2 ^ bits f else u.

Definition enc_frame (f : sfmt) (fr : list Z) : list byte := concat (map (enc_sample f) fr).
Definition enc_data (f : sfmt) (frames : list (list Z)) : list byte := concat (map (enc_frame f) frames).

Definition RIFF : list byte := [82; 73; 70; 70].
Definition WAVE : list byte := [87; 65; 86; 69].
Definition FMT_ : list byte := [102; 109; 116; 32].
Definition DATA : list byte := [100; 97; 116; 97].

Definition block_of (sp : spec) : Z := s_channels sp * Z.of_nat (width (s_fmt sp)).

Definition header (sp : spec) (dlen : Z) : list byte :=
  RIFF ++ le_bytes 4 (36 + dlen + dlen mod 2) ++ WAVE
  ++ FMT_ ++ le_bytes 4 16
  ++ le_bytes 2 (fmt_tag (s_fmt sp)) ++ le_bytes 2 (s_channels sp)
  ++ le_bytes 4 (s_rate sp) ++ le_bytes 4 ((s_rate sp * block_of sp) mod 2 ^ 32)
  ++ le_bytes 2 (block_of sp) ++ le_bytes 2 (bits (s_fmt sp))
  ++ DATA ++ le_bytes 4 dlen.

Definition pad (dlen : Z) : list byte := if Z.odd dlen then [0] else [].

Definition encode (sp : spec) (frames : list (list Z)) : list byte :=
  let d := enc_data (s_fmt sp) frames in
  let dlen := Z.of_nat (length d) in
  header sp dlen ++ d ++ pad dlen.

(** ** chunking *)
Section Chunks.
  Context {A : Type}.
  Fixpoint take_exact (n : nat) (l : list A) : option (list A * list A) :=
    match n with
    | O => Some ([], l)
    | S n' =>
        match l with
        | [] => None
        | x :: l' =>
            match take_exact n' l' with
            | Some (a, b) => Some (x :: a, b)
            | None => None
            end
        end
    end.
  Fixpoint chunks_fuel (fuel n : nat) (l : list A) : list (list A) :=
    match fuel with
    | O => []
    | S fuel' =>
        match take_exact n l with
        | None => []
        | Some (c, rest) => c :: chunks_fuel fuel' n rest
        end
    end.
  (** complete groups of [n]; an incomplete tail is dropped *)
  Definition chunks (n : nat) (l : list A) : list (list A) :=
    match n with O => [] | _ => chunks_fuel (length l) n l end.
End Chunks.

Definition sub (bs : list byte) (off len : nat) : list byte := firstn len (skipn off bs).
Fixpoint list_eqb (a b : list Z) : bool :=
  match a, b with
  | [], [] => true
  | x :: a', y :: b' => (x =? y) && list_eqb a' b'
  | _, _ => false
  end.

Record hdr := { h_riff_ok : bool; h_riff_len : Z; h_wave_ok : bool; h_fmt_ok : bool; h_fmt_len : Z;
                h_tag : Z; h_ch : Z; h_rate : Z; h_byte_rate : Z; h_block : Z; h_bits : Z;
                h_data_ok : bool; h_dlen : Z }.
Definition parse_hdr (bs : list byte) : hdr :=
  {| h_riff_ok := list_eqb (sub bs 0 4) RIFF; h_riff_len := le_val (sub bs 4 4);
     h_wave_ok := list_eqb (sub bs 8 4) WAVE; h_fmt_ok := list_eqb (sub bs 12 4) FMT_;
     h_fmt_len := le_val (sub bs 16 4);
     h_tag := le_val (sub bs 20 2); h_ch := le_val (sub bs 22 2); h_rate := le_val (sub bs 24 4);
     h_byte_rate := le_val (sub bs 28 4); h_block := le_val (sub bs 32 2); h_bits := le_val (sub bs 34 2);
     h_data_ok := list_eqb (sub bs 36 4) DATA; h_dlen := le_val (sub bs 40 4) |}.

Definition dec_frame (f : sfmt) (fr : list byte) : list Z := map (dec_sample f) (chunks (width f) fr).

(** Strict reference decoder: canonical layout, consistent fields; the audio is the complete
    frames among the first [dlen] data bytes that are present. *)
Definition decode (bs : list byte) : option (spec * list (list Z)) :=
  let h := parse_hdr bs in
  if negb (h_riff_ok h && h_wave_ok h && h_fmt_ok h && h_data_ok h && (h_fmt_len h =? 16)) then None else
  match fmt_of (h_tag h) (h_bits h) with
  | None => None
  | Some f =>
      let sp := {| s_fmt := f; s_channels := h_ch h; s_rate := h_rate h |} in
      if (h_ch h =? 0) || negb (h_block h =? block_of sp) then None else
      let data := firstn (Z.to_nat (h_dlen h)) (skipn 44 bs) in
      Some (sp, map (dec_frame f) (chunks (Z.to_nat (block_of sp)) data))
  end.

(** * 2. conversions to f32 (symphonia-core conv.rs, [IntoSample<f32>]) *)
Definition conv (f : sfmt) (x : Z) : f32 :=
  match f with
  | U8 => sub32 (div32 (Z32 x) (Z32 128)) (Z32 1)
  | I16 => div32 (Z32 x) (Z32 32768)
  | I24 => div32 (Z32 x) (Z32 8388608)
  | I32 => f64_to_f32 (div64 (Z64 x) (Z64 2147483648))
  | F32 => f32_of_bits x
  | F64 => f64_to_f32 (f64_of_bits x)
  end.

(** kira's [load_frames_from_buffer]: [Frame::from_mono] / [Frame::new]; [None] is
    [FromFileError::UnsupportedChannelConfiguration] *)
Definition glue (f : sfmt) (fr : list Z) : option (f32 * f32) :=
  match fr with
  | [m] => Some (conv f m, conv f m)
  | [l; r] => Some (conv f l, conv f r)
  | _ => None
  end.
Fixpoint glue_all (f : sfmt) (frs : list (list Z)) : option (list (f32 * f32)) :=
  match frs with
  | [] => Some []
  | fr :: frs' =>
      match glue f fr, glue_all f frs' with
      | Some a, Some b => Some (a :: b)
      | _, _ => None
      end
  end.

(** the frames kira is SPECIFIED to produce from the audio (spec, samples) *)
Definition spec_frames (sp : spec) (frames : list (list Z)) : option (list (f32 * f32)) :=
  glue_all (s_fmt sp) frames.

(** * 3. what symphonia + kira do with the bytes *)
Inductive load_result :=
| LOk (rate : Z) (frames : list (f32 * f32))
| LErrChannels            (* FromFileError::UnsupportedChannelConfiguration *)
| LErr                    (* any other FromFileError *)
| LPanic
| LUnmodelled.            (* layout outside the canonical 44-byte header: not predicted *)

Definition PKT : nat := 1152.

(** symphonia-format-riff [next_packet], called until it fails.  [left] = data_end_pos - pos
    (from the header's data length), [data] = the bytes really present from pos on. *)
Fixpoint sym_packets (fuel block left : nat) (data : list byte) : list (list byte) :=
  match fuel with
  | O => []
  | S fuel' =>
      let blocks_left := Nat.div left block in
      match blocks_left with
      | O => []                                   (* end_of_stream_error: UnexpectedEof *)
      | _ =>
          let plen := (Nat.min blocks_left PKT * block)%nat in
          match take_exact plen data with
          | None =>                               (* the source ends inside the packet: *)
              match data with
              | [] => []                          (* nothing read: UnexpectedEof *)
              | _ => [data]                       (* read_boxed_slice returns the short read; the
                                                     next call reads nothing and ends the loop *)
              end
          | Some (p, rest) => p :: sym_packets fuel' block (left - plen) rest
          end
      end
  end.

(** symphonia-codec-pcm: an AudioBuffer of capacity 1152 is filled frame by frame until the
    packet runs out; the read error of a partial frame is ignored *)
Definition pcm_decode (f : sfmt) (ch : nat) (p : list byte) : list (list Z) :=
  map (dec_frame f) (firstn PKT (chunks (ch * width f) p)).

Definition sym_frames (f : sfmt) (ch block : nat) (dlen : nat) (data : list byte) : list (list Z) :=
  concat (map (pcm_decode f ch) (sym_packets (S (length data)) block dlen data)).

Definition u32max : Z := 2 ^ 32 - 1.

Definition sym_load (bs : list byte) : load_result :=
  if (length bs <? 44)%nat then
    (if list_eqb (sub bs 0 4) RIFF then LErr else LUnmodelled)
  else
  let h := parse_hdr bs in
  if negb (h_riff_ok h) then LUnmodelled else
  if negb (h_wave_ok h) then LErr else
  if negb (h_fmt_ok h && h_data_ok h && (h_fmt_len h =? 16)) then LUnmodelled else
  let L := h_riff_len h in
  (* ChunksReader::next for "fmt " *)
  if (8 >? L) || (L - 8 <? 16) then LErr else
  match fmt_of (h_tag h) (h_bits h) with
  | None => LErr
  | Some f =>
      if (h_ch h <? 1) || (h_ch h >? 26) then LErr else
      if h_rate h =? 0 then LPanic else            (* TimeBase::new(1, 0) *)
      (* ChunksReader::next for "data" *)
      if (24 + 8 >? L) then LErr else
      if (L - 32 <? h_dlen h) && negb ((L =? h_dlen h) && (h_dlen h =? u32max)) then LErr else
      if h_block h =? 0 then LErr else              (* next_packet: "riff: block size is 0" *)
      let data := skipn 44 bs in
      let ch := Z.to_nat (h_ch h) in
      let pkts := sym_packets (S (length data)) (Z.to_nat (h_block h)) (Z.to_nat (h_dlen h)) data in
      match pkts with
      | [] => LOk (h_rate h) []
      | _ =>
          (* load_frames_from_buffer looks at the channel count of every decoded buffer first *)
          if (h_ch h =? 1) || (h_ch h =? 2) then
            match glue_all f (concat (map (pcm_decode f ch) pkts)) with
            | Some frs => LOk (h_rate h) frs
            | None => LErr                          (* unreachable: frames have [ch] samples *)
            end
          else LErrChannels
      end
  end.

(** * 4. the Decoder contract and DecodeScheduler::frame_at_index *)
Section Scheduler.
  Context {F : Type}.            (* a frame *)
  Variable zero : F.
  Variable audio : list F.       (* the underlying audio *)

  (** A conforming decoder over [audio]: its state is the index of the next frame it will
      decode; [decode] returns the next packet, whose size (any positive number) is chosen by
      an arbitrary function of the position, or an error at the end; [seek i] lands at an
      arbitrary position [<= i] chosen by an arbitrary function and reports it. *)
  Variable psize : nat -> nat.   (* packet size at a position; the packet is non-empty *)
  Variable land : nat -> nat.    (* where seek lands *)

  Definition dec_decode (pos : nat) : option (list F * nat) :=
    if (length audio <=? pos)%nat then None
    else let p := firstn (S (psize pos)) (skipn pos audio) in Some (p, (pos + length p)%nat).
  Definition dec_seek (i : nat) : nat := Nat.min (land i) i.

  Record sched := { dpos : nat;                 (* decoder state *)
                    cur : nat;                  (* decoder_current_frame_index *)
                    chunk : option (nat * list F) }.

  Definition chunk_frame (c : option (nat * list F)) (index : nat) : option F :=
    match c with
    | None => None
    | Some (start, frames) => if (index <? start)%nat then None else nth_error frames (index - start)
    end.

  Fixpoint decode_loop (fuel : nat) (s : sched) (index : nat) : outcome (option F * sched) :=
    match fuel with
    | O => Hang
    | S fuel' =>
        match dec_decode (dpos s) with
        | None => Ok (None, s)                   (* decoder error: propagated with `?` *)
        | Some (frames, dpos') =>
            let s' := {| dpos := dpos'; cur := (cur s + length frames)%nat; chunk := Some (cur s, frames) |} in
            match chunk_frame (chunk s') index with
            | Some fr => Ok (Some fr, s')
            | None => decode_loop fuel' s' index
            end
        end
    end.

  (** [DecodeScheduler::frame_at_index] for [slice = None]; [None] in the result = Err *)
  Definition frame_at_index (fuel : nat) (num_frames : nat) (s : sched) (index : nat) : outcome (option F * sched) :=
    if (num_frames <=? index)%nat then Ok (Some zero, s) else
    match chunk_frame (chunk s) index with
    | Some fr => Ok (Some fr, s)
    | None =>
        let s1 := if (index <? cur s)%nat
                  then let j := dec_seek index in {| dpos := j; cur := j; chunk := chunk s |}
                  else s in
        decode_loop fuel s1 index
    end.

  (** [seek_to_index] (the transport part is C04/C09's): the decoder is re-positioned *)
  Definition seek_to_index (s : sched) (index : nat) : sched :=
    let j := dec_seek index in {| dpos := j; cur := j; chunk := chunk s |}.

  (** a history: seeks and frame requests in any order *)
  Inductive op := OSeek (i : nat) | OFrame (i : nat).
  Fixpoint run_ops (fuel num_frames : nat) (s : sched) (ops : list op) : outcome (list (option F)) :=
    match ops with
    | [] => Ok []
    | OSeek i :: ops' => run_ops fuel num_frames (seek_to_index s i) ops'
    | OFrame i :: ops' =>
        let! (r, s') := frame_at_index fuel num_frames s i in
        let! rs := run_ops fuel num_frames s' ops' in
        Ok (r :: rs)
    end.

  (** [DecodeScheduler::new]: the decoder is first sent to the start position *)
  Definition sched_new (start : nat) : sched :=
    let j := dec_seek start in {| dpos := j; cur := j; chunk := None |}.

  (** the scheduler's [run] loop without loop region: which (frame, index) pairs reach the
      ring.  [STick] = one iteration of [run] (frame_at_index(position), push, increment
      position, end when position >= num_frames); [SSeek i] = a seek_to command *)
  Inductive sop := STick | SSeek (i : nat).
  Fixpoint run_stream (fuel n : nat) (s : sched) (pos : nat) (ops : list sop) : outcome (list (option F * nat)) :=
    match ops with
    | [] => Ok []
    | SSeek i :: ops' => run_stream fuel n (seek_to_index s i) i ops'
    | STick :: ops' =>
        let! (r, s') := frame_at_index fuel n s pos in
        if (n <=? S pos)%nat then Ok [(r, pos)]
        else let! rest := run_stream fuel n s' (S pos) ops' in Ok ((r, pos) :: rest)
    end.
End Scheduler.

(** the transport order, a function of the history alone *)
Fixpoint positions (n pos : nat) (ops : list sop) : list nat :=
  match ops with
  | [] => []
  | SSeek i :: ops' => positions n i ops'
  | STick :: ops' => pos :: (if (n <=? S pos)%nat then [] else positions n (S pos) ops')
  end.
