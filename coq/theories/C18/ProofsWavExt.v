(** C18 — WAVE_FORMAT_EXTENSIBLE: round trip, and the specified load result does not depend on
    the channel mask. *)
From Coq Require Import ZArith List Bool Lia Arith.
From KV Require Import Base.IEEE Base.Outcome C18.Model C18.ProofsWav C18.ModelWavExt.
Import ListNotations.
Local Open Scope Z_scope.

Definition size_ok_ext (sp : spec) (frames : list (list Z)) : Prop :=
  60 + Z.of_nat (blockn sp * length frames) + 1 < 2 ^ 32.

Lemma parse_hdr_ext_header : forall sp mask dlen rest,
  parse_hdr_ext (header_ext sp mask dlen ++ rest) =
  {| x_riff_ok := true; x_wave_ok := true; x_fmt_ok := true; x_fmt_len := 40; x_tag := 65534;
     x_ch := le_val (le_bytes 2 (s_channels sp)); x_rate := le_val (le_bytes 4 (s_rate sp));
     x_block := le_val (le_bytes 2 (block_of sp)); x_bits := le_val (le_bytes 2 (bits (s_fmt sp)));
     x_cb := 22; x_valid := le_val (le_bytes 2 (bits (s_fmt sp))); x_mask := le_val (le_bytes 4 mask);
     x_sub := le_val (le_bytes 2 (fmt_tag (s_fmt sp))); x_guid_ok := true; x_data_ok := true;
     x_dlen := le_val (le_bytes 4 dlen) |}.
Proof. intros. reflexivity. Qed.

Lemma skipn_header_ext : forall sp mask dlen rest, skipn 68 (header_ext sp mask dlen ++ rest) = rest.
Proof. intros. reflexivity. Qed.

Lemma wav_ext_roundtrip_lemma : forall sp mask frames,
  spec_ok sp -> 0 <= mask < 2 ^ 32 -> Forall (frame_ok sp) frames -> size_ok_ext sp frames ->
  decode_ext (encode_ext sp mask frames) = Some (sp, mask, frames).
Proof.
  intros sp mask frames (Hc & Hb & Hr) Hm Hf Hs. unfold decode_ext, encode_ext.
  set (d := enc_data (s_fmt sp) frames). set (dlen := Z.of_nat (length d)).
  rewrite parse_hdr_ext_header.
  cbn [x_riff_ok x_wave_ok x_fmt_ok x_guid_ok x_data_ok x_fmt_len x_tag x_cb x_ch x_rate x_block x_bits
       x_valid x_mask x_sub x_dlen andb negb].
  change (40 =? 40) with true. change (65534 =? 65534) with true. change (22 =? 22) with true. cbn [andb negb].
  assert (Hd : dlen = Z.of_nat (blockn sp * length frames)) by (unfold dlen, d; now rewrite enc_data_length).
  unfold size_ok_ext in Hs. rewrite <- Hd in Hs.
  assert (Hbn : 0 <= block_of sp) by (rewrite block_of_blockn by lia; lia).
  assert (Hch : s_channels sp <= block_of sp).
  { unfold block_of. pose proof (width_pos (s_fmt sp)). nia. }
  change (256 ^ Z.of_nat 4) with (2 ^ 32) in *.
  rewrite !le_val_le_bytes_small;
    try (change (256 ^ Z.of_nat 4) with (2 ^ 32); change (256 ^ Z.of_nat 2) with 65536; try lia;
         first [apply bits_small | apply tag_small]).
  rewrite fmt_of_tag_bits.
  replace (s_channels sp =? 0) with false by (symmetry; apply Z.eqb_neq; lia).
  destruct sp as [f ch rate]. cbn [s_fmt s_channels s_rate] in *.
  rewrite !Z.eqb_refl. cbn [orb negb].
  rewrite skipn_header_ext.
  unfold dlen. rewrite Nat2Z.id. rewrite firstn_app, Nat.sub_diag, firstn_O, app_nil_r, firstn_all.
  set (sp := {| s_fmt := f; s_channels := ch; s_rate := rate |}) in *.
  rewrite (block_of_blockn sp) by (cbn; lia). rewrite Nat2Z.id.
  rewrite <- (app_nil_r d). unfold d.
  assert (Hbp : (0 < blockn sp)%nat).
  { unfold blockn. cbn [s_channels s_fmt sp]. pose proof (width_pos f). nia. }
  change f with (s_fmt sp).
  rewrite chunks_enc_data; [|assumption|assumption|cbn; lia].
  now rewrite dec_enc_frames.
Qed.

(** the specified load result of an extensible file: the right-hand side does not mention the
    mask *)
Lemma wav_ext_load_lemma : forall sp mask frames,
  spec_ok sp -> 0 <= mask < 2 ^ 32 -> Forall (frame_ok sp) frames -> size_ok_ext sp frames ->
  ref_load_ext (encode_ext sp mask frames) =
  match frames with
  | [] => LOk (s_rate sp) []
  | _ => match spec_frames sp frames with
         | Some frs => LOk (s_rate sp) frs
         | None => LErrChannels
         end
  end.
Proof.
  intros sp mask frames Hsp Hm Hf Hs. unfold ref_load_ext.
  now rewrite (wav_ext_roundtrip_lemma sp mask frames Hsp Hm Hf Hs).
Qed.

Lemma wav_ext_mask_irrelevant_lemma : forall sp m1 m2 frames,
  spec_ok sp -> 0 <= m1 < 2 ^ 32 -> 0 <= m2 < 2 ^ 32 -> Forall (frame_ok sp) frames -> size_ok_ext sp frames ->
  ref_load_ext (encode_ext sp m1 frames) = ref_load_ext (encode_ext sp m2 frames).
Proof.
  intros sp m1 m2 frames Hsp H1 H2 Hf Hs.
  rewrite (wav_ext_load_lemma sp m1 frames Hsp H1 Hf Hs). now rewrite (wav_ext_load_lemma sp m2 frames Hsp H2 Hf Hs).
Qed.

(** the statement of Props.v *)
Lemma wav_ext_lemma : forall sp mask frames,
  spec_ok sp -> 0 <= mask < 2 ^ 32 -> Forall (frame_ok sp) frames -> size_ok_ext sp frames ->
  decode_ext (encode_ext sp mask frames) = Some (sp, mask, frames) /\
  ref_load_ext (encode_ext sp mask frames) =
  match frames with
  | [] => LOk (s_rate sp) []
  | _ => match spec_frames sp frames with
         | Some frs => LOk (s_rate sp) frs
         | None => LErrChannels
         end
  end /\
  (forall mask', 0 <= mask' < 2 ^ 32 ->
     ref_load_ext (encode_ext sp mask' frames) = ref_load_ext (encode_ext sp mask frames)).
Proof.
  intros sp mask frames Hsp Hm Hf Hs. split; [now apply wav_ext_roundtrip_lemma|]. split.
  - now apply wav_ext_load_lemma.
  - intros mask' Hm'. now apply wav_ext_mask_irrelevant_lemma.
Qed.

(** non-vacuity: a mono 24-bit "front centre" file and a "centre + LFE" pair *)
Example ex_ext_mono_fc :
  match ref_load_ext (encode_ext {| s_fmt := I24; s_channels := 1; s_rate := 48000 |} 4 [[-8388608]; [4194304]]) with
  | LOk r f => (r, map (fun '(l, r) => (bits_of_f32 l, bits_of_f32 r)) f)
  | _ => (0, [])
  end = (48000, [(0xBF800000, 0xBF800000); (0x3F000000, 0x3F000000)]).
Proof. vm_compute. reflexivity. Qed.
Example ex_ext_pair_not_lr :
  decode_ext (encode_ext {| s_fmt := F32; s_channels := 2; s_rate := 44100 |} 12 [[0x3F800000; 0]]) =
  Some ({| s_fmt := F32; s_channels := 2; s_rate := 44100 |}, 12, [[0x3F800000; 0]]).
Proof. vm_compute. reflexivity. Qed.
Example ex_ext_length : length (encode_ext {| s_fmt := U8; s_channels := 1; s_rate := 8000 |} 4 [[1]]) = 70%nat.
Proof. vm_compute. reflexivity. Qed.
