(** C18 — entry points of the correspondence check (model side). *)
From Coq Require Import ZArith List Bool.
From KV Require Import Base.IEEE Base.Outcome Base.Corr C18.Model C18.ModelWavExt C18.ModelFlac.
Import ListNotations.
Local Open Scope Z_scope.

Inductive case :=
(** a valid file: the harness's own encoder produced bytes with FNV-1a hash [hash] from
    (format tag, bits, channels, rate, interleaved samples); kira loaded them *)
| CStatic (tag bps ch rate : Z) (samples : list Z)
(** the same under a WAVE_FORMAT_EXTENSIBLE header with channel mask [mask] *)
| CStaticExt (tag bps ch rate mask : Z) (samples : list Z)
(** arbitrary bytes in the canonical layout (corrupted / truncated files) *)
| CBytes (bs : list Z)
(** the scheduler model over a decoder with symphonia's WAV packetisation: which frame
    indices reach the ring when streaming [n] frames from [start] *)
| CStreamStart (n start : Z)
(** a FLAC file of the subset written by the harness's own encoder from (bits, channels, rate,
    block size, frames), optionally with the defect (dk, da, dc) in frame [k] ([k < 0]: none),
    optionally cut to its first [cut] bytes ([cut < 0]: whole); kira loaded it: the bytes (FNV
    hash) and the outcome the reference decoder specifies, samples as integers *)
| CFlac (bits ch rate bs : Z) (frames : list fframe) (k dk da dc cut : Z)
(** the same file; only the bytes and the verdict of the reference decoder (why it stops, after
    how many frames) are compared -- with what the harness's monitor assumes *)
| CFlacStop (bits ch rate bs : Z) (frames : list fframe) (k dk da dc cut : Z)
(** the conversion of FLAC samples of [bits] bits to f32 *)
| CFlacConv (bits : Z) (xs : list Z).

Definition fnv (bs : list Z) : Z :=
  fold_left (fun h b => (Z.lxor h b * 1099511628211) mod 2 ^ 64) bs 14695981039346656037.

Fixpoint flat_bits (frs : list (f32 * f32)) : list Z :=
  match frs with
  | [] => []
  | (l, r) :: frs' => bits_of_f32 l :: bits_of_f32 r :: flat_bits frs'
  end.
Definition enc_load (r : load_result) : list Z :=
  match r with
  | LOk rate frs => 0 :: rate :: Z.of_nat (length frs) :: flat_bits frs
  | LErrChannels => [1]
  | LErr => [2]
  | LPanic => [3]
  | LUnmodelled => [4]
  end.

Definition group (ch : Z) (samples : list Z) : list (list Z) := chunks (Z.to_nat ch) samples.

(** symphonia's WAV reader as an instance of the Decoder contract: packets of 1152 frames
    (the last one shorter), seeks land on a multiple of 1152 *)
Definition wav_psize (n pos : nat) : nat := (Nat.min PKT (n - pos) - 1)%nat.
Definition wav_land (i : nat) : nat := (Nat.div i PKT * PKT)%nat.

Fixpoint ticks (n : nat) : list sop :=
  match n with O => [] | S n' => STick :: ticks n' end.

(** FLAC: the bytes are compared through a polynomial hash modulo 2^40 (cheaper under
    vm_compute than FNV-1a's 64-bit multiplications) *)
Definition fhash (bs : list Z) : Z := fold_left (fun h b => Z.land (h * 257 + b + 1) 1099511627775) bs 0.

(** FLAC: building blocks of the case terms *)
Definition FF (n : Z) (subs : list subframe) : fframe := {| f_n := n; f_subs := subs |}.
Definition mk_defect (k dk da dc : Z) : option (nat * defect) :=
  if k <? 0 then None else
  let c := Z.to_nat dc in
  match dk with
  | 1 => Some (Z.to_nat k, DResSub c da)
  | 2 => Some (Z.to_nat k, DResSize da)
  | 3 => Some (Z.to_nat k, DWasted c)
  | 4 => Some (Z.to_nat k, DCrc16 da)
  | 5 => Some (Z.to_nat k, DCrc8 da)
  | _ => None
  end.
Definition flac_file (bits ch rate bs : Z) (frames : list fframe) (k dk da dc cut : Z) : option (list Z) :=
  match bps_of bits with
  | None => None
  | Some b =>
      let sp := {| fl_bps := b; fl_ch := ch; fl_rate := rate; fl_bs := bs |} in
      let file := flac_encode_bad sp frames (mk_defect k dk da dc) in
      Some (if cut <? 0 then file else firstn (Z.to_nat cut) file)
  end.
Fixpoint flat_z (frs : list (Z * Z)) : list Z :=
  match frs with
  | [] => []
  | (l, r) :: frs' => l :: r :: flat_z frs'
  end.
Definition enc_zload (r : zload) : list Z :=
  match r with
  | ZOk rate frs => 0 :: rate :: Z.of_nat (length frs) :: flat_z frs
  | ZErrChannels => [1]
  | ZErr => [2]
  end.
Definition stop_code (w : fstop) : Z :=
  match w with
  | StEnd => 0 | StShort => 1 | StLong => 2 | StTrunc => 3 | StBadHeader => 4 | StResSize => 5
  | StCrc8 => 6 | StPadding => 7 | StResSub => 8 | StUnsupSub => 9 | StWasted => 10 | StCrc16 => 11
  | StFuel => 12
  end.

Definition run (c : case) : list Z :=
  match c with
  | CStatic tag bps ch rate samples =>
      match fmt_of tag bps with
      | None => [-1]
      | Some f =>
          let sp := {| s_fmt := f; s_channels := ch; s_rate := rate |} in
          let file := encode sp (group ch samples) in
          fnv file :: enc_load (sym_load file)
      end
  | CStaticExt tag bps ch rate mask samples =>
      match fmt_of tag bps with
      | None => [-1]
      | Some f =>
          let sp := {| s_fmt := f; s_channels := ch; s_rate := rate |} in
          let file := encode_ext sp mask (group ch samples) in
          fnv file :: enc_load (ref_load_ext file)
      end
  | CBytes bs => enc_load (sym_load bs)
  | CStreamStart n start =>
      let n' := Z.to_nat n in
      let audio := seq 0 n' in
      let s0 := sched_new wav_land (Z.to_nat start) in
      match run_stream 0%nat audio (wav_psize n') wav_land (S n') n' s0 (Z.to_nat start) (ticks (S n')) with
      | Ok l => flat_map (fun '(fr, p) => if (p <? n')%nat then [match fr with Some x => Z.of_nat x | None => -1 end] else []) l
      | Panic _ => [-2]
      | Hang => [-3]
      end
  | CFlac bits ch rate bs frames k dk da dc cut =>
      match flac_file bits ch rate bs frames k dk da dc cut with
      | None => [-1]
      | Some file => fhash file :: enc_zload (snd (flac_ref_load_z file))
      end
  | CFlacStop bits ch rate bs frames k dk da dc cut =>
      match flac_file bits ch rate bs frames k dk da dc cut with
      | None => [-1]
      | Some file =>
          fhash file :: match flac_decode file with
                      | None => [-2]
                      | Some (FDec _ frs w) => [stop_code w; Z.of_nat (length frs)]
                      end
      end
  | CFlacConv bits xs =>
      match bps_of bits with
      | None => [-1]
      | Some b => map (fun x => bits_of_f32 (fl_conv b x)) xs
      end
  end.
