(** C18 — entry points of the correspondence check (model side). *)
From Coq Require Import ZArith List Bool.
From KV Require Import Base.IEEE Base.Outcome Base.Corr C18.Model.
Import ListNotations.
Local Open Scope Z_scope.

Inductive case :=
(** a valid file: the harness's own encoder produced bytes with FNV-1a hash [hash] from
    (format tag, bits, channels, rate, interleaved samples); kira loaded them *)
| CStatic (tag bps ch rate : Z) (samples : list Z)
(** arbitrary bytes in the canonical layout (corrupted / truncated files) *)
| CBytes (bs : list Z)
(** the scheduler model over a decoder with symphonia's WAV packetisation: which frame
    indices reach the ring when streaming [n] frames from [start] *)
| CStreamStart (n start : Z).

Definition fnv (bs : list Z) : Z :=
  fold_left (fun h b => (Z.lxor h b * 1099511628211) mod 2 ^ 64) bs 14695981039346656037.

Fixpoint flat_bits (frs : list (f32 * f32)) : list Z :=
  match frs with
  | [] => []
  | (l, r) :: frs' => bits_of_f32 l :: bits_of_f32 r :: flat_bits frs'
  end.
Definition enc_load (r : load_result) : list Z :=
  match r with
  | LOk rate frs => 0 :: rate :: Z.of_nat (length frs) :: flat_bits frs
  | LErrChannels => [1]
  | LErr => [2]
  | LPanic => [3]
  | LUnmodelled => [4]
  end.

Definition group (ch : Z) (samples : list Z) : list (list Z) := chunks (Z.to_nat ch) samples.

(** symphonia's WAV reader as an instance of the Decoder contract: packets of 1152 frames
    (the last one shorter), seeks land on a multiple of 1152 *)
Definition wav_psize (n pos : nat) : nat := (Nat.min PKT (n - pos) - 1)%nat.
Definition wav_land (i : nat) : nat := (Nat.div i PKT * PKT)%nat.

Fixpoint ticks (n : nat) : list sop :=
  match n with O => [] | S n' => STick :: ticks n' end.

Definition run (c : case) : list Z :=
  match c with
  | CStatic tag bps ch rate samples =>
      match fmt_of tag bps with
      | None => [-1]
      | Some f =>
          let sp := {| s_fmt := f; s_channels := ch; s_rate := rate |} in
          let file := encode sp (group ch samples) in
          fnv file :: enc_load (sym_load file)
      end
  | CBytes bs => enc_load (sym_load bs)
  | CStreamStart n start =>
      let n' := Z.to_nat n in
      let audio := seq 0 n' in
      let s0 := sched_new wav_land (Z.to_nat start) in
      match run_stream 0%nat audio (wav_psize n') wav_land (S n') n' s0 (Z.to_nat start) (ticks (S n')) with
      | Ok l => flat_map (fun '(fr, p) => if (p <? n')%nat then [match fr with Some x => Z.of_nat x | None => -1 end] else []) l
      | Panic _ => [-2]
      | Hang => [-3]
      end
  end.
