(** C18 — property theorems.  This file contains nothing but statements closed by [exact]. *)
From Coq Require Import ZArith List Bool Reals.
From Flocq Require Import Core IEEE754.BinarySingleNaN.
From KV Require Import Base.IEEE Base.Outcome C18.Model C18.ModelWavExt C18.ModelFlac C18.ProofsWav C18.ProofsWavExt C18.ProofsFlac C18.ProofsSched C18.ProofsConv C18.ProofsFlacConv.
From KV Require C18.ProofsExamples C18.ProofsFlacExamples.
Import ListNotations.
Local Open Scope Z_scope.

(** Decoding is faithful (file format): for EVERY spec of the subset (any of the six encodings,
    any channel count, any rate) and EVERY list of frames with in-range samples that fits the
    32-bit RIFF length fields, the reference decoder returns exactly the spec and samples the
    independent encoder was given. *)
Theorem wav_roundtrip :
  forall (sp : spec) (frames : list (list Z)),
    spec_ok sp -> Forall (frame_ok sp) frames -> size_ok sp frames ->
    decode (encode sp frames) = Some (sp, frames).
Proof. exact wav_roundtrip_lemma. Qed.

(** Loading is faithful (symphonia + kira as modelled): the static sound has the encoded
    sample rate, and its frames are the specified conversion of the samples, frame by frame
    ([spec_frames]: mono duplicated, stereo as is); more than two channels give
    UnsupportedChannelConfiguration (an empty multichannel file loads as empty). *)
Theorem static_load_spec :
  forall (sp : spec) (frames : list (list Z)),
    spec_ok sp -> s_channels sp <= 26 -> 0 < s_rate sp ->
    Forall (frame_ok sp) frames -> size_ok sp frames ->
    sym_load (encode sp frames) =
    match frames with
    | [] => LOk (s_rate sp) []
    | _ => match spec_frames sp frames with
           | Some frs => LOk (s_rate sp) frs
           | None => LErrChannels
           end
    end.
Proof. exact static_load_lemma. Qed.

Theorem spec_frames_mono_dup :
  forall (sp : spec) (frames : list (list Z)),
    s_channels sp = 1 -> Forall (frame_ok sp) frames ->
    spec_frames sp frames = Some (map (fun fr => let m := conv (s_fmt sp) (hd 0 fr) in (m, m)) frames).
Proof. exact spec_frames_mono. Qed.

Theorem spec_frames_stereo_pair :
  forall (sp : spec) (frames : list (list Z)),
    s_channels sp = 2 -> Forall (frame_ok sp) frames ->
    spec_frames sp frames =
    Some (map (fun fr => (conv (s_fmt sp) (nth 0 fr 0), conv (s_fmt sp) (nth 1 fr 0))) frames).
Proof. exact spec_frames_stereo. Qed.

Theorem spec_frames_multichannel_error :
  forall (sp : spec) (frames : list (list Z)),
    3 <= s_channels sp -> Forall (frame_ok sp) frames -> frames <> [] -> spec_frames sp frames = None.
Proof. exact spec_frames_multi. Qed.

(** Truncated files give the valid prefix: cutting an encoded mono/stereo file anywhere after
    its 44-byte header yields Ok with the encoded rate and a prefix of the full frames. *)
Theorem truncation_prefix :
  forall (sp : spec) (frames : list (list Z)) (j : nat) (frs : list (f32 * f32)),
    spec_ok sp -> s_channels sp <= 2 -> 0 < s_rate sp ->
    Forall (frame_ok sp) frames -> size_ok sp frames ->
    spec_frames sp frames = Some frs ->
    exists k, sym_load (firstn (44 + j) (encode sp frames)) = LOk (s_rate sp) (firstn k frs).
Proof. exact truncation_lemma. Qed.

(** ... and cutting it inside the header (after the RIFF marker) yields an error value. *)
Theorem truncated_header_error :
  forall (sp : spec) (frames : list (list Z)) (k : nat),
    (4 <= k < 44)%nat -> sym_load (firstn k (encode sp frames)) = LErr.
Proof. exact truncated_header_lemma. Qed.

(** Streaming equals loading: over ANY conforming decoder of [audio] (any packet sizes, any
    seek-landing function), from ANY start position and for ANY history of seeks and frame
    requests, [frame_at_index i] returns frame [i] of the audio (silence beyond its end),
    never an error, never exhausting its fuel. *)
Theorem frame_at_index_correct :
  forall (F : Type) (zero : F) (audio : list F) (psize land : nat -> nat)
         (fuel start : nat) (ops : list op),
    (length audio <= fuel)%nat ->
    run_ops zero audio psize land fuel (length audio) (sched_new land start) ops =
    Ok (map (fun i => Some (nth i audio zero)) (requested ops)).
Proof. exact run_ops_from_start. Qed.

(** ... and the (frame, index) pairs the scheduler pushes to the ring are the frames of the
    loaded audio along the transport order, which depends on the history only. *)
Theorem streaming_equals_static :
  forall (F : Type) (zero : F) (audio : list F) (psize land : nat -> nat)
         (fuel start : nat) (ops : list sop),
    (length audio <= fuel)%nat ->
    run_stream zero audio psize land fuel (length audio) (sched_new land start) start ops =
    Ok (map (fun p => (Some (nth p audio zero), p)) (positions (length audio) start ops)).
Proof. exact run_stream_from_start. Qed.

(** The conversions symphonia applies to 8/16/24-bit samples are EXACT in binary32: the float
    is finite and its value is the rational number the sample denotes ((x-128)/128, x/2^15,
    x/2^23) -- nothing is invented or lost by rounding. *)
Theorem conv_exact :
  forall (f : sfmt) (x : Z), exact_fmt f -> sample_ok f x ->
    is_finite (conv f x) = true /\ B2R (conv f x) = value_of f x.
Proof. exact conv_exact_lemma. Qed.

(** ... hence every such sample lies in [-1, 1) ... *)
Theorem conv_in_unit_interval :
  forall (f : sfmt) (x : Z), exact_fmt f -> sample_ok f x ->
    le32 (Z32 (-1)) (conv f x) = true /\ lt32 (conv f x) (Z32 1) = true.
Proof. exact conv_in_unit_lemma. Qed.

(** ... the conversion is strictly monotone ... *)
Theorem conv_monotone :
  forall (f : sfmt) (x y : Z), exact_fmt f -> sample_ok f x -> sample_ok f y ->
    (x < y)%Z -> lt32 (conv f x) (conv f y) = true.
Proof. exact conv_monotone_lemma. Qed.

(** ... and injective: distinct samples stay distinct. *)
Theorem conv_injective :
  forall (f : sfmt) (x y : Z), exact_fmt f -> sample_ok f x -> sample_ok f y ->
    conv f x = conv f y -> x = y.
Proof. exact conv_injective_lemma. Qed.

(** WAVE_FORMAT_EXTENSIBLE headers (what ffmpeg / DAWs write for mono above 16 bits, float, or
    more than two channels): for every spec, every channel mask and every content the reference
    decoder returns spec, mask and samples; the specified load result is the one of the plain
    header -- it depends on the channel COUNT only (mono duplicated, stereo, otherwise
    UnsupportedChannelConfiguration) and is the same for every other mask. *)
Theorem wav_extensible_mask_irrelevant :
  forall (sp : spec) (mask : Z) (frames : list (list Z)),
    spec_ok sp -> 0 <= mask < 2 ^ 32 -> Forall (frame_ok sp) frames -> size_ok_ext sp frames ->
    decode_ext (encode_ext sp mask frames) = Some (sp, mask, frames) /\
    ref_load_ext (encode_ext sp mask frames) =
    match frames with
    | [] => LOk (s_rate sp) []
    | _ => match spec_frames sp frames with
           | Some frs => LOk (s_rate sp) frs
           | None => LErrChannels
           end
    end /\
    (forall mask', 0 <= mask' < 2 ^ 32 ->
       ref_load_ext (encode_ext sp mask' frames) = ref_load_ext (encode_ext sp mask frames)).
Proof. exact wav_ext_lemma. Qed.

(** * A second format: the FLAC subset (STREAMINFO + fixed-blocksize frames, CONSTANT and
    VERBATIM subframes, 8/16/24 bits, 1..8 independent channels, CRC-8 / CRC-16) *)

(** Decoding is faithful (file format): for EVERY spec of the subset and EVERY list of at most
    128 well-formed frames (any mix of CONSTANT / VERBATIM subframes, any in-range samples, the
    last frames possibly shorter), the strict reference decoder returns exactly the spec and
    the frames the independent encoder was given, and reports a complete stream; and what the
    encoder writes is a sequence of bytes. *)
Theorem flac_roundtrip :
  forall (sp : fspec) (frames : list fframe),
    fspec_ok sp -> Forall (fframe_ok sp) frames -> (length frames <= 128)%nat ->
    flac_decode (flac_encode sp frames) = Some (FDec sp frames StEnd) /\
    Forall (fun b => 0 <= b < 256) (flac_encode sp frames).
Proof. exact flac_roundtrip_bytes_lemma. Qed.

(** Bad files: a file that is intact at container level but whose frame [k] (ANY k, ANY
    content) has a defect -- a reserved subframe type in any channel, a reserved sample-size
    code, a wasted-bits flag, a CRC-16 or a CRC-8 mismatch -- decodes to EXACTLY the frames
    before [k] together with the reason ([stop_of d], never [StEnd]): an error that carries the
    valid prefix; nothing of frame [k] or of what follows it is delivered. *)
Theorem flac_bad_frame_stops :
  forall (sp : fspec) (frames : list fframe) (k : nat) (fr : fframe) (d : defect),
    fspec_ok sp -> Forall (fframe_ok sp) frames -> (length frames <= 128)%nat ->
    nth_error frames k = Some fr -> defect_ok fr d ->
    flac_decode (flac_encode_bad sp frames (Some (k, d))) = Some (FDec sp (firstn k frames) (stop_of d)).
Proof. exact flac_bad_frame_lemma. Qed.

(** Truncated files: a file cut anywhere INSIDE frame [k] decodes to exactly the frames before
    [k] and the truncation is reported; a file cut exactly in front of frame [k] to the frames
    before [k], with the announced number of samples not reached. *)
Theorem flac_truncation_prefix :
  forall (sp : fspec) (frames : list fframe) (k : nat) (fr : fframe),
    fspec_ok sp -> Forall (fframe_ok sp) frames -> (length frames <= 128)%nat ->
    nth_error frames k = Some fr ->
    (forall j : nat, (0 < j < length (enc_fframe sp (Z.of_nat k) fr None))%nat ->
       flac_decode (firstn (42 + length (enc_frames sp 0 (firstn k frames) None) + j) (flac_encode sp frames)) =
       Some (FDec sp (firstn k frames) StTrunc)) /\
    flac_decode (firstn (42 + length (enc_frames sp 0 (firstn k frames) None)) (flac_encode sp frames)) =
    Some (FDec sp (firstn k frames) StShort).
Proof. exact flac_truncation_both_lemma. Qed.

(** What a loader is specified to return ([flac_ref_load]; the harness compares kira with it).
    A valid file: the encoded rate and the specified conversion of every time step
    ([fl_spec_frames]); more than two channels: UnsupportedChannelConfiguration. *)
Theorem flac_load_spec :
  forall (sp : fspec) (frames : list fframe),
    fspec_ok sp -> Forall (fframe_ok sp) frames -> (length frames <= 128)%nat ->
    flac_ref_load (flac_encode sp frames) =
    match frames with
    | [] => LOk (fl_rate sp) []
    | _ => match fl_spec_frames sp frames with
           | Some frs => LOk (fl_rate sp) frs
           | None => LErrChannels
           end
    end.
Proof. exact flac_load_lemma. Qed.

(** The specified frames: as many time steps as the frames announce (the frame count); mono
    duplicated to both channels; stereo as is; more channels unsupported. *)
Theorem flac_spec_frames_shape :
  forall (sp : fspec) (frames : list fframe),
    Forall (fframe_ok sp) frames ->
    Z.of_nat (length (fl_audio frames)) = total_of frames /\
    (fl_ch sp = 1 ->
       fl_spec_frames sp frames =
       Some (map (fun st => let m := fl_conv (fl_bps sp) (hd 0 st) in (m, m)) (fl_audio frames))) /\
    (fl_ch sp = 2 ->
       fl_spec_frames sp frames =
       Some (map (fun st => (fl_conv (fl_bps sp) (nth 0 st 0), fl_conv (fl_bps sp) (nth 1 st 0))) (fl_audio frames))) /\
    (3 <= fl_ch sp -> frames <> [] -> fl_spec_frames sp frames = None).
Proof. exact fl_spec_frames_shape_lemma. Qed.

(** A file with a defective frame: an error value.  A file cut inside frame [k] or exactly in
    front of it: the valid prefix of the audio, ending at the boundary of frame [k] (the samples
    of the first [k] frames, nothing else). *)
Theorem flac_load_bad_files :
  forall (sp : fspec) (frames : list fframe) (k : nat) (fr : fframe),
    fspec_ok sp -> Forall (fframe_ok sp) frames -> (length frames <= 128)%nat ->
    nth_error frames k = Some fr ->
    (forall d : defect, defect_ok fr d ->
       flac_ref_load (flac_encode_bad sp frames (Some (k, d))) = LErr) /\
    (forall (j : nat) (frs : list (f32 * f32)),
       (j < length (enc_fframe sp (Z.of_nat k) fr None))%nat ->
       fl_spec_frames sp frames = Some frs ->
       flac_ref_load (firstn (42 + length (enc_frames sp 0 (firstn k frames) None) + j) (flac_encode sp frames)) =
       LOk (fl_rate sp) (firstn (Z.to_nat (total_of (firstn k frames))) frs)).
Proof. exact flac_load_bad_files_lemma. Qed.

(** The conversion of FLAC samples (i32 shifted to the top of the word, divided by 2^31 in
    binary64, cast to binary32) is EXACT for 8/16/24 bits: finite, value x / 2^(bits-1) -- the
    same value as the same sample in a WAV file of that size (existing [conv_exact]) ... *)
Theorem flac_conv_exact :
  forall (b : fbps) (x : Z), fsample_ok b x ->
    is_finite (fl_conv b x) = true /\ B2R (fl_conv b x) = fl_value b x /\
    let (f, x') := wav_twin b x in
    exact_fmt f /\ sample_ok f x' /\ B2R (fl_conv b x) = B2R (conv f x').
Proof. exact fl_conv_exact_wav_lemma. Qed.

(** ... in [-1, 1), strictly monotone and injective. *)
Theorem flac_conv_order :
  forall (b : fbps) (x y : Z), fsample_ok b x -> fsample_ok b y ->
    (le32 (Z32 (-1)) (fl_conv b x) = true /\ lt32 (fl_conv b x) (Z32 1) = true) /\
    ((x < y)%Z -> lt32 (fl_conv b x) (fl_conv b y) = true) /\
    (fl_conv b x = fl_conv b y -> x = y).
Proof. exact fl_conv_order_lemma. Qed.
