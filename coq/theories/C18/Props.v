(** C18 — property theorems.  This file contains nothing but statements closed by [exact]. *)
From Coq Require Import ZArith List Bool Reals.
From Flocq Require Import Core IEEE754.BinarySingleNaN.
From KV Require Import Base.IEEE Base.Outcome C18.Model C18.ProofsWav C18.ProofsSched C18.ProofsConv.
From KV Require C18.ProofsExamples.
Import ListNotations.
Local Open Scope Z_scope.

(** Decoding is faithful (file format): for EVERY spec of the subset (any of the six encodings,
    any channel count, any rate) and EVERY list of frames with in-range samples that fits the
    32-bit RIFF length fields, the reference decoder returns exactly the spec and samples the
    independent encoder was given. *)
Theorem wav_roundtrip :
  forall (sp : spec) (frames : list (list Z)),
    spec_ok sp -> Forall (frame_ok sp) frames -> size_ok sp frames ->
    decode (encode sp frames) = Some (sp, frames).
Proof. exact wav_roundtrip_lemma. Qed.

(** Loading is faithful (symphonia + kira as modelled): the static sound has the encoded
    sample rate, and its frames are the specified conversion of the samples, frame by frame
    ([spec_frames]: mono duplicated, stereo as is); more than two channels give
    UnsupportedChannelConfiguration (an empty multichannel file loads as empty). *)
Theorem static_load_spec :
  forall (sp : spec) (frames : list (list Z)),
    spec_ok sp -> s_channels sp <= 26 -> 0 < s_rate sp ->
    Forall (frame_ok sp) frames -> size_ok sp frames ->
    sym_load (encode sp frames) =
    match frames with
    | [] => LOk (s_rate sp) []
    | _ => match spec_frames sp frames with
           | Some frs => LOk (s_rate sp) frs
           | None => LErrChannels
           end
    end.
Proof. exact static_load_lemma. Qed.

Theorem spec_frames_mono_dup :
  forall (sp : spec) (frames : list (list Z)),
    s_channels sp = 1 -> Forall (frame_ok sp) frames ->
    spec_frames sp frames = Some (map (fun fr => let m := conv (s_fmt sp) (hd 0 fr) in (m, m)) frames).
Proof. exact spec_frames_mono. Qed.

Theorem spec_frames_stereo_pair :
  forall (sp : spec) (frames : list (list Z)),
    s_channels sp = 2 -> Forall (frame_ok sp) frames ->
    spec_frames sp frames =
    Some (map (fun fr => (conv (s_fmt sp) (nth 0 fr 0), conv (s_fmt sp) (nth 1 fr 0))) frames).
Proof. exact spec_frames_stereo. Qed.

Theorem spec_frames_multichannel_error :
  forall (sp : spec) (frames : list (list Z)),
    3 <= s_channels sp -> Forall (frame_ok sp) frames -> frames <> [] -> spec_frames sp frames = None.
Proof. exact spec_frames_multi. Qed.

(** Truncated files give the valid prefix: cutting an encoded mono/stereo file anywhere after
    its 44-byte header yields Ok with the encoded rate and a prefix of the full frames. *)
Theorem truncation_prefix :
  forall (sp : spec) (frames : list (list Z)) (j : nat) (frs : list (f32 * f32)),
    spec_ok sp -> s_channels sp <= 2 -> 0 < s_rate sp ->
    Forall (frame_ok sp) frames -> size_ok sp frames ->
    spec_frames sp frames = Some frs ->
    exists k, sym_load (firstn (44 + j) (encode sp frames)) = LOk (s_rate sp) (firstn k frs).
Proof. exact truncation_lemma. Qed.

(** ... and cutting it inside the header (after the RIFF marker) yields an error value. *)
Theorem truncated_header_error :
  forall (sp : spec) (frames : list (list Z)) (k : nat),
    (4 <= k < 44)%nat -> sym_load (firstn k (encode sp frames)) = LErr.
Proof. exact truncated_header_lemma. Qed.

(** Streaming equals loading: over ANY conforming decoder of [audio] (any packet sizes, any
    seek-landing function), from ANY start position and for ANY history of seeks and frame
    requests, [frame_at_index i] returns frame [i] of the audio (silence beyond its end),
    never an error, never exhausting its fuel. *)
Theorem frame_at_index_correct :
  forall (F : Type) (zero : F) (audio : list F) (psize land : nat -> nat)
         (fuel start : nat) (ops : list op),
    (length audio <= fuel)%nat ->
    run_ops zero audio psize land fuel (length audio) (sched_new land start) ops =
    Ok (map (fun i => Some (nth i audio zero)) (requested ops)).
Proof. exact run_ops_from_start. Qed.

(** ... and the (frame, index) pairs the scheduler pushes to the ring are the frames of the
    loaded audio along the transport order, which depends on the history only. *)
Theorem streaming_equals_static :
  forall (F : Type) (zero : F) (audio : list F) (psize land : nat -> nat)
         (fuel start : nat) (ops : list sop),
    (length audio <= fuel)%nat ->
    run_stream zero audio psize land fuel (length audio) (sched_new land start) start ops =
    Ok (map (fun p => (Some (nth p audio zero), p)) (positions (length audio) start ops)).
Proof. exact run_stream_from_start. Qed.

(** The conversions symphonia applies to 8/16/24-bit samples are EXACT in binary32: the float
    is finite and its value is the rational number the sample denotes ((x-128)/128, x/2^15,
    x/2^23) -- nothing is invented or lost by rounding. *)
Theorem conv_exact :
  forall (f : sfmt) (x : Z), exact_fmt f -> sample_ok f x ->
    is_finite (conv f x) = true /\ B2R (conv f x) = value_of f x.
Proof. exact conv_exact_lemma. Qed.

(** ... hence every such sample lies in [-1, 1) ... *)
Theorem conv_in_unit_interval :
  forall (f : sfmt) (x : Z), exact_fmt f -> sample_ok f x ->
    le32 (Z32 (-1)) (conv f x) = true /\ lt32 (conv f x) (Z32 1) = true.
Proof. exact conv_in_unit_lemma. Qed.

(** ... the conversion is strictly monotone ... *)
Theorem conv_monotone :
  forall (f : sfmt) (x y : Z), exact_fmt f -> sample_ok f x -> sample_ok f y ->
    (x < y)%Z -> lt32 (conv f x) (conv f y) = true.
Proof. exact conv_monotone_lemma. Qed.

(** ... and injective: distinct samples stay distinct. *)
Theorem conv_injective :
  forall (f : sfmt) (x y : Z), exact_fmt f -> sample_ok f x -> sample_ok f y ->
    conv f x = conv f y -> x = y.
Proof. exact conv_injective_lemma. Qed.
