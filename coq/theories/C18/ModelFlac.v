(** C18 — executable model of a FLAC subset (no proofs).

    The subset: one STREAMINFO metadata block, then frames of a fixed-blocksize stream
    (frame number < 128, block size of the frame stored as an 8-bit field, at most the
    STREAMINFO block size; the last frame may be shorter), 8/16/24 bits per sample, 1..8
    independently coded channels, CONSTANT and VERBATIM subframes without wasted bits, CRC-8
    of the frame header and CRC-16 of the frame.  Every field of this subset is a whole number
    of bytes, so the model works on bytes; the two CRCs are defined bit by bit.

    1. [flac_encode : fspec -> list fframe -> list byte], the property's independent encoder
       (the harness carries the same encoder in Rust; the correspondence check compares the
       bytes), and [flac_encode_bad], the same encoder writing ONE frame with a defect that
       leaves the container intact (reserved subframe type, reserved sample-size code,
       wasted-bits flag, CRC-16 or CRC-8 mismatch).
    2. [flac_decode : list byte -> option fdecoded], the strict reference decoder: it reads
       frame after frame and reports the frames decoded BEFORE it stopped together with the
       reason for stopping ([StEnd] = the stream is complete).
    3. [flac_ref_load]: what a loader is specified to return for the bytes (error value for a
       malformed stream, the frames present for a complete or truncated one), as integers
       ([flac_ref_load_z], used by the correspondence check) and as binary32 frames. *)
From Coq Require Import ZArith List Bool Lia.
From KV Require Import Base.IEEE Base.Outcome C18.Model.
Import ListNotations.
Local Open Scope Z_scope.

(** * big-endian fields *)
Definition be_bytes (n : nat) (x : Z) : list byte := rev (le_bytes n x).
Definition be_val (bs : list byte) : Z := le_val (rev bs).

(** * the two CRCs of a FLAC frame, bit by bit (most significant bit first, initial value 0) *)
Definition crc_step (top mask poly c : Z) : Z :=
  let c2 := Z.land (Z.shiftl c 1) mask in            (* shift left, drop the bit that leaves the register *)
  if Z.testbit c top then Z.lxor c2 poly else c2.
Definition iter8 (f : Z -> Z) (x : Z) : Z := f (f (f (f (f (f (f (f x))))))).
(** CRC-8, polynomial x^8 + x^2 + x + 1 *)
Definition crc8_byte (c b : Z) : Z := iter8 (crc_step 7 255 7) (Z.lxor c b).
Definition crc8 (bs : list byte) : Z := fold_left crc8_byte bs 0.
(** CRC-16, polynomial x^16 + x^15 + x^2 + 1 *)
Definition crc16_byte (c b : Z) : Z := iter8 (crc_step 15 65535 32773) (Z.lxor c (b * 256)).
Definition crc16 (bs : list byte) : Z := fold_left crc16_byte bs 0.

(** * the audio description *)
Inductive fbps := B8 | B16 | B24.
Definition fwidth (b : fbps) : nat := match b with B8 => 1 | B16 => 2 | B24 => 3 end%nat.
Definition fbits (b : fbps) : Z := match b with B8 => 8 | B16 => 16 | B24 => 24 end.
(** sample-size code of the frame header *)
Definition fcode (b : fbps) : Z := match b with B8 => 1 | B16 => 4 | B24 => 6 end.
Definition bps_of (bits : Z) : option fbps :=
  match bits with 8 => Some B8 | 16 => Some B16 | 24 => Some B24 | _ => None end.

Record fspec := { fl_bps : fbps; fl_ch : Z; fl_rate : Z; fl_bs : Z }.

(** one channel of one frame *)
Inductive subframe :=
| SConst (v : Z)                (* every sample of the block has this value *)
| SVerb (xs : list Z).          (* the samples, stored as they are *)
Record fframe := { f_n : Z;                     (* block size: time steps in this frame *)
                   f_subs : list subframe }.    (* one per channel *)

(** a defect of ONE frame that leaves the container intact *)
Inductive defect :=
| DResSub (c : nat) (t : Z)     (* subframe [c] announces the type code [t] *)
| DResSize (code : Z)           (* the frame header carries this sample-size code; CRCs recomputed *)
| DWasted (c : nat)             (* subframe [c] has the wasted-bits flag set; CRC-16 recomputed *)
| DCrc16 (d : Z)                (* the frame's CRC-16 field is xor-ed with [d] *)
| DCrc8 (d : Z).                (* the header's CRC-8 field is xor-ed with [d]; CRC-16 recomputed *)

(** * encoder *)
Definition enc_fsample (b : fbps) (x : Z) : list byte := be_bytes (fwidth b) x.
Definition sub_type (s : subframe) : Z := match s with SConst _ => 0 | SVerb _ => 1 end.
Definition sub_payload (b : fbps) (s : subframe) : list byte :=
  match s with
  | SConst v => enc_fsample b v
  | SVerb xs => concat (map (enc_fsample b) xs)
  end.
(** subframe header byte: padding bit 0, six bits of type, wasted-bits flag *)
Definition sub_hdr (s : subframe) (d : option defect) (ci : nat) : Z :=
  match d with
  | Some (DResSub c t) => if (ci =? c)%nat then 2 * t else 2 * sub_type s
  | Some (DWasted c) => if (ci =? c)%nat then 2 * sub_type s + 1 else 2 * sub_type s
  | _ => 2 * sub_type s
  end.
Fixpoint enc_subs (b : fbps) (d : option defect) (ci : nat) (subs : list subframe) : list byte :=
  match subs with
  | [] => []
  | s :: r => (sub_hdr s d ci :: sub_payload b s) ++ enc_subs b d (S ci) r
  end.
(** the frame header without its CRC: sync code + fixed-blocksize flag; block size code 0110
    (8-bit field follows) and sample-rate code 0000 (see STREAMINFO); channel assignment
    (independent, [ch] channels), sample-size code, reserved bit 0; frame number; block size - 1 *)
Definition frame_hdr6 (sp : fspec) (idx n : Z) (d : option defect) : list byte :=
  let code := match d with Some (DResSize c) => c | _ => fcode (fl_bps sp) end in
  [255; 248; 96; (fl_ch sp - 1) * 16 + code * 2; idx; n - 1].
Definition enc_fframe (sp : fspec) (idx : Z) (fr : fframe) (d : option defect) : list byte :=
  let h6 := frame_hdr6 sp idx (f_n fr) d in
  let c8 := match d with Some (DCrc8 x) => Z.lxor (crc8 h6) x | _ => crc8 h6 end in
  let body := h6 ++ c8 :: enc_subs (fl_bps sp) d 0 (f_subs fr) in
  let c16 := match d with Some (DCrc16 x) => Z.lxor (crc16 body) x | _ => crc16 body end in
  body ++ be_bytes 2 c16.

Definition defect_at (bad : option (nat * defect)) (idx : nat) : option defect :=
  match bad with
  | Some (k, d) => if (idx =? k)%nat then Some d else None
  | None => None
  end.
Fixpoint enc_frames (sp : fspec) (idx : nat) (frames : list fframe) (bad : option (nat * defect)) : list byte :=
  match frames with
  | [] => []
  | fr :: r => enc_fframe sp (Z.of_nat idx) fr (defect_at bad idx) ++ enc_frames sp (S idx) r bad
  end.

Definition total_of (frames : list fframe) : Z := fold_right (fun fr a => f_n fr + a) 0 frames.
Definition P36 : Z := 68719476736.          (* 2^36 *)
Definition FLAC_MAGIC : list byte := [102; 76; 97; 67; 128; 0; 0; 34].   (* "fLaC", last block, STREAMINFO, 34 bytes *)
Definition pack_info (sp : fspec) (total : Z) : Z :=
  ((fl_rate sp * 8 + (fl_ch sp - 1)) * 32 + (fbits (fl_bps sp) - 1)) * P36 + total.
Definition stream_hdr (sp : fspec) (total : Z) : list byte :=
  FLAC_MAGIC ++ be_bytes 2 (fl_bs sp) ++ be_bytes 2 (fl_bs sp)
  ++ [0; 0; 0; 0; 0; 0]                               (* minimum / maximum frame size: unknown *)
  ++ be_bytes 8 (pack_info sp total)
  ++ [0; 0; 0; 0; 0; 0; 0; 0; 0; 0; 0; 0; 0; 0; 0; 0]. (* MD5 of the audio: not provided *)

Definition flac_encode_bad (sp : fspec) (frames : list fframe) (bad : option (nat * defect)) : list byte :=
  stream_hdr sp (total_of frames) ++ enc_frames sp 0 frames bad.
Definition flac_encode (sp : fspec) (frames : list fframe) : list byte := flac_encode_bad sp frames None.

(** * strict reference decoder *)
Inductive fstop :=
| StEnd          (* the stream is complete: all announced samples were decoded *)
| StShort        (* the data ends at a frame boundary before the announced number of samples *)
| StLong         (* more samples than announced *)
| StTrunc        (* the data ends inside a frame *)
| StBadHeader    (* sync code, reserved bit, codes outside the subset, channel count, sample size,
                    frame number (a single byte in the subset: below 128) or block size
                    inconsistent with the stream *)
| StResSize      (* reserved sample-size code *)
| StCrc8
| StPadding      (* first bit of a subframe header set *)
| StResSub       (* reserved subframe type *)
| StUnsupSub     (* FIXED / LPC subframe: valid FLAC, outside the subset *)
| StWasted       (* wasted-bits flag: outside the subset *)
| StCrc16
| StFuel.        (* unreachable *)

Inductive fres (A : Type) :=
| FrOk (a : A) (rest : list byte)
| FrStop (why : fstop).
Arguments FrOk {A} a rest.
Arguments FrStop {A} why.

Definition dec_fsample (b : fbps) (bs : list byte) : Z :=
  let u := be_val bs in
  if 2 ^ (fbits b - 1) <=? u then u - 2 ^ fbits b else u.

(** type codes the format reserves: 000010..000111, 001101..001111 (fixed predictor of order
    above 4), 010000..011111 *)
Definition reserved_sub (t : Z) : bool :=
  ((2 <=? t) && (t <=? 7)) || ((13 <=? t) && (t <=? 31)).

Definition parse_sub (b : fbps) (n : nat) (bs : list byte) : fres subframe :=
  match bs with
  | [] => FrStop StTrunc
  | h :: r =>
      if 128 <=? h then FrStop StPadding else
      let t := h / 2 in
      if reserved_sub t then FrStop StResSub else
      if 2 <=? t then FrStop StUnsupSub else
      if Z.odd h then FrStop StWasted else
      if t =? 0 then
        match take_exact (fwidth b) r with
        | None => FrStop StTrunc
        | Some (v, rest) => FrOk (SConst (dec_fsample b v)) rest
        end
      else
        match take_exact (n * fwidth b) r with
        | None => FrStop StTrunc
        | Some (d, rest) => FrOk (SVerb (map (dec_fsample b) (chunks (fwidth b) d))) rest
        end
  end.

Fixpoint parse_subs (b : fbps) (n : nat) (nch : nat) (bs : list byte) : fres (list subframe) :=
  match nch with
  | O => FrOk [] bs
  | S nch' =>
      match parse_sub b n bs with
      | FrStop w => FrStop w
      | FrOk s rest =>
          match parse_subs b n nch' rest with
          | FrStop w => FrStop w
          | FrOk ss rest' => FrOk (s :: ss) rest'
          end
      end
  end.

Definition parse_frame (sp : fspec) (idx : Z) (bs : list byte) : fres fframe :=
  match bs with
  | b0 :: b1 :: b2 :: b3 :: b4 :: b5 :: b6 :: r =>
      if negb ((b0 =? 255) && (b1 =? 248) && (b2 =? 96)) then FrStop StBadHeader else
      if Z.odd b3 then FrStop StBadHeader else
      let sc := (b3 / 2) mod 8 in
      if (sc =? 3) || (sc =? 7) then FrStop StResSize else
      if negb ((b3 / 16 =? fl_ch sp - 1) && (sc =? fcode (fl_bps sp)) && (b4 =? idx) && (idx <? 128) && (b5 + 1 <=? fl_bs sp))
      then FrStop StBadHeader else
      if negb (b6 =? crc8 [b0; b1; b2; b3; b4; b5]) then FrStop StCrc8 else
      match parse_subs (fl_bps sp) (Z.to_nat (b5 + 1)) (Z.to_nat (fl_ch sp)) r with
      | FrStop w => FrStop w
      | FrOk subs rest =>
          match rest with
          | c1 :: c0 :: rest' =>
              if be_val [c1; c0] =? crc16 (firstn (length bs - length rest) bs)
              then FrOk {| f_n := b5 + 1; f_subs := subs |} rest'
              else FrStop StCrc16
          | _ => FrStop StTrunc
          end
      end
  | _ => FrStop StTrunc
  end.

Fixpoint dec_frames (fuel : nat) (sp : fspec) (idx : nat) (bs : list byte) : list fframe * fstop :=
  match bs with
  | [] => ([], StEnd)
  | _ =>
      match fuel with
      | O => ([], StFuel)
      | S fuel' =>
          match parse_frame sp (Z.of_nat idx) bs with
          | FrStop w => ([], w)
          | FrOk fr rest => let (frs, w) := dec_frames fuel' sp (S idx) rest in (fr :: frs, w)
          end
      end
  end.

Inductive fdecoded := FDec (sp : fspec) (frames : list fframe) (why : fstop).

Definition final_stop (total : Z) (frames : list fframe) (w : fstop) : fstop :=
  match w with
  | StEnd => if total_of frames <? total then StShort else if total <? total_of frames then StLong else StEnd
  | _ => w
  end.

(** [None]: the bytes do not start with a stream header of the subset *)
Definition flac_decode (bs : list byte) : option fdecoded :=
  if (length bs <? 42)%nat then None else
  if negb (list_eqb (sub bs 0 8) FLAC_MAGIC) then None else
  let mn := be_val (sub bs 8 2) in
  let mx := be_val (sub bs 10 2) in
  let packed := be_val (sub bs 18 8) in
  let rate := packed / (P36 * 256) in
  let ch := (packed / (P36 * 32)) mod 8 + 1 in
  let bits := (packed / P36) mod 32 + 1 in
  let total := packed mod P36 in
  match bps_of bits with
  | None => None
  | Some b =>
      if negb ((mn =? mx) && (16 <=? mn) && (1 <=? rate) && (rate <=? 655350)) then None else
      let sp := {| fl_bps := b; fl_ch := ch; fl_rate := rate; fl_bs := mn |} in
      let (frames, w) := dec_frames (length bs) sp 0 (skipn 42 bs) in
      Some (FDec sp frames (final_stop total frames w))
  end.

(** * the audio of a frame list: time steps of [ch] samples *)
Definition sub_at (t : nat) (s : subframe) : Z :=
  match s with SConst v => v | SVerb xs => nth t xs 0 end.
Definition fl_samples (fr : fframe) : list (list Z) :=
  map (fun t => map (sub_at t) (f_subs fr)) (seq 0 (Z.to_nat (f_n fr))).
Definition fl_audio (frames : list fframe) : list (list Z) := concat (map fl_samples frames).

(** symphonia's FLAC decoder delivers i32 samples shifted to the top of the word
    ([sample << (32 - bits)]); the conversion to f32 is that of 32-bit integers *)
Definition fl_conv (b : fbps) (x : Z) : f32 := conv I32 (x * 2 ^ (32 - fbits b)).

(** kira's glue on integers (mono duplicated) and on floats *)
Definition fl_glue_z (fr : list Z) : option (Z * Z) :=
  match fr with
  | [m] => Some (m, m)
  | [l; r] => Some (l, r)
  | _ => None
  end.
Fixpoint fl_glue_all_z (frs : list (list Z)) : option (list (Z * Z)) :=
  match frs with
  | [] => Some []
  | fr :: frs' =>
      match fl_glue_z fr, fl_glue_all_z frs' with
      | Some a, Some b => Some (a :: b)
      | _, _ => None
      end
  end.
Definition fl_to_f32 (b : fbps) (p : Z * Z) : f32 * f32 := (fl_conv b (fst p), fl_conv b (snd p)).

(** * what a loader is specified to return for the bytes: an error value for a malformed
    stream, the frames that are present for a complete or a truncated one *)
Inductive zload :=
| ZOk (rate : Z) (frames : list (Z * Z))
| ZErrChannels
| ZErr.
Definition flac_ref_load_z (bs : list byte) : fbps * zload :=
  match flac_decode bs with
  | None => (B16, ZErr)
  | Some (FDec sp frames w) =>
      (fl_bps sp,
       match w with
       | StEnd | StShort | StTrunc =>
           match frames with
           | [] => ZOk (fl_rate sp) []
           | _ => match fl_glue_all_z (fl_audio frames) with
                  | Some frs => ZOk (fl_rate sp) frs
                  | None => ZErrChannels
                  end
           end
       | _ => ZErr
       end)
  end.
Definition flac_ref_load (bs : list byte) : load_result :=
  match flac_ref_load_z bs with
  | (b, ZOk rate frs) => LOk rate (map (fl_to_f32 b) frs)
  | (_, ZErrChannels) => LErrChannels
  | (_, ZErr) => LErr
  end.
