(** C18 — proofs about the FLAC subset model: big-endian fields, CRC ranges, round trip,
    a defective frame stops the reference decoder exactly there, truncation. *)
From Coq Require Import ZArith List Bool Lia Arith.
From KV Require Import Base.IEEE Base.Outcome C18.Model C18.ProofsWav C18.ModelFlac.
Import ListNotations.
Local Open Scope Z_scope.

(** * big-endian fields *)
Lemma be_bytes_length : forall n x, length (be_bytes n x) = n.
Proof. intros. unfold be_bytes. now rewrite rev_length, le_bytes_length. Qed.

Lemma be_val_be_bytes : forall n x, be_val (be_bytes n x) = x mod 256 ^ Z.of_nat n.
Proof. intros. unfold be_val, be_bytes. now rewrite rev_involutive, le_val_le_bytes. Qed.

Lemma be_val_be_bytes_small : forall n x, 0 <= x < 256 ^ Z.of_nat n -> be_val (be_bytes n x) = x.
Proof. intros n x H. rewrite be_val_be_bytes. now apply Z.mod_small. Qed.

Lemma be_bytes_2 : forall x, be_bytes 2 x = [(x / 256) mod 256; x mod 256].
Proof. reflexivity. Qed.

(** * CRC ranges *)
Lemma lxor_range : forall n a b, 0 < n -> 0 <= a < 2 ^ n -> 0 <= b < 2 ^ n -> 0 <= Z.lxor a b < 2 ^ n.
Proof.
  intros n a b Hn Ha Hb.
  assert (H0 : 0 <= Z.lxor a b) by (apply Z.lxor_nonneg; lia).
  split; [assumption|].
  destruct (Z.eq_dec (Z.lxor a b) 0) as [E|E]; [rewrite E; apply Z.pow_pos_nonneg; lia|].
  apply Z.log2_lt_pow2; [lia|].
  eapply Z.le_lt_trans; [apply Z.log2_lxor; lia|].
  apply Z.max_lub_lt.
  - destruct (Z.eq_dec a 0) as [->|]; [cbn; lia|apply Z.log2_lt_pow2; lia].
  - destruct (Z.eq_dec b 0) as [->|]; [cbn; lia|apply Z.log2_lt_pow2; lia].
Qed.

Lemma crc_step_range : forall w top p c, 0 < w -> 0 <= p < 2 ^ w -> 0 <= crc_step top (Z.ones w) p c < 2 ^ w.
Proof.
  intros w top p c Hw Hp. unfold crc_step. rewrite Z.land_ones by lia.
  assert (Hm : 0 <= Z.shiftl c 1 mod 2 ^ w < 2 ^ w) by (apply Z.mod_pos_bound, Z.pow_pos_nonneg; lia).
  destruct (Z.testbit c top); [now apply lxor_range|assumption].
Qed.

Lemma crc16_byte_range : forall c b, 0 <= crc16_byte c b < 65536.
Proof. intros. unfold crc16_byte, iter8. change 65535 with (Z.ones 16). apply (crc_step_range 16); lia. Qed.
Lemma crc8_byte_range : forall c b, 0 <= crc8_byte c b < 256.
Proof. intros. unfold crc8_byte, iter8. change 255 with (Z.ones 8). apply (crc_step_range 8); lia. Qed.

Lemma fold_left_range : forall (f : Z -> Z -> Z) (P : Z -> Prop),
  (forall c b, P (f c b)) -> forall bs c, P c -> P (fold_left f bs c).
Proof. intros f P H bs. induction bs as [|b bs IH]; intros c Hc; cbn [fold_left]; auto. Qed.

Lemma crc16_range : forall bs, 0 <= crc16 bs < 65536.
Proof. intros. unfold crc16. apply fold_left_range; [apply crc16_byte_range|lia]. Qed.
Lemma crc8_range : forall bs, 0 <= crc8 bs < 256.
Proof. intros. unfold crc8. apply fold_left_range; [apply crc8_byte_range|lia]. Qed.

Lemma lxor_neq : forall c d, d <> 0 -> Z.lxor c d <> c.
Proof.
  intros c d Hd E. apply Hd.
  assert (H : Z.lxor c (Z.lxor c d) = Z.lxor c c) by now rewrite E.
  rewrite <- Z.lxor_assoc, Z.lxor_nilpotent, Z.lxor_0_l in H. exact H.
Qed.

(** * samples *)
Definition fsample_ok (b : fbps) (x : Z) : Prop := - 2 ^ (fbits b - 1) <= x < 2 ^ (fbits b - 1).

Lemma fwidth_pos : forall b, (0 < fwidth b)%nat.
Proof. destruct b; cbn; lia. Qed.

Lemma enc_fsample_length : forall b x, length (enc_fsample b x) = fwidth b.
Proof. intros. apply be_bytes_length. Qed.

Lemma dec_enc_fsample : forall b x, fsample_ok b x -> dec_fsample b (enc_fsample b x) = x.
Proof.
  intros b x H. unfold dec_fsample, enc_fsample. rewrite be_val_be_bytes.
  unfold fsample_ok in H.
  destruct b; cbn [fwidth fbits] in *;
    change (Z.of_nat 1) with 1 in *; change (Z.of_nat 2) with 2 in *; change (Z.of_nat 3) with 3 in *;
    cbn in H |- *.
  all: destruct (Z_lt_dec x 0) as [Hn|Hp].
  all: try (rewrite <- (Z_mod_plus_full x 1); rewrite Z.mod_small by lia;
            match goal with |- (if ?c then _ else _) = _ => destruct c eqn:E end; lia).
  all: rewrite Z.mod_small by lia;
       match goal with |- (if ?c then _ else _) = _ => destruct c eqn:E end; lia.
Qed.

Lemma dec_enc_fsamples : forall b xs, Forall (fsample_ok b) xs ->
  map (dec_fsample b) (map (enc_fsample b) xs) = xs.
Proof.
  intros b xs H. induction H as [|x xs Hx _ IH]; cbn [map]; [reflexivity|].
  now rewrite dec_enc_fsample, IH.
Qed.

(** * subframes *)
Definition sub_ok (b : fbps) (n : nat) (s : subframe) : Prop :=
  match s with
  | SConst v => fsample_ok b v
  | SVerb xs => length xs = n /\ Forall (fsample_ok b) xs
  end.

Lemma sub_payload_length : forall b n s, sub_ok b n s ->
  length (sub_payload b s) = match s with SConst _ => fwidth b | SVerb _ => (n * fwidth b)%nat end.
Proof.
  intros b n [v|xs] H; cbn [sub_payload].
  - apply enc_fsample_length.
  - destruct H as [Hl _]. rewrite (concat_length_const (fwidth b)).
    + rewrite map_length, Hl. lia.
    + apply Forall_forall. intros c Hc. apply in_map_iff in Hc as [x [<- _]]. apply enc_fsample_length.
Qed.

Lemma sub_type_cases : forall s, sub_type s = 0 \/ sub_type s = 1.
Proof. destruct s; cbn; auto. Qed.

(** a well-formed subframe is read back *)
Lemma parse_sub_enc : forall b n s rest, sub_ok b n s ->
  parse_sub b n ((2 * sub_type s :: sub_payload b s) ++ rest) = FrOk s rest.
Proof.
  intros b n s rest H. pose proof (sub_payload_length b n s H) as Hlen.
  destruct s as [v|xs]; cbn [sub_type sub_payload app parse_sub] in *.
  - change (2 * 0) with 0. cbn [Z.leb Z.compare Z.div Z.odd Z.eqb reserved_sub andb orb].
    change (128 <=? 0) with false. change (0 / 2) with 0.
    change (reserved_sub 0) with false. change (2 <=? 0) with false. change (Z.odd 0) with false.
    change (0 =? 0) with true. cbv iota.
    rewrite <- Hlen. rewrite take_exact_app. now rewrite dec_enc_fsample.
  - change (2 * 1) with 2.
    change (128 <=? 2) with false. change (2 / 2) with 1.
    change (reserved_sub 1) with false. change (2 <=? 1) with false. change (Z.odd 2) with false.
    change (1 =? 0) with false. cbv iota.
    rewrite <- Hlen. rewrite take_exact_app. destruct H as [Hl Hf].
    rewrite <- (app_nil_r (concat _)). rewrite chunks_concat.
    + now rewrite dec_enc_fsamples.
    + apply fwidth_pos.
    + apply Forall_forall. intros c Hc. apply in_map_iff in Hc as [x [<- _]]. apply enc_fsample_length.
    + cbn. apply fwidth_pos.
Qed.

(** a subframe whose header announces a reserved type, or wasted bits, stops the decoder *)
Lemma parse_sub_reserved : forall b n t payload, reserved_sub t = true ->
  parse_sub b n (2 * t :: payload) = FrStop StResSub.
Proof.
  intros b n t payload Ht. cbn [parse_sub].
  assert (Hr : 2 <= t <= 31).
  { unfold reserved_sub in Ht. apply orb_true_iff in Ht as [H|H]; apply andb_true_iff in H as [H1 H2];
      apply Z.leb_le in H1; apply Z.leb_le in H2; lia. }
  replace (128 <=? 2 * t) with false by (symmetry; apply Z.leb_gt; lia).
  replace (2 * t / 2) with t by (rewrite Z.mul_comm, Z.div_mul; lia).
  now rewrite Ht.
Qed.

Lemma parse_sub_wasted : forall b n s payload,
  parse_sub b n (2 * sub_type s + 1 :: payload) = FrStop StWasted.
Proof. intros b n [v|xs] payload; reflexivity. Qed.

(** * the subframes of a frame *)
Definition hdr_clean (d : option defect) : Prop := forall s ci, sub_hdr s d ci = 2 * sub_type s.

Lemma hdr_clean_none : hdr_clean None.
Proof. intros s ci. reflexivity. Qed.
Lemma hdr_clean_size : forall c, hdr_clean (Some (DResSize c)).
Proof. intros c s ci. reflexivity. Qed.
Lemma hdr_clean_crc16 : forall x, hdr_clean (Some (DCrc16 x)).
Proof. intros c s ci. reflexivity. Qed.
Lemma hdr_clean_crc8 : forall x, hdr_clean (Some (DCrc8 x)).
Proof. intros c s ci. reflexivity. Qed.

Lemma parse_subs_enc : forall b n d subs ci rest,
  hdr_clean d -> Forall (sub_ok b n) subs ->
  parse_subs b n (length subs) (enc_subs b d ci subs ++ rest) = FrOk subs rest.
Proof.
  intros b n d subs. induction subs as [|s subs IH]; intros ci rest Hd Hf; [reflexivity|].
  inversion Hf as [|? ? Hs Hf']; subst.
  cbn [length parse_subs enc_subs]. rewrite Hd. rewrite <- app_assoc.
  rewrite (parse_sub_enc b n s _ Hs). now rewrite IH.
Qed.

(** the subframe with index [c] carries the defect: the ones before it are read, then the decoder stops *)
Lemma parse_subs_ressub : forall b n c t subs ci rest,
  reserved_sub t = true -> Forall (sub_ok b n) subs -> (ci <= c < ci + length subs)%nat ->
  parse_subs b n (length subs) (enc_subs b (Some (DResSub c t)) ci subs ++ rest) = FrStop StResSub.
Proof.
  intros b n c t subs. induction subs as [|s subs IH]; intros ci rest Ht Hf Hc; [cbn in Hc; lia|].
  inversion Hf as [|? ? Hs Hf']; subst.
  cbn [length parse_subs enc_subs sub_hdr]. rewrite <- app_assoc.
  destruct (Nat.eqb_spec ci c) as [E|E].
  - cbn [app]. now rewrite parse_sub_reserved.
  - rewrite (parse_sub_enc b n s _ Hs). rewrite IH; [reflexivity|assumption|assumption|cbn in Hc; lia].
Qed.

Lemma parse_subs_wasted : forall b n c subs ci rest,
  Forall (sub_ok b n) subs -> (ci <= c < ci + length subs)%nat ->
  parse_subs b n (length subs) (enc_subs b (Some (DWasted c)) ci subs ++ rest) = FrStop StWasted.
Proof.
  intros b n c subs. induction subs as [|s subs IH]; intros ci rest Hf Hc; [cbn in Hc; lia|].
  inversion Hf as [|? ? Hs Hf']; subst.
  cbn [length parse_subs enc_subs sub_hdr]. rewrite <- app_assoc.
  destruct (Nat.eqb_spec ci c) as [E|E].
  - cbn [app]. now rewrite parse_sub_wasted.
  - rewrite (parse_sub_enc b n s _ Hs). rewrite IH; [reflexivity|assumption|cbn in Hc; lia].
Qed.

(** truncated subframe data: the decoder reports the truncation *)
Lemma parse_sub_trunc : forall b n s j, sub_ok b n s -> (j <= length (sub_payload b s))%nat ->
  parse_sub b n (firstn j (2 * sub_type s :: sub_payload b s)) = FrStop StTrunc.
Proof.
  intros b n s j H Hj. pose proof (sub_payload_length b n s H) as Hlen.
  destruct j as [|j]; [reflexivity|]. cbn [firstn].
  assert (Hshort : (length (firstn j (sub_payload b s)) < length (sub_payload b s))%nat)
    by (rewrite firstn_length; lia).
  destruct s as [v|xs]; cbn [sub_type parse_sub] in *.
  - change (2 * 0) with 0. change (128 <=? 0) with false. change (0 / 2) with 0.
    change (reserved_sub 0) with false. change (2 <=? 0) with false. change (Z.odd 0) with false.
    change (0 =? 0) with true. cbv iota.
    rewrite take_exact_short; [reflexivity|]. rewrite <- Hlen. exact Hshort.
  - change (2 * 1) with 2. change (128 <=? 2) with false. change (2 / 2) with 1.
    change (reserved_sub 1) with false. change (2 <=? 1) with false. change (Z.odd 2) with false.
    change (1 =? 0) with false. cbv iota.
    rewrite take_exact_short; [reflexivity|]. rewrite <- Hlen. exact Hshort.
Qed.

Lemma enc_subs_cons_length : forall b d ci s subs,
  length (enc_subs b d ci (s :: subs)) = (S (length (sub_payload b s)) + length (enc_subs b d (S ci) subs))%nat.
Proof. intros. cbn [enc_subs]. rewrite app_length. reflexivity. Qed.

Lemma parse_subs_trunc : forall b n d subs ci j,
  hdr_clean d -> Forall (sub_ok b n) subs -> (j < length (enc_subs b d ci subs))%nat ->
  parse_subs b n (length subs) (firstn j (enc_subs b d ci subs)) = FrStop StTrunc.
Proof.
  intros b n d subs. induction subs as [|s subs IH]; intros ci j Hd Hf Hj; [cbn in Hj; lia|].
  inversion Hf as [|? ? Hs Hf']; subst.
  rewrite enc_subs_cons_length in Hj.
  cbn [length parse_subs enc_subs]. rewrite Hd. rewrite firstn_app.
  cbn [length].
  destruct (le_lt_dec j (length (sub_payload b s))) as [L|L]; unfold byte in *.
  - match goal with |- context [firstn ?k (enc_subs b d (S ci) subs)] => replace k with 0%nat by lia end.
    rewrite firstn_O, app_nil_r.
    now rewrite parse_sub_trunc.
  - rewrite (firstn_all2 (n := j)) by (cbn [length]; lia).
    rewrite (parse_sub_enc b n s _ Hs). rewrite IH; [reflexivity|assumption|assumption|lia].
Qed.

(** * frames *)
Definition fspec_ok (sp : fspec) : Prop :=
  1 <= fl_ch sp <= 8 /\ 1 <= fl_rate sp <= 655350 /\ 16 <= fl_bs sp <= 256.
Definition fframe_ok (sp : fspec) (fr : fframe) : Prop :=
  1 <= f_n fr <= fl_bs sp /\ length (f_subs fr) = Z.to_nat (fl_ch sp) /\
  Forall (sub_ok (fl_bps sp) (Z.to_nat (f_n fr))) (f_subs fr).

Lemma b3_fields : forall ch c, 1 <= ch <= 8 -> 0 <= c < 8 ->
  Z.odd ((ch - 1) * 16 + c * 2) = false /\ (((ch - 1) * 16 + c * 2) / 2) mod 8 = c /\
  ((ch - 1) * 16 + c * 2) / 16 = ch - 1.
Proof.
  intros ch c Hch Hc.
  assert (E1 : ch = 1 \/ ch = 2 \/ ch = 3 \/ ch = 4 \/ ch = 5 \/ ch = 6 \/ ch = 7 \/ ch = 8) by lia.
  assert (E2 : c = 0 \/ c = 1 \/ c = 2 \/ c = 3 \/ c = 4 \/ c = 5 \/ c = 6 \/ c = 7) by lia.
  repeat (destruct E1 as [->|E1]); try subst ch; repeat (destruct E2 as [->|E2]); try subst c; repeat split; reflexivity.
Qed.

Lemma fcode_range : forall b, 0 <= fcode b < 8.
Proof. destruct b; cbn; lia. Qed.
Lemma fcode_not_reserved : forall b, (fcode b =? 3) || (fcode b =? 7) = false.
Proof. destruct b; reflexivity. Qed.

Lemma firstn_consumed : forall {A} (body tail : list A),
  firstn (length (body ++ tail) - length tail) (body ++ tail) = body.
Proof.
  intros A body tail. rewrite app_length, Nat.add_sub, firstn_app, Nat.sub_diag, firstn_O, app_nil_r.
  apply firstn_all.
Qed.

(** the end of [parse_frame]: the CRC-16 comparison *)
Definition crc_tail (bs : list byte) (n : Z) (subs : list subframe) (rest : list byte) : fres fframe :=
  match rest with
  | c1 :: c0 :: rest' =>
      if be_val [c1; c0] =? crc16 (firstn (length bs - length rest) bs)
      then FrOk {| f_n := n; f_subs := subs |} rest' else FrStop StCrc16
  | _ => FrStop StTrunc
  end.

(** the header checks of [parse_frame] on a header written with sample-size code [code] and
    CRC byte [c8] *)
Lemma parse_frame_hdr : forall sp idx n code c8 tail,
  fspec_ok sp -> 1 <= n <= fl_bs sp -> 0 <= code < 8 -> idx < 128 ->
  parse_frame sp idx ([255; 248; 96; (fl_ch sp - 1) * 16 + code * 2; idx; n - 1] ++ c8 :: tail) =
  if (code =? 3) || (code =? 7) then FrStop StResSize else
  if negb (code =? fcode (fl_bps sp)) then FrStop StBadHeader else
  if negb (c8 =? crc8 [255; 248; 96; (fl_ch sp - 1) * 16 + code * 2; idx; n - 1]) then FrStop StCrc8 else
  match parse_subs (fl_bps sp) (Z.to_nat n) (Z.to_nat (fl_ch sp)) tail with
  | FrStop w => FrStop w
  | FrOk subs rest =>
      crc_tail ([255; 248; 96; (fl_ch sp - 1) * 16 + code * 2; idx; n - 1] ++ c8 :: tail) n subs rest
  end.
Proof.
  intros sp idx n code c8 tail (Hch & Hr & Hbs) Hn Hc Hidx.
  destruct (b3_fields (fl_ch sp) code Hch Hc) as (Hodd & Hsc & Hcc).
  set (b3 := (fl_ch sp - 1) * 16 + code * 2) in *.
  cbn [app parse_frame].
  change (255 =? 255) with true. change (248 =? 248) with true. change (96 =? 96) with true.
  cbn [andb negb]. rewrite Hodd, Hsc, Hcc.
  destruct ((code =? 3) || (code =? 7)); [reflexivity|].
  rewrite !Z.eqb_refl. cbn [andb].
  replace (n - 1 + 1) with n by lia.
  replace (n <=? fl_bs sp) with true by (symmetry; apply Z.leb_le; lia).
  replace (idx <? 128) with true by (symmetry; apply Z.ltb_lt; lia).
  rewrite !andb_true_r.
  destruct (code =? fcode (fl_bps sp)); cbn [negb]; reflexivity.
Qed.

Lemma crc16_consumed : forall (h6 : list byte) c8 subsbytes (tl : list byte),
  firstn (length (h6 ++ c8 :: subsbytes ++ tl) - length tl) (h6 ++ c8 :: subsbytes ++ tl) = h6 ++ c8 :: subsbytes.
Proof.
  intros. replace (h6 ++ c8 :: subsbytes ++ tl) with ((h6 ++ c8 :: subsbytes) ++ tl) by (rewrite <- app_assoc; reflexivity).
  apply firstn_consumed.
Qed.

Lemma crc_tail_eq : forall (h6 : list byte) c8 subsbytes c16 rest0 n subs,
  0 <= c16 < 65536 ->
  crc_tail (h6 ++ c8 :: subsbytes ++ be_bytes 2 c16 ++ rest0) n subs (be_bytes 2 c16 ++ rest0) =
  if c16 =? crc16 (h6 ++ c8 :: subsbytes) then FrOk {| f_n := n; f_subs := subs |} rest0 else FrStop StCrc16.
Proof.
  intros h6 c8 subsbytes c16 rest0 n subs Hc. unfold crc_tail.
  rewrite crc16_consumed. rewrite be_bytes_2. cbn [app].
  rewrite <- be_bytes_2. rewrite be_val_be_bytes_small by (change (256 ^ Z.of_nat 2) with 65536; lia).
  reflexivity.
Qed.

Lemma enc_fframe_shape : forall sp idx fr d,
  enc_fframe sp idx fr d =
  let h6 := frame_hdr6 sp idx (f_n fr) d in
  let c8 := match d with Some (DCrc8 x) => Z.lxor (crc8 h6) x | _ => crc8 h6 end in
  let body := h6 ++ c8 :: enc_subs (fl_bps sp) d 0 (f_subs fr) in
  let c16 := match d with Some (DCrc16 x) => Z.lxor (crc16 body) x | _ => crc16 body end in
  body ++ be_bytes 2 c16.
Proof. reflexivity. Qed.

(** a well-formed frame is read back *)
Lemma parse_frame_enc : forall sp idx fr rest,
  fspec_ok sp -> fframe_ok sp fr -> idx < 128 ->
  parse_frame sp idx (enc_fframe sp idx fr None ++ rest) = FrOk fr rest.
Proof.
  intros sp idx fr rest Hsp (Hn & Hl & Hf) Hidx.
  rewrite enc_fframe_shape. cbv zeta. unfold frame_hdr6. unfold byte in *.
  set (h6 := [255; 248; 96; (fl_ch sp - 1) * 16 + fcode (fl_bps sp) * 2; idx; f_n fr - 1]).
  set (subsbytes := enc_subs (fl_bps sp) None 0 (f_subs fr)).
  set (c16 := crc16 (h6 ++ crc8 h6 :: subsbytes)).
  replace (((h6 ++ crc8 h6 :: subsbytes) ++ be_bytes 2 c16) ++ rest)
    with (h6 ++ crc8 h6 :: subsbytes ++ be_bytes 2 c16 ++ rest)
    by (rewrite <- !app_assoc; reflexivity).
  unfold h6 at 1. rewrite (parse_frame_hdr sp idx (f_n fr) (fcode (fl_bps sp)) _ _ Hsp Hn (fcode_range _) Hidx).
  fold h6. rewrite fcode_not_reserved, !Z.eqb_refl. cbn [negb].
  unfold subsbytes at 1. rewrite <- Hl.
  rewrite (parse_subs_enc _ _ None _ 0%nat _ hdr_clean_none Hf).
  fold subsbytes. rewrite (crc_tail_eq h6 (crc8 h6) subsbytes c16 rest _ _ (crc16_range _)).
  unfold c16. rewrite Z.eqb_refl. destruct fr; reflexivity.
Qed.

(** * a frame with a defect *)
Definition defect_ok (fr : fframe) (d : defect) : Prop :=
  match d with
  | DResSub c t => (c < length (f_subs fr))%nat /\ reserved_sub t = true
  | DResSize code => code = 3 \/ code = 7
  | DWasted c => (c < length (f_subs fr))%nat
  | DCrc16 x => 0 < x < 65536
  | DCrc8 x => 0 < x < 256
  end.
(** why the reference decoder stops at such a frame *)
Definition stop_of (d : defect) : fstop :=
  match d with
  | DResSub _ _ => StResSub
  | DResSize _ => StResSize
  | DWasted _ => StWasted
  | DCrc16 _ => StCrc16
  | DCrc8 _ => StCrc8
  end.

Lemma parse_frame_bad : forall sp idx fr d rest,
  fspec_ok sp -> fframe_ok sp fr -> defect_ok fr d -> idx < 128 ->
  parse_frame sp idx (enc_fframe sp idx fr (Some d) ++ rest) = FrStop (stop_of d).
Proof.
  intros sp idx fr d rest Hsp (Hn & Hl & Hf) Hd Hidx.
  rewrite enc_fframe_shape. cbv zeta. unfold frame_hdr6. unfold byte in *.
  destruct d as [c t|code|c|x|x]; cbn [defect_ok stop_of] in *.
  - (* reserved subframe type *)
    destruct Hd as [Hc Ht].
    set (h6 := [255; 248; 96; (fl_ch sp - 1) * 16 + fcode (fl_bps sp) * 2; idx; f_n fr - 1]).
    set (subsbytes := enc_subs (fl_bps sp) (Some (DResSub c t)) 0 (f_subs fr)).
    set (c16 := crc16 (h6 ++ crc8 h6 :: subsbytes)).
    replace (((h6 ++ crc8 h6 :: subsbytes) ++ be_bytes 2 c16) ++ rest)
      with (h6 ++ crc8 h6 :: subsbytes ++ be_bytes 2 c16 ++ rest)
      by (rewrite <- !app_assoc; reflexivity).
    unfold h6 at 1. rewrite (parse_frame_hdr sp idx (f_n fr) (fcode (fl_bps sp)) _ _ Hsp Hn (fcode_range _) Hidx).
    fold h6. rewrite fcode_not_reserved, !Z.eqb_refl. cbn [negb].
    unfold subsbytes at 1. rewrite <- Hl.
    rewrite (parse_subs_ressub _ _ c t _ 0%nat _ Ht Hf) by lia. reflexivity.
  - (* reserved sample-size code *)
    set (h6 := [255; 248; 96; (fl_ch sp - 1) * 16 + code * 2; idx; f_n fr - 1]).
    set (subsbytes := enc_subs (fl_bps sp) (Some (DResSize code)) 0 (f_subs fr)).
    set (c16 := crc16 (h6 ++ crc8 h6 :: subsbytes)).
    replace (((h6 ++ crc8 h6 :: subsbytes) ++ be_bytes 2 c16) ++ rest)
      with (h6 ++ crc8 h6 :: subsbytes ++ be_bytes 2 c16 ++ rest)
      by (rewrite <- !app_assoc; reflexivity).
    unfold h6 at 1. rewrite (parse_frame_hdr sp idx (f_n fr) code _ _ Hsp Hn) by lia.
    destruct Hd as [-> | ->]; reflexivity.
  - (* wasted-bits flag *)
    set (h6 := [255; 248; 96; (fl_ch sp - 1) * 16 + fcode (fl_bps sp) * 2; idx; f_n fr - 1]).
    set (subsbytes := enc_subs (fl_bps sp) (Some (DWasted c)) 0 (f_subs fr)).
    set (c16 := crc16 (h6 ++ crc8 h6 :: subsbytes)).
    replace (((h6 ++ crc8 h6 :: subsbytes) ++ be_bytes 2 c16) ++ rest)
      with (h6 ++ crc8 h6 :: subsbytes ++ be_bytes 2 c16 ++ rest)
      by (rewrite <- !app_assoc; reflexivity).
    unfold h6 at 1. rewrite (parse_frame_hdr sp idx (f_n fr) (fcode (fl_bps sp)) _ _ Hsp Hn (fcode_range _) Hidx).
    fold h6. rewrite fcode_not_reserved, !Z.eqb_refl. cbn [negb].
    unfold subsbytes at 1. rewrite <- Hl.
    rewrite (parse_subs_wasted _ _ c _ 0%nat _ Hf) by lia. reflexivity.
  - (* CRC-16 *)
    set (h6 := [255; 248; 96; (fl_ch sp - 1) * 16 + fcode (fl_bps sp) * 2; idx; f_n fr - 1]).
    set (subsbytes := enc_subs (fl_bps sp) (Some (DCrc16 x)) 0 (f_subs fr)).
    set (c16 := Z.lxor (crc16 (h6 ++ crc8 h6 :: subsbytes)) x).
    replace (((h6 ++ crc8 h6 :: subsbytes) ++ be_bytes 2 c16) ++ rest)
      with (h6 ++ crc8 h6 :: subsbytes ++ be_bytes 2 c16 ++ rest)
      by (rewrite <- !app_assoc; reflexivity).
    unfold h6 at 1. rewrite (parse_frame_hdr sp idx (f_n fr) (fcode (fl_bps sp)) _ _ Hsp Hn (fcode_range _) Hidx).
    fold h6. rewrite fcode_not_reserved, !Z.eqb_refl. cbn [negb].
    unfold subsbytes at 1. rewrite <- Hl.
    rewrite (parse_subs_enc _ _ _ _ 0%nat _ (hdr_clean_crc16 x) Hf).
    fold subsbytes.
    assert (Hr : 0 <= c16 < 65536).
    { unfold c16. apply (lxor_range 16); [lia|apply crc16_range|lia]. }
    rewrite (crc_tail_eq h6 (crc8 h6) subsbytes c16 rest _ _ Hr).
    match goal with |- (if ?c then _ else _) = _ => replace c with false; [reflexivity|] end.
    symmetry. apply Z.eqb_neq. unfold c16. apply lxor_neq. lia.
  - (* CRC-8 *)
    set (h6 := [255; 248; 96; (fl_ch sp - 1) * 16 + fcode (fl_bps sp) * 2; idx; f_n fr - 1]).
    set (subsbytes := enc_subs (fl_bps sp) (Some (DCrc8 x)) 0 (f_subs fr)).
    set (c8 := Z.lxor (crc8 h6) x).
    set (c16 := crc16 (h6 ++ c8 :: subsbytes)).
    replace (((h6 ++ c8 :: subsbytes) ++ be_bytes 2 c16) ++ rest)
      with (h6 ++ c8 :: subsbytes ++ be_bytes 2 c16 ++ rest)
      by (rewrite <- !app_assoc; reflexivity).
    unfold h6 at 1. rewrite (parse_frame_hdr sp idx (f_n fr) (fcode (fl_bps sp)) _ _ Hsp Hn (fcode_range _) Hidx).
    fold h6. rewrite fcode_not_reserved, !Z.eqb_refl. cbn [negb].
    match goal with |- (if negb ?c then _ else _) = _ => replace c with false; [reflexivity|] end.
    symmetry. apply Z.eqb_neq. unfold c8. apply lxor_neq. lia.
Qed.

(** * a frame cut short *)
Lemma enc_fframe_length : forall sp idx fr d,
  length (enc_fframe sp idx fr d) = (7 + length (enc_subs (fl_bps sp) d 0 (f_subs fr)) + 2)%nat.
Proof.
  intros. rewrite enc_fframe_shape. cbv zeta. unfold frame_hdr6.
  rewrite !app_length, be_bytes_length. cbn [length]. lia.
Qed.

Lemma parse_frame_trunc : forall sp idx fr j,
  fspec_ok sp -> fframe_ok sp fr -> idx < 128 -> (j < length (enc_fframe sp idx fr None))%nat ->
  parse_frame sp idx (firstn j (enc_fframe sp idx fr None)) = FrStop StTrunc.
Proof.
  intros sp idx fr j Hsp (Hn & Hl & Hf) Hidx Hj.
  rewrite enc_fframe_length in Hj.
  rewrite enc_fframe_shape. cbv zeta. unfold frame_hdr6. unfold byte in *.
  set (h6 := [255; 248; 96; (fl_ch sp - 1) * 16 + fcode (fl_bps sp) * 2; idx; f_n fr - 1]).
  set (subsbytes := enc_subs (fl_bps sp) None 0 (f_subs fr)) in *.
  set (c16 := crc16 (h6 ++ crc8 h6 :: subsbytes)).
  destruct (le_lt_dec 7 j) as [L|L].
  2:{ unfold h6. cbn [app]. do 7 (destruct j as [|j]; [reflexivity|]). lia. }
  (* the 7 header bytes are present *)
  replace j with (7 + (j - 7))%nat by lia. set (m := (j - 7)%nat). assert (Hm : (m < length subsbytes + 2)%nat) by (unfold m, byte in *; lia).
  replace ((h6 ++ crc8 h6 :: subsbytes) ++ be_bytes 2 c16) with (h6 ++ crc8 h6 :: (subsbytes ++ be_bytes 2 c16))
    by (rewrite <- !app_assoc; reflexivity).
  assert (E : firstn (7 + m) (h6 ++ crc8 h6 :: subsbytes ++ be_bytes 2 c16) =
              h6 ++ crc8 h6 :: firstn m (subsbytes ++ be_bytes 2 c16)) by reflexivity.
  rewrite E. unfold h6 at 1.
  rewrite (parse_frame_hdr sp idx (f_n fr) (fcode (fl_bps sp)) _ _ Hsp Hn (fcode_range _) Hidx).
  fold h6. rewrite fcode_not_reserved, !Z.eqb_refl. cbn [negb].
  rewrite firstn_app.
  destruct (le_lt_dec (length subsbytes) m) as [L2|L2].
  - (* all subframes present, the CRC-16 field is cut *)
    rewrite (firstn_all2 (n := m) subsbytes) by lia.
    unfold subsbytes at 1. rewrite <- Hl.
    rewrite (parse_subs_enc _ _ None _ 0%nat _ hdr_clean_none Hf).
    unfold crc_tail. rewrite be_bytes_2.
    destruct (m - length subsbytes)%nat as [|[|k]] eqn:Ek; [reflexivity|reflexivity|lia].
  - replace (m - length subsbytes)%nat with 0%nat by lia. rewrite firstn_O, app_nil_r.
    unfold subsbytes. rewrite <- Hl.
    rewrite (parse_subs_trunc _ _ None _ 0%nat m hdr_clean_none Hf) by (fold subsbytes; lia).
    reflexivity.
Qed.

(** * the frame sequence *)
Lemma enc_fframe_cons : forall sp idx fr d, exists l, enc_fframe sp idx fr d = 255 :: l.
Proof. intros. rewrite enc_fframe_shape. cbv zeta. unfold frame_hdr6. cbn [app]. eexists. reflexivity. Qed.

Lemma enc_frames_app : forall sp a b idx bad,
  enc_frames sp idx (a ++ b) bad = enc_frames sp idx a bad ++ enc_frames sp (idx + length a) b bad.
Proof.
  intros sp a. induction a as [|fr a IH]; intros b idx bad.
  - cbn [app enc_frames length]. now rewrite Nat.add_0_r.
  - cbn [app enc_frames length]. rewrite IH, <- app_assoc. now rewrite Nat.add_succ_r.
Qed.

(** frames without defect are decoded one after the other; the decoder then goes on with
    whatever follows *)
Lemma dec_frames_prefix : forall sp bad frames idx fuel tl,
  fspec_ok sp -> Forall (fframe_ok sp) frames ->
  (forall i, (idx <= i < idx + length frames)%nat -> defect_at bad i = None) ->
  (length frames <= fuel)%nat -> (idx + length frames <= 128)%nat ->
  dec_frames fuel sp idx (enc_frames sp idx frames bad ++ tl) =
  let (frs, w) := dec_frames (fuel - length frames) sp (idx + length frames) tl in (frames ++ frs, w).
Proof.
  intros sp bad frames. induction frames as [|fr frames IH]; intros idx fuel tl Hsp Hf Hbad Hfuel H128.
  - cbn [enc_frames app length]. rewrite Nat.sub_0_r, Nat.add_0_r.
    destruct (dec_frames fuel sp idx tl); reflexivity.
  - inversion Hf as [|? ? Hfr Hf']; subst.
    destruct fuel as [|fuel]; [cbn in Hfuel; lia|].
    cbn [enc_frames length]. rewrite (Hbad idx) by (cbn [length]; lia).
    rewrite <- app_assoc.
    destruct (enc_fframe_cons sp (Z.of_nat idx) fr None) as [l El].
    pose proof (parse_frame_enc sp (Z.of_nat idx) fr (enc_frames sp (S idx) frames bad ++ tl) Hsp Hfr ltac:(cbn [length] in H128; lia)) as P.
    rewrite El in *. cbn [app dec_frames] in *. rewrite P.
    rewrite IH; [|assumption|assumption|intros i Hi; apply Hbad; cbn [length]; lia|cbn [length] in Hfuel; lia|cbn [length] in H128; lia].
    replace (S fuel - S (length frames))%nat with (fuel - length frames)%nat by lia.
    replace (idx + S (length frames))%nat with (S idx + length frames)%nat by lia.
    destruct (dec_frames (fuel - length frames) sp (S idx + length frames) tl); reflexivity.
Qed.

Lemma dec_frames_nil : forall fuel sp idx, dec_frames fuel sp idx [] = ([], StEnd).
Proof. intros [|fuel] sp idx; reflexivity. Qed.

Lemma dec_frames_bad_head : forall sp fuel idx fr d rest,
  fspec_ok sp -> fframe_ok sp fr -> defect_ok fr d -> (idx < 128)%nat ->
  dec_frames (S fuel) sp idx (enc_fframe sp (Z.of_nat idx) fr (Some d) ++ rest) = ([], stop_of d).
Proof.
  intros sp fuel idx fr d rest Hsp Hfr Hd Hidx.
  pose proof (parse_frame_bad sp (Z.of_nat idx) fr d rest Hsp Hfr Hd ltac:(lia)) as P.
  destruct (enc_fframe_cons sp (Z.of_nat idx) fr (Some d)) as [l El].
  rewrite El in *. cbn [app dec_frames] in *. now rewrite P.
Qed.

Lemma dec_frames_trunc_head : forall sp fuel idx fr j,
  fspec_ok sp -> fframe_ok sp fr -> (idx < 128)%nat -> (0 < j < length (enc_fframe sp (Z.of_nat idx) fr None))%nat ->
  dec_frames (S fuel) sp idx (firstn j (enc_fframe sp (Z.of_nat idx) fr None)) = ([], StTrunc).
Proof.
  intros sp fuel idx fr j Hsp Hfr Hidx Hj.
  pose proof (parse_frame_trunc sp (Z.of_nat idx) fr j Hsp Hfr ltac:(lia) (proj2 Hj)) as P.
  destruct (enc_fframe_cons sp (Z.of_nat idx) fr None) as [l El].
  rewrite El in *. destruct j as [|j]; [lia|]. cbn [firstn dec_frames] in *. now rewrite P.
Qed.

(** * the stream header *)
Lemma stream_hdr_length : forall sp total, length (stream_hdr sp total) = 42%nat.
Proof. reflexivity. Qed.

Lemma unpack_info : forall rate c b total,
  0 <= c < 8 -> 0 <= b < 32 -> 0 <= total < P36 ->
  let packed := ((rate * 8 + c) * 32 + b) * P36 + total in
  packed / (P36 * 256) = rate /\ (packed / (P36 * 32)) mod 8 = c /\ (packed / P36) mod 32 = b /\ packed mod P36 = total.
Proof.
  intros rate c b total Hc Hb Ht packed. unfold packed, P36 in *.
  assert (E1 : (((rate * 8 + c) * 32 + b) * 68719476736 + total) / (68719476736 * 256) = rate).
  { symmetry. apply (Z.div_unique _ _ _ ((c * 32 + b) * 68719476736 + total)); lia. }
  assert (E2 : (((rate * 8 + c) * 32 + b) * 68719476736 + total) / (68719476736 * 32) = rate * 8 + c).
  { symmetry. apply (Z.div_unique _ _ _ (b * 68719476736 + total)); lia. }
  assert (E3 : (((rate * 8 + c) * 32 + b) * 68719476736 + total) / 68719476736 = (rate * 8 + c) * 32 + b).
  { symmetry. apply (Z.div_unique _ _ _ total); lia. }
  rewrite E1, E2, E3. repeat split.
  - symmetry. apply (Z.mod_unique _ _ rate); lia.
  - symmetry. apply (Z.mod_unique _ _ (rate * 8 + c)); lia.
  - symmetry. apply (Z.mod_unique _ _ ((rate * 8 + c) * 32 + b)); lia.
Qed.

Lemma bps_of_fbits : forall b, bps_of (fbits b - 1 + 1) = Some b.
Proof. destruct b; reflexivity. Qed.
Lemma fbits_range : forall b, 0 <= fbits b - 1 < 32.
Proof. destruct b; cbn; lia. Qed.

Lemma flac_decode_stream : forall sp total data,
  fspec_ok sp -> 0 <= total < P36 ->
  flac_decode (stream_hdr sp total ++ data) =
  let (frames, w) := dec_frames (42 + length data) sp 0 data in
  Some (FDec sp frames (final_stop total frames w)).
Proof.
  intros sp total data (Hch & Hr & Hbs) Ht. unfold flac_decode.
  rewrite app_length, stream_hdr_length.
  replace (42 + length data <? 42)%nat with false by (symmetry; apply Nat.ltb_ge; lia).
  change (sub (stream_hdr sp total ++ data) 0 8) with FLAC_MAGIC.
  change (list_eqb FLAC_MAGIC FLAC_MAGIC) with true. cbn [negb].
  change (sub (stream_hdr sp total ++ data) 8 2) with (be_bytes 2 (fl_bs sp)).
  change (sub (stream_hdr sp total ++ data) 10 2) with (be_bytes 2 (fl_bs sp)).
  change (sub (stream_hdr sp total ++ data) 18 8) with (be_bytes 8 (pack_info sp total)).
  change (skipn 42 (stream_hdr sp total ++ data)) with data.
  rewrite !(be_val_be_bytes_small 2) by (change (256 ^ Z.of_nat 2) with 65536; lia).
  assert (Hp : 0 <= pack_info sp total < 256 ^ Z.of_nat 8).
  { change (256 ^ Z.of_nat 8) with 18446744073709551616. unfold pack_info, P36 in *.
    pose proof (fbits_range (fl_bps sp)). lia. }
  rewrite (be_val_be_bytes_small 8) by exact Hp.
  unfold pack_info.
  destruct (unpack_info (fl_rate sp) (fl_ch sp - 1) (fbits (fl_bps sp) - 1) total ltac:(lia) (fbits_range _) Ht)
    as (E1 & E2 & E3 & E4).
  rewrite E1, E2, E3, E4. rewrite bps_of_fbits.
  rewrite Z.eqb_refl.
  replace (16 <=? fl_bs sp) with true by (symmetry; apply Z.leb_le; lia).
  replace (1 <=? fl_rate sp) with true by (symmetry; apply Z.leb_le; lia).
  replace (fl_rate sp <=? 655350) with true by (symmetry; apply Z.leb_le; lia).
  cbn [andb negb].
  replace (fl_ch sp - 1 + 1) with (fl_ch sp) by lia.
  destruct sp as [b ch rate bs]. cbn [fl_bps fl_ch fl_rate fl_bs]. reflexivity.
Qed.

(** * whole files *)
Lemma total_of_app : forall a b, total_of (a ++ b) = total_of a + total_of b.
Proof.
  induction a as [|fr a IH]; intros b; [reflexivity|].
  change (total_of ((fr :: a) ++ b)) with (f_n fr + total_of (a ++ b)).
  change (total_of (fr :: a)) with (f_n fr + total_of a). rewrite IH. lia.
Qed.

Lemma total_of_bound : forall sp frames, Forall (fframe_ok sp) frames ->
  Z.of_nat (length frames) <= total_of frames <= fl_bs sp * Z.of_nat (length frames).
Proof.
  intros sp frames H. induction H as [|fr frames (Hn & _) _ IH]; [cbn; lia|].
  change (total_of (fr :: frames)) with (f_n fr + total_of frames). cbn [length]. rewrite Nat2Z.inj_succ. nia.
Qed.

Lemma enc_frames_length_ge : forall sp frames idx bad, (length frames <= length (enc_frames sp idx frames bad))%nat.
Proof.
  intros sp frames. induction frames as [|fr frames IH]; intros idx bad; [cbn; lia|].
  cbn [enc_frames length]. rewrite app_length, enc_fframe_length. specialize (IH (S idx) bad). lia.
Qed.

Lemma total_small : forall sp frames, fspec_ok sp -> Forall (fframe_ok sp) frames -> (length frames <= 128)%nat ->
  0 <= total_of frames < P36.
Proof.
  intros sp frames (_ & _ & Hbs) Hf Hl. pose proof (total_of_bound sp frames Hf). unfold P36. nia.
Qed.

(** round trip *)
Lemma flac_roundtrip_lemma : forall sp frames,
  fspec_ok sp -> Forall (fframe_ok sp) frames -> (length frames <= 128)%nat ->
  flac_decode (flac_encode sp frames) = Some (FDec sp frames StEnd).
Proof.
  intros sp frames Hsp Hf Hl. unfold flac_encode, flac_encode_bad.
  rewrite (flac_decode_stream sp _ _ Hsp (total_small sp frames Hsp Hf Hl)).
  rewrite <- (app_nil_r (enc_frames sp 0 frames None)) at 2.
  rewrite (dec_frames_prefix sp None frames 0 _ [] Hsp Hf); try (cbn; lia).
  2:{ intros; reflexivity. }
  2:{ pose proof (enc_frames_length_ge sp frames 0 None). lia. }
  rewrite dec_frames_nil, app_nil_r. cbn [final_stop]. rewrite !Z.ltb_irrefl. reflexivity.
Qed.

Lemma nth_error_split' : forall {A} (l : list A) k x, nth_error l k = Some x ->
  l = firstn k l ++ x :: skipn (S k) l /\ length (firstn k l) = k.
Proof.
  intros A l. induction l as [|a l IH]; intros [|k] x H; cbn in H; try discriminate.
  - injection H as ->. split; reflexivity.
  - destruct (IH k x H) as [E L]. split.
    + change (a :: l = a :: (firstn k l ++ x :: skipn (S k) l)). f_equal. exact E.
    + change (S (length (firstn k l)) = S k). now rewrite L.
Qed.

Lemma enc_frames_split : forall sp frames k fr bad, nth_error frames k = Some fr ->
  enc_frames sp 0 frames bad =
  enc_frames sp 0 (firstn k frames) bad ++ enc_fframe sp (Z.of_nat k) fr (defect_at bad k)
  ++ enc_frames sp (S k) (skipn (S k) frames) bad.
Proof.
  intros sp frames k fr bad Hk. destruct (nth_error_split' frames k fr Hk) as [E Lk].
  rewrite E at 1. rewrite enc_frames_app, Lk. reflexivity.
Qed.

Lemma stop_of_final : forall total frames d, final_stop total frames (stop_of d) = stop_of d.
Proof. intros total frames d. destruct d; reflexivity. Qed.

(** a frame with a defect: the reference decoder delivers exactly the frames before it and
    reports why it stopped *)
Lemma flac_bad_frame_lemma : forall sp frames k fr d,
  fspec_ok sp -> Forall (fframe_ok sp) frames -> (length frames <= 128)%nat ->
  nth_error frames k = Some fr -> defect_ok fr d ->
  flac_decode (flac_encode_bad sp frames (Some (k, d))) = Some (FDec sp (firstn k frames) (stop_of d)).
Proof.
  intros sp frames k fr d Hsp Hf Hl Hk Hd. unfold flac_encode_bad.
  rewrite (flac_decode_stream sp _ _ Hsp (total_small sp frames Hsp Hf Hl)).
  destruct (nth_error_split' frames k fr Hk) as [E Lk].
  assert (Hklt : (k < length frames)%nat) by (apply nth_error_Some; congruence).
  pose proof (enc_frames_length_ge sp frames 0 (Some (k, d))) as Hge.
  set (fuel := (42 + length (enc_frames sp 0 frames (Some (k, d))))%nat) in *.
  rewrite (enc_frames_split sp frames k fr _ Hk).
  assert (Hfk : Forall (fframe_ok sp) (firstn k frames)) by (now apply Forall_firstn).
  assert (Hfr : fframe_ok sp fr).
  { rewrite Forall_forall in Hf. apply Hf. eapply nth_error_In; eauto. }
  rewrite (dec_frames_prefix sp (Some (k, d)) (firstn k frames) 0 fuel _ Hsp Hfk); rewrite ?Lk; try (unfold fuel; lia).
  2:{ intros i Hi. cbn [defect_at]. destruct (Nat.eqb_spec i k); [lia|reflexivity]. }
  cbn [Nat.add defect_at]. rewrite Nat.eqb_refl.
  destruct (fuel - k)%nat as [|f] eqn:Ef; [unfold fuel in Ef; lia|].
  rewrite (dec_frames_bad_head sp f k fr d _ Hsp Hfr Hd) by lia.
  rewrite app_nil_r, stop_of_final. reflexivity.
Qed.

(** a file cut inside frame [k]: exactly the frames before it, and the truncation is reported *)
Lemma flac_truncation_lemma : forall sp frames k fr j,
  fspec_ok sp -> Forall (fframe_ok sp) frames -> (length frames <= 128)%nat ->
  nth_error frames k = Some fr -> (0 < j < length (enc_fframe sp (Z.of_nat k) fr None))%nat ->
  flac_decode (firstn (42 + length (enc_frames sp 0 (firstn k frames) None) + j) (flac_encode sp frames)) =
  Some (FDec sp (firstn k frames) StTrunc).
Proof.
  intros sp frames k fr j Hsp Hf Hl Hk Hj. unfold flac_encode, flac_encode_bad.
  destruct (nth_error_split' frames k fr Hk) as [E Lk].
  assert (Hklt : (k < length frames)%nat) by (apply nth_error_Some; congruence).
  set (P := enc_frames sp 0 (firstn k frames) None).
  set (F := enc_fframe sp (Z.of_nat k) fr None) in *.
  assert (Ecut : firstn (42 + length P + j) (stream_hdr sp (total_of frames) ++ enc_frames sp 0 frames None) =
                 stream_hdr sp (total_of frames) ++ (P ++ firstn j F)).
  { rewrite (enc_frames_split sp frames k fr _ Hk). cbn [defect_at]. fold P. fold F.
    rewrite <- (stream_hdr_length sp (total_of frames)), <- Nat.add_assoc.
    rewrite firstn_app_2. f_equal. rewrite firstn_app_2. f_equal.
    rewrite firstn_app. replace (j - length F)%nat with 0%nat by lia. now rewrite firstn_O, app_nil_r. }
  rewrite Ecut.
  rewrite (flac_decode_stream sp _ _ Hsp (total_small sp frames Hsp Hf Hl)).
  assert (Hfk : Forall (fframe_ok sp) (firstn k frames)) by (now apply Forall_firstn).
  assert (Hfr : fframe_ok sp fr).
  { rewrite Forall_forall in Hf. apply Hf. eapply nth_error_In; eauto. }
  pose proof (enc_frames_length_ge sp (firstn k frames) 0 None) as Hge. fold P in Hge. rewrite Lk in Hge.
  unfold P at 2.
  rewrite (dec_frames_prefix sp None (firstn k frames) 0 _ _ Hsp Hfk); rewrite ?Lk; try (rewrite ?app_length; lia).
  2:{ intros; reflexivity. }
  rewrite Nat.add_0_l.
  match goal with |- context [dec_frames ?n sp k _] => destruct n as [|f] eqn:Ef end.
  { rewrite app_length, firstn_length in Ef. lia. }
  unfold F. rewrite (dec_frames_trunc_head sp f k fr j Hsp Hfr) by (fold F; lia).
  rewrite app_nil_r. reflexivity.
Qed.

(** a file cut exactly at the start of frame [k]: the frames before it; the announced number of
    samples is not reached *)
Lemma flac_cut_at_boundary_lemma : forall sp frames k,
  fspec_ok sp -> Forall (fframe_ok sp) frames -> (length frames <= 128)%nat -> (k < length frames)%nat ->
  flac_decode (firstn (42 + length (enc_frames sp 0 (firstn k frames) None)) (flac_encode sp frames)) =
  Some (FDec sp (firstn k frames) StShort).
Proof.
  intros sp frames k Hsp Hf Hl Hk. unfold flac_encode, flac_encode_bad.
  set (P := enc_frames sp 0 (firstn k frames) None).
  assert (Lk : length (firstn k frames) = k) by (rewrite firstn_length; lia).
  assert (Ecut : firstn (42 + length P) (stream_hdr sp (total_of frames) ++ enc_frames sp 0 frames None) =
                 stream_hdr sp (total_of frames) ++ P).
  { rewrite <- (firstn_skipn k frames) at 2. rewrite enc_frames_app. fold P.
    rewrite <- (stream_hdr_length sp (total_of frames)).
    rewrite firstn_app_2. f_equal. rewrite <- (Nat.add_0_r (length P)), firstn_app_2. now rewrite firstn_O, app_nil_r. }
  rewrite Ecut.
  rewrite (flac_decode_stream sp _ _ Hsp (total_small sp frames Hsp Hf Hl)).
  assert (Hfk : Forall (fframe_ok sp) (firstn k frames)) by (now apply Forall_firstn).
  pose proof (enc_frames_length_ge sp (firstn k frames) 0 None) as Hge. fold P in Hge. rewrite Lk in Hge.
  rewrite <- (app_nil_r P) at 2. unfold P at 2.
  rewrite (dec_frames_prefix sp None (firstn k frames) 0 _ [] Hsp Hfk); rewrite ?Lk; try lia.
  2:{ intros; reflexivity. }
  rewrite dec_frames_nil, app_nil_r. cbn [final_stop].
  assert (Hlt : total_of (firstn k frames) < total_of frames).
  { rewrite <- (firstn_skipn k frames) at 2. rewrite total_of_app.
    assert (Hs : Forall (fframe_ok sp) (skipn k frames)) by (now apply Forall_skipn).
    pose proof (total_of_bound sp _ Hs) as B. rewrite skipn_length in B. lia. }
  replace (total_of (firstn k frames) <? total_of frames) with true by (symmetry; now apply Z.ltb_lt).
  reflexivity.
Qed.

(** * the audio of a frame list, and what a loader is specified to return *)
Lemma fl_audio_app : forall a b, fl_audio (a ++ b) = fl_audio a ++ fl_audio b.
Proof. intros. unfold fl_audio. now rewrite map_app, concat_app. Qed.

Lemma fl_samples_length : forall fr, length (fl_samples fr) = Z.to_nat (f_n fr).
Proof. intros. unfold fl_samples. now rewrite map_length, seq_length. Qed.

Lemma fl_audio_length : forall sp frames, Forall (fframe_ok sp) frames ->
  Z.of_nat (length (fl_audio frames)) = total_of frames.
Proof.
  intros sp frames H. induction H as [|fr frames (Hn & _) _ IH]; [reflexivity|].
  change (fl_audio (fr :: frames)) with (fl_samples fr ++ fl_audio frames).
  change (total_of (fr :: frames)) with (f_n fr + total_of frames).
  rewrite app_length, fl_samples_length, Nat2Z.inj_add, IH, Z2Nat.id; lia.
Qed.

(** the audio of the first [k] frames is a prefix of the audio *)
Lemma fl_audio_firstn : forall k frames,
  fl_audio (firstn k frames) = firstn (length (fl_audio (firstn k frames))) (fl_audio frames).
Proof.
  intros k frames. rewrite <- (firstn_skipn k frames) at 3. rewrite fl_audio_app.
  rewrite <- (Nat.add_0_r (length (fl_audio (firstn k frames)))), firstn_app_2.
  now rewrite firstn_O, app_nil_r.
Qed.

Lemma fl_glue_all_z_firstn : forall m frs zs,
  fl_glue_all_z frs = Some zs -> fl_glue_all_z (firstn m frs) = Some (firstn m zs).
Proof.
  induction m as [|m IH]; intros frs zs H; [reflexivity|].
  destruct frs as [|fr frs]; cbn in H |- *.
  - injection H as <-. reflexivity.
  - destruct (fl_glue_z fr) as [a|]; [|discriminate].
    destruct (fl_glue_all_z frs) as [b|] eqn:Hb; [|discriminate].
    injection H as <-. cbn [firstn]. now rewrite (IH frs b Hb).
Qed.

Lemma fl_glue_all_z_length : forall frs zs, fl_glue_all_z frs = Some zs -> length zs = length frs.
Proof.
  induction frs as [|fr frs IH]; intros zs H; cbn in H.
  - injection H as <-. reflexivity.
  - destruct (fl_glue_z fr) as [a|]; [|discriminate].
    destruct (fl_glue_all_z frs) as [b|] eqn:Hb; [|discriminate].
    injection H as <-. cbn. now rewrite (IH b).
Qed.

(** every time step of a well-formed frame has one sample per channel *)
Lemma fl_samples_width : forall sp fr, fframe_ok sp fr ->
  Forall (fun st => length st = Z.to_nat (fl_ch sp)) (fl_samples fr).
Proof.
  intros sp fr (_ & Hl & _). unfold fl_samples. apply Forall_forall. intros st Hin.
  apply in_map_iff in Hin as [t [<- _]]. now rewrite map_length.
Qed.
Lemma fl_audio_width : forall sp frames, Forall (fframe_ok sp) frames ->
  Forall (fun st => length st = Z.to_nat (fl_ch sp)) (fl_audio frames).
Proof.
  intros sp frames H. induction H as [|fr frames Hfr _ IH]; [constructor|].
  change (fl_audio (fr :: frames)) with (fl_samples fr ++ fl_audio frames).
  apply Forall_app. split; [now apply fl_samples_width|assumption].
Qed.

(** the frames a loader is SPECIFIED to produce from the audio (sp, frames): each time step
    converted, mono duplicated, stereo as is, more channels unsupported *)
Definition fl_spec_frames (sp : fspec) (frames : list fframe) : option (list (f32 * f32)) :=
  option_map (map (fl_to_f32 (fl_bps sp))) (fl_glue_all_z (fl_audio frames)).

Lemma fl_glue_mono : forall steps, Forall (fun st => length st = 1%nat) steps ->
  fl_glue_all_z steps = Some (map (fun st => (hd 0 st, hd 0 st)) steps).
Proof.
  intros steps H. induction H as [|st steps Hst _ IH]; [reflexivity|].
  cbn [fl_glue_all_z map]. rewrite IH. destruct st as [|m [|? ?]]; cbn in Hst; try lia. reflexivity.
Qed.
Lemma fl_glue_stereo : forall steps, Forall (fun st => length st = 2%nat) steps ->
  fl_glue_all_z steps = Some (map (fun st => (nth 0 st 0, nth 1 st 0)) steps).
Proof.
  intros steps H. induction H as [|st steps Hst _ IH]; [reflexivity|].
  cbn [fl_glue_all_z map]. rewrite IH. destruct st as [|l [|r [|? ?]]]; cbn in Hst; try lia. reflexivity.
Qed.
Lemma fl_glue_multi : forall n steps, (3 <= n)%nat -> Forall (fun st => length st = n) steps -> steps <> [] ->
  fl_glue_all_z steps = None.
Proof.
  intros n steps Hn H Hne. destruct H as [|st steps Hst _]; [congruence|].
  cbn [fl_glue_all_z]. destruct st as [|a [|b [|c ?]]]; cbn in Hst; try lia. reflexivity.
Qed.

Lemma fl_spec_frames_mono : forall sp frames, fl_ch sp = 1 -> Forall (fframe_ok sp) frames ->
  fl_spec_frames sp frames =
  Some (map (fun st => let m := fl_conv (fl_bps sp) (hd 0 st) in (m, m)) (fl_audio frames)).
Proof.
  intros sp frames Hc Hf. unfold fl_spec_frames.
  pose proof (fl_audio_width sp frames Hf) as W. rewrite Hc in W.
  rewrite (fl_glue_mono _ W). cbn [option_map]. now rewrite map_map.
Qed.
Lemma fl_spec_frames_stereo : forall sp frames, fl_ch sp = 2 -> Forall (fframe_ok sp) frames ->
  fl_spec_frames sp frames =
  Some (map (fun st => (fl_conv (fl_bps sp) (nth 0 st 0), fl_conv (fl_bps sp) (nth 1 st 0))) (fl_audio frames)).
Proof.
  intros sp frames Hc Hf. unfold fl_spec_frames.
  pose proof (fl_audio_width sp frames Hf) as W. rewrite Hc in W.
  rewrite (fl_glue_stereo _ W). cbn [option_map]. now rewrite map_map.
Qed.
Lemma fl_audio_nonempty : forall sp frames, Forall (fframe_ok sp) frames -> frames <> [] -> fl_audio frames <> [].
Proof.
  intros sp frames H Hne E. pose proof (fl_audio_length sp frames H) as L. rewrite E in L. cbn in L.
  pose proof (total_of_bound sp frames H) as B. destruct frames; [congruence|cbn [length] in B; lia].
Qed.
Lemma fl_spec_frames_multi : forall sp frames, 3 <= fl_ch sp -> Forall (fframe_ok sp) frames -> frames <> [] ->
  fl_spec_frames sp frames = None.
Proof.
  intros sp frames Hc Hf Hne. unfold fl_spec_frames.
  rewrite (fl_glue_multi (Z.to_nat (fl_ch sp))); [reflexivity|lia|now apply fl_audio_width|].
  now apply (fl_audio_nonempty sp).
Qed.

Lemma flac_ref_load_of_decode : forall bs sp frames w,
  flac_decode bs = Some (FDec sp frames w) ->
  flac_ref_load bs =
  match w with
  | StEnd | StShort | StTrunc =>
      match frames with
      | [] => LOk (fl_rate sp) []
      | _ => match fl_spec_frames sp frames with
             | Some frs => LOk (fl_rate sp) frs
             | None => LErrChannels
             end
      end
  | _ => LErr
  end.
Proof.
  intros bs sp frames w H. unfold flac_ref_load, flac_ref_load_z, fl_spec_frames. rewrite H.
  destruct w; try reflexivity; (destruct frames as [|fr frames]; [reflexivity|];
    destruct (fl_glue_all_z (fl_audio (fr :: frames))); reflexivity).
Qed.

(** loading a valid file *)
Lemma flac_load_lemma : forall sp frames,
  fspec_ok sp -> Forall (fframe_ok sp) frames -> (length frames <= 128)%nat ->
  flac_ref_load (flac_encode sp frames) =
  match frames with
  | [] => LOk (fl_rate sp) []
  | _ => match fl_spec_frames sp frames with
         | Some frs => LOk (fl_rate sp) frs
         | None => LErrChannels
         end
  end.
Proof.
  intros sp frames Hsp Hf Hl.
  now rewrite (flac_ref_load_of_decode _ _ _ _ (flac_roundtrip_lemma sp frames Hsp Hf Hl)).
Qed.

(** a frame with a defect: an error value *)
Lemma flac_load_bad_lemma : forall sp frames k fr d,
  fspec_ok sp -> Forall (fframe_ok sp) frames -> (length frames <= 128)%nat ->
  nth_error frames k = Some fr -> defect_ok fr d ->
  flac_ref_load (flac_encode_bad sp frames (Some (k, d))) = LErr.
Proof.
  intros sp frames k fr d Hsp Hf Hl Hk Hd.
  rewrite (flac_ref_load_of_decode _ _ _ _ (flac_bad_frame_lemma sp frames k fr d Hsp Hf Hl Hk Hd)).
  destruct d; reflexivity.
Qed.

Lemma fl_spec_frames_firstn : forall sp frames k frs,
  fl_spec_frames sp frames = Some frs ->
  fl_spec_frames sp (firstn k frames) = Some (firstn (length (fl_audio (firstn k frames))) frs).
Proof.
  intros sp frames k frs H. unfold fl_spec_frames in *.
  destruct (fl_glue_all_z (fl_audio frames)) as [zs|] eqn:E; [|discriminate].
  cbn [option_map] in H. injection H as <-.
  set (m := length (fl_audio (firstn k frames))).
  rewrite fl_audio_firstn. fold m. rewrite (fl_glue_all_z_firstn _ _ _ E). cbn [option_map].
  now rewrite firstn_map.
Qed.

(** a file cut anywhere inside frame [k] (or exactly at its start): the valid prefix, ending at
    the boundary of frame [k] *)
Lemma flac_load_truncated_lemma : forall sp frames k fr j frs,
  fspec_ok sp -> Forall (fframe_ok sp) frames -> (length frames <= 128)%nat ->
  nth_error frames k = Some fr -> (j < length (enc_fframe sp (Z.of_nat k) fr None))%nat ->
  fl_spec_frames sp frames = Some frs ->
  flac_ref_load (firstn (42 + length (enc_frames sp 0 (firstn k frames) None) + j) (flac_encode sp frames)) =
  LOk (fl_rate sp) (firstn (Z.to_nat (total_of (firstn k frames))) frs).
Proof.
  intros sp frames k fr j frs Hsp Hf Hl Hk Hj Hfrs.
  assert (Hklt : (k < length frames)%nat) by (apply nth_error_Some; congruence).
  assert (Hfk : Forall (fframe_ok sp) (firstn k frames)) by (now apply Forall_firstn).
  assert (Hlen : length (fl_audio (firstn k frames)) = Z.to_nat (total_of (firstn k frames))).
  { rewrite <- (fl_audio_length sp _ Hfk). now rewrite Nat2Z.id. }
  assert (D : exists w, (w = StTrunc \/ w = StShort) /\
     flac_decode (firstn (42 + length (enc_frames sp 0 (firstn k frames) None) + j) (flac_encode sp frames)) =
     Some (FDec sp (firstn k frames) w)).
  { destruct j as [|j].
    - exists StShort. split; [now right|]. rewrite Nat.add_0_r. now apply flac_cut_at_boundary_lemma.
    - exists StTrunc. split; [now left|]. apply (flac_truncation_lemma sp frames k fr); try assumption. lia. }
  destruct D as (w & Hw & D). rewrite (flac_ref_load_of_decode _ _ _ _ D).
  rewrite (fl_spec_frames_firstn sp frames k frs Hfrs), Hlen.
  destruct (firstn k frames) as [|f0 fs] eqn:E.
  - cbn [total_of fold_right Z.to_nat firstn]. destruct Hw as [-> | ->]; reflexivity.
  - destruct Hw as [-> | ->]; reflexivity.
Qed.

(** * the encoder writes bytes *)
Definition is_byte (b : Z) : Prop := 0 <= b < 256.

Lemma le_bytes_bytes : forall n x, Forall is_byte (le_bytes n x).
Proof.
  induction n as [|n IH]; intros x; cbn [le_bytes]; constructor; [|apply IH].
  unfold is_byte. apply Z.mod_pos_bound. lia.
Qed.
Lemma be_bytes_bytes : forall n x, Forall is_byte (be_bytes n x).
Proof. intros. unfold be_bytes. apply Forall_rev, le_bytes_bytes. Qed.

Lemma concat_bytes : forall (ls : list (list Z)), Forall (Forall is_byte) ls -> Forall is_byte (concat ls).
Proof. intros ls H. induction H as [|l ls Hl _ IH]; cbn [concat]; [constructor|apply Forall_app; now split]. Qed.

Lemma sub_payload_bytes : forall b s, Forall is_byte (sub_payload b s).
Proof.
  intros b [v|xs]; cbn [sub_payload]; [apply be_bytes_bytes|].
  apply concat_bytes. apply Forall_forall. intros l Hl. apply in_map_iff in Hl as [x [<- _]]. apply be_bytes_bytes.
Qed.

Lemma enc_subs_bytes : forall b subs ci, Forall is_byte (enc_subs b None ci subs).
Proof.
  intros b subs. induction subs as [|s subs IH]; intros ci; cbn [enc_subs]; [constructor|].
  apply Forall_app. split; [|apply IH]. constructor; [|apply sub_payload_bytes].
  cbn [sub_hdr]. unfold is_byte. destruct (sub_type_cases s) as [-> | ->]; lia.
Qed.

Lemma enc_fframe_bytes : forall sp idx fr,
  fspec_ok sp -> fframe_ok sp fr -> 0 <= idx < 128 -> Forall is_byte (enc_fframe sp idx fr None).
Proof.
  intros sp idx fr (Hch & _ & Hbs) (Hn & _ & _) Hidx. rewrite enc_fframe_shape. cbv zeta. unfold frame_hdr6.
  pose proof (fcode_range (fl_bps sp)) as Hc.
  apply Forall_app. split; [|apply be_bytes_bytes].
  apply Forall_app. split.
  - repeat constructor; unfold is_byte; try lia.
  - constructor; [apply crc8_range|apply enc_subs_bytes].
Qed.

Lemma enc_frames_bytes : forall sp frames idx,
  fspec_ok sp -> Forall (fframe_ok sp) frames -> (idx + length frames <= 128)%nat ->
  Forall is_byte (enc_frames sp idx frames None).
Proof.
  intros sp frames. induction frames as [|fr frames IH]; intros idx Hsp Hf Hl; cbn [enc_frames]; [constructor|].
  inversion Hf as [|? ? Hfr Hf']; subst. cbn [length] in Hl.
  apply Forall_app. split; [apply enc_fframe_bytes; try assumption; lia|apply IH; try assumption; lia].
Qed.

Lemma flac_encode_bytes_lemma : forall sp frames,
  fspec_ok sp -> Forall (fframe_ok sp) frames -> (length frames <= 128)%nat ->
  Forall (fun b => 0 <= b < 256) (flac_encode sp frames).
Proof.
  intros sp frames Hsp Hf Hl. unfold flac_encode, flac_encode_bad.
  apply Forall_app. split; [|apply (enc_frames_bytes sp frames 0 Hsp Hf); lia].
  unfold stream_hdr, FLAC_MAGIC.
  assert (K : forall l, Forall is_byte l -> Forall (fun b => 0 <= b < 256) l) by (intros l H; exact H).
  apply K.
  apply Forall_app; split; [repeat constructor; unfold is_byte; lia|].
  apply Forall_app; split; [apply be_bytes_bytes|].
  apply Forall_app; split; [apply be_bytes_bytes|].
  apply Forall_app; split; [repeat constructor; unfold is_byte; lia|].
  apply Forall_app; split; [apply be_bytes_bytes|].
  repeat constructor; unfold is_byte; lia.
Qed.

(** * the statements of Props.v *)
Lemma flac_roundtrip_bytes_lemma : forall sp frames,
  fspec_ok sp -> Forall (fframe_ok sp) frames -> (length frames <= 128)%nat ->
  flac_decode (flac_encode sp frames) = Some (FDec sp frames StEnd) /\
  Forall (fun b => 0 <= b < 256) (flac_encode sp frames).
Proof. intros. split; [now apply flac_roundtrip_lemma|now apply flac_encode_bytes_lemma]. Qed.

Lemma flac_truncation_both_lemma : forall sp frames k fr,
  fspec_ok sp -> Forall (fframe_ok sp) frames -> (length frames <= 128)%nat ->
  nth_error frames k = Some fr ->
  (forall j : nat, (0 < j < length (enc_fframe sp (Z.of_nat k) fr None))%nat ->
     flac_decode (firstn (42 + length (enc_frames sp 0 (firstn k frames) None) + j) (flac_encode sp frames)) =
     Some (FDec sp (firstn k frames) StTrunc)) /\
  flac_decode (firstn (42 + length (enc_frames sp 0 (firstn k frames) None)) (flac_encode sp frames)) =
  Some (FDec sp (firstn k frames) StShort).
Proof.
  intros sp frames k fr Hsp Hf Hl Hk. split.
  - intros j Hj. now apply (flac_truncation_lemma sp frames k fr).
  - apply flac_cut_at_boundary_lemma; try assumption. apply nth_error_Some. congruence.
Qed.

Lemma fl_spec_frames_shape_lemma : forall sp frames,
  Forall (fframe_ok sp) frames ->
  Z.of_nat (length (fl_audio frames)) = total_of frames /\
  (fl_ch sp = 1 ->
     fl_spec_frames sp frames =
     Some (map (fun st => let m := fl_conv (fl_bps sp) (hd 0 st) in (m, m)) (fl_audio frames))) /\
  (fl_ch sp = 2 ->
     fl_spec_frames sp frames =
     Some (map (fun st => (fl_conv (fl_bps sp) (nth 0 st 0), fl_conv (fl_bps sp) (nth 1 st 0))) (fl_audio frames))) /\
  (3 <= fl_ch sp -> frames <> [] -> fl_spec_frames sp frames = None).
Proof.
  intros sp frames H. split; [now apply (fl_audio_length sp)|]. split; [|split].
  - intros C. now apply fl_spec_frames_mono.
  - intros C. now apply fl_spec_frames_stereo.
  - intros C N. now apply fl_spec_frames_multi.
Qed.

Lemma flac_load_bad_files_lemma : forall sp frames k fr,
  fspec_ok sp -> Forall (fframe_ok sp) frames -> (length frames <= 128)%nat ->
  nth_error frames k = Some fr ->
  (forall d : defect, defect_ok fr d ->
     flac_ref_load (flac_encode_bad sp frames (Some (k, d))) = LErr) /\
  (forall (j : nat) (frs : list (f32 * f32)),
     (j < length (enc_fframe sp (Z.of_nat k) fr None))%nat ->
     fl_spec_frames sp frames = Some frs ->
     flac_ref_load (firstn (42 + length (enc_frames sp 0 (firstn k frames) None) + j) (flac_encode sp frames)) =
     LOk (fl_rate sp) (firstn (Z.to_nat (total_of (firstn k frames))) frs)).
Proof.
  intros sp frames k fr Hsp Hf Hl Hk. split.
  - intros d Hd. now apply (flac_load_bad_lemma sp frames k fr d).
  - intros j frs Hj Hs. now apply (flac_load_truncated_lemma sp frames k fr j frs).
Qed.
