(** C18 — executable model (no proofs): PCM / IEEE-float audio under a WAVE_FORMAT_EXTENSIBLE
    header.  The fmt chunk has 40 bytes: wFormatTag 0xFFFE, the usual fields, cbSize 22,
    wValidBitsPerSample (= the container size here), dwChannelMask (which speakers the
    channels are meant for) and the SubFormat GUID, whose first two bytes are the format tag
    of the samples (1 PCM, 3 IEEE float).  [encode_ext] is the independent encoder (the harness
    carries its twin), [decode_ext] the strict reference decoder, which REPORTS the mask, and
    [ref_load_ext] what a loader is specified to return: it does not look at the mask. *)
From Coq Require Import ZArith List Bool Lia.
From KV Require Import Base.IEEE Base.Outcome C18.Model.
Import ListNotations.
Local Open Scope Z_scope.

(** bytes 2..15 of KSDATAFORMAT_SUBTYPE_PCM / _IEEE_FLOAT *)
Definition GUID_TAIL : list byte := [0; 0; 0; 0; 16; 0; 128; 0; 0; 170; 0; 56; 155; 113].

Definition header_ext (sp : spec) (mask dlen : Z) : list byte :=
  RIFF ++ le_bytes 4 (60 + dlen + dlen mod 2) ++ WAVE
  ++ FMT_ ++ le_bytes 4 40
  ++ le_bytes 2 65534 ++ le_bytes 2 (s_channels sp)
  ++ le_bytes 4 (s_rate sp) ++ le_bytes 4 ((s_rate sp * block_of sp) mod 2 ^ 32)
  ++ le_bytes 2 (block_of sp) ++ le_bytes 2 (bits (s_fmt sp))
  ++ le_bytes 2 22 ++ le_bytes 2 (bits (s_fmt sp)) ++ le_bytes 4 mask
  ++ le_bytes 2 (fmt_tag (s_fmt sp)) ++ GUID_TAIL
  ++ DATA ++ le_bytes 4 dlen.

Definition encode_ext (sp : spec) (mask : Z) (frames : list (list Z)) : list byte :=
  let d := enc_data (s_fmt sp) frames in
  let dlen := Z.of_nat (length d) in
  header_ext sp mask dlen ++ d ++ pad dlen.

Record hdr_ext := { x_riff_ok : bool; x_wave_ok : bool; x_fmt_ok : bool; x_fmt_len : Z; x_tag : Z;
                    x_ch : Z; x_rate : Z; x_block : Z; x_bits : Z; x_cb : Z; x_valid : Z; x_mask : Z;
                    x_sub : Z; x_guid_ok : bool; x_data_ok : bool; x_dlen : Z }.
Definition parse_hdr_ext (bs : list byte) : hdr_ext :=
  {| x_riff_ok := list_eqb (sub bs 0 4) RIFF; x_wave_ok := list_eqb (sub bs 8 4) WAVE;
     x_fmt_ok := list_eqb (sub bs 12 4) FMT_; x_fmt_len := le_val (sub bs 16 4);
     x_tag := le_val (sub bs 20 2); x_ch := le_val (sub bs 22 2); x_rate := le_val (sub bs 24 4);
     x_block := le_val (sub bs 32 2); x_bits := le_val (sub bs 34 2); x_cb := le_val (sub bs 36 2);
     x_valid := le_val (sub bs 38 2); x_mask := le_val (sub bs 40 4); x_sub := le_val (sub bs 44 2);
     x_guid_ok := list_eqb (sub bs 46 14) GUID_TAIL; x_data_ok := list_eqb (sub bs 60 4) DATA;
     x_dlen := le_val (sub bs 64 4) |}.

(** strict reference decoder: (spec, channel mask, frames) *)
Definition decode_ext (bs : list byte) : option (spec * Z * list (list Z)) :=
  let h := parse_hdr_ext bs in
  if negb (x_riff_ok h && x_wave_ok h && x_fmt_ok h && x_guid_ok h && x_data_ok h
           && (x_fmt_len h =? 40) && (x_tag h =? 65534) && (x_cb h =? 22)) then None else
  match fmt_of (x_sub h) (x_bits h) with
  | None => None
  | Some f =>
      let sp := {| s_fmt := f; s_channels := x_ch h; s_rate := x_rate h |} in
      if (x_ch h =? 0) || negb (x_block h =? block_of sp) || negb (x_valid h =? x_bits h) then None else
      let data := firstn (Z.to_nat (x_dlen h)) (skipn 68 bs) in
      Some (sp, x_mask h, map (dec_frame f) (chunks (Z.to_nat (block_of sp)) data))
  end.

(** what a loader is specified to return: the channel COUNT decides (mono duplicated, stereo,
    otherwise UnsupportedChannelConfiguration); the mask is not consulted *)
Definition ref_load_ext (bs : list byte) : load_result :=
  match decode_ext bs with
  | None => LErr
  | Some (sp, _, frames) =>
      match frames with
      | [] => LOk (s_rate sp) []
      | _ => match spec_frames sp frames with
             | Some frs => LOk (s_rate sp) frs
             | None => LErrChannels
             end
      end
  end.
