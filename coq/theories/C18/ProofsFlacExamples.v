(** C18 — FLAC subset: non-vacuity (concrete inputs meeting the hypotheses of the theorems),
    known-answer tests of the two CRCs, and one file with every kind of defect. *)
From Coq Require Import ZArith List Bool Lia.
From KV Require Import Base.IEEE Base.Outcome C18.Model C18.ModelFlac C18.ProofsFlac C18.ProofsFlacConv.
Import ListNotations.
Local Open Scope Z_scope.

(** the standard check values of CRC-8 (polynomial 0x07) and CRC-16 (polynomial 0x8005, not
    reflected, initial value 0) on the ASCII string "123456789" *)
Example ex_crc8_check : crc8 [49; 50; 51; 52; 53; 54; 55; 56; 57] = 0xF4.
Proof. vm_compute. reflexivity. Qed.
Example ex_crc16_check : crc16 [49; 50; 51; 52; 53; 54; 55; 56; 57] = 0xFEE8.
Proof. vm_compute. reflexivity. Qed.
(** appending its CRC-16 to a message brings the register back to 0 *)
Example ex_crc16_residue : crc16 ([1; 2; 3; 250] ++ be_bytes 2 (crc16 [1; 2; 3; 250])) = 0.
Proof. vm_compute. reflexivity. Qed.

Definition ex_fsp : fspec := {| fl_bps := B16; fl_ch := 2; fl_rate := 44100; fl_bs := 16 |}.
Definition ex_ramp (a : Z) : list Z := map (fun i => a + Z.of_nat i) (seq 0 16).
Definition ex_fframes : list fframe :=
  [ {| f_n := 16; f_subs := [SVerb (ex_ramp 1); SConst (-32768)] |};
    {| f_n := 16; f_subs := [SVerb (ex_ramp 17); SVerb (ex_ramp (-8))] |};
    {| f_n := 5;  f_subs := [SConst 32767; SVerb [0; -1; 1; -2; 2]] |} ].

Example ex_fl_hyps : fspec_ok ex_fsp /\ Forall (fframe_ok ex_fsp) ex_fframes /\ (length ex_fframes <= 128)%nat.
Proof.
  unfold fspec_ok, ex_fsp, ex_fframes, fframe_ok, sub_ok, fsample_ok. cbn.
  repeat split; try lia; repeat constructor; cbn; lia.
Qed.
Example ex_fl_defects :
  defect_ok (nth 1 ex_fframes (Build_fframe 0 [])) (DResSub 1 2) /\
  defect_ok (nth 1 ex_fframes (Build_fframe 0 [])) (DResSize 7) /\
  defect_ok (nth 1 ex_fframes (Build_fframe 0 [])) (DWasted 1) /\
  defect_ok (nth 1 ex_fframes (Build_fframe 0 [])) (DCrc16 1) /\
  defect_ok (nth 1 ex_fframes (Build_fframe 0 [])) (DCrc8 128).
Proof. cbn. repeat split; lia. Qed.

Example ex_fl_roundtrip : flac_decode (flac_encode ex_fsp ex_fframes) = Some (FDec ex_fsp ex_fframes StEnd).
Proof. vm_compute. reflexivity. Qed.
Example ex_fl_length : length (flac_encode ex_fsp ex_fframes) = (42 + (9 + 33 + 3) + (9 + 33 + 33) + (9 + 3 + 11))%nat.
Proof. vm_compute. reflexivity. Qed.

(** every kind of defect in frame 1: exactly frame 0 is delivered, and the reason is reported *)
Example ex_fl_bad :
  map (fun d => flac_decode (flac_encode_bad ex_fsp ex_fframes (Some (1%nat, d))))
      [DResSub 0 2; DResSub 1 31; DResSize 3; DWasted 1; DCrc16 0x8000; DCrc8 1] =
  map (fun w => Some (FDec ex_fsp (firstn 1 ex_fframes) w))
      [StResSub; StResSub; StResSize; StWasted; StCrc16; StCrc8].
Proof. vm_compute. reflexivity. Qed.
(** ... which a loader must turn into an error value *)
Example ex_fl_bad_load : flac_ref_load (flac_encode_bad ex_fsp ex_fframes (Some (1%nat, DResSub 0 2))) = LErr.
Proof. vm_compute. reflexivity. Qed.

(** the file cut in the middle of frame 1, and exactly in front of it: frame 0 *)
Example ex_fl_cut :
  (flac_decode (firstn (42 + 45 + 30) (flac_encode ex_fsp ex_fframes)),
   flac_decode (firstn (42 + 45) (flac_encode ex_fsp ex_fframes))) =
  (Some (FDec ex_fsp (firstn 1 ex_fframes) StTrunc), Some (FDec ex_fsp (firstn 1 ex_fframes) StShort)).
Proof. vm_compute. reflexivity. Qed.

(** FIXED / LPC subframes are valid FLAC outside the subset: the reference decoder says so *)
Example ex_fl_unsupported :
  flac_decode (flac_encode_bad ex_fsp ex_fframes (Some (0%nat, DResSub 0 8))) = Some (FDec ex_fsp [] StUnsupSub).
Proof. vm_compute. reflexivity. Qed.

(** what loading the example must give: 37 stereo frames, first (1/32768, -1.0), last (32767/32768, 2/32768) *)
Example ex_fl_load :
  match flac_ref_load (flac_encode ex_fsp ex_fframes) with
  | LOk r f => (r, length f, option_map (fun '(l, r) => (bits_of_f32 l, bits_of_f32 r)) (hd_error f),
                option_map (fun '(l, r) => (bits_of_f32 l, bits_of_f32 r)) (hd_error (rev f)))
  | _ => (0, 0%nat, None, None)
  end = (44100, 37%nat, Some (0x38000000, 0xBF800000), Some (0x3F7FFE00, 0x38800000)).
Proof. vm_compute. reflexivity. Qed.

Example ex_fl_conv_values :
  (map (fun x => bits_of_f32 (fl_conv B8 x)) [-128; -1; 0; 1; 127],
   map (fun x => bits_of_f32 (fl_conv B16 x)) [-32768; -1; 0; 1; 32767],
   map (fun x => bits_of_f32 (fl_conv B24 x)) [-8388608; -1; 0; 1; 8388607]) =
  ([0xBF800000; 0xBC000000; 0; 0x3C000000; 0x3F7E0000],
   [0xBF800000; 0xB8000000; 0; 0x38000000; 0x3F7FFE00],
   [0xBF800000; 0xB4000000; 0; 0x34000000; 0x3F7FFFFE]).
Proof. vm_compute. reflexivity. Qed.
Example ex_fl_sample_ok : fsample_ok B24 (-8388608) /\ fsample_ok B24 8388607 /\ fsample_ok B8 (-128).
Proof. unfold fsample_ok. cbn. lia. Qed.
