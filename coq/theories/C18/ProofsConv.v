(** C18 — the integer sample conversions are exact in binary32: the value of the converted
    8/16/24-bit sample is the rational number the format denotes; hence finite, in [-1, 1),
    strictly monotone and injective.  (32-bit integers and binary64 samples are ROUNDED to
    binary32: see the examples at the end.) *)
From Coq Require Import ZArith Reals Lia Lra Bool List.
From Flocq Require Import Core IEEE754.BinarySingleNaN.
From KV Require Import Base.IEEE C18.Model.
Local Open Scope R_scope.

Lemma fexp32_FLT : SpecFloat.fexp 24 128 = FLT_exp (-149) 24.
Proof. reflexivity. Qed.

Lemma format32_dyadic : forall m e, (Z.abs m < 2 ^ 24)%Z -> (-149 <= e)%Z ->
  generic_format radix2 (SpecFloat.fexp 24 128) (F2R (Float radix2 m e)).
Proof.
  intros m e Hm He. rewrite fexp32_FLT. apply generic_format_FLT.
  exists (Float radix2 m e); auto.
Qed.

Lemma pow24_bpow : IZR (2 ^ 24) = bpow radix2 24.
Proof. replace (2 ^ 24)%Z with (Zpower radix2 24) by reflexivity. apply IZR_Zpower. lia. Qed.

Lemma lt_emax32 : forall r, Rabs r < bpow radix2 24 -> Rlt_bool (Rabs r) (bpow radix2 128) = true.
Proof.
  intros r H. apply Rlt_bool_true. apply Rlt_trans with (1 := H). apply bpow_lt. lia.
Qed.

Lemma Z32_exact : forall x, (Z.abs x < 2 ^ 24)%Z -> B2R (Z32 x) = IZR x /\ is_finite (Z32 x) = true.
Proof.
  intros x H. unfold Z32, of_Z.
  pose proof (binary_normalize_correct 24 128 Hprec32 Hmax32 mode_NE x 0 false) as C. cbv zeta in C.
  assert (HF : F2R (Float radix2 x 0) = IZR x) by (unfold F2R; simpl; ring).
  rewrite round_generic in C; [|apply valid_rnd_N|apply format32_dyadic; lia].
  rewrite HF in C. rewrite lt_emax32 in C.
  - destruct C as (A & B & _). now split.
  - rewrite <- abs_IZR, <- pow24_bpow. now apply IZR_lt.
Qed.

Lemma pow2_lt : forall k, (0 <= k <= 23)%Z -> (Z.abs (2 ^ k) < 2 ^ 24)%Z.
Proof.
  intros k Hk. rewrite Z.abs_eq by (apply Z.pow_nonneg; lia). apply Z.pow_lt_mono_r; lia.
Qed.

Lemma IZR_pow2 : forall k, (0 <= k)%Z -> IZR (2 ^ k) = bpow radix2 k.
Proof. intros k Hk. replace (2 ^ k)%Z with (Zpower radix2 k) by reflexivity. now apply IZR_Zpower. Qed.

Lemma div_as_F2R : forall x k, (0 <= k)%Z -> IZR x / IZR (2 ^ k) = F2R (Float radix2 x (- k)).
Proof.
  intros x k Hk. unfold F2R. cbn [Fnum Fexp]. rewrite bpow_opp, IZR_pow2 by assumption. reflexivity.
Qed.

Lemma abs_scaled_lt : forall x k, (Z.abs x < 2 ^ 24)%Z -> (0 <= k)%Z ->
  Rabs (F2R (Float radix2 x (- k))) < bpow radix2 24.
Proof.
  intros x k Hx Hk. unfold F2R. cbn [Fnum Fexp]. rewrite Rabs_mult.
  rewrite (Rabs_pos_eq (bpow radix2 (- k))) by apply bpow_ge_0.
  apply Rle_lt_trans with (Rabs (IZR x) * 1).
  - apply Rmult_le_compat_l; [apply Rabs_pos|].
    change 1 with (bpow radix2 0). apply bpow_le. lia.
  - rewrite Rmult_1_r, <- abs_IZR, <- pow24_bpow. now apply IZR_lt.
Qed.

(** [x as f32 / 2^k] is exact *)
Lemma div_exact : forall x k, (Z.abs x < 2 ^ 24)%Z -> (0 <= k <= 23)%Z ->
  B2R (div32 (Z32 x) (Z32 (2 ^ k))) = IZR x / IZR (2 ^ k) /\
  is_finite (div32 (Z32 x) (Z32 (2 ^ k))) = true.
Proof.
  intros x k Hx Hk.
  destruct (Z32_exact x Hx) as [Bx Fx]. destruct (Z32_exact (2 ^ k) (pow2_lt k Hk)) as [By Fy].
  assert (Hy : B2R (Z32 (2 ^ k)) <> 0).
  { rewrite By, IZR_pow2 by lia. apply Rgt_not_eq, bpow_gt_0. }
  pose proof (Bdiv_correct 24 128 Hprec32 Hmax32 mode_NE (Z32 x) (Z32 (2 ^ k)) Hy) as C.
  rewrite Bx, By in C. rewrite div_as_F2R in C by lia.
  rewrite round_generic in C; [|apply valid_rnd_N|apply format32_dyadic; lia].
  rewrite lt_emax32 in C by (apply abs_scaled_lt; lia).
  destruct C as (A & B & _). unfold div32, fdiv. rewrite A, B, Fx, div_as_F2R by lia. now split.
Qed.

Definition exact_fmt (f : sfmt) : Prop := f = U8 \/ f = I16 \/ f = I24.
(** the rational number an integer sample denotes *)
Definition value_of (f : sfmt) (x : Z) : R :=
  match f with
  | U8 => IZR (x - 128) / 128
  | I16 => IZR x / 32768
  | I24 => IZR x / 8388608
  | _ => 0
  end.

Lemma conv_exact_lemma : forall f x, exact_fmt f -> sample_ok f x ->
  is_finite (conv f x) = true /\ B2R (conv f x) = value_of f x.
Proof.
  intros f x [->|[->| ->]] H; unfold sample_ok in H; cbn in H; unfold conv, value_of.
  - (* U8: (x / 128) - 1 *)
    destruct (div_exact x 7 ltac:(lia) ltac:(lia)) as [Bd Fd].
    destruct (Z32_exact 1 ltac:(cbn; lia)) as [B1 F1].
    change (2 ^ 7)%Z with 128%Z in *.
    pose proof (Bminus_correct 24 128 Hprec32 Hmax32 mode_NE _ _ Fd F1) as C.
    rewrite Bd, B1 in C.
    assert (E : IZR x / 128 - 1 = F2R (Float radix2 (x - 128) (Z.opp 7))).
    { rewrite <- (div_as_F2R (x - 128) 7) by lia. change (2 ^ 7)%Z with 128%Z. rewrite minus_IZR. field. }
    rewrite E in C.
    rewrite round_generic in C; [|apply valid_rnd_N|apply format32_dyadic; lia].
    rewrite lt_emax32 in C by (apply (abs_scaled_lt (x - 128) 7); lia).
    destruct C as (A & B & _). unfold sub32, fsub. rewrite A, B. split; [reflexivity|].
    rewrite <- (div_as_F2R (x - 128) 7) by lia. reflexivity.
  - destruct (div_exact x 15 ltac:(lia) ltac:(lia)) as [Bd Fd].
    change (2 ^ 15)%Z with 32768%Z in *. now split.
  - destruct (div_exact x 23 ltac:(lia) ltac:(lia)) as [Bd Fd].
    change (2 ^ 23)%Z with 8388608%Z in *. now split.
Qed.

Lemma value_of_range : forall f x, exact_fmt f -> sample_ok f x -> -1 <= value_of f x < 1.
Proof.
  intros f x [->|[->| ->]] H; unfold sample_ok in H; cbn in H; unfold value_of.
  - assert (-128 <= IZR (x - 128) < 128) by (split; [apply IZR_le|apply IZR_lt]; lia). lra.
  - assert (-32768 <= IZR x < 32768) by (split; [apply IZR_le|apply IZR_lt]; lia). lra.
  - assert (-8388608 <= IZR x < 8388608) by (split; [apply IZR_le|apply IZR_lt]; lia). lra.
Qed.

Lemma value_of_lt : forall f x y, exact_fmt f -> (x < y)%Z -> value_of f x < value_of f y.
Proof.
  intros f x y [->|[->| ->]] H; unfold value_of.
  - assert (IZR (x - 128) < IZR (y - 128)) by (apply IZR_lt; lia). lra.
  - assert (IZR x < IZR y) by (now apply IZR_lt). lra.
  - assert (IZR x < IZR y) by (now apply IZR_lt). lra.
Qed.

Lemma conv_range_lemma : forall f x, exact_fmt f -> sample_ok f x ->
  is_finite (conv f x) = true /\ -1 <= B2R (conv f x) < 1.
Proof.
  intros f x Hf H. destruct (conv_exact_lemma f x Hf H) as [Fin V].
  split; [assumption|]. rewrite V. now apply value_of_range.
Qed.

Lemma conv_monotone_lemma : forall f x y, exact_fmt f -> sample_ok f x -> sample_ok f y ->
  (x < y)%Z -> lt32 (conv f x) (conv f y) = true.
Proof.
  intros f x y Hf Hx Hy Hlt.
  destruct (conv_exact_lemma f x Hf Hx) as [Fx Vx]. destruct (conv_exact_lemma f y Hf Hy) as [Fy Vy].
  unfold lt32, flt. rewrite Bltb_correct by assumption. rewrite Vx, Vy.
  apply Rlt_bool_true. now apply value_of_lt.
Qed.

Lemma conv_injective_lemma : forall f x y, exact_fmt f -> sample_ok f x -> sample_ok f y ->
  conv f x = conv f y -> x = y.
Proof.
  intros f x y Hf Hx Hy E.
  destruct (conv_exact_lemma f x Hf Hx) as [_ Vx]. destruct (conv_exact_lemma f y Hf Hy) as [_ Vy].
  rewrite E, Vy in Vx.
  destruct (Z.lt_trichotomy x y) as [L|[L|L]]; [|assumption|].
  - pose proof (value_of_lt f x y Hf L). lra.
  - pose proof (value_of_lt f y x Hf L). lra.
Qed.

(** the same, with the range expressed on the floats themselves *)
Lemma conv_in_unit_lemma : forall f x, exact_fmt f -> sample_ok f x ->
  le32 (Z32 (-1)) (conv f x) = true /\ lt32 (conv f x) (Z32 1) = true.
Proof.
  intros f x Hf H. destruct (conv_range_lemma f x Hf H) as [Fin [Lo Hi]].
  destruct (Z32_exact (-1) ltac:(cbn; lia)) as [Bm Fm]. destruct (Z32_exact 1 ltac:(cbn; lia)) as [B1 F1].
  unfold le32, fle, lt32, flt. rewrite Bleb_correct, Bltb_correct by assumption.
  rewrite Bm, B1. split; [apply Rle_bool_true|apply Rlt_bool_true]; assumption.
Qed.
