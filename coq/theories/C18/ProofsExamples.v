(** C18 — non-vacuity: concrete inputs that satisfy the hypotheses of the theorems, and
    witnesses of the places where the conversion is NOT exact. *)
From Coq Require Import ZArith List Bool Lia.
From KV Require Import Base.IEEE Base.Outcome C18.Model C18.ProofsWav C18.ProofsSched C18.ProofsConv.
Import ListNotations.
Local Open Scope Z_scope.

Definition ex_sp : spec := {| s_fmt := I16; s_channels := 2; s_rate := 44100 |}.
Definition ex_frames : list (list Z) := [[-32768; 32767]; [0; -1]; [1; 12345]].

Example ex_hyps : spec_ok ex_sp /\ Forall (frame_ok ex_sp) ex_frames /\ size_ok ex_sp ex_frames.
Proof.
  unfold spec_ok, size_ok, ex_sp, ex_frames, frame_ok, sample_ok. cbn.
  repeat split; try lia; repeat constructor; cbn; lia.
Qed.
Example ex_roundtrip : decode (encode ex_sp ex_frames) = Some (ex_sp, ex_frames).
Proof. vm_compute. reflexivity. Qed.
Example ex_encode_bytes :
  encode ex_sp [[1; -2]] =
  [82;73;70;70; 40;0;0;0; 87;65;86;69; 102;109;116;32; 16;0;0;0; 1;0; 2;0; 68;172;0;0; 16;177;2;0; 4;0; 16;0;
   100;97;116;97; 4;0;0;0; 1;0; 254;255].
Proof. vm_compute. reflexivity. Qed.
(** a file cut in the middle of its second frame loads as its first frame *)
Example ex_truncated :
  option_map (map (fun '(l, r) => (bits_of_f32 l, bits_of_f32 r)))
    (match sym_load (firstn (44 + 6) (encode ex_sp ex_frames)) with LOk _ f => Some f | _ => None end)
  = Some [(0xBF800000, 0x3F7FFE00)].
Proof. vm_compute. reflexivity. Qed.
(** an 8-bit mono file: the pad byte is not audio *)
Example ex_u8_pad :
  match sym_load (encode {| s_fmt := U8; s_channels := 1; s_rate := 8000 |} [[0]; [128]; [255]]) with
  | LOk r f => (r, map (fun '(l, r) => (bits_of_f32 l, bits_of_f32 r)) f)
  | _ => (0, [])
  end = (8000, [(0xBF800000, 0xBF800000); (0, 0); (0x3F7E0000, 0x3F7E0000)]).
Proof. vm_compute. reflexivity. Qed.
Example ex_multichannel :
  sym_load (encode {| s_fmt := I16; s_channels := 3; s_rate := 8000 |} [[1; 2; 3]]) = LErrChannels.
Proof. vm_compute. reflexivity. Qed.
(** a sample-rate field of 0: symphonia panics (finding F25) *)
Example ex_rate_zero :
  sym_load (encode {| s_fmt := I16; s_channels := 1; s_rate := 0 |} [[1]]) = LPanic.
Proof. vm_compute. reflexivity. Qed.

(** 32-bit integers and binary64 samples are rounded to binary32: i32::MAX becomes exactly 1.0
    (so "in [-1, 1)" does not hold for 32-bit files), a binary64 value half-way to 2^128
    becomes +infinity, 1 + 2^-24 ties to even *)
Example ex_i32_max_is_one : bits_of_f32 (conv I32 2147483647) = 0x3F800000.
Proof. vm_compute. reflexivity. Qed.
Example ex_i32_min : bits_of_f32 (conv I32 (-2147483648)) = 0xBF800000.
Proof. vm_compute. reflexivity. Qed.
Example ex_f64_overflow : bits_of_f32 (conv F64 0x47EFFFFFF0000000) = 0x7F800000.
Proof. vm_compute. reflexivity. Qed.
Example ex_f64_tie_even : bits_of_f32 (conv F64 0x3FF0000010000000) = 0x3F800000.
Proof. vm_compute. reflexivity. Qed.
Example ex_i16_values :
  map (fun x => bits_of_f32 (conv I16 x)) [-32768; -1; 0; 1; 32767] =
  [0xBF800000; 0xB8000000; 0; 0x38000000; 0x3F7FFE00].
Proof. vm_compute. reflexivity. Qed.
Example ex_exact_fmt : exact_fmt I24 /\ sample_ok I24 (-8388608) /\ sample_ok I24 8388607.
Proof. unfold exact_fmt, sample_ok. cbn. repeat split; auto; lia. Qed.

(** a conforming decoder with packets of 3 frames whose seeks land on multiples of 4 *)
Example ex_sched :
  run_ops 0%nat [10; 11; 12; 13; 14; 15; 16; 17]%nat (fun _ => 2%nat) (fun i => (i / 4 * 4)%nat) 8 8
    (sched_new (fun i => (i / 4 * 4)%nat) 6) [OFrame 6; OFrame 7; OSeek 1; OFrame 2; OFrame 9; OFrame 0; OFrame 5] =
  Ok [Some 16; Some 17; Some 12; Some 0; Some 10; Some 15]%nat.
Proof. vm_compute. reflexivity. Qed.
Example ex_stream :
  run_stream 0%nat [10; 11; 12; 13; 14]%nat (fun _ => 1%nat) (fun i => (i / 2 * 2)%nat) 5 5
    (sched_new (fun i => (i / 2 * 2)%nat) 3) 3 [STick; SSeek 1; STick; STick; SSeek 4; STick; STick] =
  Ok [(Some 13, 3); (Some 11, 1); (Some 12, 2); (Some 14, 4)]%nat.
Proof. vm_compute. reflexivity. Qed.
