(** C15 — entry points of the correspondence check (model side): the binary32/binary64
    instance of C15/Model.v driven with the inputs the harness gave to the real code. *)
From Coq Require Import ZArith List Bool.
From KV Require Import Base.IEEE Base.Outcome Base.Num Base.Corr C15.Model C15.BaseF32.
From KV Require C19.Model C19.Run.
Import ListNotations.
Local Open Scope Z_scope.

Inductive case :=
(** one output frame of a spatial track that plays a constant input frame.
    [k]    = [sinL; cosL; sinR; cosR]: [sin_cos(-+FRAC_PI_8 * 0.5)] of this platform
    [cfg]  = [dmin; dmax; atten (0/1); easing kind; easing parameter]
    [inp]  = [left; right]
    [lst]  = [] (no listener) | prev pos (3), pos (3), prev orientation (4), orientation (4)
    [em]   = prev pos (3), pos (3), prev strength, strength
    [i n]  : frame [i] of a chunk of [n] frames
    [pre]  / [post] = volume stage of a child track (before spatialization) / of the spatial
             track itself: [] (fixed 0 dB) | [first; in_lo; in_hi; out_lo; out_hi; easing kind;
             easing parameter; track position (3)] for [Value::FromListenerDistance]
    [tab64] / [tab32]: libm [powf] as recorded by the harness *)
| CSpat (k cfg inp lst em : list Z) (i n : Z) (pre post : list Z) (tab64 tab32 : list (Z * Z * Z))
(** [Info::listener_distance] seen by a sound on the track: [lst] as above, [tp] track position *)
| CDist (lst tp : list Z)
(** a spatial track nested in a spatial track (fixed 0 dB volumes): the constant input passes
    the child's stage (configuration 1, its own listener and emitter), then the parent's (2) *)
| CNest (k cfg1 lst1 em1 cfg2 lst2 em2 inp : list Z) (i n : Z) (tab64 tab32 : list (Z * Z * Z)).

Definition getz (l : list Z) (i : nat) : Z := nth i l 0.
Definition getf (l : list Z) (i : nat) : f32 := f32_of_bits (getz l i).
Definition getv (l : list Z) (i : nat) : vec3 f32 := V3 (getf l i) (getf l (i + 1)) (getf l (i + 2)).
Definition getq (l : list Z) (i : nat) : quat f32 := Qt (getf l i) (getf l (i + 1)) (getf l (i + 2)) (getf l (i + 3)).
Definition mk_listener (l : list Z) : option (listener f32) :=
  match l with
  | [] => None
  | _ => Some {| l_prev_pos := getv l 0; l_pos := getv l 3; l_prev_q := getq l 6; l_q := getq l 10 |}
  end.
Definition mk_emitter (l : list Z) : emitter f32 :=
  {| e_prev_pos := getv l 0; e_pos := getv l 3; e_prev_strength := getf l 6; e_strength := getf l 7 |}.

Definition ease64 (tab64 : list (Z * Z * Z)) (ekind ep : Z) : f64 -> f64 :=
  C19.Model.ease (C19.Run.powf64_tab tab64) (C19.Run.mk_easing ekind ep).
Definition powf10_tab (tab32 : list (Z * Z * Z)) : f32 -> f32 := C19.Run.powf32_tab tab32 (Z32 10).

(** (previous, current) decibel value of a volume parameter *)
Definition vol_db (v : list Z) (l : option (listener f32)) (tab64 : list (Z * Z * Z)) : f32 * f32 :=
  match v with
  | [] => (Z32 0, Z32 0)
  | _ =>
      let m := {| in_lo := f64_of_bits (getz v 1); in_hi := f64_of_bits (getz v 2);
                  out_lo := getf v 3; out_hi := getf v 4 |} in
      match value_from_listener_distance f32_to_f64 f64_to_f32 (ease64 tab64 (getz v 5) (getz v 6)) m l (getv v 7) with
      | None => (Z32 0, Z32 0)
      | Some db => (if getz v 0 =? 1 then Z32 0 else db, db)
      end
  end.

Definition zero_plus (fr : f32 * f32) : f32 * f32 := (add32 (Z32 0) (fst fr), add32 (Z32 0) (snd fr)).
(** the renderer's output stage, [finite_clamped]: NaN -> 0.0, everything else [clamp(-1.0, 1.0)] *)
Definition out_clamp (x : f32) : f32 := if isnan32 x then Z32 0 else clamp32 x (Z32 (-1)) (Z32 1).

Definition run_spat (k cfg inp lst em : list Z) (i n : Z) (pre post : list Z) (tab64 tab32 : list (Z * Z * Z))
  : outcome (f32 * f32) :=
  let l := mk_listener lst in
  let t := f64_to_f32 (div64 (Z64 i) (Z64 n)) in
  let t1 := f64_to_f32 (div64 (Z64 (i + 1)) (Z64 n)) in
  let p10 := powf10_tab tab32 in
  let x1 := zero_plus (getf inp 0, getf inp 1) in
  let '(pa, pb) := vol_db pre l tab64 in
  let x2 := zero_plus (apply_volume p10 pa pb t1 x1) in
  let! x3 := spatial_frame f32_to_f64 f64_to_f32 p10 (ease64 tab64 (getz cfg 3) (getz cfg 4))
               EAR_DISTANCE32 (getf k 0) (getf k 1) (getf k 2) (getf k 3)
               (getf cfg 0) (getf cfg 1) (getz cfg 2 =? 1) x2 l (mk_emitter em) t in
  let '(qa, qb) := vol_db post l tab64 in
  let x4 := zero_plus (apply_volume p10 qa qb t1 x3) in
  Ok (out_clamp (fst x4), out_clamp (snd x4)).

Definition run_nest (k cfg1 lst1 em1 cfg2 lst2 em2 inp : list Z) (i n : Z) (tab64 tab32 : list (Z * Z * Z))
  : outcome (f32 * f32) :=
  let t := f64_to_f32 (div64 (Z64 i) (Z64 n)) in
  let t1 := f64_to_f32 (div64 (Z64 (i + 1)) (Z64 n)) in
  let p10 := powf10_tab tab32 in
  let stage cfg lst em x :=
    let! y := spatial_frame f32_to_f64 f64_to_f32 p10 (ease64 tab64 (getz cfg 3) (getz cfg 4))
                EAR_DISTANCE32 (getf k 0) (getf k 1) (getf k 2) (getf k 3)
                (getf cfg 0) (getf cfg 1) (getz cfg 2 =? 1) (zero_plus x) (mk_listener lst) (mk_emitter em) t in
    Ok (apply_volume p10 (Z32 0) (Z32 0) t1 y) in
  let! x1 := stage cfg1 lst1 em1 (getf inp 0, getf inp 1) in
  let! x2 := stage cfg2 lst2 em2 x1 in
  let x3 := zero_plus x2 in
  Ok (out_clamp (fst x3), out_clamp (snd x3)).

Definition run (c : case) : list Z :=
  match c with
  | CSpat k cfg inp lst em i n pre post tab64 tab32 =>
      encode_outcome (fun fr : f32 * f32 => [bits_of_f32 (fst fr); bits_of_f32 (snd fr)])
                     (run_spat k cfg inp lst em i n pre post tab64 tab32)
  | CDist lst tp =>
      match listener_distance (mk_listener lst) (getv tp 0) with
      | None => [0]
      | Some d => [1; bits_of_f32 d]
      end
  | CNest k cfg1 lst1 em1 cfg2 lst2 em2 inp i n tab64 tab32 =>
      encode_outcome (fun fr : f32 * f32 => [bits_of_f32 (fst fr); bits_of_f32 (snd fr)])
                     (run_nest k cfg1 lst1 em1 cfg2 lst2 em2 inp i n tab64 tab32)
  end.
