(** C15 — side preference: an emitter at or beyond the left ear plane is at least as loud in
    the left ear as in the right one. *)
From Coq Require Import Reals Lra Lia Psatz Bool List.
From KV Require Import Base.Outcome C15.Model C15.ProofsR C15.ProofsGains.
Local Open Scope R_scope.

Lemma nz_core_pos x y : 0 < y -> nz_core x y = x / sqrt y.
Proof.
  intros Hy. unfold nz_core. assert (Hs : 0 < sqrt y) by (apply sqrt_lt_R0; assumption).
  assert (H : 0 < 1 / sqrt y) by (unfold Rdiv; rewrite Rmult_1_l; apply Rinv_0_lt_compat; assumption).
  apply Rltb_true in H. rewrite H. unfold Rdiv. ring.
Qed.
Lemma nz_core_zero x : nz_core x 0 = 0.
Proof.
  unfold nz_core. rewrite sqrt_0. unfold Rdiv. rewrite Rinv_0, Rmult_0_r.
  destruct (Rltb 0 0) eqn:E; [apply Rltb_true in E; lra | reflexivity].
Qed.

Lemma sq_le_le u v : 0 <= u -> 0 <= v -> u * u <= v * v -> u <= v.
Proof. intros; nra. Qed.

(** the scalar inequality.  a = -(xi + d) >= 0, b = d - xi >= a, m = rho - xi^2 >= zeta^2,
    t = -S zeta *)
Lemma side_core C S a b m t :
  0 <= C -> S * S <= C * C -> 0 <= a -> a <= b -> 0 <= m -> t * t <= S * S * m ->
  nz_core (- C * b + t) (m + b * b) <= nz_core (C * a + t) (m + a * a).
Proof.
  intros HC HSC Ha Hab Hm Ht.
  assert (Hb : 0 <= b) by lra.
  destruct (Req_dec (m + b * b) 0) as [Zr | Nr].
  { (* then everything is zero *)
    assert (m = 0) by nra. assert (b = 0) by nra. assert (a = 0) by lra. subst.
    replace (0 + 0 * 0) with 0 by ring. rewrite !nz_core_zero. lra. }
  assert (Pr : 0 < m + b * b) by nra.
  rewrite (nz_core_pos _ _ Pr).
  assert (Hsr : 0 < sqrt (m + b * b)) by (apply sqrt_lt_R0; assumption).
  assert (Hsr2 : sqrt (m + b * b) * sqrt (m + b * b) = m + b * b) by (apply sqrt_sqrt; lra).
  destruct (Req_dec (m + a * a) 0) as [Zl | Nl].
  { assert (m = 0) by nra. assert (a = 0) by nra. subst.
    replace (0 + 0 * 0) with 0 by ring. rewrite nz_core_zero.
    assert (t = 0) by nra. subst.
    apply Rmult_le_reg_r with (sqrt (0 + b * b)); [assumption|].
    unfold Rdiv. rewrite Rmult_assoc, Rinv_l by lra. nra. }
  assert (Pl : 0 < m + a * a) by nra.
  rewrite (nz_core_pos _ _ Pl).
  assert (Hsl : 0 < sqrt (m + a * a)) by (apply sqrt_lt_R0; assumption).
  assert (Hsl2 : sqrt (m + a * a) * sqrt (m + a * a) = m + a * a) by (apply sqrt_sqrt; lra).
  set (sl := sqrt (m + a * a)) in *. set (sr := sqrt (m + b * b)) in *.
  assert (Hslr : sl <= sr) by (apply sq_le_le; nra).
  (* cross-multiply *)
  assert (Hcross : (- C * b + t) * sl <= (C * a + t) * sr).
  { destruct (Rle_dec 0 (C * a + t)) as [NLpos | NLneg].
    - destruct (Rle_dec (- C * b + t) 0) as [NRneg | NRpos]; [nra|].
      assert (- C * b + t <= C * a + t) by nra. nra.
    - (* both numerators negative: compare squares *)
      assert (NL : C * a + t < 0) by lra.
      assert (NR : - C * b + t < 0) by nra.
      set (T := - t) in *.
      assert (HT : C * a < T) by (subst T; lra).
      assert (HTpos : 0 < T) by nra.
      assert (HTm : T * T <= C * C * m) by (subst T; nra).
      assert (Hpoly : (T + C * b) * (T + C * b) * (m + a * a) - (T - C * a) * (T - C * a) * (m + b * b)
                      = (a + b) * (2 * m * C * T + 2 * C * a * b * T + (b - a) * (m * C * C - T * T))) by ring.
      assert (Hnn : 0 <= 2 * m * C * T + 2 * C * a * b * T + (b - a) * (m * C * C - T * T)).
      { assert (0 <= m * C * T) by (apply Rmult_le_pos; [apply Rmult_le_pos|]; lra).
        assert (0 <= C * a * b * T) by (repeat apply Rmult_le_pos; lra).
        assert (0 <= (b - a) * (m * C * C - T * T)) by (apply Rmult_le_pos; nra).
        lra. }
      assert (Hsq : ((T - C * a) * sr) * ((T - C * a) * sr) <= ((T + C * b) * sl) * ((T + C * b) * sl)).
      { replace (((T - C * a) * sr) * ((T - C * a) * sr)) with ((T - C * a) * (T - C * a) * (sr * sr)) by ring.
        replace (((T + C * b) * sl) * ((T + C * b) * sl)) with ((T + C * b) * (T + C * b) * (sl * sl)) by ring.
        rewrite Hsr2, Hsl2.
        assert (0 <= (a + b) * (2 * m * C * T + 2 * C * a * b * T + (b - a) * (m * C * C - T * T)))
          by (apply Rmult_le_pos; lra).
        lra. }
      assert (H1 : (T - C * a) * sr <= (T + C * b) * sl).
      { apply sq_le_le; [apply Rmult_le_pos; lra | apply Rmult_le_pos; nra | exact Hsq]. }
      subst T. nra. }
  (* divide *)
  apply Rmult_le_reg_r with (sl * sr); [apply Rmult_lt_0_compat; assumption|].
  unfold Rdiv.
  replace ((- C * b + t) * / sr * (sl * sr)) with ((- C * b + t) * sl * (sr * / sr)) by ring.
  replace ((C * a + t) * / sl * (sl * sr)) with ((C * a + t) * sr * (sl * / sl)) by ring.
  rewrite !Rinv_r by lra. lra.
Qed.

Lemma vol_side d sinL cosL xi zeta rho :
  sinL * sinL + cosL * cosL = 1 -> ears_outward sinL cosL -> 0 <= d ->
  xi <= - d -> zeta * zeta <= rho - xi * xi ->
  volR d sinL cosL xi zeta rho <= volL d sinL cosL xi zeta rho.
Proof.
  intros Hu [HC HSC] Hd Hxi Hz. unfold volL, volR.
  set (C := earC sinL cosL) in *. set (S := earS sinL cosL) in *.
  pose proof (side_core C S (- (xi + d)) (d - xi) (rho - xi * xi) (- S * zeta)) as H.
  replace (- C * (d - xi) + - S * zeta) with (C * (xi - d) - S * zeta) in H by ring.
  replace (rho - xi * xi + (d - xi) * (d - xi)) with (rho - 2 * d * xi + d * d) in H by ring.
  replace (C * - (xi + d) + - S * zeta) with (- C * (xi + d) - S * zeta) in H by ring.
  replace (rho - xi * xi + - (xi + d) * - (xi + d)) with (rho + 2 * d * xi + d * d) in H by ring.
  assert (0 <= rho - xi * xi) by nra.
  assert (- S * zeta * (- S * zeta) <= S * S * (rho - xi * xi)).
  { replace (- S * zeta * (- S * zeta)) with (S * S * (zeta * zeta)) by ring.
    apply Rmult_le_compat_l; [nra | lra]. }
  specialize (H HC HSC). assert (0 <= - (xi + d)) by lra. assert (- (xi + d) <= d - xi) by lra.
  specialize (H H2 H3 H0 H1). lra.
Qed.

Lemma frame_bessel lq r :
  unitq lq -> dot r (zaxis lq) * dot r (zaxis lq) <= norm2 r - dot r (xaxis lq) * dot r (xaxis lq).
Proof.
  intros Hu. pose proof (rot_frame lq r) as H. unfold unitq in Hu. rewrite Hu in H.
  unfold xaxis, zaxis.
  set (a := dot r (q_rot lq (V3 1 0 0))) in *. set (b := dot r (q_rot lq (V3 0 1 0))) in *.
  set (c := dot r (q_rot lq (V3 0 0 1))) in *. nra.
Qed.

Lemma ear_gains_side d sinL cosL sinR cosR s lp lq pos :
  unitq lq -> ears_ok sinL cosL sinR cosR -> ears_outward sinL cosL -> 0 <= d -> 0 <= s <= 1 ->
  dot (v_sub pos lp) (xaxis lq) <= - d ->
  snd (ear_gains_R d sinL cosL sinR cosR s lp lq pos) <= fst (ear_gains_R d sinL cosL sinR cosR s lp lq pos).
Proof.
  intros Hu He Ho Hd Hs Hx. rewrite ear_gains_unfold. cbn [fst snd].
  rewrite (ear_volumes_frame _ _ _ _ _ _ _ _ Hu He). cbn [fst snd].
  pose proof (vol_side d sinL cosL _ _ _ (ears_unitL _ _ _ _ He) Ho Hd Hx (frame_bessel lq (v_sub pos lp) Hu)) as H.
  nra.
Qed.

(** the mirrored statement for the right side, through [ear_gains_mirror] *)
Lemma ear_gains_side_right d sinL cosL sinR cosR s lp lq pos :
  unitq lq -> ears_ok sinL cosL sinR cosR -> ears_outward sinL cosL -> 0 <= d -> 0 <= s <= 1 ->
  d <= dot (v_sub pos lp) (xaxis lq) ->
  fst (ear_gains_R d sinL cosL sinR cosR s lp lq pos) <= snd (ear_gains_R d sinL cosL sinR cosR s lp lq pos).
Proof.
  intros Hu He Ho Hd Hs Hx.
  destruct (mirror_frame lp lq pos Hu) as (E1 & _ & _).
  assert (Hm : dot (v_sub (mirror lp lq pos) lp) (xaxis lq) <= - d) by lra.
  pose proof (ear_gains_side d sinL cosL sinR cosR s lp lq (mirror lp lq pos) Hu He Ho Hd Hs Hm) as H.
  rewrite (ear_gains_mirror _ _ _ _ _ _ _ _ _ Hu He) in H. cbn [fst snd] in H. exact H.
Qed.

(** F22 over the reals: with ear distance 213, half-angle sine/cosine -7/25, 24/25 (an outward ear
    angle below 45 degrees), listener at the origin with identity orientation, the emitter
    (-73, 0, 48) lies left of the centre, inside the head and behind it; the vectors to the ears
    have lengths 148 and 290 and the left gain is the SMALLER one. *)
Lemma side_preference_inside_head_R_witness :
  exists (d sL cL sR cR : R) (lp : vec) (lq : qtn) (pos : vec),
    unitq lq /\ ears_ok sL cL sR cR /\ ears_outward sL cL /\ 0 <= d /\
    - d < dot (v_sub pos lp) (xaxis lq) < 0 /\
    fst (ear_gains_R d sL cL sR cR 1 lp lq pos) < snd (ear_gains_R d sL cL sR cR 1 lp lq pos).
Proof.
  exists 213, (-7/25), (24/25), (7/25), (24/25), (V3 0 0 0), (Qt 0 0 0 1), (V3 (-73) 0 48).
  assert (Hu : unitq (Qt 0 0 0 1)) by (unfold unitq, qnorm2; cbn; ring).
  assert (He : ears_ok (-7/25) (24/25) (7/25) (24/25)) by (constructor; lra).
  assert (Hx : dot (v_sub (V3 (-73) 0 48) (V3 0 0 0)) (xaxis (Qt 0 0 0 1)) = -73).
  { unfold dot, xaxis, q_rot, v_sub, v_add, v_scale, v_cross, v_dot; cbn; ring. }
  assert (Hz : dot (v_sub (V3 (-73) 0 48) (V3 0 0 0)) (zaxis (Qt 0 0 0 1)) = 48).
  { unfold dot, zaxis, q_rot, v_sub, v_add, v_scale, v_cross, v_dot; cbn; ring. }
  assert (Hr : norm2 (v_sub (V3 (-73) 0 48) (V3 0 0 0)) = 7633).
  { unfold norm2, dot, v_sub; cbn; ring. }
  split; [exact Hu|]. split; [exact He|].
  split; [unfold ears_outward, earC, earS; split; lra|].
  split; [lra|]. split; [rewrite Hx; lra|].
  rewrite ear_gains_unfold. cbn [fst snd]. rewrite (ear_volumes_frame _ _ _ _ _ _ _ _ Hu He).
  rewrite Hx, Hz, Hr. cbn [fst snd]. unfold volL, volR.
  replace (7633 + 2 * 213 * -73 + 213 * 213) with (148 * 148) by ring.
  replace (7633 - 2 * 213 * -73 + 213 * 213) with (290 * 290) by ring.
  rewrite !nz_core_pos by lra. rewrite !sqrt_square by lra.
  unfold earC, earS. lra.
Qed.
