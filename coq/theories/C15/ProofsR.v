(** C15 — the real-number instance of the model and the algebra of glam's quaternion
    rotation formula, [normalize_or_zero], the ear volumes and the attenuation chain. *)
From Coq Require Import Reals Lra Lia Psatz Bool List.
From KV Require Import Base.Outcome C15.Model.
Local Open Scope R_scope.

Definition Rltb (x y : R) : bool := if Rlt_dec x y then true else false.
Definition Rleb (x y : R) : bool := if Rle_dec x y then true else false.
Definition Reqb (x y : R) : bool := if Req_EM_T x y then true else false.

#[global] Instance Scalar_R : Scalar R := {|
  s0 := 0; s1 := 1; s2 := 2; s20 := 20; sm60 := -60;
  sadd := Rplus; ssub := Rminus; smul := Rmult; sdiv := Rdiv; sneg := Ropp; ssqrt := sqrt;
  sltb := Rltb; sleb := Rleb; seqb := Reqb; sisfinite := fun _ => true;
  ssignneg := fun x => Rltb x 0;
|}.

Lemma Rltb_true x y : Rltb x y = true <-> x < y.
Proof. unfold Rltb; destruct (Rlt_dec x y); split; intros; try easy; lra. Qed.
Lemma Rltb_false x y : Rltb x y = false <-> y <= x.
Proof. unfold Rltb; destruct (Rlt_dec x y); split; intros; try easy; lra. Qed.
Lemma Rleb_true x y : Rleb x y = true <-> x <= y.
Proof. unfold Rleb; destruct (Rle_dec x y); split; intros; try easy; lra. Qed.
Lemma Rleb_false x y : Rleb x y = false <-> y < x.
Proof. unfold Rleb; destruct (Rle_dec x y); split; intros; try easy; lra. Qed.
Lemma Reqb_true x y : Reqb x y = true <-> x = y.
Proof. unfold Reqb; destruct (Req_EM_T x y); split; intros; try easy. Qed.
Lemma Reqb_false x y : Reqb x y = false <-> x <> y.
Proof. unfold Reqb; destruct (Req_EM_T x y); split; intros; try easy. Qed.

Notation vec := (vec3 R).
Notation qtn := (quat R).
Definition idR (x : R) : R := x.

(** exact-arithmetic readings of the vector operations *)
Definition dot (a b : vec) : R := vx a * vx b + vy a * vy b + vz a * vz b.
Definition norm2 (a : vec) : R := dot a a.
Definition qnorm2 (q : qtn) : R := qx q * qx q + qy q * qy q + qz q * qz q + qw q * qw q.
Definition unitq (q : qtn) : Prop := qnorm2 q = 1.

Lemma v_dot_R a b : v_dot a b = dot a b.
Proof. reflexivity. Qed.

Lemma vec_eq (a b : vec) : vx a = vx b -> vy a = vy b -> vz a = vz b -> a = b.
Proof. destruct a, b; cbn; intros; subst; reflexivity. Qed.

(** ** glam's rotation formula is q v q*: linear, multiplies dot products by |q|^4 *)
Lemma rot_dot q u v : dot (q_rot q u) (q_rot q v) = dot u v * (qnorm2 q * qnorm2 q).
Proof. destruct q, u, v; unfold dot, qnorm2; cbn; ring. Qed.
Lemma rot_add q u v : q_rot q (v_add u v) = v_add (q_rot q u) (q_rot q v).
Proof. destruct q, u, v; apply vec_eq; cbn; ring. Qed.
Lemma rot_sub q u v : q_rot q (v_sub u v) = v_sub (q_rot q u) (q_rot q v).
Proof. destruct q, u, v; apply vec_eq; cbn; ring. Qed.
Lemma rot_scale q u k : q_rot q (v_scale u k) = v_scale (q_rot q u) k.
Proof. destruct q, u; apply vec_eq; cbn; ring. Qed.
(** rows as well as columns of the rotation matrix are orthogonal *)
Lemma rot_frame q r :
  dot r (q_rot q (V3 1 0 0)) * dot r (q_rot q (V3 1 0 0)) +
  dot r (q_rot q (V3 0 1 0)) * dot r (q_rot q (V3 0 1 0)) +
  dot r (q_rot q (V3 0 0 1)) * dot r (q_rot q (V3 0 0 1)) = norm2 r * (qnorm2 q * qnorm2 q).
Proof. destruct q, r; unfold norm2, dot, qnorm2; cbn; ring. Qed.

(** Hamilton product (not used by kira; needed to state rigid motions of the listener) *)
Definition q_mul (a b : qtn) : qtn :=
  Qt (qw a * qx b + qx a * qw b + qy a * qz b - qz a * qy b)
     (qw a * qy b - qx a * qz b + qy a * qw b + qz a * qx b)
     (qw a * qz b + qx a * qy b - qy a * qx b + qz a * qw b)
     (qw a * qw b - qx a * qx b - qy a * qy b - qz a * qz b).
Lemma rot_mul g q v : q_rot (q_mul g q) v = q_rot g (q_rot q v).
Proof. destruct g, q, v; apply vec_eq; cbn; ring. Qed.
Lemma qnorm2_mul g q : qnorm2 (q_mul g q) = qnorm2 g * qnorm2 q.
Proof. destruct g, q; unfold qnorm2; cbn; ring. Qed.

(** ** [normalize_or_zero] and the "ear volume" core *)
Definition nz_core (a b : R) : R := if Rltb 0 (1 / sqrt b) then a * (1 / sqrt b) else 0.
Lemma dot_normalize_or_zero (e v : vec) :
  dot e (v_normalize_or_zero v) = nz_core (dot e v) (norm2 v).
Proof.
  unfold v_normalize_or_zero, v_length_recip, v_length, nz_core.
  change (v_dot v v) with (norm2 v).
  cbn [sisfinite Scalar_R andb sltb s0 s1 sdiv ssqrt].
  destruct (Rltb 0 (1 / sqrt (norm2 v))); destruct e, v; unfold dot; cbn; ring.
Qed.

Lemma norm2_nonneg v : 0 <= norm2 v.
Proof. destruct v; unfold norm2, dot; cbn; nra. Qed.

(** Cauchy–Schwarz through Lagrange's identity *)
Lemma cauchy_schwarz a b : dot a b * dot a b <= norm2 a * norm2 b.
Proof.
  destruct a as [a1 a2 a3], b as [b1 b2 b3]; unfold norm2, dot; cbn.
  assert (H : (a1*a1+a2*a2+a3*a3)*(b1*b1+b2*b2+b3*b3) - (a1*b1+a2*b2+a3*b3)*(a1*b1+a2*b2+a3*b3)
              = (a1*b2-a2*b1)*(a1*b2-a2*b1) + (a1*b3-a3*b1)*(a1*b3-a3*b1) + (a2*b3-a3*b2)*(a2*b3-a3*b2)) by ring.
  pose proof (Rle_0_sqr (a1*b2-a2*b1)) as H1. pose proof (Rle_0_sqr (a1*b3-a3*b1)) as H2.
  pose proof (Rle_0_sqr (a2*b3-a3*b2)) as H3. unfold Rsqr in *. lra.
Qed.

(** for a unit direction [e] the normalized dot product lies in [-1, 1] *)
Lemma nz_core_range e v : norm2 e = 1 -> -1 <= nz_core (dot e v) (norm2 v) <= 1.
Proof.
  intros He. unfold nz_core. destruct (Rltb 0 (1 / sqrt (norm2 v))) eqn:Hc; [|lra].
  apply Rltb_true in Hc.
  pose proof (norm2_nonneg v) as Hn.
  assert (Hs : 0 < sqrt (norm2 v)).
  { destruct (Rle_lt_or_eq_dec _ _ (sqrt_pos (norm2 v))) as [|E]; [assumption|].
    rewrite <- E in Hc. unfold Rdiv in Hc. rewrite Rinv_0 in Hc. lra. }
  pose proof (sqrt_sqrt _ Hn) as Hss.
  pose proof (cauchy_schwarz e v) as Hcs. rewrite He in Hcs.
  set (n := sqrt (norm2 v)) in *. set (d := dot e v) in *.
  assert (Hd : d * d <= n * n) by lra.
  assert (Hdn : - n <= d <= n) by nra.
  unfold Rdiv. rewrite Rmult_1_l.
  assert (Hi : 0 < / n) by (apply Rinv_0_lt_compat; assumption).
  assert (Hni : n * / n = 1) by (apply Rinv_r; lra).
  split; nra.
Qed.

(** ** ear constants.  [C] = cos(pi/8) and [S] = sin(pi/8) in terms of the half-angle sine and
    cosine that [Quat::from_rotation_y] produces *)
Record ears_ok (sinL cosL sinR cosR : R) : Prop := {
  ears_unitL : sinL * sinL + cosL * cosL = 1;
  ears_symS : sinR = - sinL;
  ears_symC : cosR = cosL;
}.
Definition earC (sinL cosL : R) : R := cosL * cosL - sinL * sinL.
Definition earS (sinL cosL : R) : R := - (2 * sinL * cosL).
(** what side preference needs in addition: the ears point outwards by at most 45 degrees *)
Definition ears_outward (sinL cosL : R) : Prop :=
  0 <= earC sinL cosL /\ earS sinL cosL * earS sinL cosL <= earC sinL cosL * earC sinL cosL.

Lemma ear_dir_L sinL cosL : q_rot (rot_y sinL cosL) NEG_X = V3 (- earC sinL cosL) 0 (- earS sinL cosL).
Proof. apply vec_eq; unfold earC, earS, rot_y, NEG_X, POS_X, q_rot, v_add, v_scale, v_cross, v_dot; cbn; ring. Qed.
Lemma ear_dir_R sinR cosR : q_rot (rot_y sinR cosR) POS_X = V3 (earC sinR cosR) 0 (earS sinR cosR).
Proof. apply vec_eq; unfold earC, earS, rot_y, NEG_X, POS_X, q_rot, v_add, v_scale, v_cross, v_dot; cbn; ring. Qed.
Lemma earCS_unit s c : s * s + c * c = 1 -> earC s c * earC s c + earS s c * earS s c = 1.
Proof. intros H. unfold earC, earS. replace (c * c) with (1 - s * s) by lra. nra. Qed.
