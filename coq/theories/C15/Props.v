(** C15 — property theorems.  This file contains nothing but statements closed by [exact].
    [_R]: the real-number instance of C15/Model.v (the same Gallina term the harness runs
    on binary32); [_any]: every instance of the scalar operations; [_b32]: the IEEE instance. *)
From Coq Require Import Reals ZArith Bool List.
From KV Require Import Base.IEEE Base.Outcome C15.Model C15.BaseF32 C15.ProofsR C15.ProofsGains C15.ProofsSide
     C15.ProofsAtten C15.ProofsFinal C15.ModelHist C15.ProofsHist.
Local Open Scope R_scope.

(** The level of a spatial track is the product of a distance attenuation [A] — a function of
    the emitter–listener distance only — and two per-ear gains; at strength 0 (after the clamp
    to [0,1]) the stereo frame is only scaled by [A], not even down-mixed. *)
Theorem spatialize_level_product_R :
  forall (p10 ease : R -> R) (d sinL cosL sinR cosR dmin dmax : R) (atten : bool) (l r : R)
         (lp : vec3 R) (lq : quat R) (pos : vec3 R) (sraw : R),
    spatialize_R p10 ease d sinL cosL sinR cosR dmin dmax atten (l, r) lp lq pos sraw =
    let A := if atten then amp_of_rv p10 (ease (1 - relR dmin dmax (dist lp pos))) else 1 in
    let s := clamp01 sraw in
    if Reqb s 0 then Ok (l * A, r * A)
    else Ok ((l * A + r * A) / 2 * fst (ear_gains_R d sinL cosL sinR cosR s lp lq pos),
             (l * A + r * A) / 2 * snd (ear_gains_R d sinL cosL sinR cosR s lp lq pos)).
Proof. exact spatialize_product. Qed.

(** Attenuation: unity within the minimum distance, exactly zero at or beyond the maximum,
    non-increasing in between along every monotone curve with ease 0 = 0, ease 1 = 1 — for every
    distance range, also empty and inverted ones (F11, repaired); never a panic. *)
Theorem attenuation_of_distance_R :
  forall (p10 ease : R -> R) (dmin dmax : R),
    ease_ok ease -> powf10_ok p10 ->
    (forall d, d <= dmin -> d < dmax -> attenuation_R p10 ease dmin dmax d = Ok 1) /\
    (forall d, dmax <= d -> attenuation_R p10 ease dmin dmax d = Ok 0) /\
    (forall d1 d2, d1 <= d2 ->
       exists a1 a2, attenuation_R p10 ease dmin dmax d1 = Ok a1 /\ attenuation_R p10 ease dmin dmax d2 = Ok a2 /\
                     0 <= a2 /\ a2 <= a1 /\ a1 <= 1).
Proof. exact attenuation_laws. Qed.

Theorem attenuation_total_R :
  forall (p10 ease : R -> R) (dmin dmax d : R),
    ease_ok ease -> powf10_ok p10 ->
    exists a, attenuation_R p10 ease dmin dmax d = Ok a /\ 0 <= a <= 1.
Proof. exact attenuation_total. Qed.

(** Each ear gain lies in [1 - s, 1], s the strength clamped to [0,1]. *)
Theorem ear_gain_range_R :
  forall (d sinL cosL sinR cosR sraw : R) (lp : vec3 R) (lq : quat R) (pos : vec3 R),
    unitq lq -> ears_ok sinL cosL sinR cosR ->
    let s := clamp01 sraw in
    0 <= s <= 1 /\
    1 - s <= fst (ear_gains_R d sinL cosL sinR cosR s lp lq pos) <= 1 /\
    1 - s <= snd (ear_gains_R d sinL cosL sinR cosR s lp lq pos) <= 1.
Proof. exact ear_gains_range_clamped. Qed.

(** Strength 0 (or below): the frame passes unpanned and un-mixed. *)
Theorem strength_zero_unpanned_R :
  forall (p10 ease : R -> R) (d sinL cosL sinR cosR dmin dmax l r : R) (lp : vec3 R) (lq : quat R) (pos : vec3 R) (sraw : R),
    sraw <= 0 ->
    spatialize_R p10 ease d sinL cosL sinR cosR dmin dmax false (l, r) lp lq pos sraw = Ok (l, r) /\
    spatialize_R p10 ease d sinL cosL sinR cosR dmin dmax true (l, r) lp lq pos sraw =
      Ok (l * amp_of_rv p10 (ease (1 - relR dmin dmax (dist lp pos))),
          r * amp_of_rv p10 (ease (1 - relR dmin dmax (dist lp pos)))).
Proof. exact strength_zero_unpanned. Qed.

(** No listener (never existed, or removed): exact silence, for every scalar instance. *)
Theorem no_listener_silent :
  forall (F D : Type) (SF : Scalar F) (up : F -> D) (down : D -> F) (p10 : F -> F) (ease : D -> D)
         (d sinL cosL sinR cosR dmin dmax : F) (atten : bool) (input : F * F) (e : emitter F) (t : F),
    spatial_frame up down p10 ease d sinL cosL sinR cosR dmin dmax atten input None e t = Ok (s0, s0).
Proof. exact no_listener_silent_any. Qed.

(** Side preference: an emitter at or beyond the left (right) ear plane is at least as loud in
    the left (right) ear.  [xaxis lq] is the listener's right axis. *)
Theorem side_preference_R :
  forall (d sinL cosL sinR cosR s : R) (lp : vec3 R) (lq : quat R) (pos : vec3 R),
    unitq lq -> ears_ok sinL cosL sinR cosR -> ears_outward sinL cosL -> 0 <= d -> 0 <= s <= 1 ->
    dot (v_sub pos lp) (xaxis lq) <= - d ->
    snd (ear_gains_R d sinL cosL sinR cosR s lp lq pos) <= fst (ear_gains_R d sinL cosL sinR cosR s lp lq pos).
Proof. exact ear_gains_side. Qed.
Theorem side_preference_right_R :
  forall (d sinL cosL sinR cosR s : R) (lp : vec3 R) (lq : quat R) (pos : vec3 R),
    unitq lq -> ears_ok sinL cosL sinR cosR -> ears_outward sinL cosL -> 0 <= d -> 0 <= s <= 1 ->
    d <= dot (v_sub pos lp) (xaxis lq) ->
    fst (ear_gains_R d sinL cosL sinR cosR s lp lq pos) <= snd (ear_gains_R d sinL cosL sinR cosR s lp lq pos).
Proof. exact ear_gains_side_right. Qed.
(** ... and not inside the head (F22, known finding): binary32 witness, replayed by the harness *)
Theorem side_preference_inside_head_refuted :
  exists pos : vec3 f32,
    lt32 (vx pos) (Z32 0) = true /\ lt32 (neg32 EAR_DISTANCE32) (vx pos) = true /\
    lt32 (fst (ear_gains_b32 (Z32 1) (V32 0 0 0) Q_ID32 pos)) (snd (ear_gains_b32 (Z32 1) (V32 0 0 0) Q_ID32 pos)) = true.
Proof. exact side_preference_inside_head_b32. Qed.

Theorem side_preference_inside_head_refuted_R :
  exists (d sL cL sR cR : R) (lp : vec3 R) (lq : quat R) (pos : vec3 R),
    unitq lq /\ ears_ok sL cL sR cR /\ ears_outward sL cL /\ 0 <= d /\
    - d < dot (v_sub pos lp) (xaxis lq) < 0 /\
    fst (ear_gains_R d sL cL sR cR 1 lp lq pos) < snd (ear_gains_R d sL cL sR cR 1 lp lq pos).
Proof. exact side_preference_inside_head_R_witness. Qed.

(** Mirroring the emitter through the listener's median plane swaps the two gains. *)
Theorem mirror_swap_R :
  forall (d sinL cosL sinR cosR s : R) (lp : vec3 R) (lq : quat R) (pos : vec3 R),
    unitq lq -> ears_ok sinL cosL sinR cosR ->
    ear_gains_R d sinL cosL sinR cosR s lp lq (mirror lp lq pos) =
    (snd (ear_gains_R d sinL cosL sinR cosR s lp lq pos), fst (ear_gains_R d sinL cosL sinR cosR s lp lq pos)).
Proof. exact ear_gains_mirror. Qed.

(** A rigid motion (unit quaternion [g], translation [T]) applied to listener and emitter
    together leaves the whole output frame unchanged. *)
Theorem rigid_motion_invariant_R :
  forall (p10 ease : R -> R) (d sinL cosL sinR cosR dmin dmax : R) (atten : bool) (inp : R * R)
         (g : quat R) (T lp : vec3 R) (lq : quat R) (pos : vec3 R) (sraw : R),
    unitq g -> unitq lq -> ears_ok sinL cosL sinR cosR ->
    spatialize_R p10 ease d sinL cosL sinR cosR dmin dmax atten inp (move g T lp) (q_mul g lq) (move g T pos) sraw =
    spatialize_R p10 ease d sinL cosL sinR cosR dmin dmax atten inp lp lq pos sraw.
Proof. exact spatialize_rigid. Qed.

(** A parameter mapped from the listener distance is [Mapping::map] of that distance; it has no
    value without a listener. *)
Theorem distance_param_follows :
  forall (F D : Type) (SF : Scalar F) (SD : Scalar D) (up : F -> D) (down : D -> F) (map_ease : D -> D)
         (m : mapping F D) (tp : vec3 F),
    value_from_listener_distance up down map_ease m None tp = None /\
    forall li, value_from_listener_distance up down map_ease m (Some li) tp =
               Some (mapping_map down map_ease m (up (v_length (v_sub (l_pos li) tp)))).
Proof. exact distance_param_any. Qed.
Theorem distance_param_follows_R :
  forall (map_ease : R -> R) (m : mapping R R) (li : listener R) (tp : vec3 R),
    value_from_listener_distance idR idR map_ease m (Some li) tp =
    Some (mapping_map idR map_ease m (dist (l_pos li) tp)).
Proof. exact distance_param_R. Qed.

(** Coincident emitter and listener: distance 0 and the two vectors that get normalized have
    length |d| (the ear distance), so no division by zero is evaluated when d <> 0. *)
Theorem spatial_coincident_R :
  forall (d : R) (lq : quat R) (p : vec3 R),
    unitq lq ->
    norm2 (v_sub p (v_add p (q_rot lq (v_scale NEG_X d)))) = d * d /\
    norm2 (v_sub p (v_add p (q_rot lq (v_scale POS_X d)))) = d * d /\
    dist p p = 0.
Proof. exact coincident_ear_vectors. Qed.

(** Histories.  A parameter that is linked to the listener distance (however and whenever the link
    was made, whatever happened before) has after every chunk with a listener the mapped distance
    of THAT chunk, and the previous chunk's value as its previous value; a chunk without a listener
    leaves it where it was.  [linked_run] is [Parameter::update] of an idle linked parameter, chunk
    after chunk (C15/ModelHist.v); every scalar instance, hence bit-for-bit. *)
Theorem distance_param_follows_history :
  forall (F D : Type) (SF : Scalar F) (SD : Scalar D) (up : F -> D) (down : D -> F) (map_ease : D -> D)
         (m : mapping F D) (st : F * F) (cs : list (option (listener F) * vec3 F)) (tp : vec3 F),
    (forall li : listener F,
       linked_run up down map_ease m st (cs ++ (Some li, tp) :: nil) =
       (snd (linked_run up down map_ease m st cs),
        mapping_map down map_ease m (up (v_length (v_sub (l_pos li) tp))))) /\
    linked_run up down map_ease m st (cs ++ (None, tp) :: nil) =
    (snd (linked_run up down map_ease m st cs), snd (linked_run up down map_ease m st cs)).
Proof. exact linked_history. Qed.

(** Listener and emitter riding together: when the previous positions of both are displaced by
    [T0] and the current positions of both by [T1] (both read the vehicle's displacement of the
    same chunk), every frame of the chunk — listener and emitter interpolated at [t] — is the
    frame of the scene at rest: attenuation and both ear gains are unchanged while they move. *)
Theorem riding_together_R :
  forall (p10 ease : R -> R) (d sinL cosL sinR cosR dmin dmax : R) (atten : bool) (inp : R * R)
         (li : listener R) (e : emitter R) (T0 T1 : vec3 R) (t : R),
    spatial_frame_R p10 ease d sinL cosL sinR cosR dmin dmax atten inp
                    (Some (shift_listener T0 T1 li)) (shift_emitter T0 T1 e) t =
    spatial_frame_R p10 ease d sinL cosL sinR cosR dmin dmax atten inp (Some li) e t.
Proof. exact riding_together. Qed.

(** A spatial track never amplifies: whatever the placement of listener and emitter, the strength
    (also outside [0,1]), the distance range (also empty or inverted) and the attenuation curve,
    each output channel is bounded in magnitude by the larger input channel. *)
Theorem spatialize_never_amplifies_R :
  forall (p10 ease : R -> R) (d sinL cosL sinR cosR dmin dmax : R) (atten : bool) (l r : R)
         (lp : vec3 R) (lq : quat R) (pos : vec3 R) (sraw : R),
    unitq lq -> ears_ok sinL cosL sinR cosR -> ease_ok ease -> powf10_ok p10 ->
    exists ol or_,
      spatialize_R p10 ease d sinL cosL sinR cosR dmin dmax atten (l, r) lp lq pos sraw = Ok (ol, or_) /\
      Rabs ol <= Rmax (Rabs l) (Rabs r) /\ Rabs or_ <= Rmax (Rabs l) (Rabs r).
Proof. exact spatialize_never_amplifies. Qed.
