(** C15 — the attenuation chain over [R], the product structure of [spatialize], silence
    without a listener, the listener-distance parameter, coincident points. *)
From Coq Require Import Reals Lra Lia Psatz Bool List.
From KV Require Import Base.Outcome C15.Model C15.ProofsR C15.ProofsGains.
Local Open Scope R_scope.

Definition ease_ok (ease : R -> R) : Prop :=
  ease 0 = 0 /\ ease 1 = 1 /\ forall x y, 0 <= x -> x <= y -> y <= 1 -> ease x <= ease y.
(** what the theorems need from libm's [powf(10, .)]: named hypotheses, validated on the
    platform by the harness (C19 sweeps them) *)
Definition powf10_ok (p : R -> R) : Prop :=
  (forall x y, x <= y -> p x <= p y) /\ (forall x, 0 <= p x) /\ p 0 = 1.

Definition attenuation_R (p10 ease : R -> R) (dmin dmax d : R) : outcome R :=
  attenuation (F := R) (D := R) idR idR p10 ease dmin dmax d.

(** the relative distance as a total real function *)
Definition relR (dmin dmax d : R) : R :=
  if Rleb dmax dmin then (if Rleb dmax d then 1 else 0)
  else ((if Rltb dmax (if Rltb d dmin then dmin else d) then dmax else (if Rltb d dmin then dmin else d)) - dmin) / (dmax - dmin).

Lemma relative_distance_R dmin dmax d : relative_distance dmin dmax d = Ok (relR dmin dmax d).
Proof.
  unfold relative_distance, relR, clamp_chk. cbn [sleb sltb s0 s1 ssub sdiv Scalar_R].
  destruct (Rleb dmax dmin) eqn:E; [reflexivity|].
  apply Rleb_false in E. assert (H : Rleb dmin dmax = true) by (apply Rleb_true; lra).
  rewrite H. reflexivity.
Qed.

Lemma relR_cases dmin dmax d :
  0 <= relR dmin dmax d <= 1 /\
  (dmax <= d -> relR dmin dmax d = 1) /\
  (d <= dmin -> d < dmax -> relR dmin dmax d = 0).
Proof.
  unfold relR. destruct (Rleb dmax dmin) eqn:E.
  - apply Rleb_true in E. destruct (Rleb dmax d) eqn:E2.
    + apply Rleb_true in E2. repeat split; intros; lra.
    + apply Rleb_false in E2. repeat split; intros; lra.
  - apply Rleb_false in E.
    assert (Hi : 0 < / (dmax - dmin)) by (apply Rinv_0_lt_compat; lra).
    assert (Hr : (dmax - dmin) * / (dmax - dmin) = 1) by (apply Rinv_r; lra).
    destruct (Rltb d dmin) eqn:E1.
    + apply Rltb_true in E1. destruct (Rltb dmax dmin) eqn:E2; [apply Rltb_true in E2; lra|].
      unfold Rdiv. replace (dmin - dmin) with 0 by ring. rewrite Rmult_0_l. repeat split; intros; lra.
    + apply Rltb_false in E1. destruct (Rltb dmax d) eqn:E2.
      * apply Rltb_true in E2. unfold Rdiv. rewrite Hr. repeat split; intros; lra.
      * apply Rltb_false in E2. unfold Rdiv. repeat split; intros.
        -- apply Rmult_le_pos; lra.
        -- apply Rmult_le_reg_r with (dmax - dmin); [lra|]. rewrite Rmult_assoc, Rinv_l by lra. lra.
        -- assert (d = dmax) by lra. subst. exact Hr.
        -- assert (d = dmin) by lra. subst. replace (dmin - dmin) with 0 by ring. ring.
Qed.

Lemma relR_mono dmin dmax d1 d2 : d1 <= d2 -> relR dmin dmax d1 <= relR dmin dmax d2.
Proof.
  intros H. unfold relR. destruct (Rleb dmax dmin) eqn:E.
  - destruct (Rleb dmax d1) eqn:E1; destruct (Rleb dmax d2) eqn:E2; try lra.
    apply Rleb_true in E1. apply Rleb_false in E2. lra.
  - apply Rleb_false in E.
    assert (Hi : 0 < / (dmax - dmin)) by (apply Rinv_0_lt_compat; lra).
    unfold Rdiv. apply Rmult_le_compat_r; [lra|].
    destruct (Rltb d1 dmin) eqn:A1; destruct (Rltb d2 dmin) eqn:A2;
      try apply Rltb_true in A1; try apply Rltb_false in A1; try apply Rltb_true in A2; try apply Rltb_false in A2;
      repeat match goal with |- context [Rltb ?a ?b] => let Q := fresh in destruct (Rltb a b) eqn:Q;
               [apply Rltb_true in Q | apply Rltb_false in Q] end; lra.
Qed.

(** decibels -> amplitude of the interpolated volume *)
Definition amp_of_rv (p10 : R -> R) (rv : R) : R := db_as_amplitude p10 (f_interp (-60) 0 rv).

Lemma attenuation_R_eq p10 ease dmin dmax d :
  attenuation_R p10 ease dmin dmax d = Ok (amp_of_rv p10 (ease (1 - relR dmin dmax d))).
Proof. unfold attenuation_R, attenuation. rewrite relative_distance_R. reflexivity. Qed.

Lemma amp_of_rv_1 p10 : amp_of_rv p10 1 = 1.
Proof.
  unfold amp_of_rv, db_as_amplitude, f_interp. cbn [seqb sleb s0 s1 sm60 s20 sadd ssub smul sdiv Scalar_R].
  replace (-60 + (0 - -60) * 1) with 0 by ring.
  destruct (Reqb 0 0) eqn:E; [reflexivity | apply Reqb_false in E; lra].
Qed.
Lemma amp_of_rv_0 p10 : amp_of_rv p10 0 = 0.
Proof.
  unfold amp_of_rv, db_as_amplitude, f_interp. cbn [seqb sleb s0 s1 sm60 s20 sadd ssub smul sdiv Scalar_R].
  replace (-60 + (0 - -60) * 0) with (-60) by ring.
  destruct (Reqb (-60) 0) eqn:E; [apply Reqb_true in E; lra|].
  destruct (Rleb (-60) (-60)) eqn:E2; [reflexivity | apply Rleb_false in E2; lra].
Qed.
Lemma amp_of_rv_mono p10 a b :
  powf10_ok p10 -> 0 <= a -> a <= b -> b <= 1 ->
  0 <= amp_of_rv p10 a /\ amp_of_rv p10 a <= amp_of_rv p10 b /\ amp_of_rv p10 b <= 1.
Proof.
  intros (Hm & Hp & H0) Ha Hab Hb.
  unfold amp_of_rv, db_as_amplitude, f_interp. cbn [seqb sleb s0 s1 sm60 s20 sadd ssub smul sdiv Scalar_R].
  set (da := -60 + (0 - -60) * a). set (db := -60 + (0 - -60) * b).
  assert (Hda : -60 <= da <= 0) by (subst da; lra). assert (Hdb : -60 <= db <= 0) by (subst db; lra).
  assert (Hdab : da <= db) by (subst da db; lra).
  assert (P1 : forall x, x <= 0 -> p10 (x / 20) <= 1).
  { intros x Hx. rewrite <- H0. apply Hm. lra. }
  destruct (Reqb da 0) eqn:Ea; [apply Reqb_true in Ea | apply Reqb_false in Ea];
  destruct (Reqb db 0) eqn:Eb; [apply Reqb_true in Eb | apply Reqb_false in Eb | apply Reqb_true in Eb | apply Reqb_false in Eb];
  try (destruct (Rleb da (-60)) eqn:La; [apply Rleb_true in La | apply Rleb_false in La]);
  try (destruct (Rleb db (-60)) eqn:Lb; [apply Rleb_true in Lb | apply Rleb_false in Lb]);
  try lra;
  repeat split; try lra; try apply Hp; try (apply P1; lra); try (apply Hm; lra).
Qed.

Lemma ease_range ease x : ease_ok ease -> 0 <= x <= 1 -> 0 <= ease x <= 1.
Proof.
  intros (E0 & E1 & Em) Hx. split.
  - rewrite <- E0. apply Em; lra.
  - rewrite <- E1. apply Em; lra.
Qed.

Lemma attenuation_laws p10 ease dmin dmax :
  ease_ok ease -> powf10_ok p10 ->
  (forall d, d <= dmin -> d < dmax -> attenuation_R p10 ease dmin dmax d = Ok 1) /\
  (forall d, dmax <= d -> attenuation_R p10 ease dmin dmax d = Ok 0) /\
  (forall d1 d2, d1 <= d2 ->
     exists a1 a2, attenuation_R p10 ease dmin dmax d1 = Ok a1 /\ attenuation_R p10 ease dmin dmax d2 = Ok a2 /\
                   0 <= a2 /\ a2 <= a1 /\ a1 <= 1).
Proof.
  intros He Hp. pose proof He as (E0 & E1 & Em). repeat split.
  - intros d H1 H2. rewrite attenuation_R_eq. destruct (relR_cases dmin dmax d) as (_ & _ & Hz).
    rewrite (Hz H1 H2). replace (1 - 0) with 1 by ring. rewrite E1, amp_of_rv_1. reflexivity.
  - intros d H1. rewrite attenuation_R_eq. destruct (relR_cases dmin dmax d) as (_ & Ho & _).
    rewrite (Ho H1). replace (1 - 1) with 0 by ring. rewrite E0, amp_of_rv_0. reflexivity.
  - intros d1 d2 H. rewrite !attenuation_R_eq. eexists. eexists. split; [reflexivity|]. split; [reflexivity|].
    pose proof (relR_mono dmin dmax d1 d2 H) as Hr.
    destruct (relR_cases dmin dmax d1) as (R1 & _ & _). destruct (relR_cases dmin dmax d2) as (R2 & _ & _).
    assert (Hx : ease (1 - relR dmin dmax d2) <= ease (1 - relR dmin dmax d1)) by (apply Em; lra).
    pose proof (ease_range ease (1 - relR dmin dmax d2) He) as G2.
    pose proof (ease_range ease (1 - relR dmin dmax d1) He) as G1.
    destruct (amp_of_rv_mono p10 _ _ Hp (proj1 (G2 ltac:(lra))) Hx (proj2 (G1 ltac:(lra)))) as (A & B & C).
    repeat split; assumption.
Qed.

(** ** the product structure of [spatialize] *)
Definition spatialize_R (p10 ease : R -> R) (d sinL cosL sinR cosR dmin dmax : R) (atten : bool)
           (input : R * R) (lp : vec) (lq : qtn) (pos : vec) (strength_raw : R) : outcome (R * R) :=
  spatialize (F := R) (D := R) idR idR p10 ease d sinL cosL sinR cosR dmin dmax atten input lp lq pos strength_raw.

(** Euclidean distance *)
Definition dist (a b : vec) : R := sqrt (norm2 (v_sub a b)).

Lemma spatialize_product p10 ease d sinL cosL sinR cosR dmin dmax atten l r lp lq pos sraw :
  spatialize_R p10 ease d sinL cosL sinR cosR dmin dmax atten (l, r) lp lq pos sraw =
  let A := if atten then amp_of_rv p10 (ease (1 - relR dmin dmax (dist lp pos))) else 1 in
  let s := clamp01 sraw in
  if Reqb s 0 then Ok (l * A, r * A)
  else Ok ((l * A + r * A) / 2 * fst (ear_gains_R d sinL cosL sinR cosR s lp lq pos),
           (l * A + r * A) / 2 * snd (ear_gains_R d sinL cosL sinR cosR s lp lq pos)).
Proof.
  unfold spatialize_R, spatialize. cbv zeta.
  change (v_length (v_sub lp pos)) with (dist lp pos).
  fold (attenuation_R p10 ease dmin dmax (dist lp pos)). rewrite attenuation_R_eq.
  unfold ear_gains_R.
  destruct atten; cbn [obind fst snd seqb s0 Scalar_R negb smul].
  - destruct (Reqb (clamp01 sraw) 0); cbn [negb]; [reflexivity|].
    destruct (ear_gains d sinL cosL sinR cosR (clamp01 sraw) lp lq pos); reflexivity.
  - destruct (Reqb (clamp01 sraw) 0); cbn [negb]; [rewrite !Rmult_1_r; reflexivity|].
    destruct (ear_gains d sinL cosL sinR cosR (clamp01 sraw) lp lq pos). unfold as_mono. cbn [fst snd sadd sdiv s2 smul Scalar_R].
    rewrite !Rmult_1_r. reflexivity.
Qed.

(** ** coincident emitter and listener: the vectors that get normalized have length [|d|] *)
Lemma coincident_ear_vectors d lq p :
  unitq lq ->
  norm2 (v_sub p (v_add p (q_rot lq (v_scale NEG_X d)))) = d * d /\
  norm2 (v_sub p (v_add p (q_rot lq (v_scale POS_X d)))) = d * d /\
  dist p p = 0.
Proof.
  intros Hu. unfold unitq in Hu.
  assert (E1 : norm2 (v_sub p (v_add p (q_rot lq (v_scale NEG_X d)))) = d * d * (qnorm2 lq * qnorm2 lq)).
  { destruct p, lq. unfold norm2, dot, qnorm2, NEG_X, q_rot, v_add, v_sub, v_scale, v_cross, v_dot; cbn. ring. }
  assert (E2 : norm2 (v_sub p (v_add p (q_rot lq (v_scale POS_X d)))) = d * d * (qnorm2 lq * qnorm2 lq)).
  { destruct p, lq. unfold norm2, dot, qnorm2, POS_X, q_rot, v_add, v_sub, v_scale, v_cross, v_dot; cbn. ring. }
  rewrite E1, E2, Hu. repeat split; try ring.
  unfold dist. replace (norm2 (v_sub p p)) with 0 by (destruct p; unfold norm2, dot, v_sub; cbn; ring).
  apply sqrt_0.
Qed.
