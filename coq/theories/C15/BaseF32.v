(** C15 — the IEEE instance of the scalar signature of C15/Model.v: [F] = binary32,
    [D] = binary64 (Flocq, Base/IEEE.v), casts [f32_to_f64] / [f64_to_f32]. *)
From Coq Require Import ZArith List Bool.
From KV Require Import Base.IEEE Base.Outcome C15.Model.
Local Open Scope Z_scope.

#[global] Instance Scalar_f32 : Scalar f32 := {|
  s0 := Z32 0; s1 := Z32 1; s2 := Z32 2; s20 := Z32 20; sm60 := Z32 (-60);
  sadd := add32; ssub := sub32; smul := mul32; sdiv := div32; sneg := neg32; ssqrt := sqrt32;
  sltb := lt32; sleb := le32; seqb := eq32; sisfinite := isfinite32;
  ssignneg := fsignbit 24 128;
|}.
#[global] Instance Scalar_f64 : Scalar f64 := {|
  s0 := Z64 0; s1 := Z64 1; s2 := Z64 2; s20 := Z64 20; sm60 := Z64 (-60);
  sadd := add64; ssub := sub64; smul := mul64; sdiv := div64; sneg := neg64; ssqrt := sqrt64;
  sltb := lt64; sleb := le64; seqb := eq64; sisfinite := isfinite64;
  ssignneg := signbit64;
|}.

(** [EAR_DISTANCE = 0.1f32] *)
Definition EAR_DISTANCE32 : f32 := f32_of_bits 0x3DCCCCCD.
