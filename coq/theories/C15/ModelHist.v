(** C15 — histories: the value of a parameter that was linked to the listener distance, chunk
    after chunk.  Transcribed from crates/kira/src/parameter.rs ([Parameter::update] for
    [State::Idle { value: Value::FromListenerDistance(m) }]: such a parameter is never
    [stagnant] — the flag is set only when the value is [Value::Fixed] — so every update does
    [previous_raw_value = raw_value] and then [raw_value = value.raw_value(info)] when that is
    [Some], leaving it unchanged otherwise).  No proofs in this file. *)
From Coq Require Import List.
From KV Require Import Base.Outcome C15.Model.
Import ListNotations.

Section Hist.
  Context {F D : Type} {SF : Scalar F} {SD : Scalar D}.
  Variable up : F -> D.
  Variable down : D -> F.
  Variable map_ease : D -> D.

  (** what one chunk hands to the parameter: the listener data of [Info::listener_info]
      ([None]: no listener) and the track position of [SpatialTrackInfo] *)
  Definition chunk_info : Type := (option (listener F) * vec3 F)%type.

  (** state = (previous raw value, raw value) *)
  Definition linked_update (m : mapping F D) (st : F * F) (c : chunk_info) : F * F :=
    (snd st,
     match value_from_listener_distance up down map_ease m (fst c) (snd c) with
     | Some v => v
     | None => snd st
     end).
  Definition linked_run (m : mapping F D) (st : F * F) (cs : list chunk_info) : F * F :=
    fold_left (linked_update m) cs st.
End Hist.
