(** C15 — the per-ear gains over [R]: reduction to three scalars in the listener's frame,
    range, mirror swap, rigid-motion invariance, side preference. *)
From Coq Require Import Reals Lra Lia Psatz Bool List.
From KV Require Import Base.Outcome C15.Model C15.ProofsR.
Local Open Scope R_scope.

Definition xaxis (q : qtn) : vec := q_rot q (V3 1 0 0).
Definition zaxis (q : qtn) : vec := q_rot q (V3 0 0 1).

Section Ears.
  Variables (d sinL cosL sinR cosR : R).
  Let C := earC sinL cosL.
  Let S := earS sinL cosL.

  Definition ear_volumes_R := ear_volumes (F := R) d sinL cosL sinR cosR.
  Definition ear_gains_R := ear_gains (F := R) d sinL cosL sinR cosR.

  (** the two ear volumes as functions of  xi = (pos - lp).x',  zeta = (pos - lp).z',
      rho = |pos - lp|^2  (x', z': the listener's right and backward axes) *)
  Definition volL (xi zeta rho : R) : R :=
    (nz_core (- C * (xi + d) - S * zeta) (rho + 2 * d * xi + d * d) + 1) / 2.
  Definition volR (xi zeta rho : R) : R :=
    (nz_core (C * (xi - d) - S * zeta) (rho - 2 * d * xi + d * d) + 1) / 2.

  Lemma ear_volumes_vectors lp lq pos :
    ear_volumes_R lp lq pos =
    (let vl := v_sub pos (v_add lp (q_rot lq (v_scale NEG_X d))) in
     let el := q_rot lq (q_rot (rot_y sinL cosL) NEG_X) in
     (nz_core (dot el vl) (norm2 vl) + 1) / 2,
     let vr := v_sub pos (v_add lp (q_rot lq (v_scale POS_X d))) in
     let er := q_rot lq (q_rot (rot_y sinR cosR) POS_X) in
     (nz_core (dot er vr) (norm2 vr) + 1) / 2).
  Proof.
    unfold ear_volumes_R, ear_volumes, listener_ear_positions, listener_ear_directions.
    cbv zeta. rewrite <- !dot_normalize_or_zero. reflexivity.
  Qed.

  Lemma ear_volumes_frame lp lq pos :
    unitq lq -> ears_ok sinL cosL sinR cosR ->
    ear_volumes_R lp lq pos =
    (volL (dot (v_sub pos lp) (xaxis lq)) (dot (v_sub pos lp) (zaxis lq)) (norm2 (v_sub pos lp)),
     volR (dot (v_sub pos lp) (xaxis lq)) (dot (v_sub pos lp) (zaxis lq)) (norm2 (v_sub pos lp))).
  Proof.
    intros Hu [HuL HsS HsC]. rewrite ear_volumes_vectors. cbv zeta.
    rewrite ear_dir_L, ear_dir_R. subst sinR cosR.
    unfold volL, volR.
    set (N := qnorm2 lq) in *.
    assert (E1 : norm2 (v_sub pos (v_add lp (q_rot lq (v_scale NEG_X d))))
                 = norm2 (v_sub pos lp) + 2 * d * dot (v_sub pos lp) (xaxis lq) + d * d * (N * N)).
    { subst N. destruct lp, lq, pos. unfold norm2, dot, xaxis, qnorm2, NEG_X, q_rot, v_add, v_sub, v_scale, v_cross, v_dot; cbn. ring. }
    assert (E2 : norm2 (v_sub pos (v_add lp (q_rot lq (v_scale POS_X d))))
                 = norm2 (v_sub pos lp) - 2 * d * dot (v_sub pos lp) (xaxis lq) + d * d * (N * N)).
    { subst N. destruct lp, lq, pos. unfold norm2, dot, xaxis, qnorm2, POS_X, q_rot, v_add, v_sub, v_scale, v_cross, v_dot; cbn. ring. }
    assert (E3 : dot (q_rot lq (V3 (- earC sinL cosL) 0 (- earS sinL cosL))) (v_sub pos (v_add lp (q_rot lq (v_scale NEG_X d))))
                 = - C * (dot (v_sub pos lp) (xaxis lq) + d * (N * N)) - S * dot (v_sub pos lp) (zaxis lq)).
    { subst N C S. generalize (earC sinL cosL) (earS sinL cosL). intros c s.
      destruct lp, lq, pos. unfold norm2, dot, xaxis, zaxis, qnorm2, NEG_X, q_rot, v_add, v_sub, v_scale, v_cross, v_dot; cbn. ring. }
    assert (E4 : dot (q_rot lq (V3 (earC (- sinL) cosL) 0 (earS (- sinL) cosL))) (v_sub pos (v_add lp (q_rot lq (v_scale POS_X d))))
                 = C * (dot (v_sub pos lp) (xaxis lq) - d * (N * N)) - S * dot (v_sub pos lp) (zaxis lq)).
    { replace (earC (- sinL) cosL) with C by (subst C; unfold earC; ring).
      replace (earS (- sinL) cosL) with (- S) by (subst S; unfold earS; ring).
      subst N. generalize C S. intros c s.
      destruct lp, lq, pos. unfold norm2, dot, xaxis, zaxis, qnorm2, POS_X, q_rot, v_add, v_sub, v_scale, v_cross, v_dot; cbn. ring. }
    rewrite E1, E2, E3, E4. subst N. rewrite Hu. rewrite !Rmult_1_r. reflexivity.
  Qed.
End Ears.

(** ** range *)
Lemma ear_dir_unit q s c v :
  unitq q -> s * s + c * c = 1 -> norm2 v = 1 -> norm2 (q_rot q (q_rot (rot_y s c) v)) = 1.
Proof.
  intros Hq Hsc Hv. unfold norm2 in *. rewrite !rot_dot, Hv. unfold unitq in Hq. rewrite Hq.
  replace (qnorm2 (rot_y s c)) with (s * s + c * c) by (unfold qnorm2, rot_y; cbn; ring).
  rewrite Hsc. ring.
Qed.

Lemma ear_volumes_range d sinL cosL sinR cosR lp lq pos :
  unitq lq -> ears_ok sinL cosL sinR cosR ->
  0 <= fst (ear_volumes_R d sinL cosL sinR cosR lp lq pos) <= 1 /\
  0 <= snd (ear_volumes_R d sinL cosL sinR cosR lp lq pos) <= 1.
Proof.
  intros Hu [HuL HsS HsC]. rewrite ear_volumes_vectors. cbv zeta. cbn [fst snd].
  assert (HuR : sinR * sinR + cosR * cosR = 1) by (subst; lra).
  assert (HL : norm2 (q_rot lq (q_rot (rot_y sinL cosL) NEG_X)) = 1).
  { apply ear_dir_unit; auto. unfold norm2, dot, NEG_X; cbn; ring. }
  assert (HR : norm2 (q_rot lq (q_rot (rot_y sinR cosR) POS_X)) = 1).
  { apply ear_dir_unit; auto. unfold norm2, dot, POS_X; cbn; ring. }
  pose proof (nz_core_range _ (v_sub pos (v_add lp (q_rot lq (v_scale NEG_X d)))) HL) as H1.
  pose proof (nz_core_range _ (v_sub pos (v_add lp (q_rot lq (v_scale POS_X d)))) HR) as H2.
  split; lra.
Qed.

Lemma ear_gains_unfold d sinL cosL sinR cosR s lp lq pos :
  ear_gains_R d sinL cosL sinR cosR s lp lq pos =
  ((1 - s) + (1 - (1 - s)) * fst (ear_volumes_R d sinL cosL sinR cosR lp lq pos),
   (1 - s) + (1 - (1 - s)) * snd (ear_volumes_R d sinL cosL sinR cosR lp lq pos)).
Proof.
  unfold ear_gains_R, ear_gains, ear_volumes_R.
  destruct (ear_volumes d sinL cosL sinR cosR lp lq pos); reflexivity.
Qed.

Lemma ear_gains_range d sinL cosL sinR cosR s lp lq pos :
  unitq lq -> ears_ok sinL cosL sinR cosR -> 0 <= s <= 1 ->
  1 - s <= fst (ear_gains_R d sinL cosL sinR cosR s lp lq pos) <= 1 /\
  1 - s <= snd (ear_gains_R d sinL cosL sinR cosR s lp lq pos) <= 1.
Proof.
  intros Hu He Hs. rewrite ear_gains_unfold. cbn [fst snd].
  destruct (ear_volumes_range d sinL cosL sinR cosR lp lq pos Hu He) as [H1 H2].
  split; split; nra.
Qed.

Lemma clamp01_R_range (x : R) : 0 <= clamp01 x <= 1.
Proof.
  unfold clamp01. cbn [sltb s0 s1 Scalar_R].
  destruct (Rltb x 0) eqn:E1.
  - destruct (Rltb 1 0) eqn:E2; [apply Rltb_true in E2; lra | lra].
  - apply Rltb_false in E1. destruct (Rltb 1 x) eqn:E2; [lra | apply Rltb_false in E2; lra].
Qed.
Lemma clamp01_R_id (x : R) : 0 <= x <= 1 -> clamp01 x = x.
Proof.
  intros H. unfold clamp01. cbn [sltb s0 s1 Scalar_R].
  destruct (Rltb x 0) eqn:E1; [apply Rltb_true in E1; lra|].
  destruct (Rltb 1 x) eqn:E2; [apply Rltb_true in E2; lra | reflexivity].
Qed.

(** ** mirror through the listener's median plane *)
Definition mirror (lp : vec) (lq : qtn) (pos : vec) : vec :=
  v_sub pos (v_scale (xaxis lq) (2 * dot (v_sub pos lp) (xaxis lq))).

Lemma mirror_frame lp lq pos :
  unitq lq ->
  dot (v_sub (mirror lp lq pos) lp) (xaxis lq) = - dot (v_sub pos lp) (xaxis lq) /\
  dot (v_sub (mirror lp lq pos) lp) (zaxis lq) = dot (v_sub pos lp) (zaxis lq) /\
  norm2 (v_sub (mirror lp lq pos) lp) = norm2 (v_sub pos lp).
Proof.
  intros Hu. set (N := qnorm2 lq).
  assert (E1 : dot (v_sub (mirror lp lq pos) lp) (xaxis lq)
               = dot (v_sub pos lp) (xaxis lq) - 2 * dot (v_sub pos lp) (xaxis lq) * (N * N)).
  { subst N. destruct lp, lq, pos. unfold mirror, norm2, dot, xaxis, qnorm2, q_rot, v_add, v_sub, v_scale, v_cross, v_dot; cbn. ring. }
  assert (E2 : dot (v_sub (mirror lp lq pos) lp) (zaxis lq) = dot (v_sub pos lp) (zaxis lq)).
  { destruct lp, lq, pos. unfold mirror, norm2, dot, xaxis, zaxis, qnorm2, q_rot, v_add, v_sub, v_scale, v_cross, v_dot; cbn. ring. }
  assert (E3 : norm2 (v_sub (mirror lp lq pos) lp)
               = norm2 (v_sub pos lp) - 4 * (dot (v_sub pos lp) (xaxis lq) * dot (v_sub pos lp) (xaxis lq))
                 + 4 * (dot (v_sub pos lp) (xaxis lq) * dot (v_sub pos lp) (xaxis lq)) * (N * N)).
  { subst N. destruct lp, lq, pos. unfold mirror, norm2, dot, xaxis, qnorm2, q_rot, v_add, v_sub, v_scale, v_cross, v_dot; cbn. ring. }
  rewrite E1, E2, E3. subst N. unfold unitq in Hu. rewrite Hu. repeat split; ring.
Qed.

Lemma vol_mirror d sinL cosL xi zeta rho :
  volL d sinL cosL (- xi) zeta rho = volR d sinL cosL xi zeta rho /\
  volR d sinL cosL (- xi) zeta rho = volL d sinL cosL xi zeta rho.
Proof.
  unfold volL, volR. split.
  - replace (- earC sinL cosL * (- xi + d)) with (earC sinL cosL * (xi - d)) by ring.
    replace (rho + 2 * d * - xi + d * d) with (rho - 2 * d * xi + d * d) by ring. reflexivity.
  - replace (earC sinL cosL * (- xi - d)) with (- earC sinL cosL * (xi + d)) by ring.
    replace (rho - 2 * d * - xi + d * d) with (rho + 2 * d * xi + d * d) by ring. reflexivity.
Qed.

Lemma ear_gains_mirror d sinL cosL sinR cosR s lp lq pos :
  unitq lq -> ears_ok sinL cosL sinR cosR ->
  ear_gains_R d sinL cosL sinR cosR s lp lq (mirror lp lq pos) =
  (snd (ear_gains_R d sinL cosL sinR cosR s lp lq pos), fst (ear_gains_R d sinL cosL sinR cosR s lp lq pos)).
Proof.
  intros Hu He. rewrite !ear_gains_unfold. rewrite !(ear_volumes_frame _ _ _ _ _ _ _ _ Hu He).
  destruct (mirror_frame lp lq pos Hu) as (E1 & E2 & E3). rewrite E1, E2, E3. cbn [fst snd].
  destruct (vol_mirror d sinL cosL (dot (v_sub pos lp) (xaxis lq)) (dot (v_sub pos lp) (zaxis lq)) (norm2 (v_sub pos lp))) as [A B].
  rewrite A, B. reflexivity.
Qed.

(** ** rigid motions: listener and emitter moved by the same rotation [g] and translation [T] *)
Definition move (g : qtn) (T : vec) (p : vec) : vec := v_add (q_rot g p) T.

Lemma move_sub g T a b : v_sub (move g T a) (move g T b) = q_rot g (v_sub a b).
Proof. destruct g, T, a, b; apply vec_eq; unfold move, q_rot, v_add, v_sub, v_scale, v_cross, v_dot; cbn; ring. Qed.

Lemma rigid_frame g T lp lq pos :
  unitq g ->
  dot (v_sub (move g T pos) (move g T lp)) (xaxis (q_mul g lq)) = dot (v_sub pos lp) (xaxis lq) /\
  dot (v_sub (move g T pos) (move g T lp)) (zaxis (q_mul g lq)) = dot (v_sub pos lp) (zaxis lq) /\
  norm2 (v_sub (move g T pos) (move g T lp)) = norm2 (v_sub pos lp).
Proof.
  intros Hg. unfold unitq in Hg. rewrite move_sub. unfold xaxis, zaxis, norm2. rewrite !rot_mul, !rot_dot, Hg.
  repeat split; ring.
Qed.

Lemma ear_gains_rigid d sinL cosL sinR cosR s g T lp lq pos :
  unitq g -> unitq lq -> ears_ok sinL cosL sinR cosR ->
  ear_gains_R d sinL cosL sinR cosR s (move g T lp) (q_mul g lq) (move g T pos) =
  ear_gains_R d sinL cosL sinR cosR s lp lq pos.
Proof.
  intros Hg Hu He.
  assert (Hu' : unitq (q_mul g lq)) by (unfold unitq in *; rewrite qnorm2_mul, Hg, Hu; ring).
  rewrite !ear_gains_unfold.
  rewrite (ear_volumes_frame _ _ _ _ _ _ _ _ Hu' He), (ear_volumes_frame _ _ _ _ _ _ _ _ Hu He).
  destruct (rigid_frame g T lp lq pos Hg) as (E1 & E2 & E3). rewrite E1, E2, E3. reflexivity.
Qed.

Lemma distance_rigid g T lp pos :
  unitq g -> v_length (v_sub (move g T lp) (move g T pos)) = v_length (v_sub lp pos).
Proof.
  intros Hg. unfold v_length. change (@v_dot R Scalar_R) with dot. rewrite move_sub, rot_dot.
  unfold unitq in Hg. rewrite Hg. do 2 f_equal. ring.
Qed.
