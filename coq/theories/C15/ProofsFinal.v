(** C15 — assembled statements, non-vacuity examples, binary32 witnesses. *)
From Coq Require Import Reals Lra Lia Psatz Bool List ZArith.
From KV Require Import Base.IEEE Base.Outcome C15.Model C15.BaseF32 C15.ProofsR C15.ProofsGains C15.ProofsSide C15.ProofsAtten.
Local Open Scope R_scope.

Lemma ear_gains_range_clamped d sinL cosL sinR cosR sraw lp lq pos :
  unitq lq -> ears_ok sinL cosL sinR cosR ->
  let s := clamp01 sraw in
  0 <= s <= 1 /\
  1 - s <= fst (ear_gains_R d sinL cosL sinR cosR s lp lq pos) <= 1 /\
  1 - s <= snd (ear_gains_R d sinL cosL sinR cosR s lp lq pos) <= 1.
Proof.
  intros Hu He s. pose proof (clamp01_R_range sraw) as Hs. split; [exact Hs|].
  apply ear_gains_range; assumption.
Qed.

Lemma clamp01_R_nonpos (x : R) : x <= 0 -> clamp01 x = 0.
Proof.
  intros H. unfold clamp01. cbn [sltb s0 s1 Scalar_R].
  destruct (Rltb x 0) eqn:E1.
  - destruct (Rltb 1 0) eqn:E2; [apply Rltb_true in E2; lra | reflexivity].
  - apply Rltb_false in E1. assert (x = 0) by lra. subst.
    destruct (Rltb 1 0) eqn:E2; [apply Rltb_true in E2; lra | reflexivity].
Qed.

Lemma strength_zero_unpanned p10 ease d sinL cosL sinR cosR dmin dmax l r lp lq pos sraw :
  sraw <= 0 ->
  spatialize_R p10 ease d sinL cosL sinR cosR dmin dmax false (l, r) lp lq pos sraw = Ok (l, r) /\
  spatialize_R p10 ease d sinL cosL sinR cosR dmin dmax true (l, r) lp lq pos sraw =
    Ok (l * amp_of_rv p10 (ease (1 - relR dmin dmax (dist lp pos))),
        r * amp_of_rv p10 (ease (1 - relR dmin dmax (dist lp pos)))).
Proof.
  intros H. rewrite !spatialize_product. cbv zeta. rewrite (clamp01_R_nonpos _ H).
  destruct (Reqb 0 0) eqn:E; [|apply Reqb_false in E; lra].
  rewrite !Rmult_1_r. split; reflexivity.
Qed.

Lemma spatialize_rigid p10 ease d sinL cosL sinR cosR dmin dmax atten inp g T lp lq pos sraw :
  unitq g -> unitq lq -> ears_ok sinL cosL sinR cosR ->
  spatialize_R p10 ease d sinL cosL sinR cosR dmin dmax atten inp (move g T lp) (q_mul g lq) (move g T pos) sraw =
  spatialize_R p10 ease d sinL cosL sinR cosR dmin dmax atten inp lp lq pos sraw.
Proof.
  intros Hg Hu He. destruct inp as [l r]. rewrite !spatialize_product. cbv zeta.
  rewrite (ear_gains_rigid _ _ _ _ _ _ _ _ _ _ _ Hg Hu He).
  unfold dist. replace (norm2 (v_sub (move g T lp) (move g T pos))) with (norm2 (v_sub lp pos)); [reflexivity|].
  rewrite move_sub. unfold norm2. rewrite rot_dot. unfold unitq in Hg. rewrite Hg. ring.
Qed.

Lemma attenuation_total p10 ease dmin dmax d :
  ease_ok ease -> powf10_ok p10 ->
  exists a, attenuation_R p10 ease dmin dmax d = Ok a /\ 0 <= a <= 1.
Proof.
  intros He Hp. destruct (attenuation_laws p10 ease dmin dmax He Hp) as (_ & _ & Hm).
  destruct (Hm d d (Rle_refl d)) as (a1 & a2 & E1 & E2 & H0 & H1 & H2).
  rewrite E1 in E2. injection E2 as ->. exists a2. split; [assumption | lra].
Qed.

(** no listener: silence, for every instance of the scalar operations (hence bit-for-bit) *)
Lemma no_listener_silent_any (F D : Type) (SF : Scalar F) (up : F -> D) (down : D -> F) (p10 : F -> F) (ease : D -> D)
      (d sinL cosL sinR cosR dmin dmax : F) (atten : bool) (input : F * F) (e : emitter F) (t : F) :
  spatial_frame up down p10 ease d sinL cosL sinR cosR dmin dmax atten input None e t = Ok (s0, s0).
Proof. reflexivity. Qed.

(** a parameter mapped from the listener distance *)
Lemma distance_param_any (F D : Type) (SF : Scalar F) (SD : Scalar D) (up : F -> D) (down : D -> F) (map_ease : D -> D)
      (m : mapping F D) (tp : vec3 F) :
  value_from_listener_distance up down map_ease m None tp = None /\
  forall li, value_from_listener_distance up down map_ease m (Some li) tp =
             Some (mapping_map down map_ease m (up (v_length (v_sub (l_pos li) tp)))).
Proof. split; reflexivity. Qed.
Lemma distance_param_R (map_ease : R -> R) (m : mapping R R) (li : listener R) (tp : vec) :
  value_from_listener_distance idR idR map_ease m (Some li) tp =
  Some (mapping_map idR map_ease m (dist (l_pos li) tp)).
Proof. reflexivity. Qed.

(** ** non-vacuity: the hypotheses are satisfiable by non-trivial objects *)
Example unitq_identity : unitq (Qt 0 0 0 1).
Proof. unfold unitq, qnorm2; cbn; ring. Qed.
Example unitq_half : unitq (Qt (1/2) (1/2) (1/2) (1/2)).
Proof. unfold unitq, qnorm2; cbn; field. Qed.
Example ears_ok_rational : ears_ok (-7/25) (24/25) (7/25) (24/25) /\ ears_outward (-7/25) (24/25).
Proof. split; [constructor | unfold ears_outward, earC, earS; split]; try field; lra. Qed.
Example ease_ok_linear : ease_ok (fun x => x).
Proof. repeat split; intros; lra. Qed.
Example ease_ok_square : ease_ok (fun x => x * x).
Proof. repeat split; intros; nra. Qed.
Example powf10_ok_Rpower : powf10_ok (Rpower 10).
Proof.
  repeat split.
  - intros x y H. apply Rle_Rpower; lra.
  - intros x. unfold Rpower. left. apply exp_pos.
  - apply Rpower_O. lra.
Qed.
(** the real constants: sin/cos of -+pi/16 *)
Example ears_ok_trig :
  ears_ok (sin (- (PI / 16))) (cos (- (PI / 16))) (sin (PI / 16)) (cos (PI / 16)) /\
  ears_outward (sin (- (PI / 16))) (cos (- (PI / 16))).
Proof.
  pose proof PI_RGT_0 as Hpi.
  split.
  - constructor.
    + pose proof (sin2_cos2 (- (PI / 16))) as H. unfold Rsqr in H. exact H.
    + rewrite sin_neg. ring.
    + rewrite cos_neg. reflexivity.
  - unfold ears_outward, earC, earS. rewrite sin_neg, cos_neg.
    assert (EC : cos (PI / 16) * cos (PI / 16) - - sin (PI / 16) * - sin (PI / 16) = cos (PI / 8)).
    { replace (PI / 8) with (2 * (PI / 16)) by field. rewrite cos_2a. ring. }
    assert (ES : - (2 * - sin (PI / 16) * cos (PI / 16)) = sin (PI / 8)).
    { replace (PI / 8) with (2 * (PI / 16)) by field. rewrite sin_2a. ring. }
    rewrite EC, ES.
    assert (Hc : 0 < cos (PI / 8)) by (apply cos_gt_0; lra).
    assert (Hs : 0 < sin (PI / 8)) by (apply sin_gt_0; lra).
    assert (Hsc : sin (PI / 8) <= cos (PI / 8)).
    { apply Rle_trans with (sin (PI / 4)).
      - apply sin_incr_1; lra.
      - rewrite sin_PI4, <- cos_PI4. apply cos_decr_1; lra. }
    split; nra.
Qed.

(** ** binary32 witnesses (the IEEE instance of the very same model) *)
Local Open Scope Z_scope.
Definition SINL32 : f32 := f32_of_bits 0xBE47C5C2.   (* sinf(-pi/16) *)
Definition COSL32 : f32 := f32_of_bits 0x3F7B14BE.   (* cosf(pi/16) *)
Definition SINR32 : f32 := f32_of_bits 0x3E47C5C2.
Definition ear_gains_b32 (s : f32) (lp : vec3 f32) (lq : quat f32) (pos : vec3 f32) : f32 * f32 :=
  ear_gains EAR_DISTANCE32 SINL32 COSL32 SINR32 COSL32 s lp lq pos.
Definition spatialize_b32 (p10 : f32 -> f32) (ease : f64 -> f64) (dmin dmax : f32) (atten : bool) (inp : f32 * f32)
           (lp : vec3 f32) (lq : quat f32) (pos : vec3 f32) (s : f32) : outcome (f32 * f32) :=
  spatialize f32_to_f64 f64_to_f32 p10 ease EAR_DISTANCE32 SINL32 COSL32 SINR32 COSL32 dmin dmax atten inp lp lq pos s.
Definition Q_ID32 : quat f32 := Qt (Z32 0) (Z32 0) (Z32 0) (Z32 1).
Definition V32 (x y z : Z) : vec3 f32 := V3 (f32_of_bits x) (f32_of_bits y) (f32_of_bits z).
Definition finite_frame (o : outcome (f32 * f32)) : bool :=
  match o with Ok (l, r) => isfinite32 l && isfinite32 r | _ => false end.

(** F22: an emitter inside the head, left of the centre ((-0.098, 0, 0.000834), i.e.
    -0.1 < x < 0) is LOUDER in the right ear.  Replayed on the real code by the harness. *)
Lemma side_preference_inside_head_b32 :
  exists pos : vec3 f32,
    lt32 (vx pos) (Z32 0) = true /\ lt32 (neg32 EAR_DISTANCE32) (vx pos) = true /\
    lt32 (fst (ear_gains_b32 (Z32 1) (V32 0 0 0) Q_ID32 pos)) (snd (ear_gains_b32 (Z32 1) (V32 0 0 0) Q_ID32 pos)) = true.
Proof. exists (V32 0xBDC8B439 0 0x3A5AA0CB). vm_compute. repeat split. Qed.

(** F11 (repaired): inverted and empty distance ranges neither panic nor produce NaN
    (observed as bit patterns: 0x3F800000 = 1.0, 0 = 0.0) *)
Definition amp_bits (o : outcome f32) : Z := match o with Ok a => bits_of_f32 a | Panic _ => -2 | Hang => -3 end.
Example f11_min_gt_max_fixed_b32 :
  let run d := amp_bits (attenuation f32_to_f64 f64_to_f32 (fun x => x) (fun x => x) (Z32 10) (Z32 1) d) in
  run (Z32 5) = 0 /\ run (Z32 1) = 0 /\ run (f32_of_bits 0x3F000000) = 0x3F800000.
Proof. vm_compute. repeat split. Qed.
Example f11_min_eq_max_fixed_b32 :
  let run d := amp_bits (attenuation f32_to_f64 f64_to_f32 (fun x => x) (fun x => x) (Z32 5) (Z32 5) d) in
  run (Z32 5) = 0 /\ run (Z32 6) = 0 /\ run (Z32 4) = 0x3F800000.
Proof. vm_compute. repeat split. Qed.

(** coincident emitter and listener; emitter exactly at an ear ([normalize_or_zero] of the zero
    vector: [1/0 = inf] fails the [is_finite] test and yields the zero vector, ear volume 0.5) *)
Example spatial_finite_coincident_b32 :
  finite_frame (spatialize_b32 (fun x => x) (fun x => x) (Z32 1) (Z32 100) true (f32_of_bits 0x3F000000, f32_of_bits 0xBE800000)
                  (V32 0x3F800000 0x40000000 0x40400000) Q_ID32 (V32 0x3F800000 0x40000000 0x40400000) (f32_of_bits 0x3F400000)) = true /\
  finite_frame (spatialize_b32 (fun x => x) (fun x => x) (Z32 1) (Z32 100) true (f32_of_bits 0x3F000000, f32_of_bits 0xBE800000)
                  (V32 0 0 0) (Qt (f32_of_bits 0x3F000000) (f32_of_bits 0x3F000000) (f32_of_bits 0x3F000000) (f32_of_bits 0x3F000000))
                  (V32 0 0 0) (Z32 1)) = true.
Proof. vm_compute. split; reflexivity. Qed.
Example spatial_finite_at_ear_b32 :
  let g := ear_gains_b32 (Z32 1) (V32 0 0 0) Q_ID32 (V3 (neg32 EAR_DISTANCE32) (Z32 0) (Z32 0)) in
  bits_of_f32 (fst g) = 0x3F000000 /\ isfinite32 (snd g) = true.
Proof. vm_compute. split; reflexivity. Qed.
(** far apart: the difference of the positions overflows to infinity; distance inf clamps to the
    maximum, and [normalize_or_zero] of an infinite vector is the zero vector ([1/inf = 0]) *)
Example spatial_finite_far_apart_b32 :
  finite_frame (spatialize_b32 (fun x => x) (fun x => x) (Z32 1) (Z32 100) true (f32_of_bits 0x3F000000, f32_of_bits 0xBE800000)
                  (V32 0x7F61B1E6 0 0) Q_ID32 (V32 0xFF61B1E6 0 0) (f32_of_bits 0x3F400000)) = true /\
  finite_frame (spatialize_b32 (fun x => x) (fun x => x) (Z32 1) (Z32 100) false (f32_of_bits 0x3F000000, f32_of_bits 0xBE800000)
                  (V32 0x7F61B1E6 0 0) Q_ID32 (V32 0xFF61B1E6 0 0) (Z32 1)) = true.
Proof. vm_compute. split; reflexivity. Qed.

(** A spatial track never amplifies: each output channel is bounded by the larger input channel,
    for every placement, strength (also outside [0,1]), distance range and monotone attenuation curve. *)
Local Open Scope R_scope.
Lemma Rabs_scale_le (x k m : R) : 0 <= k <= 1 -> Rabs x <= m -> Rabs (x * k) <= m.
Proof.
  intros Hk Hx. rewrite Rabs_mult, (Rabs_right k) by lra.
  pose proof (Rabs_pos x) as Hp. nra.
Qed.

Lemma spatialize_never_amplifies p10 ease d sinL cosL sinR cosR dmin dmax atten l r lp lq pos sraw :
  unitq lq -> ears_ok sinL cosL sinR cosR -> ease_ok ease -> powf10_ok p10 ->
  exists ol or_,
    spatialize_R p10 ease d sinL cosL sinR cosR dmin dmax atten (l, r) lp lq pos sraw = Ok (ol, or_) /\
    Rabs ol <= Rmax (Rabs l) (Rabs r) /\ Rabs or_ <= Rmax (Rabs l) (Rabs r).
Proof.
  intros Hu He Hease Hp. rewrite spatialize_product. cbv zeta.
  set (A := if atten then amp_of_rv p10 (ease (1 - relR dmin dmax (dist lp pos))) else 1).
  assert (HA : 0 <= A <= 1).
  { unfold A. destruct atten; [|lra].
    destruct (attenuation_total p10 ease dmin dmax (dist lp pos) Hease Hp) as (a & Ea & Ha).
    rewrite attenuation_R_eq in Ea. injection Ea as Ea. rewrite Ea. exact Ha. }
  destruct (ear_gains_range_clamped d sinL cosL sinR cosR sraw lp lq pos Hu He) as (Hs & HL & HR).
  cbv zeta in Hs, HL, HR.
  pose proof (Rmax_l (Rabs l) (Rabs r)) as Ml. pose proof (Rmax_r (Rabs l) (Rabs r)) as Mr.
  destruct (Reqb (clamp01 sraw) 0).
  - eexists. eexists. split; [reflexivity|]. split; apply Rabs_scale_le; lra.
  - eexists. eexists. split; [reflexivity|].
    assert (Hm : Rabs ((l * A + r * A) / 2) <= Rmax (Rabs l) (Rabs r)).
    { replace ((l * A + r * A) / 2) with ((l + r) / 2 * A) by field.
      apply Rabs_scale_le; [exact HA|].
      pose proof (Rabs_triang l r) as Ht.
      unfold Rdiv. rewrite Rabs_mult, (Rabs_right (/ 2)) by lra. lra. }
    split; apply Rabs_scale_le; try exact Hm; lra.
Qed.
