(** C15 — executable model of kira's spatial tracks.
    Transcribed from crates/kira/src/track/sub.rs ([SpatialData::spatialize],
    [listener_ear_positions], [listener_ear_directions], the listener lookup of
    [Track::process]), track/sub/spatial_builder.rs ([SpatialTrackDistances::relative_distance]),
    info.rs ([listener_distance], [interpolated_position], [interpolated_orientation]),
    value.rs ([Value::FromListenerDistance], [Mapping::map]), tween/tweenable.rs, decibels.rs,
    frame.rs ([as_mono]) and the glam 0.30.10 functions they call, in glam's operation order
    (scalar [Vec3]; SSE2 [Quat]: [mul_vec3a], [lerp], [Vec4::normalize], [dot4_in_x]).

    Written ONCE over two abstract scalar types: [F] (Rust [f32]) and [D] (Rust [f64]) with
    the casts between them.  Instances: Flocq binary32/binary64 (bit-exact, executable:
    Run.v) and [R]/[R] (Proofs*.v).  libm ([powf], [sin_cos]) and the easing curve are
    arguments, never axioms.  No proofs in this file. *)
From Coq Require Import ZArith List Bool.
From KV Require Import Base.Outcome.
Import ListNotations.

Class Scalar (T : Type) := {
  s0 : T; s1 : T; s2 : T; s20 : T; sm60 : T;     (* 0.0 1.0 2.0 20.0 -60.0 *)
  sadd : T -> T -> T; ssub : T -> T -> T; smul : T -> T -> T; sdiv : T -> T -> T;
  sneg : T -> T; ssqrt : T -> T;
  sltb : T -> T -> bool; sleb : T -> T -> bool; seqb : T -> T -> bool;
  sisfinite : T -> bool;
  ssignneg : T -> bool;                          (* the IEEE sign bit *)
}.

Section Generic.
  Context {F D : Type} {SF : Scalar F} {SD : Scalar D}.
  Variable up : F -> D.        (* [x as f64] / [x.into()] *)
  Variable down : D -> F.      (* [x as f32] *)

  Local Notation "x + y" := (sadd x y).
  Local Notation "x - y" := (ssub x y).
  Local Notation "x * y" := (smul x y).
  Local Notation "x / y" := (sdiv x y).

  (** ** glam [Vec3] (plain scalar struct on every target) *)
  Record vec3 := V3 { vx : F; vy : F; vz : F }.
  Record quat := Qt { qx : F; qy : F; qz : F; qw : F }.

  Definition v_zero : vec3 := V3 s0 s0 s0.
  Definition v_add (a b : vec3) := V3 (vx a + vx b) (vy a + vy b) (vz a + vz b).
  Definition v_sub (a b : vec3) := V3 (vx a - vx b) (vy a - vy b) (vz a - vz b).
  Definition v_scale (a : vec3) (k : F) := V3 (vx a * k) (vy a * k) (vz a * k).
  (** [Vec3::dot]: [(x*x') + (y*y') + (z*z')], left-associated; the SSE2 [dot3_in_x] has the same order *)
  Definition v_dot (a b : vec3) : F := (vx a * vx b + vy a * vy b) + vz a * vz b.
  Definition v_length (a : vec3) : F := ssqrt (v_dot a a).
  (** [length_recip] = [self.length().recip()] = [1.0 / length] *)
  Definition v_length_recip (a : vec3) : F := s1 / v_length a.
  (** [normalize_or_zero] = [normalize_or(ZERO)] *)
  Definition v_normalize_or_zero (a : vec3) : vec3 :=
    let rcp := v_length_recip a in
    if sisfinite rcp && sltb s0 rcp then v_scale a rcp else v_zero.
  (** [Vec3::lerp]: [self * (1.0 - s) + rhs * s] *)
  Definition v_lerp (a b : vec3) (s : F) : vec3 := v_add (v_scale a (s1 - s)) (v_scale b s).
  (** [Tweenable for Vec3] / [for f32]: [a + (b - a) * amount as f32] *)
  Definition v_interp (a b : vec3) (t : F) : vec3 := v_add a (v_scale (v_sub b a) t).
  Definition f_interp (a b : F) (t : F) : F := a + (b - a) * t.

  (** ** glam [Quat] (SSE2: four lanes, every lane operation is an IEEE single operation) *)
  (** [dot4_in_x]: [(p0 + p2) + (p1 + p3)] *)
  Definition q_dot (a b : quat) : F :=
    (qx a * qx b + qz a * qz b) + (qy a * qy b + qw a * qw b).
  Definition q_scale (a : quat) (k : F) := Qt (qx a * k) (qy a * k) (qz a * k) (qw a * k).
  Definition q_add (a b : quat) := Qt (qx a + qx b) (qy a + qy b) (qz a + qz b) (qw a + qw b).
  Definition q_neg (a : quat) := Qt (sneg (qx a)) (sneg (qy a)) (sneg (qz a)) (sneg (qw a)).
  (** [Vec4::normalize]: [self / sqrt(dot4(self, self))], no zero test *)
  Definition q_normalize (a : quat) : quat :=
    let len := ssqrt (q_dot a a) in Qt (qx a / len) (qy a / len) (qz a / len) (qw a / len).
  (** [Quat::lerp]: flip [end] when the sign bit of the dot product is set, then
      [(self * (1.0 - s) + end * s).normalize()] *)
  Definition q_lerp (a b : quat) (s : F) : quat :=
    let b' := if ssignneg (q_dot a b) then q_neg b else b in
    q_normalize (q_add (q_scale a (s1 - s)) (q_scale b' s)).
  (** [Vec3A::cross] *)
  Definition v_cross (a b : vec3) : vec3 :=
    V3 (vy a * vz b - vy b * vz a) (vz a * vx b - vz b * vx a) (vx a * vy b - vx b * vy a).
  (** [Quat::mul_vec3a] ([Quat * Vec3]):
      [(v * (w*w - b.b) + b * (dot(v, b) * 2)) + cross(b, v) * (w * 2)] *)
  Definition q_rot (q : quat) (v : vec3) : vec3 :=
    let w := qw q in
    let b := V3 (qx q) (qy q) (qz q) in
    let b2 := v_dot b b in
    v_add (v_add (v_scale v (w * w - b2)) (v_scale b (v_dot v b * s2)))
          (v_scale (v_cross b v) (w * s2)).

  (** ** Rust [f32::clamp]: [assert!(min <= max)], then two comparisons (NaN passes through) *)
  Definition clamp_chk (x lo hi : F) : outcome F :=
    if sleb lo hi then
      let x1 := if sltb x lo then lo else x in
      Ok (if sltb hi x1 then hi else x1)
    else Panic ClampMinMax.
  Definition clamp01 {T} {ST : Scalar T} (x : T) : T :=
    let x1 := if sltb x s0 then s0 else x in
    if sltb s1 x1 then s1 else x1.

  (** ** [SpatialTrackDistances::relative_distance]: an empty or inverted range has no slope
      (full volume closer than the max distance, silent from there on); otherwise clamp and
      map affinely to [0,1] *)
  Definition relative_distance (dmin dmax d : F) : outcome F :=
    if sleb dmax dmin then Ok (if sleb dmax d then s1 else s0)
    else
      let! dc := clamp_chk d dmin dmax in
      Ok ((dc - dmin) / (dmax - dmin)).

  (** ** [Decibels::as_amplitude]; [powf10 x] stands for [10.0f32.powf(x)] *)
  Variable powf10 : F -> F.
  Definition db_as_amplitude (db : F) : F :=
    if seqb db s0 then s1
    else if sleb db sm60 then s0
    else powf10 (db / s20).

  (** ** the attenuation factor as a function of the emitter–listener distance:
      [relative_distance], [Easing::apply((1.0 - rd).into()) as f32],
      [Tweenable::interpolate(SILENCE, IDENTITY, rv.into()).as_amplitude()] *)
  Variable ease : D -> D.
  Definition attenuation (dmin dmax d : F) : outcome F :=
    let! rd := relative_distance dmin dmax d in
    let rv := down (ease (up (s1 - rd))) in
    let db := f_interp sm60 s0 (down (up rv)) in
    Ok (db_as_amplitude db).

  (** ** ears.  [ear_dist] is [EAR_DISTANCE = 0.1]; [(sinL, cosL)] / [(sinR, cosR)] are
      [sin_cos(-FRAC_PI_8 * 0.5)] / [sin_cos(FRAC_PI_8 * 0.5)] as [Quat::from_rotation_y] computes them *)
  Variables (ear_dist sinL cosL sinR cosR : F).
  Definition NEG_X : vec3 := V3 (sneg s1) s0 s0.
  Definition POS_X : vec3 := V3 s1 s0 s0.
  Definition listener_ear_positions (lp : vec3) (lq : quat) : vec3 * vec3 :=
    (v_add lp (q_rot lq (v_scale NEG_X ear_dist)), v_add lp (q_rot lq (v_scale POS_X ear_dist))).
  Definition rot_y (s c : F) : quat := Qt s0 s s0 c.
  Definition listener_ear_directions (lq : quat) : vec3 * vec3 :=
    let l_rel := q_rot (rot_y sinL cosL) NEG_X in
    let r_rel := q_rot (rot_y sinR cosR) POS_X in
    (q_rot lq l_rel, q_rot lq r_rel).

  (** the two "ear volumes" [(dir . normalize_or_zero(position - ear) + 1) / 2] *)
  Definition ear_volumes (lp : vec3) (lq : quat) (pos : vec3) : F * F :=
    let '(lpos, rpos) := listener_ear_positions lp lq in
    let '(ldir, rdir) := listener_ear_directions lq in
    let dl := v_normalize_or_zero (v_sub pos lpos) in
    let dr := v_normalize_or_zero (v_sub pos rpos) in
    ((v_dot ldir dl + s1) / s2, (v_dot rdir dr + s1) / s2).
  (** the per-ear gain factors [min_ear + (1 - min_ear) * ear_volume], [min_ear = 1 - strength] *)
  Definition ear_gains (strength : F) (lp : vec3) (lq : quat) (pos : vec3) : F * F :=
    let min_ear := s1 - strength in
    let '(lv, rv) := ear_volumes lp lq pos in
    (min_ear + (s1 - min_ear) * lv, min_ear + (s1 - min_ear) * rv).

  (** [Frame::as_mono] *)
  Definition as_mono (fr : F * F) : F * F := let m := (fst fr + snd fr) / s2 in (m, m).

  (** ** [SpatialData::spatialize] on already interpolated listener data.
      [atten]: [attenuation_function.is_some()]; [strength_raw]: before the clamp *)
  Definition spatialize (dmin dmax : F) (atten : bool) (input : F * F)
             (lp : vec3) (lq : quat) (pos : vec3) (strength_raw : F) : outcome (F * F) :=
    let strength := clamp01 strength_raw in
    let! out1 :=
      if atten then
        let distance := v_length (v_sub lp pos) in
        let! amp := attenuation dmin dmax distance in
        Ok (fst input * amp, snd input * amp)
      else Ok input in
    if negb (seqb strength s0) then
      let m := as_mono out1 in
      let '(gl, gr) := ear_gains strength lp lq pos in
      Ok (fst m * gl, snd m * gr)
    else Ok out1.

  (** ** listener data as [Info::listener_info] returns it, and the per-frame part of
      [Track::process]: interpolate listener and emitter at [t = time_in_chunk as f32], spatialize;
      no listener => [Frame::ZERO] *)
  Record listener := { l_prev_pos : vec3; l_pos : vec3; l_prev_q : quat; l_q : quat }.
  Record emitter := { e_prev_pos : vec3; e_pos : vec3; e_prev_strength : F; e_strength : F }.
  Definition spatial_frame (dmin dmax : F) (atten : bool) (input : F * F)
             (l : option listener) (e : emitter) (t : F) : outcome (F * F) :=
    match l with
    | None => Ok (s0, s0)
    | Some li =>
        let lp := v_lerp (l_prev_pos li) (l_pos li) t in
        let lq := q_lerp (l_prev_q li) (l_q li) t in
        spatialize dmin dmax atten input lp lq
                   (v_interp (e_prev_pos e) (e_pos e) t)
                   (f_interp (e_prev_strength e) (e_strength e) t)
    end.

  (** ** [Info::listener_distance]: [Vec3::from(listener.position).distance(track.position)],
      current (not interpolated) values; [None] without a listener *)
  Definition listener_distance (l : option listener) (track_pos : vec3) : option F :=
    match l with
    | None => None
    | Some li => Some (v_length (v_sub (l_pos li) track_pos))
    end.

  (** ** [Mapping::map] for an [f32]-valued output ([Decibels], [f32]):
      amount in f64 [(input - lo) / (hi - lo)], clamp to [0,1], easing, then
      [out_lo + (out_hi - out_lo) * amount as f32] *)
  Record mapping := { in_lo : D; in_hi : D; out_lo : F; out_hi : F }.
  Variable map_ease : D -> D.
  Definition mapping_map (m : mapping) (input : D) : F :=
    let amount := sdiv (ssub input (in_lo m)) (ssub (in_hi m) (in_lo m)) in
    let amount := clamp01 amount in
    let amount := map_ease amount in
    f_interp (out_lo m) (out_hi m) (down amount).
  (** [Value::FromListenerDistance(mapping).raw_value(info)] *)
  Definition value_from_listener_distance (m : mapping) (l : option listener) (track_pos : vec3) : option F :=
    option_map (fun d => mapping_map m (up d)) (listener_distance l track_pos).

  (** the volume stage of [Track::process] for one frame:
      [frame *= volume.interpolated_value(t).as_amplitude() * fade_volume] with [fade_volume = 1.0] *)
  Definition apply_volume (prev_db cur_db t : F) (fr : F * F) : F * F :=
    let g := db_as_amplitude (f_interp prev_db cur_db t) * s1 in
    (fst fr * g, snd fr * g).
End Generic.

Arguments vec3 : clear implicits.
Arguments quat : clear implicits.
Arguments listener : clear implicits.
Arguments emitter : clear implicits.
Arguments mapping : clear implicits.
